package main

// C16 — no handler or message hook runs on a connection that failed authentication.
//
// A real server peer with the real auth checker plugin (scripted checker function), a recording
// plugin on every per-message stage and counting handlers is served over an in-memory connection
// whose other end is a scripted RAW client (it writes bytes; what the server wrote is taken from
// the wire capture). The same case line is run by the Lean model (Model/Auth.runCase over the
// frames that Model/RawProto.unpack finds in the client's bytes).

import (
	"fmt"
	"io"
	"net"
	"runtime"
	"sort"
	"strconv"
	"strings"
	"sync"
	"sync/atomic"
	"time"

	erpc "github.com/henrylee2cn/erpc/v6"
	"github.com/henrylee2cn/erpc/v6/plugin/auth"
	"github.com/henrylee2cn/erpc/v6/socket"

	"verif/harness/internal/hx"
	"verif/harness/internal/mem"
)

const (
	c16CtxAge   = 150 * time.Millisecond
	c16SessAge  = 150 * time.Millisecond
	c16SizeLim  = 65536
	c16CallPath = "/c16/c16echo"
	c16PushPath = "/c16/c16note"
)

// c16Rec is the recording plugin: every per-message stage, the accept chain position after the
// checker, and the disconnect hook.
type c16Rec struct {
	hooks, prh, disc, handlers int32
	passed                     int32 // the accept-hook chain got past the checker
	early                      int32 // per-message hooks / handlers that ran before `passed`
	exch, recvCalls            int32
	// the other live sessions of the peer (established by the harness before the case starts) are
	// not the connection under test: their accept / reader start / disconnect is kept apart
	setup     int32 // 1 while the harness establishes them
	nOthers   int32
	others    sync.Map // the session (any interface holding the *session) -> index
	otherDisc sync.Map // index -> true: that session ran its disconnect hook
}

func (r *c16Rec) otherIdx(s interface{}) (int, bool) {
	if v, ok := r.others.Load(s); ok {
		return v.(int), true
	}
	return 0, false
}

func (r *c16Rec) hook() *erpc.Status {
	if atomic.LoadInt32(&r.passed) == 0 {
		atomic.AddInt32(&r.early, 1)
	}
	atomic.AddInt32(&r.hooks, 1)
	return nil
}
func (r *c16Rec) handler() {
	if atomic.LoadInt32(&r.passed) == 0 {
		atomic.AddInt32(&r.early, 1)
	}
	atomic.AddInt32(&r.handlers, 1)
}

func (r *c16Rec) Name() string { return "c16-rec" }
func (r *c16Rec) PostAccept(s erpc.PreSession) *erpc.Status {
	if atomic.LoadInt32(&r.setup) == 1 {
		r.others.Store(interface{}(s), int(atomic.AddInt32(&r.nOthers, 1))-1)
		return nil
	}
	atomic.StoreInt32(&r.passed, 1)
	return nil
}
func (r *c16Rec) PostDial(erpc.PreSession, bool) *erpc.Status {
	atomic.StoreInt32(&r.passed, 1)
	return nil
}
func (r *c16Rec) PreReadHeader(ctx erpc.PreCtx) error {
	if _, other := r.otherIdx(interface{}(ctx.Session())); other {
		return nil
	}
	if atomic.LoadInt32(&r.passed) == 0 {
		atomic.AddInt32(&r.early, 1)
	}
	atomic.AddInt32(&r.prh, 1)
	return nil
}
func (r *c16Rec) PostReadCallHeader(erpc.ReadCtx) *erpc.Status  { return r.hook() }
func (r *c16Rec) PreReadCallBody(erpc.ReadCtx) *erpc.Status     { return r.hook() }
func (r *c16Rec) PostReadCallBody(erpc.ReadCtx) *erpc.Status    { return r.hook() }
func (r *c16Rec) PostReadPushHeader(erpc.ReadCtx) *erpc.Status  { return r.hook() }
func (r *c16Rec) PreReadPushBody(erpc.ReadCtx) *erpc.Status     { return r.hook() }
func (r *c16Rec) PostReadPushBody(erpc.ReadCtx) *erpc.Status    { return r.hook() }
func (r *c16Rec) PostReadReplyHeader(erpc.ReadCtx) *erpc.Status { return r.hook() }
func (r *c16Rec) PreReadReplyBody(erpc.ReadCtx) *erpc.Status    { return r.hook() }
func (r *c16Rec) PostReadReplyBody(erpc.ReadCtx) *erpc.Status   { return r.hook() }
func (r *c16Rec) PreWriteCall(erpc.WriteCtx) *erpc.Status       { return r.hook() }
func (r *c16Rec) PostWriteCall(erpc.WriteCtx) *erpc.Status      { return r.hook() }
func (r *c16Rec) PreWriteReply(erpc.WriteCtx) *erpc.Status      { return r.hook() }
func (r *c16Rec) PostWriteReply(erpc.WriteCtx) *erpc.Status     { return r.hook() }
func (r *c16Rec) PreWritePush(erpc.WriteCtx) *erpc.Status       { return r.hook() }
func (r *c16Rec) PostWritePush(erpc.WriteCtx) *erpc.Status      { return r.hook() }
func (r *c16Rec) PostDisconnect(s erpc.BaseSession) *erpc.Status {
	if i, other := r.otherIdx(interface{}(s)); other {
		r.otherDisc.Store(i, true)
		return nil
	}
	atomic.AddInt32(&r.disc, 1)
	return nil
}

var (
	_ erpc.PostAcceptPlugin          = (*c16Rec)(nil)
	_ erpc.PostDialPlugin            = (*c16Rec)(nil)
	_ erpc.PreReadHeaderPlugin       = (*c16Rec)(nil)
	_ erpc.PostReadCallHeaderPlugin  = (*c16Rec)(nil)
	_ erpc.PreReadCallBodyPlugin     = (*c16Rec)(nil)
	_ erpc.PostReadCallBodyPlugin    = (*c16Rec)(nil)
	_ erpc.PostReadPushHeaderPlugin  = (*c16Rec)(nil)
	_ erpc.PreReadPushBodyPlugin     = (*c16Rec)(nil)
	_ erpc.PostReadPushBodyPlugin    = (*c16Rec)(nil)
	_ erpc.PostReadReplyHeaderPlugin = (*c16Rec)(nil)
	_ erpc.PreReadReplyBodyPlugin    = (*c16Rec)(nil)
	_ erpc.PostReadReplyBodyPlugin   = (*c16Rec)(nil)
	_ erpc.PreWriteCallPlugin        = (*c16Rec)(nil)
	_ erpc.PostWriteCallPlugin       = (*c16Rec)(nil)
	_ erpc.PreWriteReplyPlugin       = (*c16Rec)(nil)
	_ erpc.PostWriteReplyPlugin      = (*c16Rec)(nil)
	_ erpc.PreWritePushPlugin        = (*c16Rec)(nil)
	_ erpc.PostWritePushPlugin       = (*c16Rec)(nil)
	_ erpc.PostDisconnectPlugin      = (*c16Rec)(nil)
)

// handlers of the server under test; they count into the recorder of the peer that runs them.
var c16RecOf sync.Map // erpc.Peer -> *c16Rec

func c16Count(p erpc.Peer) {
	if r, ok := c16RecOf.Load(p); ok {
		r.(*c16Rec).handler()
	}
}

func c16echo(ctx erpc.CallCtx, arg *[]byte) ([]byte, *erpc.Status) {
	c16Count(ctx.Peer())
	return append([]byte(nil), *arg...), nil
}

func c16note(ctx erpc.PushCtx, arg *[]byte) *erpc.Status {
	c16Count(ctx.Peer())
	return nil
}

type c16Env struct {
	srv erpc.Peer
	rec *c16Rec

	// what the scripted checker did with the session it was handed (the connection under test)
	mu     sync.Mutex
	self   interface{} // the auth.Session (holds the *session)
	selfID string      // its default id (the remote address)
	cur    int         // current id (model numbering: 0 = default id)
	ids    []int       // every id it had, oldest first
	peeks  []string    // "<listed under the current id>:<CountSession>" per read
	// other live sessions of the peer
	setupNames chan string
	otherSess  []erpc.Session
	otherConns []*mem.Conn
	otherIDs   []int
}

// c16Op is one session operation of the scripted checker: SetID(id) or a read of peer and session.
type c16Op struct {
	set bool
	id  int
}

// c16Script is the scripted checker function: the session operations `pre`, nrecv RecvOnce calls,
// the session operations `post`; prop: return the first non-OK RecvOnce status; otherwise the
// verdict ("0" accept, "multi" = auth.MultiRecvErr, "panic", else a code).
type c16Script struct {
	nrecv   int
	prop    bool
	verdict string
	pre     []c16Op
	post    []c16Op
}

// c16ParseOps: "-" or "."-separated "s<id>" / "p".
func c16ParseOps(s string) []c16Op {
	if s == "" || s == "-" {
		return nil
	}
	var ops []c16Op
	for _, t := range strings.Split(s, ".") {
		if t == "p" {
			ops = append(ops, c16Op{})
		} else if strings.HasPrefix(t, "s") {
			ops = append(ops, c16Op{set: true, id: c16Atoi(t[1:])})
		}
	}
	return ops
}

func c16ShowOps(ops []c16Op) string {
	if len(ops) == 0 {
		return "-"
	}
	ss := make([]string, len(ops))
	for i, o := range ops {
		ss[i] = "p"
		if o.set {
			ss[i] = "s" + strconv.Itoa(o.id)
		}
	}
	return strings.Join(ss, ".")
}

// idStr: the session id string of model id n (0 = the default id of the connection under test).
func (e *c16Env) idStr(n int) string {
	if n == 0 {
		return e.selfID
	}
	return "c16id-" + strconv.Itoa(n)
}

// owner: who `GetSession(id)` is: "s" the connection under test, "o<k>" another session, "-" nobody.
func (e *c16Env) owner(id string) string {
	got, ok := e.srv.GetSession(id)
	if !ok {
		return "-"
	}
	if e.self != nil && interface{}(got) == e.self {
		return "s"
	}
	if i, other := e.rec.otherIdx(interface{}(got)); other {
		return "o" + strconv.Itoa(i)
	}
	return "x"
}

// selfListed: RangeSession visits the connection under test.
func (e *c16Env) selfListed() bool {
	found := false
	e.srv.RangeSession(func(s erpc.Session) bool {
		if e.self != nil && interface{}(s) == e.self {
			found = true
		}
		return true
	})
	return found
}

// doOps runs session operations of the checker on the session it was handed.
func (e *c16Env) doOps(sess auth.Session, ops []c16Op) {
	for _, o := range ops {
		if o.set {
			sess.SetID(e.idStr(o.id))
			e.mu.Lock()
			if o.id != e.cur {
				e.cur = o.id
				e.ids = append(e.ids, o.id)
			}
			e.mu.Unlock()
			continue
		}
		p := sess.Peer()
		e.mu.Lock()
		cur := e.cur
		e.mu.Unlock()
		got, ok := p.GetSession(e.idStr(cur))
		listed := 0
		if ok && interface{}(got) == interface{}(sess) {
			listed = 1
		}
		n := p.CountSession()
		_ = sess.LocalAddr().String()
		_ = sess.RemoteAddr().String()
		sess.Swap().Store("c16-peek", n)
		e.mu.Lock()
		e.peeks = append(e.peeks, fmt.Sprintf("%d:%d", listed, n))
		e.mu.Unlock()
	}
}

func c16NewServer(k c16Script, unk bool) *c16Env {
	rec := &c16Rec{}
	env := &c16Env{rec: rec, ids: []int{0}, setupNames: make(chan string, 8)}
	checker := auth.NewCheckerPlugin(func(sess auth.Session, fn auth.RecvOnce) (interface{}, *erpc.Status) {
		if atomic.LoadInt32(&rec.setup) == 1 {
			// another session of the peer being established by the harness: named and accepted
			sess.SetID(<-env.setupNames)
			return []byte("welcome"), nil
		}
		env.mu.Lock()
		env.self, env.selfID = interface{}(sess), sess.RemoteAddr().String()
		env.mu.Unlock()
		env.doOps(sess, k.pre)
		var firstErr *erpc.Status
		for i := 0; i < k.nrecv; i++ {
			var tok []byte
			st := fn(&tok)
			atomic.AddInt32(&rec.recvCalls, 1)
			if st != auth.MultiRecvErr {
				atomic.AddInt32(&rec.exch, 1)
			}
			if !st.OK() && firstErr == nil {
				firstErr = st
			}
		}
		env.doOps(sess, k.post)
		if k.prop && firstErr != nil {
			return nil, firstErr
		}
		switch k.verdict {
		case "0":
			return []byte("welcome"), nil
		case "multi":
			return nil, auth.MultiRecvErr
		case "panic":
			// a fault inside the checker (e.g. slicing a too short credential): the PostAccept stage
			// runner must turn it into a rejection, never into an accepted connection
			var cred []byte
			_ = cred[:7]
		}
		c, _ := strconv.Atoi(k.verdict)
		return nil, erpc.NewStatus(int32(c), "denied", "")
	})
	srv := erpc.NewPeer(erpc.PeerConfig{DefaultSessionAge: c16SessAge, DefaultContextAge: c16CtxAge}, checker, rec)
	c16RecOf.Store(srv, rec)
	g := srv.SubRoute("/c16")
	if p := g.RouteCallFunc(c16echo); p != c16CallPath {
		panic("c16: unexpected call path " + p)
	}
	if p := g.RoutePushFunc(c16note); p != c16PushPath {
		panic("c16: unexpected push path " + p)
	}
	if unk {
		srv.SetUnknownCall(func(ctx erpc.UnknownCallCtx) (interface{}, *erpc.Status) {
			c16Count(ctx.Peer())
			return []byte("unk"), nil
		})
		srv.SetUnknownPush(func(ctx erpc.UnknownPushCtx) *erpc.Status {
			c16Count(ctx.Peer())
			return nil
		})
	}
	env.srv = srv
	return env
}

func (e *c16Env) close() {
	c16RecOf.Delete(e.srv)
	e.srv.Close()
	for _, c := range e.otherConns {
		c.Close()
	}
}

// c16NoDL is a connection that ignores deadlines: the other sessions of the peer stay idle and alive
// for the whole case, whatever the peer's session age.
type c16NoDL struct{ *mem.Conn }

func (c16NoDL) SetDeadline(time.Time) error      { return nil }
func (c16NoDL) SetReadDeadline(time.Time) error  { return nil }
func (c16NoDL) SetWriteDeadline(time.Time) error { return nil }

// addOthers establishes other live sessions on the server, one per id (through the real accept
// path and the real checker plugin, in setup mode).
func (e *c16Env) addOthers(ids []int) {
	if len(ids) == 0 {
		return
	}
	atomic.StoreInt32(&e.rec.setup, 1)
	for _, id := range ids {
		oa, ob := mem.Pair("")
		e.setupNames <- e.idStr(id)
		sess, st := e.srv.ServeConn(c16NoDL{ob})
		if sess == nil {
			panic("c16: other session not established: " + st.String())
		}
		e.otherSess = append(e.otherSess, sess)
		e.otherConns = append(e.otherConns, oa)
		e.otherIDs = append(e.otherIDs, id)
	}
	atomic.StoreInt32(&e.rec.setup, 0)
}

// c16Pack renders one frame with the real raw protocol.
func c16Pack(m *M) []byte {
	a, _ := mem.Pair("")
	if err := newRawPeer(a, socket.RawProtoFunc).Send(m); err != nil {
		panic("c16: pack: " + err.Error())
	}
	b, _ := a.Sent()
	return b
}

// c16Decode decodes the complete frames at the start of b with the real raw protocol.
func c16Decode(b []byte) []*M {
	if len(b) == 0 {
		return nil
	}
	a, c := mem.Pair("")
	a.Write(b)
	a.Close()
	rp := newRawPeer(c, socket.RawProtoFunc)
	var out []*M
	for {
		m, err := func() (m *M, err error) {
			defer func() {
				if recover() != nil {
					err = io.ErrUnexpectedEOF
				}
			}()
			return rp.Recv()
		}()
		if err != nil {
			return out
		}
		out = append(out, m)
	}
}

func c16ShowOut(ms []*M) string {
	if len(ms) == 0 {
		return "-"
	}
	var first string
	var rest []string
	for i, m := range ms {
		var s string
		switch m.Mtype {
		case erpc.TypeAuthReply:
			s = fmt.Sprintf("a:%d", m.Code)
		case erpc.TypeReply:
			s = fmt.Sprintf("r:%d:%d", m.Seq, m.Code)
		default:
			s = fmt.Sprintf("x:%d:%d:%d", m.Mtype, m.Seq, m.Code)
		}
		if i == 0 && m.Mtype == erpc.TypeAuthReply {
			first = s
		} else {
			rest = append(rest, s)
		}
	}
	sort.Strings(rest)
	if first != "" {
		rest = append([]string{first}, rest...)
	}
	return strings.Join(rest, ",")
}

func c16Atoi(s string) int { n, _ := strconv.Atoi(s); return n }

func c16Chunks(b []byte, cuts string) [][]byte {
	if cuts == "" || cuts == "-" {
		return [][]byte{b}
	}
	var out [][]byte
	prev := 0
	for _, c := range strings.Split(cuts, ",") {
		n := c16Atoi(c)
		if n <= prev || n >= len(b) {
			continue
		}
		out = append(out, b[prev:n])
		prev = n
	}
	return append(out, b[prev:])
}

func c16Fin(ca *mem.Conn, fin string) {
	switch fin {
	case "close":
		ca.Close()
	case "brk":
		ca.Break(io.ErrUnexpectedEOF)
	}
}

// c16RunSrv runs one raw-client case against the real server. ext (kind c16ck): the scripted checker
// performs session operations, other sessions are live on the peer, and the observation also says
// what the hub holds under every id the connection ever had.
func c16RunSrv(line string, f map[string]string, out *hx.Out, ext bool) (string, bool) {
	obs, nt, soft := c16RunSrvOnce(line, f, out, ext)
	if len(soft) == 0 {
		return obs, nt
	}
	// "a valid auth frame was rejected" / "accepted, but the calls pipelined behind the auth frame got
	// no reply" is also what a stalled process looks like: the peer's 150 ms session / context ages
	// are measured with a coarse clock that a background goroutine advances, and when that goroutine
	// or the harness is starved of CPU the deadlines expire at once, for a while. A loss or a
	// rejection caused by the code is deterministic: it is reported only if it shows on every one of
	// five runs of the case, the later ones after a pause.
	for i := 0; i < 4; i++ {
		time.Sleep(time.Duration(200*(i+1)) * time.Millisecond)
		scratch := &hx.Out{Hist: map[string]int{}}
		obs2, nt2, soft2 := c16RunSrvOnce(line, f, scratch, ext)
		if len(soft2) == 0 {
			out.Count("noise:" + soft[0].Sig + ":not-reproduced")
			for _, v := range scratch.Viol {
				out.Violate(v.Line, v.Oracle, v.Detail, v.Sig)
			}
			return obs2, nt2
		}
	}
	for _, v := range soft {
		out.Violate(v.Line, v.Oracle, v.Detail, v.Sig)
	}
	return obs, nt
}

// c16RunSrvOnce: one run; soft = the failures of the two oracles that a process stall can also cause
// (not yet reported; see c16RunSrv).
func c16RunSrvOnce(line string, f map[string]string, out *hx.Out, ext bool) (obsLine string, nontrivial bool, soft []hx.Violation) {
	k := c16Script{nrecv: c16Atoi(f["nrecv"]), prop: f["prop"] == "1", verdict: f["verdict"],
		pre: c16ParseOps(f["pre"]), post: c16ParseOps(f["post"])}
	var others []int
	if o := f["others"]; o != "" && o != "-" {
		for _, t := range strings.Split(o, ",") {
			others = append(others, c16Atoi(t))
		}
	}
	unk := f["unk"] == "1"
	bytes_ := hx.UnHex(f["bytes"])
	tail := hx.UnHex(f["tail"])
	early := f["early"] == "1"
	fin := f["fin"]
	tim := c16Atoi(f["tim"])
	ncall := c16Atoi(f["ncall"])
	wantAuth := c16Atoi(f["auth"])
	lis := f["lis"] == "1"

	env := c16NewServer(k, unk)
	defer env.close()
	env.addOthers(others)
	ca, cb := mem.Pair("")

	var (
		stCode int32 = -999
		hub1   int
		done   = make(chan struct{})
		// at the moment ServeConn returns: ids (other than the current one) under which the
		// connection is still listed
		former1 []string
	)
	// selfIDs: every id the connection under test ever had, oldest first, and the current one.
	selfIDs := func() (ids []int, cur int) {
		env.mu.Lock()
		defer env.mu.Unlock()
		return append([]int(nil), env.ids...), env.cur
	}
	listedUnder := func() (under []string, former []string) {
		ids, cur := selfIDs()
		seen := map[int]bool{}
		for _, id := range ids {
			if seen[id] {
				continue
			}
			seen[id] = true
			if env.owner(env.idStr(id)) == "s" {
				under = append(under, strconv.Itoa(id))
				if id != cur {
					former = append(former, strconv.Itoa(id))
				}
			}
		}
		return
	}
	var ml *mem.Listener
	serve := func() {
		if lis {
			ml = mem.NewListener("c16-lis:1")
			go erpc.VerifServeListener(env.srv, &c16OneLis{conn: cb, Listener: ml})
			close(done)
			return
		}
		go func() {
			defer close(done)
			defer func() { recover() }()
			_, st := env.srv.ServeConn(cb)
			hub1 = env.srv.CountSession()
			if ext {
				hub1 = 0
				if env.selfListed() {
					hub1 = 1
				}
			}
			_, former1 = listedUnder()
			stCode = st.Code()
		}()
	}
	sent := func() []*M { b, _ := cb.Sent(); return c16Decode(b) }

	chunks := c16Chunks(bytes_, f["cuts"])
	if early {
		ca.Write(append(append([]byte(nil), bytes_...), tail...))
		c16Fin(ca, fin)
		serve()
	} else {
		switch tim {
		case 0:
			ca.Write(bytes_)
			serve()
		case 1:
			serve()
			time.Sleep(time.Millisecond)
			for _, c := range chunks {
				ca.Write(c)
				runtime.Gosched()
			}
		case 2:
			serve()
			for i, c := range chunks {
				ca.Write(c)
				if i == 0 {
					waitUntil(30*time.Millisecond, func() bool { return len(sent()) >= 1 })
				}
			}
		default:
			serve()
			for _, c := range chunks {
				ca.Write(c)
				time.Sleep(2 * time.Millisecond)
			}
		}
		// the server answers the exchange (for a silent client: after its deadline)
		// (ServeConn has returned: its hub.set is not raced by the client's end-of-traffic action)
		waitUntil(3*time.Second, func() bool {
			if !lis {
				select {
				case <-done:
					return true
				default:
					return false
				}
			}
			return len(sent()) >= 1 || atomic.LoadInt32(&env.rec.disc) >= 1
		})
		if ncall > 0 {
			waitUntil(2*time.Second, func() bool {
				return len(sent()) >= 1+ncall || atomic.LoadInt32(&env.rec.disc) >= 1
			})
		}
		if len(tail) > 0 {
			ca.Write(tail)
		}
		c16Fin(ca, fin)
	}
	select {
	case <-done:
	case <-time.After(5 * time.Second):
	}
	quiet := waitUntil(5*time.Second, func() bool { return atomic.LoadInt32(&env.rec.disc) >= 1 })
	runtime.Gosched()
	time.Sleep(time.Millisecond)
	if ml != nil {
		ml.Close()
	}
	if !quiet {
		out.Count("not-quiescent")
	}

	rec := env.rec
	hc, hk, prh := atomic.LoadInt32(&rec.handlers), atomic.LoadInt32(&rec.hooks), atomic.LoadInt32(&rec.prh)
	disc, exch := atomic.LoadInt32(&rec.disc), atomic.LoadInt32(&rec.exch)
	passed := atomic.LoadInt32(&rec.passed) == 1
	hub := env.srv.CountSession()
	// the other sessions of the peer: closed (their disconnect hook ran) or still there
	liveOthers := 0
	var kicked []string
	for i := range env.otherSess {
		if _, gone := env.rec.otherDisc.Load(i); gone {
			kicked = append(kicked, strconv.Itoa(i))
		} else {
			liveOthers++
		}
	}
	cnt := hub
	if ext {
		hub = 0
		if env.selfListed() {
			hub = 1
		}
	}
	underEnd, formerEnd := listedUnder()
	closed := atomic.LoadInt32(&cb.Closed)
	frames := sent()
	if lis {
		// the listener path returns nothing: the status class is read off the reply frame
		stCode, hub1 = -1, 0
		if passed {
			stCode, hub1 = 0, 1
		}
	}
	st := strconv.Itoa(int(stCode))
	if lis && !passed {
		st = "rej"
	}
	obs := fmt.Sprintf("st=%s hc=%d hk=%d prh=%d hub1=%d hub=%d closed=%d disc=%d exch=%d out=%s",
		st, hc, hk, prh, hub1, hub, closed, disc, exch, c16ShowOut(frames))
	ids, _ := selfIDs()
	if ext {
		joinOr := func(l []string) string {
			if len(l) == 0 {
				return "-"
			}
			return strings.Join(l, ",")
		}
		var idl, ends []string
		seen := map[int]bool{}
		for _, id := range ids {
			idl = append(idl, strconv.Itoa(id))
			if !seen[id] {
				seen[id] = true
				ends = append(ends, fmt.Sprintf("%d:%s", id, env.owner(env.idStr(id))))
			}
		}
		env.mu.Lock()
		peeks := append([]string(nil), env.peeks...)
		env.mu.Unlock()
		obs += fmt.Sprintf(" ids=%s peeks=%s end=%s cnt=%d kicked=%s", joinOr(idl), joinOr(peeks), joinOr(ends), cnt, joinOr(kicked))
	}

	// ---- the property's own oracles -------------------------------------------------------------
	accepted := stCode == 0
	strict := k.prop && k.nrecv >= 1
	if !accepted || !passed {
		if hc != 0 || hk != 0 || prh != 0 {
			out.Violate(line, "no-handler-before-auth", fmt.Sprintf("connection not authenticated (ServeConn status %s) but handlers=%d hooks=%d preReadHeader=%d ran", st, hc, hk, prh), "c16:handler-before-auth")
		}
		if hub1 != 0 || hub != 0 || cnt != liveOthers {
			out.Violate(line, "rejected-unlisted", fmt.Sprintf("rejected connection listed: at return %d, at the end %d (CountSession %d, other live sessions %d)", hub1, hub, cnt, liveOthers), "c16:rejected-still-listed")
		}
		// not listed under ANY id the connection ever had (the checker may have renamed it), and
		// not visited by RangeSession
		if len(underEnd) > 0 || env.selfListed() {
			out.Violate(line, "rejected-unlisted", fmt.Sprintf("rejected connection (status %s) is still in the session hub: GetSession finds it under id(s) [%s] of the ids it had %v (0 = its default id); RangeSession visits it: %v", st, strings.Join(underEnd, ","), ids, env.selfListed()), "c16:rejected-listed-by-id")
		}
		if closed != 1 {
			out.Violate(line, "rejected-closed", "rejected connection was not closed by the server", "c16:rejected-not-closed")
		}
		for _, m := range frames {
			if m.Mtype != erpc.TypeAuthReply {
				out.Violate(line, "no-handler-before-auth", "server answered an application message on a rejected connection: "+c16ShowOut(frames), "c16:reply-before-auth")
				break
			}
		}
	}
	// never listed under an id it no longer has (accepted connections too)
	if len(former1) > 0 || len(formerEnd) > 0 {
		out.Violate(line, "listed-under-current-id-only", fmt.Sprintf("connection listed under former id(s): when ServeConn returned [%s], at the end [%s] (ids it had: %v)", strings.Join(former1, ","), strings.Join(formerEnd, ","), ids), "c16:listed-under-former-id")
	}
	// the sessions of other connections: untouched unless the connection took their id
	for i, os := range env.otherSess {
		_, gone := env.rec.otherDisc.Load(i)
		took := false
		for _, id := range ids {
			if id == env.otherIDs[i] {
				took = true
			}
		}
		if took {
			continue
		}
		if as := env.owner(env.idStr(env.otherIDs[i])); gone || !os.Health() || as != "o"+strconv.Itoa(i) {
			out.Violate(line, "other-sessions-untouched", fmt.Sprintf("other session %d (id %d, never taken by the connection under test): closed=%v healthy=%v GetSession(id)=%s", i, env.otherIDs[i], gone, os.Health(), as), "c16:other-session-disturbed")
		}
	}
	if atomic.LoadInt32(&rec.early) != 0 {
		out.Violate(line, "no-handler-before-auth", fmt.Sprintf("%d handler/hook executions before the accept chain passed the checker", rec.early), "c16:handler-before-auth")
	}
	if exch > 1 || (strict && accepted && exch != 1) {
		out.Violate(line, "exchange-once", fmt.Sprintf("exchange count %d (accepted=%v)", exch, accepted), "c16:exchange-count")
	}
	if strict && accepted && wantAuth == 0 {
		out.Violate(line, "accepted-only-after-auth", "connection accepted although the client's first frame was not an accepted AUTH_CALL", "c16:accepted-without-auth")
	}
	if strict && !accepted && wantAuth == 1 {
		soft = append(soft, hx.Violation{Line: line, Oracle: "valid-auth-accepted", Detail: "valid AUTH_CALL with accepting verdict was rejected: " + st, Sig: "c16:valid-auth-rejected"})
	}
	if accepted && ncall > 0 && wantAuth == 1 {
		n := 0
		for _, m := range frames {
			if m.Mtype == erpc.TypeReply {
				n++
			}
		}
		if n != ncall {
			soft = append(soft, hx.Violation{Line: line, Oracle: "pipelined-not-lost", Detail: fmt.Sprintf("%d pipelined calls, %d replies", ncall, n), Sig: "c16:pipelined-lost"})
		}
	}

	switch {
	case accepted:
		out.Count("res:accepted")
	default:
		out.Count("res:rejected:" + st)
	}
	if ext {
		res := "rejected"
		if accepted {
			res = "accepted"
		}
		if len(ids) > 1 {
			out.Count("ck:renamed:" + res)
		} else {
			out.Count("ck:not-renamed:" + res)
		}
		if len(kicked) > 0 {
			out.Count("ck:took-id-of-live-session:" + res)
		}
		env.mu.Lock()
		for _, p := range env.peeks {
			out.Count("ck:read:listed=" + p[:1])
		}
		env.mu.Unlock()
		if lis {
			out.Count("ck:listener-path")
		}
		if len(others) > 0 {
			out.Count("ck:with-other-sessions")
		}
	}
	out.Count("fin:" + fin)
	out.Count("tim:" + strconv.Itoa(tim))
	out.Count("family:" + f["fam"])
	return obs, len(bytes_) > 0 || fin != "close", soft
}

// c16OneLis is a listener that yields one connection and then blocks until closed.
type c16OneLis struct {
	*mem.Listener
	conn net.Conn
	once sync.Once
}

func (l *c16OneLis) Accept() (c net.Conn, err error) {
	l.once.Do(func() { c = l.conn })
	if c != nil {
		return c, nil
	}
	return l.Listener.Accept()
}

// ---- bearer side ------------------------------------------------------------------------------------

var c16DialMu sync.Mutex

// c16RunDial: a real dialing peer with the real bearer plugin; the other end is a scripted raw
// server (kind c16dial) or the real checker server (kind c16e2e).
func c16RunDial(kind, line string, f map[string]string, out *hx.Out) (string, bool) {
	c16DialMu.Lock()
	defer c16DialMu.Unlock()
	nsend := c16Atoi(f["nsend"])
	if kind == "c16e2e" {
		nsend = 1
	}
	var hook int32 = -999
	rec := &c16Rec{}
	bearer := auth.NewBearerPlugin(func(sess auth.Session, fn auth.SendOnce) *erpc.Status {
		var first *erpc.Status
		for i := 0; i < nsend; i++ {
			var ret []byte
			st := fn([]byte("token"), &ret)
			if !st.OK() && first == nil {
				first = st
			}
		}
		hook = first.Code()
		return first
	})
	cli := erpc.NewPeer(erpc.PeerConfig{DefaultContextAge: c16CtxAge}, bearer, rec)
	c16RecOf.Store(cli, rec)
	defer func() { c16RecOf.Delete(cli); cli.Close() }()
	ca, cb := mem.Pair("")
	erpc.VerifSetHooks(&erpc.VerifHooks{Dial: func(network, addr string) (net.Conn, error) { return ca, nil }})
	defer erpc.VerifSetHooks(nil)

	if kind == "c16dial" {
		reply := hx.UnHex(f["reply"])
		mode := f["mode"] // reply | close | silent | brk
		if mode == "brk" {
			cb.Break(io.ErrUnexpectedEOF)
		}
		go func() {
			if mode == "brk" {
				return
			}
			// wait for the bearer's AUTH_CALL, then answer
			waitUntil(2*time.Second, func() bool { b, _ := ca.Sent(); return len(c16Decode(b)) >= 1 })
			if mode == "silent" {
				return
			}
			cb.Write(reply)
			if mode == "close" {
				cb.Close()
			}
		}()
		sess, st := cli.Dial("c16-raw:1")
		est := 0
		if sess != nil {
			est = 1
		}
		hub := cli.CountSession()
		closed := atomic.LoadInt32(&ca.Closed)
		b, _ := ca.Sent()
		wrote := c16Decode(b)
		if mode != "brk" && (len(wrote) < 1 || wrote[0].Mtype != erpc.TypeAuthCall || wrote[0].Code != 0) {
			out.Violate(line, "bearer-frame", "the bearer's first frame is not an AUTH_CALL", "c16:bearer-frame")
		}
		if est == 0 && (hub != 0 || closed != 1 || atomic.LoadInt32(&rec.hooks) != 0 || atomic.LoadInt32(&rec.prh) != 0) {
			out.Violate(line, "dial-failure-not-established", fmt.Sprintf("dial hook failed (%d) but hub=%d connClosed=%d hooks=%d", hook, hub, closed, rec.hooks), "c16:dial-failed-established")
		}
		if est == 1 && hook != 0 {
			out.Violate(line, "dial-failure-not-established", fmt.Sprintf("dial hook failed (%d) but Dial returned a session", hook), "c16:dial-failed-established")
		}
		obs := fmt.Sprintf("hook=%d est=%d code=%d hub=%d closed=%d", hook, est, st.Code(), hub, closed)
		if sess != nil {
			sess.Close()
		}
		cb.Close()
		out.Count("dial:" + mode)
		return obs, true
	}

	// end to end: the real checker on the other end
	k := c16Script{nrecv: 1, prop: true, verdict: f["verdict"]}
	env := c16NewServer(k, false)
	defer env.close()
	var srvCode int32 = -999
	done := make(chan struct{})
	go func() {
		defer close(done)
		_, st := env.srv.ServeConn(cb)
		srvCode = st.Code()
	}()
	sess, st := cli.Dial("c16-e2e:1")
	<-done
	est, callCode := 0, int32(-1)
	var res []byte
	if sess != nil {
		est = 1
		callCode = sess.Call(c16CallPath, []byte("ping"), &res).Status().Code()
		sess.Close()
	}
	waitUntil(5*time.Second, func() bool { return atomic.LoadInt32(&env.rec.disc) >= 1 })
	time.Sleep(time.Millisecond)
	b, _ := ca.Sent()
	wrote := c16Decode(b)
	if len(wrote) < 1 || wrote[0].Mtype != erpc.TypeAuthCall || wrote[0].Code != 0 || string(wrote[0].Body) != "token" {
		out.Violate(line, "bearer-frame", "the bearer's first frame is not the AUTH_CALL with the token", "c16:bearer-frame")
	}
	if (f["verdict"] == "0") != (est == 1) {
		out.Violate(line, "e2e", fmt.Sprintf("verdict %s but established=%d", f["verdict"], est), "c16:e2e-mismatch")
	}
	if est == 0 && (atomic.LoadInt32(&env.rec.handlers) != 0 || atomic.LoadInt32(&env.rec.hooks) != 0 || atomic.LoadInt32(&env.rec.prh) != 0) {
		out.Violate(line, "no-handler-before-auth", "handlers/hooks ran on the server for a rejected bearer", "c16:handler-before-auth")
	}
	sb, _ := cb.Sent()
	obs := fmt.Sprintf("hook=%d est=%d code=%d call=%d res=%s | st=%d hc=%d hk=%d prh=%d hub=%d closed=%d disc=%d exch=%d out=%s",
		hook, est, st.Code(), callCode, hx.Hex(res),
		srvCode, env.rec.handlers, env.rec.hooks, env.rec.prh, env.srv.CountSession(), atomic.LoadInt32(&cb.Closed),
		env.rec.disc, env.rec.exch, c16ShowOut(c16Decode(sb)))
	out.Count("e2e:" + f["verdict"])
	return obs, true
}

// ---- generation -------------------------------------------------------------------------------------

type c16Gen struct {
	r   *hx.R
	seq int32
}

func (g *c16Gen) frame(mtype byte, method string, code int32) *M {
	g.seq++
	m := &M{Seq: g.seq, Mtype: mtype, Method: []byte(method), Codec: 'j', Body: g.r.AnyBytes(g.r.Intn(12))}
	if code != 0 {
		m.Code = code
		m.Msg = []byte("x")
	}
	if g.r.Intn(4) == 0 {
		m.Meta = [][2][]byte{{[]byte("k"), g.r.Bytes(1+g.r.Intn(4), 1)}}
	}
	return m
}

func (g *c16Gen) authFrame() *M {
	m := g.frame(erpc.TypeAuthCall, "", 0)
	if g.r.Intn(5) == 0 {
		m.Method = []byte("/any")
	}
	return m
}

// appFrame: a well-formed application frame; returns whether it is a CALL (one reply expected).
func (g *c16Gen) appFrame() (*M, bool) {
	switch g.r.Intn(8) {
	case 0, 1:
		return g.frame(erpc.TypeCall, c16CallPath, 0), true
	case 2:
		return g.frame(erpc.TypeCall, "/c16/nope", 0), true
	case 3:
		return g.frame(erpc.TypeCall, "", 0), true
	case 4:
		return g.frame(erpc.TypePush, c16PushPath, 0), false
	case 5:
		return g.frame(erpc.TypePush, []string{"/c16/nope", ""}[g.r.Intn(2)], 0), false
	case 6:
		return g.frame(erpc.TypeReply, c16CallPath, int32(g.r.Pick(0, 0, 500))), false
	default:
		return g.frame(erpc.TypeCall, c16CallPath, int32(g.r.Pick(0, 404))), true
	}
}

func c16Bool(b bool) string {
	if b {
		return "1"
	}
	return "0"
}

type c16Case struct {
	fam     string
	lis     bool
	nrecv   int
	prop    bool
	verdict string
	bytes   []byte
	tail    []byte
	cuts    []int
	early   bool
	fin     string
	unk     bool
	tim     int
	ncall   int
	auth    int // 1: must be accepted (strict script), 0: must not, 2: unknown
	// kind c16ck: session operations of the checker, ids of the other live sessions of the peer
	ext       bool
	pre, post []c16Op
	others    []int
}

func (c *c16Case) line() string {
	cuts := "-"
	if len(c.cuts) > 0 {
		s := make([]string, len(c.cuts))
		for i, x := range c.cuts {
			s[i] = strconv.Itoa(x)
		}
		cuts = strings.Join(s, ",")
	}
	l := fmt.Sprintf("c16srv fam=%s lis=%s nrecv=%d prop=%s verdict=%s bytes=%s tail=%s cuts=%s early=%s fin=%s unk=%s tim=%d ncall=%d auth=%d",
		c.fam, c16Bool(c.lis), c.nrecv, c16Bool(c.prop), c.verdict, hx.Hex(c.bytes), hx.Hex(c.tail), cuts,
		c16Bool(c.early), c.fin, c16Bool(c.unk), c.tim, c.ncall, c.auth)
	if c.ext {
		oth := "-"
		if len(c.others) > 0 {
			ss := make([]string, len(c.others))
			for i, x := range c.others {
				ss[i] = strconv.Itoa(x)
			}
			oth = strings.Join(ss, ",")
		}
		l = "c16ck" + strings.TrimPrefix(l, "c16srv") + fmt.Sprintf(" pre=%s post=%s others=%s", c16ShowOps(c.pre), c16ShowOps(c.post), oth)
	}
	return l
}

// c16GenCk: the checker does what a real checker can do with the session it is handed — rename it
// (to a fresh id, to the id of another live session, to the id it has, back to the default id),
// read the peer — before and/or after RecvOnce, and then every verdict class follows: accept,
// reject, MultiRecvErr, panic, a deadline or a cut during the exchange, a wrong first frame, a
// failed reply write; on both accept paths; with and without other live sessions on the peer.
func c16GenCk(g *c16Gen, thorough bool) []*c16Case {
	r := g.r
	n := 70
	if thorough {
		n = 700
	}
	var cs []*c16Case
	for i := 0; i < n; i++ {
		c := &c16Case{fam: "ckops", ext: true, nrecv: 1, prop: true, verdict: "0", fin: "close", tim: r.Intn(4), auth: 2}
		c.lis = r.Intn(4) == 0
		// other live sessions: distinct ids out of 1..4
		if r.Intn(2) == 0 {
			perm := []int{1, 2, 3, 4}
			for j := 0; j < 1+r.Intn(2); j++ {
				k := j + r.Intn(len(perm)-j)
				perm[j], perm[k] = perm[k], perm[j]
				c.others = append(c.others, perm[j])
			}
		}
		// session operations
		cur := 0
		used := []int{0}
		fresh := 5
		mkOps := func(n int, pSet int) []c16Op {
			var ops []c16Op
			for j := 0; j < n; j++ {
				if r.Intn(100) >= pSet {
					ops = append(ops, c16Op{})
					continue
				}
				id := 0
				switch x := r.Intn(10); {
				case x < 4: // a fresh id
					id = fresh
					fresh++
				case x < 6 && len(c.others) > 0: // the id of another live session
					id = c.others[r.Intn(len(c.others))]
				case x < 7: // the id it has
					id = cur
				case x < 8: // the default id
					id = 0
				default: // an id it had before
					id = used[r.Intn(len(used))]
				}
				ops = append(ops, c16Op{set: true, id: id})
				cur = id
				used = append(used, id)
			}
			return ops
		}
		switch r.Intn(4) {
		case 0:
			c.pre = mkOps(1+r.Intn(2), 75)
		case 1:
			c.post = mkOps(1+r.Intn(3), 75)
		default:
			c.pre = mkOps(r.Intn(2), 75)
			c.post = mkOps(1+r.Intn(2), 80)
		}
		c.nrecv = r.Pick(1, 1, 1, 1, 1, 0, 2)
		okAuth := func() { c.bytes = c16Pack(g.authFrame()) }
		class := r.Intn(9)
		switch class {
		case 0, 1: // reject
			okAuth()
			c.verdict = []string{"403", "401", "500", "1", "-1"}[r.Intn(5)]
			c.fin = []string{"close", "close", "silent"}[r.Intn(3)]
		case 2: // accept; possibly a call pipelined behind the auth frame
			okAuth()
			// (a checker that accepts without RecvOnce leaves the AUTH_CALL to the read loop, which
			// closes the session for the wrong type: whether a frame behind it is still handled is a
			// race of the established session, not a matter of this property)
			if c.nrecv >= 1 && r.Intn(2) == 0 {
				c.bytes = append(c.bytes, c16Pack(g.frame(erpc.TypeCall, c16CallPath, 0))...)
				c.ncall = 1
			}
			c.fin = []string{"close", "close", "silent"}[r.Intn(3)]
		case 3: // the checker faults / returns MultiRecvErr
			okAuth()
			c.verdict = []string{"panic", "multi"}[r.Intn(2)]
		case 4: // deadline during the exchange: nothing, or an incomplete auth frame, then silence
			if r.Intn(2) == 0 {
				fr := c16Pack(g.authFrame())
				c.bytes = fr[:1+r.Intn(len(fr)-1)]
			}
			c.fin = "silent"
		case 5: // the client goes away during the exchange
			if r.Intn(2) == 0 {
				fr := c16Pack(g.authFrame())
				c.bytes = fr[:r.Intn(len(fr))]
			}
			c.fin, c.early = []string{"close", "brk"}[r.Intn(2)], true
		case 6: // first frame is not an auth call
			m, _ := g.appFrame()
			c.bytes = c16Pack(m)
			c.verdict = []string{"0", "403"}[r.Intn(2)]
			if c.nrecv == 0 {
				c.nrecv = 1
			}
		case 7: // accepting verdict, but the reply cannot be written
			okAuth()
			c.fin, c.early = "brk", true
		default: // a checker that does not propagate RecvOnce errors
			okAuth()
			c.prop = false
			c.verdict = []string{"0", "403", "panic"}[r.Intn(3)]
		}
		if c.prop && c.nrecv == 1 {
			switch class {
			case 0, 1, 3:
				c.auth = 0
			case 2:
				c.auth = 1
			}
		}
		if c.early {
			// an accepted connection whose client is already gone races its own disconnect with the
			// accept path's hub.set (lifecycle, C07): keep early cases to the rejecting classes
			c.tim = 0
			c.prop = true
			if c.nrecv == 0 {
				c.nrecv = 1
			}
		}
		cs = append(cs, c)
	}
	return cs
}

func c16GenCases(r *hx.R, tier string, out *hx.Out) []string {
	g := &c16Gen{r: r}
	var cs []*c16Case
	thorough := tier == "thorough"
	scale := 1
	if thorough {
		scale = 12
	}
	base := func(fam string) *c16Case {
		return &c16Case{fam: fam, nrecv: 1, prop: true, verdict: "0", fin: "close", tim: r.Intn(4), auth: 0}
	}
	verdicts := []string{"0", "0", "403", "401", "500", "multi", "1", "-1", "panic", "panic"}
	pickS := func(xs ...string) string { return xs[r.Intn(len(xs))] }
	finPick := func(pSilent int) string {
		if r.Intn(100) < pSilent {
			return "silent"
		}
		return "close"
	}
	randCuts := func(n int) []int {
		if n < 2 {
			return nil
		}
		k := 1 + r.Intn(3)
		var cs []int
		for i := 0; i < k; i++ {
			cs = append(cs, 1+r.Intn(n-1))
		}
		sort.Ints(cs)
		return cs
	}

	// A: the auth frame alone, every verdict / script
	for i := 0; i < 40*scale; i++ {
		c := base("auth")
		c.verdict = verdicts[r.Intn(len(verdicts))]
		c.nrecv = r.Pick(1, 1, 1, 1, 2, 3, 0)
		c.prop = r.Intn(6) != 0
		c.bytes = c16Pack(g.authFrame())
		c.cuts = randCuts(len(c.bytes))
		c.fin = finPick(8)
		c.early = r.Intn(4) == 0
		c.lis = r.Intn(6) == 0
		c.auth = 2
		if c.prop && c.nrecv == 1 {
			c.auth = 0
			if c.verdict == "0" {
				c.auth = 1
			}
		}
		cs = append(cs, c)
	}
	// B: first frame is not an auth call (possibly followed by more frames)
	for i := 0; i < 40*scale; i++ {
		c := base("nonauth")
		var first *M
		if r.Intn(3) == 0 {
			first = g.frame(byte(r.Pick(0, 5, 6, 7, 100, 255)), []string{"", c16CallPath}[r.Intn(2)], 0)
		} else {
			first, _ = g.appFrame()
		}
		c.bytes = c16Pack(first)
		for n := r.Intn(4); n > 0; n-- {
			m, _ := g.appFrame()
			c.bytes = append(c.bytes, c16Pack(m)...)
		}
		c.verdict = pickS("0", "403")
		c.unk = r.Intn(2) == 0
		c.cuts = randCuts(len(c.bytes))
		c.fin = finPick(5)
		c.early = r.Intn(4) == 0
		c.lis = r.Intn(6) == 0
		cs = append(cs, c)
	}
	// C: an AUTH_CALL that carries a non-OK status
	for i := 0; i < 8*scale; i++ {
		c := base("authstatus")
		m := g.authFrame()
		m.Code = int32(r.Pick(1, 400, 401, 500, -1, 7))
		m.Msg = []byte("bad")
		c.bytes = c16Pack(m)
		if r.Intn(2) == 0 {
			a, _ := g.appFrame()
			c.bytes = append(c.bytes, c16Pack(a)...)
		}
		cs = append(cs, c)
	}
	// D: malformed: truncation at an offset (all offsets in the thorough tier), one-byte mutation,
	// structured garbage, size prefix out of range
	nTrunc := 1
	if thorough {
		nTrunc = 6
	}
	for ti := 0; ti < nTrunc; ti++ {
		fr := c16Pack(g.authFrame())
		if ti%2 == 1 { // also a truncated pipeline: the cut falls into the auth frame or into the frame behind it
			m, _ := g.appFrame()
			fr = append(fr, c16Pack(m)...)
		}
		step := 1
		if !thorough {
			step = 1 + len(fr)/12
		}
		for off := 0; off < len(fr); off += step {
			c := base("trunc")
			c.bytes = fr[:off]
			c.fin = "close"
			if off%7 == 3 {
				c.fin = "silent"
			}
			if off%11 == 5 {
				c.fin, c.early = "brk", true
			}
			c.early = c.early || r.Intn(3) == 0
			if c.fin == "silent" {
				c.early = false
			}
			c.lis = r.Intn(8) == 0
			c.auth = 2
			cs = append(cs, c)
		}
	}
	{
		for i := 0; i < 30*scale; i++ {
			c := base("mutate")
			b := c16Pack(g.authFrame())
			off := r.Intn(len(b))
			withApp := false
			if r.Intn(3) == 0 {
				a, isCall := g.appFrame()
				b = append(b, c16Pack(a)...)
				withApp = true
				if isCall {
					c.ncall = 1
				}
			}
			if r.Intn(3) == 0 {
				off = r.Intn(12) % len(b)
			}
			b[off] ^= byte(1 << uint(r.Intn(8)))
			if off < 2 { // keep the announced size small enough to stay a quick case
				b[0], b[1] = 0, 0
			}
			c.bytes = b
			c.auth = 2
			c.early = !withApp && r.Intn(3) == 0
			cs = append(cs, c)
		}
		for i := 0; i < 30*scale; i++ {
			c := base("garbage")
			n := r.Intn(40)
			body := r.AnyBytes(n)
			var b []byte
			switch r.Intn(5) {
			case 0: // size prefix consistent, xfer len 0, random payload
				sz := 4 + 1 + n
				b = append([]byte{0, 0, byte(sz >> 8), byte(sz)}, 0)
				b = append(b, body...)
			case 1: // size above the limit
				b = append([]byte{byte(1 + r.Intn(255)), byte(r.Intn(256)), 0, 0}, body...)
			case 2: // size below the header
				b = append([]byte{0, 0, 0, byte(r.Intn(5))}, body...)
			case 3: // transfer pipe naming test filters / unregistered ids
				sz := 4 + 1 + 1 + n
				b = append([]byte{0, 0, byte(sz >> 8), byte(sz)}, 1, byte(r.Pick(1, 2, 3, 9, 200)))
				b = append(b, body...)
			default: // plain noise with a small announced size
				b = append([]byte{0, 0, 0, byte(5 + r.Intn(60))}, body...)
			}
			c.bytes = b
			c.fin = finPick(6)
			c.early = c.fin == "close" && r.Intn(2) == 0
			c.auth = 2
			cs = append(cs, c)
		}
	}
	// E: nothing at all
	for _, fin := range []string{"close", "silent", "brk", "close"} {
		c := base("nothing")
		c.fin = fin
		c.early = fin != "silent"
		cs = append(cs, c)
	}
	{
		c := base("nothing")
		c.lis, c.early = true, true
		cs = append(cs, c)
	}
	// F: application frames pipelined behind the auth frame
	for i := 0; i < 70*scale; i++ {
		c := base("pipeline")
		c.verdict = pickS("0", "0", "0", "403")
		c.bytes = c16Pack(g.authFrame())
		n := 1 + r.Intn(6)
		for j := 0; j < n; j++ {
			m, isCall := g.appFrame()
			c.bytes = append(c.bytes, c16Pack(m)...)
			if isCall {
				c.ncall++
			}
		}
		c.unk = r.Intn(3) == 0
		c.auth = 0
		if c.verdict == "0" {
			c.auth = 1
		}
		switch r.Intn(6) {
		case 0: // a frame of a type that is not allowed ends the pipeline (same write)
			c.bytes = append(c.bytes, c16Pack(g.frame(byte(r.Pick(0, 4, 5, 6, 255)), "", 0))...)
		case 1: // garbage after the replies
			c.tail = append([]byte{0, 0, 0, byte(r.Intn(40))}, r.AnyBytes(r.Intn(30))...)
		case 2: // a truncated frame after the replies
			fr := c16Pack(g.frame(erpc.TypeCall, c16CallPath, 0))
			c.tail = fr[:1+r.Intn(len(fr)-1)]
		}
		if c.verdict != "0" {
			c.ncall = 0
		}
		c.cuts = randCuts(len(c.bytes))
		c.fin = finPick(5)
		c.lis = r.Intn(6) == 0
		if c.verdict != "0" && r.Intn(3) == 0 {
			c.early = c.fin == "close"
		}
		cs = append(cs, c)
	}
	// G: valid auth, connection cut before the server can answer
	for i := 0; i < 4*scale; i++ {
		c := base("brk")
		c.bytes = c16Pack(g.authFrame())
		if r.Intn(2) == 0 {
			m, _ := g.appFrame()
			c.bytes = append(c.bytes, c16Pack(m)...)
		}
		c.fin, c.early = "brk", true
		c.verdict = pickS("0", "403")
		cs = append(cs, c)
	}

	lines := make([]string, 0, len(cs)+32)
	for _, c := range cs {
		if c.early {
			c.tim = 0
		}
		lines = append(lines, c.line())
	}
	// bearer side
	okReply := c16Pack(&M{Seq: 1, Mtype: erpc.TypeAuthReply, Codec: 'j', Body: []byte("welcome")})
	for i := 0; i < 6*scale; i++ {
		var reply []byte
		mode := "reply"
		switch i % 6 {
		case 0:
			reply = okReply
		case 1:
			reply = c16Pack(&M{Seq: 1, Mtype: erpc.TypeAuthReply, Code: int32(r.Pick(403, 401, 500, 1)), Msg: []byte("denied"), Codec: 'j'})
		case 2:
			reply = c16Pack(g.frame(byte(r.Pick(1, 2, 3, 4, 0, 9)), "", 0))
		case 3:
			reply = append([]byte{0, 0, 0, byte(r.Intn(30))}, r.AnyBytes(r.Intn(20))...)
			mode = "close"
		case 4:
			reply = okReply[:r.Intn(len(okReply))]
			mode = "close"
		case 5:
			mode = []string{"silent", "brk"}[r.Intn(2)]
		}
		nsend := 1
		if i%5 == 4 {
			nsend = 2
		}
		lines = append(lines, fmt.Sprintf("c16dial nsend=%d mode=%s reply=%s", nsend, mode, hx.Hex(reply)))
	}
	for _, v := range []string{"0", "403", "0", "401"} {
		lines = append(lines, "c16e2e verdict="+v)
	}
	// appended after everything else: the case lines above are the same as before for a given seed
	for _, c := range c16GenCk(g, thorough) {
		lines = append(lines, c.line())
	}
	return lines
}

func init() {
	props["c16"] = &Prop{
		Setup: func() {
			erpc.SetLoggerLevel("OFF")
			regTestFilters()
			socket.SetMessageSizeLimit(c16SizeLim)
		},
		Gen: c16GenCases,
		Run: func(line string, out *hx.Out) (obs string, nt bool) {
			kind, f := hx.Fields(line)
			defer func() {
				if p := recover(); p != nil {
					obs, nt = fmt.Sprintf("harness-panic:%v", p), false
				}
			}()
			switch kind {
			case "c16srv":
				return c16RunSrv(line, f, out, false)
			case "c16ck":
				return c16RunSrv(line, f, out, true)
			case "c16dial", "c16e2e":
				return c16RunDial(kind, line, f, out)
			}
			return "bad-kind", false
		},
	}
}
