package main

import (
	"bytes"
	"os"
	"os/exec"
	"path/filepath"
	cgzip "compress/gzip"
	"fmt"
	"io"
	"net/url"
	"sort"
	"strconv"
	"strings"
	"sync"

	erpc "github.com/henrylee2cn/erpc/v6"
	"github.com/henrylee2cn/erpc/v6/proto/httproto"
	"github.com/henrylee2cn/erpc/v6/socket"
	"github.com/henrylee2cn/erpc/v6/xfer"
	xgzip "github.com/henrylee2cn/erpc/v6/xfer/gzip"
	"github.com/henrylee2cn/goutil/status"

	"verif/harness/internal/hx"
)

// C05, httproto against its Lean model (Model/HttpProto): kinds
//   httppack   real httproto.Pack output vs the model's bytes (byte-exact; header order is the sorted
//              order http.Header.Write produces, so nothing needs canonicalising) + the property's
//              round-trip / size oracles inside the supported field set WFh (c05hWF)
//   httpunpack real httproto.Unpack of valid, truncated, header-mutated, hand-made and random inputs
//              vs the model (class, every field, bytes left)
//   httpstream back-to-back messages + tail under the 4 chunk modes, optionally into a re-used message
// compress/flate (the gzip filter) and encoding/json (Status.UnmarshalJSON on entities other than the
// ones MarshalJSON writes from ASCII text) are not modelled: the case line carries what the real
// functions return for the byte strings that occur (gzp=, gzu=, sj=). url.Parse is modelled except
// for inputs with an authority part; the generator keeps out of that class (c05hURLInClass).

func init() {
	p := props["c05"]
	g, r := p.Gen, p.Run
	p.Gen = func(rr *hx.R, tier string, out *hx.Out) []string {
		ls := g(rr, tier, out)
		return append(ls, c05hGenSub(rr, tier, "c05hgen", out)...)
	}
	// the generator needs the real gzip filter (frames to mutate, tables of what it returns). It
	// runs in a child process: registering the filter here, before the raw-protocol cases of this
	// run are executed, would change what the real code makes of a mutated raw frame whose pipe
	// holds the byte 'g' (the raw model knows the three test filters only). This process registers
	// gzip when it executes its first http case - after all raw cases, like the xrt cases do.
	props["c05hgen"] = &Prop{
		Setup: func() { erpc.SetLoggerLevel("OFF"); regTestFilters(); c05hRegGzip() },
		Gen:   c05hGen,
		Run:   func(string, *hx.Out) (string, bool) { return "generated", false },
	}
	p.Run = func(line string, out *hx.Out) (string, bool) {
		if strings.HasPrefix(line, "http") {
			return c05hRun(line, out)
		}
		return r(line, out)
	}
}

var c05hGzipOnce sync.Once

// c05hRegGzip registers the real gzip filter as id 'g', name "gzip-5" (another runner of this
// binary may have done so already with the same parameters).
func c05hRegGzip() {
	c05hGzipOnce.Do(func() {
		defer func() { recover() }()
		xgzip.Reg('g', "gzip-5", 5)
	})
}

func c05hPF() erpc.ProtoFunc { return httproto.NewHTTProtoFunc() }

// c05hGenSub runs the generator `kind` in a child process of this binary with a seed drawn from rr.
func c05hGenSub(rr *hx.R, tier, kind string, out *hx.Out) []string {
	seed := rr.Int63()
	dir, err := os.MkdirTemp("", "c05hgen")
	if err != nil {
		panic(err)
	}
	defer os.RemoveAll(dir)
	cases := filepath.Join(dir, "cases")
	cmd := exec.Command(os.Args[0], kind, "-seed", strconv.FormatInt(seed, 10), "-tier", tier,
		"-cases", cases, "-obs", filepath.Join(dir, "obs"), "-stats", filepath.Join(dir, "stats"))
	if b, err := cmd.CombinedOutput(); err != nil {
		panic(fmt.Sprintf("generator child %s failed: %v\n%s", kind, err, b))
	}
	ls := readLines(cases)
	for _, l := range ls {
		if i := strings.IndexByte(l, ' '); i > 0 {
			out.Count("gen:" + l[:i])
		}
	}
	return ls
}

// ---- the supported field set (Lean: HttpP.WFh) ----------------------------------------------

var c05hOwnKeys = map[string]bool{"Content-Type": true, "Content-Length": true, "X-Content-Encoding": true, "X-Seq": true,
	"X-Mtype": true, "Content-Encoding": true, "Host": true, "User-Agent": true, "Accept-Encoding": true}

func c05hToken(c byte) bool {
	return c >= '0' && c <= '9' || c >= 'a' && c <= 'z' || c >= 'A' && c <= 'Z' || strings.IndexByte("!#$%&'*+-.^_`|~", c) >= 0
}

// c05hCanon: the key is a non-empty token in canonical MIME form.
func c05hCanon(k []byte) bool {
	if len(k) == 0 {
		return false
	}
	up := true
	for _, c := range k {
		if !c05hToken(c) || up && c >= 'a' && c <= 'z' || !up && c >= 'A' && c <= 'Z' {
			return false
		}
		up = c == '-'
	}
	return true
}

var c05hSpaces = []string{"\t", "\n", "\v", "\f", "\r", " ", "\u0085", "\u00a0", "\u1680", "\u2000", "\u2001", "\u2002", "\u2003",
	"\u2004", "\u2005", "\u2006", "\u2007", "\u2008", "\u2009", "\u200a", "\u2028", "\u2029", "\u202f", "\u205f", "\u3000"}

// c05hValueOK: no CR/LF, and bytes.TrimSpace leaves the value alone.
func c05hValueOK(v []byte) bool {
	s := string(v)
	if strings.ContainsAny(s, "\r\n") {
		return false
	}
	for _, sp := range c05hSpaces {
		if strings.HasPrefix(s, sp) || strings.HasSuffix(s, sp) {
			return false
		}
	}
	return true
}

// c05hMethodOK: no control byte, space, DEL, '%', '?', '#'; no authority; no colon in the first segment.
func c05hMethodOK(me []byte) bool {
	for _, c := range me {
		if c <= 32 || c == 127 || c == '%' || c == '?' || c == '#' {
			return false
		}
	}
	s := string(me)
	if strings.HasPrefix(s, "//") {
		return false
	}
	seg := s
	if i := strings.IndexByte(s, '/'); i >= 0 {
		seg = s[:i]
	}
	return !strings.Contains(seg, ":")
}

func c05hASCII(b []byte) bool {
	for _, c := range b {
		if c >= 128 {
			return false
		}
	}
	return true
}

func c05hWF(m *M) bool {
	switch m.Codec {
	case 'j', 'p', 'f', 's', 'x':
	default:
		return false
	}
	if len(m.Pipe) > 1 || (len(m.Pipe) == 1 && m.Pipe[0] != 'g') {
		return false
	}
	seen := map[string]bool{}
	for i, kv := range m.Meta {
		k := string(kv[0])
		if !c05hCanon(kv[0]) || c05hOwnKeys[k] || seen[k] || !c05hValueOK(kv[1]) {
			return false
		}
		if i > 0 && string(m.Meta[i-1][0]) >= k { // ordered: the header block is written sorted
			return false
		}
		seen[k] = true
	}
	zero := m.Code == 0 && len(m.Msg) == 0 && !m.HasCause
	switch m.Mtype {
	case 1, 4:
		return zero && c05hMethodOK(m.Method)
	case 2, 5:
		if len(m.Method) != 0 {
			return false
		}
		if m.Code == 0 {
			return zero
		}
		// an error response carries the status as its entity: no body, JSON content type
		return len(m.Body) == 0 && m.Codec == 'j' && c05hASCII(m.Msg) && c05hASCII(m.Cause) && !(m.HasCause && len(m.Cause) == 0)
	}
	return false
}

// ---- url.Parse class ---------------------------------------------------------------------------

// c05hURLInClass: the model answers for url.Parse(s) (no authority part is parsed).
func c05hURLInClass(s string) bool {
	if i := strings.IndexByte(s, '#'); i >= 0 {
		s = s[:i]
	}
	for i := 0; i < len(s); i++ {
		if s[i] < 32 || s[i] == 127 {
			return true // rejected before anything else
		}
	}
	scheme := false
	rest := s
loop:
	for i := 0; i < len(s); i++ {
		c := s[i]
		switch {
		case 'a' <= c && c <= 'z' || 'A' <= c && c <= 'Z':
		case '0' <= c && c <= '9' || c == '+' || c == '-' || c == '.':
			if i == 0 {
				break loop
			}
		case c == ':':
			if i == 0 {
				return true // error
			}
			scheme, rest = true, s[i+1:]
			break loop
		default:
			break loop
		}
	}
	if i := strings.IndexByte(rest, '?'); i >= 0 {
		rest = rest[:i]
	}
	if strings.HasPrefix(rest, "//") && (scheme || !strings.HasPrefix(rest, "///")) {
		return false
	}
	return true
}

// c05hFirstTarget: the request target of a first line, as Unpack splits it.
func c05hTargetsInClass(stream []byte) bool {
	// every line that could become a first line: conservative — check each line's second token
	for _, ln := range strings.Split(string(stream), "\n") {
		a := strings.SplitN(strings.TrimSuffix(ln, "\r"), " ", 3)
		if len(a) == 3 && !c05hURLInClass(a[1]) {
			return false
		}
	}
	return true
}

// ---- the unmodelled library functions, tabulated ---------------------------------------------------

func c05hGzip() xfer.XferFilter {
	f, err := xfer.Get('g')
	if err != nil {
		panic("gzip filter not registered")
	}
	return f
}

// c05hOnUnpack: class "ok", "e" (io.EOF / io.ErrUnexpectedEOF), "h" (that error or a panic, depending
// on the filter's reader pool) or "x" (any other error, or a panic).
func c05hOnUnpack(id byte, b []byte) (o []byte, class string) {
	f, err := xfer.Get(id)
	if err != nil {
		return nil, "x"
	}
	defer func() {
		if recover() != nil {
			o, class = nil, "x"
		}
	}()
	if id == 'g' && len(b) > 0 {
		// a stream that ends inside the gzip header: the filter returns the EOF error when its pooled
		// reader has been used before and panics (nil decompressor in Close) when it is fresh
		if herr := new(cgzip.Reader).Reset(bytes.NewReader(b)); herr == io.EOF || herr == io.ErrUnexpectedEOF {
			return nil, "h"
		}
	}
	o, err = f.OnUnpack(append([]byte(nil), b...))
	if err == io.EOF || err == io.ErrUnexpectedEOF {
		return nil, "e"
	}
	if err != nil {
		return nil, "x"
	}
	return append([]byte(nil), o...), "ok"
}

func c05hStatusTriple(st *status.Status) string {
	code, msg, cause := int32(0), []byte(nil), "nil"
	for _, part := range strings.Split(string(st.EncodeQuery()), "&") {
		switch {
		case strings.HasPrefix(part, "code="):
			c, _ := strconv.ParseInt(part[5:], 10, 64)
			code = int32(c)
		case strings.HasPrefix(part, "msg="):
			msg = unq(part[4:])
		case strings.HasPrefix(part, "cause="):
			cause = hx.Hex(unq(part[6:]))
		}
	}
	return fmt.Sprintf("%d;%s;%s", code, hx.Hex(msg), cause)
}

// c05hSJ: what Status.UnmarshalJSON answers for a non-empty entity.
func c05hSJ(b []byte) string {
	st := new(status.Status)
	res := ""
	func() {
		defer func() {
			if recover() != nil {
				res = "x"
			}
		}()
		if err := st.UnmarshalJSON(append([]byte(nil), b...)); err != nil {
			res = "x"
		}
	}()
	if res != "" {
		return res
	}
	return c05hStatusTriple(st)
}

type c05hTabs struct {
	gzp, gzu, sj map[string]string
}

func newC05hTabs() *c05hTabs {
	return &c05hTabs{map[string]string{}, map[string]string{}, map[string]string{}}
}

func c05hJoin(m map[string]string) string {
	if len(m) == 0 {
		return "-"
	}
	ks := make([]string, 0, len(m))
	for k := range m {
		ks = append(ks, k)
	}
	sort.Strings(ks)
	es := make([]string, len(ks))
	for i, k := range ks {
		es[i] = k + ">" + m[k]
	}
	return strings.Join(es, "|")
}

func (t *c05hTabs) String() string {
	return fmt.Sprintf("gzp=%s gzu=%s sj=%s", c05hJoin(t.gzp), c05hJoin(t.gzu), c05hJoin(t.sj))
}

// addPack: what the real gzip OnPack returns for every byte string Pack may hand it for m.
func (t *c05hTabs) addPack(m *M, msg socket.Message) {
	gz := c05hGzip()
	put := func(b []byte) []byte {
		o, err := gz.OnPack(append([]byte(nil), b...))
		if err != nil || len(b) == 0 && false {
			return nil
		}
		o = append([]byte(nil), o...)
		t.gzp[hx.Hex(b)] = hx.Hex(o)
		return o
	}
	b := append([]byte(nil), m.Body...)
	for _, id := range m.Pipe {
		if id != 'g' {
			break
		}
		b = put(b)
	}
	if msg != nil && !msg.StatusOK() {
		if sb, err := msg.Status().MarshalJSON(); err == nil {
			put(sb)
		}
	}
}

// recReader delivers everything at once and records what it delivered for multi-byte requests
// (the body reads; also the 5-byte prefixes, harmless).
type recReader struct {
	data   []byte
	pos    int
	bodies [][]byte
}

func (c *recReader) Read(p []byte) (int, error) {
	if c.pos >= len(c.data) {
		return 0, io.EOF
	}
	n := copy(p, c.data[c.pos:])
	// a one-byte request right after a blank line may be a one-byte body
	afterBlank := c.pos >= 2 && c.data[c.pos-1] == '\n' && (c.data[c.pos-2] == '\n' || (c.pos >= 3 && c.data[c.pos-2] == '\r' && c.data[c.pos-3] == '\n'))
	if len(p) > 1 || afterBlank {
		c.bodies = append(c.bodies, append([]byte(nil), c.data[c.pos:c.pos+n]...))
	}
	c.pos += n
	return n, nil
}
func (c *recReader) Write(p []byte) (int, error) { return len(p), nil }

// addUnpack: runs the real Unpack over the stream once (generator side) to learn which byte
// strings reach the transfer filters and the status decoder, and tabulates the real results for
// them and for what the registered filters make of them (closure, depth 3).
func (t *c05hTabs) addUnpack(stream []byte, limit int) {
	socket.SetMessageSizeLimit(uint32(limit))
	defer socket.SetMessageSizeLimit(0)
	rd := &recReader{data: stream}
	p := c05hPF()(rd)
	for i := 0; i < 12 && rd.pos < len(rd.data); i++ {
		before := rd.pos
		unpackOne(p)
		if rd.pos == before {
			break
		}
	}
	biz := strings.Contains(string(stream), "299")
	seen := map[string]bool{}
	level := rd.bodies
	for depth := 0; depth < 4 && len(level) > 0; depth++ {
		var next [][]byte
		for _, s := range level {
			if len(s) == 0 || seen[string(s)] {
				continue
			}
			seen[string(s)] = true
			if biz {
				t.sj[hx.Hex(s)] = c05hSJ(s)
			}
			for _, id := range []byte{'g', 1, 2, 3} {
				o, class := c05hOnUnpack(id, s)
				if id == 'g' && class == "ok" {
					t.gzu[hx.Hex(s)] = hx.Hex(o)
				} else if id == 'g' && (class == "e" || class == "h") {
					t.gzu[hx.Hex(s)] = class
				}
				if class == "ok" && len(o) > 0 && len(seen) < 40 {
					next = append(next, o)
				}
			}
		}
		level = next
	}
}

// ---- generators ------------------------------------------------------------------------------

var c05hCleanKeys = []string{"A", "Accept", "Bar-Baz", "Cookie", "Foo", "X-Abc", "X-Zed", "Zz-Top", "X-Request-Id", "B3", "!#$%&'*+-.^_`|~"}

var c05hDirtyKeys = []string{"foo", "x-abc-def", "FOO-bar", "a", "X-Seq", "x-seq", "X-Mtype", "x-mtype", "Content-Length", "content-length",
	"Content-Type", "content-type", "X-Content-Encoding", "x-content-encoding", "Content-Encoding", "User-Agent", "user-agent", "Host",
	"Accept-Encoding", "a b", "k:v", "", "\xc3\xa9", "K\xff", "a\r\nb", "Foo", "Foo"}

func c05hGenValue(r *hx.R, clean bool) []byte {
	words := []string{"v", "bar", "a b", "x:y", "1", "gzip", "text/xml;q=1", "\xc3\xa9t\xc3\xa9", "\xe6\x97\xa5\xe6\x9c\xac", "a\xffb", "-7", "0"}
	if clean {
		if r.Intn(6) == 0 {
			return nil
		}
		s := words[r.Intn(len(words))]
		if r.Intn(3) == 0 {
			s += " " + words[r.Intn(len(words))]
		}
		return []byte(s)
	}
	edges := []string{" ", "\t", "\r", "\n", "\r\n", "\v", "\f", "\u0085", "\u00a0", "\u2003", "\u3000", "\xc2", "\xe2\x80", "", "x"}
	special := []string{"gzip-5", "vrev", "vxor", "vlen", "nope", "12", "-3", "+4", "x", "99999999999999999999", "1", "2", "4", "5", "300", "application/json", "text/xml; charset=x"}
	switch r.Intn(4) {
	case 0:
		return []byte(special[r.Intn(len(special))])
	case 1:
		return r.AnyBytes(r.Intn(8))
	}
	s := edges[r.Intn(len(edges))] + words[r.Intn(len(words))]
	if r.Intn(2) == 0 {
		s += []string{"\r\n", "\n", "\r", " "}[r.Intn(4)] + words[r.Intn(len(words))]
	}
	return []byte(s + edges[r.Intn(len(edges))])
}

func c05hGenMethod(r *hx.R, clean bool) []byte {
	const al = "abcdefghijklmnopqrstuvwxyzABCDEFGHIJKLMNOPQRSTUVWXYZ0123456789_-.~"
	seg := func() string {
		n := 1 + r.Intn(8)
		b := make([]byte, n)
		for i := range b {
			b[i] = al[r.Intn(len(al))]
		}
		return string(b)
	}
	s := ""
	for k := 1 + r.Intn(3); k > 0; k-- {
		s += "/" + seg()
	}
	if clean {
		switch r.Intn(12) {
		case 0:
			return nil
		case 1:
			return []byte(s[1:]) // no leading slash
		case 2:
			return []byte(s + "/" + []string{"a:b", "!$&'()*+,;=@", "\xc3\xa9", "\xff\x80", "[x]", "{y}|^`\"<>\\"}[r.Intn(6)])
		case 3:
			return []byte("*")
		case 4:
			return []byte("/")
		}
		return []byte(s)
	}
	extra := []string{" x", "%41", "%zz", "%4", "%", "?x=1&y=%41", "?", "??", "?a?", "#frag", "#%zz", "#", "\x01", "\x7f", "\r", "\n", "+", "?k=v+w&&e", "?=v", "?%ff=%"}
	pre := []string{"", "", "", "a:b", ":x", "http:", "http:/p", "h2+x.y-z:", "1a:b", "a/b:c", "*", "//host/p", "http://u@h:80/p", "///p", "x://", "a%41"}
	p := pre[r.Intn(len(pre))]
	out := p + s
	if p != "" && r.Intn(2) == 0 {
		out = p
	}
	for k := r.Intn(3); k > 0; k-- {
		out += extra[r.Intn(len(extra))]
	}
	return []byte(out)
}

// c05hGenMsg draws a message; clean = aimed inside WFh (the caller still evaluates c05hWF).
func c05hGenMsg(r *hx.R, clean bool) *M {
	m := &M{Seq: genSeq(r)}
	if clean {
		m.Mtype = byte(r.Pick(1, 1, 2, 2, 4, 5))
		m.Codec = byte(r.Pick('j', 'p', 'f', 's', 'x'))
	} else {
		m.Mtype = byte(r.Pick(1, 1, 1, 2, 2, 2, 4, 5, 3, 0, r.Intn(256)))
		m.Codec = byte(r.Pick('j', 'p', 'f', 's', 'x', 0, 't', r.Intn(256)))
	}
	request := m.Mtype == 1 || m.Mtype == 4
	if request || (!clean && r.Intn(5) == 0) {
		m.Method = c05hGenMethod(r, clean || r.Intn(3) == 0)
		for !c05hURLInClass(string(m.Method)) {
			m.Method = c05hGenMethod(r, true)
		}
	}
	m.Body = r.AnyBytes(genLen(r, 40, 0, 1, 255, 256))
	if r.Intn(4) == 0 {
		m.Body = []byte(strings.Repeat("hello ", r.Intn(20)))
	}
	if (!request && r.Intn(2) == 0) || (!clean && r.Intn(8) == 0) {
		m.Code = int32(r.Pick(1, -1, 102, 404, 500, 2147483647, -2147483648, int(int32(r.Uint32())), 0))
		switch r.Intn(4) {
		case 0:
			m.Msg = r.Bytes(r.Intn(12), 1)
		case 1:
			m.Msg = []byte([]string{"not \"found\"\n", "a\\b\tc\r", "\x00\x1f\x7f", "", "ok"}[r.Intn(5)])
		case 2:
			if !clean {
				m.Msg = []byte([]string{"\xc3\xa9t\xc3\xa9", "\xe2\x80\xa8x\xe2\x80\xa9", "a\xffb", "\xf0\x9f\x98\x80", "\xed\xa0\x80", "\xc0\x80", "\xe2\x80"}[r.Intn(7)])
			} else {
				m.Msg = []byte("Not Found")
			}
		default:
			m.Msg = r.AnyBytes(r.Intn(10))
			if clean {
				m.Msg = r.Bytes(r.Intn(10), 1)
			}
		}
		if r.Intn(2) == 0 {
			m.HasCause = true
			m.Cause = r.Bytes(1+r.Intn(10), 1)
			if !clean && r.Intn(3) == 0 {
				m.Cause = r.AnyBytes(r.Intn(6))
			}
		}
		if clean && m.Code != 0 {
			m.Body, m.Codec = nil, 'j'
		}
		if clean && m.Code == 0 {
			m.Msg, m.HasCause, m.Cause = nil, false, nil
		}
	}
	if clean {
		ks := append([]string(nil), c05hCleanKeys...)
		sort.Strings(ks)
		for _, k := range ks {
			if r.Intn(5) == 0 {
				m.Meta = append(m.Meta, [2][]byte{[]byte(k), c05hGenValue(r, true)})
			}
		}
		if r.Intn(3) == 0 {
			m.Pipe = []byte{'g'}
		}
		return m
	}
	for i := r.Intn(5); i > 0; i-- {
		k := c05hCleanKeys[r.Intn(len(c05hCleanKeys))]
		if r.Intn(2) == 0 {
			k = c05hDirtyKeys[r.Intn(len(c05hDirtyKeys))]
		}
		m.Meta = append(m.Meta, [2][]byte{[]byte(k), c05hGenValue(r, r.Intn(2) == 0)})
	}
	switch r.Intn(8) {
	case 0, 1:
		m.Pipe = []byte{'g'}
	case 2:
		m.Pipe = []byte{'g', 'g'}
	case 3:
		m.Pipe = []byte{byte(1 + r.Intn(3))}
	case 4:
		m.Pipe = []byte{'g', byte(1 + r.Intn(3))}
	}
	return m
}

// c05hPackReal runs the real Pack into a buffer ("panic" error text for a recovered panic).
func c05hPackReal(m *M) (packed []byte, msg socket.Message, writes int, err error) {
	msg, err = m.toMessage()
	if err != nil {
		return nil, nil, 0, err
	}
	cr := newChunkReader(nil, 0, 0)
	func() {
		defer func() {
			if e := recover(); e != nil {
				err = fmt.Errorf("panic: %v", e)
			}
		}()
		err = c05hPF()(cr).Pack(msg)
	}()
	return append([]byte(nil), cr.written.Bytes()...), msg, cr.Writes, err
}

func c05hPackClass(err error) string {
	switch {
	case strings.HasPrefix(err.Error(), "panic:"):
		return "panic"
	case strings.HasPrefix(err.Error(), "unsupport message type"):
		return "err:mtype"
	case strings.HasPrefix(err.Error(), "unsupport xfer filter"):
		return "err:xfer"
	}
	if _, ok := err.(*url.Error); ok {
		return "err:url"
	}
	return "err:xfer"
}

// c05hBase: a packed message (any that the real Pack accepts).
func c05hBase(r *hx.R) ([]byte, *M) {
	for {
		m := c05hGenMsg(r, r.Intn(3) != 0)
		if len(m.Body) > 120 {
			m.Body = m.Body[:120]
		}
		socket.SetMessageSizeLimit(1 << 30)
		b, _, _, err := c05hPackReal(m)
		socket.SetMessageSizeLimit(0)
		if err == nil {
			return b, m
		}
	}
}

var c05hFirstLines = []string{"POST /a/b HTTP/1.1", "GET /a HTTP/1.1", "POST /a?x=1&y=%41&z HTTP/1.1", "POST  HTTP/1.1", "POST /a", "POST /a b c d", "POST",
	"HTTP/1.1 200 OK", "HTTP/1.1 299 Business Error", "HTTP/1.1 404 Not Found", "HTTP/1.1", "HTTP/ 200 OK", "HTTP/1.1  200 OK", "HTTP/1.1 200 OK ",
	"http/1.1 200 OK", "HTTP", "P\n /x y", "\n\n\n\n\n", "POST /%zz HTTP/1.1", "POST /a\x01 HTTP/1.1", "POST a:b HTTP/1.1", "POST :a HTTP/1.1", "POST /a#%z HTTP/1.1",
	"POST * HTTP/1.1", "POST /a%20b?q#f HTTP/1.1", "POST\r /x HTTP/1.1\r", "OPTIONS ///x/y z", "X http:/p?q y"}

var c05hHeaderLines = []string{"Content-Length: 3", "Content-Length: 0", "Content-Length: -1", "Content-Length: +2", "Content-Length:2", "Content-Length : 2",
	"content-length: 2", "Content-Length: 2x", "Content-Length: ", "Content-Length: 9223372036854775807", "Content-Length: 9223372036854775808",
	"Content-Length: -9223372036854775808", "Content-Length: 00000000000000000000002", "Content-Length: 1_0", "Content-Length: 0x2", "Content-Length: 4294967299",
	"X-Seq: 7", "X-Seq: -2147483648", "X-Seq: 2147483648", "X-Seq: 4294967297", "X-Seq: x", "X-Seq: +", "X-Seq:", "X-Mtype: 1", "X-Mtype: 2", "X-Mtype: 255",
	"X-Mtype: 256", "X-Mtype: -1", "X-Mtype: a", "Content-Type: application/json", "Content-Type: application/json;charset=utf-8", "Content-Type: text/xml ; q",
	"Content-Type: ;", "Content-Type: TEXT/PLAIN", "Content-Type: application/x-protobuf", "Content-Type: application/x-www-form-urlencoded;x", "Content-Type: text/plain",
	"X-Content-Encoding: gzip-5", "X-Content-Encoding: vrev", "X-Content-Encoding: vxor", "X-Content-Encoding: vlen", "X-Content-Encoding: nope", "X-Content-Encoding:",
	"Content-Encoding: gzip", "Foo: bar", "Foo: baz", "foo: 1", "Foo:", ":", ":v", "k\xc2\xa0: \xc2\xa0v\xc2\x85", "A:\rb", "A: b\r", "nocolon", " lead: x", "K: a: b",
	"K: \xe2\x80\x83v\xe3\x80\x80", "K: \xc2", "K: \xe2\x80", "K:\tv\v\f", "Accept-Encoding: gzip", "User-Agent: erpc-httproto/1.1"}

var c05hEntities = []string{`{"code":404,"msg":"nf","cause":""}`, `{"code":-1,"msg":"a\"b\\c\n","cause":"x"}`, `{"code":1,"msg":"\u00e9\u0041","cause":"\u0000"}`,
	`{"code":1}`, `{}`, `null`, `{"code":"1"}`, `{"code":2147483648,"msg":"","cause":""}`, `{"code":1,"msg":"x","cause":"y"} `, ` {"code":1,"msg":"x","cause":"y"}`,
	`{"code":1,"msg":"x","cause":"y"}}`, `{"code":01,"msg":"x","cause":"y"}`, `{"code":-0,"msg":"x","cause":"y"}`, `{"code":1,"msg":"x","cause":"y","z":1}`,
	`{"msg":"x","code":1,"cause":"y"}`, `{"code":1,"msg":"\x","cause":"y"}`, `{"code":1,"msg":"x","cause":"y"`, `[1]`, `x`, "{\"code\":1,\"msg\":\"\xff\",\"cause\":\"\"}",
	`{"code":1.0,"msg":"x","cause":"y"}`, `{"code":1e2,"msg":"x","cause":"y"}`, `{"Code":7,"MSG":"x","cause":"y"}`, `{"code":1,"msg":"\u0022\u005C\u000a","cause":"\u007f"}`}

func c05hHandMade(r *hx.R) []byte {
	eol := "\r\n"
	if r.Intn(5) == 0 {
		eol = "\n"
	}
	s := c05hFirstLines[r.Intn(len(c05hFirstLines))] + eol
	body := ""
	switch r.Intn(4) {
	case 0:
		body = string(r.AnyBytes(r.Intn(6)))
	case 1:
		body = c05hEntities[r.Intn(len(c05hEntities))]
	case 2:
		body = "abc"
	}
	for k := r.Intn(5); k > 0; k-- {
		s += c05hHeaderLines[r.Intn(len(c05hHeaderLines))] + eol
	}
	if r.Intn(3) != 0 && body != "" {
		s += fmt.Sprintf("Content-Length: %d%s", len(body)+r.Pick(0, 0, 0, 0, 1, -1), eol)
	}
	if r.Intn(8) != 0 {
		s += eol
	}
	return []byte(s + body + string(r.AnyBytes(r.Pick(0, 0, 3))))
}

// c05hSplitHead: the lines of the head of a packed message and what follows the blank line.
func c05hSplitHead(b []byte) (lines []string, body []byte, ok bool) {
	i := strings.Index(string(b), "\r\n\r\n")
	if i < 0 {
		return nil, nil, false
	}
	return strings.Split(string(b[:i]), "\r\n"), b[i+4:], true
}

func c05hMutateHead(r *hx.R, b []byte) []byte {
	lines, body, ok := c05hSplitHead(b)
	if !ok || len(lines) < 2 {
		return b
	}
	eol := "\r\n"
	for k := 1 + r.Intn(2); k > 0; k-- {
		i := 1 + r.Intn(len(lines)-1)
		switch r.Intn(9) {
		case 0: // replace by a prepared header line
			lines[i] = c05hHeaderLines[r.Intn(len(c05hHeaderLines))]
		case 1: // insert one
			lines = append(lines[:i], append([]string{c05hHeaderLines[r.Intn(len(c05hHeaderLines))]}, lines[i:]...)...)
		case 2: // delete
			lines = append(lines[:i], lines[i+1:]...)
		case 3: // duplicate
			lines = append(lines, lines[i])
		case 4: // lower-case the name
			if j := strings.IndexByte(lines[i], ':'); j > 0 {
				lines[i] = strings.ToLower(lines[i][:j]) + lines[i][j:]
			}
		case 5: // new value for the same name
			if j := strings.IndexByte(lines[i], ':'); j > 0 {
				lines[i] = lines[i][:j+1] + string(c05hGenValue(r, false))
			}
		case 6: // the first line
			lines[0] = c05hFirstLines[r.Intn(len(c05hFirstLines))]
		case 7:
			eol = "\n"
		default: // Content-Length off by a little / far too large
			for j, l := range lines {
				if strings.HasPrefix(l, "Content-Length: ") {
					lines[j] = fmt.Sprintf("Content-Length: %d", len(body)+r.Pick(1, -1, 2, 1000, 1<<21, 1<<33, -len(body)-3))
				}
			}
		}
		if len(lines) < 2 {
			break
		}
	}
	if r.Intn(6) == 0 { // the entity of an error response
		body = []byte(c05hEntities[r.Intn(len(c05hEntities))])
		for j, l := range lines {
			if strings.HasPrefix(l, "Content-Length: ") {
				lines[j] = fmt.Sprintf("Content-Length: %d", len(body))
			}
		}
	}
	return append([]byte(strings.Join(lines, eol)+eol+eol), body...)
}

func c05hGenUnpackBytes(r *hx.R, out *hx.Out, kind string) ([]byte, int) {
	limit := r.Pick(1<<20, 1<<20, 1<<20, 1<<20, 1<<20, 1<<20, 64, 200, 1024)
	base, _ := c05hBase(r)
	b := base
	switch r.Intn(10) {
	case 0: // random bytes with line ends sprinkled in
		b = r.Bytes(r.Intn(60), 0)
		for k := r.Intn(4); k > 0 && len(b) > 0; k-- {
			b[r.Intn(len(b))] = byte(r.Pick('\n', '\r', ' ', ':'))
		}
	case 1: // truncation: inside the prefix, the first line, a header, at a line end, at the blank line, inside the body
		lines, body, ok := c05hSplitHead(b)
		cut := r.Intn(len(b) + 1)
		if ok {
			head := len(b) - len(body)
			switch r.Intn(7) {
			case 0:
				cut = r.Intn(6)
			case 1:
				cut = 5 + r.Intn(len(lines[0]))
			case 2:
				cut = len(lines[0]) + r.Pick(0, 1, 2)
			case 3:
				cut = head - r.Pick(1, 2, 3, 4)
			case 4:
				cut = head
			case 5:
				if len(body) > 0 {
					cut = head + r.Intn(len(body))
				}
			}
		}
		if cut < 0 {
			cut = 0
		}
		if cut > len(b) {
			cut = len(b)
		}
		b = b[:cut]
	case 2, 3, 4:
		b = c05hMutateHead(r, b)
	case 5: // byte mutations, head preferred
		b = append([]byte(nil), b...)
		sig := []byte("\r\n: /?#%HTP0123456789-+x")
		for k := 1 + r.Intn(3); k > 0 && len(b) > 0; k-- {
			i := r.Intn(len(b))
			if r.Intn(2) == 0 && len(b) > 40 {
				i = r.Intn(40)
			}
			switch r.Intn(5) {
			case 0:
				b[i] ^= 1 << uint(r.Intn(8))
			case 1:
				b[i] = byte(r.Intn(256))
			case 2:
				b = append(b[:i], append([]byte{sig[r.Intn(len(sig))]}, b[i:]...)...)
			case 3:
				b = append(b[:i], b[i+1:]...)
			default:
				b[i] = sig[r.Intn(len(sig))]
			}
		}
	case 6, 7:
		b = c05hHandMade(r)
	case 8: // valid + trailing bytes
		b = append(append([]byte(nil), b...), r.Bytes(r.Intn(6), 0)...)
	}
	if !c05hTargetsInClass(b) {
		out.Count(kind + ":gen-outside-model-domain")
		b = base
	}
	return b, limit
}

func c05hGen(r *hx.R, tier string, out *hx.Out) []string {
	n := 3000
	if tier == "thorough" {
		n = 30000
	}
	var ls []string
	for i := 0; i < n; i++ {
		switch k := r.Intn(10); {
		case k < 4:
			m := c05hGenMsg(r, r.Intn(3) != 0)
			limit := 1 << 30
			if r.Intn(12) == 0 {
				limit = r.Pick(16, 64, 300)
			}
			w := 0
			if c05hWF(m) {
				w = 1
			}
			t := newC05hTabs()
			msg, _ := m.toMessage()
			t.addPack(m, msg)
			ls = append(ls, fmt.Sprintf("httppack %s limit=%d wf=%d chunk=%d cseed=%d %s", m.Line(), limit, w, r.Intn(4), r.Intn(1000), t))
		case k < 6:
			cnt := 1 + r.Intn(5)
			var ms []string
			var stream []byte
			t := newC05hTabs()
			for j := 0; j < cnt; j++ {
				var m *M
				var packed []byte
				for {
					m = c05hGenMsg(r, r.Intn(4) != 0)
					if len(m.Body) > 200 {
						m.Body = m.Body[:200]
					}
					socket.SetMessageSizeLimit(1 << 30)
					b, _, _, err := c05hPackReal(m)
					socket.SetMessageSizeLimit(0)
					if err == nil {
						packed = b
						break
					}
				}
				msg, _ := m.toMessage()
				t.addPack(m, msg)
				ms = append(ms, strings.ReplaceAll(m.Line(), " ", ";"))
				stream = append(stream, packed...)
			}
			tail := r.AnyBytes(r.Pick(0, 0, 1, 3, 5))
			stream = append(stream, tail...)
			t.addUnpack(stream, 1<<20)
			ls = append(ls, fmt.Sprintf("httpstream limit=%d chunk=%d cseed=%d reuse=%d tail=%s %s msgs=%s", 1<<20, r.Intn(4), r.Intn(1000), r.Intn(2), hx.Hex(tail), t, strings.Join(ms, "|")))
		default:
			b, limit := c05hGenUnpackBytes(r, out, "httpunpack")
			t := newC05hTabs()
			t.addUnpack(b, limit)
			ls = append(ls, fmt.Sprintf("httpunpack limit=%d chunk=%d cseed=%d %s bytes=%s", limit, r.Intn(4), r.Intn(1000), t, hx.Hex(b)))
		}
	}
	return ls
}

// ---- runner ------------------------------------------------------------------------------------

// c05hStripOwn removes the protocol's own header lines from the metadata Unpack delivers.
func c05hStripOwn(kvs [][2][]byte) [][2][]byte {
	var o [][2][]byte
	for _, kv := range kvs {
		if !c05hOwnKeys[string(kv[0])] {
			o = append(o, kv)
		}
	}
	return o
}

func c05hDiffSig(w, got *M) string {
	switch {
	case string(w.Body) != string(got.Body):
		return "c05:http:roundtrip:body"
	case w.Code != got.Code || string(w.Msg) != string(got.Msg) || string(w.Cause) != string(got.Cause) || w.HasCause != got.HasCause:
		return "c05:http:roundtrip:status"
	case hx.KVs(w.Meta) != hx.KVs(got.Meta):
		return "c05:http:roundtrip:meta"
	case string(w.Method) != string(got.Method):
		return "c05:http:roundtrip:method"
	case string(w.Pipe) != string(got.Pipe):
		return "c05:http:roundtrip:pipe"
	case w.Seq != got.Seq:
		return "c05:http:roundtrip:seq"
	case w.Mtype != got.Mtype:
		return "c05:http:roundtrip:mtype"
	case w.Codec != got.Codec:
		return "c05:http:roundtrip:codec"
	}
	return "c05:http:roundtrip:fields"
}

// c05hSame compares every field of the property's list; the metadata modulo the protocol's own
// header lines (it maps onto HTTP headers), the size not at all (Unpack does not count line ends).
func c05hSame(w, got *M) string {
	x, y := *w, *got
	y.Meta = c05hStripOwn(y.Meta)
	return sameM(&x, &y, false)
}

func c05hRun(line string, out *hx.Out) (string, bool) {
	kind, f := hx.Fields(line)
	limit, _ := strconv.Atoi(f["limit"])
	socket.SetMessageSizeLimit(uint32(limit))
	defer socket.SetMessageSizeLimit(0)
	chunk, _ := strconv.Atoi(f["chunk"])
	cseed, _ := strconv.Atoi(f["cseed"])
	c05hRegGzip()
	switch kind {
	case "httppack":
		m := parseM(f)
		out.Count(kind)
		packed, msg, writes, err := c05hPackReal(m)
		if msg == nil {
			out.Count(kind + ":pipe-refused")
			return "err:xfer", true
		}
		if err != nil {
			c := c05hPackClass(err)
			out.Count(kind + ":" + c)
			if writes != 0 {
				out.Violate(line, "no-write-on-error", fmt.Sprintf("Pack failed but wrote %d times", writes), "c05:http:write-on-error")
			}
			return c, true
		}
		if writes != 1 {
			out.Violate(line, "single-write", fmt.Sprintf("Pack wrote %d times", writes), "c05:http:single-write")
		}
		if len(packed) <= limit && int(msg.Size()) != len(packed) {
			out.Violate(line, "size-is-frame-length", fmt.Sprintf("size %d, frame %d bytes", msg.Size(), len(packed)), "c05:http:size")
		}
		if f["wf"] == "1" {
			socket.SetMessageSizeLimit(1 << 30)
			rd := newChunkReader(packed, chunk, int64(cseed))
			got, class := unpackOne(c05hPF()(rd))
			if class != "ok" {
				out.Violate(line, "roundtrip", "unpack of packed message: "+class, "c05:http:frame-sync")
			} else {
				if d := c05hSame(m, got); d != "" {
					out.Violate(line, "roundtrip", d, c05hDiffSig(m, &M{Seq: got.Seq, Mtype: got.Mtype, Method: got.Method, Code: got.Code, Msg: got.Msg, Cause: got.Cause, HasCause: got.HasCause, Meta: c05hStripOwn(got.Meta), Codec: got.Codec, Body: got.Body, Pipe: got.Pipe}))
				}
				if rd.Rest() != 0 {
					out.Violate(line, "roundtrip", fmt.Sprintf("%d bytes of the frame left unread", rd.Rest()), "c05:http:frame-sync")
				}
			}
			out.Count(kind + ":wf-roundtrip")
		} else {
			out.Count(kind + ":outside-supported-set")
		}
		return fmt.Sprintf("ok size=%d bytes=%s", msg.Size(), hx.Hex(packed)), true
	case "httpunpack":
		b := hx.UnHex(f["bytes"])
		rd := newChunkReader(b, chunk, int64(cseed))
		got, class := unpackOne(c05hPF()(rd))
		out.Count(kind + ":" + class)
		if class == "ok" {
			return fmt.Sprintf("ok %s rest=%d", got.Show(), rd.Rest()), true
		}
		return class, len(b) > 5
	case "httpstream":
		var want []*M
		var stream []byte
		var first socket.Message
		var firstSize uint32
		packer := newChunkReader(nil, 0, 0)
		pp := c05hPF()(packer)
		socket.SetMessageSizeLimit(1 << 30)
		for i, ml := range strings.Split(f["msgs"], "|") {
			_, mf := hx.Fields("m " + strings.ReplaceAll(ml, ";", " "))
			m := parseM(mf)
			msg, err := m.toMessage()
			if err != nil {
				return "bad-case", false
			}
			before := packer.written.Len()
			if err := pp.Pack(msg); err != nil {
				return "bad-case", false
			}
			if int(msg.Size()) != packer.written.Len()-before {
				out.Violate(line, "size-is-frame-length", fmt.Sprintf("frame %d: size %d, frame %d bytes", i, msg.Size(), packer.written.Len()-before), "c05:http:size")
			}
			if i == 0 {
				first, _ = m.toMessage()
				firstSize = msg.Size()
			}
			want = append(want, m)
		}
		stream = append(stream, packer.written.Bytes()...)
		// the size reported for a message depends on that message alone: the first message again,
		// on the same protocol object, after the other traffic
		if first != nil {
			if err := pp.Pack(first); err == nil && first.Size() != firstSize {
				out.Violate(line, "size-depends-on-message-only", fmt.Sprintf("size %d first, %d after %d other frames", firstSize, first.Size(), len(want)-1), "c05:http:size-depends-on-traffic")
			}
		}
		socket.SetMessageSizeLimit(uint32(limit))
		stream = append(stream, hx.UnHex(f["tail"])...)
		rd := newChunkReader(stream, chunk, int64(cseed))
		p := c05hPF()(rd)
		var shows []string
		end := ""
		reused := socket.NewMessage()
		for i := 0; ; i++ {
			var got *M
			var class string
			if f["reuse"] == "1" {
				got, class = unpackInto(p, reused)
			} else {
				got, class = unpackOne(p)
			}
			if class != "ok" {
				end = class
				break
			}
			shows = append(shows, got.Show())
			if i < len(want) && c05hWF(want[i]) {
				if d := c05hSame(want[i], got); d != "" {
					g2 := *got
					g2.Meta = c05hStripOwn(g2.Meta)
					out.Violate(line, "stream-roundtrip", fmt.Sprintf("frame %d: %s", i, d), c05hDiffSig(want[i], &g2))
				}
			}
			if i > len(want)+8 {
				end = "runaway"
				break
			}
		}
		allWF := true
		for _, w := range want {
			allWF = allWF && c05hWF(w)
		}
		if allWF && len(shows) < len(want) {
			out.Violate(line, "stream-sync", fmt.Sprintf("decoded %d of %d frames (%s)", len(shows), len(want), end), "c05:http:frame-sync")
		}
		out.Count(fmt.Sprintf("%s:frames=%d", kind, len(want)))
		return fmt.Sprintf("n=%d end=%s bytes=%s msgs=%s", len(shows), end, hx.Hex(stream), strings.ReplaceAll(strings.Join(shows, "|"), " ", ";")), true
	}
	return "bad-kind", false
}
