package main

// C09 — plugin hooks fire once, in stage and registration order, and can veto.
//
// Case lines (see lean/Teleport/Drv/C09.lean for the grammar):
//
//	c09call  B=<ops> A=<ops> route=<id> hs=<code> vb=<vetoes> va=<vetoes>
//	c09push  B=<ops> A=<ops> route=<id> vb=<vetoes> va=<vetoes>
//	c09fatal B=<ops>
//
// B is the receiving peer (routes, groups, global plugins), A the calling peer (global plugins).
// Every plugin is a real Go value whose *type* implements exactly the stage interfaces of its
// mask (the framework decides by interface assertion), with scripted verdicts per (name, stage).
// One case = two fresh real peers, one in-memory connection, one CALL (+REPLY) or PUSH.

import (
	"errors"
	"fmt"
	"hash/fnv"
	"os"
	"os/exec"
	"sort"
	"strconv"
	"strings"
	"sync"
	"time"

	erpc "github.com/henrylee2cn/erpc/v6"
	"github.com/henrylee2cn/erpc/v6/codec"

	"verif/harness/internal/hx"
)

func init() {
	props["c09"] = &Prop{Setup: c09Setup, Gen: c09Gen, Run: c09Run}
}

// ---- stages -------------------------------------------------------------------------------

const (
	sPreWriteCall = iota
	sPostWriteCall
	sPreWriteReply
	sPostWriteReply
	sPreWritePush
	sPostWritePush
	sPreReadHeader
	sPostReadCallHeader
	sPreReadCallBody
	sPostReadCallBody
	sPostReadPushHeader
	sPreReadPushBody
	sPostReadPushBody
	sPostReadReplyHeader
	sPreReadReplyBody
	sPostReadReplyBody
	nStages
)

// documented order along one exchange (doc comments of the plugin interfaces in plugin.go).
var c09Rank = [nStages]int{
	sPreWriteCall: 0, sPostWriteCall: 1, sPreWritePush: 0, sPostWritePush: 1,
	sPreReadHeader:      2,
	sPostReadCallHeader: 3, sPreReadCallBody: 4, sPostReadCallBody: 5,
	sPostReadPushHeader: 3, sPreReadPushBody: 4, sPostReadPushBody: 5,
	sPreWriteReply: 6, sPostWriteReply: 7,
	sPostReadReplyHeader: 8, sPreReadReplyBody: 9, sPostReadReplyBody: 10,
}

// ---- recording plugins ----------------------------------------------------------------------

type c09Trace struct {
	mu   sync.Mutex
	hold bool // caller side: a PostWriteCall hook lingers until a reply-stage hook fires or 15 ms pass
	hdr []c09Ev // first preReadHeader invocation of each plugin instance (idle read loop start)
	ev  []c09Ev // everything else, in real order; handler invocations have stage -1
}

type c09Ev struct {
	name  int // plugin name; for handlers: route id (-1 = unknown handler)
	stage int // -1 = handler
}

func (e c09Ev) String() string {
	if e.stage < 0 {
		if e.name < 0 {
			return "HU"
		}
		return "H" + strconv.Itoa(e.name)
	}
	return strconv.Itoa(e.name) + "." + strconv.Itoa(e.stage)
}

// rec is the common part of every bank type.
type rec struct {
	name    int
	tr      *c09Trace
	veto    map[int]bool // stage -> scripted non-OK
	seenHdr bool
}

func (r *rec) Name() string { return "p" + strconv.Itoa(r.name) }

func c09Code(name, stage int) int32 { return int32(1000 + 100*name + stage) }

func (r *rec) fire(stage int) *erpc.Status {
	r.tr.mu.Lock()
	if stage == sPreReadHeader {
		if r.seenHdr {
			r.tr.mu.Unlock()
			return nil
		}
		r.seenHdr = true
		r.tr.hdr = append(r.tr.hdr, c09Ev{r.name, stage})
	} else {
		r.tr.ev = append(r.tr.ev, c09Ev{r.name, stage})
	}
	hold := r.tr.hold && stage == sPostWriteCall
	r.tr.mu.Unlock()
	if hold {
		// a slow post-write hook (seed C09-D): the reply of this very call may be on its way; its
		// hooks must not fire before the PostWriteCall stage of the exchange is over. On code where the
		// caller is shielded from its own reply until then, this simply lingers for the full 15 ms.
		waitUntil(15*time.Millisecond, func() bool {
			r.tr.mu.Lock()
			defer r.tr.mu.Unlock()
			for _, e := range r.tr.ev {
				if e.stage >= 0 && c09Rank[e.stage] >= 8 {
					return true
				}
			}
			return false
		})
	}
	if r.veto[stage] {
		return erpc.NewStatus(c09Code(r.name, stage), "veto", "")
	}
	return nil
}

// one mixin per stage interface; bank types are compositions of them (no methods of their own).
type (
	mPreWriteCall        struct{ r *rec }
	mPostWriteCall       struct{ r *rec }
	mPreWriteReply       struct{ r *rec }
	mPostWriteReply      struct{ r *rec }
	mPreWritePush        struct{ r *rec }
	mPostWritePush       struct{ r *rec }
	mPreReadHeader       struct{ r *rec }
	mPostReadCallHeader  struct{ r *rec }
	mPreReadCallBody     struct{ r *rec }
	mPostReadCallBody    struct{ r *rec }
	mPostReadPushHeader  struct{ r *rec }
	mPreReadPushBody     struct{ r *rec }
	mPostReadPushBody    struct{ r *rec }
	mPostReadReplyHeader struct{ r *rec }
	mPreReadReplyBody    struct{ r *rec }
	mPostReadReplyBody   struct{ r *rec }
)

func (m mPreWriteCall) PreWriteCall(erpc.WriteCtx) *erpc.Status     { return m.r.fire(sPreWriteCall) }
func (m mPostWriteCall) PostWriteCall(erpc.WriteCtx) *erpc.Status   { return m.r.fire(sPostWriteCall) }
func (m mPreWriteReply) PreWriteReply(erpc.WriteCtx) *erpc.Status   { return m.r.fire(sPreWriteReply) }
func (m mPostWriteReply) PostWriteReply(erpc.WriteCtx) *erpc.Status { return m.r.fire(sPostWriteReply) }
func (m mPreWritePush) PreWritePush(erpc.WriteCtx) *erpc.Status     { return m.r.fire(sPreWritePush) }
func (m mPostWritePush) PostWritePush(erpc.WriteCtx) *erpc.Status   { return m.r.fire(sPostWritePush) }
func (m mPreReadHeader) PreReadHeader(erpc.PreCtx) error {
	if st := m.r.fire(sPreReadHeader); st != nil {
		return errors.New("veto")
	}
	return nil
}
func (m mPostReadCallHeader) PostReadCallHeader(erpc.ReadCtx) *erpc.Status {
	return m.r.fire(sPostReadCallHeader)
}
func (m mPreReadCallBody) PreReadCallBody(erpc.ReadCtx) *erpc.Status { return m.r.fire(sPreReadCallBody) }
func (m mPostReadCallBody) PostReadCallBody(erpc.ReadCtx) *erpc.Status {
	return m.r.fire(sPostReadCallBody)
}
func (m mPostReadPushHeader) PostReadPushHeader(erpc.ReadCtx) *erpc.Status {
	return m.r.fire(sPostReadPushHeader)
}
func (m mPreReadPushBody) PreReadPushBody(erpc.ReadCtx) *erpc.Status { return m.r.fire(sPreReadPushBody) }
func (m mPostReadPushBody) PostReadPushBody(erpc.ReadCtx) *erpc.Status {
	return m.r.fire(sPostReadPushBody)
}
func (m mPostReadReplyHeader) PostReadReplyHeader(erpc.ReadCtx) *erpc.Status {
	return m.r.fire(sPostReadReplyHeader)
}
func (m mPreReadReplyBody) PreReadReplyBody(erpc.ReadCtx) *erpc.Status {
	return m.r.fire(sPreReadReplyBody)
}
func (m mPostReadReplyBody) PostReadReplyBody(erpc.ReadCtx) *erpc.Status {
	return m.r.fire(sPostReadReplyBody)
}

// the bank: 14 distinct Go types = 14 subsets of the stage interfaces.
type (
	bkNone struct{ *rec }
	bkAll  struct {
		*rec
		mPreWriteCall
		mPostWriteCall
		mPreWriteReply
		mPostWriteReply
		mPreWritePush
		mPostWritePush
		mPreReadHeader
		mPostReadCallHeader
		mPreReadCallBody
		mPostReadCallBody
		mPostReadPushHeader
		mPreReadPushBody
		mPostReadPushBody
		mPostReadReplyHeader
		mPreReadReplyBody
		mPostReadReplyBody
	}
	bkHdr struct {
		*rec
		mPreReadHeader
		mPostReadCallHeader
		mPostReadPushHeader
		mPostReadReplyHeader
	}
	bkCallBody struct {
		*rec
		mPreReadCallBody
		mPostReadCallBody
	}
	bkReplyW struct {
		*rec
		mPreWriteReply
		mPostWriteReply
	}
	bkCaller struct {
		*rec
		mPreWriteCall
		mPostWriteCall
		mPostReadReplyHeader
		mPreReadReplyBody
		mPostReadReplyBody
	}
	bkPushR struct {
		*rec
		mPostReadPushHeader
		mPreReadPushBody
		mPostReadPushBody
	}
	bkPushW struct {
		*rec
		mPreWritePush
		mPostWritePush
	}
	bkPre struct {
		*rec
		mPreWriteCall
		mPreWriteReply
		mPreWritePush
		mPreReadHeader
		mPreReadCallBody
		mPreReadPushBody
		mPreReadReplyBody
	}
	bkPost struct {
		*rec
		mPostWriteCall
		mPostWriteReply
		mPostWritePush
		mPostReadCallHeader
		mPostReadCallBody
		mPostReadPushHeader
		mPostReadPushBody
		mPostReadReplyHeader
		mPostReadReplyBody
	}
	bkPostCallBody struct {
		*rec
		mPostReadCallBody
	}
	bkMix struct {
		*rec
		mPreReadCallBody
		mPreWriteReply
		mPostReadPushBody
	}
	bkCallee struct {
		*rec
		mPostReadCallHeader
		mPreReadCallBody
		mPostReadCallBody
		mPreWriteReply
		mPostWriteReply
	}
	bkPreHdr struct {
		*rec
		mPreReadHeader
	}
)

// c09Bank: constructors; the mask of each is computed from the type by interface assertion.
var c09Bank = []func(r *rec) erpc.Plugin{
	func(r *rec) erpc.Plugin { return &bkNone{r} },
	func(r *rec) erpc.Plugin {
		return &bkAll{r, mPreWriteCall{r}, mPostWriteCall{r}, mPreWriteReply{r}, mPostWriteReply{r}, mPreWritePush{r}, mPostWritePush{r},
			mPreReadHeader{r}, mPostReadCallHeader{r}, mPreReadCallBody{r}, mPostReadCallBody{r}, mPostReadPushHeader{r}, mPreReadPushBody{r},
			mPostReadPushBody{r}, mPostReadReplyHeader{r}, mPreReadReplyBody{r}, mPostReadReplyBody{r}}
	},
	func(r *rec) erpc.Plugin {
		return &bkHdr{r, mPreReadHeader{r}, mPostReadCallHeader{r}, mPostReadPushHeader{r}, mPostReadReplyHeader{r}}
	},
	func(r *rec) erpc.Plugin { return &bkCallBody{r, mPreReadCallBody{r}, mPostReadCallBody{r}} },
	func(r *rec) erpc.Plugin { return &bkReplyW{r, mPreWriteReply{r}, mPostWriteReply{r}} },
	func(r *rec) erpc.Plugin {
		return &bkCaller{r, mPreWriteCall{r}, mPostWriteCall{r}, mPostReadReplyHeader{r}, mPreReadReplyBody{r}, mPostReadReplyBody{r}}
	},
	func(r *rec) erpc.Plugin {
		return &bkPushR{r, mPostReadPushHeader{r}, mPreReadPushBody{r}, mPostReadPushBody{r}}
	},
	func(r *rec) erpc.Plugin { return &bkPushW{r, mPreWritePush{r}, mPostWritePush{r}} },
	func(r *rec) erpc.Plugin {
		return &bkPre{r, mPreWriteCall{r}, mPreWriteReply{r}, mPreWritePush{r}, mPreReadHeader{r}, mPreReadCallBody{r}, mPreReadPushBody{r}, mPreReadReplyBody{r}}
	},
	func(r *rec) erpc.Plugin {
		return &bkPost{r, mPostWriteCall{r}, mPostWriteReply{r}, mPostWritePush{r}, mPostReadCallHeader{r}, mPostReadCallBody{r},
			mPostReadPushHeader{r}, mPostReadPushBody{r}, mPostReadReplyHeader{r}, mPostReadReplyBody{r}}
	},
	func(r *rec) erpc.Plugin { return &bkPostCallBody{r, mPostReadCallBody{r}} },
	func(r *rec) erpc.Plugin { return &bkMix{r, mPreReadCallBody{r}, mPreWriteReply{r}, mPostReadPushBody{r}} },
	func(r *rec) erpc.Plugin {
		return &bkCallee{r, mPostReadCallHeader{r}, mPreReadCallBody{r}, mPostReadCallBody{r}, mPreWriteReply{r}, mPostWriteReply{r}}
	},
	func(r *rec) erpc.Plugin { return &bkPreHdr{r, mPreReadHeader{r}} },
}

// c09MaskOf is what the framework sees: the set of stage interfaces the value's type implements.
func c09MaskOf(p erpc.Plugin) int {
	m := 0
	set := func(ok bool, s int) {
		if ok {
			m |= 1 << uint(s)
		}
	}
	_, ok := p.(erpc.PreWriteCallPlugin)
	set(ok, sPreWriteCall)
	_, ok = p.(erpc.PostWriteCallPlugin)
	set(ok, sPostWriteCall)
	_, ok = p.(erpc.PreWriteReplyPlugin)
	set(ok, sPreWriteReply)
	_, ok = p.(erpc.PostWriteReplyPlugin)
	set(ok, sPostWriteReply)
	_, ok = p.(erpc.PreWritePushPlugin)
	set(ok, sPreWritePush)
	_, ok = p.(erpc.PostWritePushPlugin)
	set(ok, sPostWritePush)
	_, ok = p.(erpc.PreReadHeaderPlugin)
	set(ok, sPreReadHeader)
	_, ok = p.(erpc.PostReadCallHeaderPlugin)
	set(ok, sPostReadCallHeader)
	_, ok = p.(erpc.PreReadCallBodyPlugin)
	set(ok, sPreReadCallBody)
	_, ok = p.(erpc.PostReadCallBodyPlugin)
	set(ok, sPostReadCallBody)
	_, ok = p.(erpc.PostReadPushHeaderPlugin)
	set(ok, sPostReadPushHeader)
	_, ok = p.(erpc.PreReadPushBodyPlugin)
	set(ok, sPreReadPushBody)
	_, ok = p.(erpc.PostReadPushBodyPlugin)
	set(ok, sPostReadPushBody)
	_, ok = p.(erpc.PostReadReplyHeaderPlugin)
	set(ok, sPostReadReplyHeader)
	_, ok = p.(erpc.PreReadReplyBodyPlugin)
	set(ok, sPreReadReplyBody)
	_, ok = p.(erpc.PostReadReplyBodyPlugin)
	set(ok, sPostReadReplyBody)
	return m
}

var (
	c09Masks  []int       // mask of bank type i
	c09ByMask map[int]int // mask -> bank index
)

func c09Setup() {
	erpc.SetLoggerLevel("OFF")
	c09ByMask = map[int]int{}
	for i, mk := range c09Bank {
		m := c09MaskOf(mk(&rec{}))
		if _, dup := c09ByMask[m]; dup {
			panic("c09: two bank types with the same mask")
		}
		c09Masks = append(c09Masks, m)
		c09ByMask[m] = i
	}
	if line := os.Getenv("C09_CHILD"); line != "" {
		// child mode of a c09fatal case: apply the ops on a real peer; Fatalf = os.Exit(1).
		k, f := hx.Fields(line)
		_ = k
		ops, err := c09ParseOps(f["B"])
		if err != nil {
			os.Exit(3)
		}
		p := erpc.NewPeer(erpc.PeerConfig{})
		c09Apply(p, ops, &c09Trace{}, nil, &c09Routes{})
		fmt.Println("alive")
		os.Exit(0)
	}
}

// ---- case syntax ------------------------------------------------------------------------------

type c09Pl struct{ name, mask int }

type c09Op struct {
	kind  string // L R X S C P UC UP
	group int
	id    int
	name  int
	pl    []c09Pl
}

func c09PlStr(pl []c09Pl) string {
	if len(pl) == 0 {
		return "-"
	}
	s := make([]string, len(pl))
	for i, p := range pl {
		s[i] = fmt.Sprintf("%d.%d", p.name, p.mask)
	}
	return strings.Join(s, ",")
}

func (o c09Op) String() string {
	switch o.kind {
	case "L", "R", "UC", "UP":
		return o.kind + "/" + c09PlStr(o.pl)
	case "X":
		return fmt.Sprintf("X/%d", o.name)
	case "S":
		return fmt.Sprintf("S/%d/%s", o.group, c09PlStr(o.pl))
	default: // C, P
		return fmt.Sprintf("%s/%d/%d/%s", o.kind, o.group, o.id, c09PlStr(o.pl))
	}
}

func c09OpsStr(ops []c09Op) string {
	if len(ops) == 0 {
		return "-"
	}
	s := make([]string, len(ops))
	for i, o := range ops {
		s[i] = o.String()
	}
	return strings.Join(s, ";")
}

func c09ParsePairs(s string) ([][2]int, error) {
	if s == "-" || s == "" {
		return nil, nil
	}
	var out [][2]int
	for _, t := range strings.Split(s, ",") {
		h := strings.Split(t, ".")
		if len(h) != 2 {
			return nil, fmt.Errorf("bad pair %q", t)
		}
		a, e1 := strconv.Atoi(h[0])
		b, e2 := strconv.Atoi(h[1])
		if e1 != nil || e2 != nil || a < 0 || b < 0 {
			return nil, fmt.Errorf("bad pair %q", t)
		}
		out = append(out, [2]int{a, b})
	}
	return out, nil
}

func c09ParsePl(s string) ([]c09Pl, error) {
	ps, err := c09ParsePairs(s)
	if err != nil {
		return nil, err
	}
	var out []c09Pl
	for _, p := range ps {
		out = append(out, c09Pl{p[0], p[1]})
	}
	return out, nil
}

func c09ParseOps(s string) ([]c09Op, error) {
	if s == "-" || s == "" {
		return nil, nil
	}
	var ops []c09Op
	for _, t := range strings.Split(s, ";") {
		h := strings.Split(t, "/")
		o := c09Op{kind: h[0]}
		var err error
		atoi := func(x string) int {
			n, e := strconv.Atoi(x)
			if e != nil || n < 0 {
				err = fmt.Errorf("bad number %q", x)
			}
			return n
		}
		switch {
		case (h[0] == "L" || h[0] == "R" || h[0] == "UC" || h[0] == "UP") && len(h) == 2:
			o.pl, err = c09ParsePl(h[1])
		case h[0] == "X" && len(h) == 2:
			o.name = atoi(h[1])
		case h[0] == "S" && len(h) == 3:
			o.group = atoi(h[1])
			if err == nil {
				o.pl, err = c09ParsePl(h[2])
			}
		case (h[0] == "C" || h[0] == "P") && len(h) == 4:
			o.group = atoi(h[1])
			o.id = atoi(h[2])
			if err == nil {
				o.pl, err = c09ParsePl(h[3])
			}
		default:
			err = fmt.Errorf("bad op %q", t)
		}
		if err != nil {
			return nil, err
		}
		ops = append(ops, o)
	}
	return ops, nil
}

// ---- handlers (the function name fixes the service method, so: a bank of named functions) ---------

type c09Routes struct {
	callPath map[int]string // route id -> registered path
	pushPath map[int]string
	callOf   [16]int // function slot -> route id
	pushOf   [16]int
	nCall    int
	nPush    int
}

type c09Cur struct {
	tr *c09Trace // B's trace
	rt *c09Routes
	hs int32
}

var c09cur *c09Cur // the case being run (cases run one at a time)

func c09HandleCall(slot int) (int, *erpc.Status) {
	c := c09cur
	c.tr.mu.Lock()
	c.tr.ev = append(c.tr.ev, c09Ev{c.rt.callOf[slot], -1})
	c.tr.mu.Unlock()
	if c.hs != 0 {
		return 0, erpc.NewStatus(c.hs, "handler", "")
	}
	return 1, nil
}

func c09HandlePush(slot int) *erpc.Status {
	c := c09cur
	c.tr.mu.Lock()
	c.tr.ev = append(c.tr.ev, c09Ev{c.rt.pushOf[slot], -1})
	c.tr.mu.Unlock()
	return nil
}

func C09c0(erpc.CallCtx, *int) (int, *erpc.Status)  { return c09HandleCall(0) }
func C09c1(erpc.CallCtx, *int) (int, *erpc.Status)  { return c09HandleCall(1) }
func C09c2(erpc.CallCtx, *int) (int, *erpc.Status)  { return c09HandleCall(2) }
func C09c3(erpc.CallCtx, *int) (int, *erpc.Status)  { return c09HandleCall(3) }
func C09c4(erpc.CallCtx, *int) (int, *erpc.Status)  { return c09HandleCall(4) }
func C09c5(erpc.CallCtx, *int) (int, *erpc.Status)  { return c09HandleCall(5) }
func C09c6(erpc.CallCtx, *int) (int, *erpc.Status)  { return c09HandleCall(6) }
func C09c7(erpc.CallCtx, *int) (int, *erpc.Status)  { return c09HandleCall(7) }
func C09c8(erpc.CallCtx, *int) (int, *erpc.Status)  { return c09HandleCall(8) }
func C09c9(erpc.CallCtx, *int) (int, *erpc.Status)  { return c09HandleCall(9) }
func C09c10(erpc.CallCtx, *int) (int, *erpc.Status) { return c09HandleCall(10) }
func C09c11(erpc.CallCtx, *int) (int, *erpc.Status) { return c09HandleCall(11) }

func C09p0(erpc.PushCtx, *int) *erpc.Status  { return c09HandlePush(0) }
func C09p1(erpc.PushCtx, *int) *erpc.Status  { return c09HandlePush(1) }
func C09p2(erpc.PushCtx, *int) *erpc.Status  { return c09HandlePush(2) }
func C09p3(erpc.PushCtx, *int) *erpc.Status  { return c09HandlePush(3) }
func C09p4(erpc.PushCtx, *int) *erpc.Status  { return c09HandlePush(4) }
func C09p5(erpc.PushCtx, *int) *erpc.Status  { return c09HandlePush(5) }
func C09p6(erpc.PushCtx, *int) *erpc.Status  { return c09HandlePush(6) }
func C09p7(erpc.PushCtx, *int) *erpc.Status  { return c09HandlePush(7) }
func C09p8(erpc.PushCtx, *int) *erpc.Status  { return c09HandlePush(8) }
func C09p9(erpc.PushCtx, *int) *erpc.Status  { return c09HandlePush(9) }
func C09p10(erpc.PushCtx, *int) *erpc.Status { return c09HandlePush(10) }
func C09p11(erpc.PushCtx, *int) *erpc.Status { return c09HandlePush(11) }

var c09CallFns = []interface{}{C09c0, C09c1, C09c2, C09c3, C09c4, C09c5, C09c6, C09c7, C09c8, C09c9, C09c10, C09c11}
var c09PushFns = []interface{}{C09p0, C09p1, C09p2, C09p3, C09p4, C09p5, C09p6, C09p7, C09p8, C09p9, C09p10, C09p11}

const c09MaxRoutes = 12

// c09Apply performs the registration-time operations on a real peer through its public API.
func c09Apply(p erpc.Peer, ops []c09Op, tr *c09Trace, veto map[[2]int]bool, rt *c09Routes) {
	rt.callPath, rt.pushPath = map[int]string{}, map[int]string{}
	mk := func(pl []c09Pl) []erpc.Plugin {
		out := make([]erpc.Plugin, 0, len(pl))
		for _, q := range pl {
			bi, ok := c09ByMask[q.mask]
			if !ok {
				panic(fmt.Sprintf("c09: no bank type with mask %d", q.mask))
			}
			r := &rec{name: q.name, tr: tr, veto: map[int]bool{}}
			for s := 0; s < nStages; s++ {
				if veto[[2]int{q.name, s}] {
					r.veto[s] = true
				}
			}
			out = append(out, c09Bank[bi](r))
		}
		// exact-capacity copy: the framework appends to / aliases the variadic slice
		return append([]erpc.Plugin(nil), out...)
	}
	groups := []*erpc.SubRouter{nil} // group 0 = root router (nil: use the peer's own methods)
	grp := func(g int) int {
		if g >= len(groups) {
			return 0
		}
		return g
	}
	for _, o := range ops {
		switch o.kind {
		case "L":
			p.PluginContainer().AppendLeft(mk(o.pl)...)
		case "R":
			p.PluginContainer().AppendRight(mk(o.pl)...)
		case "X":
			p.PluginContainer().Remove("p" + strconv.Itoa(o.name))
		case "S":
			g := grp(o.group)
			prefix := "g" + strconv.Itoa(len(groups))
			if g == 0 {
				groups = append(groups, p.SubRoute(prefix, mk(o.pl)...))
			} else {
				groups = append(groups, groups[g].SubRoute(prefix, mk(o.pl)...))
			}
		case "C":
			g := grp(o.group)
			slot := rt.nCall
			rt.nCall++
			rt.callOf[slot] = o.id
			if g == 0 {
				rt.callPath[o.id] = p.RouteCallFunc(c09CallFns[slot], mk(o.pl)...)
			} else {
				rt.callPath[o.id] = groups[g].RouteCallFunc(c09CallFns[slot], mk(o.pl)...)
			}
		case "P":
			g := grp(o.group)
			slot := rt.nPush
			rt.nPush++
			rt.pushOf[slot] = o.id
			if g == 0 {
				rt.pushPath[o.id] = p.RoutePushFunc(c09PushFns[slot], mk(o.pl)...)
			} else {
				rt.pushPath[o.id] = groups[g].RoutePushFunc(c09PushFns[slot], mk(o.pl)...)
			}
		case "UC":
			p.SetUnknownCall(func(erpc.UnknownCallCtx) (interface{}, *erpc.Status) {
				c := c09cur
				c.tr.mu.Lock()
				c.tr.ev = append(c.tr.ev, c09Ev{-1, -1})
				c.tr.mu.Unlock()
				if c.hs != 0 {
					return nil, erpc.NewStatus(c.hs, "handler", "")
				}
				return 1, nil
			}, mk(o.pl)...)
		case "UP":
			p.SetUnknownPush(func(erpc.UnknownPushCtx) *erpc.Status {
				c := c09cur
				c.tr.mu.Lock()
				c.tr.ev = append(c.tr.ev, c09Ev{-1, -1})
				c.tr.mu.Unlock()
				return nil
			}, mk(o.pl)...)
		}
	}
}

// ---- the property's own oracle (spec level, independent of the Lean model) ------------------------

// c09Spec is the configuration the *property text* describes: the global plugins as they are now
// (left, right) and, per route, the chain group plugins ++ handler plugins.
type c09Spec struct {
	left, right []c09Pl
	chain       map[string][]c09Pl // "C<id>" / "P<id>" / "UC" / "UP" -> groups ++ handler plugins
	removed     map[int]bool       // names passed to a successful Remove
	lateGlobal  map[int]bool       // global plugins appended after at least one route/group existed
	depth       map[string]int     // number of clones between the root container and the handler's
	grouped     map[int]bool       // names registered on some group / handler (not global)
}

func c09MakeSpec(ops []c09Op) *c09Spec {
	sp := &c09Spec{chain: map[string][]c09Pl{}, removed: map[int]bool{}, lateGlobal: map[int]bool{}, depth: map[string]int{}, grouped: map[int]bool{}}
	groupChain := [][]c09Pl{nil}
	groupDepth := []int{0}
	routed := false
	grp := func(g int) int {
		if g >= len(groupChain) {
			return 0
		}
		return g
	}
	cat := func(a, b []c09Pl) []c09Pl { return append(append([]c09Pl(nil), a...), b...) }
	for _, o := range ops {
		switch o.kind {
		case "L":
			sp.left = cat(o.pl, sp.left)
			for _, q := range o.pl {
				if routed {
					sp.lateGlobal[q.name] = true
				}
			}
		case "R":
			sp.right = cat(sp.right, o.pl)
			for _, q := range o.pl {
				if routed {
					sp.lateGlobal[q.name] = true
				}
			}
		case "X":
			del := func(l []c09Pl) ([]c09Pl, bool) {
				for i, q := range l {
					if q.name == o.name {
						return cat(l[:i], l[i+1:]), true
					}
				}
				return l, false
			}
			var a, b bool
			sp.left, a = del(sp.left)
			sp.right, b = del(sp.right)
			if a || b {
				sp.removed[o.name] = true
				delete(sp.lateGlobal, o.name)
			}
		case "S":
			for _, q := range o.pl {
				sp.grouped[q.name] = true
			}
			g := grp(o.group)
			groupChain = append(groupChain, cat(groupChain[g], o.pl))
			groupDepth = append(groupDepth, groupDepth[g]+1)
			routed = true
		case "C", "P":
			for _, q := range o.pl {
				sp.grouped[q.name] = true
			}
			g := grp(o.group)
			k := o.kind + strconv.Itoa(o.id)
			sp.chain[k] = cat(groupChain[g], o.pl)
			sp.depth[k] = groupDepth[g] + 1
			routed = true
		case "UC", "UP":
			for _, q := range o.pl {
				sp.grouped[q.name] = true
			}
			sp.chain[o.kind] = cat(nil, o.pl)
			sp.depth[o.kind] = 1
			routed = true
		}
	}
	return sp
}

func c09RunStageSpec(list []c09Pl, stage int, veto map[[2]int]bool, out *[]c09Ev) int32 {
	for _, q := range list {
		if q.mask&(1<<uint(stage)) == 0 {
			continue
		}
		*out = append(*out, c09Ev{q.name, stage})
		if veto[[2]int{q.name, stage}] {
			return c09Code(q.name, stage)
		}
	}
	return 0
}

func c09EvStr(l []c09Ev) string {
	if len(l) == 0 {
		return "-"
	}
	s := make([]string, len(l))
	for i, e := range l {
		s[i] = e.String()
	}
	return strings.Join(s, ",")
}

// c09CheckOrder: no (plugin, stage) twice; stages in documented order; within a stage, in the order
// of `chain` (= left ++ groups ++ handler ++ right); every firing plugin is in `chain`.
func c09CheckOrder(evs []c09Ev, chain []c09Pl) (string, string, c09Ev) {
	pos := map[int]int{}
	for i, q := range chain {
		if _, ok := pos[q.name]; !ok {
			pos[q.name] = i
		}
	}
	seen := map[c09Ev]bool{}
	lastRank, lastPos := -1, -1
	for _, e := range evs {
		if e.stage < 0 {
			continue
		}
		if seen[e] {
			return "dup", fmt.Sprintf("hook %s fired twice", e), e
		}
		seen[e] = true
		p, ok := pos[e.name]
		if !ok {
			return "scope", fmt.Sprintf("hook %s fired but p%d is neither global nor on the route's chain", e, e.name), e
		}
		r := c09Rank[e.stage]
		if r < lastRank || (r == lastRank && p <= lastPos) {
			return "order", fmt.Sprintf("hook %s out of (stage, registration) order", e), e
		}
		lastRank, lastPos = r, p
	}
	return "", "", c09Ev{}
}

// ---- running one case on the real code -------------------------------------------------------------

// c09AcceptPB is set by the xc09wf family (c09x.go) for the duration of one exchange.
var c09AcceptPB bool

type c09Res struct {
	a0, aw, ar, b []c09Ev
	areal         []c09Ev // the caller side's events in the order they really fired
	wr            bool
	st            int32
	disc          bool
	timeout       bool
}

func c09VetoMap(s string) (map[[2]int]bool, error) {
	ps, err := c09ParsePairs(s)
	if err != nil {
		return nil, err
	}
	m := map[[2]int]bool{}
	for _, p := range ps {
		m[p] = true
	}
	return m, nil
}

func c09Exchange(kind string, bops, aops []c09Op, route int, hs int32, vb, va map[[2]int]bool, hold bool) (res c09Res) {
	trA, trB := &c09Trace{hold: hold}, &c09Trace{}
	rtB, rtA := &c09Routes{}, &c09Routes{}
	c09cur = &c09Cur{tr: trB, rt: rtB, hs: hs}
	srv := erpc.NewPeer(erpc.PeerConfig{})
	cli := erpc.NewPeer(erpc.PeerConfig{})
	defer srv.Close()
	defer cli.Close()
	c09Apply(srv, bops, trB, vb, rtB)
	c09Apply(cli, aops, trA, va, rtA)
	l := connect(cli, srv, "")
	if l.A == nil || l.B == nil {
		res.timeout = true
		return
	}
	done := make(chan struct{})
	go func() {
		defer close(done)
		defer func() { recover() }()
		arg := 7
		if kind == "c09call" {
			path, ok := rtB.callPath[route]
			if !ok {
				path = "/c09/unregistered"
			}
			var out int
			var sets []erpc.MessageSetting
			if c09AcceptPB {
				// the caller asks for a reply codec that cannot encode the handler's result: the first
				// reply write fails with the connection up, the framework answers with its fallback 500
				sets = append(sets, erpc.WithAcceptBodyCodec(codec.ID_PROTOBUF))
			}
			st := l.A.Call(path, &arg, &out, sets...).Status()
			res.st = st.Code()
		} else {
			path, ok := rtB.pushPath[route]
			if !ok {
				path = "/c09/unregistered"
			}
			st := l.A.Push(path, &arg)
			res.st = st.Code()
		}
		l.A.Close()
		select {
		case <-l.B.CloseNotify():
		case <-time.After(5 * time.Second):
			res.timeout = true
		}
	}()
	select {
	case <-done:
	case <-time.After(10 * time.Second):
		res.timeout = true
		return
	}
	sent, _ := l.CA.Sent()
	res.wr = len(sent) > 0
	res.disc = res.st == erpc.CodeConnClosed || res.st == erpc.CodeWriteFailed
	trA.mu.Lock()
	trB.mu.Lock()
	res.a0 = append([]c09Ev(nil), trA.hdr...)
	res.areal = append([]c09Ev(nil), trA.ev...)
	for _, e := range trA.ev {
		if e.stage == sPreWriteCall || e.stage == sPostWriteCall || e.stage == sPreWritePush || e.stage == sPostWritePush {
			res.aw = append(res.aw, e)
		} else {
			res.ar = append(res.ar, e)
		}
	}
	res.b = append(append([]c09Ev(nil), trB.hdr...), trB.ev...)
	trB.mu.Unlock()
	trA.mu.Unlock()
	return
}

func c09Run(line string, out *hx.Out) (obs string, nontrivial bool) {
	defer func() {
		if p := recover(); p != nil {
			obs = fmt.Sprintf("panic:%v", p)
		}
	}()
	kind, f := hx.Fields(line)
	bops, err := c09ParseOps(f["B"])
	if err != nil {
		return "bad-case", false
	}
	if kind == "c09fatal" {
		exe, _ := os.Executable()
		cmd := exec.Command(exe, "c09")
		cmd.Env = append(os.Environ(), "C09_CHILD="+line)
		b, err := cmd.Output()
		o := strings.TrimSpace(string(b))
		if err != nil {
			if ee, ok := err.(*exec.ExitError); ok && ee.ExitCode() == 1 {
				out.Count("fatal:exit1")
				return "fatal", true
			}
			return "child-error:" + err.Error(), true
		}
		out.Count("fatal:" + o)
		return o, true
	}
	aops, err := c09ParseOps(f["A"])
	if err != nil {
		return "bad-case", false
	}
	route, err := strconv.Atoi(f["route"])
	if err != nil {
		return "bad-case", false
	}
	var hs int
	if kind == "c09call" {
		if hs, err = strconv.Atoi(f["hs"]); err != nil {
			return "bad-case", false
		}
	}
	vb, e1 := c09VetoMap(f["vb"])
	va, e2 := c09VetoMap(f["va"])
	if e1 != nil || e2 != nil || (kind != "c09call" && kind != "c09push") {
		return "bad-case", false
	}

	hold := false
	if kind == "c09call" {
		h := fnv.New32a()
		h.Write([]byte(line))
		hold = h.Sum32()%4 == 0
	}
	res := c09Exchange(kind, bops, aops, route, int32(hs), vb, va, hold)
	if res.timeout {
		out.Violate(line, "no-hang", "the exchange did not complete within 10 s", "c09:hang")
		return "timeout", true
	}

	// canonical observation
	st := strconv.Itoa(int(res.st))
	wr := "0"
	if res.wr {
		wr = "1"
	}
	if res.disc {
		st, wr = "disc", "x"
	}
	if kind == "c09call" {
		// the caller's read loop runs concurrently with its own write: its first preReadHeader round is
		// certain to be complete only once a reply has been read
		a0 := c09EvStr(res.a0)
		if !res.wr || res.disc {
			a0 = "x"
		}
		obs = fmt.Sprintf("A0=%s Aw=%s Ar=%s B=%s wr=%s st=%s", a0, c09EvStr(res.aw), c09EvStr(res.ar), c09EvStr(res.b), wr, st)
	} else {
		// a PUSH is fire-and-forget: when the receiver's read loop ends at its first preReadHeader the
		// sender's write races with the disconnect (written+OK, or 102/104) — not part of the observation
		if n := len(res.b); n > 0 && res.b[n-1].stage == sPreReadHeader && vb[[2]int{res.b[n-1].name, sPreReadHeader}] {
			pre := false
			for _, e := range res.aw {
				if e.stage == sPreWritePush && va[[2]int{e.name, e.stage}] {
					pre = true
				}
			}
			if !pre {
				st, wr = "x", "x"
			}
		}
		obs = fmt.Sprintf("Aw=%s B=%s wr=%s st=%s", c09EvStr(res.aw), c09EvStr(res.b), wr, st)
	}

	// ---- the property's own oracle -----------------------------------------------------------
	spB, spA := c09MakeSpec(bops), c09MakeSpec(aops)
	key := "C" + strconv.Itoa(route)
	unk := "UC"
	if kind == "c09push" {
		key, unk = "P"+strconv.Itoa(route), "UP"
	}
	cat := func(a, b, c []c09Pl) []c09Pl { return append(append(append([]c09Pl(nil), a...), b...), c...) }
	mid, bound := spB.chain[key]
	if !bound {
		key = unk
		mid, bound = spB.chain[key]
	}
	globalB := cat(spB.left, nil, spB.right)
	chainB := cat(spB.left, mid, spB.right) // left ++ groups ++ handler ++ right (global only if nothing matched)
	globalA := cat(spA.left, nil, spA.right)

	// (1) order / once / scope, straight on the recorded traces
	bad := func(sp *c09Spec, which, detail string, l []c09Ev, at c09Ev) {
		sig := "c09:" + which
		if sp.removed[at.name] {
			// a plugin that was Removed from the global container (possibly re-registered under the
			// same name later) is still in a stale per-handler list
			sig = "c09:removed-global-plugin-still-fires"
		} else if which == "order" && func() bool {
			for _, e := range l {
				if e.stage >= 0 && sp.removed[e.name] {
					return true
				}
			}
			return false
		}() {
			// the stale copy of a removed plugin sits at its old position while a plugin re-registered
			// under the same name defines the position the property prescribes
			sig = "c09:removed-global-plugin-still-fires"
		} else if which == "scope" && sp.grouped[at.name] {
			// a plugin registered on a *different* group/handler: the `append` in cloneAndAppendMiddle
			// overwrote a slot of a sibling's middle slice
			sig = "c09:sibling-group-plugin-aliasing"
		}
		out.Violate(line, "hooks-once-in-order-in-scope", detail+" trace="+c09EvStr(l), sig)
	}
	if w, d, at := c09CheckOrder(res.b, chainB); w != "" {
		bad(spB, w, "peer B: "+d, res.b, at)
	}
	// (1b) stage order along one exchange in REAL time on the calling side: the write-side stages of
	// the call (PreWriteCall, PostWriteCall) are over before any hook of its reply fires
	if kind == "c09call" {
		if hold {
			out.Count("slow-postwritecall")
		}
		replySeen := false
		for _, e := range res.areal {
			if e.stage < 0 {
				continue
			}
			if c09Rank[e.stage] >= 8 {
				replySeen = true
			} else if c09Rank[e.stage] <= 1 && replySeen {
				out.Violate(line, "stage-order-real-time", fmt.Sprintf("peer A: hook %s fired after a hook of the reply to the same call; real order %s", e, c09EvStr(res.areal)),
					"c09:reply-hook-before-postwritecall")
				break
			}
		}
	}
	aAll := append(append([]c09Ev(nil), res.aw...), res.ar...)
	if w, d, at := c09CheckOrder(aAll, globalA); w != "" {
		bad(spA, w, "peer A: "+d, aAll, at)
	}
	if w, d, at := c09CheckOrder(res.a0, globalA); w != "" {
		bad(spA, w, "peer A (read loop): "+d, res.a0, at)
	}

	// (2) veto: the first non-OK verdict among the hooks that precede the handler
	invoked := false
	for _, e := range res.b {
		if e.stage < 0 {
			invoked = true
		}
	}
	preHandler := map[int]bool{sPreReadHeader: true, sPostReadCallHeader: true, sPreReadCallBody: true, sPostReadCallBody: true,
		sPostReadPushHeader: true, sPreReadPushBody: true, sPostReadPushBody: true}
	var vetoEv *c09Ev
	for i, e := range res.b {
		if e.stage >= 0 && preHandler[e.stage] && vb[[2]int{e.name, e.stage}] {
			vetoEv = &res.b[i]
			break
		}
	}
	var aVeto *c09Ev // the caller's own veto (pre-write, or on the reply path)
	for i, e := range res.aw {
		if (e.stage == sPreWriteCall || e.stage == sPreWritePush) && va[[2]int{e.name, e.stage}] {
			aVeto = &res.aw[i]
			break
		}
	}
	if aVeto != nil {
		if res.wr || len(res.b) != len(trimHdr(res.b)) || res.st != c09Code(aVeto.name, aVeto.stage) {
			out.Violate(line, "prewrite-veto-writes-nothing", fmt.Sprintf("veto at %s but written=%v st=%d B=%s", aVeto, res.wr, res.st, c09EvStr(res.b)), "c09:prewrite-veto")
		}
	}
	if vetoEv != nil {
		if invoked {
			out.Violate(line, "veto-stops-handler", fmt.Sprintf("hook %s returned non-OK but the handler ran: B=%s", vetoEv, c09EvStr(res.b)), "c09:veto-handler-invoked")
		}
		if kind == "c09call" {
			want := c09Code(vetoEv.name, vetoEv.stage)
			replyVeto := false
			for _, e := range res.ar {
				if va[[2]int{e.name, e.stage}] {
					replyVeto = true // the caller's own reply hooks vetoed: their status wins
				}
			}
			if vetoEv.stage == sPreReadHeader {
				if !res.disc {
					out.Violate(line, "veto-status", fmt.Sprintf("preReadHeader veto %s but caller status %d", vetoEv, res.st), "c09:veto-status")
				}
			} else if !replyVeto && res.st != want {
				out.Violate(line, "veto-status", fmt.Sprintf("hook %s vetoed with %d but caller got %d", vetoEv, want, res.st), "c09:veto-status")
			}
		}
	}

	// (3) the trace the property text prescribes for this configuration (fresh chains)
	if !res.disc || vetoEv != nil {
		var specB []c09Ev
		func() {
			if aVeto != nil {
				c09RunStageSpec(globalB, sPreReadHeader, vb, &specB)
				return
			}
			if c09RunStageSpec(globalB, sPreReadHeader, vb, &specB) != 0 {
				return
			}
			if kind == "c09call" {
				reply := func(l []c09Pl) {
					c09RunStageSpec(l, sPreWriteReply, vb, &specB)
					c09RunStageSpec(l, sPostWriteReply, vb, &specB)
				}
				if c09RunStageSpec(globalB, sPostReadCallHeader, vb, &specB) != 0 || !bound {
					reply(globalB)
					return
				}
				if c09RunStageSpec(chainB, sPreReadCallBody, vb, &specB) == 0 && c09RunStageSpec(chainB, sPostReadCallBody, vb, &specB) == 0 {
					specB = append(specB, c09HandlerEv(key, route))
				}
				reply(chainB)
			} else {
				if c09RunStageSpec(globalB, sPostReadPushHeader, vb, &specB) != 0 || !bound {
					return
				}
				if c09RunStageSpec(chainB, sPreReadPushBody, vb, &specB) == 0 && c09RunStageSpec(chainB, sPostReadPushBody, vb, &specB) == 0 {
					specB = append(specB, c09HandlerEv(key, route))
				}
			}
		}()
		if got, want := c09EvStr(res.b), c09EvStr(specB); got != want {
			sig := "c09:trace-differs-from-spec"
			in := func(l []c09Ev, e c09Ev) bool {
				for _, x := range l {
					if x == e {
						return true
					}
				}
				return false
			}
			for _, e := range res.b {
				if e.stage >= 0 && !in(specB, e) && spB.removed[e.name] {
					sig = "c09:removed-global-plugin-still-fires"
				}
			}
			if sig == "c09:trace-differs-from-spec" {
				for _, e := range specB {
					if e.stage >= 0 && !in(res.b, e) && spB.lateGlobal[e.name] {
						sig = "c09:late-global-plugin-not-propagated"
					}
				}
			}
			if sig == "c09:trace-differs-from-spec" {
				for _, e := range res.b {
					if e.stage >= 0 && !in(specB, e) && spB.grouped[e.name] && !spB.removed[e.name] {
						sig = "c09:sibling-group-plugin-aliasing"
					}
				}
				// ... or a plugin of the route's own chain that was overwritten and therefore is silent
				for _, e := range specB {
					if e.stage >= 0 && !in(res.b, e) && spB.grouped[e.name] {
						sig = "c09:sibling-group-plugin-aliasing"
					}
				}
			}
			out.Violate(line, "every-registered-plugin-sees-the-message",
				fmt.Sprintf("route %s (handler container %d clones below the global one): property prescribes B=%s, real code fired B=%s", key, spB.depth[key], want, got), sig)
			out.Count("finding:" + sig)
		}
	}

	// ---- statistics ----------------------------------------------------------------------------
	out.Count("kind:" + kind)
	if bound {
		out.Count(fmt.Sprintf("depth:%d", spB.depth[key]))
	} else {
		out.Count("depth:unbound")
	}
	if vetoEv != nil {
		out.Count(fmt.Sprintf("vetoB:stage%d", vetoEv.stage))
	} else if aVeto != nil {
		out.Count(fmt.Sprintf("vetoA:stage%d", aVeto.stage))
	} else {
		out.Count("veto:none")
	}
	if len(spB.lateGlobal) > 0 {
		out.Count("late-global:yes")
	} else {
		out.Count("late-global:no")
	}
	if len(spB.removed) > 0 {
		out.Count("removed:yes")
	}
	out.Count(fmt.Sprintf("chainlen:%d", min(len(chainB), 8)))
	if invoked {
		out.Count("handler:invoked")
	} else {
		out.Count("handler:not-invoked")
	}
	if res.disc {
		out.Count("status:disc")
	} else if res.st == 0 {
		out.Count("status:ok")
	} else if res.st == 404 {
		out.Count("status:404")
	} else {
		out.Count("status:other")
	}
	nontrivial = len(chainB) >= 2 || vetoEv != nil || aVeto != nil
	return obs, nontrivial
}

func trimHdr(l []c09Ev) []c09Ev {
	var o []c09Ev
	for _, e := range l {
		if e.stage == sPreReadHeader {
			o = append(o, e)
		}
	}
	return o
}

func c09HandlerEv(key string, route int) c09Ev {
	if key == "UC" || key == "UP" {
		return c09Ev{-1, -1}
	}
	return c09Ev{route, -1}
}

// ---- generation ---------------------------------------------------------------------------------------

type c09Gs struct {
	r       *hx.R
	next    int   // next fresh name
	free    []int // names removed from the global container (may be reused)
	globals []int // live global names
	all     []c09Pl
}

func (g *c09Gs) mask() int {
	switch g.r.Intn(10) {
	case 0, 1, 2:
		return c09Masks[1] // every stage
	case 3:
		return c09Masks[12] // callee stages
	}
	return c09Masks[g.r.Intn(len(c09Masks))]
}

func (g *c09Gs) fresh(global bool) c09Pl {
	var n int
	if len(g.free) > 0 && g.r.Intn(3) == 0 {
		n = g.free[len(g.free)-1]
		g.free = g.free[:len(g.free)-1]
	} else {
		g.next++
		n = g.next
	}
	p := c09Pl{n, g.mask()}
	if global {
		g.globals = append(g.globals, n)
	}
	g.all = append(g.all, p)
	return p
}

func (g *c09Gs) pl(max int, global bool) []c09Pl {
	n := g.r.Intn(max + 1)
	var out []c09Pl
	for i := 0; i < n; i++ {
		out = append(out, g.fresh(global))
	}
	return out
}

func (g *c09Gs) globalOp() c09Op {
	switch k := g.r.Intn(7); {
	case k < 3:
		return c09Op{kind: "L", pl: g.pl(2, true)}
	case k < 6:
		return c09Op{kind: "R", pl: g.pl(2, true)}
	}
	if len(g.globals) > 0 && g.r.Intn(4) != 0 {
		i := g.r.Intn(len(g.globals))
		n := g.globals[i]
		g.globals = append(g.globals[:i], g.globals[i+1:]...)
		g.free = append(g.free, n)
		return c09Op{kind: "X", name: n}
	}
	return c09Op{kind: "X", name: 90 + g.r.Intn(5)} // not registered: Remove returns an error
}

// c09GenOps draws the receiving peer's registration history. ordered=true: all global operations
// first (the arrangement for which the property is proved), else freely interleaved.
func c09GenOps(g *c09Gs, ordered bool, routes *[]c09Op) []c09Op {
	var ops []c09Op
	nG := g.r.Intn(4)
	nR := 1 + g.r.Intn(8)
	groupDepth := []int{0}
	nCall, nPush := 0, 0
	routeOp := func() c09Op {
		switch k := g.r.Intn(12); {
		case k < 4:
			// sub group under a random group of depth < 3
			var cands []int
			for i, d := range groupDepth {
				if d < 3 {
					cands = append(cands, i)
				}
			}
			p := cands[g.r.Intn(len(cands))]
			if g.r.Intn(3) != 0 {
				p = cands[len(cands)-1] // prefer going deeper
			}
			groupDepth = append(groupDepth, groupDepth[p]+1)
			return c09Op{kind: "S", group: p, pl: g.pl(2, false)}
		case k < 8 && nCall < c09MaxRoutes:
			nCall++
			gi := g.r.Intn(len(groupDepth))
			if g.r.Intn(2) == 0 {
				gi = len(groupDepth) - 1
			}
			return c09Op{kind: "C", group: gi, pl: g.pl(2, false)}
		case k < 11 && nPush < c09MaxRoutes:
			nPush++
			gi := g.r.Intn(len(groupDepth))
			if g.r.Intn(2) == 0 {
				gi = len(groupDepth) - 1
			}
			return c09Op{kind: "P", group: gi, pl: g.pl(2, false)}
		}
		if g.r.Intn(2) == 0 {
			return c09Op{kind: "UC", pl: g.pl(2, false)}
		}
		return c09Op{kind: "UP", pl: g.pl(2, false)}
	}
	if ordered {
		for i := 0; i < nG; i++ {
			ops = append(ops, g.globalOp())
		}
		for i := 0; i < nR; i++ {
			ops = append(ops, routeOp())
		}
	} else {
		tot := nG + nR + 1
		for i := 0; i < tot; i++ {
			if g.r.Intn(tot) < nG+1 {
				ops = append(ops, g.globalOp())
			} else {
				ops = append(ops, routeOp())
			}
		}
	}
	for i := range ops {
		if ops[i].kind == "C" || ops[i].kind == "P" {
			ops[i].id = i
			*routes = append(*routes, ops[i])
		}
	}
	return ops
}

func c09Gen(r *hx.R, tier string, out *hx.Out) []string {
	n := 2500
	nFatal := 40
	if tier == "thorough" {
		n, nFatal = 20000, 300
	}
	var ls []string
	// fixed cases first: the configurations of the DESIGN section (witnesses of Props/C09.lean)
	ls = append(ls,
		// late global plugin: seen by the handler on the root router (route 1) ...
		"c09call B=L/1.65535;C/0/1/-;S/0/-;C/1/3/-;R/5.65535 A=- route=1 hs=0 vb=- va=-",
		// ... not by the handler inside the group (route 3); its veto is not applied there
		"c09call B=L/1.65535;C/0/1/-;S/0/-;C/1/3/-;R/5.65535 A=- route=3 hs=0 vb=- va=-",
		"c09call B=L/1.65535;C/0/1/-;S/0/-;C/1/3/-;R/5.65535 A=- route=3 hs=0 vb=5.9 va=-",
		// removed global plugin still fires (and vetoes) for the handler inside the group
		"c09call B=L/1.65535;S/0/-;C/1/3/-;X/1 A=- route=3 hs=0 vb=1.9 va=-",
		// sibling sub-groups share a backing array: the handler in g3 gets g4's plugin 5 instead of 4
		"c09call B=S/0/1.65535,2.65535;S/1/3.65535;S/2/4.65535;S/2/5.65535;C/3/5/- A=- route=5 hs=0 vb=- va=-",
		"c09call B=S/0/1.65535,2.65535;S/1/3.65535;S/2/4.65535;S/2/5.65535;C/3/5/- A=- route=5 hs=0 vb=5.9 va=-",
		// well-ordered history with group, handler and caller-side plugins
		"c09call B=L/1.65535;R/5.65535;S/0/3.65535;C/1/3/4.65535 A=L/1.65535 route=3 hs=0 vb=- va=-",
		"c09call B=L/1.65535;S/0/3.65535;C/1/2/4.65535 A=- route=2 hs=0 vb=3.9 va=-",
		"c09push B=L/1.65535;S/0/3.65535;P/1/2/4.65535 A=R/2.48 route=2 vb=- va=-",
	)
	for i := 0; i < n; i++ {
		g := &c09Gs{r: r}
		var routes []c09Op
		ordered := r.Intn(2) == 0
		var bops []c09Op
		deep := r.Intn(25) == 0
		if deep {
			// three nested groups and siblings at the deepest level (slices with spare capacity)
			for k := r.Intn(2); k > 0; k-- {
				bops = append(bops, g.globalOp())
			}
			n1 := 1 + r.Intn(3)
			var p1 []c09Pl
			for k := 0; k < n1; k++ {
				p1 = append(p1, g.fresh(false))
			}
			bops = append(bops, c09Op{kind: "S", group: 0, pl: p1}, c09Op{kind: "S", group: 1, pl: g.pl(2, false)})
			nsib := 2 + r.Intn(2)
			for k := 0; k < nsib; k++ {
				bops = append(bops, c09Op{kind: "S", group: 2, pl: g.pl(2, false)})
			}
			for k := 1 + r.Intn(3); k > 0; k-- {
				kd := "C"
				if r.Intn(3) == 0 {
					kd = "P"
				}
				bops = append(bops, c09Op{kind: kd, group: 3 + r.Intn(nsib), pl: g.pl(1, false)})
			}
			for i := range bops {
				if bops[i].kind == "C" || bops[i].kind == "P" {
					bops[i].id = i
					routes = append(routes, bops[i])
				}
			}
		} else {
			bops = c09GenOps(g, ordered, &routes)
		}
		kind := "c09call"
		want := "C"
		if r.Intn(3) == 0 {
			kind, want = "c09push", "P"
		}
		has := map[string]bool{}
		for _, o := range routes {
			has[o.kind] = true
		}
		if !has[want] && r.Intn(6) != 0 { // mostly target a kind that has a route
			if has["C"] {
				kind, want = "c09call", "C"
			} else if has["P"] {
				kind, want = "c09push", "P"
			}
		}
		route := 999
		var cands []int
		for _, o := range routes {
			if o.kind == want {
				cands = append(cands, o.id)
			}
		}
		if len(cands) > 0 && r.Intn(8) != 0 {
			route = cands[r.Intn(len(cands))]
			if r.Intn(2) == 0 {
				route = cands[len(cands)-1]
			}
		}
		// verdicts on B
		var relevant []int
		if kind == "c09call" {
			relevant = []int{sPostReadCallHeader, sPreReadCallBody, sPostReadCallBody, sPreWriteReply, sPostWriteReply}
		} else {
			relevant = []int{sPostReadPushHeader, sPreReadPushBody, sPostReadPushBody}
		}
		var vb, va []string
		hdrVeto := false
		if len(g.all) > 0 && r.Intn(2) == 0 {
			for k := r.Intn(3) + 1; k > 0; k-- {
				q := g.all[r.Intn(len(g.all))]
				st := relevant[r.Intn(len(relevant))]
				if r.Intn(12) == 0 {
					st = sPreReadHeader
				}
				if r.Intn(4) != 0 { // prefer a stage the plugin implements
					var impl []int
					for _, s := range relevant {
						if q.mask&(1<<uint(s)) != 0 {
							impl = append(impl, s)
						}
					}
					if len(impl) > 0 {
						st = impl[r.Intn(len(impl))]
					}
				}
				if st == sPreReadHeader {
					hdrVeto = true
				}
				vb = append(vb, fmt.Sprintf("%d.%d", q.name, st))
			}
		}
		// the calling peer: global plugins only (its stages use the global container only).
		// With a preReadHeader veto on B the connection dies at once: keep A empty (no racing hooks).
		ga := &c09Gs{r: r}
		var aops []c09Op
		if !hdrVeto {
			for k := r.Intn(4); k > 0; k-- {
				aops = append(aops, ga.globalOp())
			}
			if len(ga.all) > 0 && r.Intn(3) == 0 {
				arel := []int{sPreWriteCall, sPostWriteCall, sPostReadReplyHeader, sPreReadReplyBody, sPostReadReplyBody}
				if kind == "c09push" {
					arel = []int{sPreWritePush, sPostWritePush}
				}
				for k := r.Intn(2) + 1; k > 0; k-- {
					q := ga.all[r.Intn(len(ga.all))]
					va = append(va, fmt.Sprintf("%d.%d", q.name, arel[r.Intn(len(arel))]))
				}
			}
		}
		sort.Strings(vb)
		sort.Strings(va)
		join := func(l []string) string {
			if len(l) == 0 {
				return "-"
			}
			var u []string
			for i, x := range l {
				if i == 0 || l[i-1] != x {
					u = append(u, x)
				}
			}
			return strings.Join(u, ",")
		}
		if kind == "c09call" {
			hs := 0
			if r.Intn(6) == 0 {
				hs = 2000 + r.Intn(50)
			}
			ls = append(ls, fmt.Sprintf("c09call B=%s A=%s route=%d hs=%d vb=%s va=%s", c09OpsStr(bops), c09OpsStr(aops), route, hs, join(vb), join(va)))
		} else {
			ls = append(ls, fmt.Sprintf("c09push B=%s A=%s route=%d vb=%s va=%s", c09OpsStr(bops), c09OpsStr(aops), route, join(vb), join(va)))
		}
	}
	// duplicate-name histories: does refresh's unique-name check stop the process? (child process)
	for i := 0; i < nFatal; i++ {
		g := &c09Gs{r: r}
		var routes []c09Op
		ops := c09GenOps(g, r.Intn(2) == 0, &routes)
		if len(g.all) > 0 {
			// re-use an existing name in a later (or appended) operation
			dupe := g.all[r.Intn(len(g.all))]
			dupe.mask = g.mask()
			var withPl []int
			for i, o := range ops {
				if o.kind != "X" {
					withPl = append(withPl, i)
				}
			}
			if len(withPl) > 0 && r.Intn(3) != 0 {
				i := withPl[r.Intn(len(withPl))]
				ops[i].pl = append(append([]c09Pl(nil), ops[i].pl...), dupe)
			} else if r.Intn(2) == 0 {
				ops = append(ops, c09Op{kind: "L", pl: []c09Pl{dupe}})
			} else {
				ops = append(ops, c09Op{kind: "R", pl: []c09Pl{dupe}})
			}
		}
		ls = append(ls, "c09fatal B="+c09OpsStr(ops))
	}
	return ls
}
