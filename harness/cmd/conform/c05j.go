package main

import (
	"encoding/binary"
	"fmt"
	"io"
	"regexp"
	"strconv"
	"strings"

	"github.com/tidwall/gjson"

	erpc "github.com/henrylee2cn/erpc/v6"
	"github.com/henrylee2cn/erpc/v6/codec"
	"github.com/henrylee2cn/erpc/v6/proto/jsonproto"
	"github.com/henrylee2cn/erpc/v6/proto/pbproto"
	"github.com/henrylee2cn/erpc/v6/proto/pbproto/pb"
	"github.com/henrylee2cn/erpc/v6/socket"
	"github.com/henrylee2cn/erpc/v6/xfer"

	"verif/harness/internal/hx"
)

// C05, jsonproto against its Lean model (Model/JsonProto): kinds
//   jsonpack   real jsonproto.Pack output vs the model's bytes (byte-exact) + round-trip / size oracles
//   jsonunpack real jsonproto.Unpack of valid, truncated, mutated frames vs the model (field-exact)
//   jsonstream back-to-back frames under the 4 chunk modes, optionally into a re-used message
//   jsonget    the model's gjson scanner vs the real gjson.Get on mutated / synthetic documents
//   pbpack / pbunpack / pbstream  the same for pbproto (Model/PbProto over the shared Model/Frame2):
//              the protobuf serializer is not modelled; the case line carries what the real
//              ProtoMarshal / ProtoUnmarshal return for the payloads that occur (payload=, tab=)
// The model covers strconv.Quote on ASCII and gjson.Get except its array path and float tokens;
// the generator keeps to that domain (c05jInClass); the property's own oracles are applied inside
// the supported field set WFj (c05jWF), the model comparison everywhere the model answers.

func init() {
	p := props["c05"]
	g, r := p.Gen, p.Run
	p.Gen = func(rr *hx.R, tier string, out *hx.Out) []string {
		ls := g(rr, tier, out)
		ls = append(ls, c05jGen(rr, tier, out)...)
		ls = append(ls, c05pGen(rr, tier)...)
		return append(ls, c05jGenXrtBin(rr, tier)...)
	}
	p.Run = func(line string, out *hx.Out) (string, bool) {
		if strings.HasPrefix(line, "json") || strings.HasPrefix(line, "pb") {
			return c05jRun(line, out)
		}
		return r(line, out)
	}
}

var c05jKeys = []string{"seq", "mtype", "serviceMethod", "status", "meta", "bodyCodec", "body"}

var c05jPlainNum = regexp.MustCompile(`^-?[0-9]+$`)

// c05jFloatish: every byte could be part of something strconv.ParseFloat accepts (the model does
// not answer for such number tokens unless they are plain decimal).
func c05jFloatish(raw string) bool {
	for i := 0; i < len(raw); i++ {
		if !strings.ContainsRune("0123456789+-._eExXpPiInNfFaAtTyY", rune(raw[i])) {
			return false
		}
	}
	return true
}

// c05jInClass: the model answers for gjson.Get(text, key) on every given key.
func c05jInClass(text string, keys []string) bool {
	for i := 0; i < len(text); i++ {
		if text[i] == '{' {
			break
		}
		if text[i] == '[' {
			return false
		}
	}
	for _, k := range keys {
		r := gjson.Get(text, k)
		if r.Type == gjson.Number && !c05jPlainNum.MatchString(r.Raw) && c05jFloatish(r.Raw) {
			return false
		}
	}
	return true
}

// c05jFrameText extracts the un-filtered JSON text of the first frame of b when the outer frame
// is intact (generator-side only: decides whether the case is inside the model's domain).
func c05jFrameText(b []byte, limit int) (string, bool) {
	if len(b) < 4 {
		return "", false
	}
	size := int(binary.BigEndian.Uint32(b))
	if size > limit || size == 0 || len(b) < 4+size {
		return "", false
	}
	fr := b[4 : 4+size]
	xl := int(fr[0])
	p := fr[1:]
	if xl > len(p) {
		return "", false
	}
	pipe := xfer.NewXferPipe()
	if err := pipe.Append(p[:xl]...); err != nil {
		return "", false
	}
	data, err := pipe.OnUnpack(append([]byte(nil), p[xl:]...))
	if err != nil {
		return "", false
	}
	return string(data), true
}

// c05jFramesInClass walks all intact frames of b.
func c05jFramesInClass(b []byte, limit int) bool {
	for len(b) >= 4 {
		size := int(binary.BigEndian.Uint32(b))
		if size > limit || len(b) < 4+size {
			return true
		}
		if size > 0 {
			if t, ok := c05jFrameText(b, limit); ok && !c05jInClass(t, c05jKeys) {
				return false
			}
		}
		b = b[4+size:]
	}
	return true
}

func c05jHasCtl(b []byte) bool {
	for _, c := range b {
		if c < 32 {
			return true
		}
	}
	return false
}

func c05jPlainByte(c byte) bool { return c >= 32 && c < 127 && c != '"' && c != '\\' }

// c05jWF is the supported field set of jsonproto (Lean: JsonP.WFj): service method of printable
// ASCII without `"` and `\`; EVERY body (escapeBody writes control bytes as \u00XX since fix
// C05c); no (empty, empty) metadata pair; at most 255 filters.
func c05jWF(m *M) bool {
	for _, c := range m.Method {
		if !c05jPlainByte(c) {
			return false
		}
	}
	for _, kv := range m.Meta {
		if len(kv[0]) == 0 && len(kv[1]) == 0 {
			return false
		}
	}
	return len(m.Pipe) <= 255
}

// c05jGenMsg draws a message inside the MODEL's domain (ASCII service method; everything else
// unrestricted: bodies over all byte values, control bytes together with quotes and backslashes
// included); about three fifths are also inside WFj (plain service method).
func c05jGenMsg(r *hx.R) *M {
	m := genMsg(r, true)
	n := len(m.Method)
	switch r.Intn(5) {
	case 0: // any ASCII byte: quotes, backslashes, control bytes, 0x7f
		for i := range m.Method {
			m.Method[i] = byte(r.Intn(128))
		}
	case 1: // heavy on what Quote escapes
		al := []byte("\"\\\n\t\r\a\b\f\v\x00\x1f\x7f/ux")
		for i := range m.Method {
			m.Method[i] = al[r.Intn(len(al))]
		}
	default:
		m.Method = m.Method[:0]
		for len(m.Method) < n {
			c := byte(32 + r.Intn(95))
			if c05jPlainByte(c) {
				m.Method = append(m.Method, c)
			}
		}
	}
	switch r.Intn(6) {
	case 0, 1:
		m.Body = c05xJSONBody(r)
	case 2: // printable and high bytes with many quotes and backslashes
		al := []byte("\"\\\\\"/abu0{}[]:, \x7f\x80\xff\xc3\xa9")
		m.Body = make([]byte, genLen(r, 40, 0, 1, 255, 256))
		for i := range m.Body {
			m.Body[i] = al[r.Intn(len(al))]
		}
	case 3: // control bytes but nothing to escape
		m.Body = r.Bytes(genLen(r, 40, 1, 255), 0)
		for i, c := range m.Body {
			if c == '"' || c == '\\' {
				m.Body[i] = '\n'
			}
		}
	case 4: // control bytes TOGETHER with quotes, backslashes and text that looks like an escape
		m.Body = c05jBinBody(r)
	}
	return m
}

// c05jBinBody is a body as a binary codec or a transfer filter produces it: control bytes next to
// `"` and `\`, literal `\u00XX` / `\n` spellings (must come back literally), high bytes, a gzip
// member header.
func c05jBinBody(r *hx.R) []byte {
	frag := []string{"\x00", "\x01", "\n", "\r", "\t", "\x1f", "\x1b", `"`, `\`, `\\`, `\"`, `\u0000`, `\u001f`, `\u00`, `\n`, `u`, `0`, `a`,
		"\x1f\x8b\x08\x00", "\x7f", "\x80", "\xff", "\xed\xa0\x80", "\xc3\xa9", "/", " ", "{", "}"}
	var b []byte
	for n := genLen(r, 24, 1, 2, 120); n > 0; n-- {
		if r.Intn(4) == 0 {
			b = append(b, byte(r.Intn(256)))
		} else {
			b = append(b, frag[r.Intn(len(frag))]...)
		}
	}
	return b
}

func c05jMutateText(r *hx.R, t []byte) []byte {
	t = append([]byte(nil), t...)
	sig := []byte("\"\\{}[]:,-0123456789tfnu/ eE.\n\x00\x1f")
	for k := 1 + r.Intn(3); k > 0 && len(t) > 0; k-- {
		i := r.Intn(len(t))
		switch r.Intn(5) {
		case 0:
			t[i] ^= 1 << uint(r.Intn(8))
		case 1:
			t[i] = byte(r.Intn(256))
		case 2: // insert
			t = append(t[:i], append([]byte{sig[r.Intn(len(sig))]}, t[i:]...)...)
		case 3: // delete
			t = append(t[:i], t[i+1:]...)
		default:
			t[i] = sig[r.Intn(len(sig))]
		}
	}
	return t
}

// c05jSynthDoc builds a small JSON-ish document from fragments (keys of the protocol and others,
// strings with every escape form, numbers, literals, nesting, stray punctuation).
func c05jSynthDoc(r *hx.R) []byte {
	strs := []string{`""`, `"a"`, `"a\"b"`, `"\\"`, `"\\\""`, `"x\\"`, `"\n\t\r\b\f\/"`, `"\u00e9"`, `"\u65e5\u672c"`, `"\ud83d\ude00"`,
		`"\ud83d"`, `"\ud83dx"`, `"\ud83d\u0041"`, `"\udc00\ud800"`, `"\u12"`, `"\uzz11"`, `"\x41"`, `"\a"`, "\"a\nb\"", "\"a\\\\\nb\"", `"é"`, `"\u0000z"`,
		`"\uD83D\uDE00"`, `"\ufffe"`, `"\u07ff\u0800"`, `"code=5&msg=a%20b"`, `"k=v&k2"`, `"12"`, `"-7"`, `"1e3"`}
	nums := []string{"0", "-1", "7", "255", "256", "2147483647", "-2147483648", "4294967296", "99999999999999999999", "-0", "007", "12x", "3z", "-", "1 "}
	lits := []string{"true", "false", "null", "tru", "nope", "fx"}
	var b []byte
	if r.Intn(8) != 0 {
		b = append(b, '{')
	}
	for n := r.Intn(7); n > 0; n-- {
		key := c05jKeys[r.Intn(len(c05jKeys))]
		switch r.Intn(8) {
		case 0:
			key = "other"
		case 1:
			key = `se\u0071` // escaped spelling of "seq"
		}
		b = append(b, '"')
		b = append(b, key...)
		b = append(b, '"', ':')
		switch r.Intn(8) {
		case 0, 1, 2:
			b = append(b, strs[r.Intn(len(strs))]...)
		case 3, 4:
			b = append(b, nums[r.Intn(len(nums))]...)
		case 5:
			b = append(b, lits[r.Intn(len(lits))]...)
		case 6:
			b = append(b, []string{`{"seq":5}`, `[1,"]",{"a":"}"}]`, `{"a":"\"}"}`, `{]`, `[}x`, `{"body":"\\"}`, `[[]`}[r.Intn(7)]...)
		default:
			b = append(b, []string{" ", "}", ":", ",,", "\"", "\\"}[r.Intn(6)]...)
		}
		if r.Intn(6) != 0 {
			b = append(b, ',')
		}
	}
	if r.Intn(6) != 0 {
		b = append(b, '}')
	}
	return b
}

// c05jPackReal runs the real Pack into a buffer.
func c05jPackReal(m *M) ([]byte, socket.Message, error) {
	return c05jPackWith(jsonproto.NewJSONProtoFunc(), m)
}

func c05jPackWith(pf erpc.ProtoFunc, m *M) ([]byte, socket.Message, error) {
	msg, err := m.toMessage()
	if err != nil {
		return nil, nil, err
	}
	cr := newChunkReader(nil, 0, 0)
	var perr error
	func() {
		defer func() {
			if e := recover(); e != nil {
				perr = fmt.Errorf("panic: %v", e)
			}
		}()
		perr = pf(cr).Pack(msg)
	}()
	if perr != nil {
		return nil, msg, perr
	}
	return append([]byte(nil), cr.written.Bytes()...), msg, nil
}

// c05jFrame frames a (possibly broken) text the way Pack does, through the real pipe.
func c05jFrame(text []byte, ids []byte) []byte {
	pipe := xfer.NewXferPipe()
	if pipe.Append(ids...) != nil {
		return nil
	}
	p, err := pipe.OnPack(append([]byte(nil), text...))
	if err != nil {
		return nil
	}
	all := make([]byte, 4, 5+len(ids)+len(p))
	binary.BigEndian.PutUint32(all, uint32(1+len(ids)+len(p)))
	all = append(all, byte(len(ids)))
	all = append(all, ids...)
	return append(all, p...)
}

func c05jGenUnpack(r *hx.R, out *hx.Out) string {
	limit := r.Pick(1<<20, 1<<20, 1<<20, 1<<20, 1<<20, 64, 1024)
	m := c05jGenMsg(r)
	if len(m.Body) > 200 {
		m.Body = m.Body[:200]
	}
	if len(m.Pipe) > 4 {
		m.Pipe = m.Pipe[:4]
	}
	socket.SetMessageSizeLimit(1 << 30)
	base, _, _ := c05jPackReal(m)
	socket.SetMessageSizeLimit(0)
	b := base
	switch r.Intn(8) {
	case 0: // random bytes with plausible length prefix
		n := r.Intn(40)
		b = r.Bytes(n, 0)
		if n >= 4 && r.Intn(2) == 0 {
			b[0], b[1], b[2] = 0, 0, 0
			b[3] = byte(r.Intn(n + 3))
		}
	case 1: // truncation
		if len(b) > 0 {
			b = b[:r.Intn(len(b))]
		}
	case 2: // byte mutations of the whole frame, header region preferred
		b = append([]byte(nil), b...)
		for k := 1 + r.Intn(3); k > 0 && len(b) > 0; k-- {
			i := r.Intn(len(b))
			if r.Intn(2) == 0 && len(b) > 9 {
				i = r.Intn(9)
			}
			switch r.Intn(3) {
			case 0:
				b[i] ^= 1 << uint(r.Intn(8))
			case 1:
				b[i] = byte(r.Pick(0, 1, 2, 3, 4, 255, 254))
			default:
				b[i] = byte(r.Intn(256))
			}
		}
	case 3, 4: // mutate the JSON text, then frame it through the real pipe
		mm := *m
		mm.Pipe = nil
		if plain, _, err := c05jPackReal(&mm); err == nil && len(plain) > 5 {
			if f := c05jFrame(c05jMutateText(r, plain[5:]), m.Pipe); f != nil {
				b = f
			}
		}
	case 5: // a synthetic document in a frame
		if f := c05jFrame(c05jSynthDoc(r), m.Pipe); f != nil {
			b = f
		}
	case 6: // valid + trailing bytes
		b = append(append([]byte(nil), b...), r.Bytes(r.Intn(6), 0)...)
	}
	if !c05jFramesInClass(b, limit) {
		out.Count("jsonunpack:gen-outside-model-domain")
		b = base
	}
	return fmt.Sprintf("jsonunpack limit=%d chunk=%d cseed=%d bytes=%s", limit, r.Intn(4), r.Intn(1000), hx.Hex(b))
}

func c05jGen(r *hx.R, tier string, out *hx.Out) []string {
	n := 3000
	if tier == "thorough" {
		n = 30000
	}
	regTestFilters()
	var ls []string
	for i := 0; i < n; i++ {
		switch k := r.Intn(10); {
		case k < 4:
			m := c05jGenMsg(r)
			limit := 1 << 30
			if r.Intn(10) == 0 {
				limit = r.Pick(16, 64, 300)
			}
			w := 0
			if c05jWF(m) {
				w = 1
			}
			ls = append(ls, fmt.Sprintf("jsonpack %s limit=%d wf=%d chunk=%d cseed=%d", m.Line(), limit, w, r.Intn(4), r.Intn(1000)))
		case k < 6:
			cnt := 1 + r.Intn(6)
			var ms []string
			for j := 0; j < cnt; j++ {
				m := c05jGenMsg(r)
				if len(m.Body) > 300 {
					m.Body = m.Body[:300]
				}
				ms = append(ms, strings.ReplaceAll(m.Line(), " ", ";"))
			}
			ls = append(ls, fmt.Sprintf("jsonstream limit=%d chunk=%d cseed=%d reuse=%d tail=%s msgs=%s", 1<<20, r.Intn(4), r.Intn(1000), r.Intn(2), hx.Hex(r.AnyBytes(r.Pick(0, 0, 1, 3, 5))), strings.Join(ms, "|")))
		case k < 9:
			ls = append(ls, c05jGenUnpack(r, out))
		default:
			var t []byte
			if r.Intn(2) == 0 {
				t = c05jSynthDoc(r)
			} else {
				m := c05jGenMsg(r)
				m.Pipe = nil
				if len(m.Body) > 60 {
					m.Body = m.Body[:60]
				}
				socket.SetMessageSizeLimit(1 << 30)
				if plain, _, err := c05jPackReal(m); err == nil && len(plain) > 5 {
					t = c05jMutateText(r, plain[5:])
				}
				socket.SetMessageSizeLimit(0)
			}
			key := c05jKeys[r.Intn(len(c05jKeys))]
			if r.Intn(10) == 0 {
				key = "other"
			}
			if !c05jInClass(string(t), []string{key}) {
				out.Count("jsonget:gen-outside-model-domain")
				t = []byte(`{"seq":1}`)
			}
			ls = append(ls, fmt.Sprintf("jsonget key=%s text=%s", hx.Hex([]byte(key)), hx.Hex(t)))
		}
	}
	return ls
}

// c05jGenXrtBin: round-trip oracle cases (kind xrt, c05x.go) for the two protocols that embed the
// body in a JSON string, over ALL bodies: any byte values, any body codec, and for the websocket
// sub-protocol (which embeds the FILTERED body) the test filters and the real gzip filter 'g'.
func c05jGenXrtBin(r *hx.R, tier string) []string {
	n := 400
	if tier == "thorough" {
		n = 4000
	}
	var ls []string
	for i := 0; i < n; i++ {
		proto := []string{"json", "wsjson", "wsjson"}[r.Intn(3)]
		cnt := 1
		if proto == "json" {
			cnt = 1 + r.Intn(3)
		}
		var ms []string
		for j := 0; j < cnt; j++ {
			m := c05xGenMsg(r, proto)
			switch r.Intn(4) {
			case 0:
				m.Body = r.Bytes(genLen(r, 60, 1, 255, 256, 1000), 0)
			case 1: // keep the json-codec body: text that compresses, for the gzip pipe
			default:
				m.Body = c05jBinBody(r)
			}
			m.Codec = byte(r.Pick('j', 'p', 's', 'f', 'x', 0, 255))
			m.Pipe = nil
			for k := r.Pick(0, 1, 1, 2, 3); k > 0; k-- {
				m.Pipe = append(m.Pipe, byte(r.Pick(1, 2, 3, 'g', 'g')))
			}
			ms = append(ms, strings.ReplaceAll(m.Line(), " ", ";"))
		}
		ls = append(ls, fmt.Sprintf("xrt proto=%s chunk=%d cseed=%d msgs=%s", proto, r.Intn(4), r.Intn(1000), strings.Join(ms, "|")))
	}
	return ls
}

func c05jPackErr(err error) string {
	if err == socket.ErrExceedMessageSizeLimit {
		return "err:size"
	}
	return "err:xfer"
}

// c05jDiffSig names the field that differs, with the signatures of the xrt oracle.
func c05jDiffSig(proto string, w, got *M) string {
	switch {
	case string(w.Body) != string(got.Body):
		if proto == "json" && c05jHasCtl(w.Body) {
			return "c05:json:body-control-byte-not-escaped"
		}
		if proto == "json" && strings.Contains(string(w.Body), "\\") {
			return "c05:json:body-backslash-not-escaped"
		}
		return "c05:" + proto + ":roundtrip:body"
	case w.Code != got.Code || string(w.Msg) != string(got.Msg) || string(w.Cause) != string(got.Cause) || w.HasCause != got.HasCause:
		return "c05:" + proto + ":roundtrip:status"
	case hx.KVs(w.Meta) != hx.KVs(got.Meta):
		return "c05:" + proto + ":roundtrip:meta"
	case string(w.Method) != string(got.Method):
		return "c05:" + proto + ":roundtrip:method"
	case string(w.Pipe) != string(got.Pipe):
		return "c05:" + proto + ":roundtrip:pipe"
	case w.Size != got.Size:
		return "c05:" + proto + ":roundtrip:size"
	}
	return "c05:" + proto + ":roundtrip:fields"
}

func c05jRun(line string, out *hx.Out) (string, bool) {
	kind, f := hx.Fields(line)
	limit, _ := strconv.Atoi(f["limit"])
	socket.SetMessageSizeLimit(uint32(limit))
	defer socket.SetMessageSizeLimit(0)
	chunk, _ := strconv.Atoi(f["chunk"])
	cseed, _ := strconv.Atoi(f["cseed"])
	proto, pf, wf := "json", jsonproto.NewJSONProtoFunc(), c05jWF
	if strings.HasPrefix(kind, "pb") {
		proto, pf, wf = "pb", pbproto.NewPbProtoFunc(), c05pWF
	}
	switch strings.TrimPrefix(kind, proto) {
	case "pack":
		m := parseM(f)
		out.Count(kind)
		packed, msg, err := c05jPackWith(pf, m)
		if msg == nil {
			out.Count(kind + ":pipe-refused")
			return "err:xfer", true
		}
		if err != nil {
			out.Count(kind + ":" + c05jPackErr(err))
			return c05jPackErr(err), true
		}
		// the size reported is 1 + pipe + payload: the frame without its four length bytes
		if int(msg.Size())+4 != len(packed) {
			out.Violate(line, "size-is-frame-length", fmt.Sprintf("size %d, frame %d bytes", msg.Size(), len(packed)), "c05:"+proto+":size")
		}
		if f["wf"] == "1" {
			socket.SetMessageSizeLimit(1 << 30)
			rd := newChunkReader(packed, chunk, int64(cseed))
			got, class := unpackOne(pf(rd))
			m.Size = msg.Size()
			if class != "ok" {
				out.Violate(line, "roundtrip", "unpack of packed message: "+class, "c05:"+proto+":frame-sync")
			} else if d := sameM(m, got, true); d != "" {
				out.Violate(line, "roundtrip", d, c05jDiffSig(proto, m, got))
			}
			out.Count(kind + ":wf-roundtrip")
		} else {
			out.Count(kind + ":outside-supported-set")
		}
		obs := fmt.Sprintf("ok size=%d bytes=%s", msg.Size(), hx.Hex(packed))
		if proto == "pb" {
			// the record inside the frame the real Pack wrote, as the real decoder reads it
			rec := "?"
			if t, ok := c05jFrameText(packed, 1<<30); ok {
				rec = c05pDecode([]byte(t))
			}
			obs += " rec=" + rec
		}
		return obs, true
	case "unpack":
		b := hx.UnHex(f["bytes"])
		rd := newChunkReader(b, chunk, int64(cseed))
		got, class := unpackOne(pf(rd))
		out.Count(kind + ":" + class)
		if class == "ok" {
			return fmt.Sprintf("ok %s rest=%d", got.Show(), rd.Rest()), true
		}
		return class, len(b) > 4
	case "stream":
		var want []*M
		var stream []byte
		for _, ml := range strings.Split(f["msgs"], "|") {
			_, mf := hx.Fields("m " + strings.ReplaceAll(ml, ";", " "))
			m := parseM(mf)
			packed, msg, err := c05jPackWith(pf, m)
			if err != nil {
				return "bad-case", false
			}
			m.Size = msg.Size()
			want = append(want, m)
			stream = append(stream, packed...)
		}
		stream = append(stream, hx.UnHex(f["tail"])...)
		rd := newChunkReader(stream, chunk, int64(cseed))
		p := pf(rd)
		var shows []string
		end := ""
		reused := socket.NewMessage()
		c05RetainStart()
		defer c05RetainCheck(line, out, "c05:"+proto+":decoded-message-aliases-read-buffer")
		for i := 0; ; i++ {
			var got *M
			var class string
			if f["reuse"] == "1" {
				got, class = unpackInto(p, reused)
			} else {
				got, class = unpackOne(p)
			}
			if class != "ok" {
				end = class
				break
			}
			shows = append(shows, got.Show())
			if i < len(want) && wf(want[i]) {
				if d := sameM(want[i], got, true); d != "" {
					out.Violate(line, "stream-roundtrip", fmt.Sprintf("frame %d: %s", i, d), c05jDiffSig(proto, want[i], got))
				}
			}
			if i > len(want)+8 {
				end = "runaway"
				break
			}
		}
		if len(shows) < len(want) {
			out.Violate(line, "stream-sync", fmt.Sprintf("decoded %d of %d frames (%s)", len(shows), len(want), end), "c05:"+proto+":frame-sync")
		}
		out.Count(fmt.Sprintf("%s:frames=%d", kind, len(want)))
		return fmt.Sprintf("n=%d end=%s bytes=%s msgs=%s", len(shows), end, hx.Hex(stream), strings.ReplaceAll(strings.Join(shows, "|"), " ", ";")), true
	case "get":
		r := gjson.Get(string(hx.UnHex(f["text"])), string(hx.UnHex(f["key"])))
		t := "absent v=-"
		switch r.Type {
		case gjson.String:
			t = "str v=" + hx.Hex([]byte(r.Str))
		case gjson.Number:
			t = "num v=" + hx.Hex([]byte(r.Raw))
		case gjson.JSON:
			t = "json v=" + hx.Hex([]byte(r.Raw))
		case gjson.True:
			t = "tru v=-"
		case gjson.False:
			t = "fals v=-"
		}
		out.Count("jsonget:" + strings.SplitN(t, " ", 2)[0])
		return fmt.Sprintf("t=%s int=%d str=%s", t, int32(r.Int()), hx.Hex([]byte(r.String()))), r.Type != gjson.Null
	}
	return "bad-kind", false
}

// ---- pbproto -------------------------------------------------------------------------------

func c05pShowRec(s *pb.Payload) string {
	return fmt.Sprintf("%d;%d;%s;%s;%s;%d;%s", s.Seq, s.Mtype, hx.Hex([]byte(s.ServiceMethod)), hx.Hex(s.Status), hx.Hex(s.Meta), s.BodyCodec, hx.Hex(s.Body))
}

// c05pDecode: what the real protobuf decoder returns for a payload (`x` = refused, `e` = refused
// with io.ErrUnexpectedEOF, which Unpack hands on and the caller sees as a short read).
func c05pDecode(payload []byte) string {
	s := &pb.Payload{}
	res := ""
	func() {
		defer func() {
			if recover() != nil {
				res = "x"
			}
		}()
		if err := codec.ProtoUnmarshal(payload, s); err == io.ErrUnexpectedEOF || err == io.EOF {
			res = "e"
		} else if err != nil {
			res = "x"
		}
	}()
	if res != "" {
		return res
	}
	return c05pShowRec(s)
}

// c05pTab: the decoder table for every intact frame of b (payload>record|...).
func c05pTab(b []byte, limit int) string {
	var es []string
	seen := map[string]bool{}
	for len(b) >= 4 {
		size := int(binary.BigEndian.Uint32(b))
		if size > limit || len(b) < 4+size {
			break
		}
		if size > 0 {
			if t, ok := c05jFrameText(b, limit); ok && !seen[t] {
				seen[t] = true
				es = append(es, hx.Hex([]byte(t))+">"+c05pDecode([]byte(t)))
			}
		}
		b = b[4+size:]
	}
	if len(es) == 0 {
		return "-"
	}
	return strings.Join(es, "|")
}

// c05pPayload: the payload bytes of the real serializer for m, built the way Pack builds them.
func c05pPayload(m *M) ([]byte, error) {
	msg, err := m.toMessage()
	if err != nil {
		return nil, err
	}
	return codec.ProtoMarshal(&pb.Payload{
		Seq:           msg.Seq(),
		Mtype:         int32(msg.Mtype()),
		ServiceMethod: msg.ServiceMethod(),
		Status:        msg.Status(true).EncodeQuery(),
		Meta:          msg.Meta().QueryString(),
		BodyCodec:     int32(msg.BodyCodec()),
		Body:          append([]byte(nil), m.Body...),
	})
}

// c05pGenMsg: any message of pbproto's supported field set (service method valid UTF-8, which the
// protobuf string type requires; everything else unrestricted).
func c05pGenMsg(r *hx.R) *M {
	m := genMsg(r, true)
	runes := []rune("abcXYZ019/_.-\"\\\n\x00\x7f é日本\U0001F600%&=")
	n := len(m.Method)
	var sb strings.Builder
	for i := 0; i < n && sb.Len() < 250; i++ {
		sb.WriteRune(runes[r.Intn(len(runes))])
	}
	m.Method = []byte(sb.String())
	return m
}

func c05pWF(m *M) bool {
	for _, kv := range m.Meta {
		if len(kv[0]) == 0 && len(kv[1]) == 0 {
			return false
		}
	}
	return len(m.Pipe) <= 255
}

func c05pGenUnpack(r *hx.R) string {
	limit := r.Pick(1<<20, 1<<20, 1<<20, 1<<20, 1<<20, 64, 1024)
	m := c05pGenMsg(r)
	if len(m.Body) > 200 {
		m.Body = m.Body[:200]
	}
	if len(m.Pipe) > 4 {
		m.Pipe = m.Pipe[:4]
	}
	socket.SetMessageSizeLimit(1 << 30)
	b, _, _ := c05jPackWith(pbproto.NewPbProtoFunc(), m)
	socket.SetMessageSizeLimit(0)
	switch r.Intn(7) {
	case 0:
		n := r.Intn(40)
		b = r.Bytes(n, 0)
		if n >= 4 && r.Intn(2) == 0 {
			b[0], b[1], b[2] = 0, 0, 0
			b[3] = byte(r.Intn(n + 3))
		}
	case 1:
		if len(b) > 0 {
			b = b[:r.Intn(len(b))]
		}
	case 2:
		b = append([]byte(nil), b...)
		for k := 1 + r.Intn(3); k > 0 && len(b) > 0; k-- {
			i := r.Intn(len(b))
			if r.Intn(2) == 0 && len(b) > 9 {
				i = r.Intn(9)
			}
			switch r.Intn(3) {
			case 0:
				b[i] ^= 1 << uint(r.Intn(8))
			case 1:
				b[i] = byte(r.Pick(0, 1, 2, 3, 4, 255, 254))
			default:
				b[i] = byte(r.Intn(256))
			}
		}
	case 3, 4: // mutate the protobuf payload, then frame it through the real pipe
		if pl, err := c05pPayload(m); err == nil && len(pl) > 0 {
			pl = append([]byte(nil), pl...)
			for k := 1 + r.Intn(3); k > 0; k-- {
				i := r.Intn(len(pl))
				if r.Intn(2) == 0 {
					pl[i] ^= 1 << uint(r.Intn(8))
				} else {
					pl[i] = byte(r.Intn(256))
				}
			}
			if f := c05jFrame(pl, m.Pipe); f != nil {
				b = f
			}
		}
	case 5:
		b = append(append([]byte(nil), b...), r.Bytes(r.Intn(6), 0)...)
	}
	return fmt.Sprintf("pbunpack limit=%d chunk=%d cseed=%d tab=%s bytes=%s", limit, r.Intn(4), r.Intn(1000), c05pTab(b, limit), hx.Hex(b))
}

func c05pGen(r *hx.R, tier string) []string {
	n := 1500
	if tier == "thorough" {
		n = 15000
	}
	var ls []string
	for i := 0; i < n; i++ {
		switch k := r.Intn(10); {
		case k < 4:
			m := c05pGenMsg(r)
			pl, err := c05pPayload(m)
			if err != nil {
				continue
			}
			limit := 1 << 30
			if r.Intn(10) == 0 {
				limit = r.Pick(16, 64, 300)
			}
			w := 0
			if c05pWF(m) {
				w = 1
			}
			ls = append(ls, fmt.Sprintf("pbpack %s limit=%d wf=%d chunk=%d cseed=%d payload=%s", m.Line(), limit, w, r.Intn(4), r.Intn(1000), hx.Hex(pl)))
		case k < 6:
			cnt := 1 + r.Intn(6)
			var ms, pls []string
			var stream []byte
			okAll := true
			socket.SetMessageSizeLimit(1 << 30)
			for j := 0; j < cnt; j++ {
				m := c05pGenMsg(r)
				if len(m.Body) > 300 {
					m.Body = m.Body[:300]
				}
				pl, err := c05pPayload(m)
				packed, _, perr := c05jPackWith(pbproto.NewPbProtoFunc(), m)
				if err != nil || perr != nil {
					okAll = false
					break
				}
				ms = append(ms, strings.ReplaceAll(m.Line(), " ", ";"))
				pls = append(pls, hx.Hex(pl))
				stream = append(stream, packed...)
			}
			socket.SetMessageSizeLimit(0)
			if !okAll {
				continue
			}
			tail := r.AnyBytes(r.Pick(0, 0, 1, 3, 5))
			stream = append(stream, tail...)
			ls = append(ls, fmt.Sprintf("pbstream limit=%d chunk=%d cseed=%d reuse=%d tail=%s payloads=%s tab=%s msgs=%s", 1<<20, r.Intn(4), r.Intn(1000), r.Intn(2), hx.Hex(tail), strings.Join(pls, "|"), c05pTab(stream, 1<<20), strings.Join(ms, "|")))
		default:
			ls = append(ls, c05pGenUnpack(r))
		}
	}
	return ls
}
