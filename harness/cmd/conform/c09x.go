package main

import (
	"fmt"
	"strconv"
	"strings"

	"verif/harness/internal/hx"
)

// C09, a REPLY WRITE THAT FAILS with the connection up (kind `xc09wf`, the property's own oracle, no
// model): the scripted families let every reply be written at the first attempt. Here the caller
// asks for a reply body codec that cannot encode the handler's result (WithAcceptBodyCodec of the
// protobuf codec for a plain int): the first reply write fails, the framework sends its fallback
// 500 reply. Also on this path every registered hook fires at most once per stage, in stage and
// registration order, and only hooks on the route's chain fire (the write-side stages of the reply
// must not be replayed for the fallback). Seed C09-E moved the PreWriteReply stage into writeReply,
// so the fallback fired it a second time. Same case fields as c09call.
func init() {
	p := props["c09"]
	g, r := p.Gen, p.Run
	p.Gen = func(rr *hx.R, tier string, out *hx.Out) []string {
		ls := g(rr, tier, out)
		// re-use generated c09call lines that reach a handler: no veto, handler status 0
		var add []string
		for _, l := range ls {
			if strings.HasPrefix(l, "c09call ") && strings.Contains(l, " hs=0 ") && strings.HasSuffix(l, "vb=- va=-") {
				add = append(add, "x"+strings.Replace(l, "c09call ", "c09wf ", 1))
			}
		}
		n := 40
		if tier == "thorough" {
			n = 400
		}
		for i := 0; i < n && len(add) > 0; i++ {
			ls = append(ls, add[rr.Intn(len(add))])
		}
		return ls
	}
	p.Run = func(line string, out *hx.Out) (string, bool) {
		if strings.HasPrefix(line, "xc09wf ") {
			return c09xRun(line, out)
		}
		return r(line, out)
	}
}

func c09xRun(line string, out *hx.Out) (obs string, nt bool) {
	defer func() {
		if p := recover(); p != nil {
			obs, nt = fmt.Sprintf("panic:%v", p), true
		}
	}()
	_, f := hx.Fields(line)
	bops, e1 := c09ParseOps(f["B"])
	aops, e2 := c09ParseOps(f["A"])
	route, e3 := strconv.Atoi(f["route"])
	if e1 != nil || e2 != nil || e3 != nil {
		return "bad-case", false
	}
	c09AcceptPB = true
	res := c09Exchange("c09call", bops, aops, route, 0, map[[2]int]bool{}, map[[2]int]bool{}, false)
	c09AcceptPB = false
	if res.timeout {
		out.Violate(line, "no-hang", "the exchange did not complete within 10 s", "c09:hang")
		return "oracle-only", true
	}
	out.Count(fmt.Sprintf("xc09wf:st=%d", res.st))
	spB, spA := c09MakeSpec(bops), c09MakeSpec(aops)
	cat := func(a, b, c []c09Pl) []c09Pl { return append(append(append([]c09Pl(nil), a...), b...), c...) }
	mid, bound := spB.chain["C"+strconv.Itoa(route)]
	if !bound {
		mid = spB.chain["UC"]
	}
	if w, d, _ := c09CheckOrder(res.b, cat(spB.left, mid, spB.right)); w != "" {
		out.Violate(line, "hooks-once-in-order-in-scope", "reply write failed once (unencodable result), fallback reply sent; peer B: "+d+" trace="+c09EvStr(res.b), "c09:writefail:"+w)
	}
	aAll := append(append([]c09Ev(nil), res.aw...), res.ar...)
	if w, d, _ := c09CheckOrder(aAll, cat(spA.left, nil, spA.right)); w != "" {
		out.Violate(line, "hooks-once-in-order-in-scope", "reply write failed once (unencodable result), fallback reply sent; peer A: "+d+" trace="+c09EvStr(aAll), "c09:writefail:"+w)
	}
	return "oracle-only", true
}
