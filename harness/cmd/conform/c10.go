package main

// C10 — registered routes dispatch to exactly their handler; unknown names do not.
//
// Case kinds (one line each, byte strings in hex, `-` = empty):
//
//	map  mk=http|rpc prefix=<hex> name=<hex>
//	     real HTTPServiceMethodMapper / RPCServiceMethodMapper output vs the Lean model.
//	hist mk=http|rpc ops=<op;op;...> probes=<c|p><hexname>,...
//	     a registration history on a fresh peer (controller structs / handler funcs of the fixed
//	     bank below, nested SubRoute groups, unknown handlers), then requests over a real in-memory
//	     connection.  Observation: names returned by every Route* call, how the history ended
//	     (ok / fatal exit at op i), and per probe the caller's status code and which handler ran.
//
// Registration conflicts end in erpc.Fatalf = os.Exit(1), and the service-method mapper is a
// process-wide global, so every hist case runs in a worker sub-process (this same binary re-executed
// with C10_WORKER=1, served from init()); the worker is restarted after each fatal exit.

import (
	"bufio"
	"encoding/hex"
	"fmt"
	"os"
	"os/exec"
	"reflect"
	"sort"
	"strconv"
	"strings"
	"sync"
	"time"

	erpc "github.com/henrylee2cn/erpc/v6"

	"verif/harness/internal/hx"
)

func init() {
	if os.Getenv("C10_WORKER") == "1" {
		c10Worker()
		os.Exit(0)
	}
	props["c10"] = &Prop{Setup: c10Setup, Gen: c10Gen, Run: c10Run, Finish: c10Finish}
}

type c10Entry struct {
	kind    byte // 'c' call, 'p' push
	fn      bool // handler function (RouteCallFunc/RoutePushFunc) instead of controller struct
	name    string
	val     func() interface{}
	hids    map[string]int
	methods []string // reflect method order (sorted by name); for a func: its name
}

var (
	c10mu  sync.Mutex
	c10log [][2]int // (probe index, hid) in invocation order
)

// c10rec is called by every bank handler: it records who ran for which probe.
func c10rec(hid int, a *int) int {
	idx := -1
	if a != nil {
		idx = *a
	}
	c10mu.Lock()
	c10log = append(c10log, [2]int{idx, hid})
	c10mu.Unlock()
	return hid
}

// ---- handler bank (generated once by a script; Go cannot synthesise methods at run time) ----
// Every handler records its own identity (hid) with the probe index it was called with.

type Aa struct{ erpc.CallCtx }

func (x *Aa) Bb(a *int) (int, *erpc.Status)    { return c10rec(1000, a), nil }
func (x *Aa) Cc_Dd(a *int) (int, *erpc.Status) { return c10rec(1001, a), nil }

type AaBb struct{ erpc.CallCtx }

func (x *AaBb) Cc(a *int) (int, *erpc.Status)  { return c10rec(1010, a), nil }
func (x *AaBb) XYz(a *int) (int, *erpc.Status) { return c10rec(1011, a), nil }

type Aa_BB struct{ erpc.CallCtx }

func (x *Aa_BB) Cc(a *int) (int, *erpc.Status) { return c10rec(1020, a), nil }

type Aa__Bb struct{ erpc.CallCtx }

func (x *Aa__Bb) Cc(a *int) (int, *erpc.Status)  { return c10rec(1030, a), nil }
func (x *Aa__Bb) XYz(a *int) (int, *erpc.Status) { return c10rec(1031, a), nil }

type Bb struct{ erpc.CallCtx }

func (x *Bb) Cc(a *int) (int, *erpc.Status)    { return c10rec(1040, a), nil }
func (x *Bb) CcDd(a *int) (int, *erpc.Status)  { return c10rec(1041, a), nil }
func (x *Bb) Cc_Dd(a *int) (int, *erpc.Status) { return c10rec(1042, a), nil }

type HTTPServer struct{ erpc.CallCtx }

func (x *HTTPServer) GetURL(a *int) (int, *erpc.Status)     { return c10rec(1050, a), nil }
func (x *HTTPServer) Get_URL(a *int) (int, *erpc.Status)    { return c10rec(1051, a), nil }
func (x *HTTPServer) ServeHTTP2(a *int) (int, *erpc.Status) { return c10rec(1052, a), nil }

type ABcXYz struct{ erpc.CallCtx }

func (x *ABcXYz) ABC_XYZ(a *int) (int, *erpc.Status)  { return c10rec(1060, a), nil }
func (x *ABcXYz) ABC__XYZ(a *int) (int, *erpc.Status) { return c10rec(1061, a), nil }

type aa_bb struct{ erpc.CallCtx }

func (x *aa_bb) Cc(a *int) (int, *erpc.Status) { return c10rec(1070, a), nil }

type X1_2y struct{ erpc.CallCtx }

func (x *X1_2y) Z9(a *int) (int, *erpc.Status)  { return c10rec(1080, a), nil }
func (x *X1_2y) Z_9(a *int) (int, *erpc.Status) { return c10rec(1081, a), nil }

type DupC struct{ erpc.CallCtx }

func (x *DupC) AaBb(a *int) (int, *erpc.Status)   { return c10rec(1090, a), nil }
func (x *DupC) Aa__Bb(a *int) (int, *erpc.Status) { return c10rec(1091, a), nil }

type Em0 struct{ erpc.CallCtx }

type Aa_ struct{ erpc.CallCtx }

func (x *Aa_) Bb_(a *int) (int, *erpc.Status) { return c10rec(1110, a), nil }

type _Aa struct{ erpc.CallCtx }

func (x *_Aa) Bb(a *int) (int, *erpc.Status) { return c10rec(1120, a), nil }

type K struct{ erpc.CallCtx }

func (x *K) B(a *int) (int, *erpc.Status)    { return c10rec(1130, a), nil }
func (x *K) C_(a *int) (int, *erpc.Status)   { return c10rec(1131, a), nil }
func (x *K) D__E(a *int) (int, *erpc.Status) { return c10rec(1132, a), nil }

type V1x struct{ erpc.CallCtx }

func (x *V1x) Aa_Bb_Cc(a *int) (int, *erpc.Status) { return c10rec(1140, a), nil }
func (x *V1x) Aa___Bb(a *int) (int, *erpc.Status)  { return c10rec(1141, a), nil }
func (x *V1x) Aa____Bb(a *int) (int, *erpc.Status) { return c10rec(1142, a), nil }

type AA struct{ erpc.PushCtx }

func (x *AA) Bb(a *int) *erpc.Status    { c10rec(3000, a); return nil }
func (x *AA) Cc_Dd(a *int) *erpc.Status { c10rec(3001, a); return nil }

type Pp struct{ erpc.PushCtx }

func (x *Pp) Qq(a *int) *erpc.Status    { c10rec(3010, a); return nil }
func (x *Pp) QqRr(a *int) *erpc.Status  { c10rec(3011, a); return nil }
func (x *Pp) Qq_Rr(a *int) *erpc.Status { c10rec(3012, a); return nil }

type Pp_Qq struct{ erpc.PushCtx }

func (x *Pp_Qq) Rr(a *int) *erpc.Status { c10rec(3020, a); return nil }

type AaBB struct{ erpc.PushCtx }

func (x *AaBB) Cc(a *int) *erpc.Status { c10rec(3030, a); return nil }

type PushHTTP struct{ erpc.PushCtx }

func (x *PushHTTP) OnURL(a *int) *erpc.Status  { c10rec(3040, a); return nil }
func (x *PushHTTP) On_URL(a *int) *erpc.Status { c10rec(3041, a); return nil }

type Em0P struct{ erpc.PushCtx }

type DupP struct{ erpc.PushCtx }

func (x *DupP) XxYy(a *int) *erpc.Status   { c10rec(3060, a); return nil }
func (x *DupP) Xx__Yy(a *int) *erpc.Status { c10rec(3061, a); return nil }

type pp__qq struct{ erpc.PushCtx }

func (x *pp__qq) R_r(a *int) *erpc.Status { c10rec(3070, a); return nil }
func (x *pp__qq) Rr(a *int) *erpc.Status  { c10rec(3071, a); return nil }

func Aa_Bb(c erpc.CallCtx, a *int) (int, *erpc.Status)    { return c10rec(5000, a), nil }
func AaBb_Cc(c erpc.CallCtx, a *int) (int, *erpc.Status)  { return c10rec(5001, a), nil }
func HomeIdx(c erpc.CallCtx, a *int) (int, *erpc.Status)  { return c10rec(5002, a), nil }
func _lead(c erpc.CallCtx, a *int) (int, *erpc.Status)    { return c10rec(5003, a), nil }
func x_y_z(c erpc.CallCtx, a *int) (int, *erpc.Status)    { return c10rec(5004, a), nil }
func XYZ__Abc(c erpc.CallCtx, a *int) (int, *erpc.Status) { return c10rec(5005, a), nil }
func Cc(c erpc.CallCtx, a *int) (int, *erpc.Status)       { return c10rec(5006, a), nil }
func trail_(c erpc.CallCtx, a *int) (int, *erpc.Status)   { return c10rec(5007, a), nil }
func Fn1(c erpc.CallCtx, a *int) (int, *erpc.Status)      { return c10rec(5008, a), nil }
func Aa_Cc_Dd(c erpc.CallCtx, a *int) (int, *erpc.Status) { return c10rec(5009, a), nil }
func AA_Bb(c erpc.PushCtx, a *int) *erpc.Status           { c10rec(6000, a); return nil }
func Pp_Qq_Rr(c erpc.PushCtx, a *int) *erpc.Status        { c10rec(6001, a); return nil }
func NotifyAll(c erpc.PushCtx, a *int) *erpc.Status       { c10rec(6002, a); return nil }
func _p(c erpc.PushCtx, a *int) *erpc.Status              { c10rec(6003, a); return nil }
func On__Push(c erpc.PushCtx, a *int) *erpc.Status        { c10rec(6004, a); return nil }
func PQR(c erpc.PushCtx, a *int) *erpc.Status             { c10rec(6005, a); return nil }

// c10Bank: kind, func?, the Go identifier the router derives the name from, the registrable value,
// and the handler ids by method name.
var c10Bank = []*c10Entry{
	{kind: 'c', name: "Aa", val: func() interface{} { return new(Aa) }, hids: map[string]int{"Bb": 1000, "Cc_Dd": 1001}},
	{kind: 'c', name: "AaBb", val: func() interface{} { return new(AaBb) }, hids: map[string]int{"Cc": 1010, "XYz": 1011}},
	{kind: 'c', name: "Aa_BB", val: func() interface{} { return new(Aa_BB) }, hids: map[string]int{"Cc": 1020}},
	{kind: 'c', name: "Aa__Bb", val: func() interface{} { return new(Aa__Bb) }, hids: map[string]int{"Cc": 1030, "XYz": 1031}},
	{kind: 'c', name: "Bb", val: func() interface{} { return new(Bb) }, hids: map[string]int{"Cc": 1040, "CcDd": 1041, "Cc_Dd": 1042}},
	{kind: 'c', name: "HTTPServer", val: func() interface{} { return new(HTTPServer) }, hids: map[string]int{"GetURL": 1050, "Get_URL": 1051, "ServeHTTP2": 1052}},
	{kind: 'c', name: "ABcXYz", val: func() interface{} { return new(ABcXYz) }, hids: map[string]int{"ABC_XYZ": 1060, "ABC__XYZ": 1061}},
	{kind: 'c', name: "aa_bb", val: func() interface{} { return new(aa_bb) }, hids: map[string]int{"Cc": 1070}},
	{kind: 'c', name: "X1_2y", val: func() interface{} { return new(X1_2y) }, hids: map[string]int{"Z9": 1080, "Z_9": 1081}},
	{kind: 'c', name: "DupC", val: func() interface{} { return new(DupC) }, hids: map[string]int{"AaBb": 1090, "Aa__Bb": 1091}},
	{kind: 'c', name: "Em0", val: func() interface{} { return new(Em0) }, hids: map[string]int{}},
	{kind: 'c', name: "Aa_", val: func() interface{} { return new(Aa_) }, hids: map[string]int{"Bb_": 1110}},
	{kind: 'c', name: "_Aa", val: func() interface{} { return new(_Aa) }, hids: map[string]int{"Bb": 1120}},
	{kind: 'c', name: "K", val: func() interface{} { return new(K) }, hids: map[string]int{"B": 1130, "C_": 1131, "D__E": 1132}},
	{kind: 'c', name: "V1x", val: func() interface{} { return new(V1x) }, hids: map[string]int{"Aa_Bb_Cc": 1140, "Aa___Bb": 1141, "Aa____Bb": 1142}},
	{kind: 'p', name: "AA", val: func() interface{} { return new(AA) }, hids: map[string]int{"Bb": 3000, "Cc_Dd": 3001}},
	{kind: 'p', name: "Pp", val: func() interface{} { return new(Pp) }, hids: map[string]int{"Qq": 3010, "QqRr": 3011, "Qq_Rr": 3012}},
	{kind: 'p', name: "Pp_Qq", val: func() interface{} { return new(Pp_Qq) }, hids: map[string]int{"Rr": 3020}},
	{kind: 'p', name: "AaBB", val: func() interface{} { return new(AaBB) }, hids: map[string]int{"Cc": 3030}},
	{kind: 'p', name: "PushHTTP", val: func() interface{} { return new(PushHTTP) }, hids: map[string]int{"OnURL": 3040, "On_URL": 3041}},
	{kind: 'p', name: "Em0P", val: func() interface{} { return new(Em0P) }, hids: map[string]int{}},
	{kind: 'p', name: "DupP", val: func() interface{} { return new(DupP) }, hids: map[string]int{"XxYy": 3060, "Xx__Yy": 3061}},
	{kind: 'p', name: "pp__qq", val: func() interface{} { return new(pp__qq) }, hids: map[string]int{"R_r": 3070, "Rr": 3071}},
	{kind: 'c', fn: true, name: "Aa_Bb", val: func() interface{} { return Aa_Bb }, hids: map[string]int{"Aa_Bb": 5000}},
	{kind: 'c', fn: true, name: "AaBb_Cc", val: func() interface{} { return AaBb_Cc }, hids: map[string]int{"AaBb_Cc": 5001}},
	{kind: 'c', fn: true, name: "HomeIdx", val: func() interface{} { return HomeIdx }, hids: map[string]int{"HomeIdx": 5002}},
	{kind: 'c', fn: true, name: "_lead", val: func() interface{} { return _lead }, hids: map[string]int{"_lead": 5003}},
	{kind: 'c', fn: true, name: "x_y_z", val: func() interface{} { return x_y_z }, hids: map[string]int{"x_y_z": 5004}},
	{kind: 'c', fn: true, name: "XYZ__Abc", val: func() interface{} { return XYZ__Abc }, hids: map[string]int{"XYZ__Abc": 5005}},
	{kind: 'c', fn: true, name: "Cc", val: func() interface{} { return Cc }, hids: map[string]int{"Cc": 5006}},
	{kind: 'c', fn: true, name: "trail_", val: func() interface{} { return trail_ }, hids: map[string]int{"trail_": 5007}},
	{kind: 'c', fn: true, name: "Fn1", val: func() interface{} { return Fn1 }, hids: map[string]int{"Fn1": 5008}},
	{kind: 'c', fn: true, name: "Aa_Cc_Dd", val: func() interface{} { return Aa_Cc_Dd }, hids: map[string]int{"Aa_Cc_Dd": 5009}},
	{kind: 'c', fn: true, name: "Bb", val: func() interface{} { return (*Aa).Bb }, hids: map[string]int{"Bb": 1000}},
	{kind: 'c', fn: true, name: "CcDd", val: func() interface{} { return (*Bb).CcDd }, hids: map[string]int{"CcDd": 1041}},
	{kind: 'p', fn: true, name: "AA_Bb", val: func() interface{} { return AA_Bb }, hids: map[string]int{"AA_Bb": 6000}},
	{kind: 'p', fn: true, name: "Pp_Qq_Rr", val: func() interface{} { return Pp_Qq_Rr }, hids: map[string]int{"Pp_Qq_Rr": 6001}},
	{kind: 'p', fn: true, name: "NotifyAll", val: func() interface{} { return NotifyAll }, hids: map[string]int{"NotifyAll": 6002}},
	{kind: 'p', fn: true, name: "_p", val: func() interface{} { return _p }, hids: map[string]int{"_p": 6003}},
	{kind: 'p', fn: true, name: "On__Push", val: func() interface{} { return On__Push }, hids: map[string]int{"On__Push": 6004}},
	{kind: 'p', fn: true, name: "PQR", val: func() interface{} { return PQR }, hids: map[string]int{"PQR": 6005}},
	{kind: 'p', fn: true, name: "Qq", val: func() interface{} { return (*Pp).Qq }, hids: map[string]int{"Qq": 3010}},
}

// ---- bank bookkeeping -------------------------------------------------------------------------

var c10BankByName = map[string]*c10Entry{} // key: kind + ("f" | "s") + ":" + name

func c10Key(kind byte, fn bool, name string) string {
	f := "s"
	if fn {
		f = "f"
	}
	return string(kind) + f + ":" + name
}

// c10BankInit fills the reflect method order of every controller struct (exported methods that
// are not promoted from the embedded context interface) and checks it against the hid table.
func c10BankInit() {
	if len(c10BankByName) > 0 {
		return
	}
	ctxMethods := map[string]bool{}
	for _, t := range []reflect.Type{reflect.TypeOf((*erpc.CallCtx)(nil)).Elem(), reflect.TypeOf((*erpc.PushCtx)(nil)).Elem()} {
		for i := 0; i < t.NumMethod(); i++ {
			ctxMethods[t.Method(i).Name] = true
		}
	}
	for _, e := range c10Bank {
		if e.fn {
			e.methods = []string{e.name}
		} else {
			t := reflect.TypeOf(e.val())
			if got := t.Elem().Name(); got != e.name {
				panic("c10 bank: type name " + got + " != " + e.name)
			}
			for i := 0; i < t.NumMethod(); i++ {
				m := t.Method(i)
				if m.PkgPath != "" || ctxMethods[m.Name] {
					continue
				}
				if _, ok := e.hids[m.Name]; !ok {
					panic("c10 bank: no hid for " + e.name + "." + m.Name)
				}
				e.methods = append(e.methods, m.Name)
			}
			if len(e.methods) != len(e.hids) {
				panic("c10 bank: method count of " + e.name)
			}
		}
		k := c10Key(e.kind, e.fn, e.name)
		if c10BankByName[k] != nil {
			panic("c10 bank: duplicate " + k)
		}
		c10BankByName[k] = e
	}
}

func c10Setup() {
	erpc.SetLoggerLevel("OFF")
	c10BankInit()
}

func c10hex(s string) string { return hx.Hex([]byte(s)) }

func c10mapper(mk string) func(string, string) string {
	if mk == "rpc" {
		return erpc.RPCServiceMethodMapper
	}
	return erpc.HTTPServiceMethodMapper
}

// documented mapping tables (doc comments of router.go and README.md), prefix "".
var c10Doc = map[string][][2]string{
	"http": {{"AaBb", "/aa_bb"}, {"ABcXYz", "/abc_xyz"}, {"Aa__Bb", "/aa_bb"}, {"aa__bb", "/aa_bb"},
		{"ABC__XYZ", "/abc_xyz"}, {"Aa_Bb", "/aa/bb"}, {"aa_bb", "/aa/bb"}, {"ABC_XYZ", "/abc/xyz"}},
	"rpc": {{"AaBb", "AaBb"}, {"ABcXYz", "ABcXYz"}, {"Aa__Bb", "Aa_Bb"}, {"aa__bb", "aa_bb"},
		{"ABC__XYZ", "ABC_XYZ"}, {"Aa_Bb", "Aa.Bb"}, {"aa_bb", "aa.bb"}, {"ABC_XYZ", "ABC.XYZ"}},
}

// ---- generation -------------------------------------------------------------------------------

var c10Tokens = []string{"Aa", "aa", "Bb", "bb", "ABC", "XYZ", "A", "a", "_", "_", "__", "___", "9", "X1", "HTTP",
	"Server", "ID", "Id", "z", "Z", "0", "Get", "URL", "v2"}

var c10Prefixes = []string{"", "/", "aa", "Aa", "a/b", "/x/", "x//y", "Aa_Bb", "aa_bb", "v1", "..", ".", "a.b", "Pp",
	"AA", "pp/qq", "Bb", "a/../b", "x.", ".x", "A.B", "_", "__", "a__b", "Aa.", "aa/", "Aa_", "api/V2", "/aa/bb",
	"Aa__Bb", "../..", "./a", "a/./b", "...", "a..b", "/.", "x/_y", "x._y", "HTTPServer", "pp__qq", "Pp_Qq"}

func c10GenIdent(r *hx.R) string {
	switch r.Intn(10) {
	case 0: // fully random over the identifier alphabet
		const al = "ABCXYZabcxyz019___"
		n := r.Intn(13)
		b := make([]byte, n)
		for i := range b {
			b[i] = al[r.Intn(len(al))]
		}
		return string(b)
	case 1: // a documented row or a bank name
		if r.Intn(2) == 0 {
			return c10Doc["http"][r.Intn(8)][0]
		}
		return c10Bank[r.Intn(len(c10Bank))].name
	}
	n := 1 + r.Intn(5)
	var sb strings.Builder
	for i := 0; i < n; i++ {
		sb.WriteString(c10Tokens[r.Intn(len(c10Tokens))])
	}
	return sb.String()
}

func c10GenPrefix(r *hx.R) string {
	switch r.Intn(6) {
	case 0:
		const al = "Aabz/._9/._X"
		n := r.Intn(8)
		b := make([]byte, n)
		for i := range b {
			b[i] = al[r.Intn(len(al))]
		}
		return string(b)
	case 1:
		return c10GenIdent(r)
	case 2: // any ASCII byte, NUL included (SubRoute passes the user's prefix as `name`)
		n := r.Intn(6)
		b := make([]byte, n)
		for i := range b {
			b[i] = byte(r.Intn(128))
		}
		return string(b)
	}
	return c10Prefixes[r.Intn(len(c10Prefixes))]
}

type c10GenReg struct {
	kind  byte
	names []string
}

func c10safeMap(f func(string, string) string, p, n string) (s string, ok bool) {
	defer func() {
		if recover() != nil {
			ok = false
		}
	}()
	return f(p, n), true
}

func c10NearMiss(r *hx.R, s string, mk string) string {
	sep := "/"
	if mk == "rpc" {
		sep = "."
	}
	b := []byte(s)
	switch r.Intn(14) {
	case 0: // flip the case of one letter
		for try := 0; try < 8 && len(b) > 0; try++ {
			i := r.Intn(len(b))
			if b[i] >= 'a' && b[i] <= 'z' {
				b[i] -= 32
				return string(b)
			}
			if b[i] >= 'A' && b[i] <= 'Z' {
				b[i] += 32
				return string(b)
			}
		}
		return s + "A"
	case 1:
		return s + sep
	case 2:
		return strings.TrimPrefix(s, sep)
	case 3:
		return strings.Replace(s, sep, sep+sep, 1)
	case 4:
		if len(s) > 0 {
			return s[:len(s)-1]
		}
		return "x"
	case 5:
		return s + "x"
	case 6:
		if i := strings.LastIndex(s, sep); i > 0 {
			return s[:i]
		}
		return sep
	case 7:
		return strings.ToUpper(s)
	case 8:
		return strings.Replace(s, "_", sep, 1)
	case 9:
		return strings.Replace(s, sep, "_", 1)
	case 10:
		return s + "?a=1"
	case 11:
		return sep + s
	case 12:
		return s + "\x00"
	}
	if len(s) > 1 {
		return s[1:]
	}
	return " " + s
}

// c10GenHist draws histories; one whose predicted names collide (it will end in the fatal exit, which
// costs a process start) is kept only 2 times out of 5, so most cases reach the probing phase.
func c10GenHist(r *hx.R, out *hx.Out) string {
	for {
		line, collide := c10GenHist1(r)
		if !collide || r.Intn(5) < 2 {
			return line
		}
	}
}

func c10GenHist1(r *hx.R) (string, bool) {
	mk := "http"
	if r.Intn(10) < 3 {
		mk = "rpc"
	}
	mapf := c10mapper(mk)
	root, _ := c10safeMap(mapf, "", "")
	prefixes := []string{root}
	var ops []string
	var regs []c10GenReg
	var idents []string
	ng := r.Pick(0, 0, 1, 1, 2, 3)
	nr := 1 + r.Intn(5)
	if r.Intn(12) == 0 {
		nr = 6 + r.Intn(6)
	}
	nu := 0
	if r.Intn(5) < 2 {
		nu = 1 + r.Intn(2)
	}
	// a shuffled schedule of group creations (first, so route ops can use them), routes, unknown setters
	var sched []byte
	for i := 0; i < nr; i++ {
		sched = append(sched, 'r')
	}
	for i := 0; i < nu; i++ {
		sched = append(sched, 'u')
	}
	for i := 0; i < ng; i++ {
		sched = append(sched, 'g')
	}
	r.Shuffle(len(sched), func(i, j int) { sched[i], sched[j] = sched[j], sched[i] })
	uid := 9000
	for _, k := range sched {
		switch k {
		case 'g':
			par := r.Intn(len(prefixes))
			pfx := c10Prefixes[r.Intn(len(c10Prefixes))]
			if r.Intn(4) == 0 {
				pfx = c10GenPrefix(r)
			}
			p, ok := c10safeMap(mapf, prefixes[par], pfx)
			if !ok {
				continue
			}
			prefixes = append(prefixes, p)
			ops = append(ops, fmt.Sprintf("g,%d,%s", par, c10hex(pfx)))
		case 'r':
			e := c10Bank[r.Intn(len(c10Bank))]
			g := 0
			if r.Intn(2) == 0 {
				g = r.Intn(len(prefixes))
			}
			idents = append(idents, e.name)
			var names []string
			if e.fn {
				n, _ := c10safeMap(mapf, prefixes[g], e.name)
				names = []string{n}
				ops = append(ops, fmt.Sprintf("rf,%c,%d,%s,%d", e.kind, g, c10hex(e.name), e.hids[e.name]))
			} else {
				ms := make([]string, len(e.methods))
				for i, m := range e.methods {
					sp, _ := c10safeMap(mapf, prefixes[g], e.name)
					n, _ := c10safeMap(mapf, sp, m)
					names = append(names, n)
					ms[i] = fmt.Sprintf("%s:%d", c10hex(m), e.hids[m])
					idents = append(idents, m)
				}
				msf := "-"
				if len(ms) > 0 {
					msf = strings.Join(ms, "/")
				}
				ops = append(ops, fmt.Sprintf("rs,%c,%d,%s,%s", e.kind, g, c10hex(e.name), msf))
			}
			regs = append(regs, c10GenReg{e.kind, names})
		case 'u':
			g := 0
			if len(prefixes) > 1 && r.Intn(4) == 0 {
				g = 1 + r.Intn(len(prefixes)-1) // via SubRouter.ToRouter()
			}
			kind := "c"
			if r.Intn(2) == 0 {
				kind = "p"
			}
			uid++
			ops = append(ops, fmt.Sprintf("u,%s,%d,%d", kind, g, uid))
		}
	}
	// probes: registered names in their own namespace, in the other namespace, near misses, fixed odd ones
	var probes []string
	add := func(kind byte, name string) {
		if len(name) > 200 || len(probes) >= 24 {
			return
		}
		probes = append(probes, string(kind)+c10hex(name))
	}
	other := func(k byte) byte {
		if k == 'c' {
			return 'p'
		}
		return 'c'
	}
	for _, rg := range regs {
		for _, n := range rg.names {
			if r.Intn(8) != 0 {
				add(rg.kind, n)
			}
			if r.Intn(3) == 0 {
				add(other(rg.kind), n)
			}
			for k := r.Intn(3); k > 0; k-- {
				kind := rg.kind
				if r.Intn(5) == 0 {
					kind = other(kind)
				}
				add(kind, c10NearMiss(r, n, mk))
			}
		}
	}
	for k := r.Intn(3); k > 0; k-- {
		kind := byte("cp"[r.Intn(2)])
		switch r.Intn(6) {
		case 0:
			add(kind, "")
		case 1:
			add(kind, root)
		case 2:
			if len(idents) > 0 {
				add(kind, idents[r.Intn(len(idents))]) // the unmapped Go identifier
			}
		case 3:
			add(kind, prefixes[r.Intn(len(prefixes))])
		default:
			add(kind, c10GenPrefix(r))
		}
	}
	r.Shuffle(len(probes), func(i, j int) { probes[i], probes[j] = probes[j], probes[i] })
	pf := "-"
	if len(probes) > 0 {
		pf = strings.Join(probes, ",")
	}
	of := "-"
	if len(ops) > 0 {
		of = strings.Join(ops, ";")
	}
	collide := false
	seen := map[string]bool{}
	for _, rg := range regs {
		for _, n := range rg.names {
			k := string(rg.kind) + n
			if seen[k] {
				collide = true
			}
			seen[k] = true
		}
	}
	return fmt.Sprintf("hist mk=%s ops=%s probes=%s", mk, of, pf), collide
}

func c10Gen(r *hx.R, tier string, out *hx.Out) []string {
	c10BankInit()
	nMap, nHist := 6000, 1000
	if tier == "thorough" {
		nMap, nHist = 60000, 9000
	}
	var ls []string
	// the documented rows first, with the empty prefix and with each mapper's root prefix
	for _, mk := range []string{"http", "rpc"} {
		for _, row := range c10Doc[mk] {
			ls = append(ls, fmt.Sprintf("map mk=%s prefix=- name=%s", mk, c10hex(row[0])))
			ls = append(ls, fmt.Sprintf("map mk=%s prefix=%s name=%s", mk, c10hex(c10mapper(mk)("", "")), c10hex(row[0])))
		}
	}
	for i := 0; i < nMap; i++ {
		mk := "http"
		if r.Intn(2) == 0 {
			mk = "rpc"
		}
		name := c10GenIdent(r)
		if r.Intn(8) == 0 {
			name = c10GenPrefix(r) // SubRoute feeds arbitrary user strings through the same function
		}
		ls = append(ls, fmt.Sprintf("map mk=%s prefix=%s name=%s", mk, c10hex(c10GenPrefix(r)), c10hex(name)))
	}
	for i := 0; i < nHist; i++ {
		ls = append(ls, c10GenHist(r, out))
	}
	return ls
}

// ---- running one case (parent process) ----------------------------------------------------------

func c10Run(line string, out *hx.Out) (string, bool) {
	kind, f := hx.Fields(line)
	switch kind {
	case "map":
		return c10RunMap(line, f, out)
	case "hist":
		return c10RunHist(line, out)
	}
	return "bad-kind", false
}

func c10RunMap(line string, f map[string]string, out *hx.Out) (obs string, nt bool) {
	mk, prefix, name := f["mk"], string(hx.UnHex(f["prefix"])), string(hx.UnHex(f["name"]))
	out.Count("map:" + mk)
	call := func() (s string) {
		defer func() {
			if recover() != nil {
				s = "panic"
			}
		}()
		return "ok " + c10hex(c10mapper(mk)(prefix, name))
	}
	obs = call()
	// oracle: the mapper is a function (same arguments, same result) and total (no panic)
	if again := call(); again != obs {
		out.Violate(line, "mapper-deterministic", obs+" vs "+again, "c10:mapper-nondeterministic")
	}
	if obs == "panic" {
		out.Violate(line, "mapper-total", "mapper panicked", "c10:mapper-panic")
	}
	// oracle: the documented table
	if prefix == "" {
		for _, row := range c10Doc[mk] {
			if row[0] == name {
				out.Count("map:doc-row")
				if obs != "ok "+c10hex(row[1]) {
					out.Violate(line, "documented-table", fmt.Sprintf("%s(%q) = %s, documented %q", mk, name, obs, row[1]), "c10:doc-table-"+mk)
				}
			}
		}
	}
	if strings.Contains(name, "__") {
		out.Count("map:double-underscore")
	}
	if strings.HasPrefix(name, "_") || strings.HasSuffix(name, "_") {
		out.Count("map:edge-underscore")
	}
	nt = prefix != "" || strings.ContainsAny(name, "_ABCDEFGHIJKLMNOPQRSTUVWXYZ")
	return obs, nt
}

// worker process handle
type c10Proc struct {
	cmd   *exec.Cmd
	in    *bufio.Writer
	lines chan string // closed at EOF
}

var (
	c10w    *c10Proc
	c10pool chan *c10Proc // pre-started spare workers (process start-up dominates a fatal case)
	c10stop chan struct{}
)

func c10GetWorker() *c10Proc {
	if c10pool == nil {
		c10pool = make(chan *c10Proc) // unbuffered: exactly one spare is being started ahead
		c10stop = make(chan struct{})
		go func() {
			for {
				w := c10StartWorker()
				select {
				case c10pool <- w:
				case <-c10stop:
					w.cmd.Process.Kill()
					w.cmd.Wait()
					return
				}
			}
		}()
	}
	return <-c10pool
}

func c10StartWorker() *c10Proc {
	exe := "/proc/self/exe" // the running image, even if the binary on disk is being rebuilt
	if _, err := os.Stat(exe); err != nil {
		exe = os.Args[0]
	}
	cmd := exec.Command(exe)
	cmd.Env = append(os.Environ(), "C10_WORKER=1", "GOMAXPROCS=2")
	stdin, err := cmd.StdinPipe()
	if err != nil {
		panic(err)
	}
	stdout, err := cmd.StdoutPipe()
	if err != nil {
		panic(err)
	}
	if err := cmd.Start(); err != nil {
		panic(err)
	}
	p := &c10Proc{cmd: cmd, in: bufio.NewWriter(stdin), lines: make(chan string, 64)}
	go func() {
		sc := bufio.NewScanner(stdout)
		sc.Buffer(make([]byte, 1<<20), 1<<24)
		for sc.Scan() {
			p.lines <- sc.Text()
		}
		close(p.lines)
	}()
	return p
}

func c10RunHist(line string, out *hx.Out) (string, bool) {
	if c10w == nil {
		c10w = c10GetWorker()
		out.Count("hist:worker-start")
	}
	w := c10w
	fmt.Fprintln(w.in, line)
	w.in.Flush()
	var regs []string
	cur := -1
	probes := ""
	end := ""
	nt := false
	timeout := time.After(60 * time.Second)
loop:
	for {
		select {
		case l, ok := <-w.lines:
			if !ok { // the worker died: Fatalf exits with status 1
				err := w.cmd.Wait()
				c10w = nil
				code := -1
				if ee, ok := err.(*exec.ExitError); ok {
					code = ee.ExitCode()
				}
				if code == 1 {
					end = fmt.Sprintf("fatal@%d", cur)
				} else {
					end = fmt.Sprintf("crash(%d)@%d", code, cur)
				}
				break loop
			}
			switch {
			case strings.HasPrefix(l, "O "):
				cur, _ = strconv.Atoi(l[2:])
			case strings.HasPrefix(l, "R "):
				regs = append(regs, l[2:])
				if l[2:] != "-" {
					nt = true
				}
			case strings.HasPrefix(l, "P "):
				probes = l[2:]
				end = "ok"
			case strings.HasPrefix(l, "V "):
				p := strings.SplitN(l[2:], "|", 3)
				if len(p) == 3 {
					out.Violate(line, p[0], p[2], p[1])
				}
			case strings.HasPrefix(l, "C "):
				out.Count(l[2:])
			case strings.HasPrefix(l, "X "):
				end = "harness-error:" + strings.ReplaceAll(l[2:], " ", "_")
			case l == "END":
				break loop
			}
		case <-timeout:
			w.cmd.Process.Kill()
			w.cmd.Wait()
			c10w = nil
			end = fmt.Sprintf("hang@%d", cur)
			break loop
		}
	}
	out.Count("hist:end=" + strings.SplitN(end, "@", 2)[0])
	if end == "ok" {
		return fmt.Sprintf("regs=%s end=ok probes=%s", strings.Join(regs, "|"), probes), nt
	}
	return fmt.Sprintf("regs=%s end=%s", strings.Join(regs, "|"), end), nt
}

func c10Finish(out *hx.Out) {
	if c10w != nil {
		c10w.cmd.Process.Kill()
		c10w.cmd.Wait()
		c10w = nil
	}
	if c10pool != nil {
		close(c10stop)
		for {
			select {
			case w := <-c10pool:
				w.cmd.Process.Kill()
				w.cmd.Wait()
				continue
			case <-time.After(300 * time.Millisecond):
			}
			break
		}
	}
}

// ---- worker process: runs hist cases on the real code --------------------------------------------

type c10Op struct {
	typ     string // g, rs, rf, u
	kind    byte
	g       int
	name    string
	entry   *c10Entry
	hid     int
	names   []string // returned by Route* (filled when executed)
	hidList []int    // handler ids in the order of the returned names
}

func c10Worker() {
	erpc.SetLoggerLevel("OFF")
	c10BankInit()
	in := bufio.NewScanner(os.Stdin)
	in.Buffer(make([]byte, 1<<20), 1<<24)
	w := bufio.NewWriter(os.Stdout)
	for in.Scan() {
		c10WorkHist(in.Text(), w)
		fmt.Fprintln(w, "END")
		w.Flush()
	}
}

func c10ParseOps(s string) ([]*c10Op, error) {
	var ops []*c10Op
	if s == "-" || s == "" {
		return ops, nil
	}
	for _, o := range strings.Split(s, ";") {
		p := strings.Split(o, ",")
		bad := fmt.Errorf("bad op %q", o)
		unhex := func(h string) (string, error) {
			if h == "-" {
				return "", nil
			}
			b, err := hex.DecodeString(h)
			return string(b), err
		}
		op := &c10Op{typ: p[0]}
		var err error
		switch {
		case p[0] == "g" && len(p) == 3:
			if op.g, err = strconv.Atoi(p[1]); err != nil {
				return nil, bad
			}
			if op.name, err = unhex(p[2]); err != nil {
				return nil, bad
			}
		case (p[0] == "rs" || p[0] == "rf") && len(p) == 5 && len(p[1]) == 1:
			op.kind = p[1][0]
			if op.g, err = strconv.Atoi(p[2]); err != nil {
				return nil, bad
			}
			if op.name, err = unhex(p[3]); err != nil {
				return nil, bad
			}
			op.entry = c10BankByName[c10Key(op.kind, p[0] == "rf", op.name)]
			if op.entry == nil {
				return nil, fmt.Errorf("no bank entry for %q", o)
			}
			// the case line must describe the bank entry exactly (the model only sees the line)
			var want string
			if p[0] == "rf" {
				want = strconv.Itoa(op.entry.hids[op.name])
				op.hidList = []int{op.entry.hids[op.name]}
			} else {
				ms := make([]string, len(op.entry.methods))
				for i, m := range op.entry.methods {
					ms[i] = fmt.Sprintf("%s:%d", c10hex(m), op.entry.hids[m])
					op.hidList = append(op.hidList, op.entry.hids[m])
				}
				want = strings.Join(ms, "/")
				if want == "" {
					want = "-"
				}
			}
			if p[4] != want {
				return nil, fmt.Errorf("op %q does not match the bank (%s)", o, want)
			}
		case p[0] == "u" && len(p) == 4 && len(p[1]) == 1:
			op.kind = p[1][0]
			if op.g, err = strconv.Atoi(p[2]); err != nil {
				return nil, bad
			}
			if op.hid, err = strconv.Atoi(p[3]); err != nil {
				return nil, bad
			}
		default:
			return nil, bad
		}
		ops = append(ops, op)
	}
	return ops, nil
}

type c10Probe struct {
	kind byte
	name string
}

func c10WorkHist(line string, w *bufio.Writer) {
	say := func(format string, a ...interface{}) {
		fmt.Fprintf(w, format+"\n", a...)
		w.Flush()
	}
	defer func() {
		if p := recover(); p != nil {
			say("X panic:%v", p)
		}
	}()
	_, f := hx.Fields(line)
	ops, err := c10ParseOps(f["ops"])
	if err != nil {
		say("X %v", err)
		return
	}
	var probes []c10Probe
	if f["probes"] != "-" && f["probes"] != "" {
		for _, p := range strings.Split(f["probes"], ",") {
			if len(p) < 2 || (p[0] != 'c' && p[0] != 'p') {
				say("X bad probe %q", p)
				return
			}
			probes = append(probes, c10Probe{p[0], string(hx.UnHex(p[1:]))})
		}
	}
	mk := f["mk"]
	say("C hist:mk=%s", mk)
	if mk == "rpc" {
		erpc.SetServiceMethodMapper(erpc.RPCServiceMethodMapper)
		defer erpc.SetServiceMethodMapper(erpc.HTTPServiceMethodMapper)
	}
	c10mu.Lock()
	c10log = nil
	c10mu.Unlock()

	srv := erpc.NewPeer(erpc.PeerConfig{})
	defer srv.Close()
	groups := []*erpc.SubRouter{nil}                     // index 0 = the peer's root router
	unknownSet := map[byte]map[int]int{'c': {}, 'p': {}} // kind -> uid -> group it was set through
	for i, op := range ops {
		say("O %d", i)
		if op.g < 0 || op.g >= len(groups) {
			say("X bad group reference in op %d", i)
			return
		}
		switch op.typ {
		case "g":
			if op.g == 0 {
				groups = append(groups, srv.SubRoute(op.name))
			} else {
				groups = append(groups, groups[op.g].SubRoute(op.name))
			}
		case "rs":
			v := op.entry.val()
			switch {
			case op.kind == 'c' && op.g == 0:
				op.names = srv.RouteCall(v)
			case op.kind == 'c':
				op.names = groups[op.g].RouteCall(v)
			case op.g == 0:
				op.names = srv.RoutePush(v)
			default:
				op.names = groups[op.g].RoutePush(v)
			}
		case "rf":
			v := op.entry.val()
			switch {
			case op.kind == 'c' && op.g == 0:
				op.names = []string{srv.RouteCallFunc(v)}
			case op.kind == 'c':
				op.names = []string{groups[op.g].RouteCallFunc(v)}
			case op.g == 0:
				op.names = []string{srv.RoutePushFunc(v)}
			default:
				op.names = []string{groups[op.g].RoutePushFunc(v)}
			}
		case "u":
			uid := op.hid
			unknownSet[op.kind][uid] = op.g
			if op.kind == 'c' {
				fn := func(c erpc.UnknownCallCtx) (interface{}, *erpc.Status) {
					idx, err := strconv.Atoi(strings.TrimSpace(string(c.InputBodyBytes())))
					if err != nil {
						idx = -2
					}
					return c10rec(uid, &idx), nil
				}
				if op.g == 0 {
					srv.SetUnknownCall(fn)
				} else {
					groups[op.g].ToRouter().SetUnknownCall(fn)
				}
			} else {
				fn := func(c erpc.UnknownPushCtx) *erpc.Status {
					idx, err := strconv.Atoi(strings.TrimSpace(string(c.InputBodyBytes())))
					if err != nil {
						idx = -2
					}
					c10rec(uid, &idx)
					return nil
				}
				if op.g == 0 {
					srv.SetUnknownPush(fn)
				} else {
					groups[op.g].ToRouter().SetUnknownPush(fn)
				}
			}
		}
		if op.typ == "rs" || op.typ == "rf" {
			hs := make([]string, len(op.names))
			for j, n := range op.names {
				hs[j] = c10hex(n)
			}
			if len(hs) == 0 {
				say("R -")
			} else {
				say("R %s", strings.Join(hs, ","))
			}
		}
	}

	// requests over a real in-memory connection
	cli := erpc.NewPeer(erpc.PeerConfig{})
	defer cli.Close()
	l := connect(cli, srv, "")
	if !l.StA.OK() || !l.StB.OK() {
		say("X connect failed: %v %v", l.StA, l.StB)
		return
	}
	codes := make([]int, len(probes))
	replies := make([]int, len(probes))
	for i, p := range probes {
		if p.kind == 'c' {
			r := -1
			st := l.A.Call(p.name, i, &r).Status()
			codes[i] = int(st.Code())
			replies[i] = r
		} else {
			if st := l.A.Push(p.name, i); !st.OK() {
				say("X push write failed: %v", st)
				return
			}
		}
	}
	// a final round trip: the server's reader has taken every earlier frame (frames are read in
	// order and each handler goroutine is accounted for before the next read) ...
	sentinel := -1
	l.A.Call("/c10-sentinel-\x01", -1, &sentinel)
	// ... and closing the server-side session waits for all handler goroutines.
	l.B.Close()
	l.A.Close()

	c10mu.Lock()
	log := append([][2]int(nil), c10log...)
	c10mu.Unlock()
	ran := make([][]int, len(probes))
	for _, e := range log {
		if e[0] >= 0 && e[0] < len(probes) {
			ran[e[0]] = append(ran[e[0]], e[1])
		} else if e[0] != -1 {
			say("V recorded-probe-index|c10:bad-probe-index|handler %d ran with argument %d", e[1], e[0])
		}
	}
	obs := make([]string, len(probes))
	for i, p := range probes {
		sort.Ints(ran[i])
		hs := "-"
		if len(ran[i]) > 0 {
			ss := make([]string, len(ran[i]))
			for j, h := range ran[i] {
				ss[j] = strconv.Itoa(h)
			}
			hs = strings.Join(ss, "+")
		}
		if p.kind == 'c' {
			obs[i] = fmt.Sprintf("c%d:%s", codes[i], hs)
		} else {
			obs[i] = "p-:" + hs
		}
	}

	// ---- the property's own oracle, on the real observations only ----
	viol := func(oracle, sig, format string, a ...interface{}) {
		say("V %s|%s|%s", oracle, sig, strings.ReplaceAll(fmt.Sprintf(format, a...), "\n", " "))
	}
	owner := map[byte]map[string]int{'c': {}, 'p': {}} // returned name -> hid, per namespace
	for i, op := range ops {
		if op.typ != "rs" && op.typ != "rf" {
			continue
		}
		if len(op.names) != len(op.hidList) {
			viol("one-name-per-handler", "c10:reg-returns-count", "op %d returned %d names for %d handlers", i, len(op.names), len(op.hidList))
			continue
		}
		for j, n := range op.names {
			if _, dup := owner[op.kind][n]; dup {
				viol("no-silent-sharing", "c10:silent-name-sharing", "op %d returned %q which an earlier registration already returned", i, n)
			}
			owner[op.kind][n] = op.hidList[j]
		}
	}
	isUnknown := func(k byte, h int) bool { _, ok := unknownSet[k][h]; return ok }
	for i, p := range probes {
		r := ran[i]
		h, registered := owner[p.kind][p.name]
		switch {
		case registered:
			say("C probe:registered")
			if len(r) != 1 || r[0] != h {
				viol("returned-name-dispatches-to-its-handler", "c10:returned-name-not-dispatched", "%c %q was returned for handler %d but ran %v", p.kind, p.name, h, r)
			}
			if p.kind == 'c' && codes[i] != 0 {
				viol("returned-name-dispatches-to-its-handler", "c10:registered-call-status", "call %q -> code %d", p.name, codes[i])
			}
		case p.name == "":
			say("C probe:empty-name")
			if len(r) != 0 {
				viol("unregistered-name-runs-no-registered-handler", "c10:empty-name-invoked", "empty name ran %v", r)
			}
		default:
			for _, x := range r {
				if !isUnknown(p.kind, x) {
					viol("unregistered-name-runs-no-registered-handler", "c10:unregistered-name-invoked-handler", "%c %q (never returned by a registration) ran handler %d", p.kind, p.name, x)
				}
			}
			if len(unknownSet[p.kind]) > 0 {
				say("C probe:unregistered-unknown-set")
				if len(r) != 1 || !isUnknown(p.kind, r[0]) {
					viaSub := true
					for _, g := range unknownSet[p.kind] {
						if g == 0 {
							viaSub = false
						}
					}
					if viaSub {
						viol("unknown-handler-reached", "c10:unknown-set-via-subrouter-ignored", "%c %q: an unknown handler was set through SubRouter.ToRouter() only; ran %v code %d", p.kind, p.name, r, codes[i])
					} else {
						viol("unknown-handler-reached", "c10:unknown-not-reached", "%c %q: unknown handler set, ran %v code %d", p.kind, p.name, r, codes[i])
					}
				}
			} else {
				say("C probe:unregistered-notfound")
				if len(r) != 0 {
					viol("not-found-runs-nothing", "c10:notfound-invoked", "%c %q ran %v", p.kind, p.name, r)
				}
				if p.kind == 'c' && codes[i] != 404 {
					viol("not-found-status", "c10:notfound-status", "call %q -> code %d, want 404", p.name, codes[i])
				}
			}
		}
		if p.kind == 'c' && codes[i] == 0 && (len(r) != 1 || replies[i] != r[0]) {
			viol("reply-comes-from-the-handler-that-ran", "c10:reply-from-other-handler", "call %q replied %d, ran %v", p.name, replies[i], r)
		}
	}
	say("P %s", strings.Join(obs, ","))
}
