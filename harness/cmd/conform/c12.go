package main

// C12 — transfer-filter pipes invert exactly; the integrity (md5) filter detects change.
//
// Case kinds (model side: lean/Teleport/Drv/C12.lean):
//   xmd5       crypto/md5 versus the Lean MD5 (Model/Md5) on one payload
//   xpipe      real XferPipe.Append / Range / OnPack / OnUnpack versus Xfer.appendSt / onPack / onUnpack
//   xcorrupt   single-byte corruptions of a packed payload (all positions or a sample)
//   xunpack    OnUnpack of arbitrary bytes
//   xappend    Append on a non-empty pipe (unknown ids, overflow), AppendFrom, Range, Reset
//   xreg/xget  Reg of a duplicate id / name; Get / GetByName
//   xframe     rawProto.Unpack of hand-built frames (unregistered ids, corrupted md5 frames, valid frames)
//   xframepack rawProto.Pack of messages whose pipe contains md5 (+ receiver-learns-pipe oracle)
//   xgzip      the property's own round-trip oracle on the real gzip filter (a test, not a model comparison)
//   xcall      a real in-process call; the pipe of the reply frame is read from the wire

import (
	"bytes"
	stdgzip "compress/gzip"
	stdmd5 "crypto/md5"
	"encoding/binary"
	"encoding/hex"
	"fmt"
	"hash/fnv"
	"io"
	"strconv"
	"strings"
	"sync"
	"time"

	erpc "github.com/henrylee2cn/erpc/v6"
	"github.com/henrylee2cn/erpc/v6/socket"
	"github.com/henrylee2cn/erpc/v6/xfer"
	xgzip "github.com/henrylee2cn/erpc/v6/xfer/gzip"
	xmd5 "github.com/henrylee2cn/erpc/v6/xfer/md5"

	"verif/harness/internal/hx"
)

func init() {
	props["c12"] = &Prop{Setup: c12Setup, Gen: c12Gen, Run: c12RunSafe, Finish: c12Finish}
}

const c12Md5ID = 'm'

var c12GzipIDs = []byte{'g', 0xC0, 0xC1, 0xC2, 0xC3, 0xC4}

// c12Names mirrors entries12 of Drv/C12.lean.
var c12Names = map[byte]string{1: "vrev", 2: "vxor", 3: "vlen", 'm': "md5", 'g': "gzip-5",
	0xC0: "gzip-huff", 0xC1: "gzip-default", 0xC2: "gzip-0", 0xC3: "gzip-1", 0xC4: "gzip-9"}

var (
	c12Srv, c12Cli erpc.Peer
	c12Applied     struct {
		sync.Mutex
		ids []byte
		set bool
	}
)

func c12Setup() {
	erpc.SetLoggerLevel("OFF")
	regTestFilters()
	xmd5.Reg(c12Md5ID, "md5")
	xgzip.Reg('g', "gzip-5", 5)
	xgzip.Reg(0xC0, "gzip-huff", stdgzip.HuffmanOnly)
	xgzip.Reg(0xC1, "gzip-default", stdgzip.DefaultCompression)
	xgzip.Reg(0xC2, "gzip-0", stdgzip.NoCompression)
	xgzip.Reg(0xC3, "gzip-1", stdgzip.BestSpeed)
	xgzip.Reg(0xC4, "gzip-9", stdgzip.BestCompression)
	c12Srv = erpc.NewPeer(erpc.PeerConfig{}, &c12Plugin{})
	c12Srv.RouteCall(new(c12Svc))
	c12Cli = erpc.NewPeer(erpc.PeerConfig{})
}

func c12Finish(out *hx.Out) {
	if c12Srv != nil {
		c12Srv.Close()
		c12Cli.Close()
	}
}

// ---- e2e service -------------------------------------------------------------------------------

type c12Svc struct{ erpc.CallCtx }

type C12Arg struct {
	Post []string // hex id lists, one AddXferPipe call each
	N    int
}

func (s *c12Svc) Echo(arg *C12Arg) (int, *erpc.Status) {
	for _, h := range arg.Post {
		s.AddXferPipe(hx.UnHex(h)...)
	}
	return arg.N + 1, nil
}

// c12Plugin adds filters before handleCall runs (meta key c12pre) and records the pipe that is
// actually applied to the reply just before it is written.
type c12Plugin struct{}

func (*c12Plugin) Name() string { return "c12" }

func (*c12Plugin) PostReadCallHeader(ctx erpc.ReadCtx) *erpc.Status {
	v := string(ctx.PeekMeta("c12pre"))
	if v == "" || v == "-" {
		return nil
	}
	cc, ok := ctx.(erpc.CallCtx)
	if !ok {
		return nil
	}
	for _, h := range strings.Split(v, ",") {
		cc.AddXferPipe(hx.UnHex(h)...)
	}
	return nil
}

func (*c12Plugin) PreWriteReply(ctx erpc.WriteCtx) *erpc.Status {
	c12Applied.Lock()
	c12Applied.ids = ctx.Output().XferPipe().IDs()
	c12Applied.set = true
	c12Applied.Unlock()
	return nil
}

// ---- helpers -----------------------------------------------------------------------------------

func c12Digest(b []byte) string {
	if len(b) <= 48 {
		return hx.Hex(b)
	}
	h := fnv.New64a()
	h.Write(b)
	return fmt.Sprintf("#%d:%016x", len(b), h.Sum64())
}

func c12Payload(spec string) []byte {
	p := strings.Split(spec, ":")
	switch {
	case len(p) == 2 && p[0] == "hex":
		return hx.UnHex(p[1])
	case len(p) == 3 && p[0] == "pat":
		pat := hx.UnHex(p[1])
		n, _ := strconv.Atoi(p[2])
		o := make([]byte, n)
		for i := range o {
			o[i] = pat[i%len(pat)]
		}
		return o
	case len(p) == 3 && p[0] == "lcg":
		sd, _ := strconv.ParseUint(p[1], 10, 32)
		n, _ := strconv.Atoi(p[2])
		s := uint32(sd)
		o := make([]byte, n)
		for i := range o {
			s = s*1103515245 + 12345
			o[i] = byte(s >> 16)
		}
		return o
	}
	panic("bad payload spec " + spec)
}

func c12Clone(b []byte) []byte {
	o := make([]byte, len(b))
	copy(o, b)
	return o
}

func c12IsGzip(id byte) bool { return bytes.IndexByte(c12GzipIDs, id) >= 0 }

func c12Registered(id byte) bool { _, ok := c12Names[id]; return ok }

func c12ErrKind(err error) string {
	switch {
	case err == nil:
		return "ok"
	case err == xfer.ErrXferPipeTooLong:
		return "err:long"
	default:
		return "err:unknown"
	}
}

// c12GzTable replays the pack direction filter by filter on the real filters and records what
// every gzip stage produced (key = id ++ plain, value = compressed): the model cannot compute gzip.
func c12GzTable(ids []byte, x []byte) string {
	var kv [][2][]byte
	data := c12Clone(x)
	for i := len(ids) - 1; i >= 0; i-- {
		f, err := xfer.Get(ids[i])
		if err != nil {
			return "-"
		}
		in := c12Clone(data)
		out, err := f.OnPack(c12Clone(data))
		if err != nil {
			return "-"
		}
		out = c12Clone(out)
		if c12IsGzip(ids[i]) {
			kv = append(kv, [2][]byte{append([]byte{ids[i]}, in...), out})
		}
		data = out
	}
	return hx.KVs(kv)
}

func c12HasGzip(ids []byte) bool {
	for _, i := range ids {
		if c12IsGzip(i) {
			return true
		}
	}
	return false
}

func c12Range(p *xfer.XferPipe, stop int) []byte {
	var v []byte
	p.Range(func(idx int, f xfer.XferFilter) bool {
		v = append(v, f.ID())
		return idx != stop
	})
	return v
}

// safely runs fn, mapping a panic to an error
func c12Safe(fn func() ([]byte, error)) (b []byte, err error, panicked bool) {
	defer func() {
		if e := recover(); e != nil {
			err = fmt.Errorf("panic: %v", e)
			panicked = true
		}
	}()
	b, err = fn()
	return
}

// ---- generation --------------------------------------------------------------------------------

var c12Base = []byte{1, 2, 3, c12Md5ID}

func c12GenPipe(r *hx.R, gz bool) []byte {
	var n int
	switch k := r.Intn(20); {
	case k == 0:
		n = 0
	case k < 4:
		n = 1
	case k < 8:
		n = 2
	case k < 11:
		n = 3
	case k < 15:
		n = 4 + r.Intn(5)
	case k < 17:
		n = 9 + r.Intn(40)
	case k < 19:
		n = 200 + r.Intn(56)
	default:
		n = 255
	}
	if gz && n > 12 {
		n = 1 + r.Intn(6)
	}
	p := make([]byte, n)
	md5Heavy := r.Intn(3) == 0
	for i := range p {
		p[i] = c12Base[r.Intn(len(c12Base))]
		if md5Heavy && r.Intn(2) == 0 {
			p[i] = c12Md5ID
		}
	}
	if gz && n > 0 {
		for k := 1 + r.Intn(2); k > 0; k-- {
			p[r.Intn(n)] = c12GzipIDs[r.Intn(len(c12GzipIDs))]
		}
	}
	return p
}

func c12GenPayload(r *hx.R, max int) string {
	switch k := r.Intn(16); {
	case k == 0:
		return "hex:-"
	case k == 1:
		return "hex:" + hx.Hex(r.Bytes(1, 0))
	case k < 5:
		return "hex:" + hx.Hex(r.AnyBytes(2+r.Intn(40)))
	case k < 7: // around the md5 length and block boundaries
		return fmt.Sprintf("lcg:%d:%d", r.Intn(1<<30), r.Pick(15, 16, 17, 55, 56, 57, 63, 64, 65, 119, 120, 128))
	case k < 10: // highly compressible
		n := r.Pick(100, 1000, 4096, max)
		return fmt.Sprintf("pat:%s:%d", hx.Hex(r.Bytes(1+r.Intn(3), 0)), n)
	case k < 14: // incompressible
		n := r.Pick(100, 1000, 4096, 1+r.Intn(max))
		return fmt.Sprintf("lcg:%d:%d", r.Intn(1<<30), n)
	default: // large
		if r.Intn(2) == 0 {
			return fmt.Sprintf("lcg:%d:%d", r.Intn(1<<30), max)
		}
		return fmt.Sprintf("pat:%s:%d", hx.Hex(r.AnyBytes(1+r.Intn(7))), max)
	}
}

func c12Unregistered(r *hx.R) byte {
	for {
		b := byte(r.Intn(256))
		if !c12Registered(b) {
			return b
		}
	}
}

func c12IdLists(r *hx.R, n int, bad bool) string {
	if n == 0 {
		return "-"
	}
	var parts []string
	for i := 0; i < n; i++ {
		k := 1 + r.Intn(3)
		ids := make([]byte, k)
		for j := range ids {
			ids[j] = c12Base[r.Intn(len(c12Base))]
			if r.Intn(6) == 0 {
				ids[j] = c12GzipIDs[r.Intn(len(c12GzipIDs))]
			}
		}
		if bad && r.Intn(3) == 0 {
			ids[r.Intn(k)] = c12Unregistered(r)
		}
		parts = append(parts, hx.Hex(ids))
	}
	return strings.Join(parts, ",")
}

func c12Gen(r *hx.R, tier string, out *hx.Out) []string {
	scale, big, bigEvery, cbig := 1, 64<<10, 3, 16<<10
	if tier == "thorough" {
		scale, big, bigEvery, cbig = 6, 1<<20, 12, 64<<10
	}
	var ls []string
	add := func(f string, a ...interface{}) { ls = append(ls, fmt.Sprintf(f, a...)) }

	// (0) MD5 itself: RFC 1321 vectors, every length 0..130, block boundaries, large
	for _, s := range []string{"", "a", "abc", "message digest", "abcdefghijklmnopqrstuvwxyz",
		"ABCDEFGHIJKLMNOPQRSTUVWXYZabcdefghijklmnopqrstuvwxyz0123456789",
		"12345678901234567890123456789012345678901234567890123456789012345678901234567890"} {
		add("xmd5 pl=hex:%s", hx.Hex([]byte(s)))
	}
	for n := 0; n <= 130; n++ {
		add("xmd5 pl=lcg:%d:%d", r.Intn(1<<30), n)
	}
	for i := 0; i < 20*scale; i++ {
		add("xmd5 pl=%s", c12GenPayload(r, big))
	}

	// fixed boundary cases of the pipe length and of the reply pipe
	for _, n := range []int{254, 255, 256, 257} {
		add("xpipe pipe=%s pl=hex:010203 stop=999 gz=-", hx.Hex(bytes.Repeat([]byte{1, 2, 3, c12Md5ID}, 70)[:n]))
	}
	add("xcall req=%s pre=- post=- n=1", hx.Hex(bytes.Repeat([]byte{1, c12Md5ID, 2}, 85)))
	add("xcall req=%s pre=- post=02 n=2", hx.Hex(bytes.Repeat([]byte{1}, 254)))
	add("xcall req=%s pre=- post=02 n=3", hx.Hex(bytes.Repeat([]byte{1}, 255)))
	add("xcall req=%s pre=- post=0203 n=4", hx.Hex(bytes.Repeat([]byte{1}, 254)))
	add("xcall req=%s pre=01 post=- n=5", hx.Hex(bytes.Repeat([]byte{3}, 255)))

	n := 4000 * scale
	for i := 0; i < n; i++ {
		c12GenOne(r, add, &ls, big, bigEvery, cbig)
	}
	return ls
}

// c12GenOne appends one generated case; a panic of the real code used while preparing a case
// (packing a frame, computing a gzip table) drops that case — the fixed cases and the other kinds
// still run and report.
func c12GenOne(r *hx.R, add func(string, ...interface{}), lsp *[]string, big, bigEvery, cbig int) {
	defer func() { recover() }()
	{
		switch k := r.Intn(100); {
		case k < 34: // (a) pipes
			gz := r.Intn(5) == 0
			ids := c12GenPipe(r, gz)
			max := 4096
			if len(ids) <= 8 && r.Intn(bigEvery) == 0 {
				max = big
			}
			if gz {
				max = 1500
			}
			pl := c12GenPayload(r, max)
			switch r.Intn(25) {
			case 0:
				ids = append(ids, bytes.Repeat([]byte{2}, 256-len(ids))...) // one too many
			case 1:
				if len(ids) > 0 {
					ids[r.Intn(len(ids))] = c12Unregistered(r)
				}
			}
			stop := 999
			if r.Intn(3) == 0 {
				stop = r.Intn(len(ids) + 2)
			}
			tbl := "-"
			if c12HasGzip(ids) {
				tbl = c12GzTable(ids, c12Payload(pl))
			}
			add("xpipe pipe=%s pl=%s stop=%d gz=%s", hx.Hex(ids), pl, stop, tbl)
		case k < 46: // (b) corruption sweep
			ids := c12GenPipe(r, false)
			if len(ids) > 6 {
				ids = ids[:1+r.Intn(6)]
			}
			if r.Intn(3) != 0 { // md5 outer-most on the wire: the property's promise
				ids = append([]byte{c12Md5ID}, ids...)
			}
			masks := []byte{1 << uint(r.Intn(8)), 0xff, byte(1 + r.Intn(255))}
			if r.Intn(4) != 0 { // short: every position
				pl := "hex:" + hx.Hex(r.AnyBytes(r.Intn(24)))
				add("xcorrupt pipe=%s pl=%s all=1 pos=- masks=%s", hx.Hex(ids), pl, hx.Hex(masks))
			} else { // long: sampled positions, always including both ends and the checksum region
				pl := c12GenPayload(r, cbig)
				plen := c12PackedLen(ids, c12Payload(pl))
				if plen <= 0 {
					return
				}
				pos := []string{"0", strconv.Itoa(plen - 1), strconv.Itoa(plen - 1 - r.Intn(min(16, plen)))}
				for j := 0; j < 9; j++ {
					pos = append(pos, strconv.Itoa(r.Intn(plen)))
				}
				add("xcorrupt pipe=%s pl=%s all=0 pos=%s masks=%s", hx.Hex(ids), pl, strings.Join(pos, ","), hx.Hex(masks[:2]))
			}
		case k < 54: // arbitrary bytes into OnUnpack
			ids := c12GenPipe(r, false)
			if len(ids) > 5 {
				ids = ids[:r.Intn(6)]
			}
			var d []byte
			switch r.Intn(4) {
			case 0:
				d = r.Bytes(r.Intn(16), 0) // shorter than a digest
			case 1:
				d = r.Bytes(r.Pick(15, 16, 17, 32), 0)
			case 2: // correct digest of a prefix, then possibly damaged
				x := r.AnyBytes(r.Intn(20))
				s := stdmd5.Sum(x)
				d = append(c12Clone(x), s[:]...)
				if r.Intn(2) == 0 {
					d[r.Intn(len(d))] ^= byte(1 + r.Intn(255))
				}
			default:
				d = r.AnyBytes(r.Intn(60))
			}
			add("xunpack pipe=%s data=%s", hx.Hex(ids), hx.Hex(d))
		case k < 66: // Append as coded
			cur := c12GenPipe(r, false)
			var ids []byte
			switch r.Intn(5) {
			case 0: // crosses the 255 limit
				ids = bytes.Repeat([]byte{byte(1 + r.Intn(3))}, 256-len(cur)+r.Intn(3))
			case 1: // exactly fills
				ids = bytes.Repeat([]byte{c12Md5ID}, 255-len(cur))
			default:
				ids = c12GenPipe(r, r.Intn(4) == 0)
				if len(ids)+len(cur) > 255 && r.Intn(2) == 0 {
					ids = ids[:255-len(cur)]
				}
			}
			if r.Intn(4) == 0 && len(ids) > 0 {
				ids[r.Intn(len(ids))] = c12Unregistered(r)
			}
			from := c12GenPipe(r, false)
			if len(from) > 40 && r.Intn(4) != 0 {
				from = from[:r.Intn(6)]
			}
			add("xappend cur=%s ids=%s from=%s stop=%d", hx.Hex(cur), hx.Hex(ids), hx.Hex(from), r.Pick(999, 0, 1, r.Intn(300)))
		case k < 70: // registry
			id := byte(r.Intn(256))
			if r.Intn(2) == 0 {
				id = []byte{1, 2, 3, 'm', 'g', 0xC0, 0xC4}[r.Intn(7)]
			}
			name := []string{"vrev", "vxor", "vlen", "md5", "gzip-5", "gzip-9", "nosuch", "", "MD5", "gzip"}[r.Intn(10)]
			if r.Intn(2) == 0 {
				add("xget id=%d name=%s", id, hx.Hex([]byte(name)))
			} else {
				if !c12Registered(id) {
					nm := ""
					for _, v := range c12Names {
						if v == name {
							nm = v
						}
					}
					if nm == "" { // would really register: keep the registry fixed
						name = "md5"
					}
				}
				add("xreg id=%d name=%s", id, hx.Hex([]byte(name)))
			}
		case k < 82: // (c) frames
			*lsp = append(*lsp, c12GenFrame(r))
		case k < 90: // frames packed by the real code with md5 in the pipe
			m := genMsg(r, true)
			m.Pipe = c12GenPipe(r, false)
			if len(m.Pipe) > 12 && r.Intn(4) != 0 {
				m.Pipe = m.Pipe[:r.Intn(8)]
			}
			if len(m.Body) > 600 {
				m.Body = m.Body[:600]
			}
			add("xframepack %s limit=%d", m.Line(), 1<<30)
		case k < 93: // (d) gzip
			pl := c12GenPayload(r, big)
			add("xgzip id=%d pl=%s", c12GzipIDs[r.Intn(len(c12GzipIDs))], pl)
		default: // (e) end to end
			req := c12GenPipe(r, r.Intn(4) == 0)
			pre, post := "-", "-"
			if r.Intn(4) == 0 {
				pre = c12IdLists(r, 1+r.Intn(2), r.Intn(2) == 0)
			}
			if r.Intn(3) != 0 {
				post = c12IdLists(r, 1+r.Intn(3), r.Intn(2) == 0)
			}
			if len(req) > 240 { // stay inside the limit here; the boundary cases above cross it
				req = req[:240]
			}
			add("xcall req=%s pre=%s post=%s n=%d", hx.Hex(req), pre, post, r.Intn(1000))
		}
	}
}

func c12PackedLen(ids, x []byte) int {
	p := xfer.NewXferPipe()
	if p.Append(ids...) != nil {
		return -1
	}
	y, err := p.OnPack(c12Clone(x))
	if err != nil {
		return -1
	}
	return len(y)
}

// c12RealFrame packs m with the real rawProto.
func c12RealFrame(m *M) []byte {
	msg, err := m.toMessage()
	if err != nil {
		return nil
	}
	socket.SetMessageSizeLimit(1 << 30)
	defer socket.SetMessageSizeLimit(0)
	cr := newChunkReader(nil, 0, 0)
	if socket.RawProtoFunc(cr).Pack(msg) != nil {
		return nil
	}
	return c12Clone(cr.written.Bytes())
}

func c12GenFrame(r *hx.R) string {
	m := genMsg(r, true)
	if len(m.Body) > 120 {
		m.Body = m.Body[:120]
	}
	m.Pipe = nil
	kind := r.Intn(6)
	var b []byte
	switch kind {
	case 0, 1: // hand-built: pipe of unregistered ids in front of the *unfiltered* payload
		f0 := c12RealFrame(m)
		k := 1 + r.Intn(3)
		ids := make([]byte, k)
		for i := range ids {
			ids[i] = c12Unregistered(r)
		}
		b = make([]byte, 4, len(f0)+k)
		binary.BigEndian.PutUint32(b, uint32(len(f0)+k))
		b = append(b, byte(k))
		b = append(b, ids...)
		b = append(b, f0[5:]...)
	case 2: // a registered pipe with one id overwritten by an unregistered one
		m.Pipe = c12GenPipe(r, false)
		if len(m.Pipe) == 0 || len(m.Pipe) > 10 {
			m.Pipe = []byte{c12Md5ID, 1}
		}
		b = c12RealFrame(m)
		b[5+r.Intn(len(m.Pipe))] = c12Unregistered(r)
	case 3, 4: // md5 outer-most, one byte of the filtered payload damaged
		m.Pipe = append([]byte{c12Md5ID}, c12GenPipe(r, false)...)
		if len(m.Pipe) > 6 {
			m.Pipe = m.Pipe[:6]
		}
		b = c12RealFrame(m)
		off := 5 + len(m.Pipe)
		b[off+r.Intn(len(b)-off)] ^= byte(1 + r.Intn(255))
	default: // valid
		m.Pipe = c12GenPipe(r, false)
		if len(m.Pipe) > 20 {
			m.Pipe = m.Pipe[:20]
		}
		b = c12RealFrame(m)
	}
	return fmt.Sprintf("xframe k=%d limit=%d bytes=%s", kind, 1<<30, hx.Hex(b))
}

// ---- running on the real code ------------------------------------------------------------------

// c12RunSafe turns a panic that escapes the real code (or the runner) into an observation and an
// oracle failure instead of a harness crash.
func c12RunSafe(line string, out *hx.Out) (obs string, nt bool) {
	defer func() {
		if e := recover(); e != nil {
			s := fmt.Sprint(e)
			if len(s) > 200 {
				s = s[:200]
			}
			kind, _ := hx.Fields(line)
			out.Violate(line, "no-panic", "panic while running the case: "+s, "c12:panic:"+kind)
			obs, nt = "panic", true
		}
	}()
	return c12Run(line, out)
}

func c12Run(line string, out *hx.Out) (string, bool) {
	kind, f := hx.Fields(line)
	out.Count(kind)
	switch kind {
	case "xmd5":
		x := c12Payload(f["pl"])
		s := stdmd5.Sum(x)
		out.Count(fmt.Sprintf("xmd5:blocks<=%d", c12Bucket(len(x)/64)))
		return "md5=" + hex.EncodeToString(s[:]), true

	case "xpipe":
		ids, x := hx.UnHex(f["pipe"]), c12Payload(f["pl"])
		stop, _ := strconv.Atoi(f["stop"])
		p := xfer.NewXferPipe()
		err := p.Append(ids...)
		head := fmt.Sprintf("append=%s len=%d range=%s", c12ErrKind(err), p.Len(), c12Digest(c12Range(p, stop)))
		out.Count(fmt.Sprintf("xpipe:len<=%d", c12Bucket(len(ids))))
		out.Count(fmt.Sprintf("xpipe:payload<=%d", c12Bucket(len(x))))
		if c12HasGzip(ids) {
			out.Count("xpipe:with-gzip")
		}
		// the property's own oracle for Append: registered ids up to the documented length are
		// accepted, anything else is refused
		allReg := true
		for _, i := range ids {
			allReg = allReg && c12Registered(i)
		}
		switch {
		case !allReg && err == nil:
			out.Violate(line, "unregistered-refused", "Append accepted an unregistered id", "c12:unregistered-append-accepted")
		case allReg && (len(ids) <= 255) != (err == nil):
			out.Violate(line, "pipe-length", fmt.Sprintf("Append of %d registered ids returned %v", len(ids), err), "c12:pipe-len")
		}
		if err != nil {
			out.Count("xpipe:append-" + c12ErrKind(err))
			return head, true
		}
		y, err, _ := c12Safe(func() ([]byte, error) { return p.OnPack(c12Clone(x)) })
		if err != nil {
			out.Violate(line, "pack-succeeds", err.Error(), "c12:pack-failed")
			return head + " pack=err", true
		}
		y = c12Clone(y)
		// the receiver builds its own pipe from the ids it read
		q := xfer.NewXferPipe()
		if e := q.Append(p.IDs()...); e != nil {
			out.Violate(line, "receiver-append", e.Error(), "c12:receiver-append")
		}
		x2, err, _ := c12Safe(func() ([]byte, error) { return q.OnUnpack(c12Clone(y)) })
		if err != nil {
			out.Violate(line, "pipe-roundtrip", "unpack of packed payload failed: "+err.Error(), "c12:pipe-roundtrip")
			return head + fmt.Sprintf(" pack=%s unpack=err", c12Digest(y)), true
		}
		same := 0
		if bytes.Equal(x2, x) {
			same = 1
		} else {
			out.Violate(line, "pipe-roundtrip", fmt.Sprintf("unpack(pack(x)) != x: got %s want %s", c12Digest(x2), c12Digest(x)), "c12:pipe-roundtrip")
		}
		return head + fmt.Sprintf(" pack=%s unpack=%s same=%d", c12Digest(y), c12Digest(x2), same), len(ids) >= 2

	case "xcorrupt":
		ids, x := hx.UnHex(f["pipe"]), c12Payload(f["pl"])
		masks := hx.UnHex(f["masks"])
		p := xfer.NewXferPipe()
		if p.Append(ids...) != nil {
			return "pack=err", false
		}
		y, err := p.OnPack(c12Clone(x))
		if err != nil {
			return "pack=err", false
		}
		y = c12Clone(y)
		var pos []int
		if f["all"] == "1" {
			for i := range y {
				pos = append(pos, i)
			}
		} else if f["pos"] != "-" {
			for _, s := range strings.Split(f["pos"], ",") {
				v, _ := strconv.Atoi(s)
				pos = append(pos, v)
			}
		}
		md5Outer := len(ids) > 0 && ids[0] == c12Md5ID
		var outs []byte
		rej := 0
		for _, i := range pos {
			for _, mk := range masks {
				d := c12Clone(y)
				if i < len(d) {
					d[i] ^= mk
				}
				x2, err, pan := c12Safe(func() ([]byte, error) { return p.OnUnpack(d) })
				c := byte('r')
				switch {
				case pan:
					c = 'p'
					out.Violate(line, "no-panic", fmt.Sprintf("pos=%d mask=%02x: %v", i, mk, err), "c12:unpack-panic")
				case err != nil:
					rej++
				case bytes.Equal(x2, x):
					c = 's'
				default:
					c = 'a'
				}
				if md5Outer && c != 'r' && i < len(y) && mk != 0 {
					out.Violate(line, "md5-detects-change", fmt.Sprintf("corruption at %d mask %02x of %d bytes accepted (%c)", i, mk, len(y), c), "c12:md5-corruption-accepted")
				}
				outs = append(outs, c)
			}
		}
		if md5Outer {
			out.Count("xcorrupt:md5-outer")
		} else {
			out.Count("xcorrupt:other-outer")
		}
		out.Count(fmt.Sprintf("xcorrupt:alterations<=%d", c12Bucket(len(outs))))
		return fmt.Sprintf("pack=%s n=%d rej=%d out=%s", c12Digest(y), len(outs), rej, outs), len(outs) > 0

	case "xunpack":
		ids, d := hx.UnHex(f["pipe"]), hx.UnHex(f["data"])
		p := xfer.NewXferPipe()
		if p.Append(ids...) != nil {
			return "bad-case", false
		}
		x, err, pan := c12Safe(func() ([]byte, error) { return p.OnUnpack(c12Clone(d)) })
		if pan {
			out.Violate(line, "no-panic", err.Error(), "c12:unpack-panic")
			return "unpack=panic", true
		}
		if err != nil {
			out.Count("xunpack:err")
			return "unpack=err", true
		}
		out.Count("xunpack:ok")
		return "unpack=" + c12Digest(x), true

	case "xappend":
		cur, ids, from := hx.UnHex(f["cur"]), hx.UnHex(f["ids"]), hx.UnHex(f["from"])
		stop, _ := strconv.Atoi(f["stop"])
		p := xfer.NewXferPipe()
		if p.Append(cur...) != nil {
			return "bad-case", false
		}
		err := p.Append(ids...)
		after := p.IDs()
		q := xfer.NewXferPipe()
		q.Append(from...)
		p.AppendFrom(q)
		all := p.IDs()
		wire := append([]byte{byte(p.Len())}, all...)
		if len(wire) > 9 {
			wire = wire[:9]
		}
		vis := c12Range(p, stop)
		p.Reset()
		out.Count("xappend:" + c12ErrKind(err))
		if len(after) > 255 {
			out.Count("xappend:pipe-left-longer-than-255")
			out.Violate(line, "pipe-length", fmt.Sprintf("Append returned %v and left %d filters in the pipe", err, len(after)), "c12:pipe-left-too-long")
		}
		if err != nil && !bytes.Equal(after, cur) {
			out.Violate(line, "append-all-or-nothing", fmt.Sprintf("Append returned %v but changed the pipe from %s to %s", err, c12Digest(cur), c12Digest(after)), "c12:append-not-atomic")
		}
		if len(all) > 255 {
			out.Violate(line, "pipe-length", fmt.Sprintf("AppendFrom left %d filters in the pipe", len(all)), "c12:pipe-left-too-long")
		}
		return fmt.Sprintf("append=%s after=%s len=%d from=%s wire=%s range=%s reset=%d", c12ErrKind(err), c12Digest(after), len(after),
			c12Digest(all), c12Digest(wire), c12Digest(vis), p.Len()), true

	case "xreg":
		id, _ := strconv.Atoi(f["id"])
		name := string(hx.UnHex(f["name"]))
		_, e1 := xfer.Get(byte(id))
		_, e2 := xfer.GetByName(name)
		if e1 != nil && e2 != nil {
			out.Count("xreg:fresh-skipped")
			return "ok", false
		}
		res := "ok"
		func() {
			defer func() {
				if e := recover(); e != nil {
					s := fmt.Sprint(e)
					switch {
					case strings.Contains(s, "filter id"):
						res = "panic:id"
					case strings.Contains(s, "filter name"):
						res = "panic:name"
					default:
						res = "panic:other"
					}
				}
			}()
			xfer.Reg(&tf{byte(id), name, rev, rev})
		}()
		// a refused registration must not replace the filter registered before
		if g, err := xfer.Get(byte(id)); err == nil && g.Name() != c12Names[byte(id)] {
			out.Violate(line, "reg-no-replace", "id now maps to "+g.Name(), "c12:reg-replaced")
		}
		out.Count("xreg:" + res)
		return res, true

	case "xget":
		id, _ := strconv.Atoi(f["id"])
		name := hx.UnHex(f["name"])
		a, b := "none", "none"
		if g, err := xfer.Get(byte(id)); err == nil {
			a = fmt.Sprintf("%d/%s", g.ID(), hx.Hex([]byte(g.Name())))
		}
		if g, err := xfer.GetByName(string(name)); err == nil {
			b = fmt.Sprintf("%d/%s", g.ID(), hx.Hex([]byte(g.Name())))
		}
		return fmt.Sprintf("get=%s byname=%s", a, b), true

	case "xframe":
		limit, _ := strconv.Atoi(f["limit"])
		socket.SetMessageSizeLimit(uint32(limit))
		defer socket.SetMessageSizeLimit(0)
		b := hx.UnHex(f["bytes"])
		rd := newChunkReader(b, 0, 0)
		got, class := unpackOne(socket.RawProtoFunc(rd))
		out.Count("xframe:k" + f["k"] + ":" + class)
		switch f["k"] {
		case "0", "1", "2":
			if class == "ok" {
				out.Violate(line, "unregistered-refused", "a frame naming an unregistered filter was accepted", "c12:unregistered-filter-accepted")
			}
		case "3", "4":
			if class == "ok" {
				out.Violate(line, "md5-detects-change", "a damaged frame with md5 outer-most was accepted", "c12:md5-corruption-accepted")
			}
		}
		if class == "ok" {
			return fmt.Sprintf("ok %s rest=%d", got.Show(), rd.Rest()), true
		}
		return class, true

	case "xframepack":
		limit, _ := strconv.Atoi(f["limit"])
		socket.SetMessageSizeLimit(uint32(limit))
		defer socket.SetMessageSizeLimit(0)
		m := parseM(f)
		msg, err := m.toMessage()
		if err != nil {
			return "err:xfer", true
		}
		cr := newChunkReader(nil, 0, 0)
		if err = socket.RawProtoFunc(cr).Pack(msg); err != nil {
			return packErrKind(err), true
		}
		packed := c12Clone(cr.written.Bytes())
		got, class := unpackOne(socket.RawProtoFunc(newChunkReader(packed, 0, 0)))
		m.Size = uint32(len(packed))
		if class != "ok" {
			out.Violate(line, "receiver-learns-pipe", "unpack of packed message: "+class, "c12:frame-roundtrip")
		} else if !bytes.Equal(got.Pipe, m.Pipe) {
			out.Violate(line, "receiver-learns-pipe", fmt.Sprintf("pipe %x became %x", m.Pipe, got.Pipe), "c12:receiver-pipe")
		} else if d := sameM(m, got, true); d != "" {
			out.Violate(line, "frame-roundtrip", d, "c12:frame-roundtrip")
		}
		return fmt.Sprintf("ok size=%d bytes=%s", msg.Size(), c12Digest(packed)), len(m.Pipe) > 0

	case "xgzip":
		id, _ := strconv.Atoi(f["id"])
		x := c12Payload(f["pl"])
		g, err := xfer.Get(byte(id))
		if err != nil {
			return "bad-case", false
		}
		y, err, _ := c12Safe(func() ([]byte, error) { return g.OnPack(c12Clone(x)) })
		rt := 0
		if err == nil {
			y = c12Clone(y)
			x2, err2, _ := c12Safe(func() ([]byte, error) { return g.OnUnpack(c12Clone(y)) })
			if err2 == nil && bytes.Equal(x2, x) {
				rt = 1
			}
			// the packed form is a gzip stream that compress/gzip itself reads back
			if zr, e := stdgzip.NewReader(bytes.NewReader(y)); e != nil {
				rt = 0
			} else if x3, e := io.ReadAll(zr); e != nil || !bytes.Equal(x3, x) {
				rt = 0
			}
		}
		if rt != 1 {
			out.Violate(line, "gzip-roundtrip", fmt.Sprintf("id=%d len=%d err=%v", id, len(x), err), "c12:gzip-roundtrip")
		}
		e := "err"
		if z, err := g.OnUnpack([]byte{}); err == nil && len(z) == 0 {
			e = "ok"
		}
		out.Count(fmt.Sprintf("xgzip:id=%d", id))
		return fmt.Sprintf("roundtrip=%d emptyunpack=%s", rt, e), true

	case "xcall":
		return c12Call(line, f, out)
	}
	return "bad-kind", false
}

// c12Wait shortens the waits once several calls have timed out (a broken tree must not stall the run).
func c12Wait(d time.Duration) time.Duration {
	if c12Timeouts >= 3 {
		return 100 * time.Millisecond
	}
	return d
}

func c12Bucket(n int) int {
	for _, b := range []int{0, 1, 2, 4, 8, 16, 64, 255, 256, 4096, 65536, 1 << 20} {
		if n <= b {
			return b
		}
	}
	return 1 << 30
}

var c12CallSeq, c12Timeouts int

func c12Call(line string, f map[string]string, out *hx.Out) (string, bool) {
	req := hx.UnHex(f["req"])
	n, _ := strconv.Atoi(f["n"])
	var post []string
	if f["post"] != "-" {
		post = strings.Split(f["post"], ",")
	}
	c12CallSeq++
	l := connect(c12Cli, c12Srv, fmt.Sprintf("c12-%d", c12CallSeq))
	if !l.StA.OK() || !l.StB.OK() {
		return "bad-connect", false
	}
	defer l.A.Close()
	c12Applied.Lock()
	c12Applied.set, c12Applied.ids = false, nil
	c12Applied.Unlock()

	var result int
	ch := make(chan erpc.CallCmd, 1)
	l.A.AsyncCall("/c12_svc/echo", &C12Arg{Post: post, N: n}, &result, ch,
		erpc.WithXferPipe(req...), erpc.WithAddMeta("c12pre", f["pre"]))
	var st *erpc.Status
	delivered := false
	select {
	case cmd := <-ch:
		st = cmd.Status()
		delivered = st.OK() && result == n+1
	case <-time.After(c12Wait(2 * time.Second)):
		c12Timeouts++
	}
	// frames on the wire
	frame := func(b []byte) (plen int, ids []byte, ok bool) {
		if len(b) < 5 || len(b) < 5+int(b[4]) {
			return 0, nil, false
		}
		return int(b[4]), b[5 : 5+int(b[4])], true
	}
	var rb []byte
	waitUntil(c12Wait(time.Second), func() bool {
		rb, _ = l.CB.Sent()
		return len(rb) >= 4 && len(rb) >= int(binary.BigEndian.Uint32(rb))
	})
	qb, _ := l.CA.Sent()
	_, qids, ok1 := frame(qb)
	rplen, rids, ok2 := frame(rb)
	if !ok1 || !ok2 {
		out.Violate(line, "reply-on-wire", fmt.Sprintf("no complete frames captured (req %d bytes, reply %d bytes, status %v)", len(qb), len(rb), st), "c12:no-reply-frame")
		return "no-frames", true
	}
	c12Applied.Lock()
	applied, set := c12Applied.ids, c12Applied.set
	c12Applied.Unlock()
	if !set {
		out.Violate(line, "reply-on-wire", "reply written without the pre-write stage", "c12:no-prewrite")
	}
	out.Count(fmt.Sprintf("xcall:applied<=%d", c12Bucket(len(applied))))
	// oracles of the property itself
	if !bytes.Equal(qids, req) {
		out.Violate(line, "request-pipe-on-wire", fmt.Sprintf("request frame names %x, caller asked for %x", qids, req), "c12:request-pipe-wire")
	}
	if !bytes.Contains(applied, req) || (f["pre"] == "-" && !bytes.HasPrefix(applied, req)) || (f["pre"] == "-" && f["post"] == "-" && !bytes.Equal(applied, req)) {
		out.Violate(line, "reply-uses-callers-pipe", fmt.Sprintf("reply filtered through %x, caller's pipe %x", applied, req), "c12:reply-not-callers-pipe")
	}
	if rplen != len(applied) || !bytes.Equal(rids, applied) {
		sig := "c12:reply-pipe-wire-mismatch"
		if len(applied) > 255 {
			sig = "c12:reply-pipe-overflow"
		}
		out.Violate(line, "receiver-learns-pipe", fmt.Sprintf("reply frame announces %d filter(s) %s but %d were applied (%s); caller got status %v", rplen, c12Digest(rids), len(applied), c12Digest(applied), st), sig)
	} else if !delivered {
		out.Violate(line, "reply-delivered", fmt.Sprintf("status %v result %d want %d", st, result, n+1), "c12:reply-not-delivered")
	}
	if delivered {
		out.Count("xcall:delivered")
	} else {
		out.Count("xcall:not-delivered")
	}
	return fmt.Sprintf("req=%s reply=plen:%d,ids:%s applied=%d", c12Digest(append([]byte{byte(len(req))}, req...)), rplen, c12Digest(rids), len(applied)), true
}
