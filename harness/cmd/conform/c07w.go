package main

// C07, frame-window family (appended after the cases of c07.go; model side: Drv/C07.lean `win`).
//
//	c07win park=<gate> hold=<none|msg|add> frames=<q|w>*
//
// One established connection; the observed session is the peer-1 end. With hold=msg / hold=add the
// first frame is sent by the remote end before anything else and the session's reader is parked with it
// at read.msg (ReadMessage has returned the frame, the post-read status test is pending) or at read.add
// (the test has passed, graceCtxWaitGroup.Add(1) is pending). Then Close() runs to the gate `park`
// (close.cas, close.hubdel, close.ctxwait, close.callwait, close.sock, close.hook; `end`: Close() returns;
// `none`: no Close()) — or, for park=disc.*, the connection is cut and the reader runs to that gate of
// readDisconnected. Then the held reader is released and the remaining frames (q = CALL, w = PUSH) are
// sent by the remote end one at a time, each followed by a wait until the frame has been dispatched
// and its handler entered, or the reader has left the loop. Then Close() is released gate by gate to its
// end, then the reader's disconnect path.
//
// Observation (compared with the model): the session status at every handler dispatch (read.add passed),
// whether the reader is still in the read loop after the frames, the status / notify / hook events, the
// final status, counts and index.
//
// Oracle of the property itself ("after a local close … no new handler starts"): a handler dispatched, or
// entered, while the session status is ActiveClosed / PassiveClosed. sig
// c07:handler-started-on-closed-session when the status was already closed when the reader came to
// dispatch the frame; c07:read-add-window when the frame had passed the post-read test and the status
// became closed while the reader stood between that test and Add(1).

import (
	"fmt"
	"io"
	"strings"
	"sync"
	"sync/atomic"
	"time"

	erpc "github.com/henrylee2cn/erpc/v6"

	"verif/harness/internal/hx"
)

type c07wEnv struct {
	e   *c07Env
	tgt erpc.Session

	mu      sync.Mutex
	hold    string        // armed hold point: "", "msg", "add"
	held    chan struct{} // the reader is parked at the hold point
	free    bool
	msgs    int     // read.msg passed
	pre     []int32 // status when the reader reached read.add
	adds    []int32 // status when the reader went on from read.add to Add(1)
	entries []int32 // status at handler entry
}

var c07wCur atomic.Value // *c07wEnv

type C07wh struct{ erpc.CallCtx }

func (h *C07wh) Echo(arg *int) (int, *erpc.Status) { c07wEnter(h.Session()); return *arg + 1, nil }

type C07wp struct{ erpc.PushCtx }

func (h *C07wp) Note(arg *int) *erpc.Status { c07wEnter(h.Session()); return nil }

func c07wEnter(cs erpc.CtxSession) {
	w, _ := c07wCur.Load().(*c07wEnv)
	if w == nil {
		return
	}
	if s, ok := cs.(erpc.Session); ok && s == w.tgt {
		st := erpc.VerifStatus(s)
		w.mu.Lock()
		w.entries = append(w.entries, st)
		w.mu.Unlock()
	}
}

func init() {
	p := props["c07"]
	g, run, setup := p.Gen, p.Run, p.Setup
	p.Setup = func() {
		setup()
		erpc.VerifSetHooks(&erpc.VerifHooks{
			Gate: func(point string, s erpc.Session) {
				if w, _ := c07wCur.Load().(*c07wEnv); w != nil {
					w.gate(point, s)
				}
				if e, _ := c07Cur.Load().(*c07Env); e != nil {
					e.gate(point, s)
				}
			},
			Event: func(kind string, s erpc.Session, a, b int64) {
				if e, _ := c07Cur.Load().(*c07Env); e != nil {
					e.event(kind, s, a, b)
				}
			},
		})
	}
	p.Gen = func(r *hx.R, tier string, out *hx.Out) []string {
		return append(g(r, tier, out), c07wCases()...)
	}
	p.Run = func(line string, out *hx.Out) (obs string, nontrivial bool) {
		if strings.HasPrefix(line, "c07win ") {
			defer func() {
				if p := recover(); p != nil {
					obs = fmt.Sprintf("panic:%v", p)
				}
			}()
			_, f := hx.Fields(line)
			return c07wRun(line, f["park"], f["hold"], f["frames"], out)
		}
		return run(line, out)
	}
}

var c07wCloseGates = []string{"none", "close.cas", "close.hubdel", "close.ctxwait", "close.callwait", "close.sock", "close.hook", "end"}
var c07wDiscGates = []string{"disc.load", "disc.store", "disc.cancel", "disc.redial", "disc.hook"}
var c07wFrames = []string{"-", "q", "w", "qq", "qw", "wq", "ww"}

// every combination (187 cases, both tiers)
func c07wCases() []string {
	var ls []string
	for _, park := range c07wCloseGates {
		for _, hold := range []string{"none", "msg", "add"} {
			for _, fr := range c07wFrames {
				if hold != "none" && fr == "-" {
					continue
				}
				ls = append(ls, fmt.Sprintf("c07win park=%s hold=%s frames=%s", park, hold, fr))
			}
		}
	}
	for _, park := range c07wDiscGates {
		for _, fr := range c07wFrames {
			ls = append(ls, fmt.Sprintf("c07win park=%s hold=none frames=%s", park, fr))
		}
	}
	return ls
}

func (w *c07wEnv) gate(point string, s erpc.Session) {
	if s != w.tgt {
		return
	}
	park := func(at string) {
		w.mu.Lock()
		var ch chan struct{}
		if w.hold == at && !w.free {
			w.hold = ""
			ch = make(chan struct{})
			w.held = ch
		}
		w.mu.Unlock()
		if ch != nil {
			select {
			case <-ch:
			case <-time.After(8 * time.Second):
			}
		}
	}
	switch point {
	case "read.msg":
		w.mu.Lock()
		w.msgs++
		w.mu.Unlock()
		park("msg")
	case "read.add":
		pre := erpc.VerifStatus(s)
		park("add")
		post := erpc.VerifStatus(s)
		w.mu.Lock()
		w.pre = append(w.pre, pre)
		w.adds = append(w.adds, post)
		w.mu.Unlock()
	}
}

func (w *c07wEnv) isHeld() bool {
	w.mu.Lock()
	defer w.mu.Unlock()
	return w.held != nil
}

func (w *c07wEnv) releaseHeld() {
	w.mu.Lock()
	ch := w.held
	w.held = nil
	w.mu.Unlock()
	if ch != nil {
		close(ch)
	}
}

func (w *c07wEnv) freeAll() {
	w.mu.Lock()
	w.free = true
	ch := w.held
	w.held = nil
	w.mu.Unlock()
	if ch != nil {
		close(ch)
	}
}

func (w *c07wEnv) counts() (adds, entries int, last int32) {
	w.mu.Lock()
	defer w.mu.Unlock()
	last = -1
	if n := len(w.adds); n > 0 {
		last = w.adds[n-1]
	}
	return len(w.adds), len(w.entries), last
}

func c07wClosed(st int32) bool { return st == 3 || st == 5 }

func c07wRun(line, park, hold, frames string, out *hx.Out) (string, bool) {
	if frames == "-" {
		frames = ""
	}
	isDisc := strings.HasPrefix(park, "disc.")
	if (hold != "none" && hold != "msg" && hold != "add") || (hold != "none" && (frames == "" || isDisc)) {
		return "bad-case", false
	}
	e := newC07Env()
	defer e.teardown()
	w := &c07wEnv{e: e}
	var callSM, pushSM string
	for i := 0; i < 2; i++ {
		if cs := e.peers[i].RouteCall(new(C07wh)); len(cs) > 0 {
			callSM = cs[0]
		}
		if ps := e.peers[i].RoutePush(new(C07wp)); len(ps) > 0 {
			pushSM = ps[0]
		}
	}
	if r := e.accept(0, false, -1, false, false); r != "ok" || !e.waitQuiet() {
		return "setup-" + r, false
	}
	tgt := e.sess[1]
	w.tgt = tgt
	e.mu.Lock()
	e.target = tgt
	e.rec = true
	e.mu.Unlock()
	c07wCur.Store(w)
	defer func() {
		w.freeAll()
		c07wCur.Store((*c07wEnv)(nil))
	}()

	note := ""
	bad := func(s string) {
		if note == "" {
			note = s
		}
	}
	send := func(kind byte) {
		arg := 41
		if kind == 'q' {
			var res int
			e.sess[0].AsyncCall(callSM, &arg, &res, make(chan erpc.CallCmd, 1))
		} else {
			e.sess[0].Push(pushSM, &arg)
		}
	}
	inLoop := true // the reader has not been seen in readDisconnected
	seeDisc := func() bool {
		if e.parkedAt('r') != nil {
			inLoop = false
			return true
		}
		return false
	}
	// after a frame was handed to a reader that is in the loop: dispatched and entered, or the loop left
	settleFrame := func(addsBefore int) {
		ok := waitUntil(6*time.Second, func() bool {
			a, en, _ := w.counts()
			return (a > addsBefore && en >= a) || seeDisc()
		})
		if !ok {
			bad("frame-not-settled")
			return
		}
		if a, _, last := w.counts(); a > addsBefore && !(last == 1 || last == 2) {
			// dispatched in a status in which the loop condition ends the loop
			if !waitUntil(6*time.Second, seeDisc) {
				bad("reader-not-in-disconnect")
			}
		}
	}

	// ---- the held frame
	rest := frames
	if hold != "none" {
		w.mu.Lock()
		w.hold = hold
		w.mu.Unlock()
		send(frames[0])
		rest = frames[1:]
		if !waitUntil(6*time.Second, w.isHeld) {
			return "reader-not-held", false
		}
	}

	// ---- Close() to its gate / the disconnect path to its gate
	closerDone := make(chan struct{})
	isDone := func() bool {
		select {
		case <-closerDone:
			return true
		default:
			return false
		}
	}
	cStarted, cEnded := false, false
	stepC := func() string {
		if cEnded {
			return "end"
		}
		if !cStarted {
			cStarted = true
			go func() { tgt.Close(); close(closerDone) }()
		} else if !e.release('c') {
			return "lost"
		}
		var p *c07Park
		if !waitUntil(6*time.Second, func() bool { p = e.parkedAt('c'); return p != nil || isDone() }) {
			return "hang"
		}
		if p == nil {
			p = e.parkedAt('c')
		}
		if p != nil {
			return p.point
		}
		cEnded = true
		return "end"
	}
	closeTo := func(gate string) {
		for i := 0; i < 9; i++ {
			g := stepC()
			if g == gate {
				return
			}
			if g == "hang" || g == "lost" || g == "end" {
				bad("closer-" + g)
				return
			}
		}
	}
	rEnded := false
	stepR := func() string {
		if rEnded {
			return "end"
		}
		if !e.release('r') {
			return "lost"
		}
		var p *c07Park
		if !waitUntil(6*time.Second, func() bool { p = e.parkedAt('r'); return p != nil || !c07InDisconnect() }) {
			return "hang"
		}
		if p == nil {
			p = e.parkedAt('r')
		}
		if p != nil {
			return p.point
		}
		rEnded = true
		return "end"
	}
	switch {
	case park == "none":
	case isDisc:
		e.conns[0].Break(io.ErrUnexpectedEOF)
		if !waitUntil(6*time.Second, seeDisc) {
			return "reader-not-in-disconnect", false
		}
		for i := 0; i < 8 && e.parkedAt('r') != nil && e.parkedAt('r').point != park; i++ {
			if g := stepR(); g == "hang" || g == "lost" || g == "end" {
				bad("reader-" + g)
				break
			}
		}
	default:
		closeTo(park)
		if (park == "close.hook" || park == "end") && !w.isHeld() {
			// the socket is closed: the reader wakes and enters readDisconnected
			if !waitUntil(6*time.Second, seeDisc) {
				bad("reader-not-woken")
			}
		}
	}

	// ---- the held reader goes on, then the remaining frames
	if w.isHeld() {
		a, _, _ := w.counts()
		w.releaseHeld()
		settleFrame(a)
		if inLoop && (park == "close.hook" || park == "end") {
			if !waitUntil(6*time.Second, seeDisc) {
				bad("reader-not-woken")
			}
		}
	}
	for i := 0; i < len(rest); i++ {
		a, _, _ := w.counts()
		send(rest[i])
		if inLoop {
			settleFrame(a)
		}
	}
	seeDisc()
	rd := "read"
	if !inLoop {
		rd = "disc"
	}

	// ---- the rest: Close() to its end, then the reader
	if cStarted && !cEnded {
		for i := 0; i < 9 && !cEnded; i++ {
			if g := stepC(); g == "hang" || g == "lost" {
				bad("closer-" + g)
				break
			}
		}
		if inLoop && !waitUntil(6*time.Second, seeDisc) {
			bad("reader-not-woken")
		}
	}
	for i := 0; i < 8 && !inLoop && !rEnded; i++ {
		if g := stepR(); g == "hang" || g == "lost" {
			bad("reader-" + g)
			break
		}
	}
	waitUntil(5*time.Second, func() bool { return (inLoop || !c07InDisconnect()) && (!cStarted || isDone()) })

	// ---- observation and oracles
	e.mu.Lock()
	e.rec = false
	trace := append([]string(nil), e.trace...)
	nc := e.notify[tgt]
	lf, hasLeft := e.left[tgt]
	hung := e.hung
	e.mu.Unlock()
	w.mu.Lock()
	pre := append([]int32(nil), w.pre...)
	adds := append([]int32(nil), w.adds...)
	entries := append([]int32(nil), w.entries...)
	w.mu.Unlock()
	dc := e.plugs[1].discOf(tgt)
	st := erpc.VerifStatus(tgt)
	hub, _, _ := e.showHub(1)
	closed := c07wClosed(st)

	hs := make([]string, len(adds))
	for i, a := range adds {
		hs[i] = fmt.Sprint(a)
		if c07wClosed(a) {
			sig, how := "c07:handler-started-on-closed-session", "the status was already closed when the reader came to dispatch the frame"
			if !c07wClosed(pre[i]) {
				sig, how = "c07:read-add-window", fmt.Sprintf("the frame passed the post-read status test in status %d; Close() ran between that test and graceCtxWaitGroup.Add(1)", pre[i])
			}
			out.Violate(line, "no-new-handler-after-close",
				fmt.Sprintf("park=%s hold=%s frames=%s: handler %d of the closing session was dispatched in status %d (Health()=%v, CloseNotify fired=%v, in index=%v): %s; dispatch statuses %v, handler-entry statuses %v, events %s",
					park, hold, frames, i+1, a, tgt.Health(), nc > 0, strings.Contains(hub, ">1"), how, adds, entries, strings.Join(trace, ",")), sig)
		}
	}
	for i, en := range entries {
		if c07wClosed(en) && (i >= len(adds) || !c07wClosed(adds[i])) {
			out.Violate(line, "no-new-handler-after-close",
				fmt.Sprintf("park=%s hold=%s frames=%s: handler %d was entered in status %d (dispatch statuses %v)", park, hold, frames, i+1, en, adds),
				"c07:handler-entered-on-closed-session")
		}
	}
	if len(entries) != len(adds) {
		bad(fmt.Sprintf("entries=%d", len(entries)))
	}
	if closed && dc != 1 {
		out.Violate(line, "disconnect-hook-once", fmt.Sprintf("park=%s hold=%s frames=%s: disconnect hook ran %d times (events %s)", park, hold, frames, dc, strings.Join(trace, ",")), "c07:disc-hook-count")
	}
	if hasLeft {
		out.Violate(line, "closed-absorbing", fmt.Sprintf("park=%s hold=%s frames=%s: closed state left by %s (events %s)", park, hold, frames, lf, strings.Join(trace, ",")), "c07:closed-state-left")
	}
	if closed && nc != 1 {
		out.Violate(line, "notify-once", fmt.Sprintf("park=%s hold=%s frames=%s: close notification fired %d times", park, hold, frames, nc), "c07:notify-count")
	}
	if closed && tgt.Health() {
		out.Violate(line, "unhealthy-after-close", "Health() true in a closed state", "c07:healthy-after-close")
	}
	out.Count("win:park=" + park)
	out.Count("win:hold=" + hold)
	out.Count(fmt.Sprintf("win:handlers=%d", len(adds)))
	for _, a := range adds {
		out.Count(fmt.Sprintf("win:dispatch-status=%d", a))
	}
	h := "-"
	if len(hs) > 0 {
		h = strings.Join(hs, ".")
	}
	left := 0
	if hasLeft {
		left = 1
	}
	o := fmt.Sprintf("h=%s rd=%s|%s|st=%d n=%d d=%d left=%d %s", h, rd, strings.Join(trace, ","), st, nc, dc, left, hub)
	if hung {
		o += " HANG"
	}
	if note != "" {
		o += " !" + note
	}
	return o, park != "none"
}
