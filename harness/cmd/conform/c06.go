package main

import (
	"bytes"
	"fmt"
	"io"
	"runtime"
	"strconv"
	"strings"
	"time"

	erpc "github.com/henrylee2cn/erpc/v6"
	"github.com/henrylee2cn/erpc/v6/proto/httproto"
	"github.com/henrylee2cn/erpc/v6/proto/jsonproto"
	"github.com/henrylee2cn/erpc/v6/proto/pbproto"
	"github.com/henrylee2cn/erpc/v6/socket"

	"verif/harness/internal/hx"
	"verif/harness/internal/mem"
)

// C06: no received byte sequence crashes, wedges or over-allocates a peer.
//   c06unpack: rawProto.Unpack on arbitrary bytes vs the Lean model (class, bytes consumed, bound,
//              largest read request)
//   c06primed: the same, after the library's buffer pool has been primed with a large read buffer
//              (an ordinary large frame was unpacked just before): frames whose pipe-length byte
//              announces more filter ids than the frame has room for, frames of size 4 and 5 — what
//              the reader does with them must not depend on the spare capacity of a recycled buffer
//   xproto:    every shipped protocol's Unpack on arbitrary bytes with a small read limit — the
//              property's own oracle only (no escaped panic is judged here: a panic inside Unpack is
//              recovered by the session's read loop; allocation bound and "reader not blocked while
//              input remains" are judged)
//   xlive:     the same bytes fed to a LIVE session while a control session keeps calling

func init() {
	props["c06"] = &Prop{Setup: c06Setup, Gen: c06Gen, Run: c06Run}
}

type c06Echo struct{ erpc.CallCtx }

func (e *c06Echo) Ping(arg *string) (string, *erpc.Status) { return *arg, nil }

func c06Setup() {
	erpc.SetLoggerLevel("OFF")
	regTestFilters()
}

var c06Protos = []string{"raw", "json", "pb", "http"}

func c06ProtoFunc(name string) erpc.ProtoFunc {
	switch name {
	case "json":
		return jsonproto.NewJSONProtoFunc()
	case "pb":
		return pbproto.NewPbProtoFunc()
	case "http":
		return httproto.NewHTTProtoFunc()
	}
	return socket.RawProtoFunc
}

// c06Valid packs a small valid message with the given protocol (nil if the protocol refuses it).
func c06Valid(r *hx.R, proto string) []byte {
	m := genMsg(r, true)
	m.Mtype = byte(1 + r.Intn(2))
	if proto == "http" {
		m.Mtype = 1
		m.Pipe = nil
		m.Method = []byte("/c06_echo/ping")
	}
	if len(m.Body) > 120 {
		m.Body = m.Body[:120]
	}
	if len(m.Pipe) > 3 {
		m.Pipe = m.Pipe[:3]
	}
	m.Codec = 'j'
	msg, err := m.toMessage()
	if err != nil {
		return nil
	}
	socket.SetMessageSizeLimit(0)
	cr := newChunkReader(nil, 0, 0)
	var perr error
	func() {
		defer func() {
			if e := recover(); e != nil {
				perr = fmt.Errorf("%v", e)
			}
		}()
		perr = c06ProtoFunc(proto)(cr).Pack(msg)
	}()
	if perr != nil {
		return nil
	}
	return append([]byte(nil), cr.written.Bytes()...)
}

func c06Mutate(r *hx.R, b []byte, limit int) []byte {
	b = append([]byte(nil), b...)
	switch r.Intn(7) {
	case 0: // random bytes
		b = r.Bytes(r.Intn(48), 0)
	case 1: // truncation
		if len(b) > 0 {
			b = b[:r.Intn(len(b))]
		}
	case 2: // announce a size far above the limit (first 4 bytes are the length prefix of raw/json/pb)
		if len(b) >= 4 {
			big := uint32(limit) + 1 + uint32(r.Intn(1<<20))
			if r.Intn(2) == 0 {
				big = uint32(r.Pick(1<<24, 1<<28, 1<<30, 1<<31-1))
			}
			b[0], b[1], b[2], b[3] = byte(big>>24), byte(big>>16), byte(big>>8), byte(big)
		}
	case 3, 4: // byte flips, biased to the header
		for k := 1 + r.Intn(3); k > 0 && len(b) > 0; k-- {
			i := r.Intn(len(b))
			if r.Intn(2) == 0 && len(b) > 12 {
				i = r.Intn(12)
			}
			b[i] = byte(r.Pick(0, 1, 255, 254, '%', int(b[i])^(1<<uint(r.Intn(8))), r.Intn(256)))
		}
	case 5: // valid + garbage tail
		b = append(b, r.Bytes(r.Intn(9), 0)...)
	}
	return b
}

func c06Gen(r *hx.R, tier string, out *hx.Out) []string {
	n, nl := 2500, 60
	if tier == "thorough" {
		n, nl = 30000, 500
	}
	var ls []string
	for i := 0; i < n; i++ {
		limit := r.Pick(16, 64, 300, 1024, 1<<16)
		if r.Intn(3) == 0 { // raw vs model
			b := c06Mutate(r, c06Valid(r, "raw"), limit)
			ls = append(ls, fmt.Sprintf("c06unpack limit=%d chunk=%d cseed=%d bytes=%s", limit, r.Intn(4), r.Intn(1000), hx.Hex(b)))
			continue
		}
		proto := c06Protos[r.Intn(len(c06Protos))]
		b := c06Mutate(r, c06Valid(r, proto), limit)
		if proto == "http" && r.Intn(3) == 0 { // Content-Length far above the limit, no body
			b = []byte(fmt.Sprintf("POST /c06_echo/ping HTTP/1.1\r\nContent-Type: application/json\r\nContent-Length: %d\r\n\r\n", r.Pick(1<<24, 1<<27, limit+1+r.Intn(1<<20), 1<<32, 1<<32+100+r.Intn(limit+1), 1<<33+5)))
		}
		ls = append(ls, fmt.Sprintf("xproto proto=%s limit=%d chunk=%d cseed=%d bytes=%s", proto, limit, r.Intn(4), r.Intn(1000), hx.Hex(b)))
	}
	for i := 0; i < nl; i++ {
		proto := c06Protos[r.Intn(len(c06Protos))]
		limit := r.Pick(300, 1024, 1<<16)
		b := c06Mutate(r, c06Valid(r, proto), limit)
		ls = append(ls, fmt.Sprintf("xlive proto=%s limit=%d bytes=%s", proto, limit, hx.Hex(b)))
	}
	// primed family: generated last (the lines above stay the same for a seed), run first (while
	// utils.BufferPool is uncalibrated and recycles buffers of every size)
	np := 150
	if tier == "thorough" {
		np = 1500
	}
	var ps []string
	for i := 0; i < np; i++ {
		limit := r.Pick(16, 64, 300, 1024)
		b := c06ShortFrame(r, limit)
		if r.Intn(8) == 0 { // a well-formed frame and what follows it
			limit = r.Pick(300, 1024, 1<<16)
			b = append(c06Valid(r, "raw"), r.Bytes(r.Intn(9), 0)...)
		}
		out.Count("c06primed:shape:" + c06Shape(b))
		ps = append(ps, fmt.Sprintf("c06primed limit=%d chunk=%d cseed=%d prime=%d bytes=%s", limit, r.Intn(4), r.Intn(1000), r.Pick(300, 600, 2000), hx.Hex(b)))
	}
	return append(ps, ls...)
}

// c06ShortFrame: a raw frame whose 4-byte size is within the limit and whose pipe-length byte does
// not fit (or only just fits) into what the size announces, followed by a tail of further bytes
// (the next frames on the connection), sometimes cut short.
func c06ShortFrame(r *hx.R, limit int) []byte {
	size, xl := 4, 0
	switch r.Intn(6) {
	case 0: // no room for the pipe-length byte
		size = 4
		xl = r.Pick(0, 1, 255, r.Intn(256))
	case 1: // room for the pipe-length byte only
		size = 5
		xl = r.Pick(1, 2, 255, 1+r.Intn(255))
	case 2, 3: // the ids overrun the frame
		size = 5 + r.Intn(limit-4)
		if size > 5+254 {
			size = 5 + r.Intn(254)
		}
		room := size - 5
		xl = r.Pick(255, room+1, room+1+r.Intn(255-room))
	case 4: // the ids fill the frame exactly (no byte left for the header)
		size = 5 + r.Intn(limit-4)
		if size > 5+255 {
			size = 5 + r.Intn(256)
		}
		xl = size - 5
	default: // the ids fit, a few bytes are left
		size = 6 + r.Intn(limit-5)
		if size > 6+254 {
			size = 6 + r.Intn(255)
		}
		xl = r.Intn(size - 5)
	}
	b := []byte{byte(size >> 24), byte(size >> 16), byte(size >> 8), byte(size)}
	if size > 4 || r.Intn(4) > 0 {
		b = append(b, byte(xl))
	}
	var tail []byte
	switch r.Intn(4) {
	case 0: // registered filter ids of the test registry
		for k := r.Intn(300); k > 0; k-- {
			tail = append(tail, byte(r.Pick(1, 2, 3, 109)))
		}
	case 1:
		tail = r.Bytes(r.Intn(24), 0)
	default:
		tail = r.Bytes(r.Intn(320), 0)
	}
	return append(b, tail...)
}

// c06Shape names the relation between the announced size and the pipe-length byte (histogram only).
func c06Shape(b []byte) string {
	if len(b) < 5 {
		return "no-xferlen"
	}
	size := int(b[0])<<24 | int(b[1])<<16 | int(b[2])<<8 | int(b[3])
	switch room := size - 5; {
	case room < 0:
		return "size4"
	case int(b[4]) > room:
		return "ids-overrun"
	case int(b[4]) == room:
		return "ids-exact"
	}
	return "ids-fit"
}

// c06Prime makes the library's read-buffer pool hold a buffer of at least n bytes, the way it
// happens on any connection: one ordinary valid frame with an n-byte body is unpacked
// (rawProto.Unpack acquires a pooled buffer, grows it to the frame and releases it).
func c06Prime(n int) {
	socket.SetMessageSizeLimit(0)
	body := strings.Repeat("x", n)
	msg := socket.NewMessage()
	msg.SetSeq(1)
	msg.SetMtype(1)
	msg.SetServiceMethod("/c06/prime")
	msg.SetBodyCodec('s')
	msg.SetBody(&body)
	cr := newChunkReader(nil, 0, 0)
	if err := socket.RawProtoFunc(cr).Pack(msg); err != nil {
		panic("c06Prime: pack: " + err.Error())
	}
	rd := newChunkReader(append([]byte(nil), cr.written.Bytes()...), 0, 0)
	in := socket.NewMessage(socket.WithNewBody(func(socket.Header) interface{} { return new(string) }))
	if err := socket.RawProtoFunc(rd).Unpack(in); err != nil {
		panic("c06Prime: unpack: " + err.Error())
	}
}

// c06Unpack runs one Unpack and measures what it asked the reader for and what it allocated.
func c06Unpack(pf erpc.ProtoFunc, b []byte, chunk, cseed int) (class string, consumed int, allocDelta uint64, maxAsk int) {
	rd := newChunkReader(b, chunk, int64(cseed))
	p := pf(rd)
	msg := socket.NewMessage(socket.WithNewBody(func(socket.Header) interface{} { return new([]byte) }))
	var ms0, ms1 runtime.MemStats
	runtime.ReadMemStats(&ms0)
	var err error
	func() {
		defer func() {
			if e := recover(); e != nil {
				class = "reject"
			}
		}()
		err = p.Unpack(msg)
	}()
	runtime.ReadMemStats(&ms1)
	switch {
	case class == "reject":
	case err == nil:
		class = "ok"
	case err == io.EOF || err == io.ErrUnexpectedEOF:
		class = "eof"
	case err == socket.ErrExceedMessageSizeLimit:
		class = "size"
	default:
		class = "reject"
	}
	return class, rd.pos, ms1.TotalAlloc - ms0.TotalAlloc, rd.MaxAsk
}

// c06UnpackStable is c06Unpack with the allocation figure made robust: MemStats.TotalAlloc is
// process-wide (other goroutines, one-time lazy initialisation inside a library), so when a run is
// above the budget it is repeated and the smallest figure counts — what Unpack itself allocates
// for this input is the same on every run, the noise is not.
func c06UnpackStable(pf erpc.ProtoFunc, b []byte, chunk, cseed int, budget uint64) (class string, consumed int, allocDelta uint64, maxAsk int) {
	class, consumed, allocDelta, maxAsk = c06Unpack(pf, b, chunk, cseed)
	// MemStats.TotalAlloc is process-wide: goroutines of earlier live-session cases that are still
	// winding down (and, on a loaded machine, the runtime itself) allocate behind the measurement.
	// A per-message allocation repeats in every repetition, noise does not: up to 12 repetitions with
	// growing pauses, the minimum counts (thorough sweep under load, round 3: c06:raw:overalloc with
	// 113 KB "allocated" for an 89-byte frame was such noise).
	for i := 0; i < 12 && allocDelta > budget; i++ {
		runtime.Gosched()
		if i >= 3 {
			time.Sleep(time.Duration(i-2) * time.Millisecond)
		}
		_, _, a, _ := c06Unpack(pf, b, chunk, cseed)
		if a < allocDelta {
			allocDelta = a
		}
	}
	return
}

var c06MaxLimit int

func c06Run(line string, out *hx.Out) (string, bool) {
	kind, f := hx.Fields(line)
	limit, _ := strconv.Atoi(f["limit"])
	chunk, _ := strconv.Atoi(f["chunk"])
	cseed, _ := strconv.Atoi(f["cseed"])
	b := hx.UnHex(f["bytes"])
	socket.SetMessageSizeLimit(uint32(limit))
	defer socket.SetMessageSizeLimit(0)
	// generous slack: message objects, Args, status, error values, the chunk reader itself
	// The library's byte-buffer pool hands out buffers of a size calibrated on EARLIER traffic of the
	// process, and this process has run cases under larger limits: the budget is taken from the
	// largest limit seen so far (an announced-size allocation - 2^24 and more in the generator - is far
	// above it in any case).
	if limit > c06MaxLimit {
		c06MaxLimit = limit
	}
	budget := uint64(c06MaxLimit)*3 + uint64(len(b))*8 + 64<<10
	switch kind {
	case "c06unpack", "c06primed":
		if kind == "c06primed" {
			prime, _ := strconv.Atoi(f["prime"])
			c06Prime(prime)
			socket.SetMessageSizeLimit(uint32(limit))
		}
		class, consumed, alloc, maxAsk := c06UnpackStable(socket.RawProtoFunc, b, chunk, cseed, budget)
		out.Count(kind + ":" + class)
		bounded := 1
		if maxAsk > limit && maxAsk > 4 {
			bounded = 0
			out.Violate(line, "read-request-bounded", fmt.Sprintf("Unpack asked the reader to fill %d bytes with limit %d", maxAsk, limit), "c06:raw:read-request-above-limit")
		}
		if alloc > budget {
			out.Violate(line, "alloc-bounded", fmt.Sprintf("Unpack allocated %d bytes for a %d-byte input with limit %d", alloc, len(b), limit), "c06:raw:overalloc")
		}
		if class == "eof" && consumed != len(b) {
			out.Violate(line, "eof-consumes-all", fmt.Sprintf("eof after %d of %d bytes", consumed, len(b)), "c06:raw:eof-with-input-left")
		}
		if len(b) >= 4 {
			// the frame announced `size` bytes (prefix included): nothing after them belongs to this message
			size := int(b[0])<<24 | int(b[1])<<16 | int(b[2])<<8 | int(b[3])
			if size < 4 {
				size = 4
			}
			if consumed > size {
				out.Violate(line, "consumed-within-frame", fmt.Sprintf("Unpack took %d bytes from the connection for a frame that announced %d", consumed, size), "c06:raw:read-beyond-frame")
			}
			if maxAsk > size-4 && maxAsk > 4 {
				out.Violate(line, "read-request-within-frame", fmt.Sprintf("Unpack asked the reader to fill %d bytes for a frame that announced %d after the prefix", maxAsk, size-4), "c06:raw:read-request-beyond-frame")
			}
		}
		rest := ""
		if class == "ok" {
			rest = fmt.Sprintf(" rest=%d", len(b)-consumed)
		}
		return fmt.Sprintf("%s%s consumed=%d bounded=%d ask=%d", class, rest, consumed, bounded, maxAsk), len(b) > 4
	case "xproto":
		proto := f["proto"]
		class, consumed, alloc, maxAsk := c06UnpackStable(c06ProtoFunc(proto), b, chunk, cseed, budget)
		out.Count("xproto:" + proto + ":" + class)
		if alloc > budget {
			out.Violate(line, "alloc-bounded", fmt.Sprintf("%s Unpack allocated %d bytes for a %d-byte input with read limit %d", proto, alloc, len(b), limit), "c06:"+proto+":overalloc")
		}
		if maxAsk > limit+8 && maxAsk > 64 && proto != "http" {
			out.Violate(line, "read-request-bounded", fmt.Sprintf("%s Unpack asked for %d bytes with limit %d", proto, maxAsk, limit), "c06:"+proto+":read-request-above-limit")
		}
		_ = consumed
		return "oracle-only", len(b) > 4
	case "xlive":
		return c06Live(line, f["proto"], b, out), true
	}
	return "bad-kind", false
}

// c06Live feeds the bytes to a live server session of the given protocol while a control session
// (default protocol) on the same peer keeps calling; afterwards the victim session must be either
// still working or cleanly closed, and the control session must work.
func c06Live(line, proto string, b []byte, out *hx.Out) string {
	srv := erpc.NewPeer(erpc.PeerConfig{})
	srv.RouteCall(new(c06Echo))
	defer srv.Close()
	cli := erpc.NewPeer(erpc.PeerConfig{})
	defer cli.Close()
	ctl := connect(cli, srv, "")
	if ctl.StA != nil || ctl.StB != nil {
		return "oracle-only"
	}
	ca, cb := mem.Pair("")
	type res struct {
		s  erpc.Session
		st *erpc.Status
	}
	ch := make(chan res, 1)
	go func() {
		s, st := srv.ServeConn(cb, c06ProtoFunc(proto))
		ch <- res{s, st}
	}()
	r := <-ch
	if r.st != nil {
		return "oracle-only"
	}
	before := srv.CountSession()
	ca.Write(b)
	// the control session must keep working while the victim digests the bytes
	var reply string
	if st := ctl.A.Call("/c06_echo/ping", "x", &reply).Status(); !st.OK() || reply != "x" {
		out.Violate(line, "other-sessions-keep-working", fmt.Sprintf("control call failed: %v", st), "c06:live:control-session-broken")
	}
	ca.Close() // input exhausted
	closed := waitUntil(3*time.Second, func() bool {
		select {
		case <-r.s.CloseNotify():
			return true
		default:
			return false
		}
	})
	out.Count("xlive:" + proto)
	if !closed {
		// reader or closer wedged once the input is exhausted
		buf := make([]byte, 1<<16)
		n := runtime.Stack(buf, true)
		d := string(buf[:n])
		if i := strings.Index(d, "readDisconnected"); i > 400 {
			d = d[i-400:]
		}
		if len(d) > 1500 {
			d = d[:1500]
		}
		out.Violate(line, "reader-not-wedged", "victim session did not reach a closed state 3 s after its input ended (sessions before="+strconv.Itoa(before)+")\n"+d, "c06:live:"+proto+":session-wedged")
	}
	if st := ctl.A.Call("/c06_echo/ping", "y", &reply).Status(); !st.OK() || reply != "y" {
		out.Violate(line, "other-sessions-keep-working", fmt.Sprintf("control call after the input failed: %v", st), "c06:live:control-session-broken")
	}
	_ = bytes.MinRead
	return "oracle-only"
}
