package main

import (
	"fmt"
	"io"
	"strconv"
	"strings"

	erpc "github.com/henrylee2cn/erpc/v6"
	"github.com/henrylee2cn/erpc/v6/socket"

	"verif/harness/internal/hx"
)

func init() {
	props["c05"] = &Prop{Setup: c05Setup, Gen: c05Gen, Run: c05Run}
}

func c05Setup() {
	erpc.SetLoggerLevel("OFF")
	regTestFilters()
}

func genLen(r *hx.R, small int, bounds ...int) int {
	if r.Intn(8) == 0 && len(bounds) > 0 {
		return bounds[r.Intn(len(bounds))]
	}
	return r.Intn(small + 1)
}

func genSeq(r *hx.R) int32 {
	switch r.Intn(8) {
	case 0:
		return 0
	case 1:
		return -1
	case 2:
		return -2147483648
	case 3:
		return 2147483647
	case 4:
		return int32(r.Intn(36 * 36))
	}
	return int32(r.Uint32())
}

// genMsg draws a message; wf=true keeps it inside the raw protocol's documented limits and
// supported field set (no (empty,empty) metadata pair, method <= 255, registered filters).
func genMsg(r *hx.R, wf bool) *M {
	m := &M{Seq: genSeq(r)}
	switch r.Intn(6) {
	case 0:
		m.Mtype = byte(r.Intn(256))
	default:
		m.Mtype = byte(1 + r.Intn(3))
	}
	ml := genLen(r, 24, 0, 1, 255)
	if !wf && r.Intn(6) == 0 {
		ml = 256 + r.Intn(3)
	}
	m.Method = r.AnyBytes(ml)
	if r.Intn(2) == 0 {
		switch r.Intn(5) {
		case 0:
			m.Code = int32(r.Pick(1, -1, 102, 404, 500, 2147483647, -2147483648))
		default:
			m.Code = int32(r.Uint32())
		}
		m.Msg = r.AnyBytes(genLen(r, 20, 0, 1, 255, 256))
		if r.Intn(2) == 0 {
			m.HasCause = true
			m.Cause = r.AnyBytes(genLen(r, 20, 0, 1, 255, 256))
		}
	}
	np := r.Intn(5)
	for i := 0; i < np; i++ {
		k := r.AnyBytes(genLen(r, 8, 0, 1))
		v := r.AnyBytes(genLen(r, 12, 0, 1, 255))
		if len(k) == 0 && len(v) == 0 && wf {
			k = []byte{byte(r.Intn(256))}
		}
		if r.Intn(5) == 0 && len(m.Meta) > 0 { // repeated key: ordered multimap
			k = m.Meta[r.Intn(len(m.Meta))][0]
			if len(k) == 0 && len(v) == 0 && wf {
				v = []byte{'x'}
			}
		}
		m.Meta = append(m.Meta, [2][]byte{k, v})
	}
	m.Codec = byte(r.Pick(0, 'j', 'p', 's', 'f', 'x', 't', r.Intn(256)))
	m.Body = r.AnyBytes(genLen(r, 60, 0, 1, 255, 256, 4000))
	pl := r.Pick(0, 0, 0, 1, 2, 3, 4)
	if r.Intn(40) == 0 {
		pl = r.Pick(200, 255)
	}
	for i := 0; i < pl; i++ {
		m.Pipe = append(m.Pipe, byte(1+r.Intn(3)))
	}
	return m
}

func c05Gen(r *hx.R, tier string, out *hx.Out) []string {
	n := 6000
	if tier == "thorough" {
		n = 60000
	}
	var ls []string
	for i := 0; i < n; i++ {
		switch k := r.Intn(10); {
		case k < 5: // pack (byte-exact) + round-trip oracle
			wf := r.Intn(5) != 0
			m := genMsg(r, wf)
			limit := 1 << 30
			if r.Intn(10) == 0 {
				limit = r.Pick(16, 64, 300)
			}
			w := 0
			if wf {
				w = 1
			}
			ls = append(ls, fmt.Sprintf("rawpack %s limit=%d wf=%d chunk=%d", m.Line(), limit, w, r.Intn(4)))
		case k < 7: // stream of back-to-back frames, chunked
			cnt := 1 + r.Intn(6)
			var ms []string
			for j := 0; j < cnt; j++ {
				m := genMsg(r, true)
				if len(m.Body) > 300 {
					m.Body = m.Body[:300]
				}
				ms = append(ms, strings.ReplaceAll(m.Line(), " ", ";"))
			}
			ls = append(ls, fmt.Sprintf("rawstream limit=%d chunk=%d cseed=%d reuse=%d tail=%s msgs=%s", 1<<20, r.Intn(4), r.Intn(1000), r.Intn(2), hx.Hex(r.AnyBytes(r.Pick(0, 0, 1, 3, 5))), strings.Join(ms, "|")))
		default: // unpack of arbitrary / mutated bytes
			ls = append(ls, c05GenUnpack(r))
		}
	}
	return append(ls, c05xGen(r, tier)...)
}

// c05GenUnpack produces bytes for Unpack: a valid frame, a mutated valid frame, a truncation,
// or random bytes, with assorted read limits.
func c05GenUnpack(r *hx.R) string {
	limit := r.Pick(1<<20, 1<<20, 16, 64, 1024) // a garbage length prefix below the limit is really allocated: keep it small
	var b []byte
	m := genMsg(r, true)
	if len(m.Body) > 200 {
		m.Body = m.Body[:200]
	}
	if len(m.Pipe) > 4 {
		m.Pipe = m.Pipe[:4]
	}
	msg, err := m.toMessage()
	if err == nil {
		socket.SetMessageSizeLimit(1 << 30)
		cr := newChunkReader(nil, 0, 0)
		if socket.RawProtoFunc(cr).Pack(msg) == nil {
			b = cr.written.Bytes()
		}
	}
	switch r.Intn(6) {
	case 0: // random bytes with plausible length prefix
		n := r.Intn(40)
		b = r.Bytes(n, 0)
		if n >= 4 && r.Intn(2) == 0 {
			b[0], b[1], b[2] = 0, 0, 0
			b[3] = byte(r.Intn(n + 3))
		}
	case 1: // truncation at a random offset
		if len(b) > 0 {
			b = b[:r.Intn(len(b))]
		}
	case 2, 3: // byte mutations
		b = append([]byte(nil), b...)
		for k := 1 + r.Intn(3); k > 0 && len(b) > 0; k-- {
			i := r.Intn(len(b))
			if r.Intn(2) == 0 && len(b) > 12 {
				i = r.Intn(12) // header region: lengths
			}
			switch r.Intn(3) {
			case 0:
				b[i] ^= 1 << uint(r.Intn(8))
			case 1:
				b[i] = byte(r.Pick(0, 1, 255, 254, '%', 37))
			default:
				b[i] = byte(r.Intn(256))
			}
		}
	case 4: // valid + trailing bytes
		b = append(append([]byte(nil), b...), r.Bytes(r.Intn(6), 0)...)
	}
	return fmt.Sprintf("rawunpack limit=%d chunk=%d cseed=%d bytes=%s", limit, r.Intn(4), r.Intn(1000), hx.Hex(b))
}

func packErrKind(err error) string {
	switch {
	case err == socket.ErrExceedMessageSizeLimit:
		return "err:size"
	case strings.Contains(err.Error(), "service method longer"):
		return "err:method"
	default:
		return "err:xfer"
	}
}

// unpackOne runs the real rawProto.Unpack once on the given proto/reader into a new message.
func unpackOne(p socket.Proto) (m *M, class string) {
	msg := socket.NewMessage()
	m, class = unpackInto(p, msg)
	if class == "ok" && c05Retain {
		c05Retained = append(c05Retained, c05Kept{msg, m.Show()})
	}
	return m, class
}

// A decoded message must stay what it is while LATER frames are decoded from the same connection
// (the protocols decode through pooled buffers; a field that still points into such a buffer
// changes under the caller's feet). Stream cases retain every message decoded into its own object
// and look at it again when the stream is exhausted.
type c05Kept struct {
	msg  socket.Message
	show string
}

var (
	c05Retain   bool
	c05Retained []c05Kept
)

func c05RetainStart() { c05Retain, c05Retained = true, c05Retained[:0] }

func c05RetainCheck(line string, out *hx.Out, sig string) {
	c05Retain = false
	for i, k := range c05Retained {
		if now := fromMessage(k.msg).Show(); now != k.show {
			out.Violate(line, "decoded-message-stable", fmt.Sprintf("message %d of the stream read %q right after its Unpack and %q after the later frames were decoded", i, k.show, now), sig)
			break
		}
	}
	c05Retained = c05Retained[:0]
}

// unpackInto unpacks into the given message object after Reset, the way the session's read loop
// re-uses its context's input message (pooled objects must behave like new ones: C20).
func unpackInto(p socket.Proto, msg socket.Message) (m *M, class string) {
	msg.Reset(socket.WithNewBody(func(socket.Header) interface{} { return new([]byte) }))
	var err error
	func() {
		defer func() {
			if e := recover(); e != nil {
				err = fmt.Errorf("panic: %v", e)
				class = "reject"
			}
		}()
		err = p.Unpack(msg)
	}()
	switch {
	case class == "reject":
		return nil, class
	case err == nil:
		return fromMessage(msg), "ok"
	case err == io.EOF || err == io.ErrUnexpectedEOF:
		return nil, "eof"
	case err == socket.ErrExceedMessageSizeLimit:
		return nil, "size"
	default:
		return nil, "reject"
	}
}

func c05Run(line string, out *hx.Out) (string, bool) {
	kind, f := hx.Fields(line)
	limit, _ := strconv.Atoi(f["limit"])
	socket.SetMessageSizeLimit(uint32(limit))
	defer socket.SetMessageSizeLimit(0)
	chunk, _ := strconv.Atoi(f["chunk"])
	cseed, _ := strconv.Atoi(f["cseed"])
	switch kind {
	case "xrt":
		return c05xRun(line, f, out)
	case "rawpack":
		m := parseM(f)
		out.Count("rawpack")
		msg, err := m.toMessage()
		if err != nil {
			out.Count("rawpack:pipe-refused")
			return "err:xfer", true
		}
		cr := newChunkReader(nil, 0, 0)
		if err = socket.RawProtoFunc(cr).Pack(msg); err != nil {
			out.Count("rawpack:" + packErrKind(err))
			if cr.Writes != 0 {
				out.Violate(line, "no-write-on-error", fmt.Sprintf("Pack failed but wrote %d times", cr.Writes), "c05:write-on-error")
			}
			return packErrKind(err), true
		}
		if cr.Writes != 1 {
			out.Violate(line, "single-write", fmt.Sprintf("Pack wrote %d times", cr.Writes), "c05:single-write")
		}
		packed := append([]byte(nil), cr.written.Bytes()...)
		if f["wf"] == "1" {
			// the property's own oracle: unpack(pack(m)) == m, size included
			socket.SetMessageSizeLimit(1 << 30)
			rd := newChunkReader(packed, chunk, int64(cseed))
			got, class := unpackOne(socket.RawProtoFunc(rd))
			m.Size = uint32(len(packed))
			if class != "ok" {
				out.Violate(line, "roundtrip", "unpack of packed message: "+class, "c05:raw-roundtrip")
			} else if d := sameM(m, got, true); d != "" {
				out.Violate(line, "roundtrip", d, "c05:raw-roundtrip")
			}
			out.Count("rawpack:wf-roundtrip")
		}
		return fmt.Sprintf("ok size=%d bytes=%s", msg.Size(), hx.Hex(packed)), len(m.Meta) > 0 || len(m.Pipe) > 0 || m.Code != 0
	case "rawunpack":
		b := hx.UnHex(f["bytes"])
		rd := newChunkReader(b, chunk, int64(cseed))
		got, class := unpackOne(socket.RawProtoFunc(rd))
		out.Count("rawunpack:" + class)
		if class == "ok" {
			return fmt.Sprintf("ok %s rest=%d", got.Show(), rd.Rest()), true
		}
		return class, len(b) > 4
	case "rawstream":
		var want []*M
		var stream []byte
		for _, ml := range strings.Split(f["msgs"], "|") {
			_, mf := hx.Fields("m " + strings.ReplaceAll(ml, ";", " "))
			m := parseM(mf)
			msg, err := m.toMessage()
			if err != nil {
				return "bad-case", false
			}
			cr := newChunkReader(nil, 0, 0)
			if err := socket.RawProtoFunc(cr).Pack(msg); err != nil {
				return "bad-case", false
			}
			m.Size = uint32(cr.written.Len())
			want = append(want, m)
			stream = append(stream, cr.written.Bytes()...)
		}
		tail := hx.UnHex(f["tail"])
		stream = append(stream, tail...)
		rd := newChunkReader(stream, chunk, int64(cseed))
		p := socket.RawProtoFunc(rd)
		var shows []string
		end := ""
		reused := socket.NewMessage()
		c05RetainStart()
		defer c05RetainCheck(line, out, "c05:raw:decoded-message-aliases-read-buffer")
		for i := 0; ; i++ {
			var got *M
			var class string
			if f["reuse"] == "1" {
				got, class = unpackInto(p, reused)
			} else {
				got, class = unpackOne(p)
			}
			if class != "ok" {
				end = class
				break
			}
			shows = append(shows, got.Show())
			if i < len(want) {
				if d := sameM(want[i], got, true); d != "" {
					out.Violate(line, "stream-roundtrip", fmt.Sprintf("frame %d: %s", i, d), "c05:raw-stream")
				}
			}
			if i > len(want)+8 {
				end = "runaway"
				break
			}
		}
		if len(shows) < len(want) {
			out.Violate(line, "stream-sync", fmt.Sprintf("decoded %d of %d frames (%s)", len(shows), len(want), end), "c05:raw-stream")
		}
		out.Count(fmt.Sprintf("rawstream:frames=%d", len(want)))
		return fmt.Sprintf("n=%d end=%s bytes=%s msgs=%s", len(shows), end, hx.Hex(stream), strings.ReplaceAll(strings.Join(shows, "|"), " ", ";")), true
	}
	return "bad-kind", false
}
