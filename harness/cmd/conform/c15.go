package main

// C15 — framework statuses are immutable: what a caller observes for a framework failure does not
// depend on the history of the process.
//
// One case (`c15hist`) = one HISTORY of real operations run in process on real peers over in-memory
// connections, followed by a fixed BATTERY of failing operations. The case line carries
//
//	steps=<step names>     what the harness does on the real code
//	ops=<abstract ops>     the same history as operations of the Lean heap model (Model/StatusHeap):
//	                       which sentinel is handed out, which copies / decodes / wire transfers
//	                       allocate, which in-place mutations happen at which class of site
//	bat=<rules>            the battery with the failure causes (error texts)
//
// and the observation line (identical on both sides when model and code agree) is
//
//	T[..] per step the status its caller observed    S[..] the predefined statuses (VerifSentinels)
//	B[..] the battery's statuses
//
// every status rendered by (*Status).EncodeQuery (code, msg if non-empty, cause if non-nil), in hex.
//
// Oracles on the real code (independent of the model):
//   - sentinel snapshot: code, msg, cause text and POINTER of every predefined status after every step
//     equal the snapshot taken when the process started, except for what USER code of the history
//     wrote through a pointer it received (step user-mutates-received: recorded, not a violation)
//     -> c15:sentinel-changed:<name>:<step after which it was first seen>
//   - battery: every rule's triple equals the triple of the pristine process
//     -> c15:failure-triple-depends-on-history:<rule>:<culprit step>
//   - which framework returns hand out the shared pointer itself is counted (shared-pointer:<step>).
//
// Histories that are known to poison the process (user code writing through a received pointer; until
// /repo commit 521761f also the proxied push with the backend down) run in a CHILD process (this binary re-executed with
// C15_WORKER=1), one per case; all other histories share the parent process, so their effects
// accumulate over the whole run (a sentinel changed by an in-process history is reported and then
// restored so that one defect does not cascade into every later case).

import (
	"bufio"
	"bytes"
	"context"
	"errors"
	"fmt"
	"net"
	"os"
	"os/exec"
	"sort"
	"strings"
	"sync"
	"time"

	erpc "github.com/henrylee2cn/erpc/v6"
	"github.com/henrylee2cn/erpc/v6/codec"
	"github.com/henrylee2cn/erpc/v6/plugin/auth"
	"github.com/henrylee2cn/erpc/v6/plugin/binder"
	"github.com/henrylee2cn/erpc/v6/plugin/heartbeat"
	"github.com/henrylee2cn/erpc/v6/plugin/ignorecase"
	"github.com/henrylee2cn/erpc/v6/plugin/overloader"
	"github.com/henrylee2cn/erpc/v6/plugin/proxy"
	"github.com/henrylee2cn/erpc/v6/plugin/secure"
	"github.com/henrylee2cn/erpc/v6/socket"

	"verif/harness/internal/hx"
	"verif/harness/internal/mem"
)

func init() {
	if os.Getenv("C15_WORKER") == "1" {
		c15Worker()
		os.Exit(0)
	}
	props["c15"] = &Prop{Setup: c15Setup, Gen: c15Gen, Run: c15Run}
}

// ---- sentinels ------------------------------------------------------------------------------------

// c15Names: the predefined statuses in the order of the model's sentinelTable.
var c15Names = []string{"statInvalidOpError", "statUnknownError", "statDialFailed", "statConnClosed", "statWriteFailed",
	"statBadMessage", "statNotFound", "statCodeMtypeNotAllowed", "statHandleTimeout", "statInternalServerError", "statUnpreparedError"}

type c15Snap struct {
	ptr   *erpc.Status
	query string // EncodeQuery: raw code, msg, cause
	code  int32
	msg   string // Msg()
	cause string // Cause().Error()
}

func c15Q(st *erpc.Status) string {
	if st == nil {
		return "-"
	}
	return hx.Hex(st.EncodeQuery())
}

func c15TakeOne(st *erpc.Status) c15Snap {
	s := c15Snap{ptr: st, query: string(st.EncodeQuery()), code: st.Code(), msg: st.Msg()}
	if e := st.Cause(); e != nil {
		s.cause = e.Error()
	}
	return s
}

// c15Take snapshots the framework's predefined statuses plus the shared statuses plugins export.
func c15Take() map[string]c15Snap {
	out := map[string]c15Snap{}
	for n, st := range erpc.VerifSentinels() {
		out[n] = c15TakeOne(st)
	}
	out["auth.MultiSendErr"] = c15TakeOne(auth.MultiSendErr)
	out["auth.MultiRecvErr"] = c15TakeOne(auth.MultiRecvErr)
	return out
}

func c15ShowSentinels() string {
	m := erpc.VerifSentinels()
	p := make([]string, len(c15Names))
	for i, n := range c15Names {
		p[i] = n + "=" + c15Q(m[n])
	}
	return strings.Join(p, ";")
}

// ---- the world: real peers ------------------------------------------------------------------------

const (
	c15PanicText   = "c15 boom"
	c15DialText    = "c15 dial refused"
	c15EmptyMethod = "invalid service method for message"
	c15BadJSON     = "{bad"
	c15SecureKey   = "0123456789abcdef"
	c15HbMetaKey   = "hb_"
)

type c15World struct {
	mu       sync.Mutex
	srv, cli erpc.Peer
	own      []*erpc.Status // statuses created (and kept) by user code: the own-status handler

	authSrv, authCli erpc.Peer
	authTok          string
	secSrv, secCli   erpc.Peer
	icSrv            erpc.Peer
	bindSrv          erpc.Peer
	hbSrv, hbCli     erpc.Peer

	proxy, backend, fwdPeer erpc.Peer
	flink                   *link
	fwdReturned             int

	dial map[string]net.Conn // address -> connection handed out by the dial hook

	probed map[string]int // shared pointers seen by the probe plugin through ctx.Status()
}

// c15Probe is a user plugin on the plain server that only LOOKS at ctx.Status() after the reply was
// written: it records when the framework shows a plugin the shared pointer itself.
type c15Probe struct{ w *c15World }

func (p *c15Probe) Name() string { return "c15-probe" }
func (p *c15Probe) PostWriteReply(ctx erpc.WriteCtx) *erpc.Status {
	st := ctx.Status()
	for n, s := range erpc.VerifSentinels() {
		if s == st {
			p.w.mu.Lock()
			p.w.probed["shared-pointer:ctx.Status()@PostWriteReply="+n]++
			p.w.mu.Unlock()
		}
	}
	return nil
}

var c15W *c15World

// C15Echo .. C15Note: handlers of the plain server (service methods /c15_echo ...).
func C15Echo(ctx erpc.CallCtx, arg *[]byte) ([]byte, *erpc.Status) { return *arg, nil }
func C15Panic(ctx erpc.CallCtx, arg *[]byte) ([]byte, *erpc.Status) {
	panic(c15PanicText)
}
func C15Typed(ctx erpc.CallCtx, arg *map[string]string) (map[string]string, *erpc.Status) {
	return *arg, nil
}
func C15Note(ctx erpc.PushCtx, arg *[]byte) *erpc.Status { return nil }

// C15Own returns a status the user code created and keeps: user code may mutate it later.
func C15Own(ctx erpc.CallCtx, arg *[]byte) ([]byte, *erpc.Status) {
	st := erpc.NewStatus(1001, "own", "mine")
	c15W.mu.Lock()
	c15W.own = append(c15W.own, st)
	c15W.mu.Unlock()
	return nil, st
}

// C15Bind is the handler behind the binder plugin.
type C15BindArg struct {
	A int `param:"<range:1:10><stat:100001:bad a>"`
}

func C15Bind(ctx erpc.CallCtx, arg *C15BindArg) (int, *erpc.Status) { return arg.A, nil }

type c15Fwd struct {
	w *c15World
	s erpc.Session
}

func (f *c15Fwd) Call(uri string, arg interface{}, result interface{}, setting ...erpc.MessageSetting) erpc.CallCmd {
	cmd := f.s.Call(uri, arg, result, setting...)
	f.w.mu.Lock()
	f.w.fwdReturned++
	f.w.mu.Unlock()
	return cmd
}

func (f *c15Fwd) Push(uri string, arg interface{}, setting ...erpc.MessageSetting) *erpc.Status {
	st := f.s.Push(uri, arg, setting...)
	f.w.mu.Lock()
	f.w.fwdReturned++
	f.w.mu.Unlock()
	return st
}

func c15Route(p erpc.Peer) {
	for _, pair := range [][2]string{
		{p.RouteCallFunc(C15Echo), "/c15_echo"}, {p.RouteCallFunc(C15Panic), "/c15_panic"},
		{p.RouteCallFunc(C15Typed), "/c15_typed"}, {p.RouteCallFunc(C15Own), "/c15_own"},
		{p.RoutePushFunc(C15Note), "/c15_note"},
	} {
		if pair[0] != pair[1] {
			panic("c15: unexpected route " + pair[0])
		}
	}
}

func c15NewWorld() *c15World {
	w := &c15World{dial: map[string]net.Conn{}, probed: map[string]int{}}
	c15W = w
	erpc.VerifSetHooks(&erpc.VerifHooks{Dial: func(network, addr string) (net.Conn, error) {
		w.mu.Lock()
		c := w.dial[addr]
		delete(w.dial, addr)
		w.mu.Unlock()
		if c == nil {
			return nil, errors.New(c15DialText)
		}
		return c, nil
	}})
	w.srv = erpc.NewPeer(erpc.PeerConfig{}, &c15Probe{w})
	c15Route(w.srv)
	w.cli = erpc.NewPeer(erpc.PeerConfig{})

	// auth: the checker accepts the token "good"
	w.authSrv = erpc.NewPeer(erpc.PeerConfig{}, auth.NewCheckerPlugin(func(sess auth.Session, fn auth.RecvOnce) (interface{}, *erpc.Status) {
		var tok []byte
		if st := fn(&tok); !st.OK() {
			return nil, st
		}
		if string(tok) != "good" {
			return nil, erpc.NewStatus(4010, "denied", "nope")
		}
		return []byte("welcome"), nil
	}))
	c15Route(w.authSrv)
	w.authCli = erpc.NewPeer(erpc.PeerConfig{}, auth.NewBearerPlugin(func(sess auth.Session, fn auth.SendOnce) *erpc.Status {
		var ret []byte
		w.mu.Lock()
		tok := w.authTok
		w.mu.Unlock()
		return fn([]byte(tok), &ret)
	}))

	w.secSrv = erpc.NewPeer(erpc.PeerConfig{}, secure.NewPlugin(5000, c15SecureKey))
	c15Route(w.secSrv)
	w.secCli = erpc.NewPeer(erpc.PeerConfig{}, secure.NewPlugin(5000, c15SecureKey))

	w.icSrv = erpc.NewPeer(erpc.PeerConfig{}, ignorecase.NewIgnoreCase())
	c15Route(w.icSrv)

	// binder with a user factory (ErrorFunc): the plugin rewrites msg/code of what the factory returns
	w.bindSrv = erpc.NewPeer(erpc.PeerConfig{}, binder.NewStructArgsBinder(func(handlerName, paramName, reason string) *erpc.Status {
		return erpc.NewStatus(erpc.CodeBadMessage, "c15 invalid", "c15-binder")
	}))
	if p := w.bindSrv.RouteCallFunc(C15Bind); p != "/c15_bind" {
		panic("c15: unexpected route " + p)
	}

	w.hbSrv = erpc.NewPeer(erpc.PeerConfig{}, heartbeat.NewPong())
	c15Route(w.hbSrv)
	w.hbCli = erpc.NewPeer(erpc.PeerConfig{}, heartbeat.NewPing(3, true))

	w.backend = erpc.NewPeer(erpc.PeerConfig{})
	c15Route(w.backend)
	w.fwdPeer = erpc.NewPeer(erpc.PeerConfig{})
	w.proxy = erpc.NewPeer(erpc.PeerConfig{}, proxy.NewPlugin(func(l *proxy.Label) proxy.Forwarder {
		w.mu.Lock()
		defer w.mu.Unlock()
		return &c15Fwd{w, w.flink.A}
	}))
	w.flink = connect(w.fwdPeer, w.backend, "")
	return w
}

func (w *c15World) link(srv erpc.Peer) *link { return connect(w.cli, srv, "") }

func (w *c15World) closedLink() *link {
	l := w.link(w.srv)
	l.A.Close()
	waitUntil(2*time.Second, func() bool { return !l.A.Health() })
	return l
}

func (w *c15World) backendUp(up bool) {
	w.mu.Lock()
	l := w.flink
	w.mu.Unlock()
	if up {
		if !l.A.Health() {
			nl := connect(w.fwdPeer, w.backend, "")
			w.mu.Lock()
			w.flink = nl
			w.mu.Unlock()
		}
		return
	}
	if l.A.Health() {
		l.B.Close()
		waitUntil(2*time.Second, func() bool { return !l.A.Health() })
	}
}

func (w *c15World) fwdCount() int {
	w.mu.Lock()
	defer w.mu.Unlock()
	return w.fwdReturned
}

// ---- steps ----------------------------------------------------------------------------------------

type c15Sink interface {
	Violate(oracle, detail, sig string)
	Count(key string)
}

type c15OutSink struct {
	out  *hx.Out
	line string
}

func (s c15OutSink) Violate(oracle, detail, sig string) { s.out.Violate(s.line, oracle, detail, sig) }
func (s c15OutSink) Count(key string)                   { s.out.Count(key) }

// c15Step runs one step on the real code. obs = the status the step's caller observed (nil = the step
// has no observation); user = names of predefined statuses USER code of this step wrote through.
func (w *c15World) step(name string, sink c15Sink, expect map[string]c15Snap) (obs *erpc.Status, has bool) {
	var res []byte
	shared := func(st *erpc.Status) {
		for n, s := range erpc.VerifSentinels() {
			if s == st {
				sink.Count("shared-pointer:" + name + "=" + n)
			}
		}
		if st == auth.MultiSendErr || st == auth.MultiRecvErr {
			sink.Count("shared-pointer:" + name + "=auth.Multi*Err")
		}
	}
	ret := func(st *erpc.Status) (*erpc.Status, bool) {
		shared(st)
		return st, true
	}
	switch name {
	case "ok":
		l := w.link(w.srv)
		defer l.A.Close()
		if st := l.A.Call("/c15_echo", []byte("hi"), &res).Status(); !st.OK() || string(res) != "hi" {
			sink.Count("unexpected:ok-call-failed")
		}
	case "push":
		l := w.link(w.srv)
		defer l.A.Close()
		if st := l.A.Push("/c15_note", []byte("n")); !st.OK() {
			sink.Count("unexpected:push-failed")
		}
		l.A.Call("/c15_echo", []byte("sync"), &res)
	case "notfound":
		l := w.link(w.srv)
		defer l.A.Close()
		return ret(l.A.Call("/c15_nope", []byte("x"), &res).Status())
	case "notfound-push":
		l := w.link(w.srv)
		defer l.A.Close()
		l.A.Push("/c15_nope", []byte("x"))
		l.A.Call("/c15_echo", []byte("sync"), &res)
	case "closed-call":
		return ret(w.closedLink().A.Call("/c15_echo", []byte("x"), &res).Status())
	case "closed-push":
		return ret(w.closedLink().A.Push("/c15_note", []byte("x")))
	case "empty-method":
		l := w.link(w.srv)
		defer l.A.Close()
		return ret(l.A.Call("", []byte("x"), &res).Status())
	case "panic":
		l := w.link(w.srv)
		defer l.A.Close()
		return ret(l.A.Call("/c15_panic", []byte("x"), &res).Status())
	case "bad-body":
		l := w.link(w.srv)
		defer l.A.Close()
		var m map[string]string
		return ret(l.A.Call("/c15_typed", []byte(c15BadJSON), &m, erpc.WithBodyCodec('j')).Status())
	case "write-failed":
		l := w.link(w.srv)
		defer l.A.Close()
		ctx, cancel := context.WithCancel(context.Background())
		cancel()
		return ret(l.A.Call("/c15_echo", []byte("x"), &res, erpc.WithContext(ctx)).Status())
	case "dial-failed":
		_, st := w.cli.Dial("c15-refused:1")
		return ret(st)
	case "unprepared":
		l := w.link(w.srv)
		defer l.A.Close()
		return ret(l.A.(erpc.PreSession).PreSend(erpc.TypePush, "/c15_note", []byte("x"), nil))
	case "unprepared-recv":
		l := w.link(w.srv)
		defer l.A.Close()
		m := l.A.(erpc.PreSession).PreReceive(func(erpc.Header) interface{} { return new([]byte) })
		return ret(m.Status())
	case "bad-mtype":
		ca, cb := mem.Pair("")
		done := make(chan erpc.Session, 1)
		go func() { s, _ := w.srv.ServeConn(cb); done <- s }()
		s := <-done
		rp := newRawPeer(ca, socket.DefaultProtoFunc())
		rp.Send(&M{Seq: 1, Mtype: 9, Method: []byte("/c15_echo"), Codec: 's', Body: []byte("x")})
		if s != nil {
			waitUntil(2*time.Second, func() bool { return !s.Health() })
		}
		ca.Close()
	case "own-status":
		l := w.link(w.srv)
		defer l.A.Close()
		return ret(l.A.Call("/c15_own", []byte("x"), &res).Status())
	case "user-mutates-received":
		// user code writes through the pointer a failed call handed it: the user's doing
		st := w.closedLink().A.Call("/c15_echo", []byte("x"), &res).Status()
		shared(st)
		cp := st.Copy(nil) // what the caller saw, kept as a copy of its own
		st.SetMsg("user")
		for n, s := range erpc.VerifSentinels() {
			if s == st {
				expect[n] = c15TakeOne(s)
				sink.Count("user-wrote-through-shared-pointer:" + n)
			}
		}
		return cp, true
	case "auth-ok", "auth-fail":
		w.mu.Lock()
		w.authTok = map[string]string{"auth-ok": "good", "auth-fail": "bad"}[name]
		ca, cb := mem.Pair("")
		addr := cb.LocalAddr().String()
		w.dial[addr] = ca
		w.mu.Unlock()
		go w.authSrv.ServeConn(cb)
		sess, st := w.authCli.Dial(addr)
		if name == "auth-fail" {
			return ret(st)
		}
		if sess == nil || !sess.Call("/c15_echo", []byte("a"), &res).Status().OK() {
			sink.Count("unexpected:auth-ok-failed")
		}
		if sess != nil {
			sess.Close()
		}
	case "secure-call":
		l := connect(w.secCli, w.secSrv, "")
		defer l.A.Close()
		var m map[string]string
		st := l.A.Call("/c15_typed", map[string]string{"a": "b"}, &m, erpc.WithBodyCodec('j'), secure.WithSecureMeta()).Status()
		if !st.OK() || m["a"] != "b" {
			sink.Count("unexpected:secure-call-failed")
		}
	case "overload-refuse":
		srv := erpc.NewPeer(erpc.PeerConfig{}, overloader.New(overloader.LimitConfig{MaxConn: 1}))
		l1 := w.link(srv)
		l2 := w.link(srv)
		if l2.StB.OK() {
			sink.Count("unexpected:overloader-did-not-refuse")
		}
		shared(l2.StB)
		l1.A.Close()
		l2.CA.Close()
		srv.Close()
	case "ignorecase-call":
		l := w.link(w.icSrv)
		defer l.A.Close()
		if st := l.A.Call("/C15_Echo", []byte("i"), &res).Status(); !st.OK() {
			sink.Count("unexpected:ignorecase-failed")
		}
	case "ignorecase-notfound":
		l := w.link(w.icSrv)
		defer l.A.Close()
		return ret(l.A.Call("/C15_Nope", []byte("i"), &res).Status())
	case "binder-ok":
		l := w.link(w.bindSrv)
		defer l.A.Close()
		var n int
		if st := l.A.Call("/c15_bind", &C15BindArg{A: 5}, &n, erpc.WithBodyCodec('j')).Status(); !st.OK() || n != 5 {
			sink.Count("unexpected:binder-ok-failed")
		}
	case "binder-fail":
		l := w.link(w.bindSrv)
		defer l.A.Close()
		var n int
		return ret(l.A.Call("/c15_bind", &C15BindArg{A: 50}, &n, erpc.WithBodyCodec('j')).Status())
	case "heartbeat":
		l := connect(w.hbCli, w.hbSrv, "")
		defer l.A.Close()
		st := l.A.Call(heartbeat.HeartbeatServiceMethod, nil, nil, erpc.WithSetMeta(c15HbMetaKey, "x")).Status()
		if st2 := l.A.Call("/c15_echo", []byte("h"), &res).Status(); !st2.OK() {
			sink.Count("unexpected:heartbeat-echo-failed")
		}
		return ret(st)
	case "proxy-call", "proxy-push", "proxy-notfound":
		w.backendUp(true)
		l := w.link(w.proxy)
		defer l.A.Close()
		switch name {
		case "proxy-call":
			if st := l.A.Call("/c15_echo", []byte("p"), &res).Status(); !st.OK() || string(res) != "p" {
				sink.Count("unexpected:proxy-call-failed")
			}
		case "proxy-push":
			n := w.fwdCount()
			l.A.Push("/c15_note", []byte("p"))
			waitUntil(2*time.Second, func() bool { return w.fwdCount() > n })
		case "proxy-notfound":
			return ret(l.A.Call("/c15_nope", []byte("p"), &res).Status())
		}
	case "proxy-call-backend-down":
		w.backendUp(false)
		l := w.link(w.proxy)
		defer l.A.Close()
		return ret(l.A.Call("/c15_echo", []byte("p"), &res).Status())
	case "proxy-push-backend-down":
		w.backendUp(false)
		l := w.link(w.proxy)
		defer l.A.Close()
		n := w.fwdCount()
		before := erpc.VerifSentinels()["statConnClosed"].Code()
		l.A.Push("/c15_note", []byte("p"))
		waitUntil(2*time.Second, func() bool { return w.fwdCount() > n })
		// the plugin rewrites the status right after the forwarder returned
		waitUntil(100*time.Millisecond, func() bool { return erpc.VerifSentinels()["statConnClosed"].Code() != before })
	default:
		sink.Count("unexpected:unknown-step")
	}
	return nil, false
}

// c15OwnMutate: user code mutates a status it created itself (legitimate).
func (w *c15World) ownMutate(i int) bool {
	w.mu.Lock()
	defer w.mu.Unlock()
	if i >= len(w.own) {
		return false
	}
	w.own[i].SetMsg("changed")
	return true
}

// ---- battery --------------------------------------------------------------------------------------

var c15BatterySteps = []string{"closed-call", "notfound", "empty-method", "panic", "bad-body", "write-failed", "dial-failed", "unprepared"}
var c15BatteryRule = map[string]string{"closed-call": "closed-call", "notfound": "unknown-route", "empty-method": "empty-method",
	"panic": "panic", "bad-body": "bad-body", "write-failed": "write-failed", "dial-failed": "dial-failed", "unprepared": "unprepared"}

// the predefined status each rule reads
var c15RuleSentinel = map[string]string{"closed-call": "statConnClosed", "unknown-route": "statNotFound", "empty-method": "statBadMessage",
	"panic": "statInternalServerError", "bad-body": "statBadMessage", "write-failed": "statWriteFailed", "dial-failed": "statDialFailed",
	"unprepared": "statUnpreparedError"}

type c15Triple struct {
	rule, query, msg, cause string
	code                    int32
}

type c15NoSink struct{}

func (c15NoSink) Violate(oracle, detail, sig string) {}
func (c15NoSink) Count(key string)                   {}

// battery runs the fixed failing operations; check (if not nil) is the sentinel oracle, called after
// each of them.
func (w *c15World) battery(check func(step string)) []c15Triple {
	var out []c15Triple
	for _, s := range c15BatterySteps {
		st, _ := w.step(s, c15NoSink{}, nil)
		if check != nil {
			check("battery:" + c15BatteryRule[s])
		}
		t := c15Triple{rule: c15BatteryRule[s], query: string(st.EncodeQuery()), code: st.Code(), msg: st.Msg()}
		if e := st.Cause(); e != nil {
			t.cause = e.Error()
		}
		out = append(out, t)
	}
	return out
}

// c15BadBodyText: the decoder's error text for the undecodable body (from the real codec).
func c15BadBodyText() string {
	c, err := codec.Get('j')
	if err != nil {
		return "no-json-codec"
	}
	var m map[string]string
	if e := c.Unmarshal([]byte(c15BadJSON), &m); e != nil {
		return e.Error()
	}
	return ""
}

func c15BatSpec() string {
	h := func(s string) string { return hx.Hex([]byte(s)) }
	return strings.Join([]string{"closed-call", "unknown-route", "empty-method", "panic:" + h(c15PanicText), "bad-body:" + h(c15BadBodyText()),
		"write-failed:" + h(context.Canceled.Error()), "dial-failed:" + h(c15DialText), "unprepared"}, ",")
}

// ---- one history ----------------------------------------------------------------------------------

var c15Pristine struct {
	snap    map[string]c15Snap
	bat     []c15Triple
	pending [][3]string // oracle failures of the pristine battery itself: reported with the first case
}

func c15Setup() {
	erpc.SetLoggerLevel("OFF")
	c15NewWorld()
	c15Pristine.snap = c15Take()
	c15Pristine.bat = c15W.battery(func(step string) {
		now := c15Take()
		for _, n := range c15SnapNames(now) {
			if e, a := c15Pristine.snap[n], now[n]; a.ptr != e.ptr || a.query != e.query {
				c15Pristine.pending = append(c15Pristine.pending, [3]string{"sentinel-snapshot",
					fmt.Sprintf("pristine process, %s: the predefined status %s reads %q, at process start it read %q", step, n, a.query, e.query),
					"c15:sentinel-changed:" + n + ":" + step})
				if st := erpc.VerifSentinels()[n]; st != nil {
					c15Restore(st, e)
				}
			}
		}
	})
}

func c15SnapNames(m map[string]c15Snap) []string {
	var ns []string
	for n := range m {
		ns = append(ns, n)
	}
	sort.Strings(ns)
	return ns
}

// c15RunHist runs the history of one case in THIS process and returns the observation line.
func c15RunHist(w *c15World, f map[string]string, sink c15Sink) string {
	steps := strings.Split(f["steps"], ",")
	expect := map[string]c15Snap{}
	for n, s := range c15Pristine.snap {
		expect[n] = s
	}
	userWrote := map[string]bool{}
	culprit := map[string]string{} // sentinel -> step after which a framework-made change was first seen
	firstCulprit := ""
	w.mu.Lock()
	w.own = nil
	w.mu.Unlock()
	for _, p := range c15Pristine.pending {
		sink.Violate(p[0], p[1], p[2])
	}
	c15Pristine.pending = nil
	// the sentinel oracle, after every step (and after every battery operation)
	check := func(i int, s string) {
		now := c15Take()
		for _, n := range c15SnapNames(now) {
			e, a := expect[n], now[n]
			if a.ptr != e.ptr || a.query != e.query {
				if _, seen := culprit[n]; seen {
					continue
				}
				culprit[n] = s
				if firstCulprit == "" {
					firstCulprit = s
				}
				what := "content"
				if a.ptr != e.ptr {
					what = "pointer"
				}
				sink.Count("finding:sentinel-changed:" + n)
				sink.Violate("sentinel-snapshot", fmt.Sprintf("history %s: after step %d (%s) the predefined status %s reads code=%d msg=%q cause=%q (query %q), at process start it read %q (%s changed; no user code of the history wrote through it)",
					f["steps"], i, s, n, a.code, a.msg, a.cause, a.query, e.query, what), "c15:sentinel-changed:"+n+":"+s)
			}
		}
	}
	var tobs []string
	for i, s := range steps {
		sink.Count("step:" + s)
		o := "-"
		if strings.HasPrefix(s, "own-mutate:") {
			var k int
			fmt.Sscanf(s, "own-mutate:%d", &k)
			if !w.ownMutate(k) {
				sink.Count("unexpected:own-mutate-no-status")
			}
		} else {
			before := map[string]string{}
			for n, e := range expect {
				before[n] = e.query
			}
			st, has := w.step(s, sink, expect)
			if has {
				o = c15Q(st)
			}
			for n, e := range expect {
				if e.query != before[n] {
					userWrote[n] = true
				}
			}
		}
		tobs = append(tobs, o)
		check(i, s)
	}
	sent := c15ShowSentinels()
	w.mu.Lock()
	for k, n := range w.probed {
		for ; n > 0; n-- {
			sink.Count(k)
		}
		delete(w.probed, k)
	}
	w.mu.Unlock()
	bat := w.battery(func(step string) { check(len(steps), step) })
	var bobs []string
	for i, t := range bat {
		bobs = append(bobs, t.rule+"="+hx.Hex([]byte(t.query)))
		p := c15Pristine.bat[i]
		if t.query != p.query {
			if userWrote[c15RuleSentinel[t.rule]] {
				sink.Count("battery-differs-by-user-write:" + t.rule)
				continue
			}
			c := culprit[c15RuleSentinel[t.rule]]
			if c == "" {
				c = "unknown"
			}
			sink.Count("finding:failure-triple-depends-on-history:" + t.rule)
			sink.Violate("history-independence", fmt.Sprintf("history %s: the failure %s is observed as code=%d msg=%q cause=%q after the history, as %q in a pristine process",
				f["steps"], t.rule, t.code, t.msg, t.cause, p.query), "c15:failure-triple-depends-on-history:"+t.rule+":"+c)
		}
	}
	// contain the damage: restore what the framework changed (content only) so that later in-process
	// cases start from the pristine values again
	for n := range culprit {
		if st := erpc.VerifSentinels()[n]; st != nil {
			c15Restore(st, c15Pristine.snap[n])
		}
	}
	for n := range userWrote {
		if st := erpc.VerifSentinels()[n]; st != nil {
			c15Restore(st, c15Pristine.snap[n])
		}
	}
	return "T[" + strings.Join(tobs, ";") + "] S[" + sent + "] B[" + strings.Join(bobs, ";") + "]"
}

func c15Restore(st *erpc.Status, s c15Snap) {
	st.DecodeQuery([]byte(s.query))
}

// c15Poisons: histories that are known to change a predefined status for the rest of the process
// (user code writing through a received pointer) run in a child process. Until /repo commit 521761f
// the proxied push with the backend down was one of them.
func c15Poisons(steps string) bool {
	return strings.Contains(steps, "user-mutates-received")
}

func c15Run(line string, out *hx.Out) (obs string, nontrivial bool) {
	kind, f := hx.Fields(line)
	defer func() {
		if p := recover(); p != nil {
			obs, nontrivial = fmt.Sprintf("harness-panic %v", p), false
		}
	}()
	if kind != "c15hist" || f["steps"] == "" {
		return "bad-kind", false
	}
	sink := c15OutSink{out, line}
	nt := len(strings.Split(f["steps"], ",")) >= 2
	if f["bat"] != c15BatSpec() {
		return "bad-case: battery spec is " + c15BatSpec(), false
	}
	if c15Poisons(f["steps"]) {
		sink.Count("hist:child-process")
		o, ok := c15RunParent(line, sink)
		return o, ok && nt
	}
	sink.Count("hist:in-process")
	return c15RunHist(c15W, f, sink), nt
}

// ---- child processes (as c19) ---------------------------------------------------------------------

type c15Result struct {
	obs    string
	ok     bool
	viols  [][3]string
	counts []string
}

var (
	c15Mu    sync.Mutex
	c15Cache = map[string]chan c15Result{}
)

func c15Prefetch(lines []string) {
	sem := make(chan struct{}, 6)
	c15Mu.Lock()
	defer c15Mu.Unlock()
	for _, l := range lines {
		if _, dup := c15Cache[l]; dup {
			continue
		}
		ch := make(chan c15Result, 1)
		c15Cache[l] = ch
		go func(l string) {
			sem <- struct{}{}
			ch <- c15Spawn(l)
			<-sem
		}(l)
	}
}

func c15RunParent(line string, sink c15Sink) (string, bool) {
	c15Mu.Lock()
	ch := c15Cache[line]
	delete(c15Cache, line)
	c15Mu.Unlock()
	var r c15Result
	if ch != nil {
		r = <-ch
	} else {
		r = c15Spawn(line)
	}
	for _, k := range r.counts {
		sink.Count(k)
	}
	for _, v := range r.viols {
		sink.Violate(v[0], v[2], v[1])
	}
	return r.obs, r.ok
}

func c15Spawn(line string) (res c15Result) {
	cmd := exec.Command(os.Args[0])
	cmd.Env = append(os.Environ(), "C15_WORKER=1", "GOMAXPROCS=4")
	cmd.Stdin = strings.NewReader(line + "\n")
	var stdout, stderr bytes.Buffer
	cmd.Stdout, cmd.Stderr = &stdout, &stderr
	done := make(chan error, 1)
	if err := cmd.Start(); err != nil {
		res.obs = "worker-start-failed " + err.Error()
		return
	}
	go func() { done <- cmd.Wait() }()
	select {
	case err := <-done:
		if err != nil {
			res.obs = fmt.Sprintf("worker-failed %v %s", err, c19Tail(stderr.String()))
			return
		}
	case <-time.After(90 * time.Second):
		cmd.Process.Kill()
		res.obs = "worker-timeout " + c19Tail(stdout.String())
		return
	}
	res.obs, res.ok = "worker-no-obs", true
	sc := bufio.NewScanner(&stdout)
	sc.Buffer(make([]byte, 1<<20), 1<<26)
	for sc.Scan() {
		t := sc.Text()
		switch {
		case strings.HasPrefix(t, "OBS "):
			res.obs = t[4:]
		case strings.HasPrefix(t, "CNT "):
			res.counts = append(res.counts, t[4:])
		case strings.HasPrefix(t, "VIOL "):
			p := strings.SplitN(t[5:], "\t", 3)
			if len(p) == 3 {
				res.viols = append(res.viols, [3]string{p[0], p[1], p[2]})
			}
		}
	}
	return
}

type c15WorkerSink struct{ w *bufio.Writer }

func (s c15WorkerSink) Violate(oracle, detail, sig string) {
	fmt.Fprintf(s.w, "VIOL %s\t%s\t%s\n", oracle, sig, strings.ReplaceAll(detail, "\n", " "))
}
func (s c15WorkerSink) Count(key string) { fmt.Fprintf(s.w, "CNT %s\n", key) }

func c15Worker() {
	in := bufio.NewScanner(os.Stdin)
	in.Buffer(make([]byte, 1<<20), 1<<26)
	wr := bufio.NewWriter(os.Stdout)
	defer wr.Flush()
	if !in.Scan() {
		return
	}
	_, f := hx.Fields(in.Text())
	obs := func() (o string) {
		defer func() {
			if p := recover(); p != nil {
				o = fmt.Sprintf("harness-panic %v", p)
			}
		}()
		c15Setup()
		return c15RunHist(c15W, f, c15WorkerSink{wr})
	}()
	fmt.Fprintf(wr, "OBS %s\n", obs)
}

// ---- generation: steps and their abstract operations ----------------------------------------------

func c15H(s string) string {
	if s == "" {
		return "-"
	}
	return hx.Hex([]byte(s))
}

// c15Ops: the abstract operations of one step. alloc counts the cells allocated so far in this
// history (the model's k-th dynamic cell); owns collects the cells of the user's own statuses.
func c15Ops(step string, alloc *int, owns *[]int) string {
	a := func(n int) { *alloc += n }
	switch step {
	case "ok", "push", "secure-call", "ignorecase-call", "binder-ok", "auth-ok", "proxy-call", "proxy-push", "overload-refuse":
		return "-"
	case "notfound", "ignorecase-notfound":
		a(1)
		return "rs.statNotFound,wire.last,obs"
	case "notfound-push":
		return "rs.statNotFound"
	case "closed-call", "closed-push":
		return "rs.statConnClosed,obs"
	case "empty-method":
		a(2)
		return "cp.s:statBadMessage." + c15H(c15EmptyMethod) + ",wire.last,obs"
	case "panic":
		a(2)
		return "cp.s:statInternalServerError." + c15H(c15PanicText) + ",wire.last,obs"
	case "bad-body":
		a(2)
		return "cp.s:statBadMessage." + c15H(c15BadBodyText()) + ",wire.last,obs"
	case "write-failed":
		a(1)
		return "cp.s:statWriteFailed." + c15H(context.Canceled.Error()) + ",obs"
	case "dial-failed":
		a(1)
		return "cp.s:statDialFailed." + c15H(c15DialText) + ",obs"
	case "unprepared", "unprepared-recv":
		return "rs.statUnpreparedError,obs"
	case "bad-mtype":
		return "rs.statCodeMtypeNotAllowed"
	case "own-status":
		*owns = append(*owns, *alloc)
		a(2)
		return "nw.1001." + c15H("own") + "." + c15H("mine") + ",wire.last,obs"
	case "user-mutates-received":
		// the caller keeps a copy of what it saw (observation), then writes through the pointer
		a(1)
		return "rs.statConnClosed,cp.last.nil,obs,mu.returnedByCall.s:statConnClosed.m:" + c15H("user")
	case "auth-fail":
		a(3)
		return "nw.4010." + c15H("denied") + "." + c15H("nope") + ",wire.last,cp.s:statDialFailed." + c15H("nope") + ",obs"
	case "binder-fail":
		a(2)
		return "cb.400." + c15H("c15 invalid") + "." + c15H("c15-binder") + ",mu.callback.last.m:" + c15H("bad a") + ",mu.callback.last.c:100001,wire.last,obs"
	case "heartbeat":
		a(2)
		return "nw.400." + c15H("invalid heartbeat rate") + "." + c15H("x") + ",wire.last,obs"
	case "proxy-notfound":
		a(2)
		return "rs.statNotFound,wire.last,wire.last,obs"
	case "proxy-call-backend-down":
		// the forwarder returns the shared connection-closed status; the plugin answers with
		// badGateway(stat) = stat.Copy(nil).SetCode(502).SetMsg("Bad Gateway"), which goes over the wire
		a(2)
		return "rs.statConnClosed,cp.last.nil,mu.copy.last.c:502,mu.copy.last.m:" + c15H("Bad Gateway") + ",wire.last,obs"
	case "proxy-push-backend-down":
		// same rewrite on a copy; a push has no reply
		a(1)
		return "rs.statConnClosed,cp.last.nil,mu.copy.last.c:502,mu.copy.last.m:" + c15H("Bad Gateway")
	}
	return "-"
}

func c15Line(steps []string) string {
	alloc := 0
	var owns []int
	var out, ops []string
	for _, s := range steps {
		if s == "own-mutate" {
			if len(owns) == 0 {
				continue
			}
			k := len(out) % len(owns)
			out = append(out, fmt.Sprintf("own-mutate:%d", k))
			ops = append(ops, fmt.Sprintf("mu.fresh.d:%d.m:%s", owns[k], c15H("changed")))
			continue
		}
		out = append(out, s)
		ops = append(ops, c15Ops(s, &alloc, &owns))
	}
	if len(out) == 0 {
		out, ops = []string{"ok"}, []string{"-"}
	}
	return fmt.Sprintf("c15hist steps=%s ops=%s bat=%s", strings.Join(out, ","), strings.Join(ops, ";"), c15BatSpec())
}

var c15Plain = []string{"ok", "push", "notfound", "notfound-push", "closed-call", "closed-push", "empty-method", "panic", "bad-body",
	"write-failed", "dial-failed", "unprepared", "unprepared-recv", "bad-mtype", "own-status", "own-mutate",
	"auth-ok", "auth-fail", "secure-call", "overload-refuse", "ignorecase-call", "ignorecase-notfound", "binder-ok", "binder-fail",
	"heartbeat", "proxy-call", "proxy-push", "proxy-notfound", "proxy-call-backend-down", "proxy-push-backend-down"}

func c15Gen(r *hx.R, tier string, out *hx.Out) []string {
	nPlain, nPoison := 260, 24
	if tier == "thorough" {
		nPlain, nPoison = 4000, 200
	}
	var lines []string
	// every step kind on its own, then the pre-study histories
	for _, s := range c15Plain {
		if s == "own-mutate" {
			lines = append(lines, c15Line([]string{"own-status", "own-mutate", "own-status"}))
			continue
		}
		lines = append(lines, c15Line([]string{s}))
	}
	lines = append(lines,
		c15Line([]string{"closed-call", "proxy-push-backend-down", "closed-call"}),
		c15Line([]string{"ok", "proxy-call-backend-down", "closed-call", "proxy-call"}),
		c15Line([]string{"closed-call", "user-mutates-received", "closed-call"}),
		c15Line([]string{"proxy-push", "proxy-push-backend-down", "proxy-push", "closed-push", "notfound"}),
	)
	for i := 0; i < nPlain; i++ {
		n := 2 + r.Intn(11)
		steps := make([]string, n)
		for j := range steps {
			steps[j] = c15Plain[r.Intn(len(c15Plain))]
		}
		lines = append(lines, c15Line(steps))
	}
	for i := 0; i < nPoison; i++ {
		n := 2 + r.Intn(7)
		steps := make([]string, n)
		for j := range steps {
			steps[j] = c15Plain[r.Intn(len(c15Plain))]
		}
		steps[r.Intn(n)] = "user-mutates-received"
		if r.Intn(2) == 0 {
			steps = append(steps, "proxy-push-backend-down")
		}
		if r.Intn(3) == 0 {
			steps = append(steps, "closed-call")
		}
		lines = append(lines, c15Line(steps))
	}
	var kids []string
	for _, l := range lines {
		_, f := hx.Fields(l)
		if c15Poisons(f["steps"]) {
			kids = append(kids, l)
		}
	}
	c15Prefetch(kids)
	return lines
}
