package main

// C08 — graceful close loses no reply and waits for running handlers.
//
// Case line (grammar shared with lean/Teleport/Drv/C08.lean):
//
//	c08 n=<sessions> sched=<tok,tok,...>
//
// Two real peers A (the closing side) and B, n in-memory connections between them. Every goroutine
// of an A-side session that reaches one of the parking gate points (read.msg, read.add, h.enter,
// h.exit, reply.written, reply.done, call.seq, call.store, write.check of a caller, close.*) is
// parked there; handler bodies block on harness channels. A token releases exactly one parked
// goroutine (or makes the remote side act); then the harness waits until every goroutine of the
// process is parked or blocked again (goroutine dump, no sleeps). A token that does not apply in the
// current state is a no-op. DRAIN applies the canonical release pass until nothing moves.
// Tokens: see Drv/C08.lean. A watchdog opens all gates when a settle takes longer than 3 s.

import (
	"bytes"
	"fmt"
	"hash/fnv"
	"io"
	"runtime"
	"strconv"
	"strings"
	"sync"
	"sync/atomic"
	"time"

	erpc "github.com/henrylee2cn/erpc/v6"

	"verif/harness/internal/hx"
	"verif/harness/internal/mem"
)

func init() {
	props["c08"] = &Prop{Setup: c08Setup, Gen: c08Gen, Run: c08Run}
}

// ---- per-case state ------------------------------------------------------------------------

type c08Slot struct {
	point string
	ch    chan struct{}
	gid   int64
}

type c08Sess struct {
	idx  int
	l    *link
	name string

	parked  map[string]*c08Slot // key: "reader", "closer", "h<K>", "c<J>", "r<J>"
	gidKey  map[int64]string    // handler / caller / closer goroutine -> key
	fifo    []string            // frames sent by B, not yet consumed by A's reader ("c<K>", "r<J>")
	hold    string              // frame in the reader's hands ("" = none, "err")
	lastAdd string              // frame that passed read.add most recently
	rExit   bool                // reader reached readDisconnected

	ins      []int
	inSent   map[int]bool
	inBody   map[int]chan struct{} // A-side handler body release
	inInBody map[int]bool
	inBodyRl map[int]bool
	inStat   map[int]string
	inDone   map[int]bool

	outs     []int
	outStat  map[int]string
	outBodyB map[int]chan struct{} // B-side handler body release
	outInB   map[int]bool
	prs      map[int]bool

	closerGate  string
	closerFree  bool
	closeBegun  bool
	closeRet    bool
	closerGated bool
	byPeer      bool // this session's Close was spawned by Peer.Close
	pend        string

	ev map[string]int64 // event -> global sequence number
}

type c08Case struct {
	mu       sync.Mutex
	sess     []*c08Sess
	byAddr   map[string]*c08Sess // A-side session: remote address -> sess
	byAddrB  map[string]*c08Sess // B-side session: remote address -> sess
	seq      int64
	free     int32 // watchdog: all gates open
	log      []string
	peerPC   int // 0 idle, 1 closing, 2 joined
	peerDone int32
	timeout  bool
	lis      *mem.Listener
	lisState string
}

var c08Cur atomic.Value // *c08Case

func c08Get() *c08Case {
	c, _ := c08Cur.Load().(*c08Case)
	return c
}

func (c *c08Case) tick() int64 { return atomic.AddInt64(&c.seq, 1) }

func c08Gid() int64 {
	var b [64]byte
	n := runtime.Stack(b[:], false)
	// "goroutine 123 ["
	f := bytes.Fields(b[:n])
	if len(f) < 2 {
		return -1
	}
	g, _ := strconv.ParseInt(string(f[1]), 10, 64)
	return g
}

// ---- handlers ----------------------------------------------------------------------------

// C08x is registered on both peers: In runs on A (inbound calls of the closing side), Out on B.
type C08x struct{ erpc.CallCtx }

func (h *C08x) In(arg *int) (int, *erpc.Status) {
	c := c08Get()
	if c == nil {
		return *arg, nil
	}
	c.mu.Lock()
	s := c.byAddr[h.Session().RemoteAddr().String()]
	var ch chan struct{}
	if s != nil {
		ch = s.inBody[*arg]
		if ch == nil {
			ch = make(chan struct{})
			s.inBody[*arg] = ch
		}
		s.inInBody[*arg] = true
	}
	c.mu.Unlock()
	if ch != nil && atomic.LoadInt32(&c.free) == 0 {
		<-ch
	}
	return *arg + 1000, nil
}

func (h *C08x) Out(arg *int) (int, *erpc.Status) {
	c := c08Get()
	if c == nil {
		return *arg, nil
	}
	c.mu.Lock()
	s := c.byAddrB[h.Session().RemoteAddr().String()]
	var ch chan struct{}
	if s != nil {
		ch = s.outBodyB[*arg]
		if ch == nil {
			ch = make(chan struct{})
			s.outBodyB[*arg] = ch
		}
		s.outInB[*arg] = true
	}
	c.mu.Unlock()
	if ch != nil && atomic.LoadInt32(&c.free) == 0 {
		<-ch
	}
	return *arg + 2000, nil
}

type C08p struct{ erpc.PushCtx }

func (p *C08p) Push(arg *int) *erpc.Status { return nil }

// ---- gate hook ----------------------------------------------------------------------------

func c08Setup() {
	erpc.SetLoggerLevel("OFF")
	erpc.VerifSetHooks(&erpc.VerifHooks{Gate: c08Gate})
}

var c08ParkPoints = map[string]bool{
	"read.msg": true, "read.add": true, "h.enter": true, "h.exit": true, "reply.written": true,
	"reply.done": true, "call.seq": true, "call.store": true, "write.check": true,
	"close.cas": true, "close.hubdel": true, "close.ctxwait": true, "close.callwait": true,
	"close.sock": true, "close.hook": true, "disc.load": true,
}

func c08Gate(point string, sess erpc.Session) {
	c := c08Get()
	if c == nil || !c08ParkPoints[point] || sess == nil {
		return
	}
	addr := sess.RemoteAddr().String()
	gid := c08Gid()
	c.mu.Lock()
	s := c.byAddr[addr]
	if s == nil {
		c.mu.Unlock()
		return
	}
	var key string
	switch {
	case point == "disc.load":
		s.rExit = true
		c.mu.Unlock()
		return
	case point == "read.msg":
		key = "reader"
		if len(s.fifo) > 0 {
			s.hold = s.fifo[0]
			s.fifo = s.fifo[1:]
		} else {
			s.hold = "err"
		}
	case point == "read.add":
		key = "reader"
	case strings.HasPrefix(point, "close."):
		key = "closer"
		s.closerGate = point
		s.closerFree = false
		s.closerGated = true
	case point == "h.enter" || point == "reply.done":
		// first gate of a handler goroutine (goroutines come from a pool: ids are reused, so the
		// frame that passed read.add last decides which call this goroutine carries)
		if (point == "h.enter" && strings.HasPrefix(s.lastAdd, "c")) || (point == "reply.done" && strings.HasPrefix(s.lastAdd, "r")) {
			if point == "h.enter" {
				key = "h" + s.lastAdd[1:]
			} else {
				key = s.lastAdd
			}
			s.lastAdd = ""
			s.gidKey[gid] = key
		} else {
			delete(s.gidKey, gid)
			c.mu.Unlock()
			return // unidentified goroutine: let it run
		}
	case point == "h.exit" || point == "reply.written":
		k, ok := s.gidKey[gid]
		if !ok {
			c.mu.Unlock()
			return
		}
		key = k
		s.ev[point+":"+k] = c.tick()
	case point == "call.seq" || point == "call.store" || point == "write.check":
		k, ok := s.gidKey[gid]
		if !ok || !strings.HasPrefix(k, "c") {
			c.mu.Unlock()
			return
		}
		key = k
	}
	if atomic.LoadInt32(&c.free) != 0 {
		c.mu.Unlock()
		return
	}
	slot := &c08Slot{point: point, ch: make(chan struct{}), gid: gid}
	s.parked[key] = slot
	c.mu.Unlock()
	<-slot.ch
}

// release lets the goroutine parked under key continue; caller holds c.mu.
func (s *c08Sess) release(key string) {
	if sl := s.parked[key]; sl != nil {
		delete(s.parked, key)
		close(sl.ch)
	}
}

func (s *c08Sess) at(key, point string) bool {
	sl := s.parked[key]
	return sl != nil && sl.point == point
}

// ---- quiescence --------------------------------------------------------------------------

var c08DumpBuf = make([]byte, 4<<20)

// c08Active counts goroutines (other than the caller) that are running or runnable.
func c08Active() int {
	n := runtime.Stack(c08DumpBuf, true)
	b := c08DumpBuf[:n]
	active := 0
	first := true
	for len(b) > 0 {
		i := bytes.IndexByte(b, '\n')
		var line []byte
		if i < 0 {
			line, b = b, nil
		} else {
			line, b = b[:i], b[i+1:]
		}
		if !bytes.HasPrefix(line, []byte("goroutine ")) {
			continue
		}
		o := bytes.IndexByte(line, '[')
		if o < 0 {
			continue
		}
		st := line[o+1:]
		if first { // the caller itself is listed first
			first = false
			continue
		}
		if bytes.HasPrefix(st, []byte("running")) || bytes.HasPrefix(st, []byte("runnable")) || bytes.HasPrefix(st, []byte("syscall")) {
			active++
		}
	}
	return active
}

// settle waits until nothing can move without the harness; false = watchdog fired.
func (c *c08Case) settle() bool {
	deadline := time.Now().Add(3 * time.Second)
	for i := 0; ; i++ {
		if c08Active() == 0 {
			// confirm: a goroutine readied by a timer between two dumps shows up in the second
			runtime.Gosched()
			if c08Active() == 0 {
				return true
			}
		}
		if time.Now().After(deadline) {
			return false
		}
		if i < 20 {
			runtime.Gosched()
		} else {
			time.Sleep(50 * time.Microsecond)
		}
	}
}

func (c *c08Case) openAll() {
	atomic.StoreInt32(&c.free, 1)
	c.mu.Lock()
	for _, s := range c.sess {
		for k := range s.parked {
			s.release(k)
		}
		for k, ch := range s.inBody {
			if !s.inBodyRl[k] {
				s.inBodyRl[k] = true
				close(ch)
			}
		}
		for k, ch := range s.outBodyB {
			if !s.prs[k] {
				s.prs[k] = true
				close(ch)
			}
		}
	}
	c.mu.Unlock()
}

// ---- tokens ---------------------------------------------------------------------------------

func c08SplitTok(t string) (string, int) {
	i := 0
	for i < len(t) && (t[i] < '0' || t[i] > '9') {
		i++
	}
	n, _ := strconv.Atoi(t[i:])
	return t[:i], n
}

func c08StatStr(st *erpc.Status) string {
	if st.OK() {
		return "OK"
	}
	return strconv.Itoa(int(st.Code()))
}

func (s *c08Sess) closerChar() string {
	switch {
	case s.closeRet && s.closerGated:
		return "r"
	case s.closeRet:
		return "n"
	case !s.closeBegun:
		return "i"
	}
	switch s.closerGate {
	case "close.cas":
		return "a"
	case "close.hubdel":
		return "b"
	case "close.ctxwait":
		return "c"
	case "close.callwait":
		return "d"
	case "close.sock":
		return "e"
	case "close.hook":
		return "f"
	}
	return "?"
}

func (s *c08Sess) readerChar() string {
	if s.at("reader", "read.msg") {
		return "m"
	}
	if s.at("reader", "read.add") {
		return "a"
	}
	if s.rExit {
		return "x"
	}
	return "-"
}

// tok applies one session token; returns (effective, suffix).
func (c *c08Case) tok(s *c08Sess, name string, arg int) (bool, string) {
	key := strconv.Itoa(arg)
	c.mu.Lock()
	unlocked := false
	unlock := func() {
		if !unlocked {
			unlocked = true
			c.mu.Unlock()
		}
	}
	defer unlock()
	switch name {
	case "s":
		if _, ok := s.inSent[arg]; ok {
			return false, ""
		}
		s.ins = append(s.ins, arg)
		// the reader may consume the frame before AsyncCall returns: announce it first
		s.fifo = append(s.fifo, "c"+key)
		unlock()
		k := arg
		cmd := s.l.B.AsyncCall("/c08x/in", &k, new(int), make(chan erpc.CallCmd, 1))
		sent := true
		select {
		case <-cmd.Done():
			sent = false // refused or failed at once: no frame
		default:
		}
		c.mu.Lock()
		s.inSent[arg] = sent
		if !sent {
			for i, f := range s.fifo {
				if f == "c"+key {
					s.fifo = append(s.fifo[:i:i], s.fifo[i+1:]...)
					break
				}
			}
		}
		c.mu.Unlock()
		go func() {
			<-cmd.Done()
			st := c08StatStr(cmd.Status())
			c.mu.Lock()
			s.inStat[arg] = st
			s.inDone[arg] = true
			c.mu.Unlock()
		}()
		return true, ""
	case "rm":
		if !s.at("reader", "read.msg") {
			return false, ""
		}
		s.release("reader")
		return true, ""
	case "ra":
		if !s.at("reader", "read.add") {
			return false, ""
		}
		s.lastAdd = s.hold
		s.hold = ""
		s.release("reader")
		return true, ""
	case "en":
		if !s.at("h"+key, "h.enter") {
			return false, ""
		}
		s.ev["h.enter:h"+key] = c.tick()
		s.release("h" + key)
		return true, ""
	case "bd":
		if !s.inInBody[arg] || s.inBodyRl[arg] {
			return false, ""
		}
		s.inBodyRl[arg] = true
		close(s.inBody[arg])
		return true, ""
	case "ex":
		if !s.at("h"+key, "h.exit") {
			return false, ""
		}
		s.release("h" + key)
		return true, ""
	case "fw":
		if !s.at("h"+key, "reply.written") {
			return false, ""
		}
		s.release("h" + key)
		return true, ""
	case "o":
		for _, j := range s.outs {
			if j == arg {
				return false, ""
			}
		}
		s.outs = append(s.outs, arg)
		started := make(chan struct{})
		go func() {
			gid := c08Gid()
			c.mu.Lock()
			s.gidKey[gid] = "c" + key
			c.mu.Unlock()
			close(started)
			j := arg
			cmd := s.l.A.Call("/c08x/out", &j, new(int))
			st := c08StatStr(cmd.Status())
			c.mu.Lock()
			s.outStat[arg] = st
			s.ev["done:c"+key] = c.tick()
			c.mu.Unlock()
		}()
		unlock()
		<-started
		return true, ""
	case "oa":
		if !s.at("c"+key, "call.seq") {
			return false, ""
		}
		s.release("c" + key)
		return true, ""
	case "ob":
		if !s.at("c"+key, "call.store") {
			return false, ""
		}
		s.release("c" + key)
		return true, ""
	case "oc":
		if !s.at("c"+key, "write.check") {
			return false, ""
		}
		s.release("c" + key)
		return true, ""
	case "pr":
		if !s.outInB[arg] || s.prs[arg] {
			return false, ""
		}
		s.prs[arg] = true
		_, completed := s.outStat[arg]
		st := erpc.VerifStatus(s.l.A)
		if s.ev["cut"] == 0 && (st == 1 || st == 2) && !completed {
			s.fifo = append(s.fifo, "r"+key)
		}
		close(s.outBodyB[arg])
		return true, ""
	case "rd":
		if !s.at("r"+key, "reply.done") {
			return false, ""
		}
		s.release("r" + key)
		return true, ""
	case "cl":
		if s.closeBegun {
			return false, ""
		}
		s.closeBegun = true
		s.ev["closeStart"] = c.tick()
		go func() {
			s.l.A.Close()
			c.mu.Lock()
			s.closeRet = true
			s.ev["closeRet"] = c.tick()
			c.mu.Unlock()
		}()
		return true, ""
	case "cc":
		if s.parked["closer"] == nil {
			return false, ""
		}
		s.closerFree = true
		if s.closerGate == "close.hook" && s.byPeer {
			// Peer.Close mode: the spawned Close returns right after this gate
			s.closeRet = true
			s.ev["closeRet"] = c.tick()
		}
		s.release("closer")
		return true, ""
	case "cut":
		if s.ev["cut"] != 0 {
			return false, ""
		}
		s.ev["cut"] = c.tick()
		unlock()
		s.l.CB.Break(io.ErrUnexpectedEOF)
		return true, ""
	case "pu":
		unlock()
		v := 0
		st := s.l.A.Push("/c08p/push", &v)
		if st.OK() {
			return true, "=OK"
		}
		return true, "=ERR"
	}
	return false, ""
}

func (c *c08Case) afterSettle() {
	c.mu.Lock()
	for _, s := range c.sess {
		if s.closeRet && s.pend == "-" {
			s.pend = strconv.Itoa(erpc.VerifPendingCalls(s.l.A))
		}
	}
	c.mu.Unlock()
}

func (c *c08Case) tryJoin() {
	if c.peerPC == 1 && atomic.LoadInt32(&c.peerDone) == 1 {
		c.peerPC = 2
		c.lisState = "open"
		// mem.Listener.Dial on a closed listener picks between its buffered queue and the closed
		// channel at random; an open listener never refuses: any refusal means closed
		for i := 0; i < 24 && c.lisState == "open"; i++ {
			if _, err := c.lis.Dial(); err != nil {
				c.lisState = "closed"
			}
		}
		if len(c.log) > 0 {
			c.log[len(c.log)-1] += "+J"
		} else {
			c.log = append(c.log, "+J")
		}
	}
}

func (c *c08Case) sessTok(i int, body string) bool {
	if i < 0 || i >= len(c.sess) || c.timeout {
		return false
	}
	s := c.sess[i]
	name, arg := c08SplitTok(body)
	eff, suf := c.tok(s, name, arg)
	if !eff {
		return false
	}
	if !c.settle() {
		c.timeout = true
		c.openAll()
		return true
	}
	c.afterSettle()
	c.mu.Lock()
	c.log = append(c.log, fmt.Sprintf("%d.%s/%s/%s%s", i+1, body, s.closerChar(), s.readerChar(), suf))
	c.tryJoin()
	c.mu.Unlock()
	return true
}

func (s *c08Sess) passToks() []string {
	t := []string{"cc", "rm", "ra"}
	for _, k := range s.ins {
		t = append(t, fmt.Sprintf("en%d", k), fmt.Sprintf("bd%d", k), fmt.Sprintf("ex%d", k), fmt.Sprintf("fw%d", k))
	}
	for _, j := range s.outs {
		t = append(t, fmt.Sprintf("oa%d", j), fmt.Sprintf("ob%d", j), fmt.Sprintf("oc%d", j), fmt.Sprintf("pr%d", j), fmt.Sprintf("rd%d", j))
	}
	return append(t, "cc")
}

func (c *c08Case) drain() {
	for round := 0; round < 400; round++ {
		eff := false
		for i, s := range c.sess {
			c.mu.Lock()
			toks := s.passToks()
			c.mu.Unlock()
			for _, b := range toks {
				if c.sessTok(i, b) {
					eff = true
				}
			}
		}
		if !eff || c.timeout {
			return
		}
	}
}

func (c *c08Case) peerClose(A erpc.Peer) {
	if c.peerPC != 0 || c.timeout {
		return
	}
	c.mu.Lock()
	c.peerPC = 1
	start := c.tick()
	var begun []*c08Sess
	for _, s := range c.sess {
		if !s.closeBegun {
			s.closeBegun = true
			s.byPeer = true
			s.ev["closeStart"] = start
			begun = append(begun, s)
		}
	}
	c.mu.Unlock()
	go func() {
		A.Close()
		atomic.StoreInt32(&c.peerDone, 1)
	}()
	if !c.settle() {
		c.timeout = true
		c.openAll()
		return
	}
	c.mu.Lock()
	for _, s := range begun {
		if s.parked["closer"] == nil && !s.closerGated {
			// not in the hub any more (or CAS failed): no Close ran through a gate
			s.closeRet = true
			s.ev["closeRet"] = c.tick()
		}
	}
	c.mu.Unlock()
	c.afterSettle()
	c.mu.Lock()
	c.log = append(c.log, "pcl")
	for _, s := range begun {
		c.log = append(c.log, fmt.Sprintf("%d.cl/%s/%s", s.idx+1, s.closerChar(), s.readerChar()))
	}
	c.tryJoin()
	c.mu.Unlock()
}

// ---- run ---------------------------------------------------------------------------------------

var c08CaseNo int64

// c08Ages derives the two peers' DefaultContextAge from the case line: none / closing side / both.
func c08Ages(line string) (time.Duration, time.Duration) {
	h := fnv.New32a()
	h.Write([]byte(line))
	switch h.Sum32() % 3 {
	case 1:
		return time.Hour, 0
	case 2:
		return time.Hour, time.Hour
	}
	return 0, 0
}

func c08Run(line string, out *hx.Out) (obs string, nontrivial bool) {
	_, f := hx.Fields(line)
	n, _ := strconv.Atoi(f["n"])
	if n < 1 || n > 8 || f["sched"] == "" {
		return "bad-case", false
	}
	defer func() {
		if p := recover(); p != nil {
			obs = fmt.Sprintf("panic:%v", p)
		}
	}()
	no := atomic.AddInt64(&c08CaseNo, 1)
	// configuration diversity (seed C08-D): a context age that never expires within a case must not
	// change anything; which side gets one is a function of the case line, so a replay reproduces it
	ageA, ageB := c08Ages(line)
	out.Count(fmt.Sprintf("ctxage:%v/%v", ageA > 0, ageB > 0))
	A := erpc.NewPeer(erpc.PeerConfig{DefaultContextAge: ageA})
	B := erpc.NewPeer(erpc.PeerConfig{DefaultContextAge: ageB})
	A.RouteCall(new(C08x))
	B.RouteCall(new(C08x))
	B.RoutePush(new(C08p))
	lis := mem.NewListener(fmt.Sprintf("c08lis-%d:1", no))
	lisDone := make(chan struct{})
	go func() { erpc.VerifServeListener(A, lis); close(lisDone) }()

	c := &c08Case{byAddr: map[string]*c08Sess{}, byAddrB: map[string]*c08Sess{}, lis: lis}
	for i := 0; i < n; i++ {
		name := fmt.Sprintf("c08-%d-%d", no, i)
		l := connect(A, B, name)
		if l.A == nil || l.B == nil {
			return "connect-failed", false
		}
		s := &c08Sess{idx: i, l: l, name: name, parked: map[string]*c08Slot{}, gidKey: map[int64]string{},
			inSent: map[int]bool{}, inBody: map[int]chan struct{}{}, inInBody: map[int]bool{}, inBodyRl: map[int]bool{},
			inStat: map[int]string{}, inDone: map[int]bool{}, outStat: map[int]string{}, outBodyB: map[int]chan struct{}{},
			outInB: map[int]bool{}, prs: map[int]bool{}, ev: map[string]int64{}, pend: "-"}
		c.sess = append(c.sess, s)
		c.byAddr[l.A.RemoteAddr().String()] = s
		c.byAddrB[l.B.RemoteAddr().String()] = s
	}
	// both readers are blocked in Read now; install the case
	c.settle()
	c08Cur.Store(c)
	defer c08Cur.Store((*c08Case)(nil))

	toks := strings.Split(f["sched"], ",")
	for _, t := range toks {
		if c.timeout {
			break
		}
		switch {
		case t == "DRAIN":
			c.drain()
		case t == "pcl":
			c.peerClose(A)
		default:
			d := strings.IndexByte(t, '.')
			if d <= 0 {
				continue
			}
			si, err := strconv.Atoi(t[:d])
			if err != nil {
				continue
			}
			c.sessTok(si-1, t[d+1:])
		}
	}

	// ---- liveness oracle (C08_close_returns / C08_close_waits_only_for_env) -------------------
	// After a DRAIN that reached its fixpoint every handler body has returned, the peer has answered
	// every call it received (or the connection is cut) and no goroutine can move without the harness:
	// Close() must have returned and every call of this side must have completed. Nothing of this
	// depends on timing (the watchdog case is excluded).
	if !c.timeout && len(toks) > 0 && toks[len(toks)-1] == "DRAIN" {
		c.mu.Lock()
		for _, s := range c.sess {
			if s.closeBegun && !s.closeRet {
				out.Violate(line, "close-returns",
					fmt.Sprintf("session %d: all handler bodies have returned, every call was answered or the connection cut, nothing can move, but Close() has not returned (closer at %q)", s.idx+1, s.closerChar()),
					"c08:close-never-returns")
			}
			for _, j := range s.outs {
				if _, ok := s.outStat[j]; !ok {
					out.Violate(line, "issued-calls-complete",
						fmt.Sprintf("session %d outbound call %d never completed although nothing can move any more (cut=%v peerReplied=%v)", s.idx+1, j, s.ev["cut"] != 0, s.prs[j]),
						"c08:call-never-completes")
				}
			}
		}
		if c.peerPC == 1 {
			out.Violate(line, "peer-close-returns", "every session's Close() could return but Peer.Close() has not", "c08:peer-close-never-returns")
		}
		c.mu.Unlock()
	}

	// ---- end of schedule: open everything, close both peers, collect ------------------------
	timedOut := c.timeout
	c.openAll()
	closed := make(chan struct{})
	go func() { A.Close(); B.Close(); close(closed) }()
	select {
	case <-closed:
	case <-time.After(5 * time.Second):
		timedOut = true
	}
	waitUntil(3*time.Second, func() bool {
		c.mu.Lock()
		defer c.mu.Unlock()
		for _, s := range c.sess {
			for _, k := range s.ins {
				if !s.inDone[k] {
					return false
				}
			}
			for _, j := range s.outs {
				if _, ok := s.outStat[j]; !ok {
					return false
				}
			}
		}
		return true
	})
	c.mu.Lock()
	defer c.mu.Unlock()
	if timedOut {
		out.Count("timeout")
		return "timeout tr=" + strings.Join(c.log, " "), false
	}
	var parts []string
	nEntered, nCalls := 0, 0
	for _, s := range c.sess {
		ret := s.ev["closeRet"]
		before := func(e int64) bool { return e != 0 && (ret == 0 || e < ret) }
		var ins, outs []string
		for _, k := range s.ins {
			hk := "h" + strconv.Itoa(k)
			ent := s.ev["h.enter:"+hk]
			e := ent != 0 && (s.ev["closeStart"] == 0 || ent < s.ev["closeStart"])
			x := before(s.ev["h.exit:"+hk])
			w := before(s.ev["reply.written:"+hk])
			st, ok := s.inStat[k]
			if !ok {
				st = "?"
			}
			ins = append(ins, fmt.Sprintf("%d:%s%s%s:%s", k, c08b(e), c08b(x), c08b(w), st))
			cutBefore := s.ev["cut"] != 0
			if e {
				nEntered++
				out.Count("in.entered-before-close")
				if !cutBefore {
					if st != "OK" {
						out.Violate(line, "entered-handler-gets-reply",
							fmt.Sprintf("session %d inbound call %d: handler entered before Close() but the caller got status %s", s.idx+1, k, st),
							"c08:entered-handler-reply-lost")
					}
					if ret != 0 && (!x || !w) {
						out.Violate(line, "close-waits-for-entered-handlers",
							fmt.Sprintf("session %d inbound call %d: Close() returned before handler exit/reply write (exit=%v written=%v)", s.idx+1, k, x, w),
							"c08:close-returned-early")
					}
				}
			} else {
				out.Count("in.not-entered-before-close:" + st)
			}
		}
		for _, j := range s.outs {
			st, ok := s.outStat[j]
			if !ok {
				st = "?"
			}
			d := before(s.ev["done:c"+strconv.Itoa(j)])
			outs = append(outs, fmt.Sprintf("%d:%s:%s", j, c08b(d), st))
			nCalls++
			out.Count("out." + st)
			if s.outInB[j] && s.ev["cut"] == 0 {
				// the peer received the call and (by the end of DRAIN) sent its reply; no connection loss
				if st != "OK" {
					out.Violate(line, "issued-call-gets-peer-reply",
						fmt.Sprintf("session %d outbound call %d reached the peer, the connection was never lost, but it completed with %s", s.idx+1, j, st),
						"c08:issued-call-lost-reply")
				}
				if ret != 0 && !d && s.closerGated {
					out.Violate(line, "close-waits-for-issued-calls",
						fmt.Sprintf("session %d outbound call %d was still pending when Close() returned", s.idx+1, j),
						"c08:close-returned-early")
				}
			}
		}
		parts = append(parts, fmt.Sprintf("in=%s out=%s pend=%s st=%d cl=%s", c08dash(strings.Join(ins, ",")), c08dash(strings.Join(outs, ",")),
			s.pend, erpc.VerifStatus(s.l.A), s.closerChar()))
	}
	pcs := [...]string{"idle", "closing", "joined"}[c.peerPC]
	if c.peerPC == 2 {
		out.Count("peer.joined")
		if c.lisState != "closed" {
			out.Violate(line, "peer-close-closes-listeners", "Peer.Close returned but the listener still accepts", "c08:listener-open-after-peer-close")
		}
		for _, s := range c.sess {
			if !s.closeRet {
				out.Violate(line, "peer-close-joins-sessions", fmt.Sprintf("Peer.Close returned before session %d's Close", s.idx+1), "c08:peer-close-returned-early")
			}
		}
	}
	out.Count(fmt.Sprintf("sessions=%d", n))
	obs = "tr=" + c08dash(strings.Join(c.log, " ")) + " | " + strings.Join(parts, " ; ") + " | peer=" + pcs
	return obs, nEntered+nCalls > 0
}

func c08b(b bool) string {
	if b {
		return "1"
	}
	return "0"
}

func c08dash(s string) string {
	if s == "" {
		return "-"
	}
	return s
}

// ---- generation --------------------------------------------------------------------------------

// phases of an inbound call at the moment Close() is invoked:
//   Q queued behind the frame in the reader's hands, M consumed (reader at read.msg), R at read.add
//   (consumed, not yet counted), C counted (handler at h.enter), E entered (in the body), X body
//   returned (at h.exit), W reply written (at reply.written), F finished.
// phases of an outbound call: N not started, S at call.seq, T at call.store, K at write.check,
//   W written (the peer's handler runs), P the peer replied (frame queued / at read.msg), B reply
//   bound (reader at read.add), D reply handler at reply.done, Z completed.
const c08InPh = "QMRCEXWF"
const c08OutPh = "NSTKWPBDZ"

type c08B struct {
	si   int
	toks []string
}

func (b *c08B) t(body string, arg int) {
	if arg < 0 {
		b.toks = append(b.toks, fmt.Sprintf("%d.%s", b.si, body))
	} else {
		b.toks = append(b.toks, fmt.Sprintf("%d.%s%d", b.si, body, arg))
	}
}

// prefix brings session si into the state described by the phases (index 0 = call 1).
func c08Prefix(r *hx.R, si int, inPh, outPh []byte) []string {
	b := &c08B{si: si}
	type item struct {
		in bool
		id int
		ph byte
	}
	var through, slot, queued []item
	for i, p := range inPh {
		it := item{true, i + 1, p}
		switch p {
		case 'C', 'E', 'X', 'W', 'F':
			through = append(through, it)
		case 'M', 'R':
			slot = append(slot, it)
		default:
			queued = append(queued, it)
		}
	}
	for i, p := range outPh {
		it := item{false, i + 1, p}
		switch p {
		case 'D', 'Z':
			through = append(through, it)
		case 'B':
			slot = append(slot, it)
		case 'P':
			queued = append(queued, it)
		case 'N':
		default:
			through = append(through, it) // no reader involvement: anywhere before the slot stage
		}
	}
	r.Shuffle(len(through), func(i, j int) { through[i], through[j] = through[j], through[i] })
	r.Shuffle(len(slot), func(i, j int) { slot[i], slot[j] = slot[j], slot[i] })
	r.Shuffle(len(queued), func(i, j int) { queued[i], queued[j] = queued[j], queued[i] })
	send := func(it item) {
		if it.in {
			b.t("s", it.id)
		} else {
			b.t("o", it.id)
			b.t("oa", it.id)
			b.t("ob", it.id)
			b.t("oc", it.id)
			b.t("pr", it.id)
		}
	}
	for _, it := range through {
		if it.in {
			send(it)
			b.t("rm", -1)
			b.t("ra", -1)
			if strings.IndexByte("EXWF", it.ph) >= 0 {
				b.t("en", it.id)
			}
			if strings.IndexByte("XWF", it.ph) >= 0 {
				b.t("bd", it.id)
			}
			if strings.IndexByte("WF", it.ph) >= 0 {
				b.t("ex", it.id)
			}
			if it.ph == 'F' {
				b.t("fw", it.id)
			}
			continue
		}
		switch it.ph {
		case 'S':
			b.t("o", it.id)
		case 'T':
			b.t("o", it.id)
			b.t("oa", it.id)
		case 'K':
			b.t("o", it.id)
			b.t("oa", it.id)
			b.t("ob", it.id)
		case 'W':
			b.t("o", it.id)
			b.t("oa", it.id)
			b.t("ob", it.id)
			b.t("oc", it.id)
		case 'D', 'Z':
			send(it)
			b.t("rm", -1)
			b.t("ra", -1)
			if it.ph == 'Z' {
				b.t("rd", it.id)
			}
		}
	}
	for i, it := range slot {
		send(it)
		if i == 0 && (it.ph == 'R' || it.ph == 'B') {
			b.t("rm", -1)
		}
	}
	for _, it := range queued {
		send(it)
	}
	return b.toks
}

func c08RandPh(r *hx.R, n int, alphabet string) []byte {
	p := make([]byte, n)
	for i := range p {
		p[i] = alphabet[r.Intn(len(alphabet))]
	}
	return p
}

// continuation: random releases after Close() has been invoked.
func c08Cont(r *hx.R, si, nin, nout, steps int, allowCut bool) []string {
	b := &c08B{si: si}
	nextIn, nextOut := nin+1, nout+1
	for i := 0; i < steps; i++ {
		x := r.Intn(100)
		switch {
		case x < 22:
			b.t("cc", -1)
		case x < 30:
			b.t("rm", -1)
		case x < 38:
			b.t("ra", -1)
		case x < 62 && nextIn > 1:
			b.t([]string{"en", "bd", "ex", "fw"}[r.Intn(4)], 1+r.Intn(nextIn-1))
		case x < 86 && nextOut > 1:
			b.t([]string{"oa", "ob", "oc", "pr", "rd"}[r.Intn(5)], 1+r.Intn(nextOut-1))
		case x < 90 && nextIn <= 8:
			b.t("s", nextIn)
			nextIn++
		case x < 94 && nextOut <= 8:
			b.t("o", nextOut)
			nextOut++
		case x < 96:
			b.t("pu", -1)
		case x < 97 && allowCut:
			b.t("cut", -1)
		default:
			b.t("cc", -1)
		}
	}
	return b.toks
}

func c08Gen(r *hx.R, tier string, out *hx.Out) []string {
	var cases []string
	add := func(n int, parts ...[]string) {
		var toks []string
		for _, p := range parts {
			toks = append(toks, p...)
		}
		cases = append(cases, fmt.Sprintf("c08 n=%d sched=%s", n, strings.Join(toks, ",")))
	}
	rep := func(t string, k int) []string {
		var l []string
		for i := 0; i < k; i++ {
			l = append(l, t)
		}
		return l
	}
	// 1. every placement of Close() on the timeline of one inbound call: phase at closeStart x how far
	//    the closer gets (k gate releases) x how far the call is pushed (m of its own releases) before
	//    everything is drained.
	inSteps := []string{"1.rm", "1.ra", "1.en1", "1.bd1", "1.ex1", "1.fw1"}
	for _, ph := range c08InPh {
		for k := 0; k <= 6; k++ {
			for _, m := range []int{0, 2, 3, 6} {
				add(1, c08Prefix(r, 1, []byte{byte(ph)}, nil), []string{"1.cl"}, rep("1.cc", k), inSteps[:m], []string{"DRAIN"})
			}
		}
	}
	// 2. the same for one outbound call (placement relative to issue, write, reply arrival, delivery).
	outSteps := []string{"1.o1", "1.oa1", "1.ob1", "1.oc1", "1.pr1", "1.rm", "1.ra", "1.rd1"}
	for _, ph := range c08OutPh {
		for k := 0; k <= 6; k++ {
			for _, m := range []int{0, 2, 4, 5, 8} {
				add(1, c08Prefix(r, 1, nil, []byte{byte(ph)}), []string{"1.cl"}, rep("1.cc", k), outSteps[:m], []string{"DRAIN"})
			}
		}
	}
	// 3. one inbound and one outbound call, all phase pairs, closer released a random number of times.
	for _, pi := range c08InPh {
		for _, po := range c08OutPh {
			add(1, c08Prefix(r, 1, []byte{byte(pi)}, []byte{byte(po)}), []string{"1.cl"}, rep("1.cc", r.Intn(7)),
				c08Cont(r, 1, 1, 1, r.Intn(8), false), []string{"DRAIN"})
		}
	}
	// 4. random: 0..8 calls each way, random phases, random continuation; some with a cut, some
	//    closing before anything happened, some calls arriving only after Close().
	nRand, nPeer := 260, 60
	if tier == "thorough" {
		nRand, nPeer = 3000, 500
	}
	for i := 0; i < nRand; i++ {
		nin, nout := r.Intn(9), r.Intn(9)
		if r.Intn(4) == 0 {
			nin, nout = 1+r.Intn(3), r.Intn(3)
		}
		var pre []string
		if r.Intn(12) == 0 {
			pre = c08Cont(r, 1, 0, 0, r.Intn(10), true) // arbitrary tokens before Close
			nin, nout = 0, 0
		} else {
			pre = c08Prefix(r, 1, c08RandPh(r, nin, c08InPh), c08RandPh(r, nout, c08OutPh))
		}
		if r.Intn(25) == 0 {
			pre = append(pre, "1.cut")
		}
		add(1, pre, []string{"1.cl"}, c08Cont(r, 1, nin, nout, r.Intn(45), r.Intn(8) == 0), []string{"DRAIN"})
	}
	// 5. Peer.Close with 1..4 sessions.
	for i := 0; i < nPeer; i++ {
		n := 1 + r.Intn(4)
		var parts [][]string
		type sz struct{ nin, nout int }
		var szs []sz
		for si := 1; si <= n; si++ {
			nin, nout := r.Intn(4), r.Intn(4)
			szs = append(szs, sz{nin, nout})
			parts = append(parts, c08Prefix(r, si, c08RandPh(r, nin, c08InPh), c08RandPh(r, nout, c08OutPh)))
			if r.Intn(20) == 0 {
				parts = append(parts, []string{fmt.Sprintf("%d.cut", si), fmt.Sprintf("%d.rm", si)})
			}
		}
		parts = append(parts, []string{"pcl"})
		for rounds := r.Intn(4); rounds > 0; rounds-- {
			si := 1 + r.Intn(n)
			parts = append(parts, c08Cont(r, si, szs[si-1].nin, szs[si-1].nout, r.Intn(12), false))
		}
		parts = append(parts, []string{"DRAIN"})
		add(n, parts...)
	}
	return cases
}
