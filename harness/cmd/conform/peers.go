package main

import (
	"sync"
	"time"

	erpc "github.com/henrylee2cn/erpc/v6"
	"github.com/henrylee2cn/erpc/v6/socket"

	"verif/harness/internal/mem"
)

// link is one in-process connection between two real peers (both ends served with ServeConn),
// over an in-memory conn pair with distinct addresses and wire capture.
type link struct {
	A, B       erpc.Session // A: session on the first peer (the "client" end), B: on the second ("server")
	CA, CB     *mem.Conn
	StA, StB   *erpc.Status
}

// connect serves a fresh in-memory connection on both peers. ServeConn on the server side runs in
// a goroutine because accept hooks may exchange pre-session messages with the other side.
func connect(client, server erpc.Peer, name string, protoFunc ...erpc.ProtoFunc) *link {
	ca, cb := mem.Pair(name)
	l := &link{CA: ca, CB: cb}
	var wg sync.WaitGroup
	wg.Add(1)
	go func() {
		defer wg.Done()
		l.B, l.StB = server.ServeConn(cb, protoFunc...)
	}()
	l.A, l.StA = client.ServeConn(ca, protoFunc...)
	wg.Wait()
	return l
}

// waitUntil polls cond every 200µs up to d; returns whether it became true.
func waitUntil(d time.Duration, cond func() bool) bool {
	deadline := time.Now().Add(d)
	for {
		if cond() {
			return true
		}
		if time.Now().After(deadline) {
			return false
		}
		time.Sleep(200 * time.Microsecond)
	}
}

// rawPeer speaks the wire format itself over one end of a mem pair (a scripted remote peer).
type rawPeer struct {
	C     *mem.Conn
	Proto socket.Proto
}

func newRawPeer(c *mem.Conn, pf socket.ProtoFunc) *rawPeer {
	return &rawPeer{C: c, Proto: pf(c)}
}

// Recv reads one frame with the real protocol implementation (body as raw bytes).
func (r *rawPeer) Recv() (*M, error) {
	msg := socket.NewMessage(socket.WithNewBody(func(socket.Header) interface{} { return new([]byte) }))
	if err := r.Proto.Unpack(msg); err != nil {
		return nil, err
	}
	return fromMessage(msg), nil
}

// Send packs and writes one frame.
func (r *rawPeer) Send(m *M) error {
	msg, err := m.toMessage()
	if err != nil {
		return err
	}
	return r.Proto.Pack(msg)
}
