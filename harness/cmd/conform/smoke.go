package main

import (
	"fmt"

	erpc "github.com/henrylee2cn/erpc/v6"

	"verif/harness/internal/hx"
)

type smokeMath struct{ erpc.CallCtx }

func (m *smokeMath) Add(arg *[]int) (int, *erpc.Status) {
	s := 0
	for _, a := range *arg {
		s += a
	}
	return s, nil
}

func init() {
	props["smoke"] = &Prop{
		Setup: func() { erpc.SetLoggerLevel("OFF") },
		Gen:   func(r *hx.R, tier string, out *hx.Out) []string { return []string{"smoke"} },
		Run: func(line string, out *hx.Out) (string, bool) {
			srv := erpc.NewPeer(erpc.PeerConfig{})
			srv.RouteCall(new(smokeMath))
			cli := erpc.NewPeer(erpc.PeerConfig{})
			l := connect(cli, srv, "")
			var r int
			st := l.A.Call("/smoke_math/add", []int{1, 2, 3}, &r).Status()
			l.A.Close()
			srv.Close()
			return fmt.Sprintf("r=%d st=%v sessA=%v", r, st, l.StA), true
		},
	}
}
