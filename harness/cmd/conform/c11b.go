package main

import (
	"fmt"
	"reflect"
	"strconv"
	"strings"

	"git.apache.org/thrift.git/lib/go/thrift"

	"github.com/henrylee2cn/erpc/v6/codec"

	"verif/harness/internal/hx"
)

// C11, batch cases (kind `xbatch`, the property's own oracle, no model): a codec's Marshal result
// must stay the encoding of ITS value after further Marshal calls (an encoder that hands out a
// recycled buffer passes every encode-then-decode test but not encode-a-batch-then-decode), and
// Unmarshal must not keep references into the input bytes (mutating the input afterwards must not
// change the decoded value).

type c11bJ struct {
	A string   `json:"a" xml:"a" form:"a"`
	B []int32  `json:"b" xml:"b" form:"b"`
	C []string `json:"c" xml:"c" form:"c"`
}

func init() {
	p := props["c11"]
	g, r := p.Gen, p.Run
	p.Gen = func(rr *hx.R, tier string, out *hx.Out) []string {
		ls := g(rr, tier, out)
		n := 60
		if tier == "thorough" {
			n = 600
		}
		for i := 0; i < n; i++ {
			ls = append(ls, fmt.Sprintf("xbatch codec=%s k=%d vseed=%d", []string{"json", "xml", "form", "plain", "thrift", "protobuf"}[rr.Intn(6)], 2+rr.Intn(5), rr.Intn(1<<30)))
		}
		return ls
	}
	p.Run = func(line string, out *hx.Out) (string, bool) {
		if strings.HasPrefix(line, "xbatch ") {
			return c11bRun(line, out)
		}
		return r(line, out)
	}
}

func c11bValue(name string, r *hx.R) (v interface{}, fresh func() interface{}) {
	s := string(c05xAscii(r, 1+r.Intn(300)))
	switch name {
	case "plain":
		return &s, func() interface{} { return new(string) }
	case "thrift":
		return thrift.NewTApplicationException(int32(r.Intn(8)), s), func() interface{} { return thrift.NewTApplicationException(0, "") }
	case "protobuf":
		return &codec.PbEmpty{}, func() interface{} { return new(codec.PbEmpty) }
	}
	v2 := &c11bJ{A: s}
	for i := r.Intn(5); i > 0; i-- {
		v2.B = append(v2.B, int32(r.Uint32()))
		v2.C = append(v2.C, string(c05xAscii(r, 1+r.Intn(9))))
	}
	return v2, func() interface{} { return new(c11bJ) }
}

func c11bEqual(name string, a, b interface{}) bool {
	if name == "thrift" {
		x, y := a.(thrift.TApplicationException), b.(thrift.TApplicationException)
		return x.TypeId() == y.TypeId() && x.Error() == y.Error()
	}
	return reflect.DeepEqual(a, b)
}

func c11bRun(line string, out *hx.Out) (string, bool) {
	_, f := hx.Fields(line)
	name := f["codec"]
	k, _ := strconv.Atoi(f["k"])
	vs, _ := strconv.Atoi(f["vseed"])
	r := hx.NewR(int64(vs))
	c, err := codec.GetByName(name)
	if err != nil {
		return "oracle-only", false
	}
	var vals []interface{}
	var encs [][]byte
	var snap [][]byte
	var fresh func() interface{}
	for i := 0; i < k; i++ {
		v, fr := c11bValue(name, r)
		fresh = fr
		b, err := c.Marshal(v)
		if err != nil {
			out.Violate(line, "marshal", name+": "+err.Error(), "c11:batch:marshal-failed:"+name)
			return "oracle-only", true
		}
		vals = append(vals, v)
		encs = append(encs, b)
		snap = append(snap, append([]byte(nil), b...))
	}
	for i := 0; i < k; i++ {
		if string(encs[i]) != string(snap[i]) {
			out.Violate(line, "encoding-stable", fmt.Sprintf("%s: the encoding of value %d changed after %d later Marshal call(s)", name, i, k-1-i), "c11:batch:encoding-overwritten:"+name)
			break
		}
		dst := fresh()
		in := append([]byte(nil), encs[i]...)
		if err := c.Unmarshal(in, dst); err != nil {
			out.Violate(line, "roundtrip", fmt.Sprintf("%s: value %d of the batch does not decode: %v", name, i, err), "c11:batch:roundtrip:"+name)
			break
		}
		if !c11bEqual(name, vals[i], dst) {
			out.Violate(line, "roundtrip", fmt.Sprintf("%s: value %d of the batch decodes to a different value", name, i), "c11:batch:roundtrip:"+name)
			break
		}
		// the decoded value must not alias the input bytes
		for j := range in {
			in[j] ^= 0x55
		}
		if !c11bEqual(name, vals[i], dst) {
			out.Violate(line, "decoded-value-owns-its-bytes", fmt.Sprintf("%s: the decoded value changed when the input buffer was overwritten afterwards", name), "c11:batch:decoded-value-aliases-input:"+name)
			break
		}
	}
	out.Count("xbatch:" + name)
	return "oracle-only", true
}
