package main

import (
	"encoding/json"
	"fmt"
	"strconv"
	"strings"
	"sync"

	erpc "github.com/henrylee2cn/erpc/v6"
	"github.com/henrylee2cn/erpc/v6/mixer/websocket/jsonSubProto"
	"github.com/henrylee2cn/erpc/v6/mixer/websocket/pbSubProto"
	"github.com/henrylee2cn/erpc/v6/proto/httproto"
	"github.com/henrylee2cn/erpc/v6/proto/jsonproto"
	"github.com/henrylee2cn/erpc/v6/proto/pbproto"
	"github.com/henrylee2cn/erpc/v6/socket"
	xgzip "github.com/henrylee2cn/erpc/v6/xfer/gzip"

	"verif/harness/internal/hx"
)

// C05, the protocols whose serializers are third-party (gjson, protobuf, net/http): no Lean model,
// the property's own round-trip / frame-sync / size oracles on the real code (kind `xrt`).
// Each protocol is fed only messages inside its supported field set (DESIGN §5 C05 table).

var c05xProtos = []string{"json", "pb", "http", "wsjson", "wspb"}

var c05xGzipOnce sync.Once

// c05xRegGzip registers the real gzip transfer filter (id 'g'): the only kind httproto supports.
func c05xRegGzip() {
	c05xGzipOnce.Do(func() {
		defer func() { recover() }() // another runner of this binary may have registered it
		xgzip.Reg('g', "gzip-5", 5)
	})
}

func c05xFunc(name string) erpc.ProtoFunc {
	switch name {
	case "json":
		return jsonproto.NewJSONProtoFunc()
	case "pb":
		return pbproto.NewPbProtoFunc()
	case "http":
		return httproto.NewHTTProtoFunc()
	case "wsjson":
		return jsonSubProto.NewJSONSubProtoFunc()
	case "wspb":
		return pbSubProto.NewPbSubProtoFunc()
	}
	return socket.RawProtoFunc
}

func c05xAscii(r *hx.R, n int) []byte {
	const al = "abcdefghijklmnopqrstuvwxyzABCDEFGHIJKLMNOPQRSTUVWXYZ0123456789_-."
	b := make([]byte, n)
	for i := range b {
		b[i] = al[r.Intn(len(al))]
	}
	return b
}

// c05xJSONBody is a body as the json codec produces it: strings with quotes, backslashes,
// control characters and non-ASCII text, nested.
func c05xJSONBody(r *hx.R) []byte {
	specials := []string{`"`, `\`, `\"`, "\n", "\t", "é", "日本", `{"k":"v"}`, "/", " ", "a b", "%", "+"}
	var mk func(d int) interface{}
	mk = func(d int) interface{} {
		switch r.Intn(5 - d) {
		case 0:
			return r.Intn(1000)
		case 1:
			s := string(c05xAscii(r, r.Intn(6)))
			for k := r.Intn(3); k > 0; k-- {
				s += specials[r.Intn(len(specials))] + string(c05xAscii(r, r.Intn(3)))
			}
			return s
		case 2:
			return []interface{}{mk(d + 1), mk(d + 1)}
		default:
			return map[string]interface{}{"a" + specials[r.Intn(len(specials))]: mk(d + 1)}
		}
	}
	b, _ := json.Marshal(mk(0))
	return b
}

func c05xGenMsg(r *hx.R, proto string) *M {
	m := &M{Seq: genSeq(r), Mtype: byte(1 + r.Intn(3)), Codec: 'j'}
	m.Method = append([]byte("/"), c05xAscii(r, 1+r.Intn(20))...)
	if r.Intn(2) == 0 {
		m.Code = int32(r.Pick(1, -1, 102, 404, 500, 2147483647, -2147483648, int(int32(r.Uint32()))))
		m.Msg = r.AnyBytes(genLen(r, 16, 0, 1, 255))
		if r.Intn(2) == 0 {
			m.HasCause = true
			m.Cause = r.AnyBytes(genLen(r, 16, 1, 255))
		}
	}
	for i := r.Intn(4); i > 0; i-- {
		k := r.AnyBytes(1 + r.Intn(6))
		m.Meta = append(m.Meta, [2][]byte{k, r.AnyBytes(r.Intn(10))})
	}
	switch proto {
	case "json", "wsjson":
		m.Body = c05xJSONBody(r)
	default:
		m.Body = r.AnyBytes(genLen(r, 60, 0, 1, 255, 256))
		m.Codec = byte(r.Pick('j', 'p', 's', 'f', 'x'))
	}
	for i := r.Pick(0, 0, 1, 2); i > 0; i-- {
		m.Pipe = append(m.Pipe, byte(1+r.Intn(3)))
	}
	switch proto {
	case "http":
		m.Mtype = byte(1 + r.Intn(2)) // request / response only
		m.Pipe = nil                   // gzip filters only
		if r.Intn(3) == 0 {
			m.Pipe = []byte{'g'}
		}
		m.Meta = nil                   // metadata maps onto HTTP headers: exempt
		if m.Mtype == 1 {              // a request carries no status
			m.Code, m.Msg, m.HasCause, m.Cause = 0, nil, false, nil
		} else {
			m.Method = nil // a response carries no service method
			if m.Code != 0 {
				m.Msg, m.Cause = c05xAscii(r, len(m.Msg)%40), c05xAscii(r, 1+len(m.Cause)%40)
				m.Body = nil // an error response carries the status as its entity
			}
		}
		m.Codec = byte(r.Pick('j', 'p', 'f'))
	case "wsjson", "wspb":
		// the websocket sub-protocols have no status field (recorded finding of C04): outside the
		// supported field set here
		m.Code, m.Msg, m.HasCause, m.Cause = 0, nil, false, nil
	}
	return m
}

func c05xGen(r *hx.R, tier string) []string {
	n := 1500
	if tier == "thorough" {
		n = 15000
	}
	var ls []string
	for i := 0; i < n; i++ {
		proto := c05xProtos[r.Intn(len(c05xProtos))]
		cnt := 1 + r.Intn(4)
		if strings.HasPrefix(proto, "ws") {
			cnt = 1 // one websocket message per frame (ReadAll)
		}
		var ms []string
		for j := 0; j < cnt; j++ {
			ms = append(ms, strings.ReplaceAll(c05xGenMsg(r, proto).Line(), " ", ";"))
		}
		ls = append(ls, fmt.Sprintf("xrt proto=%s chunk=%d cseed=%d msgs=%s", proto, r.Intn(4), r.Intn(1000), strings.Join(ms, "|")))
	}
	return ls
}

// c05xSame compares the fields the protocol supports.
func c05xSame(proto string, a, b *M) string {
	x, y := *a, *b
	if proto == "http" {
		x.Meta, y.Meta = nil, nil
		if x.Code != 0 { // error response: only the status triple travels
			x.Body, y.Body, x.Codec, y.Codec = nil, nil, 0, 0
		}
		x.Seq, y.Seq = 0, 0 // checked separately when the header is present
	}
	if s, t := x.Line(), y.Line(); s != t {
		return "want " + s + " got " + t
	}
	return ""
}

func c05xRun(line string, f map[string]string, out *hx.Out) (string, bool) {
	c05xRegGzip()
	proto := f["proto"]
	chunk, _ := strconv.Atoi(f["chunk"])
	cseed, _ := strconv.Atoi(f["cseed"])
	socket.SetMessageSizeLimit(0)
	pf := c05xFunc(proto)
	var want []*M
	var stream []byte
	wr := newChunkReader(nil, 0, 0)
	packer := pf(wr)
	var sizes []uint32
	for _, ml := range strings.Split(f["msgs"], "|") {
		_, mf := hx.Fields("m " + strings.ReplaceAll(ml, ";", " "))
		m := parseM(mf)
		msg, err := m.toMessage()
		if err != nil {
			return "oracle-only", false
		}
		before := wr.written.Len()
		var perr error
		func() {
			defer func() {
				if e := recover(); e != nil {
					perr = fmt.Errorf("panic: %v", e)
				}
			}()
			perr = packer.Pack(msg)
		}()
		if perr != nil {
			out.Violate(line, "pack-accepts-supported-message", proto+": "+perr.Error(), "c05:"+proto+":pack-refused")
			return "oracle-only", true
		}
		sizes = append(sizes, msg.Size())
		want = append(want, m)
		_ = before
	}
	stream = append(stream, wr.written.Bytes()...)
	rd := newChunkReader(stream, chunk, int64(cseed))
	p := pf(rd)
	reused := socket.NewMessage()
	c05RetainStart()
	defer c05RetainCheck(line, out, "c05:"+proto+":decoded-message-aliases-read-buffer")
	for i, w := range want {
		var got *M
		var class string
		if cseed%2 == 0 { // half of the cases decode into one re-used message object
			got, class = unpackInto(p, reused)
		} else {
			got, class = unpackOne(p)
		}
		if class != "ok" {
			sig := "c05:" + proto + ":frame-sync"
			if proto == "wsjson" && len(w.Pipe) > 0 {
				// the sub-protocol embeds the FILTERED body into a JSON string (escapeBody)
				sig = "c05:wsjson:filtered-body-not-json-safe"
			}
			out.Violate(line, "roundtrip", fmt.Sprintf("%s frame %d of %d: unpack %s", proto, i, len(want), class), sig)
			break
		}
		if d := c05xSame(proto, w, got); d != "" {
			field := "fields"
			switch {
			case string(w.Body) != string(got.Body):
				field = "body"
			case w.Code != got.Code || string(w.Msg) != string(got.Msg) || string(w.Cause) != string(got.Cause) || w.HasCause != got.HasCause:
				field = "status"
			case hx.KVs(w.Meta) != hx.KVs(got.Meta):
				field = "meta"
			case string(w.Method) != string(got.Method):
				field = "method"
			case string(w.Pipe) != string(got.Pipe):
				field = "pipe"
			}
			sig := "c05:" + proto + ":roundtrip:" + field
			if field == "body" && (proto == "json" || (proto == "wsjson" && len(w.Pipe) == 0)) && c05jHasCtl(w.Body) {
				sig = "c05:" + proto + ":body-control-byte-not-escaped"
			} else if field == "body" && (proto == "json" || (proto == "wsjson" && len(w.Pipe) == 0)) && strings.Contains(string(w.Body), "\\") {
				sig = "c05:" + proto + ":body-backslash-not-escaped"
			} else if proto == "wsjson" && len(w.Pipe) > 0 {
				sig = "c05:wsjson:filtered-body-not-json-safe"
			}
			out.Violate(line, "roundtrip", fmt.Sprintf("%s frame %d: %s", proto, i, d), sig)
		}
	}
	// the size reported for a message depends on that message alone: pack the first message again,
	// on the same protocol object, after the other traffic
	if len(want) > 1 {
		msg, _ := want[0].toMessage()
		if err := packer.Pack(msg); err == nil && msg.Size() != sizes[0] {
			out.Violate(line, "size-depends-on-message-only", fmt.Sprintf("%s: size %d first, %d after %d other frames", proto, sizes[0], msg.Size(), len(want)-1), "c05:"+proto+":size-depends-on-traffic")
		}
	}
	out.Count("xrt:" + proto)
	return "oracle-only", true
}
