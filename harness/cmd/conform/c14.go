package main

// C14 — documented concurrent use of sessions and peers is free of data races (PARTIAL claim).
//
// The proof part is Lean (lockset / happens-before theorems + the regenerated site table checked
// against the declared guard map). This runner is SUPPORTING EVIDENCE ONLY, a test: it runs stress
// scenarios on real in-process peers under the Go race detector and canonicalises every report.
//
//	c14race scenario=<name> seed=<n>      observation: races=<sorted canonical signatures, or ->
//
// vcheck builds `conform` without -race, so Run executes a second binary, `conform-race`
// (go build -race -tags verif -gcflags=all=-d=checkptr=0, cached in $VERIF_WORK/bin, rebuilt by the go
// tool only when sources changed), as a child process per scenario:
//
//	C14_SCENARIO=<name> GORACE="halt_on_error=0 exitcode=0 log_path=..." conform-race c14stress -seed n ...
//
// Each "WARNING: DATA RACE" block is canonicalised to the innermost teleport frames of its two
// accesses: sig = c14:race:<file>:<funcA>|<funcB> (functions sorted, `Type.method`, closures folded into
// their outer function). The Lean handler prints the signatures its `knownRacy` list predicts for the
// scenario (every subset, since a race needs the right schedule to be observed); any other
// signature is a mismatch and every reported race is an oracle violation of the property
// ("no data race in documented-safe operations") with the report text as detail.
//
// Scenarios (sizes are fixed functions of the seed):
//
//	close   = sess plus session.Close from either end while the traffic is still running.
//	sess    K links between two peers; goroutines doing Call / AsyncCall on a shared completion channel /
//	        Push / handler replies in both directions, SetID (fresh ids), Swap().Store/Load, SetSessionAge /
//	        SetContextAge and getters, peer.GetSession / RangeSession / CountSession, accessors; both peers
//	        are closed (concurrently) once the traffic has drained; unique payload tokens are checked.
//	listen  ListenAndServe racing with peer.Close (the listeners map).
//	thrift  calls and pushes in both directions over the thrift binary protocol (pack/unpack counters); runs in
//	        its own program harness/cmd/c14thrift (the thriftproto import changes global configuration).
//	redial  a dialled TCP session with redial enabled whose connection the server keeps closing while other
//	        goroutines use the session (socket.Reset against readers of the embedded connection).
//	fresh   FIRST use of lazily created per-session state: a series of brand-new links; on each one, released
//	        by one start barrier immediately after the sessions exist, several goroutines make the first
//	        Swap().Store/Load/Len on the shared Session values of both ends while back-to-back calls are
//	        in flight whose handlers make their first ctx.Session().Swap().Store (and the read loops prepare
//	        the next contexts: SwapLen), next to first SetID / ID / age setters. Oracle of its own: every
//	        entry stored through Session.Swap() is still there afterwards (c14:swap-entry-lost).

import (
	"bytes"
	"context"
	"fmt"
	"net"
	"os"
	"os/exec"
	"path/filepath"
	"regexp"
	"sort"
	"strconv"
	"strings"
	"sync"
	"sync/atomic"
	"time"

	erpc "github.com/henrylee2cn/erpc/v6"

	"verif/harness/internal/hx"
)

func init() {
	props["c14"] = &Prop{Setup: c14Setup, Gen: c14Gen, Run: c14Run}
	props["c14stress"] = &Prop{
		Setup: func() { erpc.SetLoggerLevel("OFF") },
		Gen: func(r *hx.R, tier string, out *hx.Out) []string {
			return []string{"c14stress scenario=" + os.Getenv("C14_SCENARIO") + " seed=" + strconv.FormatInt(r.Int63n(1<<30), 10) + " tier=" + tier}
		},
		Run: c14StressRun,
	}
}

// ---------------------------------------------------------------------------------------------
// parent side: build the race binary, run scenarios, parse reports

var (
	c14RaceBin   string
	c14ThriftBin string
	c14BuildErr  string
	c14WorkDir   string
	c14BuildSecs float64
)

func c14Setup() {
	erpc.SetLoggerLevel("OFF")
	work := os.Getenv("VERIF_WORK")
	if work == "" {
		work = filepath.Join(os.TempDir(), "verif-work")
	}
	c14WorkDir = filepath.Join(work, "run", "C14", "race")
	os.MkdirAll(c14WorkDir, 0o755)
	os.MkdirAll(filepath.Join(work, "bin"), 0o755)
	c14RaceBin = filepath.Join(work, "bin", "conform-race")
	tmp := fmt.Sprintf("%s.%d", c14RaceBin, os.Getpid())
	// vcheck runs the harness with the module directory as working directory; otherwise it is
	// the sibling of $VERIF_WORK.
	dir := "."
	if _, err := os.Stat("go.mod"); err != nil {
		dir = filepath.Join(filepath.Dir(work), "harness")
	}
	cmd := exec.Command("go", "build", "-race", "-tags", "verif", "-gcflags=all=-d=checkptr=0", "-o", tmp, "./cmd/conform")
	cmd.Dir = dir
	cmd.Env = append(os.Environ(), "GOFLAGS=-mod=mod", "GOPROXY=off", "GOSUMDB=off", "GOTOOLCHAIN=local", "CGO_ENABLED=1")
	t0 := time.Now()
	b, err := cmd.CombinedOutput()
	c14BuildSecs = time.Since(t0).Seconds()
	if err != nil {
		c14BuildErr = fmt.Sprintf("race build failed: %v\n%s", err, b)
		os.Remove(tmp)
		return
	}
	if err := os.Rename(tmp, c14RaceBin); err != nil {
		c14BuildErr = "race build: " + err.Error()
		return
	}
	// the thrift scenario lives in its own program: importing proto/thriftproto switches the global
	// service-method mapper and default codec in its init, which must not happen inside `conform`.
	c14ThriftBin = filepath.Join(work, "bin", "c14thrift-race")
	tmp = fmt.Sprintf("%s.%d", c14ThriftBin, os.Getpid())
	cmd = exec.Command("go", "build", "-race", "-tags", "verif", "-gcflags=all=-d=checkptr=0", "-o", tmp, "./cmd/c14thrift")
	cmd.Dir = dir
	cmd.Env = append(os.Environ(), "GOFLAGS=-mod=mod", "GOPROXY=off", "GOSUMDB=off", "GOTOOLCHAIN=local", "CGO_ENABLED=1")
	b, err = cmd.CombinedOutput()
	c14BuildSecs = time.Since(t0).Seconds()
	if err != nil {
		c14BuildErr = fmt.Sprintf("race build (c14thrift) failed: %v\n%s", err, b)
		os.Remove(tmp)
		return
	}
	if err := os.Rename(tmp, c14ThriftBin); err != nil {
		c14BuildErr = "race build: " + err.Error()
	}
}

func c14Gen(r *hx.R, tier string, out *hx.Out) []string {
	var ls []string
	add := func(sc string) {
		ls = append(ls, fmt.Sprintf("c14race scenario=%s seed=%d", sc, 1+r.Intn(1<<20)))
	}
	if tier == "thorough" {
		for i := 0; i < 4; i++ {
			add("sess")
			add("close")
		}
		for i := 0; i < 3; i++ {
			add("listen")
			add("thrift")
			add("redial")
			add("fresh")
		}
		return ls
	}
	add("sess")
	add("close")
	add("listen")
	add("thrift")
	add("redial")
	add("fresh")
	return ls
}

var c14TierOfRun = "quick"

func c14Run(line string, out *hx.Out) (string, bool) {
	_, f := hx.Fields(line)
	sc, seed := f["scenario"], f["seed"]
	out.Count("scenario:" + sc)
	if c14BuildErr != "" {
		out.Violate(line, "race-build", c14BuildErr, "c14:race-build")
		return "races=?build", false
	}
	out.Extra["race_build_seconds"] = c14BuildSecs
	base := filepath.Join(c14WorkDir, fmt.Sprintf("%s-%s", sc, seed))
	old, _ := filepath.Glob(base + ".*")
	for _, o := range old {
		os.Remove(o)
	}
	ctx, cancel := context.WithTimeout(context.Background(), 150*time.Second)
	defer cancel()
	cmd := exec.CommandContext(ctx, c14RaceBin, "c14stress", "-seed", seed, "-tier", c14TierOfRun,
		"-cases", base+".cases", "-obs", base+".obs", "-stats", base+".stats")
	if sc == "thrift" {
		cmd = exec.CommandContext(ctx, c14ThriftBin, "-seed", seed, "-obs", base+".obs")
	}
	cmd.Env = append(os.Environ(), "C14_SCENARIO="+sc,
		"GORACE=halt_on_error=0 exitcode=0 history_size=5 log_path="+base+".racelog")
	var stderr bytes.Buffer
	cmd.Stdout, cmd.Stderr = &stderr, &stderr
	err := cmd.Run()
	crashed := false
	if err != nil {
		crashed = true
		all := stderr.String()
		tail := all
		if len(tail) > 3000 {
			tail = tail[len(tail)-3000:]
		}
		sig := "c14:stress-exit:" + sc
		if i := strings.Index(all, "panic: "); i >= 0 {
			msg := all[i:]
			if j := strings.IndexByte(msg, '\n'); j >= 0 {
				msg = msg[:j]
			}
			switch {
			case strings.Contains(msg, "WaitGroup is reused before previous Wait has returned"):
				sig = "c14:crash:waitgroup-reused"
			case strings.Contains(msg, "WaitGroup misuse"):
				sig = "c14:crash:waitgroup-misuse"
			case strings.Contains(msg, "negative WaitGroup counter"):
				sig = "c14:crash:waitgroup-negative"
			case strings.Contains(msg, "concurrent map"):
				sig = "c14:crash:concurrent-map"
			}
			if j := strings.Index(all[i:], "\n\ngoroutine "); j >= 0 && len(all[i:]) > j+1500 {
				tail = all[i : i+j+1500]
			}
		}
		out.Count("crash:" + sig)
		out.Violate(line, "stress-run", fmt.Sprintf("scenario process died (%v) in scenario %s seed %s:\n%s", err, sc, seed, tail), sig)
	}
	// the child's own observation: ops done and token oracle
	if b, err := os.ReadFile(base + ".obs"); err == nil {
		o := strings.TrimSpace(string(b))
		for _, tok := range strings.Fields(o) {
			if strings.HasPrefix(tok, "ops=") {
				n, _ := strconv.Atoi(tok[4:])
				out.Hist["ops:"+sc] += n
			}
			if strings.HasPrefix(tok, "bad=") && tok != "bad=0" {
				out.Violate(line, "token-integrity", "a reply/push carried a token other than the one sent: "+o, "c14:token-mismatch:"+sc)
			}
			if strings.HasPrefix(tok, "lost=") && tok != "lost=0" {
				out.Violate(line, "swap-entries-kept", "entries stored through Session.Swap() by concurrent first users of a fresh session are gone afterwards (the swap map was created more than once): "+o, "c14:swap-entry-lost")
			}
		}
	}
	logs, _ := filepath.Glob(base + ".racelog.*")
	var text []byte
	for _, l := range logs {
		b, _ := os.ReadFile(l)
		text = append(text, b...)
	}
	reps := c14ParseReports(string(text))
	sigs := map[string]string{}
	for _, rp := range reps {
		out.Count("report")
		if _, ok := sigs[rp.sig]; !ok {
			sigs[rp.sig] = rp.text
		}
	}
	var keys []string
	for k := range sigs {
		keys = append(keys, k)
	}
	sort.Strings(keys)
	for _, k := range keys {
		out.Count("sig:" + k)
		t := sigs[k]
		if len(t) > 5000 {
			t = t[:5000]
		}
		out.Violate(line, "no-data-race", "Go race detector report in scenario "+sc+" (seed "+seed+"):\n"+t, k)
	}
	_ = crashed
	if len(keys) == 0 {
		return "races=-", true
	}
	return "races=" + strings.Join(keys, ","), true
}

type c14Report struct{ sig, text string }

var (
	c14AccessRe     = regexp.MustCompile(`^(Previous )?(read|write|atomic read|atomic write|Read|Write|Atomic read|Atomic write) at 0x[0-9a-f]+ by `)
	c14SocketConnRe = regexp.MustCompile(`erpc/v6/socket\.\(\*socket\)\.(RemoteAddr|LocalAddr|SetDeadline|SetReadDeadline|SetWriteDeadline|Write|ID|RawLocked)\(\)`)
	c14FuncNRe      = regexp.MustCompile(`(\.func\d+|\.\d+|\.gowrap\d+)+$`)
)

// c14Canon turns a frame's function into `Type.method` / `func` with its teleport-relative package.
func c14Canon(fn string) (string, bool) {
	const mod = "github.com/henrylee2cn/erpc/v6"
	fn = strings.TrimSuffix(strings.TrimSpace(fn), "()")
	if !strings.HasPrefix(fn, mod) {
		return "", false
	}
	rest := fn[len(mod):] // "/socket.(*socket).Reset" or ".(*session).Close.func1"
	i := strings.LastIndexByte(rest, '/')
	rest = rest[i+1:] // "socket.(*socket).Reset" or ".(*session).Close.func1"
	if j := strings.IndexByte(rest, '.'); j >= 0 {
		rest = rest[j+1:]
	}
	rest = c14FuncNRe.ReplaceAllString(rest, "")
	rest = strings.NewReplacer("(*", "", ")", "").Replace(rest)
	return rest, true
}

func c14ParseReports(text string) []c14Report {
	var out []c14Report
	for _, blk := range strings.Split(text, "==================") {
		if !strings.Contains(blk, "WARNING: DATA RACE") {
			continue
		}
		lines := strings.Split(blk, "\n")
		var accs []string // canonical "file:func" per access section
		for i := 0; i < len(lines); i++ {
			if !c14AccessRe.MatchString(lines[i]) {
				continue
			}
			found := ""
			first := ""
			for j := i + 1; j+1 < len(lines) && strings.TrimSpace(lines[j]) != ""; j += 2 {
				fn := strings.TrimSpace(lines[j])
				loc := strings.TrimSpace(lines[j+1])
				path := strings.SplitN(loc, ":", 2)[0]
				file := filepath.Base(path)
				if first == "" {
					first = file + ":" + strings.TrimSuffix(fn, "()")
				}
				c, ok := c14Canon(fn)
				if !ok {
					if found != "" {
						break // left the protocol package through a library frame: keep the last one
					}
					continue
				}
				switch {
				case strings.HasSuffix(path, "utils/rw_counter.go"):
					// helper object: the receiver type identifies the shared counter ...
					found = file + ":" + strings.SplitN(c, ".", 2)[0]
					// ... unless the counter is reached from INSIDE the thrift library (the counter is the
					// THeaderTransport's underlying writer/reader): then the unit in question is the one
					// THeaderProtocol object that tBinaryProto / tStructProto share between Pack and Unpack,
					// and the access is attributed to the protocol's entry point like any other access
					// inside that object. A direct call from the protocol package (e.g. Unpack calling
					// WriteCounter.Zero itself, the defect fixed by a5c585e) keeps the counter signature.
					viaLib := false
					for k := j + 2; k+1 < len(lines) && strings.TrimSpace(lines[k]) != ""; k += 2 {
						fn2 := strings.TrimSpace(lines[k])
						path2 := strings.SplitN(strings.TrimSpace(lines[k+1]), ":", 2)[0]
						if strings.Contains(fn2, "apache/thrift") {
							viaLib = true
							continue
						}
						if viaLib && strings.Contains(path2, "/proto/thriftproto/") {
							if c2, ok2 := c14Canon(fn2); ok2 {
								found = filepath.Base(path2) + ":" + c2
							}
						}
					}
				case strings.Contains(path, "/proto/"):
					// protocol implementations: climb to the outermost frame of the protocol package
					// (its Pack / Unpack entry), the unit whose concurrent use is in question
					found = file + ":" + c
					continue
				default:
					if found == "" {
						found = file + ":" + c
					}
				}
				break
			}
			if found == "" {
				found = "outside:" + first
			}
			accs = append(accs, found)
			if len(accs) == 2 {
				break
			}
		}
		// a report whose stack goes through a promoted net.Conn method of the embedded socket.Conn (the
		// compiler-generated wrapper) or through socket.ID is attributed to the watched field socket.Conn
		// ... and so is every report with the client redial on one of its stacks (access or goroutine
		// creation): redialForClient replaces the connection inside the shared socket object
		// (socket.Reset) while goroutines of the lost connection (its reader in readDisconnected /
		// socket.Read, writers) still use it - one defect, many (function, function) pairs.
		if c14SocketConnRe.MatchString(blk) || strings.Contains(blk, "redialForClient") {
			out = append(out, c14Report{sig: "c14:race:socket.go:socket.Conn", text: strings.TrimSpace(blk)})
			continue
		}
		for len(accs) < 2 {
			accs = append(accs, "unknown:unknown")
		}
		a, b := accs[0], accs[1]
		fa, fb := a[strings.IndexByte(a, ':')+1:], b[strings.IndexByte(b, ':')+1:]
		if fb < fa {
			a, b, fa, fb = b, a, fb, fa
		}
		file := a[:strings.IndexByte(a, ':')]
		out = append(out, c14Report{sig: "c14:race:" + file + ":" + fa + "|" + fb, text: strings.TrimSpace(blk)})
	}
	return out
}

// ---------------------------------------------------------------------------------------------
// child side: the stress scenarios (run inside the -race binary)

// c14Ager: the age setters are declared on PreSession; the session object implements them.
type c14Ager interface {
	SetSessionAge(time.Duration)
	SetContextAge(time.Duration)
}

type C14Svc struct{ erpc.CallCtx }

// Echo replies with its argument (the reply travels back on the session the call came in on).
func (c *C14Svc) Echo(arg *string) (string, *erpc.Status) {
	c.Swap().Store("seen", *arg)
	return *arg, nil
}

type C14Note struct{ erpc.PushCtx }

// Mark makes the handler's (possibly the session's first) access to the SESSION swap.
func (c *C14Svc) Mark(arg *string) (string, *erpc.Status) {
	c.Session().Swap().Store(*arg, true)
	return *arg, nil
}

var c14Pushed sync.Map
var c14PushCount, c14Ops, c14Bad, c14Lost int64

func (c *C14Note) Note(arg *string) *erpc.Status {
	c14Pushed.Store(*arg, true)
	atomic.AddInt64(&c14PushCount, 1)
	return nil
}

func c14NewPeer(cfg erpc.PeerConfig) erpc.Peer {
	p := erpc.NewPeer(cfg)
	p.RouteCall(new(C14Svc))
	p.RoutePush(new(C14Note))
	return p
}

const (
	c14Echo = "/c14_svc/echo"
	c14Mark = "/c14_svc/mark"
	c14Note = "/c14_note/note"
)

func c14StressRun(line string, out *hx.Out) (string, bool) {
	_, f := hx.Fields(line)
	seed, _ := strconv.ParseInt(f["seed"], 10, 64)
	r := hx.NewR(seed)
	done := make(chan string, 1)
	go func() {
		switch f["scenario"] {
		case "sess":
			done <- c14Sess(r, f["tier"], false)
		case "close":
			done <- c14Sess(r, f["tier"], true)
		case "listen":
			done <- c14Listen(r)
		case "redial":
			done <- c14Redial(r)
		case "fresh":
			done <- c14Fresh(r, f["tier"])
		default:
			done <- "unknown-scenario"
		}
	}()
	select {
	case s := <-done:
		return fmt.Sprintf("%s ops=%d bad=%d lost=%d", s, atomic.LoadInt64(&c14Ops), atomic.LoadInt64(&c14Bad), atomic.LoadInt64(&c14Lost)), true
	case <-time.After(120 * time.Second):
		fmt.Fprintln(os.Stderr, "c14stress: scenario timed out")
		os.Exit(3)
	}
	return "", false
}

// c14Traffic runs n calls/pushes with unique tokens on sess and checks every successful reply.
func c14Call(sess erpc.Session, tok string, setting ...erpc.MessageSetting) {
	var reply string
	cmd := sess.Call(c14Echo, tok, &reply, setting...)
	atomic.AddInt64(&c14Ops, 1)
	if cmd.StatusOK() {
		if reply != tok {
			atomic.AddInt64(&c14Bad, 1)
		}
		_ = cmd.CostTime()
		_ = cmd.InputMeta()
		_ = cmd.InputBodyCodec()
	}
}

func c14Sess(r *hx.R, tier string, midClose bool) string {
	nLinks, nOps, g := 3, 40+r.Intn(20), 2
	if tier == "thorough" {
		nLinks, nOps, g = 4, 150+r.Intn(100), 3
	}
	srv := c14NewPeer(erpc.PeerConfig{CountTime: true})
	cli := c14NewPeer(erpc.PeerConfig{CountTime: true})
	links := make([]*link, nLinks)
	for i := range links {
		links[i] = connect(cli, srv, fmt.Sprintf("c14l%d", i))
		if links[i].A == nil || links[i].B == nil {
			return "connect-failed"
		}
	}
	var wg sync.WaitGroup
	spawn := func(fn func()) {
		wg.Add(1)
		go func() {
			defer wg.Done()
			defer func() { recover() }()
			fn()
		}()
	}
	var idSeq int64
	for li, l := range links {
		li, l := li, l
		for k := 0; k < g; k++ {
			k := k
			// synchronous calls, both directions
			spawn(func() {
				for i := 0; i < nOps; i++ {
					c14Call(l.A, fmt.Sprintf("a-%d-%d-%d", li, k, i))
				}
			})
			spawn(func() {
				for i := 0; i < nOps; i++ {
					c14Call(l.B, fmt.Sprintf("b-%d-%d-%d", li, k, i))
				}
			})
			// pushes, both directions
			spawn(func() {
				for i := 0; i < nOps; i++ {
					l.A.Push(c14Note, fmt.Sprintf("pa-%d-%d-%d", li, k, i))
					l.B.Push(c14Note, fmt.Sprintf("pb-%d-%d-%d", li, k, i))
					atomic.AddInt64(&c14Ops, 2)
				}
			})
		}
		// asynchronous calls on one shared completion channel
		spawn(func() {
			ch := make(chan erpc.CallCmd, nOps*g)
			replies := make([]string, nOps*g)
			toks := make([]string, nOps*g)
			var awg sync.WaitGroup
			for k := 0; k < g; k++ {
				k := k
				awg.Add(1)
				go func() {
					defer awg.Done()
					defer func() { recover() }()
					for i := 0; i < nOps; i++ {
						n := k*nOps + i
						toks[n] = fmt.Sprintf("as-%d-%d", li, n)
						l.A.AsyncCall(c14Echo, toks[n], &replies[n], ch, erpc.WithSetMeta("n", strconv.Itoa(n)))
					}
				}()
			}
			awg.Wait()
			for i := 0; i < nOps*g; i++ {
				select {
				case cmd := <-ch:
					atomic.AddInt64(&c14Ops, 1)
					if cmd.StatusOK() {
						n, _ := strconv.Atoi(string(cmd.Output().Meta().Peek("n")))
						rp, _ := cmd.Reply()
						if p, ok := rp.(*string); !ok || *p != toks[n] {
							atomic.AddInt64(&c14Bad, 1)
						}
					}
				case <-time.After(20 * time.Second):
					return
				}
			}
		})
		// id changes with fresh ids, from both ends
		spawn(func() {
			for i := 0; i < nOps/2; i++ {
				l.A.SetID(fmt.Sprintf("c14-id-a-%d", atomic.AddInt64(&idSeq, 1)))
				l.B.SetID(fmt.Sprintf("c14-id-b-%d", atomic.AddInt64(&idSeq, 1)))
				atomic.AddInt64(&c14Ops, 2)
			}
		})
		// swap access
		spawn(func() {
			for i := 0; i < nOps; i++ {
				l.A.Swap().Store(i%7, i)
				l.A.Swap().Load((i + 3) % 7)
				l.B.Swap().Store("k", i)
				_ = l.B.Swap().Len()
				atomic.AddInt64(&c14Ops, 4)
			}
		})
		// ages
		spawn(func() {
			for i := 0; i < nOps; i++ {
				l.A.(c14Ager).SetContextAge(time.Duration(1+i%3) * time.Hour)
				_ = l.A.ContextAge()
				l.B.(c14Ager).SetSessionAge(time.Duration(i%2) * 2 * time.Hour)
				_ = l.B.SessionAge()
				atomic.AddInt64(&c14Ops, 4)
			}
		})
		// accessors
		spawn(func() {
			for i := 0; i < nOps; i++ {
				_ = l.A.ID()
				_ = l.A.RemoteAddr()
				_ = l.B.LocalAddr()
				_ = l.A.Health()
				_ = l.B.Peer()
				atomic.AddInt64(&c14Ops, 5)
			}
		})
	}
	// peer-level lookup and enumeration
	for _, p := range []erpc.Peer{cli, srv} {
		p := p
		spawn(func() {
			for i := 0; i < nOps*2; i++ {
				if s, ok := p.GetSession(fmt.Sprintf("c14-id-a-%d", i)); ok {
					_ = s.ID()
				}
				p.RangeSession(func(s erpc.Session) bool { _ = s.ID(); _ = s.Health(); return true })
				_ = p.CountSession()
				atomic.AddInt64(&c14Ops, 3)
			}
		})
	}
	// closes while traffic is still running: link 0 from the A end, link 1 from the B end
	if midClose {
		spawn(func() {
			waitUntil(5*time.Second, func() bool { return atomic.LoadInt64(&c14Ops) > int64(nOps) })
			links[0].A.Close()
			atomic.AddInt64(&c14Ops, 1)
		})
		spawn(func() {
			waitUntil(5*time.Second, func() bool { return atomic.LoadInt64(&c14Ops) > int64(2*nOps) })
			links[1].B.Close()
			atomic.AddInt64(&c14Ops, 1)
		})
	}
	fin := make(chan struct{})
	go func() { wg.Wait(); close(fin) }()
	select {
	case <-fin:
	case <-time.After(60 * time.Second):
		return "sess-hung"
	}
	var cwg sync.WaitGroup
	cwg.Add(2)
	go func() { defer cwg.Done(); cli.Close() }()
	go func() { defer cwg.Done(); srv.Close() }()
	cwg.Wait()
	return "sess-done"
}

// c14Fresh: the first accesses to lazily created per-session state happen concurrently, on many fresh links.
func c14Fresh(r *hx.R, tier string) string {
	rounds := 12 + r.Intn(6)
	if tier == "thorough" {
		rounds = 40 + r.Intn(20)
	}
	srv := c14NewPeer(erpc.PeerConfig{CountTime: true})
	cli := c14NewPeer(erpc.PeerConfig{CountTime: true})
	for i := 0; i < rounds; i++ {
		l := connect(cli, srv, fmt.Sprintf("c14f%d", i))
		if l.A == nil || l.B == nil {
			return "connect-failed"
		}
		// what takes part in this round (always at least two first users of one session's swap)
		nCalls := r.Intn(4) // back-to-back A->B calls whose handlers touch B's session swap
		nBack := r.Intn(3)  // B->A calls: handlers touch A's session swap
		gA := r.Intn(3)     // goroutines sharing the Session value l.A
		gB := r.Intn(3)     // goroutines sharing the Session value l.B
		if nCalls+gB < 2 {
			gB = 2 - nCalls
		}
		if nBack+gA < 2 && r.Intn(2) == 0 {
			gA = 2 - nBack
		}
		withIDs := r.Intn(3) == 0
		type stored struct {
			sess erpc.Session
			key  interface{}
		}
		var mu sync.Mutex
		var kept []stored
		keep := func(s erpc.Session, k interface{}) { mu.Lock(); kept = append(kept, stored{s, k}); mu.Unlock() }
		start := make(chan struct{})
		var wg sync.WaitGroup
		spawn := func(fn func()) {
			wg.Add(1)
			go func() {
				defer wg.Done()
				defer func() { recover() }()
				<-start
				fn()
			}()
		}
		call := func(from, to erpc.Session, tok string) {
			var reply string
			cmd := from.Call(c14Mark, tok, &reply)
			atomic.AddInt64(&c14Ops, 1)
			if cmd.StatusOK() {
				if reply != tok {
					atomic.AddInt64(&c14Bad, 1)
				}
				keep(to, tok)
			}
		}
		for k := 0; k < nCalls; k++ {
			tok := fmt.Sprintf("fc-%d-%d", i, k)
			spawn(func() { call(l.A, l.B, tok) })
		}
		for k := 0; k < nBack; k++ {
			tok := fmt.Sprintf("fb-%d-%d", i, k)
			spawn(func() { call(l.B, l.A, tok) })
		}
		direct := func(s erpc.Session, tag string, k int) {
			switch k % 3 {
			case 0:
				key := fmt.Sprintf("%s-%d-%d", tag, i, k)
				s.Swap().Store(key, k)
				keep(s, key)
			case 1:
				s.Swap().Load("nothing")
				key := fmt.Sprintf("%s-%d-%d", tag, i, k)
				s.Swap().Store(key, k)
				keep(s, key)
			default:
				_ = s.Swap().Len()
			}
			atomic.AddInt64(&c14Ops, 1)
		}
		for k := 0; k < gA; k++ {
			k := k
			spawn(func() { direct(l.A, "ga", k) })
		}
		for k := 0; k < gB; k++ {
			k := k
			spawn(func() { direct(l.B, "gb", k) })
		}
		if withIDs {
			spawn(func() { l.B.SetID(fmt.Sprintf("c14-fresh-b-%d", i)); _ = l.B.ID() })
			spawn(func() { _ = l.A.ID(); l.A.(c14Ager).SetContextAge(time.Hour); _ = l.A.SessionAge() })
		}
		close(start)
		fin := make(chan struct{})
		go func() { wg.Wait(); close(fin) }()
		select {
		case <-fin:
		case <-time.After(30 * time.Second):
			return "fresh-hung"
		}
		for _, st := range kept {
			if _, ok := st.sess.Swap().Load(st.key); !ok {
				atomic.AddInt64(&c14Lost, 1)
			}
		}
	}
	var cwg sync.WaitGroup
	cwg.Add(2)
	go func() { defer cwg.Done(); cli.Close() }()
	go func() { defer cwg.Done(); srv.Close() }()
	cwg.Wait()
	return "fresh-done"
}

// c14FreePort asks the kernel for a free loopback port (a failed listen is fatal inside teleport).
func c14FreePort() uint16 {
	l, err := net.Listen("tcp", "127.0.0.1:0")
	if err != nil {
		return 0
	}
	defer l.Close()
	return uint16(l.Addr().(*net.TCPAddr).Port)
}

// c14Listen: ListenAndServe against Close.
func c14Listen(r *hx.R) string {
	n := 3 + r.Intn(3)
	for i := 0; i < n; i++ {
		srv := c14NewPeer(erpc.PeerConfig{LocalIP: "127.0.0.1", ListenPort: c14FreePort()})
		errc := make(chan error, 1)
		go func() { errc <- srv.ListenAndServe() }()
		if i%2 == 1 {
			time.Sleep(time.Duration(1+r.Intn(5)) * time.Millisecond)
		}
		srv.Close()
		atomic.AddInt64(&c14Ops, 2)
		select {
		case <-errc:
		case <-time.After(3 * time.Second):
			// the listener was registered after Close ranged over the map: it is never closed
		}
	}
	return "listen-done"
}

type c14ListenHook struct{ addr chan net.Addr }

func (h *c14ListenHook) Name() string { return "c14-listen-hook" }
func (h *c14ListenHook) PostListen(a net.Addr) error {
	h.addr <- a
	return nil
}

// c14Redial: a dialled session with redial enabled; the server keeps closing its end.
func c14Redial(r *hx.R) string {
	hook := &c14ListenHook{addr: make(chan net.Addr, 1)}
	srv := erpc.NewPeer(erpc.PeerConfig{LocalIP: "127.0.0.1", ListenPort: 0}, hook)
	srv.RouteCall(new(C14Svc))
	srv.RoutePush(new(C14Note))
	go srv.ListenAndServe()
	var addr net.Addr
	select {
	case addr = <-hook.addr:
	case <-time.After(5 * time.Second):
		return "listen-failed"
	}
	cli := c14NewPeer(erpc.PeerConfig{RedialTimes: 5, RedialInterval: time.Millisecond})
	sess, st := cli.Dial(addr.String())
	if !st.OK() {
		return "dial-failed"
	}
	nOps := 60 + r.Intn(30)
	var wg sync.WaitGroup
	stop := int32(0)
	wg.Add(3)
	go func() {
		defer wg.Done()
		defer func() { recover() }()
		for i := 0; i < nOps; i++ {
			c14Call(sess, fmt.Sprintf("r-%d", i))
		}
		atomic.StoreInt32(&stop, 1)
	}()
	go func() {
		defer wg.Done()
		defer func() { recover() }()
		for atomic.LoadInt32(&stop) == 0 {
			_ = sess.ID()
			_ = sess.RemoteAddr()
			_ = sess.LocalAddr()
			_ = sess.Health()
			atomic.AddInt64(&c14Ops, 4)
		}
	}()
	go func() {
		defer wg.Done()
		defer func() { recover() }()
		for i := 0; atomic.LoadInt32(&stop) == 0 && i < 12; i++ {
			time.Sleep(time.Duration(2+r.Intn(4)) * time.Millisecond)
			srv.RangeSession(func(s erpc.Session) bool { s.Close(); return true })
		}
	}()
	fin := make(chan struct{})
	go func() { wg.Wait(); close(fin) }()
	select {
	case <-fin:
	case <-time.After(60 * time.Second):
		return "redial-hung"
	}
	cli.Close()
	srv.Close()
	return "redial-done"
}
