package main

// C11 — body codecs round-trip their value domain and fail cleanly on garbage.
//
// Case kinds (see lean/Teleport/Drv/C11.lean for the value syntax):
//
//	plain-rt  ty= vseed= ptr= val=      Marshal + Unmarshal into new(T) with the real PlainCodec
//	plain-nil                           Marshal(nil)
//	plain-dec ty= dseed= mode= dst= data=   Unmarshal(data) into a prepared destination (garbage stream)
//	form-rt   ty= vseed= ptr= val=      FormCodec on a struct of the type bank
//	form-nil
//	form-dec  ty= dseed= dst= data=     garbage / over-long / bad-number query strings into every bank type
//	form-map  dk= q=                    url.Values through the form codec
//	wrap-arm  lib= arg= form= emptyenc= data=   nil / struct{} / non-message arms of protobuf, thrift
//	reg       id=                       codec.Get
//	body      b= codec= cur= data=      socket.Message MarshalBody / UnmarshalBody with byte-slice bodies
//	lib-rt    codec= vseed= mode=       json/xml/protobuf/thrift: round-trip oracle only (a TEST, not a proof)
//	float-rt  codec= vseed=             float fields of plain/form: round-trip oracle only (a TEST)

import (
	"bytes"
	"fmt"
	"math"
	"net/url"
	"reflect"
	"sort"
	"strconv"
	"strings"
	"unicode/utf8"
	"unsafe"

	"git.apache.org/thrift.git/lib/go/thrift"
	"github.com/gogo/protobuf/proto"
	erpc "github.com/henrylee2cn/erpc/v6"
	"github.com/henrylee2cn/erpc/v6/codec"
	pbbench "github.com/henrylee2cn/erpc/v6/examples/bench/msg"
	"github.com/henrylee2cn/erpc/v6/socket"
	pbtest "github.com/henrylee2cn/erpc/v6/socket/example/pb"

	"verif/harness/internal/hx"
)

func init() {
	props["c11"] = &Prop{Setup: func() { erpc.SetLoggerLevel("OFF") }, Gen: c11Gen, Run: c11Run}
}

// ---------------------------------------------------------------------------------------------
// the type bank (mirrors the model's value universe)

type (
	c11S string
	c11I int32
	c11B []byte
	c11U uint16
)

var c11PlainTypes = []reflect.Type{
	reflect.TypeOf(false), reflect.TypeOf(int(0)), reflect.TypeOf(int8(0)), reflect.TypeOf(int16(0)),
	reflect.TypeOf(int32(0)), reflect.TypeOf(int64(0)), reflect.TypeOf(uint(0)), reflect.TypeOf(uint8(0)),
	reflect.TypeOf(uint16(0)), reflect.TypeOf(uint32(0)), reflect.TypeOf(uint64(0)), reflect.TypeOf(""),
	reflect.TypeOf([]byte(nil)), reflect.TypeOf(c11S("")), reflect.TypeOf(c11I(0)), reflect.TypeOf(c11B(nil)),
	reflect.TypeOf(c11U(0)),
	// refused by the plain codec
	reflect.TypeOf([]int(nil)), reflect.TypeOf([2]int8{}), reflect.TypeOf(FInner{}), reflect.TypeOf(map[string]int(nil)),
}

const c11PlainSupported = 17 // the first 17 types are the plain codec's supported domain

type FScalars struct {
	B   bool
	I   int
	I8  int8
	I16 int16
	I32 int32
	I64 int64
	U   uint
	U8  uint8
	U16 uint16
	U32 uint32
	U64 uint64
	S   string
}

type FTagged struct {
	A string `form:"a"`
	B int32  `form:"b c"`
	C uint64 `form:"k&=%+;"`
	D bool   `form:"é/~"`
	E c11I   `form:"-"`
	F c11S
}

type FSeqs struct {
	Ints  []int
	I8s   []int8   `form:"i8"`
	U64s  []uint64 `form:"u64"`
	Strs  []string `form:"s"`
	Bools []bool
	Raw   []byte `form:"raw"`
	U16s  []c11U
}

type FArrays struct {
	A0 [0]int32
	A1 [1]string
	A2 [2]uint16 `form:"a2"`
	A5 [5]int64
	AB [3]bool
	AY [4]byte `form:"ay"`
}

type FInner struct {
	X  int16
	Y  string `form:"y"`
	Zs []uint8
}

type FEmb struct{ P int64 }

type FNested struct {
	Head string
	In   FInner
	Deep struct {
		In2 struct {
			Q int64 `form:"q"`
			W []string
		}
		R bool
	}
	FEmb
	Tail uint8 `form:"tail"`
}

type FTaggedStruct struct {
	A  int
	In FInner `form:"in"`
	B  string
}

type FUnexp struct {
	A int32
	b string
	c []int
	d FInner
	E string
}

type FOther struct {
	A  string
	M  map[string]int
	PP [][]byte `form:"pp"`
	SS []FInner
	AA [2][2]int
	E  int
}

type FCollide struct {
	A  int    `form:"k"`
	B  string `form:"k"`
	C  []int8 `form:"k"`
	In struct {
		A int8 `form:"k"`
		D int
	}
	D int
}

type FOne struct {
	V []int32 `form:"v"`
}

type FArr2 struct {
	P [2]int32 `form:"p"`
	Q [3]uint8
}

type FEmpty struct{}

var c11FormTypes = []reflect.Type{
	reflect.TypeOf(FScalars{}), reflect.TypeOf(FTagged{}), reflect.TypeOf(FSeqs{}), reflect.TypeOf(FArrays{}),
	reflect.TypeOf(FInner{}), reflect.TypeOf(FNested{}), reflect.TypeOf(FOne{}), reflect.TypeOf(FArr2{}), reflect.TypeOf(FEmpty{}),
	// outside the supported domain (tagged nested struct, unexported fields, kinds the codec does not know, key collisions)
	reflect.TypeOf(FTaggedStruct{}), reflect.TypeOf(FUnexp{}), reflect.TypeOf(FOther{}), reflect.TypeOf(FCollide{}),
	// not a struct at all
	reflect.TypeOf(int32(0)), reflect.TypeOf([]string(nil)),
}

const c11FormSupported = 9

// floats (not in the model): round-trip oracle only
type FFloats struct {
	F32  float32
	F64  float64
	Fs   []float64 `form:"fs"`
	Name string
}

// ---------------------------------------------------------------------------------------------
// Go value -> model syntax

func c11Kind(t reflect.Type) string {
	switch t.Kind() {
	case reflect.Bool:
		return "b"
	case reflect.Int:
		return "i0"
	case reflect.Int8, reflect.Int16, reflect.Int32, reflect.Int64:
		return "i" + strconv.Itoa(t.Bits())
	case reflect.Uint:
		return "u0"
	case reflect.Uint8, reflect.Uint16, reflect.Uint32, reflect.Uint64:
		return "u" + strconv.Itoa(t.Bits())
	case reflect.String:
		return "s"
	case reflect.Slice:
		if t.Elem().Kind() == reflect.Uint8 {
			return "y"
		}
	}
	return "o"
}

func c11Sc(v reflect.Value) string {
	k := c11Kind(v.Type())
	switch k[0] {
	case 'b':
		if v.Bool() {
			return "b1"
		}
		return "b0"
	case 'i':
		return k + ":" + strconv.FormatInt(v.Int(), 10)
	case 'u':
		return k + ":" + strconv.FormatUint(v.Uint(), 10)
	case 's':
		return "s:" + hx.Hex([]byte(v.String()))
	case 'y':
		b := make([]byte, v.Len())
		for i := range b {
			b[i] = byte(v.Index(i).Uint())
		}
		return "y:" + hx.Hex(b)
	}
	return "o"
}

func c11Val(v reflect.Value) string {
	t := v.Type()
	switch t.Kind() {
	case reflect.Slice, reflect.Array:
		if t.Kind() == reflect.Slice && t.Elem().Kind() == reflect.Uint8 {
			return c11Sc(v)
		}
		parts := make([]string, v.Len())
		for i := range parts {
			parts[i] = c11Sc(v.Index(i))
		}
		p := "L"
		if t.Kind() == reflect.Array {
			p = "A"
		}
		return p + c11Kind(t.Elem()) + "[" + strings.Join(parts, ",") + "]"
	case reflect.Struct:
		parts := make([]string, t.NumField())
		for i := range parts {
			f := t.Field(i)
			s := "0"
			if f.PkgPath == "" {
				s = "1"
			}
			parts[i] = hx.Hex([]byte(f.Name)) + "/" + hx.Hex([]byte(f.Tag.Get("form"))) + "/" + s + "~" + c11Val(v.Field(i))
		}
		return "{" + strings.Join(parts, ";") + "}"
	}
	return c11Sc(v)
}

// ---------------------------------------------------------------------------------------------
// type-directed value generation

func c11Settable(v reflect.Value) reflect.Value {
	if v.CanSet() {
		return v
	}
	return reflect.NewAt(v.Type(), unsafe.Pointer(v.UnsafeAddr())).Elem()
}

func c11GenInt(r *hx.R, bits int) int64 {
	min := int64(-1) << uint(bits-1)
	max := -(min + 1)
	switch r.Intn(8) {
	case 0:
		return min
	case 1:
		return max
	case 2:
		return 0
	case 3:
		return -1
	case 4:
		return int64(r.Intn(200)) - 100
	}
	x := int64(r.Uint64())
	if bits < 64 {
		x >>= uint(64 - bits) // arithmetic shift keeps the sign: uniform over the N-bit range
	}
	return x
}

func c11GenUint(r *hx.R, bits int) uint64 {
	max := ^uint64(0) >> uint(64-bits)
	switch r.Intn(6) {
	case 0:
		return max
	case 1:
		return 0
	case 2:
		return uint64(r.Intn(300))
	}
	return r.Uint64() & max
}

func c11GenLen(r *hx.R) int {
	return r.Pick(0, 1, 2, 2, 3, 3, 5, 9)
}

func c11GenBytes(r *hx.R) []byte {
	switch r.Intn(8) {
	case 0:
		return nil
	case 1: // every byte value once, rotated
		b := make([]byte, 256)
		o := r.Intn(256)
		for i := range b {
			b[i] = byte(i + o)
		}
		return b
	case 2: // valid multi-byte UTF-8
		return []byte(string([]rune{rune(0x80 + r.Intn(0x700)), rune(0x800 + r.Intn(0xf000-0x800)), rune(0x10000 + r.Intn(0x100000))}))
	case 3: // things strconv would accept
		return []byte(c11PickS(r, "0", "-1", "true", "1e9", "+5", " 1", "0x10", "9223372036854775808"))
	}
	return r.AnyBytes(r.Pick(1, 1, 2, 3, 7, 20))
}

func c11Fill(r *hx.R, v reflect.Value) {
	v = c11Settable(v)
	t := v.Type()
	switch t.Kind() {
	case reflect.Bool:
		v.SetBool(r.Intn(2) == 0)
	case reflect.Int, reflect.Int8, reflect.Int16, reflect.Int32, reflect.Int64:
		v.SetInt(c11GenInt(r, t.Bits()))
	case reflect.Uint, reflect.Uint8, reflect.Uint16, reflect.Uint32, reflect.Uint64:
		v.SetUint(c11GenUint(r, t.Bits()))
	case reflect.Float32:
		v.SetFloat(float64(c11GenFloat(r, true)))
	case reflect.Float64:
		v.SetFloat(c11GenFloat(r, false))
	case reflect.String:
		v.SetString(string(c11GenBytes(r)))
	case reflect.Slice:
		if t.Elem().Kind() == reflect.Uint8 {
			b := c11GenBytes(r)
			if len(b) == 0 {
				v.Set(reflect.Zero(t)) // empty slices are generated as nil (reflect.DeepEqual tells nil from empty)
			} else {
				v.Set(reflect.ValueOf(b).Convert(t))
			}
			return
		}
		n := c11GenLen(r)
		if n == 0 {
			v.Set(reflect.Zero(t))
			return
		}
		s := reflect.MakeSlice(t, n, n)
		for i := 0; i < n; i++ {
			c11Fill(r, s.Index(i))
		}
		v.Set(s)
	case reflect.Array:
		for i := 0; i < v.Len(); i++ {
			c11Fill(r, v.Index(i))
		}
	case reflect.Struct:
		for i := 0; i < v.NumField(); i++ {
			c11Fill(r, v.Field(i))
		}
	}
	// maps, funcs: left nil
}

func c11GenFloat(r *hx.R, f32 bool) float64 {
	switch r.Intn(10) {
	case 0:
		return 0
	case 1:
		return math.Copysign(0, -1)
	case 2:
		return math.Inf(1 - 2*r.Intn(2))
	case 3:
		if f32 {
			return float64(math.MaxFloat32)
		}
		return math.MaxFloat64
	case 4:
		if f32 {
			return float64(math.SmallestNonzeroFloat32)
		}
		return math.SmallestNonzeroFloat64
	case 5:
		return float64(r.Intn(2000)-1000) / 8
	}
	if f32 {
		f := math.Float32frombits(r.Uint32())
		if f != f {
			return 1.5
		}
		return float64(f)
	}
	f := math.Float64frombits(r.Uint64())
	if f != f {
		return 2.5
	}
	return f
}

func c11New(t reflect.Type, seed int64) reflect.Value {
	v := reflect.New(t).Elem()
	if seed != 0 {
		c11Fill(hx.NewR(seed), v)
	}
	return v
}

// reverseSeqs returns a deep copy of v with every slice and array reversed (what the form codec
// does to element order).
func c11ReverseSeqs(v reflect.Value) reflect.Value {
	out := reflect.New(v.Type()).Elem()
	switch v.Kind() {
	case reflect.Slice:
		if v.IsNil() {
			return out
		}
		n := v.Len()
		s := reflect.MakeSlice(v.Type(), n, n)
		for i := 0; i < n; i++ {
			s.Index(n - 1 - i).Set(c11ReverseSeqs(v.Index(i)))
		}
		return s
	case reflect.Array:
		n := v.Len()
		for i := 0; i < n; i++ {
			out.Index(n - 1 - i).Set(c11ReverseSeqs(v.Index(i)))
		}
		return out
	case reflect.Struct:
		for i := 0; i < v.NumField(); i++ {
			if v.Type().Field(i).PkgPath != "" {
				continue
			}
			out.Field(i).Set(c11ReverseSeqs(v.Field(i)))
		}
		return out
	}
	out.Set(v)
	return out
}

// ---------------------------------------------------------------------------------------------
// canary: the destination sits between two guard arrays inside one allocation

type c11Guarded struct {
	outer reflect.Value
}

var c11GuardPat = [24]byte{0xC1, 0x1C, 0xA5, 0x5A, 0xC1, 0x1C, 0xA5, 0x5A, 0xC1, 0x1C, 0xA5, 0x5A, 0xC1, 0x1C, 0xA5, 0x5A, 0xC1, 0x1C, 0xA5, 0x5A, 0xC1, 0x1C, 0xA5, 0x5A}

func c11Guard(t reflect.Type) c11Guarded {
	g := reflect.TypeOf(c11GuardPat)
	st := reflect.StructOf([]reflect.StructField{{Name: "Pre", Type: g}, {Name: "Dst", Type: t}, {Name: "Post", Type: g}})
	o := reflect.New(st).Elem()
	o.Field(0).Set(reflect.ValueOf(c11GuardPat))
	o.Field(2).Set(reflect.ValueOf(c11GuardPat))
	return c11Guarded{o}
}

func (g c11Guarded) dst() reflect.Value { return g.outer.Field(1) }
func (g c11Guarded) intact() bool {
	return g.outer.Field(0).Interface() == c11GuardPat && g.outer.Field(2).Interface() == c11GuardPat
}

// c11Call runs f under recover.
func c11Call(f func() error) (err error, panicked string) {
	defer func() {
		if e := recover(); e != nil {
			panicked = fmt.Sprint(e)
		}
	}()
	return f(), ""
}

// ---------------------------------------------------------------------------------------------
// generation

func c11PickS(r *hx.R, xs ...string) string { return xs[r.Intn(len(xs))] }

func c11NumText(r *hx.R) string {
	switch r.Intn(12) {
	case 0:
		return ""
	case 1:
		return c11PickS(r, "127", "128", "-128", "-129", "255", "256", "32767", "32768", "-32768", "-32769", "65535", "65536")
	case 2:
		return c11PickS(r, "2147483647", "2147483648", "-2147483648", "-2147483649", "4294967295", "4294967296")
	case 3:
		return c11PickS(r, "9223372036854775807", "9223372036854775808", "-9223372036854775808", "-9223372036854775809",
			"18446744073709551615", "18446744073709551616", "99999999999999999999999999999")
	case 4:
		return c11PickS(r, "+5", "-0", "+0", "00012", "-", "+", "1_000", "0x1f", "1e3", " 1", "1 ", "１", "--1", "+-1", "12a", "a", "1.0")
	case 5:
		return c11PickS(r, "true", "false", "1", "0", "t", "f", "T", "F", "TRUE", "FALSE", "True", "False", "tRUE", "yes", "no")
	case 6:
		return string(r.AnyBytes(r.Intn(6)))
	}
	s := strconv.FormatInt(int64(r.Uint64())>>uint(r.Intn(64)), 10)
	if r.Intn(6) == 0 {
		s = strconv.FormatUint(r.Uint64()>>uint(r.Intn(64)), 10)
	}
	return s
}

// c11Keys returns the flattened form keys of a struct type with the number of array slots
// (-1: not an array).
func c11Keys(t reflect.Type, out *[][2]interface{}) {
	if t.Kind() != reflect.Struct {
		return
	}
	for i := 0; i < t.NumField(); i++ {
		f := t.Field(i)
		name := f.Tag.Get("form")
		if name == "" {
			if f.Type.Kind() == reflect.Struct {
				c11Keys(f.Type, out)
				continue
			}
			name = f.Name
		}
		slots := -1
		if f.Type.Kind() == reflect.Array {
			slots = f.Type.Len()
		}
		*out = append(*out, [2]interface{}{name, slots})
	}
}

func c11GenQuery(r *hx.R, t reflect.Type) []byte {
	var keys [][2]interface{}
	c11Keys(t, &keys)
	if len(keys) == 0 || r.Intn(12) == 0 {
		keys = append(keys, [2]interface{}{string(r.AnyBytes(r.Intn(4))), -1})
	}
	var segs []string
	n := r.Intn(len(keys) + 2)
	for i := 0; i < n; i++ {
		k := keys[r.Intn(len(keys))]
		name, slots := k[0].(string), k[1].(int)
		cnt := 1
		switch {
		case slots >= 0: // around and beyond the number of array slots
			cnt = r.Pick(slots, slots, slots+1, slots+2, 1, 0, slots-1)
			if cnt < 0 {
				cnt = 0
			}
		case r.Intn(3) == 0:
			cnt = r.Pick(0, 2, 3, 6)
		}
		for j := 0; j < cnt; j++ {
			seg := url.QueryEscape(name) + "=" + url.QueryEscape(c11NumText(r))
			switch r.Intn(30) {
			case 0:
				seg = url.QueryEscape(name) // no '='
			case 1:
				seg = name + "=" + c11NumText(r) // unescaped
			case 2:
				seg += c11PickS(r, "%", "%z", "%4", "%zz", ";", "%3b", "=", "==1", "+")
			}
			segs = append(segs, seg)
		}
	}
	if r.Intn(10) == 0 {
		segs = append(segs, c11PickS(r, "", "&", ";", "a;b=1", "%", "=%", "%41=%", "=", "=x", "x", "%00=%ff"))
	}
	r.Shuffle(len(segs), func(i, j int) { segs[i], segs[j] = segs[j], segs[i] })
	q := []byte(strings.Join(segs, "&"))
	if r.Intn(15) == 0 && len(q) > 0 { // raw byte damage
		for k := 1 + r.Intn(3); k > 0; k-- {
			q[r.Intn(len(q))] = byte(r.Pick('%', '&', '=', ';', '+', 0, 255, r.Intn(256)))
		}
	}
	return q
}

func c11ShowForm(m map[string][]string) string {
	if len(m) == 0 {
		return "-"
	}
	keys := make([]string, 0, len(m))
	for k := range m {
		keys = append(keys, k)
	}
	sort.Strings(keys)
	parts := make([]string, len(keys))
	for i, k := range keys {
		vs := m[k]
		if len(vs) == 0 {
			parts[i] = hx.Hex([]byte(k)) + ":!"
			continue
		}
		hs := make([]string, len(vs))
		for j, v := range vs {
			hs[j] = hx.Hex([]byte(v))
		}
		parts[i] = hx.Hex([]byte(k)) + ":" + strings.Join(hs, ",")
	}
	return strings.Join(parts, ";")
}

func c11ParseForm(s string) map[string][]string {
	m := map[string][]string{}
	if s == "-" {
		return m
	}
	for _, e := range strings.Split(s, ";") {
		kv := strings.SplitN(e, ":", 2)
		k := string(hx.UnHex(kv[0]))
		vs := []string{}
		if kv[1] != "!" {
			for _, h := range strings.Split(kv[1], ",") {
				vs = append(vs, string(hx.UnHex(h)))
			}
		}
		m[k] = vs
	}
	return m
}

func c11Gen(r *hx.R, tier string, out *hx.Out) []string {
	n := 40000
	if tier == "thorough" {
		n = 400000
	}
	ls := []string{"plain-nil", "form-nil",
		// fixed witnesses of the two pre-study items, always present
		fmt.Sprintf("form-rt ty=6 vseed=-1 ptr=1 val=%s", c11Val(reflect.ValueOf(FOne{V: []int32{1, 2, 3}}))),
		fmt.Sprintf("form-dec ty=7 dseed=0 dst=ptr:%s data=%s", c11Val(reflect.ValueOf(FArr2{})), hx.Hex([]byte("p=1&p=2&p=3"))),
	}
	for id := 0; id < 256; id++ {
		ls = append(ls, fmt.Sprintf("reg id=%d", id))
	}
	for i := 0; i < n; i++ {
		switch k := r.Intn(100); {
		case k < 20:
			ti := r.Intn(len(c11PlainTypes))
			if r.Intn(4) != 0 {
				ti = r.Intn(c11PlainSupported)
			}
			seed := 1 + r.Int63n(1<<40)
			v := c11New(c11PlainTypes[ti], seed)
			ls = append(ls, fmt.Sprintf("plain-rt ty=%d vseed=%d ptr=%d val=%s", ti, seed, r.Intn(2), c11Val(v)))
		case k < 36:
			ls = append(ls, c11GenPlainDec(r))
		case k < 58:
			ti := r.Intn(len(c11FormTypes))
			if r.Intn(4) != 0 {
				ti = r.Intn(c11FormSupported)
			}
			seed := 1 + r.Int63n(1<<40)
			v := c11New(c11FormTypes[ti], seed)
			ls = append(ls, fmt.Sprintf("form-rt ty=%d vseed=%d ptr=%d val=%s", ti, seed, r.Intn(2), c11Val(v)))
		case k < 80:
			ti := r.Intn(len(c11FormTypes))
			dseed := int64(0)
			if r.Intn(2) == 0 {
				dseed = 1 + r.Int63n(1<<40)
			}
			t := c11FormTypes[ti]
			var data []byte
			switch r.Intn(8) {
			case 0:
				data = r.AnyBytes(r.Intn(24))
			case 1: // a valid encoding of another value of the type, possibly damaged
				if b, err := (codec.FormCodec{}).Marshal(c11New(t, 1+r.Int63n(1<<40)).Interface()); err == nil {
					data = append([]byte(nil), b...)
					if r.Intn(2) == 0 && len(data) > 0 {
						data[r.Intn(len(data))] = byte(r.Pick('%', '&', '=', ';', '9', 'x', r.Intn(256)))
					}
				}
			default:
				data = c11GenQuery(r, t)
			}
			dk := "ptr:" + c11Val(c11New(t, dseed))
			switch r.Intn(25) {
			case 0:
				dk = "nil"
			case 1:
				dk = "map"
			}
			ls = append(ls, fmt.Sprintf("form-dec ty=%d dseed=%d dk=%d dst=%s data=%s", ti, dseed, r.Intn(3), dk, hx.Hex(data)))
		case k < 86:
			m := map[string][]string{}
			for j := r.Intn(5); j > 0; j-- {
				var vs []string
				for c := r.Pick(0, 1, 1, 2, 3); c > 0; c-- {
					vs = append(vs, string(r.AnyBytes(r.Intn(6))))
				}
				if vs == nil {
					vs = []string{}
				}
				m[string(r.AnyBytes(r.Intn(5)))] = vs
			}
			ls = append(ls, fmt.Sprintf("form-map dk=%d q=%s", r.Intn(3), c11ShowForm(m)))
		case k < 89:
			lib := c11PickS(r, "pb", "thrift")
			var ee []byte
			if lib == "pb" {
				ee, _ = proto.Marshal(codec.PbEmptyStruct)
			} else {
				ee = c11ThriftRaw(codec.ThriftEmptyStruct)
			}
			ls = append(ls, fmt.Sprintf("wrap-arm lib=%s arg=%s form=%d emptyenc=%s data=%s", lib, c11PickS(r, "empty", "other"), r.Intn(3), hx.Hex(ee), hx.Hex(r.AnyBytes(r.Intn(8)))))
		case k < 92:
			ls = append(ls, fmt.Sprintf("body b=%s codec=%d cur=%s data=%s", c11PickS(r, "nil", "bytes", "ptr", "ptr", "nilptr"),
				r.Pick(115, 115, 0, 1, 200), hx.Hex(r.AnyBytes(r.Pick(0, 1, 3, 8))), hx.Hex(r.AnyBytes(r.Pick(0, 1, 2, 5, 12)))))
		case k < 98:
			ls = append(ls, fmt.Sprintf("lib-rt codec=%s vseed=%d mode=%s", c11PickS(r, "json", "xml", "pb", "thrift"), 1+r.Int63n(1<<40), c11PickS(r, "rt", "rt", "rt", "garbage")))
		default:
			ls = append(ls, fmt.Sprintf("float-rt codec=%s vseed=%d", c11PickS(r, "plain32", "plain64", "form"), 1+r.Int63n(1<<40)))
		}
	}
	return ls
}

func c11GenPlainDec(r *hx.R) string {
	ti := r.Intn(len(c11PlainTypes))
	t := c11PlainTypes[ti]
	dseed := int64(0)
	if r.Intn(2) == 0 {
		dseed = 1 + r.Int63n(1<<40)
	}
	var data []byte
	switch r.Intn(4) {
	case 0:
		data = r.AnyBytes(r.Pick(0, 1, 2, 5, 12, 40))
	default:
		data = []byte(c11NumText(r))
	}
	mode := c11PickS(r, "ptr", "ptr", "ptr", "ptr", "ptr", "pp", "val", "nilptr", "nil")
	var dst string
	switch mode {
	case "ptr", "pp":
		dst = "ptr:" + c11Val(c11New(t, dseed))
	case "val":
		dst = c11ValPrefix(t) + c11Val(c11New(t, dseed))
	case "nilptr":
		named := "1"
		if t == reflect.TypeOf("") || t == reflect.TypeOf([]byte(nil)) {
			named = "0"
		}
		dst = "nilptr:" + c11Kind(t) + ":" + named
	default:
		dst = "nil"
	}
	return fmt.Sprintf("plain-dec ty=%d dseed=%d mode=%s dst=%s data=%s", ti, dseed, mode, dst, hx.Hex(data))
}

// ---------------------------------------------------------------------------------------------
// running on the real code

func c11Enc(b []byte, err error) string {
	if err != nil {
		return "enc=err"
	}
	return "enc=" + hx.Hex(b)
}

func c11ThriftRaw(s thrift.TStruct) []byte {
	b, _ := codec.ThriftMarshal(s)
	return b
}

func c11Run(line string, out *hx.Out) (string, bool) {
	kind, f := hx.Fields(line)
	out.Count(kind)
	atoi := func(k string) int { n, _ := strconv.Atoi(f[k]); return n }
	atoi64 := func(k string) int64 { n, _ := strconv.ParseInt(f[k], 10, 64); return n }
	switch kind {
	case "plain-nil":
		return c11Enc(codec.PlainCodec{}.Marshal(nil)), false
	case "form-nil":
		return c11Enc(codec.FormCodec{}.Marshal(nil)), false

	case "plain-rt", "form-rt":
		var c codec.Codec = codec.PlainCodec{}
		types, supported := c11PlainTypes, c11PlainSupported
		if kind == "form-rt" {
			c, types, supported = codec.FormCodec{}, c11FormTypes, c11FormSupported
		}
		ti := atoi("ty")
		if kind == "form-rt" && ti >= c11FormXBase && ti < c11FormXBase+len(c11FormTypesX) {
			// extension bank (c11x.go): every type of it is in the supported domain
			types, supported = append(make([]reflect.Type, c11FormXBase), c11FormTypesX...), c11FormXBase+len(c11FormTypesX)
		}
		if ti < 0 || ti >= len(types) || types[ti] == nil {
			return "bad-case", false
		}
		t := types[ti]
		var v reflect.Value
		if f["vseed"] == "-1" && kind == "form-rt" { // fixed witness
			v = reflect.New(t).Elem()
			v.Set(reflect.ValueOf(FOne{V: []int32{1, 2, 3}}))
		} else {
			v = c11New(t, atoi64("vseed"))
		}
		if c11Val(v) != f["val"] {
			return "bad-case: val does not match (ty, vseed)", false
		}
		arg := v.Interface()
		if f["ptr"] == "1" {
			p := reflect.New(t)
			p.Elem().Set(v)
			arg = p.Interface()
		}
		var b []byte
		err, pan := c11Call(func() (e error) { b, e = c.Marshal(arg); return })
		if pan != "" {
			out.Violate(line, "marshal-no-panic", pan, "c11:"+c.Name()+"-marshal-panic")
			return "enc=panic", true
		}
		if err != nil {
			out.Count(kind + ":enc-err")
			if ti < supported {
				out.Violate(line, "roundtrip", "Marshal refused a value of the supported domain: "+err.Error(), "c11:"+c.Name()+"-roundtrip")
			}
			return "enc=err", true
		}
		b = append([]byte(nil), b...)
		g := c11Guard(t)
		err, pan = c11Call(func() error { return c.Unmarshal(b, g.dst().Addr().Interface()) })
		if !g.intact() {
			out.Violate(line, "no-write-outside-destination", "guard bytes around the destination changed", "c11:"+c.Name()+"-write-outside")
		}
		obs := "enc=" + hx.Hex(b) + " dec="
		switch {
		case pan != "":
			obs += "panic"
			out.Violate(line, "decode-no-panic", "Unmarshal of Marshal output panicked: "+pan, "c11:"+c.Name()+"-decode-panic")
		case err != nil:
			obs += "err"
		default:
			obs += "ok:ptr:" + c11Val(g.dst())
		}
		if ti < supported { // the property's own oracle
			out.Count(kind + ":oracle")
			switch {
			case pan != "":
			case err != nil:
				out.Violate(line, "roundtrip", "Unmarshal(Marshal(v)) failed: "+err.Error(), "c11:"+c.Name()+"-roundtrip")
			case !reflect.DeepEqual(g.dst().Interface(), v.Interface()):
				sig := "c11:" + c.Name() + "-roundtrip"
				if kind == "form-rt" && reflect.DeepEqual(c11ReverseSeqs(g.dst()).Interface(), v.Interface()) {
					sig = "c11:form-slice-order"
				}
				out.Count(kind + ":oracle-fail:" + sig)
				out.Violate(line, "roundtrip", fmt.Sprintf("decoded %s, want %s", c11Val(g.dst()), c11Val(v)), sig)
			}
		}
		return obs, ti < supported

	case "plain-dec":
		ti := atoi("ty")
		if ti < 0 || ti >= len(c11PlainTypes) {
			return "bad-case", false
		}
		t := c11PlainTypes[ti]
		data := hx.UnHex(f["data"])
		dataCopy := append([]byte(nil), data...)
		c := codec.PlainCodec{}
		mode := f["mode"]
		out.Count("plain-dec:" + mode)
		var obs string
		switch mode {
		case "nil":
			err, pan := c11Call(func() error { return c.Unmarshal(data, nil) })
			obs = c11Outcome(err, pan, "nil")
		case "nilptr":
			err, pan := c11Call(func() error { return c.Unmarshal(data, reflect.Zero(reflect.PtrTo(t)).Interface()) })
			obs = c11Outcome(err, pan, "?")
			// a typed nil destination is outside the property's domain (no destination value); modelled, not judged
		case "val":
			if t.Kind() == reflect.Slice && t == reflect.TypeOf([]byte(nil)) {
				cur := c11New(t, atoi64("dseed")).Bytes()
				buf := make([]byte, len(cur)+48)
				copy(buf, c11GuardPat[:])
				copy(buf[24:], cur)
				copy(buf[24+len(cur):], c11GuardPat[:])
				dst := buf[24 : 24+len(cur) : 24+len(cur)]
				if "val:"+c11Val(reflect.ValueOf(dst)) != f["dst"] {
					return "bad-case: dst does not match", false
				}
				err, pan := c11Call(func() error { return c.Unmarshal(data, dst) })
				if !bytes.Equal(buf[:24], c11GuardPat[:]) || !bytes.Equal(buf[24+len(cur):], c11GuardPat[:]) {
					out.Violate(line, "no-write-outside-destination", "guard bytes around the []byte destination changed", "c11:plain-write-outside")
				}
				obs = c11Outcome(err, pan, "val:"+c11Val(reflect.ValueOf(dst)))
				if pan != "" {
					out.Violate(line, "decode-no-panic", pan, "c11:plain-decode-panic")
				}
				break
			}
			v := c11New(t, atoi64("dseed"))
			if c11ValPrefix(t)+c11Val(v) != f["dst"] {
				return "bad-case: dst does not match", false
			}
			err, pan := c11Call(func() error { return c.Unmarshal(data, v.Interface()) })
			obs = c11Outcome(err, pan, c11ValPrefix(t)+c11Val(v))
			if pan != "" {
				out.Violate(line, "decode-no-panic", pan, "c11:plain-decode-panic")
			}
		default: // ptr, pp (pointer to pointer)
			g := c11Guard(t)
			g.dst().Set(c11New(t, atoi64("dseed")))
			if "ptr:"+c11Val(g.dst()) != f["dst"] {
				return "bad-case: dst does not match", false
			}
			arg := g.dst().Addr()
			if mode == "pp" {
				pp := reflect.New(arg.Type())
				pp.Elem().Set(arg)
				arg = pp
			}
			err, pan := c11Call(func() error { return c.Unmarshal(data, arg.Interface()) })
			if !g.intact() {
				out.Violate(line, "no-write-outside-destination", "guard bytes around the destination changed", "c11:plain-write-outside")
			}
			if pan != "" {
				out.Violate(line, "decode-no-panic", pan, "c11:plain-decode-panic")
			}
			obs = c11Outcome(err, pan, "ptr:"+c11Val(g.dst()))
		}
		if !bytes.Equal(data, dataCopy) {
			out.Violate(line, "input-not-modified", "Unmarshal changed its input bytes", "c11:plain-input-modified")
		}
		out.Count("plain-dec:" + strings.SplitN(obs, ":", 2)[0])
		return obs, len(data) > 0

	case "form-dec":
		ti := atoi("ty")
		var t reflect.Type
		switch {
		case ti >= c11FormXBase && ti < c11FormXBase+len(c11FormTypesX):
			t = c11FormTypesX[ti-c11FormXBase]
		case ti >= 0 && ti < len(c11FormTypes):
			t = c11FormTypes[ti]
		default:
			return "bad-case", false
		}
		data := hx.UnHex(f["data"])
		c := codec.FormCodec{}
		var obs string
		var err error
		var pan string
		switch {
		case f["dst"] == "nil":
			err, pan = c11Call(func() error { return c.Unmarshal(data, nil) })
			obs = c11Outcome(err, pan, "nil")
		case f["dst"] == "map":
			var m map[string][]string
			switch f["dk"] {
			case "0":
				var uv url.Values
				err, pan = c11Call(func() error { return c.Unmarshal(data, &uv) })
				m = uv
			case "1":
				err, pan = c11Call(func() error { return c.Unmarshal(data, &m) })
			default:
				var i interface{}
				err, pan = c11Call(func() error { return c.Unmarshal(data, &i) })
				if uv, ok := i.(url.Values); ok {
					m = uv
				}
			}
			obs = c11Outcome(err, pan, "map:"+c11ShowForm(m))
		default:
			g := c11Guard(t)
			g.dst().Set(c11New(t, atoi64("dseed")))
			if "ptr:"+c11Val(g.dst()) != f["dst"] {
				return "bad-case: dst does not match", false
			}
			err, pan = c11Call(func() error { return c.Unmarshal(data, g.dst().Addr().Interface()) })
			if !g.intact() {
				out.Violate(line, "no-write-outside-destination", "guard bytes around the destination changed", "c11:form-write-outside")
			}
			obs = c11Outcome(err, pan, "ptr:"+c11Val(g.dst()))
		}
		if pan != "" {
			sig := "c11:form-decode-panic"
			if strings.Contains(pan, "index out of range") {
				sig = "c11:form-array-overflow-panic"
			}
			out.Count("form-dec:" + sig)
			out.Violate(line, "decode-no-panic", fmt.Sprintf("FormCodec.Unmarshal(%q, *%s) panicked: %s", data, t, pan), sig)
		}
		out.Count("form-dec:" + strings.SplitN(obs, ":", 2)[0])
		return obs, len(data) > 0

	case "form-map":
		m := c11ParseForm(f["q"])
		c := codec.FormCodec{}
		var arg interface{} = url.Values(m)
		switch f["dk"] {
		case "1":
			arg = m
		case "2":
			arg = &m
		}
		b, err := c.Marshal(arg)
		if err != nil {
			return "enc=err", true
		}
		b = append([]byte(nil), b...)
		var back url.Values
		err, pan := c11Call(func() error { return c.Unmarshal(b, &back) })
		if pan != "" {
			out.Violate(line, "decode-no-panic", pan, "c11:form-decode-panic")
		}
		// oracle: the multimap without its empty entries comes back
		want := map[string][]string{}
		for k, vs := range m {
			if len(vs) > 0 {
				want[k] = vs
			}
		}
		if err != nil || !reflect.DeepEqual(map[string][]string(back), want) {
			out.Violate(line, "roundtrip", fmt.Sprintf("url.Values round trip: got %v want %v (err %v)", back, want, err), "c11:form-values-roundtrip")
		}
		return "enc=" + hx.Hex(b) + " dec=" + c11Outcome(err, pan, "map:"+c11ShowForm(back)), len(m) > 0

	case "wrap-arm":
		var c codec.Codec = codec.ProtoCodec{}
		if f["lib"] == "thrift" {
			c = codec.ThriftCodec{}
		}
		var arg interface{}
		if f["arg"] == "empty" {
			switch f["form"] {
			case "0":
				arg = nil
			case "1":
				arg = struct{}{}
			default:
				arg = &struct{}{}
			}
		} else {
			switch f["form"] {
			case "0":
				arg = 42
			case "1":
				arg = &FInner{X: 1}
			default:
				arg = "text"
			}
		}
		var b []byte
		err, pan := c11Call(func() (e error) { b, e = c.Marshal(arg); return })
		if pan != "" {
			return "enc=panic", true
		}
		obs := c11Enc(b, err)
		err, pan = c11Call(func() error { return c.Unmarshal(hx.UnHex(f["data"]), arg) })
		if pan != "" {
			out.Violate(line, "decode-no-panic", pan, "c11:wrapper-decode-panic")
			return obs + " dec=panic", true
		}
		if err != nil {
			return obs + " dec=err", true
		}
		return obs + " dec=ok", true

	case "reg":
		c, err := codec.Get(byte(atoi("id")))
		if err != nil {
			return "err", false
		}
		if c2, err2 := codec.GetByName(c.Name()); err2 != nil || c2.ID() != c.ID() {
			out.Violate(line, "registry", "id map and name map disagree for "+c.Name(), "c11:registry")
		}
		return "ok:" + c.Name(), true

	case "body":
		cur, data := hx.UnHex(f["cur"]), hx.UnHex(f["data"])
		if cur == nil {
			cur = []byte{}
		}
		var body interface{}
		var p *[]byte
		switch f["b"] {
		case "bytes":
			body = cur
		case "ptr":
			p = &cur
			body = p
		case "nilptr":
			body = p
		}
		m := socket.NewMessage(socket.WithBody(body), socket.WithBodyCodec(byte(atoi("codec"))))
		b, err := m.MarshalBody()
		obs := c11Enc(b, err)
		if err == nil && (f["b"] == "bytes" || f["b"] == "ptr") && !bytes.Equal(b, cur) {
			out.Violate(line, "bytes-bypass", "byte-slice body was not passed through unchanged", "c11:body-bypass")
		}
		err, pan := c11Call(func() error { return m.UnmarshalBody(data) })
		var st string
		switch bb := m.Body().(type) {
		case nil:
			st = "nil"
		case []byte:
			st = "bytes:" + hx.Hex(bb)
		case *[]byte:
			if bb == nil {
				st = "nilptr"
			} else {
				st = "ptr:" + hx.Hex(*bb)
			}
		}
		if err == nil && pan == "" && f["b"] == "ptr" && len(data) > 0 && !bytes.Equal(*p, data) {
			out.Violate(line, "bytes-bypass", "*[]byte body does not hold the received bytes", "c11:body-bypass")
		}
		return obs + " dec=" + c11Outcome(err, pan, st), f["b"] != "nil"

	case "lib-rt":
		return c11LibRT(line, f, out), true
	case "float-rt":
		return c11FloatRT(line, f, out), true
	}
	return "bad-kind", false
}

// c11ValPrefix: "nval:" for a by-value destination of a defined (named) type.
func c11ValPrefix(t reflect.Type) string {
	if t.Name() != "" && t.PkgPath() != "" {
		return "nval:"
	}
	return "val:"
}

func c11Outcome(err error, pan string, okState string) string {
	switch {
	case pan != "":
		return "panic"
	case err != nil:
		return "err"
	}
	return "ok:" + okState
}

// ---------------------------------------------------------------------------------------------
// library-backed codecs: the property's round-trip oracle on generated values. This is a TEST of
// the hypothesis of theorem C11_wrapper_dispatch (the library law), not part of the proof.

type LJInner struct {
	N  int64
	S  string
	Bs []byte
}

type LJ struct {
	B    bool
	I8   int8
	I64  int64
	U64  uint64
	S    string
	Raw  []byte
	Ints []int32
	Strs []string
	Arr  [3]uint16
	In   LJInner
	Ins  []LJInner
}

type LXInner struct {
	N int64
	S string
}

type LX struct {
	B    bool
	I8   int8
	I64  int64
	U64  uint64
	S    string
	Ints []int32
	Strs []string
	In   LXInner
	Ins  []LXInner
}

// c11Textify rewrites every string of v into text the library can carry (valid UTF-8; for XML
// also no control characters and no leading/trailing space issues).
func c11Textify(v reflect.Value, xmlSafe bool) {
	switch v.Kind() {
	case reflect.String:
		s := strings.ToValidUTF8(v.String(), "?")
		if xmlSafe {
			s = strings.Map(func(r rune) rune {
				if r < 0x20 || r == 0x7f || r == utf8.RuneError || (r >= 0xfffe) && r <= 0xffff {
					return 'x'
				}
				return r
			}, s)
		}
		v.SetString(s)
	case reflect.Slice, reflect.Array:
		if v.Type().Elem().Kind() == reflect.Uint8 {
			return
		}
		for i := 0; i < v.Len(); i++ {
			c11Textify(v.Index(i), xmlSafe)
		}
	case reflect.Struct:
		for i := 0; i < v.NumField(); i++ {
			c11Textify(v.Field(i), xmlSafe)
		}
	}
}

func c11LibRT(line string, f map[string]string, out *hx.Out) string {
	seed, _ := strconv.ParseInt(f["vseed"], 10, 64)
	r := hx.NewR(seed)
	cname := f["codec"]
	out.Count("lib-rt:" + cname + ":" + f["mode"])
	var c codec.Codec
	var val, fresh interface{}
	switch cname {
	case "json":
		c = codec.JSONCodec{}
		v := c11New(reflect.TypeOf(LJ{}), seed)
		c11Textify(v, false)
		p := reflect.New(v.Type())
		p.Elem().Set(v)
		val, fresh = p.Interface(), new(LJ)
	case "xml":
		c = codec.XMLCodec{}
		v := c11New(reflect.TypeOf(LX{}), seed)
		c11Textify(v, true)
		p := reflect.New(v.Type())
		p.Elem().Set(v)
		val, fresh = p.Interface(), new(LX)
	case "pb":
		c = codec.ProtoCodec{}
		if r.Intn(2) == 0 {
			val, fresh = &pbtest.PbTest{A: int32(c11GenInt(r, 32)), B: int32(c11GenInt(r, 32))}, new(pbtest.PbTest)
		} else {
			s := strings.ToValidUTF8(string(c11GenBytes(r)), "?")
			m := &pbbench.BenchmarkMessage{Field1: s, Field9: strings.ToValidUTF8(string(c11GenBytes(r)), "?"), Field2: int32(c11GenInt(r, 32)),
				Field3: int32(c11GenInt(r, 32)), Field22: c11GenInt(r, 64), Field280: int32(c11GenInt(r, 32))}
			for k := c11GenLen(r); k > 0; k-- {
				m.Field5 = append(m.Field5, c11GenUint(r, 64))
			}
			val, fresh = m, new(pbbench.BenchmarkMessage)
		}
	default:
		c = codec.ThriftCodec{}
		if r.Intn(4) == 0 {
			val, fresh = codec.NewThriftEmpty(), codec.NewThriftEmpty()
		} else {
			val = thrift.NewTApplicationException(int32(c11GenInt(r, 32)), string(c11GenBytes(r)))
			fresh = thrift.NewTApplicationException(0, "")
		}
	}
	if f["mode"] == "garbage" {
		data := r.AnyBytes(r.Intn(40))
		if r.Intn(2) == 0 {
			if b, err := c.Marshal(val); err == nil && len(b) > 0 {
				data = append([]byte(nil), b...)
				for k := 1 + r.Intn(3); k > 0; k-- {
					data[r.Intn(len(data))] = byte(r.Intn(256))
				}
				if r.Intn(3) == 0 {
					data = data[:r.Intn(len(data))]
				}
			}
		}
		_, pan := c11Call(func() error { return c.Unmarshal(data, fresh) })
		if pan != "" {
			out.Violate(line, "decode-no-panic (test of the library)", fmt.Sprintf("%s Unmarshal(%x) panicked: %s", cname, data, pan), "c11:lib-decode-panic:"+cname)
		}
		return "test"
	}
	var b []byte
	err, pan := c11Call(func() (e error) { b, e = c.Marshal(val); return })
	if err != nil || pan != "" {
		out.Violate(line, "roundtrip (test of the library law)", fmt.Sprintf("%s Marshal: err=%v panic=%s", cname, err, pan), "c11:lib-roundtrip:"+cname)
		return "test"
	}
	b = append([]byte(nil), b...)
	err, pan = c11Call(func() error { return c.Unmarshal(b, fresh) })
	same := reflect.DeepEqual(val, fresh)
	if cname == "pb" {
		same = proto.Equal(val.(proto.Message), fresh.(proto.Message))
	}
	if cname == "thrift" {
		if a, ok := val.(thrift.TApplicationException); ok {
			bb := fresh.(thrift.TApplicationException)
			same = a.TypeId() == bb.TypeId() && a.Error() == bb.Error()
		}
	}
	if err != nil || pan != "" || !same {
		out.Violate(line, "roundtrip (test of the library law)", fmt.Sprintf("%s: err=%v panic=%s got=%+v want=%+v", cname, err, pan, fresh, val), "c11:lib-roundtrip:"+cname)
	}
	return "test"
}

func c11FloatRT(line string, f map[string]string, out *hx.Out) string {
	seed, _ := strconv.ParseInt(f["vseed"], 10, 64)
	r := hx.NewR(seed)
	out.Count("float-rt:" + f["codec"])
	switch f["codec"] {
	case "plain32":
		x := float32(c11GenFloat(r, true))
		var y float32
		b, err := codec.PlainCodec{}.Marshal(x)
		if err == nil {
			err = codec.PlainCodec{}.Unmarshal(b, &y)
		}
		if err != nil || math.Float32bits(x) != math.Float32bits(y) {
			out.Violate(line, "roundtrip (test, floats are not modelled)", fmt.Sprintf("float32 %v -> %q -> %v err=%v", x, b, y, err), "c11:plain-float-roundtrip")
		}
	case "plain64":
		x := c11GenFloat(r, false)
		var y float64
		b, err := codec.PlainCodec{}.Marshal(&x)
		if err == nil {
			err = codec.PlainCodec{}.Unmarshal(b, &y)
		}
		if err != nil || math.Float64bits(x) != math.Float64bits(y) {
			out.Violate(line, "roundtrip (test, floats are not modelled)", fmt.Sprintf("float64 %v -> %q -> %v err=%v", x, b, y, err), "c11:plain-float-roundtrip")
		}
	default:
		v := c11New(reflect.TypeOf(FFloats{}), seed)
		var back FFloats
		b, err := codec.FormCodec{}.Marshal(v.Interface())
		if err == nil {
			err = codec.FormCodec{}.Unmarshal(append([]byte(nil), b...), &back)
		}
		want := v.Interface().(FFloats)
		if err != nil || !reflect.DeepEqual(back, want) {
			rev := c11ReverseSeqs(reflect.ValueOf(back)).Interface()
			sig := "c11:form-float-roundtrip"
			if err == nil && reflect.DeepEqual(rev, want) {
				sig = "c11:form-slice-order"
			}
			out.Violate(line, "roundtrip (test, floats are not modelled)", fmt.Sprintf("%+v -> %q -> %+v err=%v", want, b, back, err), sig)
		}
	}
	return "test"
}
