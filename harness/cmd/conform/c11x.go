package main

import (
	"fmt"
	"reflect"

	"github.com/henrylee2cn/erpc/v6/codec"

	"verif/harness/internal/hx"
)

// C11, extension of the form type bank: DEFINED (named) element and field types. The codec works on
// reflect Kinds, so a field `Roles []Role` with `type Role string` is in its supported domain exactly
// like `[]string` (the model describes a value by the kinds of its parts and needs no change). A
// decoder fast path that tests the element KIND but assigns a value of the unnamed TYPE
// (reflect.Set of a []string into a []Role) panics out of the codec - seed C11-E.
// The extension bank has its own index range (c11FormXBase + i), so the case lines and the random
// stream of the original generator do not change; its cases are appended.

type (
	c11Role string
	c11N8   int8
	c11U64  uint64
	c11Flag bool
	c11Raw  []byte
)

type FNamedSeqs struct {
	Roles []c11Role `form:"role"`
	Ns    []c11N8
	Us    []c11U64 `form:"u"`
	Fs    []c11Flag
	Strs  []c11S
}

type FNamedArrs struct {
	R2 [2]c11Role `form:"r2"`
	N3 [3]c11N8
	U1 [1]c11U64
	F2 [2]c11Flag `form:"f"`
}

type FNamedScalars struct {
	R    c11Role `form:"r"`
	N    c11N8
	U    c11U64
	F    c11Flag
	Raw  c11Raw `form:"raw"`
	Tail string
}

const c11FormXBase = 100

var c11FormTypesX = []reflect.Type{reflect.TypeOf(FNamedSeqs{}), reflect.TypeOf(FNamedArrs{}), reflect.TypeOf(FNamedScalars{})}

func init() {
	p := props["c11"]
	g := p.Gen
	p.Gen = func(r *hx.R, tier string, out *hx.Out) []string {
		ls := g(r, tier, out)
		n := 60
		if tier == "thorough" {
			n = 600
		}
		for i := 0; i < n; i++ {
			xi := r.Intn(len(c11FormTypesX))
			t := c11FormTypesX[xi]
			ti := c11FormXBase + xi
			if r.Intn(2) == 0 {
				seed := 1 + r.Int63n(1<<40)
				v := c11New(t, seed)
				ls = append(ls, fmt.Sprintf("form-rt ty=%d vseed=%d ptr=%d val=%s", ti, seed, r.Intn(2), c11Val(v)))
				continue
			}
			dseed := int64(0)
			if r.Intn(2) == 0 {
				dseed = 1 + r.Int63n(1<<40)
			}
			var data []byte
			switch r.Intn(4) {
			case 0:
				data = r.AnyBytes(r.Intn(24))
			case 1:
				if b, err := (codec.FormCodec{}).Marshal(c11New(t, 1+r.Int63n(1<<40)).Interface()); err == nil {
					data = append([]byte(nil), b...)
				}
			default:
				data = c11GenQuery(r, t)
			}
			ls = append(ls, fmt.Sprintf("form-dec ty=%d dseed=%d dk=%d dst=ptr:%s data=%s", ti, dseed, r.Intn(3), c11Val(c11New(t, dseed)), hx.Hex(data)))
		}
		out.Count("gen:form-named-types")
		return ls
	}
}
