package main

// C19, the documented deployment: the proxy's forwarder is a client session DIALLED with
// PeerConfig.RedialTimes != 0 (plugin/proxy/README.md: `cli := erpc.NewPeer(erpc.PeerConfig{RedialTimes: 3});
// sess, _ = cli.Dial(":9090"); proxy.NewPlugin(func(*proxy.Label) proxy.Forwarder { return sess })`),
// across backend outages and recoveries. Kind `xpxredial`: the property's own oracle, no model (the
// Lean driver prints `oracle-only` for it).
//
//	xpxredial <the fields of a pxcall case> rt=<RedialTimes 1..3> ops=<op>,<op>,...
//
//	client peer ──(in-memory link c19cK)──► proxy peer (proxy.NewPlugin; the forwarder handed to the plugin
//	      │                                 is the erpc.Session ITSELF, no wrapper) ──session dialled through
//	      │                                 VerifHooks.Dial over an in-memory listener, RedialTimes=rt,
//	      │                                 RedialInterval=1ms──► backend peer (listener "c19rback:1")
//	      └──(direct link, same caller address)──────────────────► backend peer
//
//	c  one request sent directly (reference) and through the proxy
//	p  one proxied push (followed, outside an outage, by a proxied round trip that would expose a second delivery)
//	o  a backend outage begins: dials are refused from now on and the live forwarder connection is cut; the
//	   step ends when the session's own reader has finished its redial round and given up (PostDisconnect
//	   hook of the forwarder peer fired, status PassiveClosed)
//	u  the outage ends: dials are accepted again (nothing else happens; the session redials on its next use)
//	f  the live forwarder connection is cut while the backend stays reachable; the step ends when the
//	   reader's redial has re-established the session (status Ok, indexed again)
//	d  a proxied call whose forwarder connection is cut while the backend handler runs, backend reachable:
//	   that call gets Bad Gateway; the step ends when the reader's redial has re-established the session
//	D  the same while an outage begins (dials refused before the call): the step ends when the reader gave up
//
// Oracle (property text): outside an outage - also after any number of outages, whatever happened during
// them - a proxied call / push is forwarded exactly once, the backend sees the request unchanged, and the
// caller-visible outcome equals that of the direct call; a proxied call during an outage (or cut while it
// is forwarded) gets 502 Bad Gateway, a push is answered 502 by the plugin's handler, neither reaches the
// backend, and ONLY that call is affected: the next one after the recovery is served again.
//
// Schedules are chosen so that none of the redial races recorded for C13 is involved: every step that
// loses the connection ends only after the reader of the lost connection has completely finished (given
// up, or redialled), so no Call/Push ever runs concurrently with a reader's disconnect path; the writer
// path's own redial (Call/Push on a session in PassiveClosed / RedialFailed) then runs alone. All waits
// are event-driven with a 20 s watchdog; the only sleep that orders anything is the library's 1 ms redial
// interval. One fresh child process per case (the dial hook is process-wide).

import (
	"bufio"
	"bytes"
	"fmt"
	"io"
	"net"
	"os"
	"os/exec"
	"strconv"
	"strings"
	"sync"
	"sync/atomic"
	"time"

	erpc "github.com/henrylee2cn/erpc/v6"
	"github.com/henrylee2cn/erpc/v6/plugin/proxy"

	"verif/harness/internal/hx"
	"verif/harness/internal/mem"
)

const (
	c19rKind     = "xpxredial"
	c19rAddr     = "c19rback:1"
	c19rWatchdog = 20 * time.Second
)

func init() {
	if os.Getenv("C19R_WORKER") == "1" {
		c19rWorker()
		os.Exit(0)
	}
	p := props["c19"]
	g, r := p.Gen, p.Run
	p.Gen = func(rr *hx.R, tier string, out *hx.Out) []string {
		ls := g(rr, tier, out)
		mine := c19rGen(rr, tier)
		c19rPrefetch(mine)
		return append(ls, mine...)
	}
	p.Run = func(line string, out *hx.Out) (string, bool) {
		if strings.HasPrefix(line, c19rKind+" ") {
			return c19rRunParent(line, out)
		}
		return r(line, out)
	}
}

// ---- generation -----------------------------------------------------------------------------------

func c19rGen(r *hx.R, tier string) []string {
	n := 30
	if tier == "thorough" {
		n = 240
	}
	base := fmt.Sprintf("m=%s b=%s c=106 md=- ca=%s pa=%s d=106 sc=0 sm=- sk=nil rm=%s rc=0 xf=0 reg=%s",
		hx.Hex([]byte("/a/b")), hx.Hex([]byte("hello")), hx.Hex([]byte(c19Caller(0))), hx.Hex([]byte("c19fj-a:1")),
		hx.KVs([][2][]byte{{[]byte("x-backend"), []byte("yes")}}), c19Reg())
	var lines []string
	for _, h := range []string{
		"c,o,c,u,c,p",     // one call into the outage, then recovery (call, push)
		"p,o,p,u,p,c",     // one push into the outage
		"c,o,u,c,p",       // nothing during the outage
		"c,o,c,c,p,u,p,c", // several into the outage
		"c,f,c,p",         // connection lost, backend reachable: the reader redials
		"c,d,c,p",         // cut while forwarding
		"c,D,c,u,c,p",     // the outage begins while a call is forwarded
		"o,p,u,c,o,c,u,p,c",
	} {
		lines = append(lines, fmt.Sprintf("%s %s rt=%d ops=%s", c19rKind, base, 1+len(lines)%3, h))
	}
	up := []string{"c", "c", "p", "p", "f", "d"}
	down := []string{"c", "c", "p"}
	for i := 0; i < n; i++ {
		var ops []string
		phases := 1 + r.Intn(3)
		for ph := 0; ph < phases; ph++ {
			for k := r.Intn(3); k > 0; k-- {
				ops = append(ops, up[r.Intn(len(up))])
			}
			if r.Intn(4) == 0 {
				ops = append(ops, "D")
			} else {
				ops = append(ops, "o")
			}
			k := r.Pick(0, 1, 1, 1, 2, 3)
			for ; k > 0; k-- {
				ops = append(ops, down[r.Intn(len(down))])
			}
			ops = append(ops, "u")
			for k := 1 + r.Intn(3); k > 0; k-- {
				ops = append(ops, up[r.Intn(len(up))])
			}
		}
		l := c19GenBase(r, "quick")
		if strings.HasPrefix(l, "m=- ") {
			l = "m=2f61 " + l[4:]
		}
		lines = append(lines, fmt.Sprintf("%s %s rt=%d ops=%s", c19rKind, l, 1+r.Intn(3), strings.Join(ops, ",")))
	}
	return lines
}

// ---- parent side: one child process per case -----------------------------------------------------

var (
	c19rMu    sync.Mutex
	c19rCache = map[string]chan c19FailResult{}
)

func c19rPrefetch(lines []string) {
	sem := make(chan struct{}, 4)
	c19rMu.Lock()
	defer c19rMu.Unlock()
	for _, l := range lines {
		if _, dup := c19rCache[l]; dup {
			continue
		}
		ch := make(chan c19FailResult, 1)
		c19rCache[l] = ch
		go func(l string) {
			sem <- struct{}{}
			ch <- c19rSpawn(l)
			<-sem
		}(l)
	}
}

func c19rRunParent(line string, out *hx.Out) (string, bool) {
	c19rMu.Lock()
	ch := c19rCache[line]
	delete(c19rCache, line)
	c19rMu.Unlock()
	var r c19FailResult
	if ch != nil {
		r = <-ch
	} else {
		r = c19rSpawn(line)
	}
	for _, k := range r.counts {
		out.Count(k)
	}
	for _, v := range r.viols {
		out.Violate(line, v[0], v[2], v[1])
	}
	return r.obs, r.ok
}

func c19rSpawn(line string) (res c19FailResult) {
	cmd := exec.Command(os.Args[0])
	cmd.Env = append(os.Environ(), "C19R_WORKER=1", "GOMAXPROCS=4")
	cmd.Stdin = strings.NewReader(line + "\n")
	var stdout, stderr bytes.Buffer
	cmd.Stdout, cmd.Stderr = &stdout, &stderr
	done := make(chan error, 1)
	if err := cmd.Start(); err != nil {
		res.obs = "worker-start-failed " + err.Error()
		return
	}
	go func() { done <- cmd.Wait() }()
	select {
	case err := <-done:
		if err != nil {
			res.obs = fmt.Sprintf("worker-failed %v %s", err, c19Tail(stderr.String()))
			return
		}
	case <-time.After(240 * time.Second):
		cmd.Process.Kill()
		res.obs = "worker-timeout " + c19Tail(stdout.String())
		return
	}
	res.obs, res.ok = "worker-no-obs", true
	sc := bufio.NewScanner(&stdout)
	sc.Buffer(make([]byte, 1<<20), 1<<26)
	for sc.Scan() {
		t := sc.Text()
		switch {
		case strings.HasPrefix(t, "OBS "):
			res.obs = t[4:]
		case strings.HasPrefix(t, "CNT "):
			res.counts = append(res.counts, t[4:])
		case strings.HasPrefix(t, "VIOL "):
			p := strings.SplitN(t[5:], "\t", 3)
			if len(p) == 3 {
				res.viols = append(res.viols, [3]string{p[0], p[1], p[2]})
			}
		}
	}
	return
}

// ---- child side ------------------------------------------------------------------------------------

func c19rWorker() {
	erpc.SetLoggerLevel("OFF")
	in := bufio.NewScanner(os.Stdin)
	in.Buffer(make([]byte, 1<<20), 1<<26)
	wr := bufio.NewWriter(os.Stdout)
	defer wr.Flush()
	if !in.Scan() {
		return
	}
	_, f := hx.Fields(in.Text())
	c, err := c19Parse(f)
	if err != nil {
		fmt.Fprintf(wr, "OBS %s\n", err.Error())
		return
	}
	rt, _ := strconv.Atoi(f["rt"])
	if rt < 1 || rt > 8 || len(c.ops) == 0 {
		fmt.Fprintf(wr, "OBS bad case: rt / ops\n")
		return
	}
	obs := func() (o string) {
		defer func() {
			if p := recover(); p != nil {
				o = fmt.Sprintf("harness-panic %v", p)
			}
		}()
		return c19rRun(c, rt, c19WorkerSink{wr})
	}()
	fmt.Fprintf(wr, "OBS %s\n", obs)
}

// c19rNet is the network between the proxy's forwarder peer and the backend.
type c19rNet struct {
	mu      sync.Mutex
	lis     *mem.Listener
	conns   []*mem.Conn // dialling ends, in dial order
	refuse  bool
	refused int
}

func (n *c19rNet) dial(network, addr string) (net.Conn, error) {
	n.mu.Lock()
	defer n.mu.Unlock()
	if addr != c19rAddr {
		return nil, fmt.Errorf("no route to %s", addr)
	}
	if n.refuse {
		n.refused++
		return nil, fmt.Errorf("connection refused")
	}
	mc, err := n.lis.Dial()
	if err != nil {
		return nil, err
	}
	n.conns = append(n.conns, mc)
	return mc, nil
}

func (n *c19rNet) setRefuse(b bool) {
	n.mu.Lock()
	n.refuse = b
	n.mu.Unlock()
}

// cutLive severs the connection dialled last (both directions).
func (n *c19rNet) cutLive() {
	n.mu.Lock()
	var mc *mem.Conn
	if len(n.conns) > 0 {
		mc = n.conns[len(n.conns)-1]
	}
	n.mu.Unlock()
	if mc != nil {
		mc.Break(io.ErrUnexpectedEOF)
	}
}

// c19rPlug, on the forwarder peer, counts completed redials and finished disconnect paths.
type c19rPlug struct{ redials, discs int32 }

func (p *c19rPlug) Name() string { return "c19r-events" }
func (p *c19rPlug) PostDial(sess erpc.PreSession, isRedial bool) *erpc.Status {
	if isRedial {
		atomic.AddInt32(&p.redials, 1)
	}
	return nil
}
func (p *c19rPlug) PostDisconnect(erpc.BaseSession) *erpc.Status {
	atomic.AddInt32(&p.discs, 1)
	return nil
}

// c19rSink gives the oracles of this family their own signatures (c19:redial-forwarder:...); the
// recorded 1xx finding keeps its signature: it is the same defect, whatever the forwarder.
type c19rSink struct {
	in  c19Sink
	ctx *string
}

func (s c19rSink) Violate(oracle, detail, sig string) {
	if sig != "c19:not-transparent:status-1xx" {
		sig = "c19:redial-forwarder:" + strings.TrimPrefix(sig, "c19:")
	}
	s.in.Violate(oracle, *s.ctx+": "+detail, sig)
}
func (s c19rSink) Count(key string) { s.in.Count(key) }

const (
	c19rStOk            = 1
	c19rStPassiveClosed = 5
)

func c19rRun(c *c19Case, rt int, raw c19Sink) string {
	where := ""
	sink := c19rSink{raw, &where}
	w := &c19World{fwdPeer: map[string]erpc.Peer{}, flink: map[string]*link{}, nB: 1, curD: c.d}
	nw := &c19rNet{lis: mem.NewListener(c19rAddr)}
	var cutInHandler int32

	back := erpc.NewPeer(erpc.PeerConfig{})
	inner := w.backCall(0)
	back.SetUnknownCall(func(ctx erpc.UnknownCallCtx) (interface{}, *erpc.Status) {
		forwarded := !strings.HasPrefix(ctx.IP(), "c19c")
		res, st := inner(ctx) // records the invocation
		if forwarded && atomic.CompareAndSwapInt32(&cutInHandler, 1, 0) {
			// backend failure during forwarding: the forwarder's connection dies while the handler runs
			// (recorded, not yet answered)
			nw.cutLive()
		}
		return res, st
	})
	back.SetUnknownPush(w.backPush(0))
	w.back[0] = back
	go func() {
		for {
			conn, err := nw.lis.Accept()
			if err != nil {
				return
			}
			go back.ServeConn(conn)
		}
	}()

	erpc.VerifSetHooks(&erpc.VerifHooks{Dial: nw.dial})
	plug := &c19rPlug{}
	fwdPeer := erpc.NewPeer(erpc.PeerConfig{RedialTimes: int32(rt), RedialInterval: time.Millisecond,
		DefaultBodyCodec: c19CodecName[c.d]}, plug)
	sess, stat := fwdPeer.Dial(c19rAddr)
	if !stat.OK() {
		return "stuck:forwarder-dial-failed:" + strconv.Itoa(int(stat.Code()))
	}
	// as in the plugin's README: the forwarder IS the dialled session
	w.proxy = erpc.NewPeer(erpc.PeerConfig{}, &c19Tap{proxy.NewPlugin(func(l *proxy.Label) proxy.Forwarder {
		w.mu.Lock()
		w.labels = append(w.labels, c19Label{l.SessionID, l.RealIP, l.ServiceMethod})
		w.mu.Unlock()
		return sess
	}), w})
	w.cli = erpc.NewPeer(erpc.PeerConfig{})
	name := fmt.Sprintf("c19c%d", c.ci)
	clink := connect(w.cli, w.proxy, name)
	dlink := connect(erpc.NewPeer(erpc.PeerConfig{}), back, name)
	sentinel := erpc.VerifSentinels()["statConnClosed"]
	caller := c19Caller(c.ci)
	hist := strings.Join(c.ops, ",")

	status := func() int32 { return erpc.VerifStatus(sess) }
	// the reader of the lost connection has completely finished, having given up
	waitGaveUp := func(d0 int32) bool {
		return waitUntil(c19rWatchdog, func() bool {
			return atomic.LoadInt32(&plug.discs) > d0 && status() == c19rStPassiveClosed
		})
	}
	// the reader of the lost connection has re-established the session (the index entry is its last effect)
	waitRedialled := func(r0 int32) bool {
		return waitUntil(c19rWatchdog, func() bool {
			if atomic.LoadInt32(&plug.redials) <= r0 || status() != c19rStOk {
				return false
			}
			_, ok := fwdPeer.GetSession(sess.ID())
			return ok
		})
	}
	pushesSeen := func() int {
		w.mu.Lock()
		defer w.mu.Unlock()
		n := 0
		for _, s := range w.seen {
			if s.push {
				n++
			}
		}
		return n
	}

	outage := false      // dials are refused
	hitInOutage := false // a proxied message was sent during the current / the last outage
	recovering := false  // the outage is over and no proxied message has been forwarded since
	for i, op := range c.ops {
		where = fmt.Sprintf("forwarder = session dialled with RedialTimes=%d; history %s, op %d (%s)", rt, hist, i, op)
		st0 := status()
		sink.Count("xr:op=" + op)
		switch op {
		case "o":
			outage, hitInOutage = true, false
			nw.setRefuse(true)
			if st0 == c19rStOk {
				d0 := atomic.LoadInt32(&plug.discs)
				nw.cutLive()
				if !waitGaveUp(d0) {
					return fmt.Sprintf("stuck:op%d:%s:reader-did-not-give-up:st=%d", i, op, status())
				}
			}
		case "u":
			if outage {
				recovering = true
			}
			outage = false
			nw.setRefuse(false)
		case "f":
			if outage || st0 != c19rStOk {
				sink.Count("xr:f-noop")
				break
			}
			r0 := atomic.LoadInt32(&plug.redials)
			nw.cutLive()
			if !waitRedialled(r0) {
				return fmt.Sprintf("stuck:op%d:%s:reader-did-not-redial:st=%d", i, op, status())
			}
		case "c", "d", "D":
			cut := op != "c" && !outage && st0 == c19rStOk
			if op != "c" && !cut {
				sink.Count("xr:cut-noop")
			}
			if op == "D" && cut {
				nw.setRefuse(true)
			}
			// the direct reference outcome (the direct link is never cut)
			w.reset(c.scr, c.d, 0)
			dres := c19DoCall(dlink.A, c)
			w.takeSeen()
			w.reset(c.scr, c.d, 0)
			r0, d0 := atomic.LoadInt32(&plug.redials), atomic.LoadInt32(&plug.discs)
			if cut {
				atomic.StoreInt32(&cutInHandler, 1)
			}
			p := c19DoCall(clink.A, c)
			atomic.StoreInt32(&cutInHandler, 0)
			if cut {
				ok := false
				if op == "D" {
					ok = waitGaveUp(d0)
				} else {
					ok = waitRedialled(r0)
				}
				if !ok {
					return fmt.Sprintf("stuck:op%d:%s:reader-not-finished:st=%d", i, op, status())
				}
			}
			seen := w.takeSeen()
			switch {
			case outage || cut:
				when, want := "before", 0
				if cut {
					when, want = "during", 1
				}
				sink.Count("xr:call-" + when)
				if p.code != erpc.CodeBadGateway {
					sink.Violate("bad-gateway", fmt.Sprintf("backend connection failed %s forwarding; the proxied call's status is %d %q cause %q, want 502 Bad Gateway",
						when, p.code, p.msg, p.cause), "c19:backend-down-not-502")
				}
				if len(seen) != want {
					sink.Violate("forward-once", fmt.Sprintf("backend failure %s forwarding: backend invoked %d times, want %d", when, len(seen), want),
						fmt.Sprintf("c19:forwarded-%d-times", len(seen)))
				}
				if outage {
					hitInOutage = true
				}
				if op == "D" && cut {
					outage, hitInOutage = true, true
				}
			default:
				sink.Count("xr:call-up")
				if recovering {
					sink.Count(fmt.Sprintf("xr:call-after-recovery:hit-in-outage=%v:st=%d", hitInOutage, st0))
				}
				if len(seen) == 0 && recovering {
					sink.Violate("forward-once", fmt.Sprintf("the backend is reachable again (forwarder session status %d before the call, %d after; Health()=%v), but the proxied call was not forwarded: proxied %s, direct %s; %s",
						st0, status(), sess.Health(), p, dres, c19ShortLine(c)), "c19:not-forwarded-after-recovery")
				} else {
					c19FwdOracle(c, caller, nil, seen, sink)
					codecDiffers := len(seen) == 1 && seen[0].codec != c.codec
					c19RespOracle(c, dres, p, codecDiffers, c19RipDiffers(c, caller, seen), sink)
				}
				if len(seen) > 0 {
					recovering = false
				}
			}
		case "p":
			w.reset(c.scr, c.d, 0)
			pst := clink.A.Push(c.method, c.body, c.settings()...)
			// the plugin's push handler has returned (the forwarder returned before that)
			if !waitUntil(c19rWatchdog, func() bool {
				w.mu.Lock()
				defer w.mu.Unlock()
				return len(w.pushRet) >= 1
			}) {
				return fmt.Sprintf("stuck:op%d:p:push-handler-did-not-return:S=%d", i, pst.Code())
			}
			w.mu.Lock()
			pret := append([]string{}, w.pushRet...)
			w.mu.Unlock()
			if outage {
				time.Sleep(300 * time.Microsecond)
				seen := w.takeSeen()
				sink.Count("xr:push-before")
				hitInOutage = true
				if len(seen) != 0 {
					sink.Violate("forward-once", fmt.Sprintf("backend down: push reached a backend %d times", len(seen)), fmt.Sprintf("c19:forwarded-%d-times", len(seen)))
				}
				if len(pret) != 1 || !strings.HasPrefix(pret[0], fmt.Sprintf("code=%d&", erpc.CodeBadGateway)) {
					sink.Violate("bad-gateway", fmt.Sprintf("proxied push with the backend down: the plugin's push handler returned %q, want 502 Bad Gateway", pret), "c19:backend-down-not-502:push")
				}
				break
			}
			sink.Count("xr:push-up")
			if recovering {
				sink.Count(fmt.Sprintf("xr:push-after-recovery:hit-in-outage=%v:st=%d", hitInOutage, st0))
			}
			handlerOK := len(pret) == 1 && pret[0] == "code=0"
			// a push the plugin's handler reports as forwarded arrives; then a full proxied round trip on
			// the same path, and look again: exactly one delivery
			if handlerOK {
				waitUntil(c19rWatchdog, func() bool { return pushesSeen() >= 1 })
			}
			w.mu.Lock()
			w.scr = c19Script{}
			w.mu.Unlock()
			var tmp []byte
			clink.A.Call("/c19/sync", []byte{}, &tmp)
			time.Sleep(300 * time.Microsecond)
			var seen []c19Seen
			for _, s := range w.takeSeen() {
				if s.push {
					seen = append(seen, s)
				}
			}
			if len(seen) == 0 && recovering {
				sink.Violate("forward-once", fmt.Sprintf("the backend is reachable again (forwarder session status %d before the push, %d after; Health()=%v), but the proxied push was not forwarded: the plugin's push handler returned %q; %s",
					st0, status(), sess.Health(), pret, c19ShortLine(c)), "c19:push-not-forwarded-after-recovery")
			} else {
				c19FwdOracle(c, caller, nil, seen, sink)
				if !handlerOK {
					sink.Violate("transparent", fmt.Sprintf("backend reachable: the plugin's push handler returned %q, want OK", pret), "c19:push-status")
				}
			}
			if len(seen) > 0 {
				recovering = false
			}
		default:
			return "bad-op " + op
		}
		if s := status(); s != st0 {
			sink.Count(fmt.Sprintf("xr:status:%s:%d>%d", op, st0, s))
		}
	}
	where = fmt.Sprintf("forwarder = session dialled with RedialTimes=%d; history %s, at the end", rt, hist)
	if sentinel.Code() != erpc.CodeConnClosed {
		sink.Violate("bad-gateway-only-that-call", fmt.Sprintf("framework sentinel statConnClosed reads %d %q at the end of the history", sentinel.Code(), sentinel.Msg()),
			"c19:badgateway-mutates-shared-status")
	}
	return "oracle-only"
}
