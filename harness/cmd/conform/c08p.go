package main

// C08, peer-level family (kind `c08p`, appended after the cases of c08.go / c08b.go; the model side is
// lean/Teleport/Drv/C08p.lean over Model/PeerClose).
//
//	c08p roles=<a|s|d>... late=<none|ha|hs|hd|us|ud|na|ns|nd> sched=<tok,...,pcl,...,DRAIN>
//
// roles: how the closing peer A obtained its end of session i — a: accepted by A's listener
// (serveListener's accept goroutine), s: A.ServeConn, d: A.Dial (client role, no redial). The schedule
// tokens are those of c08 (gates of session i, `pcl` = Peer.Close, DRAIN).
// late: one more connection whose establishment overlaps Peer.Close —
//
//	h<r>  its accept / dial hook (a plugin of A) is still running while the whole schedule runs and is
//	      released after DRAIN (so after Peer.Close has returned)
//	u<r>  (ServeConn / Dial only) the session is already serving (status Ok, reader started, one inbound
//	      call's handler is in its body) but its goroutine is parked just before sessHub.set — it is not in
//	      the hub while Peer.Close ranges over it; handler and hub.set are released after DRAIN
//	n<r>  the connection is attempted only after DRAIN
//
// Observation = the c08 observation of the ordinary sessions + ` | late=<refused|alive[:hrun]>`:
// `alive` = after everything the late session exists, is healthy and answers a fresh call; `:hrun` =
// its handler (entered before Peer.Close was called) was still running when Peer.Close returned.
//
// Oracles (the property itself, on the real code): a handler entered before Peer.Close was called, on a
// session that Peer.Close closes (connection intact, nobody else closing it), must have finished and
// written its reply before Peer.Close returns (c08:peer-close-returned-before-handler-finished) and its
// caller must get the genuine reply (c08:peer-close-lost-reply); after DRAIN Peer.Close must have
// returned (c08:peer-close-never-returns). For the `u` modes the same demand on the late session has its
// own signature (c08:peer-close-missed-unindexed-session).

import (
	"fmt"
	"io"
	"net"
	"strconv"
	"strings"
	"sync"
	"sync/atomic"
	"time"

	erpc "github.com/henrylee2cn/erpc/v6"

	"verif/harness/internal/hx"
	"verif/harness/internal/mem"
)

func init() {
	p := props["c08"]
	g, r, su := p.Gen, p.Run, p.Setup
	p.Setup = func() {
		if su != nil {
			su()
		}
		// One hook set for the whole process. The Event hook must never be switched on or off while
		// goroutines of earlier cases may still be between verifEnter and verifLeave (both test
		// "Event != nil" separately: a switch in between leaves the recorder mutex locked for good).
		erpc.VerifSetHooks(&erpc.VerifHooks{Gate: c08Gate, Dial: c08pDial.dial, Event: c08pEvent})
	}
	p.Gen = func(rr *hx.R, tier string, out *hx.Out) []string {
		ls := g(rr, tier, out)
		n := 48
		if tier == "thorough" {
			n = 400
		}
		for i := 0; i < n; i++ {
			ls = append(ls, c08pCase(rr, i))
		}
		return ls
	}
	p.Run = func(line string, out *hx.Out) (string, bool) {
		if strings.HasPrefix(line, "c08p ") {
			return c08pRun(line, out)
		}
		return r(line, out)
	}
}

var c08pLates = []string{"none", "ha", "hs", "hd", "us", "ud", "na", "ns", "nd"}

func c08pCase(r *hx.R, i int) string {
	n := 1 + r.Intn(4)
	roles := make([]byte, n)
	for k := range roles {
		roles[k] = "asd"[r.Intn(3)]
	}
	late := c08pLates[i%len(c08pLates)]
	if r.Intn(5) == 0 {
		late = c08pLates[r.Intn(len(c08pLates))]
	}
	var parts []string
	type sz struct{ nin, nout int }
	var szs []sz
	for si := 1; si <= n; si++ {
		nin, nout := r.Intn(4), r.Intn(3)
		if r.Intn(3) == 0 {
			nin = 1 + r.Intn(2)
		}
		szs = append(szs, sz{nin, nout})
		inPh := c08RandPh(r, nin, c08InPh)
		if r.Intn(2) == 0 {
			// handlers in flight, held by gates: entered / body returned / reply written
			for k := range inPh {
				inPh[k] = "EEXW"[r.Intn(4)]
			}
		}
		parts = append(parts, c08Prefix(r, si, inPh, c08RandPh(r, nout, c08OutPh))...)
		if r.Intn(16) == 0 {
			parts = append(parts, fmt.Sprintf("%d.cut", si), fmt.Sprintf("%d.rm", si))
		}
		if r.Intn(12) == 0 {
			// this session is being closed by its user when Peer.Close comes
			parts = append(parts, fmt.Sprintf("%d.cl", si))
			for k := r.Intn(3); k > 0; k-- {
				parts = append(parts, fmt.Sprintf("%d.cc", si))
			}
		}
	}
	parts = append(parts, "pcl")
	if n > 1 && r.Intn(3) == 0 {
		// one session runs to the end of its Close() while the handlers of the others stay held:
		// Peer.Close must still be waiting (a join that stops early returns here, with handlers running)
		si := 1 + r.Intn(n)
		for rep := 0; rep < 5; rep++ {
			parts = append(parts, c08pFinish(si, szs[si-1].nin, szs[si-1].nout)...)
		}
	}
	for rounds := r.Intn(4); rounds > 0; rounds-- {
		si := 1 + r.Intn(n)
		parts = append(parts, c08Cont(r, si, szs[si-1].nin, szs[si-1].nout, r.Intn(10), false)...)
	}
	parts = append(parts, "DRAIN")
	return fmt.Sprintf("c08p roles=%s late=%s sched=%s", roles, late, strings.Join(parts, ","))
}

// c08pFinish is one canonical release pass over session si only (the tokens of c08Sess.passToks).
func c08pFinish(si, nin, nout int) []string {
	t := []string{fmt.Sprintf("%d.cc", si), fmt.Sprintf("%d.rm", si), fmt.Sprintf("%d.ra", si)}
	for k := 1; k <= nin; k++ {
		for _, b := range []string{"en", "bd", "ex", "fw"} {
			t = append(t, fmt.Sprintf("%d.%s%d", si, b, k))
		}
	}
	for j := 1; j <= nout; j++ {
		for _, b := range []string{"oa", "ob", "oc", "pr", "rd"} {
			t = append(t, fmt.Sprintf("%d.%s%d", si, b, j))
		}
	}
	return append(t, fmt.Sprintf("%d.cc", si))
}

// ---- the late connection ------------------------------------------------------------------------

type c08pLate struct {
	mode     string
	mu       sync.Mutex
	addr     string        // remote address (seen from A) of the late connection
	hookCh   chan struct{} // closed: the accept / dial hook of the late connection may return
	hubCh    chan struct{} // closed: the late session's sessHub.set may proceed
	bodyCh   chan struct{} // closed: the late session's handler body may return
	inHook   int32
	atHubset int32
	inBody   int32
	bodyDone int32
	sessA    erpc.Session // A's session object of the late connection (from the hook)
}

var c08pCur atomic.Value // *c08pLate

func c08pGet() *c08pLate {
	l, _ := c08pCur.Load().(*c08pLate)
	return l
}

// c08pPlugin is registered on A: it parks the accept / dial hook of the late connection.
type c08pPlugin struct{}

func (c08pPlugin) Name() string { return "c08p-late" }

func (c08pPlugin) hold(sess erpc.PreSession) {
	l := c08pGet()
	if l == nil {
		return
	}
	l.mu.Lock()
	mine := l.addr != "" && sess.RemoteAddr().String() == l.addr
	l.mu.Unlock()
	if !mine {
		return
	}
	if l.mode[0] == 'h' {
		atomic.StoreInt32(&l.inHook, 1)
		<-l.hookCh
	}
}

func (p c08pPlugin) PostAccept(sess erpc.PreSession) *erpc.Status { p.hold(sess); return nil }
func (p c08pPlugin) PostDial(sess erpc.PreSession, isRedial bool) *erpc.Status {
	p.hold(sess)
	return nil
}

func c08pEvent(kind string, sess erpc.Session, a, b int64) {
	if kind != "hubset" || sess == nil {
		return
	}
	l := c08pGet()
	if l == nil || l.mode[0] != 'u' {
		return
	}
	l.mu.Lock()
	mine := l.addr != "" && sess.RemoteAddr().String() == l.addr
	if mine {
		l.sessA = sess
	}
	l.mu.Unlock()
	if mine {
		atomic.StoreInt32(&l.atHubset, 1)
		<-l.hubCh
	}
}

// C08q is registered on A: Hold blocks until the harness lets it go (the late session's handler),
// Echo answers at once.
type C08q struct{ erpc.CallCtx }

func (h *C08q) Hold(arg *int) (int, *erpc.Status) {
	if l := c08pGet(); l != nil {
		atomic.StoreInt32(&l.inBody, 1)
		<-l.bodyCh
		atomic.StoreInt32(&l.bodyDone, 1)
	}
	return *arg + 3000, nil
}

func (h *C08q) Echo(arg *int) (int, *erpc.Status) { return *arg + 1, nil }

// ---- run ------------------------------------------------------------------------------------------

type c08pDialer struct {
	mu    sync.Mutex
	conns map[string]net.Conn
}

var c08pDial = &c08pDialer{conns: map[string]net.Conn{}}

func (d *c08pDialer) dial(network, addr string) (net.Conn, error) {
	d.mu.Lock()
	defer d.mu.Unlock()
	c := d.conns[addr]
	if c == nil {
		return nil, fmt.Errorf("connection refused")
	}
	delete(d.conns, addr)
	return c, nil
}

func c08pRun(line string, out *hx.Out) (obs string, nontrivial bool) {
	_, f := hx.Fields(line)
	roles, mode := f["roles"], f["late"]
	n := len(roles)
	okMode := false
	for _, m := range c08pLates {
		okMode = okMode || m == mode
	}
	if n < 1 || n > 8 || f["sched"] == "" || !okMode || strings.Trim(roles, "asd") != "" {
		return "bad-case", false
	}
	defer func() {
		if p := recover(); p != nil {
			obs = fmt.Sprintf("panic:%v", p)
		}
	}()
	no := atomic.AddInt64(&c08CaseNo, 1)
	late := &c08pLate{mode: mode, hookCh: make(chan struct{}), hubCh: make(chan struct{}), bodyCh: make(chan struct{})}
	c08pCur.Store(late)
	defer c08pCur.Store((*c08pLate)(nil))
	dialer := c08pDial

	A := erpc.NewPeer(erpc.PeerConfig{}, c08pPlugin{})
	B := erpc.NewPeer(erpc.PeerConfig{})
	A.RouteCall(new(C08x))
	A.RouteCall(new(C08q))
	B.RouteCall(new(C08x))
	B.RoutePush(new(C08p))
	lis := mem.NewListener(fmt.Sprintf("c08plis-%d:1", no))
	go erpc.VerifServeListener(A, lis)

	c := &c08Case{byAddr: map[string]*c08Sess{}, byAddrB: map[string]*c08Sess{}, lis: lis}
	// establish: returns A's and B's session of a fresh connection made the given way, and B's conn
	establish := func(role byte, name string, isLate bool) (sa, sb erpc.Session, cb *mem.Conn, ok bool) {
		var ca *mem.Conn
		switch role {
		case 'a':
			x, err := lis.Dial()
			if err != nil {
				return nil, nil, nil, false
			}
			cb = x
		default:
			ca, cb = mem.Pair(name)
		}
		if isLate {
			late.mu.Lock()
			late.addr = cb.LocalAddr().String()
			late.mu.Unlock()
		}
		var wg sync.WaitGroup
		wg.Add(1)
		go func() {
			defer wg.Done()
			sb, _ = B.ServeConn(cb)
		}()
		switch role {
		case 'a':
			// A's session comes from the accept goroutine
			addr := cb.LocalAddr().String()
			done := func() bool {
				found := false
				A.RangeSession(func(s erpc.Session) bool {
					if s.RemoteAddr().String() == addr && s.Health() {
						sa, found = s, true
					}
					return !found
				})
				return found
			}
			if isLate && mode[0] == 'h' {
				// parked in the hook: the session appears only after the release
				wg.Wait()
				return nil, sb, cb, true
			}
			if !waitUntil(3*time.Second, done) {
				wg.Wait()
				return nil, sb, cb, false
			}
		case 's':
			if isLate {
				res := make(chan erpc.Session, 1)
				go func() { s, _ := A.ServeConn(ca); res <- s }()
				wg.Wait()
				late.mu.Lock()
				late.sessA = nil
				late.mu.Unlock()
				go func() {
					s := <-res
					late.mu.Lock()
					late.sessA = s
					late.mu.Unlock()
				}()
				return nil, sb, cb, true
			}
			sa, _ = A.ServeConn(ca)
		case 'd':
			addr := fmt.Sprintf("c08pdial-%d-%s:1", no, name)
			dialer.mu.Lock()
			dialer.conns[addr] = ca
			dialer.mu.Unlock()
			if isLate {
				res := make(chan erpc.Session, 1)
				go func() { s, _ := A.Dial(addr); res <- s }()
				wg.Wait()
				go func() {
					s := <-res
					late.mu.Lock()
					late.sessA = s
					late.mu.Unlock()
				}()
				return nil, sb, cb, true
			}
			sa, _ = A.Dial(addr)
		}
		wg.Wait()
		return sa, sb, cb, sa != nil && sb != nil
	}

	for i := 0; i < n; i++ {
		name := fmt.Sprintf("c08p-%d-%d", no, i)
		sa, sb, cb, ok := establish(roles[i], name, false)
		if !ok {
			return "connect-failed", false
		}
		l := &link{A: sa, B: sb, CB: cb}
		s := &c08Sess{idx: i, l: l, name: name, parked: map[string]*c08Slot{}, gidKey: map[int64]string{},
			inSent: map[int]bool{}, inBody: map[int]chan struct{}{}, inInBody: map[int]bool{}, inBodyRl: map[int]bool{},
			inStat: map[int]string{}, inDone: map[int]bool{}, outStat: map[int]string{}, outBodyB: map[int]chan struct{}{},
			outInB: map[int]bool{}, prs: map[int]bool{}, ev: map[string]int64{}, pend: "-"}
		c.sess = append(c.sess, s)
		c.byAddr[sa.RemoteAddr().String()] = s
		c.byAddrB[sb.RemoteAddr().String()] = s
	}
	// the late connection, as far as it gets before the schedule
	var lateB erpc.Session
	var lateCB *mem.Conn
	var lateCall erpc.CallCmd
	lateOK := true
	if mode[0] == 'h' || mode[0] == 'u' {
		_, lateB, lateCB, lateOK = establish(mode[1], fmt.Sprintf("c08p-%d-late", no), true)
		if lateOK && mode[0] == 'h' {
			lateOK = waitUntil(3*time.Second, func() bool { return atomic.LoadInt32(&late.inHook) == 1 })
		}
		if lateOK && mode[0] == 'u' {
			lateOK = waitUntil(3*time.Second, func() bool { return atomic.LoadInt32(&late.atHubset) == 1 })
			if lateOK && lateB != nil {
				k := 7
				lateCall = lateB.AsyncCall("/c08q/hold", &k, new(int), make(chan erpc.CallCmd, 1))
				lateOK = waitUntil(3*time.Second, func() bool { return atomic.LoadInt32(&late.inBody) == 1 })
			}
		}
		if !lateOK {
			close(late.hookCh)
			close(late.hubCh)
			close(late.bodyCh)
			return "late-setup-failed", false
		}
	}
	c.settle()
	c08Cur.Store(c)
	defer c08Cur.Store((*c08Case)(nil))

	var pclStart, peerRet int64
	toks := strings.Split(f["sched"], ",")
	for _, t := range toks {
		if c.timeout {
			break
		}
		switch {
		case t == "DRAIN":
			c.drain()
		case t == "pcl":
			if c.peerPC == 0 {
				pclStart = c.tick()
				c08pPeerClose(c, A, &peerRet)
			}
		default:
			d := strings.IndexByte(t, '.')
			if d <= 0 {
				continue
			}
			si, err := strconv.Atoi(t[:d])
			if err != nil {
				continue
			}
			c.sessTok(si-1, t[d+1:])
		}
	}
	joined := c.peerPC == 2
	if !c.timeout && len(toks) > 0 && toks[len(toks)-1] == "DRAIN" && c.peerPC == 1 {
		stuck := false
		c.mu.Lock()
		for _, s := range c.sess {
			if s.closeBegun && !s.closeRet {
				stuck = true // reported by the session-level oracle of c08; here only the join itself
			}
		}
		c.mu.Unlock()
		if !stuck {
			out.Violate(line, "peer-close-returns", "every session's Close() has returned but Peer.Close() has not", "c08:peer-close-never-returns")
		}
	}

	// ---- the late connection after the schedule ---------------------------------------------------
	lateObs := "none"
	if mode != "none" && !c.timeout {
		hrun := false
		switch mode[0] {
		case 'h':
			close(late.hookCh)
		case 'u':
			hrun = joined && atomic.LoadInt32(&late.bodyDone) == 0
			if hrun {
				out.Violate(line, "peer-close-waits-for-entered-handlers",
					"a session made by "+map[byte]string{'s': "ServeConn", 'd': "Dial"}[mode[1]]+" was already serving (status Ok, handler of an inbound call in its body) but not yet in the session hub (its goroutine stood just before sessHub.set) when Peer.Close ran: Peer.Close returned while that handler was still running, and the session stays open",
					"c08:peer-close-missed-unindexed-session")
			}
			close(late.bodyCh)
			if lateCall != nil {
				select {
				case <-lateCall.Done():
					if joined && !lateCall.Status().OK() {
						out.Violate(line, "peer-close-keeps-entered-handlers-reply",
							"late session: the handler entered before Peer.Close completed with "+c08StatStr(lateCall.Status()), "c08:peer-close-lost-reply")
					}
				case <-time.After(3 * time.Second):
				}
			}
			close(late.hubCh)
		case 'n':
			var sa erpc.Session
			sa, lateB, lateCB, lateOK = establish(mode[1], fmt.Sprintf("c08p-%d-late", no), false)
			late.mu.Lock()
			late.sessA = sa
			late.mu.Unlock()
		}
		alive := false
		if lateB != nil {
			alive = waitUntil(2*time.Second, func() bool { return c08pEcho(lateB) })
			if alive && mode != "na" {
				// and A's own record of it is healthy
				alive = waitUntil(time.Second, func() bool {
					late.mu.Lock()
					s := late.sessA
					addr := late.addr
					late.mu.Unlock()
					if mode == "ha" {
						found := false
						A.RangeSession(func(x erpc.Session) bool {
							if x.RemoteAddr().String() == addr && x.Health() {
								found = true
							}
							return !found
						})
						return found
					}
					return s != nil && s.Health()
				})
			}
		}
		if !alive && lateCB != nil {
			// nobody serves the other end (a closed listener may still buffer the connection): cut it,
			// so that the unanswered probe calls are cancelled and B can close
			lateCB.Break(io.ErrUnexpectedEOF)
		}
		if alive {
			lateObs = "alive"
			if hrun {
				lateObs += ":hrun"
			}
			out.Count("late." + mode + ".alive")
		} else {
			lateObs = "refused"
			out.Count("late." + mode + ".refused")
		}
	} else if mode != "none" {
		close(late.hookCh)
		close(late.bodyCh)
		close(late.hubCh)
	}

	// ---- end of schedule: open everything, close both peers, collect --------------------------------
	timedOut := c.timeout
	c.openAll()
	closed := make(chan struct{})
	go func() {
		A.Close()
		B.Close()
		// sessions that survived Peer.Close
		late.mu.Lock()
		s := late.sessA
		late.mu.Unlock()
		if s != nil {
			s.Close()
		}
		if lateB != nil {
			lateB.Close()
		}
		close(closed)
	}()
	select {
	case <-closed:
	case <-time.After(5 * time.Second):
		timedOut = true
	}
	waitUntil(3*time.Second, func() bool {
		c.mu.Lock()
		defer c.mu.Unlock()
		for _, s := range c.sess {
			for _, k := range s.ins {
				if !s.inDone[k] {
					return false
				}
			}
			for _, j := range s.outs {
				if _, ok := s.outStat[j]; !ok {
					return false
				}
			}
		}
		return true
	})
	c.mu.Lock()
	defer c.mu.Unlock()
	if timedOut {
		out.Count("timeout")
		return "timeout tr=" + strings.Join(c.log, " "), false
	}
	var parts []string
	nEntered := 0
	for _, s := range c.sess {
		ret := s.ev["closeRet"]
		before := func(e int64) bool { return e != 0 && (ret == 0 || e < ret) }
		var ins, outs []string
		for _, k := range s.ins {
			hk := "h" + strconv.Itoa(k)
			ent := s.ev["h.enter:"+hk]
			e := ent != 0 && (s.ev["closeStart"] == 0 || ent < s.ev["closeStart"])
			x := before(s.ev["h.exit:"+hk])
			w := before(s.ev["reply.written:"+hk])
			st, ok := s.inStat[k]
			if !ok {
				st = "?"
			}
			ins = append(ins, fmt.Sprintf("%d:%s%s%s:%s", k, c08b(e), c08b(x), c08b(w), st))
			// peer-level oracle: entered before Peer.Close was called, on a session Peer.Close closes
			if s.byPeer && pclStart != 0 && ent != 0 && ent < pclStart && s.ev["cut"] == 0 {
				nEntered++
				out.Count("peer.in.entered-before-peer-close")
				if st != "OK" {
					out.Violate(line, "peer-close-keeps-entered-handlers-reply",
						fmt.Sprintf("session %d (role %c) inbound call %d: handler entered before Peer.Close() but the caller got status %s", s.idx+1, roles[s.idx], k, st),
						"c08:peer-close-lost-reply")
				}
				if pr := atomic.LoadInt64(&peerRet); pr != 0 {
					peerRet := pr
					hx, hw := s.ev["h.exit:"+hk], s.ev["reply.written:"+hk]
					if hx == 0 || hx > peerRet || hw == 0 || hw > peerRet {
						out.Violate(line, "peer-close-waits-for-entered-handlers",
							fmt.Sprintf("session %d (role %c) inbound call %d: Peer.Close() returned before handler exit / reply write", s.idx+1, roles[s.idx], k),
							"c08:peer-close-returned-before-handler-finished")
					}
				}
			}
		}
		for _, j := range s.outs {
			st, ok := s.outStat[j]
			if !ok {
				st = "?"
			}
			d := before(s.ev["done:c"+strconv.Itoa(j)])
			outs = append(outs, fmt.Sprintf("%d:%s:%s", j, c08b(d), st))
			if s.byPeer && s.outInB[j] && s.ev["cut"] == 0 && st != "OK" {
				out.Violate(line, "peer-close-issued-call-gets-peer-reply",
					fmt.Sprintf("session %d (role %c) outbound call %d reached the peer, the connection was never lost, but it completed with %s", s.idx+1, roles[s.idx], j, st),
					"c08:peer-close-lost-reply")
			}
		}
		parts = append(parts, fmt.Sprintf("in=%s out=%s pend=%s st=%d cl=%s", c08dash(strings.Join(ins, ",")), c08dash(strings.Join(outs, ",")),
			s.pend, erpc.VerifStatus(s.l.A), s.closerChar()))
		out.Count("role=" + string(roles[s.idx]))
	}
	pcs := [...]string{"idle", "closing", "joined"}[c.peerPC]
	if c.peerPC == 2 {
		out.Count("peer.joined")
		if c.lisState != "closed" {
			out.Violate(line, "peer-close-closes-listeners", "Peer.Close returned but the listener still accepts", "c08:listener-open-after-peer-close")
		}
		for _, s := range c.sess {
			if !s.closeRet {
				out.Violate(line, "peer-close-joins-sessions", fmt.Sprintf("Peer.Close returned before session %d's Close", s.idx+1), "c08:peer-close-returned-early")
			}
		}
	}
	out.Count("late=" + mode)
	obs = "tr=" + c08dash(strings.Join(c.log, " ")) + " | " + strings.Join(parts, " ; ") + " | peer=" + pcs + " | late=" + lateObs
	return obs, nEntered > 0 || mode != "none"
}

// c08pEcho: a fresh call on the session is answered within a second.
func c08pEcho(sess erpc.Session) bool {
	k := 1
	var r int
	cmd := sess.AsyncCall("/c08q/echo", &k, &r, make(chan erpc.CallCmd, 1))
	select {
	case <-cmd.Done():
		return cmd.Status().OK() && r == 2
	case <-time.After(time.Second):
		return false
	}
}

// c08pPeerClose is c08Case.peerClose with the moment Peer.Close returned recorded in the global order.
func c08pPeerClose(c *c08Case, A erpc.Peer, peerRet *int64) {
	if c.peerPC != 0 || c.timeout {
		return
	}
	c.mu.Lock()
	c.peerPC = 1
	start := c.tick()
	var begun []*c08Sess
	for _, s := range c.sess {
		if !s.closeBegun {
			s.closeBegun = true
			s.byPeer = true
			s.ev["closeStart"] = start
			begun = append(begun, s)
		}
	}
	c.mu.Unlock()
	go func() {
		A.Close()
		atomic.StoreInt64(peerRet, c.tick())
		atomic.StoreInt32(&c.peerDone, 1)
	}()
	if !c.settle() {
		c.timeout = true
		c.openAll()
		return
	}
	c.mu.Lock()
	for _, s := range begun {
		if s.parked["closer"] == nil && !s.closerGated {
			s.closeRet = true
			s.ev["closeRet"] = c.tick()
		}
	}
	c.mu.Unlock()
	c.afterSettle()
	c.mu.Lock()
	c.log = append(c.log, "pcl")
	for _, s := range begun {
		c.log = append(c.log, fmt.Sprintf("%d.cl/%s/%s", s.idx+1, s.closerChar(), s.readerChar()))
	}
	c.tryJoin()
	c.mu.Unlock()
}
