package main

// C08, cancel-loop family (appended after the cases of c08.go, same case kind, same runner).
//
// readDisconnected cancels the pending calls by ranging over callCmdMap (a Go map: the iteration
// order is not specified) and takes each call's mutex; a caller that is still inside AsyncCall
// (parked at call.store or write.check) holds that mutex, so the loop blocks there with the entries it
// has not yet reached still pending. Which calls are already cancelled at that moment depends on the
// map order; it becomes visible when a Close() that finds the status already PassiveClosing returns
// at once (pend=, the d flag of out=). The Lean driver lists every outcome of every visiting order
// (alternatives separated by " || "); the real code must print one of them.
//
// Schedules: w written calls (the peer's handler is running), b callers parked inside AsyncCall, 0..2
// inbound handlers that keep the reader in its context wait, the connection is cut, the reader runs
// into the loop; then Close() and the releases of the parked callers in random order; DRAIN.
// A second shape invokes Close() first (ActiveClosing, the closer waits for the calls) and cuts then.

import (
	"fmt"
	"strings"

	"verif/harness/internal/hx"
)

func init() {
	p := props["c08"]
	g := p.Gen
	p.Gen = func(r *hx.R, tier string, out *hx.Out) []string {
		ls := g(r, tier, out)
		n := 70
		if tier == "thorough" {
			n = 700
		}
		for i := 0; i < n; i++ {
			ls = append(ls, c08bCase(r))
		}
		return ls
	}
}

func c08bCase(r *hx.R) string {
	w := 1 + r.Intn(4)
	b := 1 + r.Intn(2)
	if r.Intn(6) == 0 {
		b = 0
	}
	var outPh []byte
	for i := 0; i < w; i++ {
		outPh = append(outPh, 'W')
	}
	for i := 0; i < b; i++ {
		outPh = append(outPh, "TK"[r.Intn(2)])
	}
	if r.Intn(4) == 0 {
		outPh = append(outPh, "SZ"[r.Intn(2)])
	}
	r.Shuffle(len(outPh), func(i, j int) { outPh[i], outPh[j] = outPh[j], outPh[i] })
	var inPh []byte
	for i := r.Intn(3); i > 0; i-- {
		inPh = append(inPh, "CEXW"[r.Intn(4)])
	}
	toks := c08Prefix(r, 1, inPh, outPh)
	closeFirst := r.Intn(4) == 0
	if closeFirst {
		toks = append(toks, "1.cl")
		for k := r.Intn(4); k > 0; k-- {
			toks = append(toks, "1.cc")
		}
	}
	toks = append(toks, "1.cut", "1.rm")
	// releases: the inbound handlers (so that the context wait ends), the parked callers, Close()
	var rel []string
	for i, ph := range inPh {
		k := i + 1
		switch ph {
		case 'C':
			rel = append(rel, fmt.Sprintf("1.en%d", k), fmt.Sprintf("1.bd%d", k), fmt.Sprintf("1.ex%d", k))
		case 'E':
			rel = append(rel, fmt.Sprintf("1.bd%d", k), fmt.Sprintf("1.ex%d", k))
		case 'X':
			rel = append(rel, fmt.Sprintf("1.ex%d", k))
		case 'W':
			rel = append(rel, fmt.Sprintf("1.fw%d", k))
		}
	}
	var callers []string
	for j, ph := range outPh {
		switch ph {
		case 'T':
			callers = append(callers, fmt.Sprintf("1.ob%d", j+1), fmt.Sprintf("1.oc%d", j+1))
		case 'K':
			callers = append(callers, fmt.Sprintf("1.oc%d", j+1))
		}
	}
	// keep each goroutine's own releases in order, interleave the goroutines at random
	mix := c08bMerge(r, rel, callers)
	if !closeFirst {
		at := r.Intn(len(mix) + 1)
		if r.Intn(2) == 0 {
			// the handlers finish first, so the loop is running (blocked at the first parked caller it
			// meets) when Close() comes
			mix = append(append([]string{}, rel...), callers...)
			at = len(rel)
		}
		mix = append(mix[:at:at], append([]string{"1.cl"}, mix[at:]...)...)
	}
	if r.Intn(3) == 0 {
		at := r.Intn(len(mix) + 1)
		mix = append(mix[:at:at], append([]string{fmt.Sprintf("1.o%d", len(outPh)+1), fmt.Sprintf("1.oa%d", len(outPh)+1)}, mix[at:]...)...)
	}
	cutAt := r.Intn(len(mix) + 1)
	if r.Intn(3) != 0 {
		cutAt = len(mix)
	}
	toks = append(toks, mix[:cutAt]...)
	toks = append(toks, "DRAIN")
	return "c08 n=1 sched=" + strings.Join(toks, ",")
}

// c08bMerge interleaves two token lists at random, keeping the order inside each.
func c08bMerge(r *hx.R, a, b []string) []string {
	var m []string
	for len(a) > 0 || len(b) > 0 {
		if len(b) == 0 || (len(a) > 0 && r.Intn(2) == 0) {
			m, a = append(m, a[0]), a[1:]
		} else {
			m, b = append(m, b[0]), b[1:]
		}
	}
	return m
}
