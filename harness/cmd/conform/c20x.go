package main

import (
	"fmt"
	"strings"

	"github.com/henrylee2cn/erpc/v6/socket"
	"github.com/henrylee2cn/goutil/status"

	"verif/harness/internal/hx"
)

// C20, ABORTED uses of a pooled message (kind `xc20gp`, the property's own oracle, no model): the
// scripted families hand an object back through its documented release function. Here a use is
// aborted half-way: socket.GetMessage(settings...) applies the first settings and a later one
// panics (WithXferPipe of an unregistered filter id is documented to panic; the framework recovers
// such panics itself in Call/Push/Reply and returns a bad-message status). Whatever the framework
// does with the half-initialised message, the NEXT message handed out by the pool must read like a
// new one in every getter and on the wire. (Seed C20-D put the message back into the pool from a
// deferred function without resetting it.)
//
//	xc20gp dirty=<n settings before the panicking one> rounds=<k>

func init() {
	p := props["c20"]
	g, r := p.Gen, p.Run
	p.Gen = func(rr *hx.R, tier string, out *hx.Out) []string {
		ls := g(rr, tier, out)
		n := 6
		if tier == "thorough" {
			n = 40
		}
		for i := 0; i < n; i++ {
			ls = append(ls, fmt.Sprintf("xc20gp dirty=%d rounds=%d", 1+rr.Intn(6), 1+rr.Intn(4)))
		}
		return ls
	}
	p.Run = func(line string, out *hx.Out) (string, bool) {
		if strings.HasPrefix(line, "xc20gp ") {
			return c20xRun(line, out)
		}
		return r(line, out)
	}
}

func c20xFieldsStr(m socket.Message) string {
	var b strings.Builder
	for _, kv := range c20MsgFields(m) {
		b.WriteString(kv[0] + "=" + kv[1] + " ")
	}
	b.WriteString("wire=" + c20Pack(m))
	return b.String()
}

func c20xRun(line string, out *hx.Out) (obs string, nt bool) {
	defer func() {
		if p := recover(); p != nil {
			obs, nt = fmt.Sprint("harness-panic:", p), true
		}
	}()
	_, f := hx.Fields(line)
	var dirty, rounds int
	fmt.Sscan(f["dirty"], &dirty)
	fmt.Sscan(f["rounds"], &rounds)
	if dirty < 0 || dirty > 8 || rounds < 1 || rounds > 8 {
		return "bad-case", false
	}
	fresh := c20xFieldsStr(socket.NewMessage())
	all := []socket.MessageSetting{
		socket.WithSetMeta("token", "secret-of-previous-use"), socket.WithServiceMethod("/prev/use"), socket.WithBodyCodec('j'),
		socket.WithBody([]byte("previous body")), socket.WithAddMeta("k", "v"), socket.WithStatus(status.New(500, "previous failure", "cause")),
	}
	for r := 0; r < rounds; r++ {
		// the aborted use
		func() {
			defer func() { recover() }()
			st := append(append([]socket.MessageSetting(nil), all[:dirty%len(all)+1]...), socket.WithXferPipe(250)) // 250: no such filter -> panic
			m := socket.GetMessage(st...)
			socket.PutMessage(m) // not reached when the setting panics
		}()
		// the next users (the pool may hand out the aborted one or a new one; take a few)
		for k := 0; k < 3; k++ {
			m := socket.GetMessage()
			got := c20xFieldsStr(m)
			if got != fresh {
				out.Violate(line, "pooled-message-like-fresh",
					fmt.Sprintf("round %d, %d. message taken after a GetMessage whose last setting panicked: %s ; a new message reads: %s", r, k+1, got, fresh),
					"c20:msg:stale-after-aborted-getmessage")
				socket.PutMessage(m)
				return "oracle-only", true
			}
			socket.PutMessage(m)
		}
	}
	out.Count("xc20gp")
	return "oracle-only", true
}
