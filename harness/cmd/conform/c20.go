package main

// Property C20: recycled messages, contexts, metadata containers, transfer pipes, byte buffers and
// sockets behave like fresh ones. Differential oracle on the REAL objects: a random operation
// sequence dirties an object, it goes back to its pool, the next user runs a random sequence on
// what the pool hands out and on a freshly constructed object; every getter (after every call) and
// the packed bytes must agree. The runner pins the process to one P and one OS thread so that
// sync.Pool returns the object that was just put; recycling is verified by pointer identity and
// counted (out.Extra). The Lean model runs the same two sequences (Drv/C20) and must print the
// same line as the recycled real object.

import (
	"context"
	"fmt"
	"runtime"
	"sort"
	"strconv"
	"strings"
	"sync"
	"time"

	erpc "github.com/henrylee2cn/erpc/v6"
	"github.com/henrylee2cn/erpc/v6/socket"
	"github.com/henrylee2cn/erpc/v6/utils"
	"github.com/henrylee2cn/erpc/v6/xfer"
	"github.com/henrylee2cn/goutil"
	"github.com/henrylee2cn/goutil/status"

	"verif/harness/internal/hx"
	"verif/harness/internal/mem"
)

func init() {
	props["c20"] = &Prop{Setup: c20Setup, Gen: c20Gen, Run: c20Run, Finish: c20Finish}
}

var (
	c20Srv, c20Cli erpc.Peer
	c20Link        *link
	c20Rec         = map[string]*[2]int{} // object kind -> {cases, really recycled}
	c20H           c20Handlers
	c20Timeouts    int
)

func c20Setup() {
	// one P + one OS thread: a sync.Pool Put followed by Get returns the same object.
	runtime.GOMAXPROCS(1)
	runtime.LockOSThread()
	erpc.SetLoggerLevel("OFF")
	regTestFilters()
	socket.SetMessageSizeLimit(0)
}

func c20Finish(out *hx.Out) {
	for k, v := range c20Rec {
		out.Extra["c20_"+k+"_cases"] = v[0]
		out.Extra["c20_"+k+"_recycled_same_pointer"] = v[1]
	}
	out.Extra["c20_ctx_timeouts"] = c20Timeouts
	if c20Srv != nil {
		if c20Link != nil {
			c20Link.A.Close()
		}
		c20Srv.Close()
		c20Cli.Close()
	}
}

func c20Count(kind string, recycled bool) {
	v := c20Rec[kind]
	if v == nil {
		v = &[2]int{}
		c20Rec[kind] = v
	}
	v[0]++
	if recycled {
		v[1]++
	}
}

// ---------------------------------------------------------------------------------------------
// generation

var c20Keys = [][]byte{[]byte("a"), []byte("b"), []byte("k1"), []byte("a"), []byte("key"), {}, []byte("a b"), []byte("x%y"), {0xff}, []byte("secret")}

func c20Key(r *hx.R) []byte {
	if r.Intn(6) == 0 {
		return r.AnyBytes(r.Intn(5))
	}
	return c20Keys[r.Intn(len(c20Keys))]
}

func c20Val(r *hx.R) []byte {
	switch r.Intn(6) {
	case 0:
		return nil
	case 1:
		return r.AnyBytes(1 + r.Intn(30))
	}
	return r.Bytes(1+r.Intn(8), 1)
}

func c20KVs(r *hx.R, max int) [][2][]byte {
	var kv [][2][]byte
	for n := r.Intn(max + 1); n > 0; n-- {
		kv = append(kv, [2][]byte{c20Key(r), c20Val(r)})
	}
	return kv
}

func c20QueryOf(kv [][2][]byte) []byte {
	a := &utils.Args{}
	for _, p := range kv {
		a.AddBytesKV(p[0], p[1])
	}
	return append([]byte(nil), a.QueryString()...)
}

// c20ParseInput: a query string for ParseBytes. nasty > 0 allows raw bytes with '%', '+', '&', '='
// and (nasty == 2) 0xff, which makes the real decoder panic.
func c20ParseInput(r *hx.R, nasty int) []byte {
	if nasty > 0 && r.Intn(3) == 0 {
		b := r.Bytes(r.Intn(14), 2)
		if nasty < 2 {
			for i := range b {
				if b[i] == 0xff {
					b[i] = 'f'
				}
			}
		}
		return b
	}
	b := c20QueryOf(c20KVs(r, 4))
	switch r.Intn(6) {
	case 0:
		b = append(b, '&')
	case 1:
		b = append([]byte("&&"), b...)
	case 2:
		b = append(b, []byte("&=&x")...)
	}
	if nasty == 2 && r.Intn(2) == 0 {
		b = append(b, []byte("&p=Z%\xff1")...)
	}
	return b
}

func c20DotKVs(kv [][2][]byte) string {
	if len(kv) == 0 {
		return "-"
	}
	ps := make([]string, len(kv))
	for i, p := range kv {
		ps[i] = hx.Hex(p[0]) + "." + hx.Hex(p[1])
	}
	return strings.Join(ps, "+")
}

func c20UndotKVs(s string) [][2][]byte {
	if s == "-" {
		return nil
	}
	var out [][2][]byte
	for _, p := range strings.Split(s, "+") {
		h := strings.Split(p, ".")
		out = append(out, [2][]byte{hx.UnHex(h[0]), hx.UnHex(h[1])})
	}
	return out
}

func c20AOp(r *hx.R, nasty int) string {
	switch r.Intn(14) {
	case 0, 1, 2:
		return "a:" + hx.Hex(c20Key(r)) + ":" + hx.Hex(c20Val(r))
	case 3, 4:
		return "s:" + hx.Hex(c20Key(r)) + ":" + hx.Hex(c20Val(r))
	case 5, 6:
		return "d:" + hx.Hex(c20Key(r))
	case 7:
		return "p:" + hx.Hex(c20Key(r))
	case 8:
		return "h:" + hx.Hex(c20Key(r))
	case 9:
		return "P:" + hx.Hex(c20ParseInput(r, nasty))
	case 10:
		return "S:" + hx.Hex(c20ParseInput(r, nasty))
	case 11:
		return "q"
	case 12:
		if r.Intn(3) == 0 {
			return "r"
		}
		return "a:" + hx.Hex(c20Key(r)) + ":" + hx.Hex(c20Val(r))
	}
	return "c:" + c20DotKVs(c20KVs(r, 5))
}

func c20XOp(r *hx.R) string {
	ids := make([]byte, r.Intn(4))
	for i := range ids {
		ids[i] = byte(1 + r.Intn(3))
	}
	switch r.Intn(8) {
	case 0:
		return "r"
	case 1, 2:
		return "f:" + hx.Hex(ids)
	case 3:
		if len(ids) > 0 {
			ids[r.Intn(len(ids))] = byte(r.Pick(0, 4, 200)) // unregistered: Append stores, then cuts back
		}
		return "a:" + hx.Hex(ids)
	case 4:
		if r.Intn(6) == 0 { // towards the 255 limit
			ids = make([]byte, 120+r.Intn(20))
			for i := range ids {
				ids[i] = byte(1 + r.Intn(3))
			}
		}
		return "f:" + hx.Hex(ids)
	}
	return "a:" + hx.Hex(ids)
}

func c20MOp(r *hx.R, nasty int) string {
	switch r.Intn(22) {
	case 0:
		return fmt.Sprintf("seq:%d", genSeq(r))
	case 1:
		return fmt.Sprintf("mt:%d", r.Pick(0, 1, 2, 3, r.Intn(256)))
	case 2:
		return "sm:" + hx.Hex(r.Bytes(r.Pick(0, 1, 5, 12, 255, 256), 1))
	case 3:
		cause := "nil"
		if r.Intn(2) == 0 {
			cause = hx.Hex(r.AnyBytes(r.Intn(10)))
		}
		return fmt.Sprintf("st:%d:%s:%s", int32(r.Pick(0, 1, -1, 404, 500, int(int32(r.Uint32())))), hx.Hex(r.AnyBytes(r.Intn(12))), cause)
	case 4:
		return []string{"st0", "sti"}[r.Intn(2)]
	case 5, 6, 7, 8, 9, 10:
		return "m:" + c20AOp(r, nasty)
	case 11:
		return fmt.Sprintf("bc:%d", r.Pick(0, 'j', 'p', 's', r.Intn(256)))
	case 12:
		return "bnil"
	case 13, 14:
		return "b:" + hx.Hex(r.AnyBytes(r.Pick(0, 1, 7, 40, 300)))
	case 15:
		return fmt.Sprintf("nb:%d", r.Intn(4))
	case 16, 17:
		return "x:" + c20XOp(r)
	case 18:
		return fmt.Sprintf("sz:%d", r.Pick(0, 1, 77, 4096, 1<<30, 1<<31))
	case 19:
		return fmt.Sprintf("cx:%d", r.Intn(4))
	case 20:
		return "pk"
	}
	if r.Intn(4) == 0 {
		return "rs"
	}
	return "pk"
}

func c20Seq(n int, f func() string) string {
	if n == 0 {
		return "-"
	}
	ps := make([]string, n)
	for i := range ps {
		ps[i] = f()
	}
	return strings.Join(ps, ";")
}

func c20BOp(r *hx.R) string {
	switch r.Intn(6) {
	case 0:
		return "r"
	case 1:
		return "s:" + hx.Hex(r.AnyBytes(r.Intn(20)))
	case 2:
		return "f:" + hx.Hex(r.AnyBytes(r.Pick(0, 1, 4, 9, 60, 200)))
	}
	return "w:" + hx.Hex(r.AnyBytes(r.Pick(0, 1, 3, 17, 100)))
}

func c20CtxDirty(r *hx.R) string {
	switch r.Intn(11) {
	case 0, 1:
		return "om:" + hx.Hex(c20Key(r)) + ":" + hx.Hex(c20Val(r))
	case 2:
		return "os:" + hx.Hex(c20Key(r)) + ":" + hx.Hex(c20Val(r))
	case 3, 4:
		ids := make([]byte, 1+r.Intn(3))
		for i := range ids {
			ids[i] = byte(1 + r.Intn(3))
		}
		return "ox:" + hx.Hex(ids)
	case 5:
		return fmt.Sprintf("sw:%d:%d", 1+r.Intn(6), r.Intn(100))
	case 6:
		return "im:" + hx.Hex(c20Key(r)) + ":" + hx.Hex(c20Val(r))
	case 7:
		return fmt.Sprintf("ost:%d:%s", r.Pick(1, 404, 500, 7), hx.Hex(r.Bytes(r.Intn(8), 1)))
	case 8:
		return fmt.Sprintf("osz:%d", 1+r.Intn(5000))
	case 9:
		return "ob:" + hx.Hex(r.Bytes(1+r.Intn(6), 1))
	}
	return fmt.Sprintf("sw:%d:%d", 1+r.Intn(6), r.Intn(100))
}

func c20SockOp(r *hx.R) string {
	switch r.Intn(7) {
	case 0, 1:
		return "id:" + hx.Hex(r.Bytes(1+r.Intn(8), 1))
	case 2, 3:
		return fmt.Sprintf("ss:%d:%d", 1+r.Intn(5), r.Intn(100))
	case 4:
		if r.Intn(3) == 0 {
			return "sw0"
		}
		return fmt.Sprintf("sw:%d:%d", 1+r.Intn(5), r.Intn(100))
	case 5:
		return "buf:" + hx.Hex(r.AnyBytes(1+r.Intn(40)))
	}
	return "bufeof:" + hx.Hex(r.AnyBytes(r.Intn(20)))
}

func c20Gen(r *hx.R, tier string, out *hx.Out) []string {
	n := 9000
	nctx, nsock := 500, 500
	if tier == "thorough" {
		n, nctx, nsock = 90000, 4000, 4000
	}
	var ls []string
	// fixed cases: the pre-study leak candidates, one per reset line.
	ls = append(ls,
		"c20args prev=a:6b:76 next=P:25ff00",
		"c20args prev=a:736563726574:746f6b656e;a:6b32:7632 next=P:783d31266b65793d5a25ffff",
		"c20args prev=a:61:31;a:61:32;a:61:33;a:62:34;d:61 next=a:63:-;q;p:61",
		"c20msg limit=1073741824 prev=seq:7;mt:1;sm:2f61;st:404:6e66:nil;m:a:6b:76;bc:106;b:3132;nb:2;x:a:0102;sz:99;cx:3 next=pk",
		"c20pipe prev=a:010203 next=a:02;f:03",
		"c20buf prev=w:736563726574 next=f:0102;w:03",
		"c20sock prev=id:78;ss:1:2;buf:dead;close",
	)
	for i := 0; i < n; i++ {
		switch k := r.Intn(20); {
		case k < 8:
			nasty := 1
			if r.Intn(25) == 0 {
				nasty = 2
			}
			prev := c20Seq(r.Intn(9), func() string { return c20AOp(r, 2) })
			next := c20Seq(r.Intn(9), func() string { return c20AOp(r, nasty) })
			ls = append(ls, "c20args prev="+prev+" next="+next)
		case k < 16:
			nasty := 1
			if r.Intn(25) == 0 {
				nasty = 2
			}
			limit := 1 << 30
			if r.Intn(10) == 0 {
				limit = r.Pick(30, 64, 300)
			}
			prev := c20Seq(r.Intn(12), func() string { return c20MOp(r, 2) })
			next := c20Seq(r.Intn(10), func() string { return c20MOp(r, nasty) })
			ls = append(ls, fmt.Sprintf("c20msg limit=%d prev=%s next=%s", limit, prev, next))
		case k < 18:
			ls = append(ls, "c20pipe prev="+c20Seq(r.Intn(6), func() string { return c20XOp(r) })+" next="+c20Seq(r.Intn(6), func() string { return c20XOp(r) }))
		default:
			ls = append(ls, "c20buf prev="+c20Seq(r.Intn(6), func() string { return c20BOp(r) })+" next="+c20Seq(r.Intn(6), func() string { return c20BOp(r) }))
		}
	}
	for i := 0; i < nctx; i++ {
		ids := func() string {
			b := make([]byte, r.Pick(0, 0, 1, 2, 3))
			for i := range b {
				b[i] = byte(1 + r.Intn(3))
			}
			return hx.Hex(b)
		}
		wf := func() [][2][]byte { // metadata that survives the wire: no (empty, empty) pair
			var kv [][2][]byte
			for _, p := range c20KVs(r, 3) {
				if len(p[0]) > 0 || len(p[1]) > 0 {
					kv = append(kv, p)
				}
			}
			return kv
		}
		ls = append(ls, fmt.Sprintf("c20ctx sswap=%s dirty=%s dmeta=%s dpipe=%s meta=%s pipe=%s",
			c20Seq(r.Intn(3), func() string { return fmt.Sprintf("ss:%d:%d", 10+r.Intn(4), r.Intn(100)) }),
			c20Seq(1+r.Intn(7), func() string { return c20CtxDirty(r) }), c20DotKVs(wf()), ids(), c20DotKVs(wf()), ids()))
	}
	for i := 0; i < nsock; i++ {
		prev := c20Seq(r.Intn(6), func() string { return c20SockOp(r) })
		if prev == "-" {
			prev = "close"
		} else {
			prev += ";close"
		}
		if r.Intn(5) == 0 {
			prev += ";close"
		}
		ls = append(ls, "c20sock prev="+prev)
	}
	return ls
}

// ---------------------------------------------------------------------------------------------
// real operations

func c20Toks(s string) [][]string {
	if s == "-" || s == "" {
		return nil
	}
	var out [][]string
	for _, t := range strings.Split(s, ";") {
		out = append(out, strings.Split(t, ":"))
	}
	return out
}

func c20cp(b []byte) []byte { return append([]byte(nil), b...) }

func c20ArgsOp(a *utils.Args, t []string) (ret string) {
	defer func() {
		if p := recover(); p != nil {
			ret = "!"
		}
	}()
	switch t[0] {
	case "a":
		k, v := hx.UnHex(t[1]), hx.UnHex(t[2])
		if len(k)%2 == 0 {
			a.AddBytesKV(k, v)
		} else {
			a.Add(string(k), string(v))
		}
	case "s":
		k, v := hx.UnHex(t[1]), hx.UnHex(t[2])
		if len(v)%2 == 0 {
			a.SetBytesKV(k, v)
		} else {
			a.Set(string(k), string(v))
		}
	case "d":
		a.DelBytes(hx.UnHex(t[1]))
	case "p":
		return "b" + hx.Hex(a.PeekBytes(hx.UnHex(t[1])))
	case "h":
		if a.HasBytes(hx.UnHex(t[1])) {
			return "t"
		}
		return "f"
	case "P":
		a.ParseBytes(c20cp(hx.UnHex(t[1])))
	case "S":
		a.Parse(string(hx.UnHex(t[1])))
	case "q":
		return "b" + hx.Hex(a.QueryString())
	case "r":
		a.Reset()
	case "c":
		src := &utils.Args{}
		for _, p := range c20UndotKVs(t[1]) {
			src.AddBytesKV(p[0], p[1])
		}
		src.CopyTo(a)
	default:
		return "bad-op"
	}
	return "u"
}

// c20ArgsFields: every observation of an Args, field by field (name, value).
func c20ArgsFields(a *utils.Args) [][2]string {
	var kv [][2][]byte
	a.VisitAll(func(k, v []byte) { kv = append(kv, [2][]byte{c20cp(k), c20cp(v)}) })
	return [][2]string{{"len", strconv.Itoa(a.Len())}, {"pairs", hx.KVs(kv)}, {"q", hx.Hex(a.QueryString())}}
}

func c20ShowFields(fs [][2]string) string {
	ps := make([]string, len(fs))
	for i, f := range fs {
		ps[i] = f[0] + "=" + f[1]
	}
	return strings.Join(ps, " ")
}

// c20FirstDiff names the first field on which two observations differ ("" if none).
func c20FirstDiff(x, y [][2]string) (string, string) {
	for i := range x {
		if i >= len(y) || x[i] != y[i] {
			d := x[i][0] + ": recycled=" + x[i][1]
			if i < len(y) {
				d += " fresh=" + y[i][1]
			}
			return x[i][0], d
		}
	}
	return "", ""
}

func c20XferOp(x *xfer.XferPipe, t []string) string {
	switch t[0] {
	case "a":
		if err := x.Append(hx.UnHex(t[1])...); err != nil {
			return "e"
		}
	case "f":
		src := xfer.NewXferPipe()
		if err := src.Append(hx.UnHex(t[1])...); err != nil && err != xfer.ErrXferPipeTooLong {
			return "bad-op"
		}
		x.AppendFrom(src)
	case "r":
		x.Reset()
	default:
		return "bad-op"
	}
	return "u"
}

func c20PipeFields(x *xfer.XferPipe) [][2]string {
	ids := x.IDs()
	var viaRange []byte
	x.Range(func(_ int, f xfer.XferFilter) bool { viaRange = append(viaRange, f.ID()); return true })
	return [][2]string{{"ids", hx.Hex(ids)}, {"len", strconv.Itoa(x.Len())}, {"range", hx.Hex(viaRange)}, {"names", strings.Join(x.Names(), ",")}}
}

type c20CtxKey struct{}

var c20Ctxs = func() []context.Context {
	cs := []context.Context{nil}
	for i := 1; i < 4; i++ {
		cs = append(cs, context.WithValue(context.Background(), c20CtxKey{}, i))
	}
	return cs
}()

var c20LastNB int

var c20NBs = func() []socket.NewBodyFunc {
	fs := []socket.NewBodyFunc{nil}
	for i := 1; i < 4; i++ {
		i := i
		fs = append(fs, func(socket.Header) interface{} { c20LastNB = i; return nil })
	}
	return fs
}()

func c20Pack(m socket.Message) string {
	cr := newChunkReader(nil, 0, 0)
	if err := socket.RawProtoFunc(cr).Pack(m); err != nil {
		return packErrKind(err)
	}
	return fmt.Sprintf("ok:%d:%s", m.Size(), hx.Hex(cr.written.Bytes()))
}

func c20MsgOp(m socket.Message, t []string) (ret string) {
	defer func() {
		if p := recover(); p != nil {
			ret = "!"
		}
	}()
	atoi := func(s string) int64 { n, _ := strconv.ParseInt(s, 10, 64); return n }
	switch t[0] {
	case "seq":
		m.SetSeq(int32(atoi(t[1])))
	case "mt":
		m.SetMtype(byte(atoi(t[1])))
	case "sm":
		m.SetServiceMethod(string(hx.UnHex(t[1])))
	case "st":
		if t[3] == "nil" {
			m.SetStatus(status.New(int32(atoi(t[1])), string(hx.UnHex(t[2]))))
		} else {
			m.SetStatus(status.New(int32(atoi(t[1])), string(hx.UnHex(t[2])), strErr(hx.UnHex(t[3]))))
		}
	case "st0":
		m.SetStatus(nil)
	case "sti":
		m.Status(true)
	case "m":
		return c20ArgsOp(m.Meta(), t[1:])
	case "bc":
		m.SetBodyCodec(byte(atoi(t[1])))
	case "bnil":
		m.SetBody(nil)
	case "b":
		m.SetBody(append([]byte{}, hx.UnHex(t[1])...))
	case "nb":
		m.SetNewBody(c20NBs[atoi(t[1])])
	case "x":
		return c20XferOp(m.XferPipe(), t[1:])
	case "sz":
		if err := m.SetSize(uint32(atoi(t[1]))); err != nil {
			return "e"
		}
	case "cx":
		socket.WithContext(c20Ctxs[atoi(t[1])])(m)
	case "pk":
		return c20Pack(m)
	case "rs":
		m.Reset()
	default:
		return "bad-op"
	}
	return "u"
}

// c20MsgFields: every non-mutating getter of a message (QueryString only rewrites the scratch buffer).
func c20MsgFields(m socket.Message) [][2]string {
	x := fromMessage(m)
	st := "nil"
	if m.Status() != nil {
		c := "nil"
		if x.HasCause {
			c = hx.Hex(x.Cause)
		}
		st = fmt.Sprintf("%d:%s:%s", x.Code, hx.Hex(x.Msg), c)
	}
	if (st == "nil") != m.StatusOK() && st == "nil" {
		st = "nil-but-not-ok"
	}
	body := "nil"
	switch b := m.Body().(type) {
	case nil:
	case []byte:
		body = hx.Hex(b)
	default:
		body = fmt.Sprintf("%T", b)
	}
	cx := 0
	if v, ok := m.Context().Value(c20CtxKey{}).(int); ok {
		cx = v
	}
	return [][2]string{
		{"seq", strconv.Itoa(int(x.Seq))}, {"mtype", strconv.Itoa(int(x.Mtype))}, {"method", hx.Hex(x.Method)}, {"st", st},
		{"meta", hx.KVs(x.Meta)}, {"q", hx.Hex(m.Meta().QueryString())}, {"codec", strconv.Itoa(int(x.Codec))}, {"body", body},
		{"pipe", hx.Hex(x.Pipe)}, {"size", strconv.Itoa(int(x.Size))}, {"ctx", strconv.Itoa(cx)},
	}
}

// c20MsgFinal: the getters, then the bytes Pack writes, then which newBodyFunc is installed (probed
// through UnmarshalBody on a nil body; destructive, therefore last).
func c20MsgFinal(m socket.Message) [][2]string {
	fs := c20MsgFields(m)
	fs = append(fs, [2]string{"wire", c20Pack(m)})
	c20LastNB = 0
	func() {
		defer func() { recover() }()
		m.SetBody(nil)
		m.UnmarshalBody(nil)
	}()
	return append(fs, [2]string{"nb", strconv.Itoa(c20LastNB)})
}

func c20BufOp(b *utils.ByteBuffer, t []string) {
	switch t[0] {
	case "w":
		p := hx.UnHex(t[1])
		switch len(p) % 3 {
		case 0:
			b.Write(p)
		case 1:
			b.WriteString(string(p))
		default:
			for _, c := range p {
				b.WriteByte(c)
			}
		}
	case "s":
		if p := hx.UnHex(t[1]); len(p)%2 == 0 {
			b.Set(p)
		} else {
			b.SetString(string(p))
		}
	case "r":
		b.Reset()
	case "f":
		p := hx.UnHex(t[1])
		b.ChangeLen(len(p))
		copy(b.B, p) // io.ReadFull(r, bb.B) succeeding
	}
}

// ---------------------------------------------------------------------------------------------
// contexts through real calls

type c20Handlers struct {
	mu       sync.Mutex
	dirtyPtr map[string]bool
	probePtr string
	probeObs string
	replyObs string
}

type C20Arg struct{ Ops string }

func c20SwapShow(m goutil.Map) string {
	type kv struct{ k, v int }
	var l []kv
	m.Range(func(k, v interface{}) bool {
		ki, _ := k.(int)
		vi, _ := v.(int)
		l = append(l, kv{ki, vi})
		return true
	})
	sort.Slice(l, func(i, j int) bool { return l[i].k < l[j].k })
	if len(l) == 0 {
		return "-"
	}
	ps := make([]string, len(l))
	for i, e := range l {
		ps[i] = fmt.Sprintf("%d:%d", e.k, e.v)
	}
	return strings.Join(ps, ",")
}

func c20MetaShow(a *utils.Args) string {
	var kv [][2][]byte
	a.VisitAll(func(k, v []byte) { kv = append(kv, [2][]byte{c20cp(k), c20cp(v)}) })
	return hx.KVs(kv)
}

// c20Dirty: the previous user of a handler context.
func c20Dirty(ctx erpc.CallCtx, arg *C20Arg) (string, *erpc.Status) {
	c20H.mu.Lock()
	c20H.dirtyPtr[fmt.Sprintf("%p", ctx)] = true
	c20H.mu.Unlock()
	var st *erpc.Status
	for _, t := range c20Toks(arg.Ops) {
		atoi := func(s string) int { n, _ := strconv.Atoi(s); return n }
		switch t[0] {
		case "om":
			ctx.AddMeta(string(hx.UnHex(t[1])), string(hx.UnHex(t[2])))
		case "os":
			ctx.SetMeta(string(hx.UnHex(t[1])), string(hx.UnHex(t[2])))
		case "ox":
			ctx.AddXferPipe(hx.UnHex(t[1])...)
		case "oc":
			ctx.SetBodyCodec(byte(atoi(t[1])))
		case "sw":
			ctx.Swap().Store(atoi(t[1]), atoi(t[2]))
		case "im":
			ctx.Input().Meta().AddBytesKV(hx.UnHex(t[1]), hx.UnHex(t[2]))
		case "ism":
			ctx.ResetServiceMethod(string(hx.UnHex(t[1])))
		case "ost":
			st = erpc.NewStatus(int32(atoi(t[1])), string(hx.UnHex(t[2])))
			ctx.Output().SetStatus(st)
		case "ob":
			ctx.Output().SetBody(hx.UnHex(t[1]))
		case "osz":
			ctx.Output().SetSize(uint32(atoi(t[1])))
		}
	}
	return "1", st
}

// c20Probe: the next user; records everything it can read from its context on entry.
func c20Probe(ctx erpc.CallCtx, arg *C20Arg) (string, *erpc.Status) {
	out := ctx.Output()
	st := "nil"
	if s := out.Status(); s != nil {
		st = fmt.Sprintf("%d:%s:nil", s.Code(), hx.Hex([]byte(s.Msg())))
	}
	body := "nil"
	if out.Body() != nil {
		body = fmt.Sprintf("%v", out.Body())
	}
	o := fmt.Sprintf("in.meta=%s in.pipe=%s out.meta=%s out.pipe=%s out.codec=%d out.st=%s out.body=%s out.method=%s out.mtype=%d out.size=%d swap=%s",
		c20MetaShow(ctx.Input().Meta()), hx.Hex(ctx.Input().XferPipe().IDs()), c20MetaShow(out.Meta()), hx.Hex(out.XferPipe().IDs()),
		out.BodyCodec(), st, body, hx.Hex([]byte(out.ServiceMethod())), out.Mtype(), out.Size(), c20SwapShow(ctx.Swap()))
	c20H.mu.Lock()
	c20H.probePtr = fmt.Sprintf("%p", ctx)
	c20H.probeObs = o
	c20H.mu.Unlock()
	return "1", nil
}

type c20CliPlugin struct{}

func (*c20CliPlugin) Name() string { return "c20cli" }

// PostReadReplyHeader: the client's reader context (from the same pool) after the reply header.
func (*c20CliPlugin) PostReadReplyHeader(ctx erpc.ReadCtx) *erpc.Status {
	c20H.mu.Lock()
	c20H.replyObs = fmt.Sprintf("reply.meta=%s reply.pipe=%s", c20MetaShow(ctx.Input().Meta()), hx.Hex(ctx.Input().XferPipe().IDs()))
	c20H.mu.Unlock()
	return nil
}

var c20DirtyPath, c20ProbePath string

func c20Peers() bool {
	if c20Srv != nil {
		return c20Link != nil
	}
	c20H.dirtyPtr = map[string]bool{}
	c20Srv = erpc.NewPeer(erpc.PeerConfig{})
	c20DirtyPath = c20Srv.RouteCallFunc(c20Dirty)
	c20ProbePath = c20Srv.RouteCallFunc(c20Probe)
	c20Cli = erpc.NewPeer(erpc.PeerConfig{}, &c20CliPlugin{})
	l := connect(c20Cli, c20Srv, "c20")
	if !l.StA.OK() || !l.StB.OK() {
		return false
	}
	c20Link = l
	return true
}

func c20Call(path, ops string, meta [][2][]byte, pipe []byte) bool {
	var result string
	set := []erpc.MessageSetting{erpc.WithXferPipe(pipe...)}
	for _, p := range meta {
		set = append(set, erpc.WithAddMeta(string(p[0]), string(p[1])))
	}
	ch := make(chan erpc.CallCmd, 1)
	c20Link.A.AsyncCall(path, &C20Arg{Ops: ops}, &result, ch, set...)
	select {
	case <-ch:
		return true
	case <-time.After(3 * time.Second):
		c20Timeouts++
		return false
	}
}

// ---------------------------------------------------------------------------------------------
// sockets

func c20Frame(m *M) []byte {
	msg, err := m.toMessage()
	if err != nil {
		panic(err)
	}
	cr := newChunkReader(nil, 0, 0)
	if err := socket.RawProtoFunc(cr).Pack(msg); err != nil {
		panic(err)
	}
	return c20cp(cr.written.Bytes())
}

func c20ReadOne(s socket.Socket) (m *M, err error) {
	defer func() {
		if p := recover(); p != nil {
			m, err = nil, fmt.Errorf("panic: %v", p)
		}
	}()
	msg := socket.NewMessage(socket.WithNewBody(func(socket.Header) interface{} { return new([]byte) }))
	if err := s.ReadMessage(msg); err != nil {
		return nil, err
	}
	return fromMessage(msg), nil
}

var c20SockSeq int

// c20SockFields observes a socket that was just handed out for connection `mine` (peer end `other`).
func c20SockFields(s socket.Socket, mine, other *mem.Conn, tag byte) [][2]string {
	id := "-"
	if s.ID() != mine.RemoteAddr().String() {
		id = hx.Hex([]byte(s.ID()))
	}
	swaplen := s.SwapLen()
	swap := c20SwapShow(s.Swap())
	want := &M{Seq: 42, Mtype: 1, Method: []byte("/probe"), Body: []byte{tag, 'X'}, Codec: 's'}
	other.Write(c20Frame(want))
	mine.SetReadDeadline(time.Now().Add(2 * time.Second))
	read := "ok"
	if got, err := c20ReadOne(s); err != nil {
		read = "stale"
	} else if sameM(want, got, false) != "" {
		read = "stale"
	}
	closed := "0"
	if err := s.WriteMessage(socket.NewMessage(socket.WithServiceMethod("/w"))); err != nil {
		closed = "1"
	}
	return [][2]string{{"id", id}, {"swaplen", strconv.Itoa(swaplen)}, {"swap", swap}, {"read", read}, {"closed", closed}}
}

// ---------------------------------------------------------------------------------------------
// run

func c20Run(line string, out *hx.Out) (obs string, nt bool) {
	kind, f := hx.Fields(line)
	defer func() {
		if p := recover(); p != nil {
			obs, nt = "panic", false
			out.Violate(line, "no-panic", fmt.Sprintf("the real code panicked outside a modelled panic: %v", p), "c20:"+strings.TrimPrefix(kind, "c20")+":panic")
		}
	}()
	prev, next := c20Toks(f["prev"]), c20Toks(f["next"])
	out.Count(kind)
	violate := func(obj, field, detail string, panicked bool) {
		sig := "c20:" + obj + ":" + field + "-leaks"
		if panicked { // one defect of utils.Args, whoever holds the container
			sig = "c20:args:stale-slot-after-parse-panic"
		}
		out.Violate(line, "recycled-vs-fresh", detail, sig)
	}
	switch kind {
	case "c20args":
		// the object's whole history is `prev` (the model starts from &Args{}): drain what other code
		// left in the pool, start from a new object, and do not leave ours behind afterwards.
		for i := 0; i < 4; i++ {
			utils.AcquireArgs()
		}
		a := &utils.Args{}
		for _, t := range prev {
			c20ArgsOp(a, t)
		}
		utils.ReleaseArgs(a)
		b := utils.AcquireArgs()
		rec := a == b
		c20Count("args", rec)
		fr := &utils.Args{}
		var rets []string
		panicked, reported := false, false
		for i, t := range next {
			r1, r2 := c20ArgsOp(b, t), c20ArgsOp(fr, t)
			rets = append(rets, r1)
			if r1 == "!" {
				panicked = true
				out.Count("c20args:next-parse-panics")
			}
			x, y := append([][2]string{{"ret", r1}}, c20ArgsFields(b)...), append([][2]string{{"ret", r2}}, c20ArgsFields(fr)...)
			if fld, d := c20FirstDiff(x, y); fld != "" && !reported {
				reported = true
				violate("args", fld, fmt.Sprintf("after next op %d (%s): %s", i, strings.Join(t, ":"), d), panicked)
			}
		}
		if len(rets) == 0 {
			rets = []string{"-"}
			if fld, d := c20FirstDiff(c20ArgsFields(b), c20ArgsFields(fr)); fld != "" {
				violate("args", fld, "right after Acquire: "+d, false)
			}
		}
		obs := "rets=" + strings.Join(rets, ",") + " " + c20ShowFields(c20ArgsFields(b))
		b.Reset()
		return obs, rec && len(prev) > 0 && len(next) > 0
	case "c20pipe":
		// a pipe is pooled as part of its message: dirty it there, recycle the message.
		for i := 0; i < 4; i++ {
			socket.GetMessage()
		}
		m := socket.NewMessage()
		for _, t := range prev {
			c20XferOp(m.XferPipe(), t)
		}
		socket.PutMessage(m)
		m2 := socket.GetMessage()
		rec := m == m2
		c20Count("pipe", rec)
		x, fr := m2.XferPipe(), xfer.NewXferPipe()
		var rets []string
		reported := false
		if fld, d := c20FirstDiff(c20PipeFields(x), c20PipeFields(fr)); fld != "" {
			reported = true
			violate("pipe", fld, "right after GetMessage: "+d, false)
		}
		for i, t := range next {
			r1, r2 := c20XferOp(x, t), c20XferOp(fr, t)
			rets = append(rets, r1)
			a, b := append([][2]string{{"ret", r1}}, c20PipeFields(x)...), append([][2]string{{"ret", r2}}, c20PipeFields(fr)...)
			if fld, d := c20FirstDiff(a, b); fld != "" && !reported {
				reported = true
				violate("pipe", fld, fmt.Sprintf("after next op %d: %s", i, d), false)
			}
		}
		if len(rets) == 0 {
			rets = []string{"-"}
		}
		return "rets=" + strings.Join(rets, ",") + " ids=" + hx.Hex(x.IDs()), rec && len(prev) > 0
	case "c20buf":
		b := utils.AcquireByteBuffer()
		for _, t := range prev {
			c20BufOp(b, t)
		}
		utils.ReleaseByteBuffer(b)
		b2 := utils.AcquireByteBuffer()
		rec := b == b2
		c20Count("buf", rec)
		fr := &utils.ByteBuffer{}
		if b2.Len() != 0 {
			violate("buf", "B", fmt.Sprintf("acquired buffer holds %d bytes", b2.Len()), false)
		}
		var datas []string
		reported := false
		for i, t := range next {
			c20BufOp(b2, t)
			c20BufOp(fr, t)
			datas = append(datas, hx.Hex(b2.Bytes()))
			if hx.Hex(b2.B) != hx.Hex(fr.B) && !reported {
				reported = true
				violate("buf", "B", fmt.Sprintf("after next op %d: recycled=%s fresh=%s", i, hx.Hex(b2.B), hx.Hex(fr.B)), false)
			}
		}
		if len(datas) == 0 {
			datas = []string{"-"}
		}
		utils.ReleaseByteBuffer(b2)
		return "data=" + strings.Join(datas, ","), rec && len(prev) > 0
	case "c20msg":
		limit, _ := strconv.Atoi(f["limit"])
		socket.SetMessageSizeLimit(uint32(limit))
		defer socket.SetMessageSizeLimit(0)
		for i := 0; i < 4; i++ { // as for c20args: history-free object, empty pool
			socket.GetMessage()
		}
		m := socket.NewMessage()
		for _, t := range prev {
			c20MsgOp(m, t)
		}
		socket.PutMessage(m)
		m2 := socket.GetMessage()
		rec := m == m2
		c20Count("msg", rec)
		fr := socket.NewMessage()
		var rets []string
		panicked, reported := false, false
		if fld, d := c20FirstDiff(c20MsgFields(m2), c20MsgFields(fr)); fld != "" {
			reported = true
			violate("msg", fld, "right after GetMessage: "+d, false)
		}
		for i, t := range next {
			r1, r2 := c20MsgOp(m2, t), c20MsgOp(fr, t)
			rets = append(rets, r1)
			if r1 == "!" {
				panicked = true
				out.Count("c20msg:next-parse-panics")
			}
			x, y := append([][2]string{{"ret", r1}}, c20MsgFields(m2)...), append([][2]string{{"ret", r2}}, c20MsgFields(fr)...)
			if fld, d := c20FirstDiff(x, y); fld != "" && !reported {
				reported = true
				violate("msg", fld, fmt.Sprintf("after next op %d (%s): %s", i, strings.Join(t, ":"), d), panicked)
			}
		}
		if len(rets) == 0 {
			rets = []string{"-"}
		}
		x, y := c20MsgFinal(m2), c20MsgFinal(fr)
		if fld, d := c20FirstDiff(x, y); fld != "" && !reported {
			violate("msg", fld, "final observation: "+d, panicked)
		}
		return "rets=" + strings.Join(rets, ",") + " " + c20ShowFields(x), rec && len(prev) > 0
	case "c20ctx":
		if !c20Peers() {
			return "bad-connect", false
		}
		// the server session's (= its socket's) swap for this case
		sw := c20Link.B.Swap()
		sw.Clear()
		for _, t := range c20Toks(f["sswap"]) {
			k, _ := strconv.Atoi(t[1])
			v, _ := strconv.Atoi(t[2])
			sw.Store(k, v)
		}
		sswap := c20SwapShow(sw)
		if !c20Call(c20DirtyPath, f["dirty"], c20UndotKVs(f["dmeta"]), hx.UnHex(f["dpipe"])) {
			return "timeout", false
		}
		c20H.mu.Lock()
		c20H.probeObs, c20H.replyObs = "", ""
		c20H.mu.Unlock()
		meta, pipe := c20UndotKVs(f["meta"]), hx.UnHex(f["pipe"])
		if !c20Call(c20ProbePath, "-", meta, pipe) {
			return "timeout", false
		}
		c20H.mu.Lock()
		po, ro, rec := c20H.probeObs, c20H.replyObs, c20H.dirtyPtr[c20H.probePtr]
		c20H.mu.Unlock()
		c20Count("ctx", rec)
		// the property's own statement: what a fresh context shows for this request
		// (handleCall has already set the reply's mtype, method and the request's pipe on the output)
		want := fmt.Sprintf("in.meta=%s in.pipe=%s out.meta=- out.pipe=%s out.codec=0 out.st=nil out.body=nil out.method=%s out.mtype=2 out.size=0 swap=%s",
			hx.KVs(meta), hx.Hex(pipe), hx.Hex(pipe), hx.Hex([]byte(c20ProbePath)), sswap)
		wantR := fmt.Sprintf("reply.meta=- reply.pipe=%s", hx.Hex(pipe))
		if po != want || ro != wantR {
			gs, ws := strings.Fields(po+" "+ro), strings.Fields(want+" "+wantR)
			fld, d := "obs", po+" "+ro
			if po == "" { // the probe handler never ran: the call itself failed on the recycled context
				gs, ws, fld, d = nil, nil, "call-fails", "probe call did not reach its handler; "+ro
			}
			for i := range ws {
				if i >= len(gs) || gs[i] != ws[i] {
					fld = strings.SplitN(ws[i], "=", 2)[0]
					if i < len(gs) {
						d = "recycled " + gs[i] + " fresh " + ws[i]
					}
					break
				}
			}
			violate("ctx", fld, d, false)
		}
		return po + " " + ro, rec
	case "c20sock":
		c20SockSeq++
		name := fmt.Sprintf("c20s-%d", c20SockSeq)
		ca, cb := mem.Pair(name)
		s := socket.GetSocket(ca)
		closedOnce := false
		for _, t := range prev {
			atoi := func(s string) int { n, _ := strconv.Atoi(s); return n }
			switch t[0] {
			case "id":
				s.SetID(string(hx.UnHex(t[1])))
			case "ss":
				s.Swap().Store(atoi(t[1]), atoi(t[2]))
			case "sw":
				nm := goutil.RwMap()
				nm.Store(atoi(t[1]), atoi(t[2]))
				s.Swap(nm)
			case "sw0":
				s.Swap(goutil.RwMap())
			case "buf", "bufeof":
				// the peer sends one frame and extra bytes in a single write; reading the frame leaves
				// the extra bytes unread in the socket's bufio.Reader.
				fr := c20Frame(&M{Seq: 1, Mtype: 3, Method: []byte("/p"), Body: []byte("old"), Codec: 's'})
				cb.Write(append(fr, hx.UnHex(t[1])...))
				if t[0] == "bufeof" {
					cb.Close()
				}
				// (a second buf op finds the first one's extra bytes in front of its frame: the read then
				// waits for a frame that never completes; in-memory data is there at once, so 60ms is ample)
				ca.SetReadDeadline(time.Now().Add(60 * time.Millisecond))
				c20ReadOne(s)
			case "close":
				if !closedOnce { // a second Close on a pooled socket is a no-op in the code; keep it so
					s.Close()
				}
				closedOnce = true
			}
		}
		if !closedOnce {
			s.Close()
		}
		ca2, cb2 := mem.Pair(name)
		s2 := socket.GetSocket(ca2)
		rec := s2 == s
		c20Count("sock", rec)
		ca3, cb3 := mem.Pair(name)
		fr := socket.NewSocket(ca3)
		x, y := c20SockFields(s2, ca2, cb2, 1), c20SockFields(fr, ca3, cb3, 1)
		if fld, d := c20FirstDiff(x, y); fld != "" {
			violate("sock", fld, d, false)
		}
		s2.Close()
		fr.Close()
		cb.Close()
		cb2.Close()
		cb3.Close()
		return c20ShowFields(x), rec && len(prev) > 1
	}
	return "bad-kind", false
}
