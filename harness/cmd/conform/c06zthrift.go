package main

import (
	"fmt"
	"strings"

	"verif/harness/internal/hx"
)

// C06 for proto/thriftproto: oracle-only family `xc06thrift`, run by the child program
// harness/cmd/conformthrift (see c05zthrift.go for why thriftproto needs its own process and for the
// child protocol). The child is started here if the C05 runner has not started it in this process.
func init() {
	p := props["c06"]
	g, r, s, fin := p.Gen, p.Run, p.Setup, p.Finish
	p.Setup = func() {
		if s != nil {
			s()
		}
		if c05tCmd == nil {
			c05tStart()
		}
	}
	p.Gen = func(rr *hx.R, tier string, out *hx.Out) []string {
		ls := g(rr, tier, out)
		n := 2
		if tier == "thorough" {
			n = 8
		}
		for i := 0; i < n; i++ {
			ls = append(ls, fmt.Sprintf("xc06thrift limit=%d announce=%d proto=b", rr.Pick(1024, 4096, 65536), rr.Pick(8<<20, 32<<20, 64<<20)))
		}
		return ls
	}
	p.Run = func(line string, out *hx.Out) (string, bool) {
		if strings.HasPrefix(line, "xc06thrift ") {
			return c05tRunLine(line, out)
		}
		return r(line, out)
	}
	p.Finish = func(out *hx.Out) {
		if fin != nil {
			fin(out)
		}
		if c05tIn != nil {
			c05tIn.Close()
			c05tCmd.Wait()
			c05tIn = nil
		}
	}
}
