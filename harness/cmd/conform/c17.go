package main

// C17 — secure plugin: bodies are encrypted on the wire and restored end to end.
//
// Every case runs REAL in-process peers (plugin/secure registered on both) over an in-memory
// connection with wire capture, decodes the captured frames with the real raw protocol and
// prints a structural observation that the Lean model (Model/Secure, Drv/C17) must reproduce:
//
//	c17call   one CALL/REPLY exchange: caller markers, handler markers / status, keys, codec, value
//	c17push   one PUSH
//	c17forgeq a CALL frame forged by a peer WITHOUT the plugin (X-Secure=true + hand-made envelope)
//	c17forger a REPLY frame forged by a peer WITHOUT the plugin
//
// Oracles of the property itself (independent of the model): the marshalled clear body and its
// distinctive fragments never occur in a direction that must be encrypted; a marked frame's body
// is byte-exactly codec.Marshal(Encrypt{md5(key), AESEncrypt(key, clear)}); an unmarked frame's
// body is the clear body; same key => values restored; different key => not invoked / not
// delivered with a non-OK status.

import (
	"bytes"
	"fmt"
	"strconv"
	"strings"
	"sync"
	"time"

	erpc "github.com/henrylee2cn/erpc/v6"
	"github.com/henrylee2cn/erpc/v6/codec"
	"github.com/henrylee2cn/erpc/v6/plugin/secure"
	"github.com/henrylee2cn/erpc/v6/socket"
	"github.com/henrylee2cn/goutil"

	"verif/harness/internal/hx"
)

func init() {
	props["c17"] = &Prop{Setup: c17Setup, Gen: c17Gen, Run: c17RunSafe, Finish: c17Finish}
}

const (
	c17StatCode = 4017
	c17HCode    = 777
)

// ---- value universe ----------------------------------------------------------------------------

// C17J travels with the json codec.
type C17J struct {
	S string
	N int64
	B []byte
	L []string
}

// C17X travels with the xml codec.
type C17X struct {
	S string
	N int64
	L []string
}

// C17F travels with the form codec.
type C17F struct {
	S string
	N int64
	T string
}

var c17Alnum = []byte("abcdefghijklmnopqrstuvwxyzABCDEFGHIJKLMNOPQRSTUVWXYZ0123456789")

func c17Str(r *hx.R, n int) string {
	b := make([]byte, n)
	for i := range b {
		b[i] = c17Alnum[r.Intn(len(c17Alnum))]
	}
	return string(b)
}

// c17Kinds: value kind -> (codec id, call method suffix).
var c17Kinds = map[string]byte{"j": 'j', "x": 'x', "f": 'f', "p": 'p', "rj": 'j', "rp": 'p', "rx": 'x', "rf": 'f'}

type c17Value struct {
	v     interface{} // what is handed to Call / returned by the handler
	clear []byte      // its marshalled form (MarshalBody)
	frags [][]byte    // long distinctive fragments that the codec writes verbatim
}

// c17Make builds the value of the given kind deterministically from (n, seed).
func c17Make(kind string, n int, seed int64) c17Value {
	r := hx.NewR(seed*7919 + int64(n))
	var val c17Value
	switch kind {
	case "j":
		v := &C17J{S: c17Str(r, n), N: int64(r.Uint32()) - 1<<31, B: r.Bytes(n/2, 0), L: []string{c17Str(r, 3+n/4), c17Str(r, 5)}}
		val.v = v
		val.frags = [][]byte{[]byte(v.S), []byte(v.L[0])}
	case "x":
		v := &C17X{S: c17Str(r, n), N: int64(r.Uint32()), L: []string{c17Str(r, 3+n/4), c17Str(r, 5)}}
		val.v = v
		val.frags = [][]byte{[]byte(v.S), []byte(v.L[0])}
	case "f":
		v := &C17F{S: c17Str(r, n), N: int64(r.Uint32()), T: c17Str(r, 3+n/4)}
		val.v = v
		val.frags = [][]byte{[]byte(v.S), []byte(v.T)}
	case "p":
		// any proto.Message will do as a protobuf body; the envelope type itself is the only
		// generated message of the plugin package, here used as a plain two-string message
		v := &secure.Encrypt{Cipherversion: string(r.Bytes(n, 0)), Ciphertext: c17Str(r, 3+n/2)}
		val.v = v
		val.frags = [][]byte{[]byte(v.Cipherversion), []byte(v.Ciphertext)}
	default: // raw bytes with any envelope codec
		b := r.Bytes(n, 0)
		if n == 0 {
			b = []byte{}
		}
		val.v = b
		val.frags = [][]byte{b}
	}
	val.clear = c17Marshal(c17Kinds[kind], val.v)
	return val
}

func c17Marshal(id byte, v interface{}) []byte {
	switch b := v.(type) {
	case nil:
		return []byte{}
	case []byte:
		return b
	case *[]byte:
		return *b
	}
	c, err := codec.Get(id)
	if err != nil {
		panic(err)
	}
	b, err := c.Marshal(v)
	if err != nil {
		panic(fmt.Sprintf("c17: cannot marshal %T with %c: %v", v, id, err))
	}
	return b
}

func c17Zero(kind string) interface{} {
	switch kind {
	case "j":
		return &C17J{}
	case "x":
		return &C17X{}
	case "f":
		return &C17F{}
	case "p":
		return &secure.Encrypt{}
	}
	return []byte{}
}

func c17Method(kind string) string {
	if strings.HasPrefix(kind, "r") {
		return "r"
	}
	return kind
}

// ---- the current case, read by the handlers ----------------------------------------------------

var c17Cur struct {
	sync.Mutex
	kind       string
	rsec, racc *string
	hok        bool
	res        interface{}
	invoked    int
	got        []byte // marshalled form of what the handler received
}

func c17Enter(ctx interface{ SetMeta(key, value string) }, got interface{}) (interface{}, *erpc.Status) {
	c17Cur.Lock()
	defer c17Cur.Unlock()
	c17Cur.invoked++
	c17Cur.got = append([]byte{}, c17Marshal(c17Kinds[c17Cur.kind], got)...)
	if ctx != nil {
		if c17Cur.rsec != nil {
			if *c17Cur.rsec == "true" {
				if cc, ok := ctx.(erpc.CallCtx); ok {
					secure.EnforceSecure(cc.Output())
				}
			} else {
				ctx.SetMeta(secure.SECURE_META_KEY, *c17Cur.rsec)
			}
		}
		if c17Cur.racc != nil {
			ctx.SetMeta(secure.ACCEPT_SECURE_META_KEY, *c17Cur.racc)
		}
	}
	if !c17Cur.hok {
		return nil, erpc.NewStatus(c17HCode, "handler says no", "c17")
	}
	return c17Cur.res, nil
}

type c17Call struct{ erpc.CallCtx }

func (c *c17Call) J(arg *C17J) (*C17J, *erpc.Status) {
	r, st := c17Enter(c, arg)
	if st != nil {
		return nil, st
	}
	return r.(*C17J), nil
}
func (c *c17Call) X(arg *C17X) (*C17X, *erpc.Status) {
	r, st := c17Enter(c, arg)
	if st != nil {
		return nil, st
	}
	return r.(*C17X), nil
}
func (c *c17Call) F(arg *C17F) (*C17F, *erpc.Status) {
	r, st := c17Enter(c, arg)
	if st != nil {
		return nil, st
	}
	return r.(*C17F), nil
}
func (c *c17Call) P(arg *secure.Encrypt) (*secure.Encrypt, *erpc.Status) {
	r, st := c17Enter(c, arg)
	if st != nil {
		return nil, st
	}
	return r.(*secure.Encrypt), nil
}
func (c *c17Call) R(arg *[]byte) ([]byte, *erpc.Status) {
	r, st := c17Enter(c, *arg)
	if st != nil {
		return nil, st
	}
	return r.([]byte), nil
}
func (c *c17Call) Fence(arg *int) (int, *erpc.Status) { return *arg + 1, nil }

type c17Push struct{ erpc.PushCtx }

func (c *c17Push) J(arg *C17J) *erpc.Status           { _, st := c17Enter(nil, arg); return st }
func (c *c17Push) X(arg *C17X) *erpc.Status           { _, st := c17Enter(nil, arg); return st }
func (c *c17Push) F(arg *C17F) *erpc.Status           { _, st := c17Enter(nil, arg); return st }
func (c *c17Push) P(arg *secure.Encrypt) *erpc.Status { _, st := c17Enter(nil, arg); return st }
func (c *c17Push) R(arg *[]byte) *erpc.Status         { _, st := c17Enter(nil, *arg); return st }

// ---- peers -------------------------------------------------------------------------------------

var (
	c17Cli   = map[string]erpc.Peer{} // by key; "" = no plugin
	c17Srv   = map[string]erpc.Peer{}
	c17Seq   int
	c17Tmo   int
	c17Carry = map[byte]bool{} // codec can carry the envelope (probed in Setup)
)

func c17Plugins(key string) []erpc.Plugin {
	if key == "" {
		return nil
	}
	return []erpc.Plugin{secure.NewPlugin(c17StatCode, key)}
}

func c17CliPeer(key string) erpc.Peer {
	if p, ok := c17Cli[key]; ok {
		return p
	}
	p := erpc.NewPeer(erpc.PeerConfig{}, c17Plugins(key)...)
	c17Cli[key] = p
	return p
}

func c17SrvPeer(key string) erpc.Peer {
	if p, ok := c17Srv[key]; ok {
		return p
	}
	p := erpc.NewPeer(erpc.PeerConfig{}, c17Plugins(key)...)
	p.RouteCall(new(c17Call))
	p.RoutePush(new(c17Push))
	c17Srv[key] = p
	return p
}

func c17Setup() {
	erpc.SetLoggerLevel("OFF")
	// which body codecs can carry the envelope object at all (a property of the codec)
	for _, id := range []byte{'j', 'p', 'x', 'f', 's', 't'} {
		c, err := codec.Get(id)
		if err != nil {
			continue
		}
		func() {
			defer func() { recover() }()
			e := &secure.Encrypt{Cipherversion: "0123456789abcdef0123456789abcdef", Ciphertext: "00ff"}
			b, err := c.Marshal(e)
			if err != nil {
				return
			}
			var d secure.Encrypt
			if c.Unmarshal(b, &d) == nil && d == *e {
				c17Carry[id] = true
			}
		}()
	}
}

func c17Finish(out *hx.Out) {
	for _, p := range c17Cli {
		p.Close()
	}
	for _, p := range c17Srv {
		p.Close()
	}
	ids := ""
	for _, id := range []byte{'j', 'p', 'x', 'f', 's', 't'} {
		if c17Carry[id] {
			ids += string(id)
		}
	}
	out.Extra["envelope_codecs"] = ids
	out.Extra["timeouts"] = c17Tmo
}

// ---- helpers -----------------------------------------------------------------------------------

func c17Opt(s string) *string {
	if s == "nil" {
		return nil
	}
	v := string(hx.UnHex(s))
	return &v
}

func c17ShowOpt(b []byte, present bool) string {
	if !present {
		return "nil"
	}
	return hx.Hex(b)
}

func c17St(st *erpc.Status) string { return c17Code(st.Code()) }

func c17Code(code int32) string {
	switch code {
	case 0:
		return "ok"
	case c17StatCode:
		return "secure"
	case c17HCode:
		return "handler"
	case erpc.CodeBadMessage:
		return "bad"
	case erpc.CodeInternalServerError:
		return "internal"
	}
	return "other:" + strconv.Itoa(int(code))
}

// c17Frames decodes every complete frame of a captured byte stream with the real raw protocol.
func c17Frames(b []byte) []*M {
	var ms []*M
	p := socket.RawProtoFunc(newChunkReader(b, 0, 0))
	for {
		msg := socket.NewMessage(socket.WithNewBody(func(socket.Header) interface{} { return new([]byte) }))
		var err error
		func() {
			defer func() {
				if r := recover(); r != nil {
					err = fmt.Errorf("panic %v", r)
				}
			}()
			err = p.Unpack(msg)
		}()
		if err != nil {
			return ms
		}
		ms = append(ms, fromMessage(msg))
	}
}

func c17Meta(m *M, key string) ([]byte, bool) {
	for _, kv := range m.Meta {
		if string(kv[0]) == key {
			return kv[1], true
		}
	}
	return nil, false
}

// c17Env: is the frame marked and is its body an envelope with a non-empty version.
func c17Env(m *M) (env bool, e secure.Encrypt) {
	sec, ok := c17Meta(m, secure.SECURE_META_KEY)
	if !ok || string(sec) != "true" || len(m.Body) == 0 {
		return false, e
	}
	c, err := codec.Get(m.Codec)
	if err != nil {
		return false, e
	}
	func() {
		defer func() { recover() }()
		if c.Unmarshal(m.Body, &e) != nil {
			e = secure.Encrypt{}
		}
	}()
	return e.Cipherversion != "", e
}

func c17FrameDesc(m *M) string {
	sec, sok := c17Meta(m, secure.SECURE_META_KEY)
	acc, aok := c17Meta(m, secure.ACCEPT_SECURE_META_KEY)
	env, e := c17Env(m)
	ver := "-"
	ev := 0
	if env {
		ver = e.Cipherversion
		ev = 1
		for _, ch := range []byte(ver) {
			if !(ch >= '0' && ch <= '9' || ch >= 'a' && ch <= 'z') {
				ver = "hex:" + hx.Hex([]byte(e.Cipherversion))
				break
			}
		}
	}
	return fmt.Sprintf("sec:%s,acc:%s,env:%d,ver:%s", c17ShowOpt(sec, sok), c17ShowOpt(acc, aok), ev, ver)
}

func c17Has(b []byte) int {
	if len(b) == 0 {
		return 0
	}
	return 1
}

// c17Expect is the exact envelope body the plugin must have written for `clear` under `key`.
func c17Expect(id byte, key string, clear []byte) []byte {
	return c17Marshal(id, &secure.Encrypt{
		Cipherversion: goutil.Md5([]byte(key)),
		Ciphertext:    string(goutil.AESEncrypt([]byte(key), append([]byte{}, clear...))),
	})
}

// c17Leak searches one direction of the wire for the clear body and its fragments.
func c17Leak(wire []byte, v c17Value) string {
	if len(v.clear) >= 16 && bytes.Contains(wire, v.clear) {
		return "whole marshalled body"
	}
	for i, f := range v.frags {
		if len(f) >= 16 && bytes.Contains(wire, f) {
			return fmt.Sprintf("fragment %d (%d bytes)", i, len(f))
		}
	}
	return ""
}

func c17Cmp(id byte, want []byte, got []byte, zero []byte) string {
	switch {
	case bytes.Equal(got, want):
		return "same"
	case bytes.Equal(got, zero):
		return "none"
	}
	return "diff"
}

func c17Wait(d time.Duration) time.Duration { return d }

type c17Case struct {
	kc, ks     string
	qsec, qacc *string
	rsec, racc *string
	hok        bool
	kind       string
	id         byte
	arg, res   c17Value
	anil       bool
}

func c17Parse(f map[string]string) (c c17Case, err string) {
	c.kc, c.ks = string(hx.UnHex(f["kc"])), string(hx.UnHex(f["ks"]))
	c.qsec, c.qacc = c17Opt(f["qsec"]), c17Opt(f["qacc"])
	if v, ok := f["rsec"]; ok {
		c.rsec = c17Opt(v)
	}
	if v, ok := f["racc"]; ok {
		c.racc = c17Opt(v)
	}
	c.hok = f["hok"] != "0"
	sp := strings.Split(f["val"], ":")
	if len(sp) != 4 {
		return c, "bad-val"
	}
	c.kind = sp[0]
	id, ok := c17Kinds[c.kind]
	if !ok {
		return c, "bad-kind"
	}
	c.id = id
	na, _ := strconv.Atoi(sp[1])
	nr, _ := strconv.Atoi(sp[2])
	seed, _ := strconv.ParseInt(sp[3], 10, 64)
	c.arg = c17Make(c.kind, na, seed)
	c.res = c17Make(c.kind, nr, seed+1)
	c.anil = f["anil"] == "1"
	if c.anil {
		c.arg = c17Value{v: nil, clear: []byte{}}
	}
	return c, ""
}

func c17Settings(c *c17Case) []erpc.MessageSetting {
	set := []erpc.MessageSetting{erpc.WithBodyCodec(c.id)}
	if c.qsec != nil {
		if *c.qsec == "true" {
			set = append(set, secure.WithSecureMeta())
		} else {
			set = append(set, erpc.WithSetMeta(secure.SECURE_META_KEY, *c.qsec))
		}
	}
	if c.qacc != nil {
		switch *c.qacc {
		case "true":
			set = append(set, secure.WithAcceptSecureMeta(true))
		case "false":
			set = append(set, secure.WithAcceptSecureMeta(false))
		default:
			set = append(set, erpc.WithSetMeta(secure.ACCEPT_SECURE_META_KEY, *c.qacc))
		}
	}
	return set
}

func c17Arm(c *c17Case) {
	c17Cur.Lock()
	c17Cur.kind, c17Cur.rsec, c17Cur.racc, c17Cur.hok = c.kind, c.rsec, c.racc, c.hok
	c17Cur.res, c17Cur.invoked, c17Cur.got = c.res.v, 0, nil
	c17Cur.Unlock()
}

func c17ArgBody(c *c17Case) interface{} {
	if c.anil {
		return nil
	}
	return c.arg.v
}

func c17ZeroBytes(c *c17Case) []byte { return c17Marshal(c.id, c17Zero(c.kind)) }

// c17SentClear: what the receiving handler must reproduce for the sent argument.
func c17ArgWant(c *c17Case) []byte {
	if c.anil {
		return c17ZeroBytes(c)
	}
	return c.arg.clear
}

func c17ArgPart(c *c17Case) (string, bool, []byte) {
	c17Cur.Lock()
	inv, got := c17Cur.invoked, c17Cur.got
	c17Cur.Unlock()
	if inv == 0 {
		return "inv=0 arg=-", false, nil
	}
	return fmt.Sprintf("inv=%d arg=%s", inv, c17Cmp(c.id, c17ArgWant(c), got, c17ZeroBytes(c))), true, got
}

// c17CheckReq evaluates the request-direction oracles on the captured frame.
func c17CheckReq(line string, c *c17Case, q *M, wire []byte, out *hx.Out) {
	marked := c.qsec != nil && *c.qsec == "true"
	if marked {
		if leak := c17Leak(wire, c.arg); leak != "" {
			out.Violate(line, "no-cleartext-on-wire", "request marked secure but the wire holds its "+leak, "c17:cleartext-on-wire")
		}
		if want := c17Expect(c.id, c.kc, c.arg.clear); !bytes.Equal(q.Body, want) {
			out.Violate(line, "wire-is-envelope", fmt.Sprintf("request body (%d bytes) is not Marshal(Encrypt{md5(key),AES(key,clear)}) (%d bytes)", len(q.Body), len(want)), "c17:wire-not-envelope")
		}
	} else if !bytes.Equal(q.Body, c.arg.clear) {
		out.Violate(line, "unmarked-unchanged", fmt.Sprintf("unmarked request body changed on the wire: %d bytes, clear %d bytes", len(q.Body), len(c.arg.clear)), "c17:unmarked-changed")
	}
}

// ---- running one case --------------------------------------------------------------------------

func c17RunSafe(line string, out *hx.Out) (obs string, nt bool) {
	defer func() {
		if p := recover(); p != nil {
			obs, nt = fmt.Sprintf("harness-panic:%v", p), true
			out.Violate(line, "harness", obs, "c17:harness-panic")
		}
	}()
	kind, f := hx.Fields(line)
	switch kind {
	case "c17call":
		return c17RunCall(line, f, out)
	case "c17push":
		return c17RunPush(line, f, out)
	case "c17forgeq":
		return c17RunForgeQ(line, f, out)
	case "c17forger":
		return c17RunForgeR(line, f, out)
	}
	return "bad-kind", false
}

func c17Class(s *string, acc bool) string {
	switch {
	case s == nil:
		return "absent"
	case *s == "true":
		return "true"
	case acc && *s == "false":
		return "false"
	}
	return "other"
}

func c17RunCall(line string, f map[string]string, out *hx.Out) (string, bool) {
	c, bad := c17Parse(f)
	if bad != "" {
		return bad, false
	}
	c17Seq++
	l := connect(c17CliPeer(c.kc), c17SrvPeer(c.ks), fmt.Sprintf("c17-%d", c17Seq))
	if !l.StA.OK() || !l.StB.OK() {
		return "bad-connect", false
	}
	defer l.A.Close()
	c17Arm(&c)

	var rawRes []byte
	var resPtr interface{} = &rawRes
	if !strings.HasPrefix(c.kind, "r") {
		resPtr = c17Zero(c.kind)
	}
	ch := make(chan erpc.CallCmd, 1)
	l.A.AsyncCall("/c17_call/"+c17Method(c.kind), c17ArgBody(&c), resPtr, ch, c17Settings(&c)...)
	var st *erpc.Status
	select {
	case cmd := <-ch:
		st = cmd.Status()
	case <-time.After(c17Wait(3 * time.Second)):
		c17Tmo++
		out.Violate(line, "reply-arrives", "no reply within 3s", "c17:no-reply")
		return "timeout", true
	}
	// snapshot what the caller holds BEFORE anything else unpacks a frame in this process: the
	// form codec decodes strings zero-copy out of the pooled frame buffer (url.ParseQuery on
	// goutil.BytesToString(data)), so the next Unpack anywhere overwrites delivered string fields
	var gotRes []byte
	if p, ok := resPtr.(*[]byte); ok {
		gotRes = append([]byte{}, *p...)
	} else {
		gotRes = append([]byte{}, c17Marshal(c.id, resPtr)...)
	}
	resCmp := c17Cmp(c.id, c.res.clear, gotRes, c17ZeroBytes(&c))
	argPart, invoked, _ := c17ArgPart(&c)
	qb, _ := l.CA.Sent()
	rb, _ := l.CB.Sent()
	qs, rs := c17Frames(qb), c17Frames(rb)
	if len(qs) != 1 || len(rs) != 1 {
		out.Violate(line, "frames-on-wire", fmt.Sprintf("captured %d request and %d reply frames (status %v)", len(qs), len(rs), st), "c17:frame-count")
		return fmt.Sprintf("frames=%d,%d cst=%s", len(qs), len(rs), c17St(st)), true
	}
	q, r := qs[0], rs[0]

	// ---- the property's own oracles
	sameKey := c.kc == c.ks
	qMarked := c.qsec != nil && *c.qsec == "true"
	qAccept := c.qacc != nil && *c.qacc == "true"
	rMarked := c.rsec != nil && *c.rsec == "true"
	c17CheckReq(line, &c, q, qb, out)
	rEnv, _ := c17Env(r)
	replyOK := r.Code == 0
	if invoked && c.hok && replyOK {
		mustEnc := qMarked || qAccept || rMarked
		if mustEnc {
			if !rEnv {
				sig := "c17:reply-not-encrypted"
				if qMarked && !rMarked && c.qacc != nil && *c.qacc == "false" {
					sig = "c17:reply-not-encrypted-accept-false"
				}
				out.Violate(line, "reply-encrypted-when-requested", fmt.Sprintf("request X-Secure=%s X-Accept-Secure=%s handler X-Secure=%s: reply body travels in clear", c17Class(c.qsec, false), c17Class(c.qacc, true), c17Class(c.rsec, false)), sig)
			} else {
				if leak := c17Leak(rb, c.res); leak != "" {
					out.Violate(line, "no-cleartext-on-wire", "reply must be encrypted but the wire holds its "+leak, "c17:cleartext-on-wire")
				}
			}
		}
		if rEnv {
			if want := c17Expect(r.Codec, c.ks, c.res.clear); !bytes.Equal(r.Body, want) {
				out.Violate(line, "wire-is-envelope", fmt.Sprintf("reply body (%d bytes) is not the envelope of the result (%d bytes)", len(r.Body), len(want)), "c17:wire-not-envelope")
			}
		} else if !bytes.Equal(r.Body, c.res.clear) {
			out.Violate(line, "unmarked-unchanged", "unencrypted reply body differs from the marshalled result", "c17:unmarked-changed")
		}
	}
	if sameKey {
		if invoked && !strings.HasSuffix(argPart, "arg=same") {
			out.Violate(line, "argument-restored", "same key but the handler received a different argument: "+argPart, "c17:value-not-restored")
		}
		if !invoked {
			out.Violate(line, "argument-restored", "same key but the handler was not invoked, caller status "+c17St(st), "c17:value-not-restored")
		}
		if invoked && c.hok && (resCmp != "same" || !st.OK()) {
			out.Violate(line, "result-restored", fmt.Sprintf("same key, handler OK, but caller got status %s result %s", c17St(st), resCmp), "c17:value-not-restored")
		}
	} else {
		if qMarked && (invoked || st.OK()) {
			out.Violate(line, "wrong-key-rejected", fmt.Sprintf("different keys, marked request: handler invoked=%v caller status %s", invoked, c17St(st)), "c17:wrong-key-accepted")
		}
		if !qMarked && rEnv && c.hok && (st.OK() || (resCmp == "same" && len(c.res.clear) > 0)) {
			out.Violate(line, "wrong-key-rejected", fmt.Sprintf("different keys, encrypted reply: caller status %s result %s", c17St(st), resCmp), "c17:wrong-key-accepted")
		}
	}
	if !qMarked && !qAccept && !rMarked && c.hok && (!invoked || !st.OK() || resCmp != "same") {
		out.Violate(line, "unmarked-unchanged", fmt.Sprintf("unmarked exchange disturbed: invoked=%v status %s result %s", invoked, c17St(st), resCmp), "c17:unmarked-changed")
	}

	out.Count("call:q=" + c17Class(c.qsec, false) + "/" + c17Class(c.qacc, true))
	out.Count("call:r=" + c17Class(c.rsec, false) + "/hok=" + strconv.FormatBool(c.hok))
	out.Count(fmt.Sprintf("call:keys=%d/%d/same=%v", len(c.kc), len(c.ks), sameKey))
	out.Count("call:kind=" + c.kind)
	out.Count(fmt.Sprintf("call:renv=%v", rEnv))
	out.Count("call:cst=" + c17St(st))
	return fmt.Sprintf("q=%s %s r=%s,st:%s,body:%d cst=%s res=%s", c17FrameDesc(q), argPart, c17FrameDesc(r), c17Code(r.Code), c17Has(r.Body), c17St(st), resCmp), true
}

// c17Fence makes sure every frame written before it on session l.A has been handled: an unmarked
// call on the same connection (frames are read in order), then a graceful close of the server
// side session, which waits for all handler goroutines.
func c17Fence(l *link) bool {
	var r int
	ch := make(chan erpc.CallCmd, 1)
	l.A.AsyncCall("/c17_call/fence", 41, &r, ch, erpc.WithBodyCodec('j'))
	select {
	case cmd := <-ch:
		if !cmd.Status().OK() || r != 42 {
			return false
		}
	case <-time.After(3 * time.Second):
		return false
	}
	l.B.Close()
	return true
}

func c17RunPush(line string, f map[string]string, out *hx.Out) (string, bool) {
	c, bad := c17Parse(f)
	if bad != "" {
		return bad, false
	}
	c.hok = true
	c17Seq++
	l := connect(c17CliPeer(c.kc), c17SrvPeer(c.ks), fmt.Sprintf("c17-%d", c17Seq))
	if !l.StA.OK() || !l.StB.OK() {
		return "bad-connect", false
	}
	defer l.A.Close()
	c17Arm(&c)
	st := l.A.Push("/c17_push/"+c17Method(c.kind), c17ArgBody(&c), c17Settings(&c)...)
	qb, _ := l.CA.Sent()
	// give the push handler its turn before the fence frame reuses the server's frame buffer
	// (zero-copy form codec, see c17RunCall); a push that is rejected never sets the flag
	waitUntil(5*time.Millisecond, func() bool {
		c17Cur.Lock()
		defer c17Cur.Unlock()
		return c17Cur.invoked > 0
	})
	if !c17Fence(l) {
		c17Tmo++
		out.Violate(line, "fence", "fence call after the push failed", "c17:no-reply")
		return "timeout", true
	}
	argPart, invoked, _ := c17ArgPart(&c)
	qs := c17Frames(qb)
	if len(qs) != 1 {
		out.Violate(line, "frames-on-wire", fmt.Sprintf("captured %d push frames (status %v)", len(qs), st), "c17:frame-count")
		return fmt.Sprintf("frames=%d pst=%s", len(qs), c17St(st)), true
	}
	c17CheckReq(line, &c, qs[0], qb, out)
	sameKey := c.kc == c.ks
	qMarked := c.qsec != nil && *c.qsec == "true"
	if (sameKey || !qMarked) && !strings.HasSuffix(argPart, "arg=same") {
		out.Violate(line, "argument-restored", "push argument not restored: "+argPart, "c17:value-not-restored")
	}
	if !sameKey && qMarked && invoked {
		out.Violate(line, "wrong-key-rejected", "different keys, marked push: handler invoked", "c17:wrong-key-accepted")
	}
	out.Count("push:q=" + c17Class(c.qsec, false) + "/" + c17Class(c.qacc, true))
	out.Count(fmt.Sprintf("push:keys=%d/%d/same=%v", len(c.kc), len(c.ks), sameKey))
	out.Count("push:kind=" + c.kind)
	return fmt.Sprintf("q=%s %s pst=%s", c17FrameDesc(qs[0]), argPart, c17St(st)), true
}

// c17DecLabel: outcome of the real AESDecrypt for this ciphertext under this key, relative to the
// plain text the receiver's unmarshalling can accept.
func c17DecLabel(key string, ct string, want []byte) (label string) {
	defer func() {
		if recover() != nil {
			label = "panic"
		}
	}()
	b, err := goutil.AESDecrypt([]byte(key), []byte(ct))
	if err != nil {
		return "err"
	}
	if bytes.Equal(b, want) {
		return "ok"
	}
	return "garbage"
}

// forged request: a plugin-less client sends X-Secure=true with a hand-made envelope (json codec,
// method J) to a server with key ks.
func c17RunForgeQ(line string, f map[string]string, out *hx.Out) (string, bool) {
	ks := string(hx.UnHex(f["ks"]))
	v := string(hx.UnHex(f["v"]))
	ct := string(hx.UnHex(f["ct"]))
	seed, _ := strconv.ParseInt(f["seed"], 10, 64)
	re := f["re"] == "1"
	c := c17Case{ks: ks, kind: "j", id: 'j', hok: f["hok"] != "0", qacc: c17Opt(f["qacc"]), rsec: c17Opt(f["rsec"]), racc: c17Opt(f["racc"])}
	c.arg = c17Make("j", 24, seed)
	c.res = c17Make("j", 24, seed+1)
	_ = re
	if lab := c17DecLabel(ks, ct, c.arg.clear); f["dec"] != "na" && lab != f["dec"] {
		return "bad-case:dec-label-" + lab, false
	}
	c17Seq++
	l := connect(c17CliPeer(""), c17SrvPeer(ks), fmt.Sprintf("c17-%d", c17Seq))
	if !l.StA.OK() || !l.StB.OK() {
		return "bad-connect", false
	}
	defer l.A.Close()
	c17Arm(&c)
	set := []erpc.MessageSetting{erpc.WithBodyCodec('j'), erpc.WithSetMeta(secure.SECURE_META_KEY, "true")}
	if c.qacc != nil {
		set = append(set, erpc.WithSetMeta(secure.ACCEPT_SECURE_META_KEY, *c.qacc))
	}
	var raw []byte
	ch := make(chan erpc.CallCmd, 1)
	l.A.AsyncCall("/c17_call/j", &secure.Encrypt{Cipherversion: v, Ciphertext: ct}, &raw, ch, set...)
	select {
	case <-ch:
	case <-time.After(3 * time.Second):
		c17Tmo++
		out.Violate(line, "reply-arrives", "no reply within 3s", "c17:no-reply")
		return "timeout", true
	}
	qb, _ := l.CA.Sent()
	rb, _ := l.CB.Sent()
	qs, rs := c17Frames(qb), c17Frames(rb)
	if len(qs) != 1 || len(rs) != 1 {
		return fmt.Sprintf("frames=%d,%d", len(qs), len(rs)), true
	}
	argPart, invoked, _ := c17ArgPart(&c)
	if invoked && v != goutil.Md5([]byte(ks)) && v != "" {
		out.Violate(line, "wrong-key-rejected", "envelope names another key version but the handler ran", "c17:wrong-key-accepted")
	}
	out.Count("forgeq:dec=" + f["dec"] + "/v=" + c17VClass(v, ks))
	return fmt.Sprintf("q=%s %s r=%s,st:%s,body:%d", c17FrameDesc(qs[0]), argPart, c17FrameDesc(rs[0]), c17Code(rs[0].Code), c17Has(rs[0].Body)), true
}

// c17ForgeWant: a two-string message that every envelope codec round-trips.
func c17ForgeWant(seed int64) c17Value {
	r := hx.NewR(seed + 1)
	return c17Value{v: &secure.Encrypt{Cipherversion: c17Str(r, 24), Ciphertext: c17Str(r, 9)}}
}

func c17VClass(v, key string) string {
	switch {
	case v == "":
		return "empty"
	case v == goutil.Md5([]byte(key)):
		return "match"
	}
	return "other"
}

// forged reply: a plugin-less server answers method P with X-Secure=true and a hand-made envelope
// (the handler's result IS an Encrypt object, so the frame is what a plugin would have written);
// the caller runs the plugin with key kc.
func c17RunForgeR(line string, f map[string]string, out *hx.Out) (string, bool) {
	kc := string(hx.UnHex(f["kc"]))
	v := string(hx.UnHex(f["v"]))
	ct := string(hx.UnHex(f["ct"]))
	seed, _ := strconv.ParseInt(f["seed"], 10, 64)
	id := byte('j')
	if f["codec"] == "p" {
		id = 'p'
	}
	want := c17ForgeWant(seed) // the value whose encryption a "good" ct holds
	if lab := c17DecLabel(kc, ct, c17Marshal(id, want.v)); f["dec"] != "na" && lab != f["dec"] {
		return "bad-case:dec-label-" + lab, false
	}
	c := c17Case{kc: kc, kind: "p", id: id, hok: true}
	c.arg = c17Make("p", 8, seed)
	tr := "true"
	c.rsec = &tr
	c.res = c17Value{v: &secure.Encrypt{Cipherversion: v, Ciphertext: ct}}
	c17Seq++
	l := connect(c17CliPeer(kc), c17SrvPeer(""), fmt.Sprintf("c17-%d", c17Seq))
	if !l.StA.OK() || !l.StB.OK() {
		return "bad-connect", false
	}
	defer l.A.Close()
	c17Arm(&c)
	// on the plugin-less server EnforceSecure only sets the metadata: the body stays as returned
	result := &secure.Encrypt{}
	ch := make(chan erpc.CallCmd, 1)
	l.A.AsyncCall("/c17_call/p", c.arg.v, result, ch, erpc.WithBodyCodec(id))
	var st *erpc.Status
	select {
	case cmd := <-ch:
		st = cmd.Status()
	case <-time.After(3 * time.Second):
		c17Tmo++
		out.Violate(line, "reply-arrives", "no reply within 3s", "c17:no-reply")
		return "timeout", true
	}
	got := append([]byte{}, c17Marshal('p', result)...)
	rb, _ := l.CB.Sent()
	rs := c17Frames(rb)
	if len(rs) != 1 {
		return fmt.Sprintf("frames=%d", len(rs)), true
	}
	// the frame was marshalled by the server with codec `id` from a zero-valued typed result when
	// the version is empty: normalise "what the caller holds" via the want value under codec p
	wantClear := c17Marshal('p', want.v)
	resCmp := c17Cmp('p', wantClear, got, c17Marshal('p', &secure.Encrypt{}))
	if f["dec"] != "ok" && v != "" && st.OK() {
		out.Count("forger:undelivered-with-ok-status")
	}
	out.Count("forger:dec=" + f["dec"] + "/v=" + c17VClass(v, kc) + "/cst=" + c17St(st))
	return fmt.Sprintf("r=%s,st:%s,body:%d cst=%s res=%s", c17FrameDesc(rs[0]), c17Code(rs[0].Code), c17Has(rs[0].Body), c17St(st), resCmp), true
}

// ---- generation --------------------------------------------------------------------------------

func c17HexOpt(s *string) string {
	if s == nil {
		return "nil"
	}
	return hx.Hex([]byte(*s))
}

func c17Key(r *hx.R, n int) string {
	// any byte values: the key is a Go string converted to []byte
	return string(r.Bytes(n, r.Intn(2)))
}

func c17Gen(r *hx.R, tier string, out *hx.Out) []string {
	nRand := 1500
	if tier == "thorough" {
		nRand = 14000
	}
	var ls []string
	add := func(f string, a ...interface{}) { ls = append(ls, fmt.Sprintf(f, a...)) }
	s := func(v string) *string { return &v }

	// key pool: two keys of every AES size (+ the README key)
	pool := map[int][]string{}
	for _, n := range []int{16, 24, 32} {
		pool[n] = []string{c17Key(r, n), c17Key(r, n)}
	}
	pool[16] = append(pool[16], "cipherkey1234567")
	type kp struct{ kc, ks string }
	var pairs []kp
	for _, n := range []int{16, 24, 32} {
		pairs = append(pairs, kp{pool[n][0], pool[n][0]})
	}
	pairs = append(pairs, kp{pool[16][0], pool[16][1]}, kp{pool[24][1], pool[24][0]}, kp{pool[32][0], pool[32][1]},
		kp{pool[16][0], pool[32][0]}, kp{pool[32][1], pool[24][1]})
	randPair := func() kp {
		if r.Intn(5) < 3 {
			n := r.Pick(16, 24, 32)
			k := pool[n][r.Intn(len(pool[n]))]
			return kp{k, k}
		}
		a, b := r.Pick(16, 24, 32), r.Pick(16, 24, 32)
		p := kp{pool[a][r.Intn(len(pool[a]))], pool[b][r.Intn(len(pool[b]))]}
		return p
	}
	var kinds []string
	for _, k := range []string{"j", "x", "f", "p", "rj", "rp", "rx", "rf"} {
		if c17Carry[c17Kinds[k]] {
			kinds = append(kinds, k)
		}
	}
	if len(kinds) == 0 {
		panic("c17: no codec can carry the envelope")
	}
	val := func() string {
		k := kinds[r.Intn(len(kinds))]
		size := func() int {
			switch r.Intn(10) {
			case 0:
				if strings.HasPrefix(k, "r") {
					return 0
				}
				return 16
			case 1:
				return 4096 + r.Intn(60000)
			case 2:
				return 16 + r.Intn(3)
			}
			return 16 + r.Intn(200)
		}
		na, nr := size(), size()
		ae, re := 0, 0
		if strings.HasPrefix(k, "r") && na == 0 {
			ae = 1
		}
		if strings.HasPrefix(k, "r") && nr == 0 {
			re = 1
		}
		return fmt.Sprintf("%s:%d:%d:%d ae=%d re=%d", k, na, nr, r.Intn(1<<30), ae, re)
	}
	nilArg := func(line string) string {
		return strings.Replace(line, " ae=0", " ae=1", 1) + " anil=1"
	}
	secs := []*string{nil, s("true"), s("false")}
	accs := []*string{nil, s("true"), s("false"), s("TRUE")}
	rsecs := []*string{nil, s("true"), s("1")}
	raccs := []*string{nil, s("true"), s("false")}

	// (1) the whole marker matrix x key relations, canonical spellings
	for _, p := range pairs {
		for _, qs := range secs {
			for _, qa := range accs {
				for _, rs := range rsecs {
					for _, ra := range raccs {
						for _, hok := range []int{1, 0} {
							if hok == 0 && ra != nil {
								continue
							}
							add("c17call kc=%s ks=%s qsec=%s qacc=%s rsec=%s racc=%s hok=%d val=%s",
								hx.Hex([]byte(p.kc)), hx.Hex([]byte(p.ks)), c17HexOpt(qs), c17HexOpt(qa), c17HexOpt(rs), c17HexOpt(ra), hok, val())
						}
					}
				}
				add("c17push kc=%s ks=%s qsec=%s qacc=%s val=%s", hx.Hex([]byte(p.kc)), hx.Hex([]byte(p.ks)), c17HexOpt(qs), c17HexOpt(qa), val())
			}
		}
	}
	// (2) random spellings, values, sizes
	spell := func(acc bool) *string {
		switch r.Intn(12) {
		case 0, 1, 2:
			return nil
		case 3, 4, 5, 6:
			return s("true")
		case 7, 8:
			return s("false")
		}
		alts := []string{"TRUE", "True", "1", "0", "t", "true ", " true", "tru", "truee", "fals", "FALSE", "False", "yes", "\x00", "tr\xffe"}
		return s(alts[r.Intn(len(alts))])
	}
	for i := 0; i < nRand; i++ {
		p := randPair()
		if r.Intn(6) == 0 {
			add("c17push kc=%s ks=%s qsec=%s qacc=%s val=%s", hx.Hex([]byte(p.kc)), hx.Hex([]byte(p.ks)), c17HexOpt(spell(false)), c17HexOpt(spell(true)), val())
			if r.Intn(8) == 0 {
				ls[len(ls)-1] = nilArg(ls[len(ls)-1])
			}
			continue
		}
		hok := 1
		if r.Intn(6) == 0 {
			hok = 0
		}
		var rs, ra *string
		if r.Intn(3) == 0 {
			rs = spell(false)
		}
		if r.Intn(6) == 0 {
			ra = spell(true)
		}
		add("c17call kc=%s ks=%s qsec=%s qacc=%s rsec=%s racc=%s hok=%d val=%s",
			hx.Hex([]byte(p.kc)), hx.Hex([]byte(p.ks)), c17HexOpt(spell(false)), c17HexOpt(spell(true)), c17HexOpt(rs), c17HexOpt(ra), hok, val())
		if r.Intn(12) == 0 {
			ls[len(ls)-1] = nilArg(ls[len(ls)-1])
		}
	}
	// (3) forged frames from a peer without the plugin
	nForge := nRand / 10
	for i := 0; i < nForge; i++ {
		n := r.Pick(16, 24, 32)
		key := pool[n][0]
		other := pool[n][1]
		seed := int64(r.Intn(1 << 30))
		isReq := r.Intn(2) == 0
		fcodec := []string{"j", "p"}[r.Intn(2)]
		var clear []byte
		if isReq {
			clear = c17Make("j", 24, seed).clear
		} else {
			clear = c17Marshal(fcodec[0], c17ForgeWant(seed).v)
		}
		var v string
		switch r.Intn(5) {
		case 0:
			v = ""
		case 1:
			v = goutil.Md5([]byte(other))
		case 2:
			v = goutil.Md5([]byte(key))[:31] + "g"
		default:
			v = goutil.Md5([]byte(key))
		}
		var ct string
		switch r.Intn(7) {
		case 0:
			ct = string(goutil.AESEncrypt([]byte(other), append([]byte{}, clear...)))
		case 1:
			ct = "00"
		case 2:
			ct = "zz"
		case 3:
			ct = ""
		case 4:
			ct = hx.Hex(r.Bytes(16*(1+r.Intn(3)), 0))
		case 5:
			ct = hx.Hex(r.Bytes(1+r.Intn(40), 0))
		default:
			ct = string(goutil.AESEncrypt([]byte(key), append([]byte{}, clear...)))
		}
		dec := "na"
		if v == goutil.Md5([]byte(key)) {
			dec = c17DecLabel(key, ct, clear)
			if dec == "garbage" {
				continue // a random block that happens to unpad: what happens next is the codec's
			}
		}
		if !isReq && fcodec == "p" && v == "" && ct == "" {
			continue // protobuf writes the all-empty envelope as zero bytes
		}
		if isReq {
			add("c17forgeq ks=%s v=%s ct=%s dec=%s qacc=%s rsec=nil racc=nil hok=1 re=0 seed=%d",
				hx.Hex([]byte(key)), hx.Hex([]byte(v)), hx.Hex([]byte(ct)), dec, c17HexOpt(accs[r.Intn(3)]), seed)
		} else {
			add("c17forger kc=%s v=%s ct=%s dec=%s codec=%s seed=%d",
				hx.Hex([]byte(key)), hx.Hex([]byte(v)), hx.Hex([]byte(ct)), dec, fcodec, seed)
		}
	}
	return ls
}
