// Command c14thrift is the thrift stress scenario of property C14 (data-race freedom, supporting
// evidence only). It is a program of its own because importing proto/thriftproto switches the
// global service-method mapper and default body codec in its init; harness/cmd/conform/c14.go builds
// it with -race and runs it as a child process:
//
//	GORACE="... log_path=..." c14thrift-race -seed N -obs file
//
// Two real in-process peers over one in-memory connection speaking the thrift binary protocol;
// goroutines on both ends call and push concurrently, so Pack (callers, under the session write lock)
// and Unpack (the read loop) of the same protocol object run concurrently. Unique tokens are checked.
package main

import (
	"flag"
	"fmt"
	"math/rand"
	"os"
	"sync"
	"sync/atomic"
	"time"

	erpc "github.com/henrylee2cn/erpc/v6"
	"github.com/henrylee2cn/erpc/v6/proto/thriftproto"

	"verif/harness/internal/mem"
)

type Svc struct{ erpc.CallCtx }

func (c *Svc) Echo(arg *string) (string, *erpc.Status) { return *arg, nil }

type Note struct{ erpc.PushCtx }

func (c *Note) Note(arg *string) *erpc.Status { return nil }

var ops, bad int64

func main() {
	seed := flag.Int64("seed", 1, "seed")
	obs := flag.String("obs", "", "observation file")
	flag.Parse()
	erpc.SetLoggerLevel("OFF")
	r := rand.New(rand.NewSource(*seed))
	res := make(chan string, 1)
	go func() { res <- run(r) }()
	var s string
	select {
	case s = <-res:
	case <-time.After(120 * time.Second):
		fmt.Fprintln(os.Stderr, "c14thrift: timed out")
		os.Exit(3)
	}
	line := fmt.Sprintf("%s ops=%d bad=%d\n", s, atomic.LoadInt64(&ops), atomic.LoadInt64(&bad))
	if *obs != "" {
		os.WriteFile(*obs, []byte(line), 0o644)
	}
	fmt.Print(line)
}

func run(r *rand.Rand) string {
	pf := thriftproto.NewBinaryProtoFunc()
	mk := func() erpc.Peer {
		p := erpc.NewPeer(erpc.PeerConfig{DefaultBodyCodec: "json"})
		p.RouteCall(new(Svc))
		p.RoutePush(new(Note))
		return p
	}
	srv, cli := mk(), mk()
	ca, cb := mem.Pair("c14thrift")
	var a, b erpc.Session
	var sa, sb *erpc.Status
	var cw sync.WaitGroup
	cw.Add(1)
	go func() { defer cw.Done(); b, sb = srv.ServeConn(cb, pf) }()
	a, sa = cli.ServeConn(ca, pf)
	cw.Wait()
	if !sa.OK() || !sb.OK() {
		return "connect-failed"
	}
	nOps := 30 + r.Intn(20)
	var wg sync.WaitGroup
	for k := 0; k < 2; k++ {
		k := k
		for si, s := range []erpc.Session{a, b} {
			si, s := si, s
			wg.Add(1)
			go func() {
				defer wg.Done()
				defer func() { recover() }()
				for i := 0; i < nOps; i++ {
					tok := fmt.Sprintf("t-%d-%d-%d", si, k, i)
					var reply string
					cmd := s.Call("/svc/echo", tok, &reply, erpc.WithBodyCodec('j'))
					atomic.AddInt64(&ops, 1)
					if cmd.StatusOK() && reply != tok {
						atomic.AddInt64(&bad, 1)
					}
					s.Push("/note/note", tok, erpc.WithBodyCodec('j'))
					atomic.AddInt64(&ops, 1)
				}
			}()
		}
	}
	fin := make(chan struct{})
	go func() { wg.Wait(); close(fin) }()
	select {
	case <-fin:
	case <-time.After(60 * time.Second):
		return "thrift-hung"
	}
	cli.Close()
	srv.Close()
	return "thrift-done"
}
