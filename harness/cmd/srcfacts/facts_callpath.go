package main

// Fact group `CallPath` (properties C01 and C02): the statement shape of the outgoing-call path that
// the transition systems Model/Calls and Model/CallLife take for granted.
//
// Emits into Gen/CallPath.lean
//
//	asyncCall_landmarks     ordered landmark statements of session.AsyncCall
//	asyncCall_seq_source    how the value handed to `output.SetSeq` is obtained
//	asyncCall_store_key     what `callCmdMap.Store` uses as its key
//	asyncCall_seq_refs      number of syntactic references to the receiver's `seq` field
//	push_landmarks / push_seq_source / push_seq_refs          the same for session.Push
//	write_landmarks         ordered landmark statements of session.write
//	writeMessage_sites      every call of `.WriteMessage(...)` in the root package:
//	                        (function, "locked"|"unlocked") — a site inside an unexported helper that
//	                        takes no lock itself is attributed to the helper's call sites (one level)
//	bindReply_lookup_key    key expression of `callCmdMap.Load` in handlerCtx.bindReply
//	bindReply_landmarks     ordered: table.load, bind (c.callCmd = ...), mu.lock, the exits
//	bindReply_exits         every exit of bindReply in source order, classified
//	handleReply_prefix      statements of handlerCtx.handleReply before the `defer`
//	handleReply_deferred    landmark statements of the deferred function, in order; a landmark that is
//	                        not an unconditional statement of the deferred function is prefixed `?`
//	callCmd_done / callCmd_cancel   landmark statements (table.delete, chan.send, close.doneChan,
//	                        callWG.done, set.stat), `?`-prefixed when conditional
//	finishBoundReply_landmarks      guard + unconditional handleReply call
//	finishBoundReply_sites  where session.startReadAndHandle calls finishBoundReply
//
// Landmarks are recognised by the SHAPE of the call (selector chain below the receiver, callee name),
// never by the name of a local variable: renaming `seq`, `cmd`, `output`, `usedConn` ... changes
// nothing. Statements that are not landmarks are invisible: reordering them changes nothing.
// Anything the extractor cannot place (two SetSeq calls, a landmark inside a closure, a seq variable
// with several definitions, a missing function ...) is emitted through Lean.Missing or as an
// `other:`/`?` entry that no consuming theorem accepts.

import (
	"fmt"
	"go/ast"
	"go/token"
	"sort"
	"strings"
)

func init() {
	register(Group{
		Name: "CallPath",
		Doc:  "Statement shape of the outgoing-call path: landmark order in session.AsyncCall / Push / write, the write-lock region around socket.WriteMessage, bindReply's lookup key, lock and exits, handleReply's deferred done+unlock, the single send/close/delete/Done of callCmd.done and cancel, finishBoundReply. Consumed by Teleport.Props.C01 (C01_callpath_*) and Teleport.Props.C02 (C02_callpath_*).",
		Gen:  genCallPath,
	})
}

// ---------------------------------------------------------------------------------------------
// generic syntactic helpers (prefix cp)

// cpChain renders a selector chain as a list: `s.peer.pluginContainer.preWriteCall` ->
// [s peer pluginContainer preWriteCall]; a call in the chain is written `name()`; anything else
// yields nil.
func cpChain(e ast.Expr) []string {
	switch x := e.(type) {
	case *ast.Ident:
		return []string{x.Name}
	case *ast.ParenExpr:
		return cpChain(x.X)
	case *ast.SelectorExpr:
		b := cpChain(x.X)
		if b == nil {
			return nil
		}
		return append(b, x.Sel.Name)
	case *ast.CallExpr:
		b := cpChain(x.Fun)
		if b == nil {
			return nil
		}
		b[len(b)-1] += "()"
		return b
	case *ast.TypeAssertExpr:
		return cpChain(x.X)
	case *ast.StarExpr:
		return cpChain(x.X)
	}
	return nil
}

func cpLast(c []string) string {
	if len(c) == 0 {
		return ""
	}
	return c[len(c)-1]
}

func cpEq(c []string, want ...string) bool {
	if len(c) != len(want) {
		return false
	}
	for i := range c {
		if want[i] != "*" && c[i] != want[i] {
			return false
		}
	}
	return true
}

// cpSuffix: does chain c end with want (with "*" wildcards)?
func cpSuffix(c []string, want ...string) bool {
	if len(c) < len(want) {
		return false
	}
	return cpEq(c[len(c)-len(want):], want...)
}

// cpText renders an expression with the receiver written `$recv`, parameters `$param`, other
// identifiers kept: used only inside `other:` diagnostics (never matched by a theorem).
func cpText(e ast.Expr) string {
	switch x := e.(type) {
	case nil:
		return ""
	case *ast.Ident:
		return x.Name
	case *ast.BasicLit:
		return x.Value
	case *ast.SelectorExpr:
		return cpText(x.X) + "." + x.Sel.Name
	case *ast.ParenExpr:
		return "(" + cpText(x.X) + ")"
	case *ast.StarExpr:
		return "*" + cpText(x.X)
	case *ast.UnaryExpr:
		return x.Op.String() + cpText(x.X)
	case *ast.BinaryExpr:
		return cpText(x.X) + " " + x.Op.String() + " " + cpText(x.Y)
	case *ast.CallExpr:
		var a []string
		for _, y := range x.Args {
			a = append(a, cpText(y))
		}
		return cpText(x.Fun) + "(" + strings.Join(a, ", ") + ")"
	case *ast.IndexExpr:
		return cpText(x.X) + "[" + cpText(x.Index) + "]"
	case *ast.SliceExpr:
		return cpText(x.X) + "[" + cpText(x.Low) + ":" + cpText(x.High) + "]"
	case *ast.CompositeLit:
		return cpText(x.Type) + "{...}"
	case *ast.ArrayType:
		return "[]" + cpText(x.Elt)
	case *ast.TypeAssertExpr:
		return cpText(x.X) + ".(T)"
	}
	return fmt.Sprintf("<%T>", e)
}

// cpWalk traverses root in source order. pre is called on entry (return false to skip the subtree),
// post on exit; stack holds the ancestors of n (outermost first, n excluded).
func cpWalk(root ast.Node, pre func(n ast.Node, stack []ast.Node) bool, post func(n ast.Node, stack []ast.Node)) {
	var stack []ast.Node
	ast.Inspect(root, func(n ast.Node) bool {
		if n == nil {
			top := stack[len(stack)-1]
			stack = stack[:len(stack)-1]
			if post != nil {
				post(top, stack)
			}
			return true
		}
		if pre != nil && !pre(n, stack) {
			return false
		}
		stack = append(stack, n)
		return true
	})
}

// cpIsAtomicAddSeq: atomic.AddInt32(&<rv>.seq, 1)
func cpIsAtomicAddSeq(e ast.Expr, rv string) bool {
	c, ok := e.(*ast.CallExpr)
	if !ok || len(c.Args) != 2 {
		return false
	}
	ch := cpChain(c.Fun)
	if !(cpEq(ch, "atomic", "AddInt32") || cpEq(ch, "atomic", "AddInt64") || cpEq(ch, "atomic", "AddUint32")) {
		return false
	}
	u, ok := c.Args[0].(*ast.UnaryExpr)
	if !ok || u.Op != token.AND || !cpEq(cpChain(u.X), rv, "seq") {
		return false
	}
	b, ok := c.Args[1].(*ast.BasicLit)
	return ok && b.Kind == token.INT && b.Value == "1"
}

// cpDefs lists the right-hand sides of every definition of the identifier `name` in body (":=", "=",
// `var`, op-assignments and ++/-- are reported as a nil expression).
func cpDefs(body ast.Node, name string) []ast.Expr {
	var out []ast.Expr
	ast.Inspect(body, func(n ast.Node) bool {
		switch s := n.(type) {
		case *ast.AssignStmt:
			for i, l := range s.Lhs {
				id, ok := l.(*ast.Ident)
				if !ok || id.Name != name {
					continue
				}
				switch {
				case s.Tok != token.ASSIGN && s.Tok != token.DEFINE:
					out = append(out, nil)
				case len(s.Lhs) == len(s.Rhs):
					out = append(out, s.Rhs[i])
				case len(s.Rhs) == 1:
					out = append(out, s.Rhs[0])
				default:
					out = append(out, nil)
				}
			}
		case *ast.ValueSpec:
			for i, id := range s.Names {
				if id.Name != name {
					continue
				}
				switch {
				case len(s.Values) == len(s.Names):
					out = append(out, s.Values[i])
				case len(s.Values) == 1:
					out = append(out, s.Values[0])
				default:
					out = append(out, nil)
				}
			}
		case *ast.IncDecStmt:
			if id, ok := s.X.(*ast.Ident); ok && id.Name == name {
				out = append(out, nil)
			}
		case *ast.RangeStmt:
			for _, kv := range []ast.Expr{s.Key, s.Value} {
				if id, ok := kv.(*ast.Ident); ok && id.Name == name {
					out = append(out, nil)
				}
			}
		}
		return true
	})
	return out
}

// cpCountFieldRefs counts the selector expressions `<rv>.<field>` in body.
func cpCountFieldRefs(body ast.Node, rv, field string) uint64 {
	var n uint64
	ast.Inspect(body, func(x ast.Node) bool {
		if se, ok := x.(*ast.SelectorExpr); ok && cpEq(cpChain(se), rv, field) {
			n++
		}
		return true
	})
	return n
}

// cpSeqSource classifies how the single `X.SetSeq(arg)` of a function obtains its argument.
// It returns the canonical text, and the identifier that carries the value ("" when the atomic add
// is the argument itself).
func cpSeqSource(fd *ast.FuncDecl, rv string) (src string, carrier string) {
	var calls []*ast.CallExpr
	ast.Inspect(fd.Body, func(n ast.Node) bool {
		if c, ok := n.(*ast.CallExpr); ok && len(c.Args) == 1 && cpLast(cpChain(c.Fun)) == "SetSeq" {
			calls = append(calls, c)
		}
		return true
	})
	if len(calls) != 1 {
		return fmt.Sprintf("other:%d SetSeq calls", len(calls)), ""
	}
	arg := calls[0].Args[0]
	if cpIsAtomicAddSeq(arg, rv) {
		return "atomic.AddInt32(&recv.seq, 1)", ""
	}
	id, ok := arg.(*ast.Ident)
	if !ok {
		return "other:" + cpText(arg), ""
	}
	defs := cpDefs(fd.Body, id.Name)
	if len(defs) != 1 {
		return fmt.Sprintf("other:%d definitions of the sequence variable", len(defs)), id.Name
	}
	if defs[0] != nil && cpIsAtomicAddSeq(defs[0], rv) {
		return "atomic.AddInt32(&recv.seq, 1)", id.Name
	}
	return "other:" + strings.ReplaceAll(cpText(defs[0]), rv+".", "recv."), id.Name
}

// cpCtx describes where a node sits.
type cpCtx struct {
	inLit    bool          // inside a function literal (below the walk root)
	inGo     bool          // inside a go statement
	deferred bool          // the call of a defer statement itself
	cond     bool          // inside if/for/switch/select/case (below the walk root)
	ifs      []*ast.IfStmt // enclosing if statements, outermost first
}

func cpContext(stack []ast.Node, n ast.Node) cpCtx {
	var c cpCtx
	for i, a := range stack {
		switch x := a.(type) {
		case *ast.FuncLit:
			c.inLit = true
		case *ast.GoStmt:
			c.inGo = true
		case *ast.DeferStmt:
			if x.Call == n && i == len(stack)-1 {
				c.deferred = true
			}
		case *ast.IfStmt:
			// Init and Cond of an if are evaluated unconditionally (relative to the if itself)
			var child ast.Node = n
			if i+1 < len(stack) {
				child = stack[i+1]
			}
			if child != x.Init && child != ast.Node(x.Cond) {
				c.cond = true
			}
			c.ifs = append(c.ifs, x)
		case *ast.ForStmt, *ast.RangeStmt, *ast.SwitchStmt, *ast.TypeSwitchStmt, *ast.SelectStmt, *ast.CaseClause, *ast.CommClause:
			c.cond = true
		}
	}
	return c
}

func cpContainsCall(n ast.Node, pred func(c *ast.CallExpr) bool) bool {
	if n == nil {
		return false
	}
	found := false
	ast.Inspect(n, func(x ast.Node) bool {
		if c, ok := x.(*ast.CallExpr); ok && pred(c) {
			found = true
		}
		return !found
	})
	return found
}

// cpPrevStmt returns the statement that precedes s in the block that directly contains it.
func cpPrevStmt(root ast.Node, s ast.Stmt) ast.Stmt {
	var prev ast.Stmt
	ast.Inspect(root, func(n ast.Node) bool {
		var list []ast.Stmt
		switch b := n.(type) {
		case *ast.BlockStmt:
			list = b.List
		case *ast.CaseClause:
			list = b.Body
		case *ast.CommClause:
			list = b.Body
		}
		for i, x := range list {
			if x == s && i > 0 {
				prev = list[i-1]
				if l, ok := prev.(*ast.LabeledStmt); ok {
					prev = l.Stmt
				}
			}
			if l, ok := x.(*ast.LabeledStmt); ok && l.Stmt == s && i > 0 {
				prev = list[i-1]
			}
		}
		return true
	})
	return prev
}

// cpReturns: does the statement list end in a return?
func cpReturns(list []ast.Stmt) bool {
	if len(list) == 0 {
		return false
	}
	_, ok := list[len(list)-1].(*ast.ReturnStmt)
	return ok
}

// ---------------------------------------------------------------------------------------------
// the landmark scanners

// cpCallerLandmarks: AsyncCall / Push.
func cpCallerLandmarks(fd *ast.FuncDecl, rv string) (marks []string, cmdVars map[string]bool) {
	cmdVars = map[string]bool{}
	isWrite := func(c *ast.CallExpr) bool { return cpEq(cpChain(c.Fun), rv, "write") }
	isPre := func(c *ast.CallExpr) bool {
		l := cpLast(cpChain(c.Fun))
		return l == "preWriteCall" || l == "preWritePush"
	}
	emit := func(m string, ctx cpCtx) {
		if ctx.inLit || ctx.inGo {
			m = "?closure:" + m
		}
		marks = append(marks, m)
	}
	cpWalk(fd.Body, nil, func(n ast.Node, stack []ast.Node) {
		c, ok := n.(*ast.CallExpr)
		if !ok {
			return
		}
		ctx := cpContext(stack, n)
		ch := cpChain(c.Fun)
		switch {
		case cpIsAtomicAddSeq(c, rv):
			emit("seq.alloc", ctx)
		case cpEq(ch, rv, "graceCallCmdWaitGroup", "Add"):
			emit("callWG.add", ctx)
		case cpEq(ch, rv, "graceCallCmdWaitGroup", "Done"):
			emit("callWG.done", ctx)
		case cpEq(ch, "*", "mu", "Lock"):
			cmdVars[ch[0]] = true
			emit("cmd.mu.lock", ctx)
		case cpEq(ch, "*", "mu", "Unlock"):
			cmdVars[ch[0]] = true
			if ctx.deferred {
				emit("defer cmd.mu.unlock", ctx)
			} else {
				emit("cmd.mu.unlock", ctx)
			}
		case cpEq(ch, rv, "callCmdMap", "Store"):
			if len(c.Args) == 2 {
				if id, ok := c.Args[1].(*ast.Ident); ok {
					cmdVars[id.Name] = true
				}
			}
			emit("table.store", ctx)
		case cpEq(ch, rv, "callCmdMap", "Delete"):
			emit("table.delete", ctx)
		case isPre(c):
			emit("prewrite", ctx)
		case isWrite(c):
			emit("write", ctx)
		case cpLast(ch) == "postWriteCall" || cpLast(ch) == "postWritePush":
			if ctx.cond {
				emit("?cond:postwrite", ctx)
			} else {
				emit("postwrite", ctx)
			}
		case cpEq(ch, "*", "done") || cpEq(ch, "*", "cancel"):
			cmdVars[ch[0]] = true
			branch := "other"
			if len(ctx.ifs) == 0 {
				branch = "unconditional"
			} else {
				in := ctx.ifs[len(ctx.ifs)-1]
				switch {
				case cpContainsCall(in.Init, isWrite) || cpContainsCall(in.Cond, isWrite):
					branch = "write-failure"
				default:
					prev := cpPrevStmt(fd.Body, in)
					wrote := false
					for q, n := prev, 0; q != nil && n < 6; q, n = cpPrevStmt(fd.Body, q), n+1 {
						// the write may stand a few statements earlier in the same block (a retry loop
						// `x = write(); if ok { break }; if <give up> { done; return }`; harmless seed C02-H2)
						if cpContainsCall(q, isWrite) {
							wrote = true
							break
						}
						if cpContainsCall(q, isPre) {
							break
						}
					}
					if wrote {
						branch = "write-failure"
					} else if prev != nil && cpContainsCall(prev, isPre) && cpContainsCall(in.Cond, func(c *ast.CallExpr) bool { return cpLast(cpChain(c.Fun)) == "OK" }) {
						branch = "veto"
					}
				}
				if !cpReturns(in.Body.List) {
					branch += "+no-return"
				}
				if len(ctx.ifs) > 1 {
					branch += "+nested"
				}
			}
			emit(cpLast(ch)+"@"+branch, ctx)
		}
	})
	return
}

// cpLockedAt: is pos inside the region `<rv>.<lock>.Lock(); defer <rv>.<lock>.Unlock(); ...` made of
// top-level statements of fd, with no other Unlock of that lock in fd and no closure around pos?
func cpLockedAt(fd *ast.FuncDecl, rv, lock string, pos token.Pos) bool {
	li, di := -1, -1
	for i, s := range fd.Body.List {
		switch x := s.(type) {
		case *ast.ExprStmt:
			if c, ok := x.X.(*ast.CallExpr); ok && cpEq(cpChain(c.Fun), rv, lock, "Lock") && li < 0 {
				li = i
			}
		case *ast.DeferStmt:
			if cpEq(cpChain(x.Call.Fun), rv, lock, "Unlock") && li >= 0 && di < 0 {
				di = i
			}
		}
	}
	if li < 0 || di < li || pos < fd.Body.List[di].End() {
		return false
	}
	unlocks, inClosure := 0, false
	cpWalk(fd.Body, nil, func(n ast.Node, stack []ast.Node) {
		if c, ok := n.(*ast.CallExpr); ok && cpEq(cpChain(c.Fun), rv, lock, "Unlock") {
			unlocks++
		}
		if n.Pos() <= pos && pos < n.End() {
			switch n.(type) {
			case *ast.FuncLit, *ast.GoStmt:
				inClosure = true
			}
		}
	})
	return unlocks == 1 && !inClosure
}

type cpSite struct{ fn, state string }

// cpWriteMessageSites lists every `.WriteMessage(` call of the package with its lock state; sites in
// an unexported lock-free helper are attributed to the helper's callers (one level).
func cpWriteMessageSites(p *Pkg) []cpSite {
	type raw struct {
		fd  *ast.FuncDecl
		pos token.Pos
	}
	var direct []raw
	decls := map[string]*ast.FuncDecl{}
	var all []*ast.FuncDecl
	for _, f := range p.Files {
		for _, d := range f.Decls {
			fd, ok := d.(*ast.FuncDecl)
			if !ok || fd.Body == nil {
				continue
			}
			all = append(all, fd)
			decls[smFuncName(fd)] = fd
			ast.Inspect(fd.Body, func(n ast.Node) bool {
				if c, ok := n.(*ast.CallExpr); ok {
					if se, ok := c.Fun.(*ast.SelectorExpr); ok && se.Sel.Name == "WriteMessage" {
						direct = append(direct, raw{fd, c.Pos()})
					}
				}
				return true
			})
		}
	}
	var out []cpSite
	for _, r := range direct {
		rv := recvVarName(r.fd)
		name := smFuncName(r.fd)
		if rv != "" && cpLockedAt(r.fd, rv, "writeLock", r.pos) {
			out = append(out, cpSite{name, "locked"})
			continue
		}
		// helper resolution: an unexported function that does not mention the lock at all
		mentions := false
		ast.Inspect(r.fd.Body, func(n ast.Node) bool {
			if se, ok := n.(*ast.SelectorExpr); ok && se.Sel.Name == "writeLock" {
				mentions = true
			}
			return true
		})
		if ast.IsExported(r.fd.Name.Name) || mentions {
			out = append(out, cpSite{name, "unlocked"})
			continue
		}
		callers := 0
		for _, fd := range all {
			crv := recvVarName(fd)
			cpWalk(fd.Body, nil, func(n ast.Node, stack []ast.Node) {
				c, ok := n.(*ast.CallExpr)
				if !ok {
					return
				}
				match := false
				switch fn := c.Fun.(type) {
				case *ast.Ident:
					match = r.fd.Recv == nil && fn.Name == r.fd.Name.Name
				case *ast.SelectorExpr:
					match = r.fd.Recv != nil && fn.Sel.Name == r.fd.Name.Name
				}
				if !match {
					return
				}
				callers++
				if crv != "" && cpLockedAt(fd, crv, "writeLock", c.Pos()) {
					out = append(out, cpSite{smFuncName(fd), "locked"})
				} else {
					out = append(out, cpSite{smFuncName(fd), "unlocked:via " + name})
				}
			})
		}
		if callers == 0 {
			out = append(out, cpSite{name, "unlocked:helper without call site"})
		}
	}
	sort.Slice(out, func(i, j int) bool {
		if out[i].fn != out[j].fn {
			return out[i].fn < out[j].fn
		}
		return out[i].state < out[j].state
	})
	return out
}

// cpWriteLandmarks: session.write. A call of an unexported lock-free helper of the same package that
// contains the WriteMessage call counts as the WriteMessage landmark (one level).
func cpWriteLandmarks(p *Pkg, fd *ast.FuncDecl, rv string) []string {
	var marks []string
	statusVars := map[string]bool{}
	isHelper := func(c *ast.CallExpr) bool {
		var h *ast.FuncDecl
		switch fn := c.Fun.(type) {
		case *ast.Ident:
			h = p.Func("", fn.Name)
		case *ast.SelectorExpr:
			if id, ok := fn.X.(*ast.Ident); ok && id.Name == rv {
				h = p.Func(recvTypeName(fd), fn.Sel.Name)
			}
		}
		if h == nil || h == fd || ast.IsExported(h.Name.Name) {
			return false
		}
		n, lockOps := 0, 0
		ast.Inspect(h.Body, func(x ast.Node) bool {
			if se, ok := x.(*ast.SelectorExpr); ok {
				if se.Sel.Name == "WriteMessage" {
					n++
				}
				if se.Sel.Name == "writeLock" {
					lockOps++
				}
			}
			return true
		})
		return n == 1 && lockOps == 0
	}
	cpWalk(fd.Body, func(n ast.Node, stack []ast.Node) bool {
		// the status check: `if <cond over the loaded status> { return ... }`
		if is, ok := n.(*ast.IfStmt); ok {
			mentions := false
			ast.Inspect(is.Cond, func(x ast.Node) bool {
				if id, ok := x.(*ast.Ident); ok && statusVars[id.Name] {
					mentions = true
				}
				return true
			})
			if mentions {
				if cpReturns(is.Body.List) && len(cpContext(stack, n).ifs) == 0 {
					marks = append(marks, "status.check")
				} else {
					marks = append(marks, "?status.check")
				}
			}
		}
		if as, ok := n.(*ast.AssignStmt); ok && len(as.Lhs) == 1 && len(as.Rhs) == 1 {
			if c, ok := as.Rhs[0].(*ast.CallExpr); ok && (cpEq(cpChain(c.Fun), rv, "getStatus") || cpSuffix(cpChain(c.Fun), "atomic", "LoadInt32")) {
				if id, ok := as.Lhs[0].(*ast.Ident); ok {
					statusVars[id.Name] = true
				}
			}
		}
		return true
	}, func(n ast.Node, stack []ast.Node) {
		c, ok := n.(*ast.CallExpr)
		if !ok {
			return
		}
		ctx := cpContext(stack, n)
		ch := cpChain(c.Fun)
		pre := ""
		if ctx.inLit || ctx.inGo {
			pre = "?closure:"
		}
		switch {
		case cpEq(ch, rv, "getStatus"):
			marks = append(marks, pre+"status.load")
		case cpEq(ch, rv, "writeLock", "Lock"):
			marks = append(marks, pre+"writeLock.lock")
		case cpEq(ch, rv, "writeLock", "Unlock"):
			if ctx.deferred {
				marks = append(marks, pre+"defer writeLock.unlock")
			} else {
				marks = append(marks, pre+"writeLock.unlock")
			}
		case cpLast(ch) == "WriteMessage" || isHelper(c):
			if cpLockedAt(fd, rv, "writeLock", c.Pos()) {
				marks = append(marks, pre+"WriteMessage")
			} else {
				marks = append(marks, pre+"WriteMessage:outside-lock")
			}
		}
	})
	return marks
}

// cpBindReply: lookup key, landmarks, exits.
func cpBindReply(fd *ast.FuncDecl, rv string) (key string, marks []string, exits []string) {
	key = "other:no callCmdMap.Load"
	params := map[string]bool{}
	if fd.Type.Params != nil {
		for _, f := range fd.Type.Params.List {
			for _, n := range f.Names {
				params[n.Name] = true
			}
		}
	}
	// locals that ARE the bound command: `cmd := v.(*callCmd); c.callCmd = cmd` or `cmd := c.callCmd`
	cmdAlias := map[string]bool{}
	ast.Inspect(fd.Body, func(n ast.Node) bool {
		as, ok := n.(*ast.AssignStmt)
		if !ok || len(as.Lhs) != len(as.Rhs) {
			return true
		}
		for i := range as.Lhs {
			if id, ok := as.Rhs[i].(*ast.Ident); ok && cpEq(cpChain(as.Lhs[i]), rv, "callCmd") {
				cmdAlias[id.Name] = true
			}
			if id, ok := as.Lhs[i].(*ast.Ident); ok && cpEq(cpChain(as.Rhs[i]), rv, "callCmd") {
				cmdAlias[id.Name] = true
			}
		}
		return true
	})
	isCmdMu := func(ch []string, op string) bool {
		return cpEq(ch, rv, "callCmd", "mu", op) || (len(ch) == 3 && cmdAlias[ch[0]] && ch[1] == "mu" && ch[2] == op)
	}
	var lockPos token.Pos
	nLoad := 0
	cpWalk(fd.Body, nil, func(n ast.Node, stack []ast.Node) {
		ctx := cpContext(stack, n)
		pre := ""
		if ctx.inLit || ctx.inGo {
			pre = "?closure:"
		}
		switch x := n.(type) {
		case *ast.CallExpr:
			ch := cpChain(x.Fun)
			switch {
			case cpSuffix(ch, "callCmdMap", "Load") && len(x.Args) == 1:
				nLoad++
				k := cpChain(x.Args[0])
				if len(k) == 2 && params[k[0]] && k[1] == "Seq()" {
					key = "param.Seq()"
				} else if cpEq(k, rv, "input", "Seq()") {
					key = "recv.input.Seq()"
				} else {
					key = "other:" + cpText(x.Args[0])
				}
				if nLoad > 1 {
					key = "other:several loads"
				}
				marks = append(marks, pre+"table.load")
			case isCmdMu(ch, "Lock"):
				if ctx.cond {
					marks = append(marks, pre+"?cond:mu.lock")
				} else {
					marks = append(marks, pre+"mu.lock")
					if lockPos == 0 {
						lockPos = x.End()
					}
				}
			case isCmdMu(ch, "Unlock"):
				if ctx.deferred {
					marks = append(marks, pre+"defer mu.unlock")
				} else if ctx.cond {
					marks = append(marks, pre+"mu.unlock@branch")
				} else {
					marks = append(marks, pre+"mu.unlock")
				}
			case cpEq(ch, rv, "callCmd", "done") || cpEq(ch, rv, "callCmd", "cancel"):
				marks = append(marks, pre+cpLast(ch))
			}
		case *ast.AssignStmt:
			for i, l := range x.Lhs {
				if cpEq(cpChain(l), rv, "callCmd") && len(x.Lhs) == len(x.Rhs) {
					if id, ok := x.Rhs[i].(*ast.Ident); ok && id.Name == "nil" {
						marks = append(marks, pre+"unbind")
					} else {
						marks = append(marks, pre+"bind")
					}
				}
			}
		}
	})
	// exits: every return statement outside closures, in source order
	cpWalk(fd.Body, func(n ast.Node, stack []ast.Node) bool {
		_, lit := n.(*ast.FuncLit)
		return !lit
	}, func(n ast.Node, stack []ast.Node) {
		r, ok := n.(*ast.ReturnStmt)
		if !ok {
			return
		}
		if lockPos == 0 || r.Pos() < lockPos {
			exits = append(exits, "before-lock")
			return
		}
		// the straight-line statements between the lock and this return: for every enclosing
		// block, the statements that precede the child leading to the return.
		unlock, unbind, relock := false, false, false
		chainNodes := append(append([]ast.Node{}, stack...), n)
		for i, a := range chainNodes {
			var list []ast.Stmt
			switch b := a.(type) {
			case *ast.BlockStmt:
				list = b.List
			case *ast.CaseClause:
				list = b.Body
			case *ast.CommClause:
				list = b.Body
			default:
				continue
			}
			if i+1 >= len(chainNodes) {
				continue
			}
			child := chainNodes[i+1]
			for _, s := range list {
				if s == child {
					break
				}
				if s.End() <= lockPos {
					continue
				}
				switch y := s.(type) {
				case *ast.ExprStmt:
					if c, ok := y.X.(*ast.CallExpr); ok {
						if isCmdMu(cpChain(c.Fun), "Unlock") {
							unlock = true
						}
						if isCmdMu(cpChain(c.Fun), "Lock") {
							relock = true
						}
					}
				case *ast.AssignStmt:
					for j, l := range y.Lhs {
						if cpEq(cpChain(l), rv, "callCmd") && len(y.Lhs) == len(y.Rhs) {
							if id, ok := y.Rhs[j].(*ast.Ident); ok && id.Name == "nil" {
								unbind = true
							} else {
								unbind = false
							}
						}
					}
				}
			}
		}
		switch {
		case relock:
			exits = append(exits, "after-lock:other:relock")
		case unlock && unbind:
			exits = append(exits, "after-lock:unlock+unbind")
		case !unlock && !unbind:
			exits = append(exits, "after-lock:bound")
		case unlock:
			exits = append(exits, "after-lock:other:unlock-but-still-bound")
		default:
			exits = append(exits, "after-lock:other:unbound-but-locked")
		}
	})
	if n := len(fd.Body.List); n == 0 || !cpReturns(fd.Body.List) {
		exits = append(exits, "other:falls off the end")
	}
	return
}

// cpUncond: is the node an expression statement (or send) directly in `list`?
func cpTopLevel(list []ast.Stmt, pos token.Pos) bool {
	for _, s := range list {
		if s.Pos() <= pos && pos < s.End() {
			switch s.(type) {
			case *ast.ExprStmt, *ast.SendStmt, *ast.AssignStmt:
				return true
			}
			return false
		}
	}
	return false
}

// cpHandleReply: prefix statements, deferred landmarks.
func cpHandleReply(fd *ast.FuncDecl, rv string) (prefix, deferred []string, why string) {
	di := -1
	for i, s := range fd.Body.List {
		if _, ok := s.(*ast.DeferStmt); ok {
			if di >= 0 {
				return nil, nil, "more than one top-level defer"
			}
			di = i
		}
	}
	if di < 0 {
		return nil, nil, "no top-level defer statement"
	}
	for _, s := range fd.Body.List[:di] {
		is, ok := s.(*ast.IfStmt)
		guard := false
		if ok && is.Init == nil && is.Else == nil && len(is.Body.List) == 1 && cpReturns(is.Body.List) {
			if b, ok := is.Cond.(*ast.BinaryExpr); ok && b.Op == token.EQL && cpEq(cpChain(b.X), rv, "callCmd") && cpText(b.Y) == "nil" {
				guard = true
			}
		}
		if guard {
			prefix = append(prefix, "guard:callCmd==nil:return")
		} else {
			prefix = append(prefix, "other:"+fmt.Sprintf("%T", s))
		}
	}
	lit, ok := fd.Body.List[di].(*ast.DeferStmt).Call.Fun.(*ast.FuncLit)
	if !ok {
		return nil, nil, "the deferred call is not a function literal"
	}
	cpWalk(lit.Body, func(n ast.Node, stack []ast.Node) bool {
		if _, ok := n.(*ast.ReturnStmt); ok {
			deferred = append(deferred, "?return")
		}
		return true
	}, func(n ast.Node, stack []ast.Node) {
		c, ok := n.(*ast.CallExpr)
		if !ok {
			return
		}
		ch := cpChain(c.Fun)
		ctx := cpContext(stack, n)
		q := ""
		if ctx.inLit || ctx.inGo || ctx.deferred {
			q = "?"
		}
		switch {
		case cpEq(ch, "recover"):
			deferred = append(deferred, "recover")
		case cpEq(ch, rv, "callCmd", "done"), cpEq(ch, rv, "callCmd", "cancel"):
			if !cpTopLevel(lit.Body.List, c.Pos()) {
				q = "?"
			}
			deferred = append(deferred, q+cpLast(ch))
		case cpEq(ch, rv, "callCmd", "mu", "Unlock"):
			if !cpTopLevel(lit.Body.List, c.Pos()) {
				q = "?"
			}
			deferred = append(deferred, q+"mu.unlock")
		case cpEq(ch, rv, "callCmd", "mu", "Lock"):
			deferred = append(deferred, "?mu.lock")
		}
	})
	return
}

// cpCompletion: callCmd.done / callCmd.cancel. A call of another method of the same receiver (a shared
// tail extracted from both, harmless seed C02-H2) is read in place, one level.
var cpCompletionPkg *Pkg

func cpCompletion(fd *ast.FuncDecl, rv string) []string { return cpCompletionAt(fd, rv, 0) }

func cpCompletionAt(fd *ast.FuncDecl, rv string, depth int) []string {
	var marks []string
	cpWalk(fd.Body, func(n ast.Node, stack []ast.Node) bool {
		if _, ok := n.(*ast.ReturnStmt); ok {
			marks = append(marks, "?return")
		}
		return true
	}, func(n ast.Node, stack []ast.Node) {
		ctx := cpContext(stack, n)
		q := ""
		if ctx.cond || ctx.inLit || ctx.inGo || ctx.deferred {
			q = "?"
		}
		switch x := n.(type) {
		case *ast.SendStmt:
			if cpEq(cpChain(x.Chan), rv, "callCmdChan") {
				marks = append(marks, q+"chan.send")
			} else {
				marks = append(marks, q+"other.send")
			}
		case *ast.CallExpr:
			ch := cpChain(x.Fun)
			switch {
			case cpEq(ch, "close") && len(x.Args) == 1 && cpEq(cpChain(x.Args[0]), rv, "doneChan"):
				marks = append(marks, q+"close.doneChan")
			case cpEq(ch, "close"):
				marks = append(marks, q+"close.other")
			case cpSuffix(ch, "callCmdMap", "Delete"):
				marks = append(marks, q+"table.delete")
			case cpSuffix(ch, "graceCallCmdWaitGroup", "Done"):
				marks = append(marks, q+"callWG.done")
			case cpSuffix(ch, "graceCallCmdWaitGroup", "Add"):
				marks = append(marks, q+"callWG.add")
			case cpEq(ch, rv, "done") || cpEq(ch, rv, "cancel"):
				marks = append(marks, q+"recursive:"+cpLast(ch))
			case len(ch) == 2 && ch[0] == rv && depth == 0 && cpCompletionPkg != nil:
				if h := cpCompletionPkg.Func("callCmd", ch[1]); h != nil && recvVarName(h) != "" {
					for _, m := range cpCompletionAt(h, recvVarName(h), depth+1) {
						if q == "?" && !strings.HasPrefix(m, "?") {
							m = "?" + m
						}
						marks = append(marks, m)
					}
				}
			}
		}
	})
	return marks
}

// ---------------------------------------------------------------------------------------------

func genCallPath(r *Repo, l *Lean) {
	p := r.Pkg("")
	if p.Err != nil || len(p.Files) == 0 {
		l.Missing("callpath_parse", "root package does not parse")
		return
	}
	need := func(recv, name string) (*ast.FuncDecl, string) {
		fd := p.Func(recv, name)
		if fd == nil {
			l.Missing(leanIdent(recv+"_"+name)+"_found", "method "+recv+"."+name+" not found exactly once in the root package")
			return nil, ""
		}
		rv := recvVarName(fd)
		if rv == "" {
			l.Missing(leanIdent(recv+"_"+name)+"_found", "method "+recv+"."+name+" has an unnamed receiver")
			return nil, ""
		}
		return fd, rv
	}

	// --- AsyncCall
	if fd, rv := need("session", "AsyncCall"); fd != nil {
		marks, cmdVars := cpCallerLandmarks(fd, rv)
		if len(cmdVars) > 1 {
			var vs []string
			for v := range cmdVars {
				vs = append(vs, v)
			}
			sort.Strings(vs)
			l.Missing("asyncCall_landmarks", "AsyncCall: the mutex, the stored table value and done() are not on one variable: "+strings.Join(vs, ","))
		} else {
			l.StrList("asyncCall_landmarks", "landmark statements of session.AsyncCall: seq.alloc = atomic.AddInt32(&s.seq,1), callWG.add, cmd.mu.lock, defer cmd.mu.unlock, table.store = s.callCmdMap.Store, prewrite = preWriteCall, write = s.write, done@<branch>, postwrite", marks)
		}
		src, carrier := cpSeqSource(fd, rv)
		l.StrList("asyncCall_seq_source", "how the argument of the single output.SetSeq(...) of AsyncCall is obtained", []string{src})
		key := "other:no store"
		ast.Inspect(fd.Body, func(n ast.Node) bool {
			if c, ok := n.(*ast.CallExpr); ok && cpEq(cpChain(c.Fun), rv, "callCmdMap", "Store") && len(c.Args) == 2 {
				if id, ok := c.Args[0].(*ast.Ident); ok && carrier != "" && id.Name == carrier {
					key = "the sequence variable"
				} else if k := cpChain(c.Args[0]); len(k) == 2 && k[1] == "Seq()" {
					key = "message.Seq()"
				} else {
					key = "other:" + cpText(c.Args[0])
				}
			}
			return true
		})
		l.StrList("asyncCall_store_key", "key argument of s.callCmdMap.Store in AsyncCall", []string{key})
		l.Nat("asyncCall_seq_refs", "number of syntactic references to the receiver's seq field in AsyncCall (1 = only inside the atomic add)", cpCountFieldRefs(fd.Body, rv, "seq"))
	}
	// --- Push
	if fd, rv := need("session", "Push"); fd != nil {
		marks, _ := cpCallerLandmarks(fd, rv)
		l.StrList("push_landmarks", "landmark statements of session.Push", marks)
		src, _ := cpSeqSource(fd, rv)
		l.StrList("push_seq_source", "how the argument of the single output.SetSeq(...) of Push is obtained", []string{src})
		l.Nat("push_seq_refs", "number of syntactic references to the receiver's seq field in Push", cpCountFieldRefs(fd.Body, rv, "seq"))
	}
	// --- write
	if fd, rv := need("session", "write"); fd != nil {
		l.StrList("write_landmarks", "landmark statements of session.write: status.load = s.getStatus(), status.check = the refusing if, writeLock.lock, defer writeLock.unlock, WriteMessage = s.socket.WriteMessage (or a lock-free helper around it) lexically inside the locked region", cpWriteLandmarks(p, fd, rv))
	}
	sites := cpWriteMessageSites(p)
	if len(sites) == 0 {
		l.Missing("writeMessage_sites", "no .WriteMessage( call found in the root package")
	} else {
		var rows []string
		for _, s := range sites {
			rows = append(rows, "("+leanStr(s.fn)+", "+leanStr(s.state)+")")
		}
		l.add("writeMessage_sites", "(function, lock state) of every .WriteMessage( call of the root package; a call inside an unexported lock-free helper is attributed to the helper's call sites; sorted", "List (String × String)", "["+strings.Join(rows, ", ")+"]")
	}
	// --- bindReply
	if fd, rv := need("handlerCtx", "bindReply"); fd != nil {
		key, marks, exits := cpBindReply(fd, rv)
		l.StrList("bindReply_lookup_key", "key expression of callCmdMap.Load in bindReply (param = the header parameter)", []string{key})
		l.StrList("bindReply_landmarks", "table.load, bind (c.callCmd = <loaded>), mu.lock, mu.unlock@branch, unbind (c.callCmd = nil) in bindReply", marks)
		l.StrList("bindReply_exits", "every return of bindReply: before-lock | after-lock:unlock+unbind (the frame is dropped, handleReply will see callCmd == nil) | after-lock:bound (the mutex stays held for handleReply)", exits)
	}
	// --- handleReply
	if fd, rv := need("handlerCtx", "handleReply"); fd != nil {
		prefix, deferred, why := cpHandleReply(fd, rv)
		if why != "" {
			l.Missing("handleReply_deferred", "handleReply: "+why)
		} else {
			l.StrList("handleReply_prefix", "statements of handleReply before its defer", prefix)
			l.StrList("handleReply_deferred", "landmarks of handleReply's deferred function (`?` = not an unconditional statement of it)", deferred)
		}
	}
	// --- done / cancel
	cpCompletionPkg = p
	for _, m := range []string{"done", "cancel"} {
		if fd, rv := need("callCmd", m); fd != nil {
			l.StrList("callCmd_"+m, "landmarks of callCmd."+m+" (`?` = conditional)", cpCompletion(fd, rv))
		}
	}
	// --- finishBoundReply
	if fd, rv := need("handlerCtx", "finishBoundReply"); fd != nil {
		var marks []string
		for _, s := range fd.Body.List {
			switch x := s.(type) {
			case *ast.IfStmt:
				if b, ok := x.Cond.(*ast.BinaryExpr); ok && b.Op == token.EQL && cpEq(cpChain(b.X), rv, "callCmd") && cpText(b.Y) == "nil" && cpReturns(x.Body.List) {
					marks = append(marks, "guard:callCmd==nil:return")
				} else if cpContainsCall(x, func(c *ast.CallExpr) bool { return cpEq(cpChain(c.Fun), rv, "handleReply") }) {
					marks = append(marks, "?cond:handleReply")
				} else {
					ast.Inspect(x, func(n ast.Node) bool {
						if _, ok := n.(*ast.ReturnStmt); ok {
							marks = append(marks, "?return")
						}
						return true
					})
				}
			case *ast.ExprStmt:
				if c, ok := x.X.(*ast.CallExpr); ok && cpEq(cpChain(c.Fun), rv, "handleReply") {
					marks = append(marks, "handleReply")
				}
			case *ast.ReturnStmt:
				marks = append(marks, "?return")
			}
		}
		l.StrList("finishBoundReply_landmarks", "the nil guard and the unconditional c.handleReply() of finishBoundReply", marks)
	}
	if fd, _ := need("session", "startReadAndHandle"); fd != nil {
		var sites []string
		cpWalk(fd.Body, nil, func(n ast.Node, stack []ast.Node) {
			c, ok := n.(*ast.CallExpr)
			if !ok || cpLast(cpChain(c.Fun)) != "finishBoundReply" {
				return
			}
			where := "loop"
			inDefer, afterRecover, goFail, leave := false, false, false, false
			for i, a := range stack {
				switch x := a.(type) {
				case *ast.DeferStmt:
					inDefer = true
				case *ast.IfStmt:
					var child ast.Node = n
					if i+1 < len(stack) {
						child = stack[i+1]
					}
					if child == ast.Node(x.Body) {
						if cpContainsCall(x.Init, func(c *ast.CallExpr) bool { return cpEq(cpChain(c.Fun), "recover") }) {
							afterRecover = true
						}
						if cpContainsCall(x.Cond, func(c *ast.CallExpr) bool { return cpEq(cpChain(c.Fun), "Go") }) {
							goFail = true
						}
						if cpReturns(x.Body.List) {
							leave = true
						}
					}
				}
			}
			switch {
			case inDefer && afterRecover:
				where = "deferred:after-recover"
			case goFail:
				where = "loop:handle-not-spawned"
			case leave:
				where = "loop:leaving"
			}
			sites = append(sites, where)
		})
		l.StrList("finishBoundReply_sites", "call sites of finishBoundReply in session.startReadAndHandle", sites)
	}
}
