package main

// Fact group `RouterFacts` (property C10): the parts of router.go that Model/Router hard-codes.
//
//	router_mappers        (mapper, normalised result expression): parameters are $1,$2, single-assignment
//	                      locals are inlined — `path.Join("/",$1,toServiceMethods($2,'/',true))`
//	router_tsm_args       (mapper, separator, toSnake) of the toServiceMethods call inside each mapper (evaluated)
//	router_default_mapper initial value of globalServiceMethodMapper
//	router_mapper_calls   (function, nesting) of every outermost call of globalServiceMethodMapper in router.go:
//	                      `M(M(p0,call:ctrlStructName),.Name)`; p<i> = i-th parameter, $.f = receiver field,
//	                      call:<f> = result of f, .<Sel> = a field of a local, "…" = literal
//	router_reg_table      (Route function, handler-type constant VALUE, map read, map written, loop shape): the
//	                      map is selected by EXECUTING reg's selection statement on the constant; loop shape =
//	                      `loops:<n>;` + the order of `read` (lookup of the name), `fatal-if:present|absent`
//	                      and `write` (insert under the name) inside the one loop over the new handlers
//	router_slots          (function, field, how): the handler maps and the unknown-handler slots —
//	                      declared type, `fresh` in newRouter, `share:<field>` / `fresh` / `other:…` in SubRoute,
//	                      `write-through` in SetUnknownCall/Push
//	router_get            (function, landmarks) of getCall / getPush: `lookup:<map>`, `hit:return`,
//	                      `fallback:*<slot>`, `nonnil:return`, `miss:nil,false`

import (
	"fmt"
	"go/ast"
	"go/token"
	"sort"
	"strings"
)

func init() {
	register(Group{
		Name: "RouterFacts",
		Doc:  "router.go: the two service-method mappers (separator, snake flag, join), where the mapper is applied (nesting for controller structs), which handler map each Route* function checks and writes and in which order (conflict check before insert, per name, inside one loop), how SubRoute shares the maps and the unknown-handler slots, the lookup/fallback shape of getCall/getPush. Consumed by C10_router_mappers, C10_router_reg, C10_router_slots.",
		Gen:  genRouterFacts,
	})
}

// rfAliases: single-assignment locals of a function body (name -> rhs).
func rfAliases(body *ast.BlockStmt) map[string]ast.Expr {
	cnt := map[string]int{}
	rhs := map[string]ast.Expr{}
	ast.Inspect(body, func(n ast.Node) bool {
		switch v := n.(type) {
		case *ast.AssignStmt:
			for i, l := range v.Lhs {
				if id, ok := l.(*ast.Ident); ok {
					cnt[id.Name]++
					if len(v.Lhs) == len(v.Rhs) {
						rhs[id.Name] = v.Rhs[i]
					} else {
						cnt[id.Name] += 5
					}
				}
			}
		case *ast.ValueSpec:
			for i, id := range v.Names {
				cnt[id.Name]++
				if i < len(v.Values) {
					rhs[id.Name] = v.Values[i]
				} else {
					cnt[id.Name] += 5 // declared without a value: assigned later, not an alias
				}
			}
		case *ast.IncDecStmt:
			if id, ok := v.X.(*ast.Ident); ok {
				cnt[id.Name] += 5
			}
		}
		return true
	})
	out := map[string]ast.Expr{}
	for n, c := range cnt {
		if c == 1 && rhs[n] != nil {
			out[n] = rhs[n]
		}
	}
	return out
}

func rfParams(fd *ast.FuncDecl) map[string]int {
	m := map[string]int{}
	k := 0
	if fd.Type.Params != nil {
		for _, f := range fd.Type.Params.List {
			for _, n := range f.Names {
				m[n.Name] = k
				k++
			}
		}
	}
	return m
}

// rfExpr renders an expression with parameters as $<i+1> and aliases inlined.
func rfExpr(e ast.Expr, params map[string]int, al map[string]ast.Expr, depth int) string {
	switch v := e.(type) {
	case *ast.ParenExpr:
		return rfExpr(v.X, params, al, depth)
	case *ast.Ident:
		if i, ok := params[v.Name]; ok {
			return fmt.Sprintf("$%d", i+1)
		}
		if r, ok := al[v.Name]; ok && depth < 4 {
			return rfExpr(r, params, al, depth+1)
		}
		return v.Name
	case *ast.BasicLit:
		return v.Value
	case *ast.SelectorExpr:
		return rfExpr(v.X, params, al, depth) + "." + v.Sel.Name
	case *ast.BinaryExpr:
		return rfExpr(v.X, params, al, depth) + v.Op.String() + rfExpr(v.Y, params, al, depth)
	case *ast.CallExpr:
		var as []string
		for _, a := range v.Args {
			as = append(as, rfExpr(a, params, al, depth))
		}
		return rfExpr(v.Fun, params, al, depth) + "(" + strings.Join(as, ",") + ")"
	}
	return fmt.Sprintf("<%T>", e)
}

const rfMapperVar = "globalServiceMethodMapper"

func genRouterFacts(r *Repo, l *Lean) {
	p := r.Pkg("")
	if p.Err != nil || len(p.Files) == 0 {
		l.Missing("router_parse", "root package does not parse")
		return
	}
	env := cvNewEnv(r, "")

	// ---- mappers
	{
		var rows, args [][]string
		ok := true
		for _, fn := range []string{"HTTPServiceMethodMapper", "RPCServiceMethodMapper"} {
			fd := p.Func("", fn)
			if fd == nil || len(fd.Body.List) == 0 {
				l.Missing("router_mappers", fn+" not found")
				ok = false
				break
			}
			rs, isRet := fd.Body.List[len(fd.Body.List)-1].(*ast.ReturnStmt)
			if !isRet || len(rs.Results) != 1 {
				l.Missing("router_mappers", fn+": does not end in a single-value return")
				ok = false
				break
			}
			for _, s := range fd.Body.List[:len(fd.Body.List)-1] {
				if _, isAssign := s.(*ast.AssignStmt); !isAssign {
					if _, isDecl := s.(*ast.DeclStmt); !isDecl {
						l.Missing("router_mappers", fn+": statement other than an assignment before the return")
						ok = false
					}
				}
			}
			if !ok {
				break
			}
			params := rfParams(fd)
			rows = append(rows, []string{fn, rfExpr(rs.Results[0], params, rfAliases(fd.Body), 0)})
			n := 0
			ast.Inspect(fd.Body, func(nd ast.Node) bool {
				c, isCall := nd.(*ast.CallExpr)
				if !isCall || flCalleeName(c) != "toServiceMethods" || len(c.Args) != 3 {
					return true
				}
				sep, ok1 := env.eval(c.Args[1], 0, nil)
				snake := flRaw(c.Args[2])
				if id, isId := c.Args[0].(*ast.Ident); ok1 && !sep.isStr && isId && params[id.Name] == 1 && (snake == "true" || snake == "false") {
					args = append(args, []string{fn, fmt.Sprint(sep.i), snake})
					n++
				}
				return true
			})
			if n != 1 {
				l.Missing("router_tsm_args", fn+": exactly one toServiceMethods(name, <const>, <bool>) call expected")
				ok = false
				break
			}
		}
		if ok {
			l.add("router_mappers", "(mapper, result expression; $1 = prefix, $2 = name, locals inlined); sorted", "List (String × String)", flSortedRows(rows))
			var out []string
			for _, a := range args {
				out = append(out, fmt.Sprintf("(%s, %s, %s)", leanStr(a[0]), a[1], a[2]))
			}
			l.add("router_tsm_args", "(mapper, separator, toSnake) passed to toServiceMethods", "List (String × Nat × Bool)", ccRows(out))
		}
		if x, has := env.vars[rfMapperVar]; has {
			l.add("router_default_mapper", "initial value of globalServiceMethodMapper", "String", leanStr(flRaw(x)))
		} else {
			l.Missing("router_default_mapper", "globalServiceMethodMapper not found")
		}
	}

	// ---- where the mapper is applied
	{
		var rows [][]string
		for _, f := range p.Files {
			for _, d := range f.Decls {
				fd, ok := d.(*ast.FuncDecl)
				if !ok || fd.Body == nil {
					continue
				}
				params := rfParams(fd)
				al := rfAliases(fd.Body)
				rv := recvVarName(fd)
				var render func(e ast.Expr, depth int) string
				render = func(e ast.Expr, depth int) string {
					switch v := flUnparen(e).(type) {
					case *ast.BasicLit:
						return v.Value
					case *ast.Ident:
						if i, ok := params[v.Name]; ok {
							return fmt.Sprintf("p%d", i)
						}
						if rr, ok := al[v.Name]; ok && depth < 4 {
							return render(rr, depth+1)
						}
						return "?" + v.Name
					case *ast.SelectorExpr:
						if rv != "" && flRaw(v.X) == rv {
							return "$." + v.Sel.Name
						}
						return "." + v.Sel.Name
					case *ast.CallExpr:
						if flRaw(v.Fun) == rfMapperVar {
							var as []string
							for _, a := range v.Args {
								as = append(as, render(a, depth))
							}
							return "M(" + strings.Join(as, ",") + ")"
						}
						return "call:" + flCalleeName(v)
					}
					return "?"
				}
				inner := map[*ast.CallExpr]bool{}
				ast.Inspect(fd.Body, func(n ast.Node) bool {
					c, ok := n.(*ast.CallExpr)
					if !ok || flRaw(c.Fun) != rfMapperVar {
						return true
					}
					for _, a := range c.Args {
						ast.Inspect(a, func(m ast.Node) bool {
							if cc, ok := m.(*ast.CallExpr); ok && flRaw(cc.Fun) == rfMapperVar {
								inner[cc] = true
							}
							return true
						})
					}
					return true
				})
				ast.Inspect(fd.Body, func(n ast.Node) bool {
					c, ok := n.(*ast.CallExpr)
					if ok && flRaw(c.Fun) == rfMapperVar && !inner[c] {
						rows = append(rows, []string{smFuncName(fd), render(c, 0)})
					}
					return true
				})
			}
		}
		if len(rows) == 0 {
			l.Missing("router_mapper_calls", "no call of globalServiceMethodMapper found")
		} else {
			l.add("router_mapper_calls", "(function, nesting of the mapper applications); sorted set", "List (String × String)", flSortedRows(rows))
		}
	}

	genRouterReg(p, env, l)
	genRouterSlots(p, l)
}

// rfMapField: `<recv>.<field>` → field
func rfRecvField(e ast.Expr, rv string) string {
	if sel, ok := flUnparen(e).(*ast.SelectorExpr); ok && rv != "" && flRaw(sel.X) == rv {
		return sel.Sel.Name
	}
	return ""
}

func genRouterReg(p *Pkg, env *cvEnv, l *Lean) {
	reg := p.Func("SubRouter", "reg")
	if reg == nil {
		l.Missing("router_reg_table", "SubRouter.reg not found")
		return
	}
	rv := recvVarName(reg)
	params := rfParams(reg)
	var typeParam string
	for n, i := range params {
		if i == 0 {
			typeParam = n
		}
	}
	// the range loops over the handler list (the first result of the maker call)
	al := rfAliases(reg.Body)
	var loops []*ast.RangeStmt
	ast.Inspect(reg.Body, func(n ast.Node) bool {
		if rs, ok := n.(*ast.RangeStmt); ok {
			loops = append(loops, rs)
		}
		return true
	})
	// map selection: execute the top-level statements that assign a local from <recv>.<field>
	selectMap := func(typeVal string) (string, string) {
		loc := map[string]cv{typeParam: {isStr: true, s: typeVal}}
		vars := map[string]string{}
		var run func(list []ast.Stmt) bool
		run = func(list []ast.Stmt) bool {
			for _, s := range list {
				switch v := s.(type) {
				case *ast.AssignStmt:
					if len(v.Lhs) == 1 && len(v.Rhs) == 1 {
						if f := rfRecvField(v.Rhs[0], rv); f != "" && strings.HasSuffix(f, "Handlers") {
							vars[flRaw(v.Lhs[0])] = f
						}
					}
				case *ast.IfStmt:
					if v.Init != nil {
						continue
					}
					b, ok := env.cond(v.Cond, loc)
					if !ok {
						continue // a condition about something else
					}
					if b {
						if !run(v.Body.List) {
							return false
						}
					} else if v.Else != nil {
						switch e := v.Else.(type) {
						case *ast.BlockStmt:
							if !run(e.List) {
								return false
							}
						case *ast.IfStmt:
							if !run([]ast.Stmt{e}) {
								return false
							}
						}
					}
				case *ast.SwitchStmt:
					if v.Init != nil || v.Tag == nil {
						continue
					}
					t, ok := env.eval(v.Tag, 0, loc)
					if !ok {
						continue
					}
					var def, hit []ast.Stmt
					found := false
					for _, cl := range v.Body.List {
						cc := cl.(*ast.CaseClause)
						if cc.List == nil {
							def = cc.Body
							continue
						}
						for _, x := range cc.List {
							if c, ok := env.eval(x, 0, loc); ok && c == t && !found {
								hit, found = cc.Body, true
							}
						}
					}
					if !found {
						hit = def
					}
					if !run(hit) {
						return false
					}
				}
			}
			return true
		}
		run(reg.Body.List)
		resolve := func(e ast.Expr) string {
			if f := rfRecvField(e, rv); f != "" {
				return f
			}
			if f, ok := vars[flRaw(e)]; ok {
				return f
			}
			return "?" + flRaw(e)
		}
		// loop shape
		nLoops := 0
		var shape []string
		readMap, writeMap := "?", "?"
		for _, lp := range loops {
			x := flRaw(lp.X)
			if _, isAlias := al[x]; !isAlias && x != "handlers" {
				// loops over something else (e.g. the existing table) are reported too
			}
			nLoops++
			var hv string
			if id, ok := lp.Value.(*ast.Ident); ok {
				hv = id.Name
			}
			lal := rfAliases(lp.Body)
			isName := func(e ast.Expr) bool {
				sel, ok := flUnparen(e).(*ast.SelectorExpr)
				if !ok || hv == "" || sel.Sel.Name != "name" {
					return false
				}
				x := flRaw(sel.X)
				if a, isAlias := lal[x]; isAlias {
					x = flRaw(a) // `h := hd` inside the loop
				}
				return x == hv
			}
			type ev struct {
				pos token.Pos
				s   string
			}
			var evs []ev
			written := map[*ast.IndexExpr]bool{}
			ast.Inspect(lp.Body, func(n ast.Node) bool {
				switch v := n.(type) {
				case *ast.AssignStmt:
					for _, lh := range v.Lhs {
						if ix, ok := lh.(*ast.IndexExpr); ok && isName(ix.Index) && v.Tok == token.ASSIGN {
							written[ix] = true
							writeMap = resolve(ix.X)
							evs = append(evs, ev{ix.Pos(), "write"})
						}
					}
				case *ast.IfStmt:
					// polarity of a Fatalf under this if
					okVar := ""
					if as, ok := v.Init.(*ast.AssignStmt); ok && len(as.Lhs) == 2 {
						okVar = flRaw(as.Lhs[1])
					}
					hasFatal := func(list []ast.Stmt) bool {
						f := false
						for _, s := range list {
							ast.Inspect(s, func(m ast.Node) bool {
								if c, ok := m.(*ast.CallExpr); ok && (flCalleeName(c) == "Fatalf" || flCalleeName(c) == "panic") {
									f = true
								}
								return true
							})
						}
						return f
					}
					if okVar != "" {
						pol := flPolarity(v.Cond, func(e ast.Expr) bool { return flRaw(e) == okVar })
						inBody := hasFatal(v.Body.List)
						inElse := false
						if eb, ok := v.Else.(*ast.BlockStmt); ok {
							inElse = hasFatal(eb.List)
						}
						switch {
						case inBody && flRaw(flUnparen(v.Cond)) == okVar, inElse && flRaw(flUnparen(v.Cond)) == "!"+okVar:
							evs = append(evs, ev{v.Body.Pos(), "fatal-if:present"})
						case inBody && flRaw(flUnparen(v.Cond)) == "!"+okVar, inElse && flRaw(flUnparen(v.Cond)) == okVar:
							evs = append(evs, ev{v.Body.Pos(), "fatal-if:absent"})
						case inBody || inElse:
							evs = append(evs, ev{v.Body.Pos(), "fatal-if:?" + pol})
						}
					}
				}
				return true
			})
			ast.Inspect(lp.Body, func(n ast.Node) bool {
				if ix, ok := n.(*ast.IndexExpr); ok && isName(ix.Index) && !written[ix] {
					readMap = resolve(ix.X)
					evs = append(evs, ev{ix.Pos(), "read"})
				}
				return true
			})
			sort.Slice(evs, func(i, j int) bool { return evs[i].pos < evs[j].pos })
			for _, e := range evs {
				shape = append(shape, e.s)
			}
			if nLoops < len(loops) {
				shape = append(shape, "|")
			}
		}
		return readMap + ">" + writeMap, fmt.Sprintf("loops:%d;%s", nLoops, strings.Join(shape, ","))
	}

	var rows [][]string
	for _, fn := range []string{"RouteCall", "RouteCallFunc", "RoutePush", "RoutePushFunc"} {
		fd := p.Func("SubRouter", fn)
		if fd == nil {
			l.Missing("router_reg_table", "SubRouter."+fn+" not found")
			return
		}
		var call *ast.CallExpr
		n := 0
		ast.Inspect(fd.Body, func(nd ast.Node) bool {
			if c, ok := nd.(*ast.CallExpr); ok && flCalleeName(c) == "reg" && len(c.Args) == 4 {
				call = c
				n++
			}
			return true
		})
		if n != 1 {
			l.Missing("router_reg_table", "SubRouter."+fn+": exactly one call of reg expected")
			return
		}
		tv, ok := env.eval(call.Args[0], 0, nil)
		if !ok || !tv.isStr {
			l.Missing("router_reg_table", "SubRouter."+fn+": handler type argument is not a constant")
			return
		}
		maps, shape := selectMap(tv.s)
		parts := strings.SplitN(maps, ">", 2)
		rows = append(rows, []string{fn, tv.s, flRaw(call.Args[1]), parts[0], parts[1], shape})
		// the Router method must delegate to the SubRouter method of the same name
		if rfd := p.Func("Router", fn); rfd != nil {
			deleg := false
			ast.Inspect(rfd.Body, func(nd ast.Node) bool {
				if c, ok := nd.(*ast.CallExpr); ok {
					if sel, ok := c.Fun.(*ast.SelectorExpr); ok && sel.Sel.Name == fn && strings.HasSuffix(flRaw(sel.X), ".subRouter") {
						deleg = true
					}
				}
				return true
			})
			if !deleg {
				l.Missing("router_reg_table", "Router."+fn+" does not delegate to its subRouter")
				return
			}
		}
	}
	l.add("router_reg_table", "(Route function, handler type constant, handler maker, map whose name lookup guards the insert, map written, loop shape) — reg's map selection executed on the constant", "List (String × String × String × String × String × String)", flSortedRows(rows))
}

func genRouterSlots(p *Pkg, l *Lean) {
	var rows [][]string
	st := p.Struct("SubRouter")
	if st == nil {
		l.Missing("router_slots", "struct SubRouter not found")
		return
	}
	watched := map[string]bool{"callHandlers": true, "pushHandlers": true, "unknownCall": true, "unknownPush": true}
	for _, f := range st.Fields.List {
		for _, n := range f.Names {
			if watched[n.Name] {
				rows = append(rows, []string{"SubRouter.type", n.Name, caTypeString(f.Type)})
			}
		}
	}
	litFields := func(fd *ast.FuncDecl, who string, rv string) bool {
		var lit *ast.CompositeLit
		n := 0
		ast.Inspect(fd.Body, func(nd ast.Node) bool {
			if cl, ok := nd.(*ast.CompositeLit); ok && cl.Type != nil && flBaseType(cl.Type) == "SubRouter" {
				lit = cl
				n++
			}
			return true
		})
		if n != 1 {
			l.Missing("router_slots", who+": exactly one SubRouter literal expected")
			return false
		}
		al := rfAliases(fd.Body)
		seen := map[string]bool{}
		for _, el := range lit.Elts {
			kv, ok := el.(*ast.KeyValueExpr)
			if !ok {
				l.Missing("router_slots", who+": SubRouter literal without field names")
				return false
			}
			k := flRaw(kv.Key)
			if !watched[k] {
				continue
			}
			seen[k] = true
			v := flUnparen(kv.Value)
			for i := 0; i < 3; i++ {
				if id, ok := v.(*ast.Ident); ok && al[id.Name] != nil {
					v = flUnparen(al[id.Name])
				}
			}
			how := "other:" + flRaw(v)
			if f := rfRecvField(v, rv); f != "" {
				how = "share:" + f
			} else if c, ok := v.(*ast.CallExpr); ok && (flCalleeName(c) == "make" || flCalleeName(c) == "new") {
				how = "fresh"
			} else if u, ok := v.(*ast.UnaryExpr); ok && u.Op == token.AND {
				how = "fresh"
			}
			rows = append(rows, []string{who, k, how})
		}
		for k := range watched {
			if !seen[k] {
				rows = append(rows, []string{who, k, "zero"})
			}
		}
		return true
	}
	nr := p.Func("", "newRouter")
	sr := p.Func("SubRouter", "SubRoute")
	if nr == nil || sr == nil {
		l.Missing("router_slots", "newRouter / SubRouter.SubRoute not found")
		return
	}
	if !litFields(nr, "newRouter", "") || !litFields(sr, "SubRouter.SubRoute", recvVarName(sr)) {
		return
	}
	for _, t := range []struct{ fn, slot string }{{"SetUnknownCall", "unknownCall"}, {"SetUnknownPush", "unknownPush"}} {
		fd := p.Func("Router", t.fn)
		if fd == nil {
			l.Missing("router_slots", "Router."+t.fn+" not found")
			return
		}
		var hows []string
		al := rfAliases(fd.Body)
		ast.Inspect(fd.Body, func(nd ast.Node) bool {
			as, ok := nd.(*ast.AssignStmt)
			if !ok || as.Tok != token.ASSIGN {
				return true
			}
			for _, lh := range as.Lhs {
				raw := flRaw(lh)
				// `slot := r.subRouter.unknownCall; *slot = h` is the same write-through as `*r.subRouter.unknownCall = h`
				if st, isStar := flUnparen(lh).(*ast.StarExpr); isStar {
					if id, isId := flUnparen(st.X).(*ast.Ident); isId && al[id.Name] != nil {
						raw = "*" + flRaw(al[id.Name])
					}
				}
				for k := range watched {
					if strings.HasSuffix(raw, "."+k) {
						if _, isStar := flUnparen(lh).(*ast.StarExpr); isStar {
							hows = append(hows, k+"=write-through")
						} else {
							hows = append(hows, k+"=rebind")
						}
					}
				}
			}
			return true
		})
		sort.Strings(hows)
		if len(hows) == 0 {
			hows = []string{"none"}
		}
		rows = append(rows, []string{"Router." + t.fn, t.slot, strings.Join(hows, ",")})
	}
	l.add("router_slots", "(function, field, how): declared type; fresh / share:<receiver field> / other in the SubRouter literals of newRouter and SubRoute; write-through (`*slot = h`) or rebind in SetUnknownCall/Push; sorted set", "List (String × String × String)", flSortedRows(rows))

	// getCall / getPush
	var gets [][]string
	for _, fn := range []string{"getCall", "getPush"} {
		fd := p.Func("SubRouter", fn)
		if fd == nil {
			l.Missing("router_get", "SubRouter."+fn+" not found")
			return
		}
		rv := recvVarName(fd)
		type ev struct {
			pos token.Pos
			s   string
		}
		var evs []ev
		body := fd.Body
		field := func(e ast.Expr) string { return rfRecvField(e, rv) }
		// `return lookupHandler(r.callHandlers, r.unknownCall, uriPath)`: the body of the shared helper is
		// read with its parameters bound to the receiver fields passed in (harmless seed C10-H2)
		if len(fd.Body.List) == 1 {
			if rs, ok := fd.Body.List[0].(*ast.ReturnStmt); ok && len(rs.Results) == 1 {
				if call, ok := flUnparen(rs.Results[0]).(*ast.CallExpr); ok {
					if id, ok := flUnparen(call.Fun).(*ast.Ident); ok {
						if h := p.Func("", id.Name); h != nil && h.Type.Params != nil {
							bind := map[string]string{}
							i := 0
							for _, fld := range h.Type.Params.List {
								for _, nm := range fld.Names {
									if i < len(call.Args) {
										if f := rfRecvField(call.Args[i], rv); f != "" {
											bind[nm.Name] = f
										}
									}
									i++
								}
							}
							body = h.Body
							field = func(e ast.Expr) string {
								if id, ok := flUnparen(e).(*ast.Ident); ok {
									return bind[id.Name]
								}
								return ""
							}
						}
					}
				}
			}
		}
		ast.Inspect(body, func(nd ast.Node) bool {
			switch v := nd.(type) {
			case *ast.IndexExpr:
				if f := field(v.X); f != "" {
					evs = append(evs, ev{v.Pos(), "lookup:" + f})
				}
			case *ast.StarExpr:
				if f := field(v.X); f != "" {
					evs = append(evs, ev{v.Pos(), "deref:" + f})
				}
			case *ast.ReturnStmt:
				if len(v.Results) == 2 {
					a, b := flRaw(v.Results[0]), flRaw(v.Results[1])
					if a != "nil" {
						a = "h"
					}
					evs = append(evs, ev{v.Pos(), "return:" + a + "," + b})
				}
			}
			return true
		})
		sort.Slice(evs, func(i, j int) bool { return evs[i].pos < evs[j].pos })
		// canonical form: the lookup, the returns that stand before the dereference of the shared slot
		// (the hit path must not read it), the dereference, the returns after it - each group of
		// returns as a sorted set, so swapping the two tail branches does not change the fact
		var ss, grp []string
		flush := func() {
			sort.Strings(grp)
			if len(grp) > 0 {
				ss = append(ss, "return:"+strings.Join(grp, "|"))
			}
			grp = nil
		}
		for _, e := range evs {
			if strings.HasPrefix(e.s, "return:") {
				grp = append(grp, strings.TrimPrefix(e.s, "return:"))
				continue
			}
			flush()
			ss = append(ss, e.s)
		}
		flush()
		gets = append(gets, []string{fn, strings.Join(ss, ";")})
	}
	l.add("router_get", "(function, landmarks in source order) of getCall / getPush: map lookup, dereference of the unknown slot, returns", "List (String × String)", flSortedRows(gets))
}
