package main

// Fact group `Callers` (property C14, data-race freedom — PARTIAL claim): turns the *naming* of
// functions in the declared guard map (lean/Teleport/Model/Conc.lean, `guardOf`: lists `heldIn`,
// `afterDone`, `ctors`) into regenerated facts.
//
// The names are listed below in `callerTargets` with their role; `callerTargets` is emitted and a
// Lean theorem (C14_trusted_names_extracted) checks that it is EQUAL, as a set of (role, name) pairs,
// to the names used by `guardOf` (plus the derived held functions `Conc.calleeHeld`): a name added in
// Lean without being extracted here breaks the build, and so does a stale name here.
//
// Emitted into Gen/Callers.lean
//
//	callerTargets      (role, name); role = heldIn | afterDone | ctor
//	callers            every use of a target in the module:
//	                   (callee, kind, via, enclosing function, file, scope, locks held as (lock, mode))
//	                     kind   call | go | defer | value | assign
//	                            value  = the function / method value is used without being called at once
//	                                     (`x := s.f`, `run(s.f)`, a function literal passed or stored somewhere)
//	                            assign = a literal target is assigned to the struct field it is declared to
//	                                     live in (`via` field of the target); its calls are then the
//	                                     `via = field` sites
//	                     via    direct | iface (receiver is an interface of the package that declares the
//	                            method) | field (call through the declared function-valued struct field) |
//	                            lit (the site is the occurrence of the literal itself) | ext (selector with the
//	                            method's name in ANOTHER package of the module on a base that is not a
//	                            struct of that package; heldIn targets with an exported name only)
//	                     scope  "" | go | defer | lit : the enclosing function is (inside) a literal started by
//	                            `go`, deferred, or other
//	                     locks  the locks syntactically held, computed by THE SAME walk as the Guards
//	                            group (facts_guards.go: same lock names, modes, region rules, literal names)
//	callersUnresolved  (method or field name, enclosing function, file): a selector in the target's own
//	                   package whose name is that of a heldIn target (or of its `via` field) and whose base type
//	                   could not be inferred — fails closed (the consuming theorem pins the list to [])
//	afterDoneFns       for every afterDone target: (function, receive, early, late); receive = `Done()` /
//	                   `doneChan` / "" — the first top-level statement of the body that receives from the
//	                   receiver's done channel (`<-c.Done()`, `<-c.doneChan`, `_ = <-…`, `for range …`, or a
//	                   `select` without default all of whose cases receive from it); early / late = the
//	                   receiver fields read or written lexically before the end of / after that statement
//	                   (all fields are `early` when there is no such statement)
//	ctorAccess         for every ctor target: (function, field `T.f`, kind R/W, status) of every access to a
//	                   field of a struct of the package made (a) as a key of a composite literal of T
//	                   (status `lit`), or (b) through a local variable that the function itself binds to a
//	                   new object (`v := &T{…}`, `T{…}`, `new(T)`, or the result of another ctor target):
//	                   status `fresh` when no escape of v lexically precedes the access (for an assignment
//	                   `v.f = e` the access is placed at the END of the statement: e is evaluated first),
//	                   else `escaped:<how>` with how = arg (passed to a call) | store (assigned / put in a
//	                   literal) | send | capture (mentioned in a function literal) | go.  A method call
//	                   `v.m()` is NOT counted as an escape (trusted).
//
// Fail closed: a target whose declaration (or literal) is not found is listed in `callers_missing`.
// Limits: syntactic; types inferred as in facts_guards.go; function values are followed only through
// the declared `via` field; calls through interfaces of other packages are matched by name (`ext`).

import (
	"fmt"
	"go/ast"
	"go/token"
	"os"
	"path/filepath"
	"sort"
	"strings"
)

type callerTarget struct {
	dir, name, role string
	via             string // for a literal target stored in a struct field: "Type.field"
}

// callerTargets: EXACTLY the names of Conc.guardOf's heldIn / afterDone / ctors lists plus Conc.calleeHeld
// (checked by C14_trusted_names_extracted).
var callerTargets = []callerTarget{
	// heldIn
	{dir: "", name: "handlerCtx.handleReply", role: "heldIn"},
	{dir: "", name: "handlerCtx.handleReply$defer", role: "heldIn"},
	{dir: "", name: "callCmd.cancel", role: "heldIn"},
	{dir: "", name: "callCmd.hasReply", role: "heldIn"},
	{dir: "socket", name: "socket.initOptimize", role: "heldIn"},
	{dir: "socket", name: "socket.RawLocked", role: "heldIn"},
	// derived functions (Conc.calleeHeld) go here, e.g. a literal that is stored in a struct field and called only
	// through it: {dir: "", name: "peer.Dial$redialForClientLocked", role: "heldIn", via: "session.redialForClientLocked"}
	// afterDone
	{dir: "", name: "callCmd.Reply", role: "afterDone"},
	{dir: "", name: "callCmd.InputBodyCodec", role: "afterDone"},
	{dir: "", name: "callCmd.InputMeta", role: "afterDone"},
	{dir: "", name: "callCmd.CostTime", role: "afterDone"},
	{dir: "", name: "callCmd.Status", role: "afterDone"},
	{dir: "", name: "callCmd.StatusOK", role: "afterDone"},
	{dir: "", name: "callCmd.RealIP", role: "afterDone"},
	// ctors
	{dir: "", name: "newSession", role: "ctor"},
	{dir: "", name: "peer.Dial", role: "ctor"},
	{dir: "", name: "session.AsyncCall", role: "ctor"},
	{dir: "", name: "newSessionHub", role: "ctor"},
	{dir: "", name: "NewPeer", role: "ctor"},
	{dir: "socket", name: "newSocket", role: "ctor"},
	{dir: "socket", name: "socketPool$lit", role: "ctor"},
	{dir: "socket", name: "RawProtoFunc$lit", role: "ctor"},
	{dir: "proto/jsonproto", name: "NewJSONProtoFunc$lit", role: "ctor"},
	{dir: "proto/pbproto", name: "NewPbProtoFunc$lit", role: "ctor"},
	{dir: "proto/httproto", name: "NewHTTProtoFunc$lit", role: "ctor"},
	{dir: "proto/thriftproto", name: "NewBinaryProtoFunc$lit", role: "ctor"},
	{dir: "proto/thriftproto", name: "NewStructProtoFunc$lit", role: "ctor"},
}

func init() {
	register(Group{
		Name: "Callers",
		Doc:  "Call sites (with the locks syntactically held, same walk as Guards) of every function that Conc.guardOf names in a heldIn / afterDone / ctors list, the done-channel receive of the afterDone accessors, and the locality of the objects written by the constructors. Consumed by Teleport.Props.C14 (C14_trusted_names_extracted, C14_heldIn_callers_hold_lock, C14_afterDone_receives_first, C14_ctor_sites). PARTIAL: syntactic, no aliasing, function values followed only through the declared field.",
		Gen:  genCallers,
	})
}

// ---------------------------------------------------------------------------------------------

type cSite struct {
	Callee, Kind, Via, Func, File, Scope string
	Locks                                []gLock
}

func (s cSite) key() string {
	ls := make([]string, len(s.Locks))
	for i, l := range s.Locks {
		ls[i] = l.Name + ":" + l.Mode
	}
	return strings.Join([]string{s.Callee, s.Kind, s.Via, s.Func, s.File, s.Scope, strings.Join(ls, ",")}, "|")
}

type cUnres struct{ Name, Func, File string }

type callerOut struct {
	sites   map[string]cSite
	unres   map[string]cUnres
	lits    map[string]*ast.FuncLit // dir + "\x00" + walker name -> literal
	litPx   map[string]*guardPkg
	litFile map[string]string
}

// callerHook observes the guard walk of one package.
type callerHook struct {
	dir     string
	px      *guardPkg
	file    string
	out     *callerOut
	ifaces  map[string]map[string]bool // interface type of the package -> method set
	callPos map[ast.Expr]string        // Fun expression -> call / go / defer
	ignore  map[ast.Expr]bool          // selectors that are assignment targets or compared with nil
	lhsOf   map[*ast.FuncLit]ast.Expr  // literal assigned by `lhs = func…`
	// lookup tables
	methods map[string][]callerTarget // method name -> targets "T.m"
	funcs   map[string][]callerTarget // function name -> targets (same dir only)
	fields  map[string][]callerTarget // field name -> literal targets living in "T.field"
	litTgts map[string]callerTarget   // walker name -> literal target of this dir
}

func scopeOf(name string) string {
	parts := strings.Split(name, "$")
	if len(parts) == 1 {
		return ""
	}
	scope := "defer"
	for _, t := range parts[1:] {
		t = strings.TrimRight(t, "0123456789")
		switch t {
		case "go":
			return "go"
		case "defer":
		default:
			scope = "lit"
		}
	}
	return scope
}

func unparen(e ast.Expr) ast.Expr {
	for {
		p, ok := e.(*ast.ParenExpr)
		if !ok {
			return e
		}
		e = p.X
	}
}

func isExported(n string) bool { return n != "" && n[0] >= 'A' && n[0] <= 'Z' }

func (h *callerHook) addSite(c *guardCtx, callee, kind, via string, held lockSet) {
	s := cSite{Callee: callee, Kind: kind, Via: via, Func: c.name, File: h.file, Scope: scopeOf(c.name), Locks: held.list()}
	h.out.sites[s.key()] = s
}

func (h *callerHook) addUnres(c *guardCtx, name string) {
	u := cUnres{name, c.name, h.file}
	h.out.unres[u.Name+"|"+u.Func+"|"+u.File] = u
}

func (h *callerHook) kindAt(e ast.Expr) string {
	if k := h.callPos[e]; k != "" {
		return k
	}
	return "value"
}

func (h *callerHook) onStmtCall(c *guardCtx, held lockSet, call *ast.CallExpr, tag string) {
	fun := unparen(call.Fun)
	if _, ok := fun.(*ast.FuncLit); ok {
		return
	}
	h.callPos[fun] = tag
}

func (h *callerHook) onLit(c *guardCtx, name, tag string, fl *ast.FuncLit) {
	k := h.dir + "\x00" + name
	h.out.lits[k] = fl
	h.out.litPx[k] = h.px
	h.out.litFile[k] = h.file
	t, ok := h.litTgts[name]
	if !ok {
		return
	}
	kind := "value"
	switch tag {
	case "go", "defer":
		kind = tag
	default:
		if t.via != "" {
			if sel, ok := h.lhsOf[fl].(*ast.SelectorExpr); ok {
				if bt := c.exprType(sel.X); bt != "" && bt+"."+sel.Sel.Name == t.via {
					kind = "assign"
				}
			}
		}
	}
	h.addSite(c, t.name, kind, "lit", lockSet{})
}

func (h *callerHook) onExpr(c *guardCtx, held lockSet, e ast.Expr) {
	switch x := e.(type) {
	case *ast.CallExpr:
		fun := unparen(x.Fun)
		if h.callPos[fun] == "" {
			h.callPos[fun] = "call"
		}
	case *ast.Ident:
		for _, t := range h.funcs[x.Name] {
			if c.env[x.Name] != "" { // shadowed by a local / parameter
				continue
			}
			h.addSite(c, t.name, h.kindAt(x), "direct", held)
		}
	case *ast.SelectorExpr:
		name := x.Sel.Name
		mt, ft := h.methods[name], h.fields[name]
		if len(mt) == 0 && len(ft) == 0 {
			return
		}
		bt := c.exprType(x.X)
		if bt == "" {
			if id, ok := x.X.(*ast.Ident); ok && c.env[id.Name] == "" && isPkgLike(id.Name, h.px) {
				return // pkg.Name
			}
		}
		for _, t := range mt {
			recv := t.name[:strings.IndexByte(t.name, '.')]
			if t.dir == h.dir {
				switch {
				case bt == recv || (h.px.structs[bt] && h.px.fieldType[bt][recv] == recv && !h.px.methods[bt][name]):
					h.addSite(c, t.name, h.kindAt(x), "direct", held)
				case bt != "" && h.ifaces[bt][name]:
					h.addSite(c, t.name, h.kindAt(x), "iface", held)
				case bt == "" && t.role == "heldIn":
					h.addUnres(c, name)
				}
				continue
			}
			// another package of the module: only heldIn targets with an exported method name
			if t.role != "heldIn" || !isExported(name) {
				continue
			}
			if bt != "" && (h.px.structs[bt] || h.px.defined[bt] != "") && !strings.Contains(bt, ".") {
				continue // a struct of this package: a different method
			}
			h.addSite(c, t.name, h.kindAt(x), "ext", held)
		}
		for _, t := range ft {
			if t.dir != h.dir || h.ignore[x] {
				continue
			}
			owner := t.via[:strings.IndexByte(t.via, '.')]
			switch {
			case bt == owner:
				h.addSite(c, t.name, h.kindAt(x), "field", held)
			case bt == "":
				h.addUnres(c, name)
			}
		}
	}
}

// ---------------------------------------------------------------------------------------------

// moduleDirs lists the repo-relative directories that contain Go files ("" = root).
func moduleDirs(root string) []string {
	var dirs []string
	filepath.Walk(root, func(path string, info os.FileInfo, err error) error {
		if err != nil {
			return nil
		}
		if info.IsDir() {
			n := info.Name()
			if path != root && (strings.HasPrefix(n, ".") || strings.HasPrefix(n, "_") || n == "vendor" || n == "testdata") {
				return filepath.SkipDir
			}
			return nil
		}
		if strings.HasSuffix(info.Name(), ".go") && !strings.HasSuffix(info.Name(), "_test.go") {
			rel, _ := filepath.Rel(root, filepath.Dir(path))
			if rel == "." {
				rel = ""
			}
			rel = filepath.ToSlash(rel)
			if len(dirs) == 0 || dirs[len(dirs)-1] != rel {
				dirs = append(dirs, rel)
			}
		}
		return nil
	})
	seen := map[string]bool{}
	var out []string
	for _, d := range dirs {
		if !seen[d] {
			seen[d] = true
			out = append(out, d)
		}
	}
	sort.Strings(out)
	return out
}

func pkgIfaces(p *Pkg) map[string]map[string]bool {
	direct := map[string]map[string]bool{}
	embeds := map[string][]string{}
	for _, f := range p.Files {
		for _, d := range f.Decls {
			gd, ok := d.(*ast.GenDecl)
			if !ok || gd.Tok != token.TYPE {
				continue
			}
			for _, sp := range gd.Specs {
				ts := sp.(*ast.TypeSpec)
				it, ok := ts.Type.(*ast.InterfaceType)
				if !ok {
					continue
				}
				m := map[string]bool{}
				for _, fl := range it.Methods.List {
					if len(fl.Names) == 0 {
						if id, ok := fl.Type.(*ast.Ident); ok {
							embeds[ts.Name.Name] = append(embeds[ts.Name.Name], id.Name)
						}
						continue
					}
					for _, n := range fl.Names {
						m[n.Name] = true
					}
				}
				direct[ts.Name.Name] = m
			}
		}
	}
	for i := 0; i < 4; i++ { // embedded interfaces of the same package, a few levels
		for n, es := range embeds {
			for _, e := range es {
				for m := range direct[e] {
					direct[n][m] = true
				}
			}
		}
	}
	return direct
}

func genCallers(r *Repo, l *Lean) {
	out := &callerOut{sites: map[string]cSite{}, unres: map[string]cUnres{}, lits: map[string]*ast.FuncLit{},
		litPx: map[string]*guardPkg{}, litFile: map[string]string{}}
	var missing []string

	var tgtRows []string
	seenT := map[string]bool{}
	for _, t := range callerTargets {
		k := t.role + "|" + t.name
		if seenT[k] {
			continue
		}
		seenT[k] = true
		tgtRows = append(tgtRows, "("+leanStr(t.role)+", "+leanStr(t.name)+")")
	}
	sort.Strings(tgtRows)

	tdirs := map[string]bool{}
	for _, t := range callerTargets {
		tdirs[t.dir] = true
	}
	pxs := map[string]*guardPkg{}
	for _, dir := range moduleDirs(r.Root) {
		p := r.Pkg(dir)
		if p.Err != nil || len(p.Files) == 0 {
			if tdirs[dir] {
				missing = append(missing, fmt.Sprintf("package dir '%s' unreadable or empty: %v", dir, p.Err))
			}
			continue
		}
		px := newGuardPkg(p, dir, nil, nil)
		pxs[dir] = px
		ifaces := pkgIfaces(p)
		for _, f := range p.Files {
			file := filepath.Join(dir, filepath.Base(p.Fset.Position(f.Pos()).Filename))
			h := &callerHook{dir: dir, px: px, file: file, out: out, ifaces: ifaces,
				callPos: map[ast.Expr]string{}, ignore: map[ast.Expr]bool{}, lhsOf: map[*ast.FuncLit]ast.Expr{},
				methods: map[string][]callerTarget{}, funcs: map[string][]callerTarget{}, fields: map[string][]callerTarget{},
				litTgts: map[string]callerTarget{}}
			for _, t := range callerTargets {
				switch {
				case strings.Contains(t.name, "$"):
					if t.dir == dir {
						h.litTgts[t.name] = t
						if t.via != "" {
							fn := t.via[strings.IndexByte(t.via, '.')+1:]
							h.fields[fn] = append(h.fields[fn], t)
						}
					}
				case strings.Contains(t.name, "."):
					m := t.name[strings.IndexByte(t.name, '.')+1:]
					h.methods[m] = append(h.methods[m], t)
				default:
					if t.dir == dir {
						h.funcs[t.name] = append(h.funcs[t.name], t)
					}
				}
			}
			// pre-pass: assignment targets, nil comparisons, literals assigned to something
			ast.Inspect(f, func(n ast.Node) bool {
				switch x := n.(type) {
				case *ast.AssignStmt:
					for i, lh := range x.Lhs {
						h.ignore[unparen(lh)] = true
						if len(x.Rhs) == len(x.Lhs) {
							if fl, ok := x.Rhs[i].(*ast.FuncLit); ok {
								h.lhsOf[fl] = unparen(lh)
							}
						}
					}
				case *ast.BinaryExpr:
					if x.Op == token.EQL || x.Op == token.NEQ {
						if id, ok := unparen(x.Y).(*ast.Ident); ok && id.Name == "nil" {
							h.ignore[unparen(x.X)] = true
						}
						if id, ok := unparen(x.X).(*ast.Ident); ok && id.Name == "nil" {
							h.ignore[unparen(x.Y)] = true
						}
					}
				}
				return true
			})
			for _, d := range f.Decls {
				fw := &guardFuncWalk{px: px, file: file, hook: h}
				switch fd := d.(type) {
				case *ast.FuncDecl:
					if fd.Body == nil {
						continue
					}
					name := fd.Name.Name
					if rt := recvTypeName(fd); rt != "" {
						name = rt + "." + name
					}
					fw.walkFunc(name, fd.Recv, fd.Type, fd.Body, nil)
				case *ast.GenDecl:
					if fd.Tok != token.VAR {
						continue
					}
					for _, sp := range fd.Specs {
						vs, ok := sp.(*ast.ValueSpec)
						if !ok {
							continue
						}
						for i, v := range vs.Values {
							vname := "_"
							if i < len(vs.Names) {
								vname = vs.Names[i].Name
							}
							c := &guardCtx{fw: fw, name: vname, env: guardEnv{}, nlits: map[string]int{}}
							c.expr(lockSet{}, v)
						}
					}
				}
			}
		}
	}

	// ---- targets must exist; afterDone and ctor analyses
	type adRow struct {
		fn, recv    string
		early, late []string
	}
	var adRows []adRow
	ctorRows := map[string]bool{}
	for _, t := range callerTargets {
		p := r.Pkg(t.dir)
		px := pxs[t.dir]
		if p.Err != nil || px == nil {
			missing = append(missing, "target "+t.name+": package '"+t.dir+"' not available")
			continue
		}
		var body *ast.BlockStmt
		var fd *ast.FuncDecl
		if strings.Contains(t.name, "$") {
			fl := out.lits[t.dir+"\x00"+t.name]
			if fl == nil {
				missing = append(missing, "target "+t.name+": no such function literal in '"+t.dir+"'")
				continue
			}
			body = fl.Body
		} else {
			recv, name := "", t.name
			if i := strings.IndexByte(t.name, '.'); i >= 0 {
				recv, name = t.name[:i], t.name[i+1:]
			}
			fd = p.Func(recv, name)
			if fd == nil {
				missing = append(missing, "target "+t.name+": not declared exactly once with a body in '"+t.dir+"'")
				continue
			}
			body = fd.Body
		}
		switch t.role {
		case "afterDone":
			if fd == nil || recvVarName(fd) == "" {
				missing = append(missing, "afterDone target "+t.name+": not a method with a named receiver")
				continue
			}
			recv, early, late := afterDoneShape(px, recvTypeName(fd), recvVarName(fd), body)
			adRows = append(adRows, adRow{t.name, recv, early, late})
		case "ctor":
			for _, row := range ctorAccesses(px, t.name, body) {
				ctorRows[row] = true
			}
		}
	}

	// ---- render
	var keys []string
	for k := range out.sites {
		keys = append(keys, k)
	}
	sort.Strings(keys)
	var sb strings.Builder
	sb.WriteString("[")
	for i, k := range keys {
		s := out.sites[k]
		ls := make([]string, len(s.Locks))
		for j, lk := range s.Locks {
			ls[j] = "(" + leanStr(lk.Name) + ", " + leanStr(lk.Mode) + ")"
		}
		if i > 0 {
			sb.WriteString(",")
		}
		fmt.Fprintf(&sb, "\n  (%s, %s, %s, %s, %s, %s, [%s])", leanStr(s.Callee), leanStr(s.Kind), leanStr(s.Via), leanStr(s.Func), leanStr(s.File), leanStr(s.Scope), strings.Join(ls, ", "))
	}
	if len(keys) > 0 {
		sb.WriteString("\n")
	}
	sb.WriteString("]")

	var ukeys []string
	for k := range out.unres {
		ukeys = append(ukeys, k)
	}
	sort.Strings(ukeys)
	uparts := make([]string, len(ukeys))
	for i, k := range ukeys {
		u := out.unres[k]
		uparts[i] = "(" + leanStr(u.Name) + ", " + leanStr(u.Func) + ", " + leanStr(u.File) + ")"
	}

	sort.Slice(adRows, func(i, j int) bool { return adRows[i].fn < adRows[j].fn })
	adParts := make([]string, len(adRows))
	for i, a := range adRows {
		adParts[i] = "\n  (" + leanStr(a.fn) + ", " + leanStr(a.recv) + ", " + strList(a.early) + ", " + strList(a.late) + ")"
	}
	var crows []string
	for k := range ctorRows {
		crows = append(crows, k)
	}
	sort.Strings(crows)
	for i := range crows {
		crows[i] = "\n  " + crows[i]
	}

	sort.Strings(missing)
	for _, m := range missing {
		l.Missing("callers_missing_"+leanIdent(m), m)
	}
	l.add("callerTargets", "(role, name) of the functions whose calling convention the guard map names; must equal the names used by Conc.guardOf and Conc.calleeHeld; sorted set",
		"List (String × String)", "["+strings.Join(tgtRows, ", ")+"]")
	l.add("callers", "(callee, kind call/go/defer/value/assign, via direct/iface/field/lit/ext, enclosing function, file, scope, locks held as (lock, mode)); sorted set",
		"List (String × String × String × String × String × String × List (String × String))", sb.String())
	l.add("callersUnresolved", "selectors named like a heldIn target (or its field) whose base type could not be inferred: (name, enclosing function, file)",
		"List (String × String × String)", "["+strings.Join(uparts, ", ")+"]")
	l.add("afterDoneFns", "(afterDone function, done-channel receive that dominates the rest of the body or \"\", receiver fields accessed before it, after it)",
		"List (String × String × List String × List String)", "["+strings.Join(adParts, ",")+"\n]")
	l.add("ctorAccess", "(ctor function, field, kind R/W, status lit/fresh/escaped:<how>) of the accesses made to objects the ctor itself creates; sorted set",
		"List (String × String × String × String)", "["+strings.Join(crows, ",")+"\n]")
}

// ---------------------------------------------------------------------------------------------
// afterDone: `<-recv.Done()` / `<-recv.doneChan` as a top-level statement

// doneRecvExpr: e is `<-v.Done()` or `<-v.doneChan` (v = the receiver variable).
func doneRecvExpr(v string, e ast.Expr) string {
	u, ok := unparen(e).(*ast.UnaryExpr)
	if !ok || u.Op != token.ARROW {
		return ""
	}
	return doneChanExpr(v, u.X)
}

func doneChanExpr(v string, e ast.Expr) string {
	switch x := unparen(e).(type) {
	case *ast.CallExpr:
		if sel, ok := x.Fun.(*ast.SelectorExpr); ok && len(x.Args) == 0 && sel.Sel.Name == "Done" {
			if id, ok := sel.X.(*ast.Ident); ok && id.Name == v {
				return "Done()"
			}
		}
	case *ast.SelectorExpr:
		if id, ok := x.X.(*ast.Ident); ok && id.Name == v && x.Sel.Name == "doneChan" {
			return "doneChan"
		}
	}
	return ""
}

func doneRecvStmt(v string, s ast.Stmt) string {
	switch x := s.(type) {
	case *ast.ExprStmt:
		return doneRecvExpr(v, x.X)
	case *ast.AssignStmt:
		if len(x.Rhs) == 1 {
			return doneRecvExpr(v, x.Rhs[0])
		}
	case *ast.RangeStmt:
		if len(x.Body.List) == 0 { // `for range ch {}` returns only when ch is closed
			return doneChanExpr(v, x.X)
		}
	case *ast.SelectStmt:
		if len(x.Body.List) == 0 {
			return ""
		}
		got := ""
		for _, cl := range x.Body.List {
			cc := cl.(*ast.CommClause)
			if cc.Comm == nil {
				return "" // default clause: does not block
			}
			r := doneRecvStmt(v, cc.Comm)
			if r == "" {
				return ""
			}
			got = r
		}
		return got
	}
	return ""
}

func afterDoneShape(px *guardPkg, typ, v string, body *ast.BlockStmt) (recv string, early, late []string) {
	limit := token.Pos(0) // end of the dominating receive statement
	for _, s := range body.List {
		if r := doneRecvStmt(v, s); r != "" {
			recv, limit = r, s.End()
			break
		}
	}
	fields := px.fieldType[typ]
	e, lt := map[string]bool{}, map[string]bool{}
	ast.Inspect(body, func(n ast.Node) bool {
		sel, ok := n.(*ast.SelectorExpr)
		if !ok {
			return true
		}
		id, ok := sel.X.(*ast.Ident)
		if !ok || id.Name != v {
			return true
		}
		if _, isField := fields[sel.Sel.Name]; !isField || sel.Sel.Name == "doneChan" {
			return true
		}
		if recv != "" && sel.Pos() >= limit {
			lt[sel.Sel.Name] = true
		} else {
			e[sel.Sel.Name] = true
		}
		return true
	})
	for k := range e {
		early = append(early, k)
	}
	for k := range lt {
		late = append(late, k)
	}
	sort.Strings(early)
	sort.Strings(late)
	return
}

// ---------------------------------------------------------------------------------------------
// ctors: locality of the object under construction

func ctorAccesses(px *guardPkg, fn string, body *ast.BlockStmt) []string {
	var rows []string
	row := func(field, kind, status string) {
		rows = append(rows, "("+leanStr(fn)+", "+leanStr(field)+", "+leanStr(kind)+", "+leanStr(status)+")")
	}
	isStruct := func(t string) bool {
		return t != "" && !strings.Contains(t, ".") && (px.structs[t] || px.structs[px.defined[t]])
	}
	ctorFuncs := map[string]string{} // ctor function targets of this package -> result type
	for _, t := range callerTargets {
		if t.role == "ctor" && t.dir == px.dir && !strings.ContainsAny(t.name, ".$") {
			if res := px.funcRes[t.name]; len(res) > 0 && isStruct(res[0]) {
				ctorFuncs[t.name] = res[0]
			}
		}
	}
	newType := func(e ast.Expr) string {
		switch x := unparen(e).(type) {
		case *ast.UnaryExpr:
			if x.Op == token.AND {
				if cl, ok := unparen(x.X).(*ast.CompositeLit); ok && cl.Type != nil {
					return baseTypeName(cl.Type)
				}
			}
		case *ast.CompositeLit:
			if x.Type != nil {
				return baseTypeName(x.Type)
			}
		case *ast.CallExpr:
			if id, ok := x.Fun.(*ast.Ident); ok {
				if id.Name == "new" && len(x.Args) == 1 {
					return baseTypeName(x.Args[0])
				}
				return ctorFuncs[id.Name]
			}
		}
		return ""
	}
	// 1. fresh variables (not inside nested literals)
	fresh := map[string]string{}
	rebound := map[string]bool{}
	bind := func(id *ast.Ident, rhs ast.Expr, define bool) {
		if id == nil || id.Name == "_" {
			return
		}
		t := newType(rhs)
		if define && isStruct(t) && fresh[id.Name] == "" {
			fresh[id.Name] = t
			return
		}
		if fresh[id.Name] != "" {
			rebound[id.Name] = true // assigned again: no longer known to be the new object
		}
	}
	ast.Inspect(body, func(n ast.Node) bool {
		switch x := n.(type) {
		case *ast.FuncLit:
			return false
		case *ast.AssignStmt:
			if len(x.Lhs) == len(x.Rhs) {
				for i, lh := range x.Lhs {
					if id, ok := lh.(*ast.Ident); ok {
						bind(id, x.Rhs[i], x.Tok == token.DEFINE)
					}
				}
			}
		case *ast.DeclStmt:
			if gd, ok := x.Decl.(*ast.GenDecl); ok && gd.Tok == token.VAR {
				for _, sp := range gd.Specs {
					vs := sp.(*ast.ValueSpec)
					for i, nm := range vs.Names {
						if i < len(vs.Values) {
							bind(nm, vs.Values[i], true)
						}
					}
				}
			}
		}
		return true
	})
	for v := range rebound {
		delete(fresh, v)
	}
	isFresh := func(e ast.Expr) string {
		e = unparen(e)
		if u, ok := e.(*ast.UnaryExpr); ok && u.Op == token.AND {
			e = unparen(u.X)
		}
		if id, ok := e.(*ast.Ident); ok && fresh[id.Name] != "" {
			return id.Name
		}
		return ""
	}
	// 2. escapes in source order
	type esc struct {
		pos token.Pos
		how string
	}
	escapes := map[string][]esc{}
	addEsc := func(v string, pos token.Pos, how string) {
		if v != "" {
			escapes[v] = append(escapes[v], esc{pos, how})
		}
	}
	writes := map[*ast.SelectorExpr]token.Pos{} // write accesses -> effective position
	markWrite := func(e ast.Expr, at token.Pos) {
		switch x := unparen(e).(type) {
		case *ast.SelectorExpr:
			writes[x] = at
		case *ast.IndexExpr:
			if sel, ok := unparen(x.X).(*ast.SelectorExpr); ok {
				writes[sel] = at
			}
		}
	}
	var inspect func(n ast.Node) bool
	inspect = func(n ast.Node) bool {
		switch x := n.(type) {
		case *ast.FuncLit:
			ast.Inspect(x.Body, func(m ast.Node) bool {
				if id, ok := m.(*ast.Ident); ok && fresh[id.Name] != "" {
					addEsc(id.Name, x.Pos(), "capture")
				}
				return true
			})
			return false
		case *ast.GoStmt:
			ast.Inspect(x.Call, func(m ast.Node) bool {
				if id, ok := m.(*ast.Ident); ok && fresh[id.Name] != "" {
					addEsc(id.Name, x.Pos(), "go")
				}
				return true
			})
		case *ast.CallExpr:
			for _, a := range x.Args {
				addEsc(isFresh(a), a.Pos(), "arg")
			}
		case *ast.AssignStmt:
			for _, lh := range x.Lhs {
				markWrite(lh, x.End())
			}
			for _, rh := range x.Rhs {
				if v := isFresh(rh); v != "" {
					addEsc(v, rh.Pos(), "store")
				}
			}
		case *ast.IncDecStmt:
			markWrite(x.X, x.End())
		case *ast.UnaryExpr:
			if x.Op == token.AND {
				if sel, ok := unparen(x.X).(*ast.SelectorExpr); ok {
					writes[sel] = sel.Pos()
				}
			}
		case *ast.CompositeLit:
			for _, el := range x.Elts {
				v := el
				if kv, ok := el.(*ast.KeyValueExpr); ok {
					v = kv.Value
				}
				addEsc(isFresh(v), v.Pos(), "store")
			}
		case *ast.SendStmt:
			addEsc(isFresh(x.Value), x.Value.Pos(), "send")
		}
		return true
	}
	ast.Inspect(body, inspect)
	// 3. accesses
	ast.Inspect(body, func(n ast.Node) bool {
		switch x := n.(type) {
		case *ast.FuncLit:
			return false
		case *ast.CompositeLit:
			if x.Type != nil {
				if t := baseTypeName(x.Type); isStruct(t) {
					for _, el := range x.Elts {
						if kv, ok := el.(*ast.KeyValueExpr); ok {
							if id, ok := kv.Key.(*ast.Ident); ok {
								row(t+"."+id.Name, "W", "lit")
							}
						}
					}
				}
			}
		case *ast.SelectorExpr:
			id, ok := x.X.(*ast.Ident)
			if !ok || fresh[id.Name] == "" {
				return true
			}
			t := fresh[id.Name]
			ft := px.fieldType[t]
			if ft == nil {
				ft = px.fieldType[px.defined[t]]
			}
			if _, isField := ft[x.Sel.Name]; !isField {
				return true // method call on the new object
			}
			kind, at := "R", x.Pos()
			if p, ok := writes[x]; ok {
				kind, at = "W", p
			}
			status := "fresh"
			var first *esc
			for i := range escapes[id.Name] {
				e := &escapes[id.Name][i]
				if e.pos < at && (first == nil || e.pos < first.pos) {
					first = e
				}
			}
			if first != nil {
				status = "escaped:" + first.how
			}
			row(t+"."+x.Sel.Name, kind, status)
		}
		return true
	})
	return rows
}
