// Command srcfacts is the tie-A translator: it re-reads the Go sources of the library under
// verification and regenerates lean/Teleport/Gen/*.lean, one file per fact group.
//
//	srcfacts -repo /repo -out <dir> [-only Group1,Group2] [-list]
//
// Design
//   - purely syntactic: go/parser + go/ast (+ go/build only to honour //go:build lines with the
//     `verif` tag); no type checking, nothing is executed.
//   - one fact group = one Go file facts_<group>.go in this directory whose init() calls
//     register(Group{Name: "...", Gen: ...}). Gen receives the *Repo (cached parsed packages and
//     lookup helpers) and a *Lean writer and emits plain Lean `def`s into Gen/<Name>.lean.
//   - fail closed: a watched struct / function that is not found, or whose shape the extractor does
//     not recognise, is emitted through Lean.Missing (a sentinel list `["!missing: why"]`) and is
//     recorded in the group's `<group>_missing` list. A consuming theorem mentions that list (it must
//     be `[]`) and the sentinel is never a member of any expected set, so the obligation fails to
//     build instead of silently keeping an old fact. srcfacts itself still exits 0 in that case:
//     the failure must surface as a failed proof obligation of exactly the theorems that use the fact.
//   - facts are reported as sorted, de-duplicated sets unless a group explicitly says order matters,
//     so that reordering independent statements or moving a function to another file of the same
//     package does not change the generated text.
//
// Adding a fact group: create facts_<name>.go with
//
//	func init() { register(Group{Name: "Stages", Doc: "...", Gen: genStages}) }
//	func genStages(r *Repo, l *Lean) { ... l.StrList("x_calls", "doc", xs) ... }
//
// and consume `Teleport.Gen.<defs>` from a Props module via `import Teleport.Gen.Stages`.
package main

import (
	"flag"
	"fmt"
	"go/ast"
	"go/build"
	"go/parser"
	"go/token"
	"os"
	"path/filepath"
	"sort"
	"strings"
)

// Group is one fact group; it produces Gen/<Name>.lean.
type Group struct {
	Name string // Lean module name below Teleport.Gen (upper-case first letter)
	Doc  string // one paragraph for the module header
	Gen  func(r *Repo, l *Lean)
}

var groups []Group

func register(g Group) { groups = append(groups, g) }

func main() {
	repo := flag.String("repo", "/repo", "root of the Go module under verification")
	out := flag.String("out", "", "directory that receives <Group>.lean (required)")
	only := flag.String("only", "", "comma separated group names (default: all)")
	list := flag.Bool("list", false, "list fact groups and exit")
	flag.Parse()
	sort.Slice(groups, func(i, j int) bool { return groups[i].Name < groups[j].Name })
	if *list {
		for _, g := range groups {
			fmt.Printf("%s\t%s\n", g.Name, g.Doc)
		}
		return
	}
	if *out == "" {
		fmt.Fprintln(os.Stderr, "srcfacts: -out is required")
		os.Exit(2)
	}
	if st, err := os.Stat(*repo); err != nil || !st.IsDir() {
		fmt.Fprintln(os.Stderr, "srcfacts: -repo is not a directory:", *repo)
		os.Exit(2)
	}
	if err := os.MkdirAll(*out, 0o755); err != nil {
		fmt.Fprintln(os.Stderr, "srcfacts:", err)
		os.Exit(2)
	}
	want := map[string]bool{}
	for _, n := range strings.Split(*only, ",") {
		if n = strings.TrimSpace(n); n != "" {
			want[n] = true
		}
	}
	r := &Repo{Root: *repo, pkgs: map[string]*Pkg{}}
	for _, g := range groups {
		if len(want) > 0 && !want[g.Name] {
			continue
		}
		l := &Lean{group: g.Name}
		func() {
			// an extractor bug must not keep an old file alive: the group is emitted with a
			// missing marker that breaks its consumers.
			defer func() {
				if p := recover(); p != nil {
					l.Missing("extractor_panic", fmt.Sprintf("extractor panicked: %v", p))
				}
			}()
			g.Gen(r, l)
		}()
		path := filepath.Join(*out, g.Name+".lean")
		if err := os.WriteFile(path, []byte(l.Render(g)), 0o644); err != nil {
			fmt.Fprintln(os.Stderr, "srcfacts:", err)
			os.Exit(2)
		}
		fmt.Printf("srcfacts: %s: %d facts, %d missing -> %s\n", g.Name, len(l.defs), len(l.missing), path)
		for _, m := range l.missing {
			fmt.Printf("srcfacts: %s: MISSING %s\n", g.Name, m)
		}
	}
}

// ---------------------------------------------------------------------------------------------
// Lean output

// Lean collects the defs of one generated module.
type Lean struct {
	group   string
	defs    []string
	names   map[string]bool
	missing []string
}

func leanStr(s string) string {
	var b strings.Builder
	b.WriteByte('"')
	for _, c := range s {
		switch {
		case c == '"' || c == '\\':
			b.WriteByte('\\')
			b.WriteRune(c)
		case c == '\n':
			b.WriteString("\\n")
		case c < 32 || c > 126:
			fmt.Fprintf(&b, "\\u{%x}", c)
		default:
			b.WriteRune(c)
		}
	}
	b.WriteByte('"')
	return b.String()
}

func (l *Lean) add(name, doc, typ, val string) {
	if l.names == nil {
		l.names = map[string]bool{}
	}
	if l.names[name] {
		panic("duplicate generated def " + name)
	}
	l.names[name] = true
	l.defs = append(l.defs, fmt.Sprintf("/-- %s -/\ndef %s : %s := %s\n", strings.ReplaceAll(doc, "-/", "- /"), name, typ, val))
}

func strList(xs []string) string {
	q := make([]string, len(xs))
	for i, x := range xs {
		q[i] = leanStr(x)
	}
	return "[" + strings.Join(q, ", ") + "]"
}

// StrSet emits a sorted, de-duplicated `List String` (order carries no information).
func (l *Lean) StrSet(name, doc string, xs []string) {
	m := map[string]bool{}
	var u []string
	for _, x := range xs {
		if !m[x] {
			m[x] = true
			u = append(u, x)
		}
	}
	sort.Strings(u)
	l.add(name, doc+" (set: sorted, order carries no information)", "List String", strList(u))
}

// StrList emits an ordered `List String` (source order is part of the fact).
func (l *Lean) StrList(name, doc string, xs []string) {
	l.add(name, doc+" (ordered as in the source)", "List String", strList(xs))
}

// Nat emits a natural number constant.
func (l *Lean) Nat(name, doc string, n uint64) { l.add(name, doc, "Nat", fmt.Sprint(n)) }

// Missing emits the fact as an explicit missing value and records it.
func (l *Lean) Missing(name, why string) {
	l.missing = append(l.missing, name+": "+why)
	l.add(name, "FACT MISSING: "+why, "List String", strList([]string{"!missing: " + why}))
}

// Render produces the module text.
func (l *Lean) Render(g Group) string {
	var b strings.Builder
	fmt.Fprintf(&b, "/-\nGen/%s — GENERATED by harness/cmd/srcfacts from the Go sources; regenerated on every check run.\nDo not edit. %s\n-/\nnamespace Teleport.Gen\n\n", g.Name, g.Doc)
	for _, d := range l.defs {
		b.WriteString(d)
		b.WriteByte('\n')
	}
	low := strings.ToLower(g.Name[:1]) + g.Name[1:]
	fmt.Fprintf(&b, "/-- facts of this group that could not be extracted (must be empty for the consuming theorems). -/\ndef %s_missing : List String := %s\n\nend Teleport.Gen\n", low, strList(l.missing))
	return b.String()
}

// ---------------------------------------------------------------------------------------------
// source access

// Repo caches parsed package directories.
type Repo struct {
	Root string
	pkgs map[string]*Pkg
}

// Pkg is the set of non-test files of one directory that build with the `verif` tag.
type Pkg struct {
	Dir   string
	Fset  *token.FileSet
	Files []*ast.File
	Err   error
}

// Pkg parses (once) the package in the repo-relative directory dir ("" = module root).
func (r *Repo) Pkg(dir string) *Pkg {
	if p, ok := r.pkgs[dir]; ok {
		return p
	}
	p := &Pkg{Dir: dir, Fset: token.NewFileSet()}
	r.pkgs[dir] = p
	abs := filepath.Join(r.Root, dir)
	ents, err := os.ReadDir(abs)
	if err != nil {
		p.Err = err
		return p
	}
	ctx := build.Default
	ctx.BuildTags = append([]string{"verif"}, ctx.BuildTags...)
	for _, e := range ents {
		n := e.Name()
		if e.IsDir() || !strings.HasSuffix(n, ".go") || strings.HasSuffix(n, "_test.go") {
			continue
		}
		if ok, err := ctx.MatchFile(abs, n); err != nil || !ok {
			continue
		}
		f, err := parser.ParseFile(p.Fset, filepath.Join(abs, n), nil, parser.SkipObjectResolution)
		if err != nil {
			p.Err = fmt.Errorf("%s: %v", n, err)
			continue
		}
		if f.Name.Name == "main" && filepath.Base(abs) != "main" {
			// stray example programs living in a library directory
			continue
		}
		p.Files = append(p.Files, f)
	}
	return p
}

// Struct finds `type name struct{...}` (also inside a `type ( ... )` group); nil if absent or if
// it is declared more than once.
func (p *Pkg) Struct(name string) *ast.StructType {
	var found []*ast.StructType
	for _, f := range p.Files {
		for _, d := range f.Decls {
			gd, ok := d.(*ast.GenDecl)
			if !ok || gd.Tok != token.TYPE {
				continue
			}
			for _, s := range gd.Specs {
				ts := s.(*ast.TypeSpec)
				if st, ok := ts.Type.(*ast.StructType); ok && ts.Name.Name == name {
					found = append(found, st)
				}
			}
		}
	}
	if len(found) != 1 {
		return nil
	}
	return found[0]
}

// recvTypeName returns the receiver's base type name ("" for functions).
func recvTypeName(fd *ast.FuncDecl) string {
	if fd.Recv == nil || len(fd.Recv.List) != 1 {
		return ""
	}
	t := fd.Recv.List[0].Type
	if s, ok := t.(*ast.StarExpr); ok {
		t = s.X
	}
	if ix, ok := t.(*ast.IndexExpr); ok { // generic receiver
		t = ix.X
	}
	if id, ok := t.(*ast.Ident); ok {
		return id.Name
	}
	return ""
}

// recvVarName returns the receiver variable's name ("" if unnamed or `_`).
func recvVarName(fd *ast.FuncDecl) string {
	if fd.Recv == nil || len(fd.Recv.List) != 1 || len(fd.Recv.List[0].Names) != 1 {
		return ""
	}
	n := fd.Recv.List[0].Names[0].Name
	if n == "_" {
		return ""
	}
	return n
}

// Func finds the function (recv == "") or method `recv.name` with a body; nil if absent or
// declared more than once among the files that build.
func (p *Pkg) Func(recv, name string) *ast.FuncDecl {
	var found []*ast.FuncDecl
	for _, f := range p.Files {
		for _, d := range f.Decls {
			fd, ok := d.(*ast.FuncDecl)
			if ok && fd.Name.Name == name && recvTypeName(fd) == recv && fd.Body != nil {
				found = append(found, fd)
			}
		}
	}
	if len(found) != 1 {
		return nil
	}
	return found[0]
}

// StructFieldNames lists the field names of a struct type (an embedded field is named after its
// type, as in Go).
func StructFieldNames(st *ast.StructType) []string {
	var out []string
	for _, f := range st.Fields.List {
		if len(f.Names) == 0 {
			t := f.Type
			if s, ok := t.(*ast.StarExpr); ok {
				t = s.X
			}
			switch x := t.(type) {
			case *ast.Ident:
				out = append(out, x.Name)
			case *ast.SelectorExpr:
				out = append(out, x.Sel.Name)
			default:
				out = append(out, "!missing: embedded field of unrecognised shape")
			}
			continue
		}
		for _, n := range f.Names {
			out = append(out, n.Name)
		}
	}
	return out
}
