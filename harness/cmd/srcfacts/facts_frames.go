package main

// Fact group `Frames` (properties C05 and C06): how each shipped wire protocol hands a frame to the
// connection and how it sizes its read buffers.
//
// Protocols (key, package dir, receiver type): raw socket/rawProto, json proto/jsonproto/jsonproto,
// pb proto/pbproto/pbproto, http proto/httproto/httproto, thrift-binary and thrift-struct
// proto/thriftproto/{tBinaryProto,tStructProto}, ws-json and ws-pb mixer/websocket/{jsonSubProto,pbSubProto}.
//
// `Pack` / `Unpack` are read together with the methods of the same receiver type they call (two
// levels: Pack -> writeHeader, Unpack -> unpack -> readLine, Pack -> binaryPack), in call order.
// The CONNECTION is every struct field of the protocol type whose declared type is an I/O interface
// (io.Reader, io.Writer, io.ReadWriter, [erpc.|socket.]IOWithReadBuffer), *utils.ReadWriteCounter or
// *thrift.THeaderProtocol / thrift.TProtocol. A statement TOUCHES the connection when it calls a
// method on such a field or passes the field to a function. On an I/O field every method whose name
// starts with `Write` (and ReadFrom) is an EMIT; on a THeaderProtocol field `Flush` is the emit,
// `Transport()...` is a touch and every other method only fills the library's frame buffer.
//
// Emits into Gen/Frames.lean
//
//	frames_protocols        keys of the protocols whose Pack AND Unpack were found and read
//	frames_pack_emits       (proto, emits in order, other touches before the last emit, touches after it)
//	frames_pack_setsize     (proto, returned|ignored|absent, before-emit|after-emit)
//	frames_raw_widths       (length field, width in bytes) of every width cast written by rawProto.Pack /
//	                        writeHeader: byte(..)/uint8 = 1, uint16 = 2, uint32 / PutUint32 = 4; the field
//	                        is named after the Message accessor the cast value is derived from
//	frames_raw_method_check the explicit `> math.MaxUint8` check on the service-method length
//	frames_unpack_allocs    (proto, function, call, size class, dominating check) of every ChangeLen /
//	                        make([]T, n) in Unpack and its helpers; class const = integer literal (or a
//	                        variable only ever assigned literals before), data = anything else; check =
//	                        SetSize (error returned) | limit-compare | none
//	frames_unbounded_growth (proto, function, what) of reads without any size: ReadAll(conn),
//	                        buffer writes / append inside a loop of Unpack or a helper; a loop write
//	                        dominated by a limit check carries the check as a suffix
//	                        (`loop:Write:limit-compare`)
//	frames_raw_read_landmarks  ordered: alloc:const|alloc:data, SetSize:returned|ignored,
//	                        minus(k|data):returned|ignored (k = literal subtrahend), read:buf|buf[:k]|buf[:data]
//	                        (io.ReadFull / io.ReadAtLeast / Read and what they fill) in rawProto.readMessage
//	frames_raw_minus_guard  the refusing condition of `minus` ($0,$1 = parameters, $d = $0 - $1)
//	frames_readloop_landmarks  session.startReadAndHandle: `defer:recover` (a top-level defer of a
//	                        function literal that calls recover()), `loop:ReadMessage`
//
// Local variable names never appear in a fact; statements that are not landmarks are invisible.

import (
	"fmt"
	"go/ast"
	"go/token"
	"sort"
	"strings"
)

func init() {
	register(Group{
		Name: "Frames",
		Doc:  "Per shipped protocol: connection emits of Pack (one Write/Flush, last touch), whether SetSize's error is returned, raw length-field widths and the method-length check; per Unpack: every ChangeLen/make with the size check that dominates it, unbounded reads, rawProto.readMessage landmarks, recover() in the session read loop. Consumed by Teleport.Props.C05 (C05_frames_*, C05_raw_field_widths) and Teleport.Props.C06 (C06_size_check_dominates_alloc, C06_raw_read_shape, C06_unbounded_growth_known, C06_read_loop_recovers).",
		Gen:  genFrames,
	})
}

type frProto struct{ key, dir, recv string }

var frProtos = []frProto{
	{"raw", "socket", "rawProto"},
	{"json", "proto/jsonproto", "jsonproto"},
	{"pb", "proto/pbproto", "pbproto"},
	{"http", "proto/httproto", "httproto"},
	{"thrift-binary", "proto/thriftproto", "tBinaryProto"},
	{"thrift-struct", "proto/thriftproto", "tStructProto"},
	{"ws-json", "mixer/websocket/jsonSubProto", "jsonSubProto"},
	{"ws-pb", "mixer/websocket/pbSubProto", "pbSubProto"},
}

const frMaxDepth = 2

// frConnKind: "" = not a connection field, "io" or "thrift".
func frConnKind(t ast.Expr) string {
	switch cpText(t) {
	case "io.Reader", "io.Writer", "io.ReadWriter", "io.ReadWriteCloser", "IOWithReadBuffer", "erpc.IOWithReadBuffer",
		"socket.IOWithReadBuffer", "tp.IOWithReadBuffer", "*utils.ReadWriteCounter", "net.Conn", "*bufio.Reader", "*bufio.Writer":
		return "io"
	case "*thrift.THeaderProtocol", "thrift.TProtocol", "*thrift.TBinaryProtocol", "thrift.TTransport":
		return "thrift"
	}
	return ""
}

// accounting methods of utils.ReadWriteCounter: no I/O
var frCounterOps = map[string]bool{"WriteCounter.Zero": true, "ReadCounter.Zero": true, "Zero": true, "Writed": true, "Readed": true}

// frFrame is one function body being read, with the chain of call sites that led to it.
type frFrame struct {
	fd     *ast.FuncDecl
	rv     string
	parent *frFrame
	call   *ast.CallExpr // call site in parent
}

type frCtx struct {
	p     *Pkg
	recv  string
	conn  map[string]string // field -> kind
	probs []string
}

func (x *frCtx) problem(s string) { x.probs = append(x.probs, s) }

// walk reads fr.fd in source order (calls in evaluation order: arguments before the call) and
// descends into same-receiver helper methods. visit is called for every node on exit.
func (x *frCtx) walk(fr *frFrame, depth int, enter func(fr *frFrame, n ast.Node, stack []ast.Node), visit func(fr *frFrame, n ast.Node, stack []ast.Node)) {
	cpWalk(fr.fd.Body, func(n ast.Node, stack []ast.Node) bool {
		if enter != nil {
			enter(fr, n, stack)
		}
		return true
	}, func(n ast.Node, stack []ast.Node) {
		if c, ok := n.(*ast.CallExpr); ok {
			if ch := cpChain(c.Fun); len(ch) == 2 && ch[0] == fr.rv {
				if h := x.p.Func(x.recv, ch[1]); h != nil {
					hrv := recvVarName(h)
					switch {
					case hrv == "":
						x.problem("helper " + ch[1] + " has an unnamed receiver")
					case depth >= frMaxDepth:
						x.problem("helper nesting deeper than " + fmt.Sprint(frMaxDepth) + " at " + ch[1])
					default:
						for a := fr; a != nil; a = a.parent {
							if a.fd == h {
								x.problem("recursive helper " + ch[1])
								return
							}
						}
						x.walk(&frFrame{fd: h, rv: hrv, parent: fr, call: c}, depth+1, enter, visit)
					}
					return
				}
			}
		}
		visit(fr, n, stack)
	})
}

// touch classifies a call as a connection touch: (op, kind) or ("", "").
func (x *frCtx) touch(fr *frFrame, c *ast.CallExpr) (op, kind string) {
	ch := cpChain(c.Fun)
	if len(ch) >= 3 && ch[0] == fr.rv && x.conn[ch[1]] != "" {
		return strings.Join(ch[2:], "."), x.conn[ch[1]]
	}
	for _, a := range c.Args {
		if ac := cpChain(a); len(ac) == 2 && ac[0] == fr.rv && x.conn[ac[1]] != "" {
			return "arg:" + cpLast(ch), x.conn[ac[1]]
		}
	}
	return "", ""
}

// escapes: uses of a connection field that are neither the receiver chain of a call nor a direct
// argument (stored in a local, returned, captured ...): the extractor cannot follow them.
func (x *frCtx) escapes(fr *frFrame) {
	okSel := map[*ast.SelectorExpr]bool{}
	ast.Inspect(fr.fd.Body, func(n ast.Node) bool {
		c, ok := n.(*ast.CallExpr)
		if !ok {
			return true
		}
		e := c.Fun
		for {
			switch y := e.(type) {
			case *ast.SelectorExpr:
				okSel[y] = true
				e = y.X
				continue
			case *ast.CallExpr:
				e = y.Fun
				continue
			case *ast.ParenExpr:
				e = y.X
				continue
			}
			break
		}
		for _, a := range c.Args {
			if se, ok := a.(*ast.SelectorExpr); ok {
				okSel[se] = true
			}
		}
		return true
	})
	ast.Inspect(fr.fd.Body, func(n ast.Node) bool {
		if se, ok := n.(*ast.SelectorExpr); ok && !okSel[se] {
			if ch := cpChain(se); len(ch) == 2 && ch[0] == fr.rv && x.conn[ch[1]] != "" {
				x.problem("connection field " + ch[1] + " escapes in " + fr.fd.Name.Name)
			}
		}
		return true
	})
}

// frErrReturned: is the error of call c (found at `stack`) returned to the caller?
//
//	return X.f(..)   |   if err = X.f(..); err != nil { return .. }   |   .., err = X.f(..) ; if err != nil { return .. }
func frErrReturned(fd *ast.FuncDecl, c *ast.CallExpr, stack []ast.Node) bool {
	if len(stack) == 0 {
		return false
	}
	isErrCheck := func(is *ast.IfStmt, names map[string]bool) bool {
		b, ok := is.Cond.(*ast.BinaryExpr)
		if !ok || b.Op != token.NEQ || cpText(b.Y) != "nil" {
			return false
		}
		id, ok := b.X.(*ast.Ident)
		return ok && names[id.Name] && cpReturns(is.Body.List)
	}
	switch par := stack[len(stack)-1].(type) {
	case *ast.ReturnStmt:
		return true
	case *ast.AssignStmt:
		names := map[string]bool{}
		for _, l := range par.Lhs {
			if id, ok := l.(*ast.Ident); ok && id.Name != "_" {
				names[id.Name] = true
			}
		}
		if len(stack) >= 2 {
			if is, ok := stack[len(stack)-2].(*ast.IfStmt); ok && is.Init == ast.Stmt(par) {
				return isErrCheck(is, names)
			}
		}
		// next sibling statement
		var next ast.Stmt
		ast.Inspect(fd.Body, func(n ast.Node) bool {
			var list []ast.Stmt
			switch b := n.(type) {
			case *ast.BlockStmt:
				list = b.List
			case *ast.CaseClause:
				list = b.Body
			case *ast.CommClause:
				list = b.Body
			}
			for i, s := range list {
				if s == ast.Stmt(par) && i+1 < len(list) {
					next = list[i+1]
				}
			}
			return true
		})
		if is, ok := next.(*ast.IfStmt); ok && is.Init == nil {
			return isErrCheck(is, names)
		}
	}
	return false
}

// frLocals: names introduced by := / var inside fd (not parameters, not the receiver).
func frLocals(fd *ast.FuncDecl) map[string]bool {
	loc := localsOf(fd)
	del := func(fl *ast.FieldList) {
		if fl == nil {
			return
		}
		for _, f := range fl.List {
			for _, n := range f.Names {
				delete(loc, n.Name)
			}
		}
	}
	del(fd.Recv)
	del(fd.Type.Params)
	return loc
}

// frTokens: the local variables (transitively through definitions that start before `before`) and
// the accessor calls (`call:Size`) an expression depends on.
func frTokens(fd *ast.FuncDecl, e ast.Expr, before token.Pos) map[string]bool {
	loc := frLocals(fd)
	out := map[string]bool{}
	var add func(e ast.Expr, depth int)
	add = func(e ast.Expr, depth int) {
		if e == nil || depth > 6 {
			return
		}
		ast.Inspect(e, func(n ast.Node) bool {
			switch y := n.(type) {
			case *ast.CallExpr:
				if se, ok := y.Fun.(*ast.SelectorExpr); ok && len(y.Args) == 0 {
					out["call:"+se.Sel.Name] = true
				}
			case *ast.Ident:
				if loc[y.Name] && !out[y.Name] {
					out[y.Name] = true
					ast.Inspect(fd.Body, func(m ast.Node) bool {
						switch s := m.(type) {
						case *ast.AssignStmt:
							if s.Pos() >= before {
								return true
							}
							for i, l := range s.Lhs {
								if id, ok := l.(*ast.Ident); ok && id.Name == y.Name {
									if len(s.Lhs) == len(s.Rhs) {
										add(s.Rhs[i], depth+1)
									} else if len(s.Rhs) == 1 {
										add(s.Rhs[0], depth+1)
									}
								}
							}
						case *ast.ValueSpec:
							if s.Pos() >= before {
								return true
							}
							for i, id := range s.Names {
								if id.Name == y.Name && i < len(s.Values) {
									add(s.Values[i], depth+1)
								}
							}
						}
						return true
					})
				}
			}
			return true
		})
	}
	add(e, 0)
	return out
}

func frIntersects(a, b map[string]bool) bool {
	for k := range a {
		if b[k] {
			return true
		}
	}
	return false
}

// frSizeClass: "const" for an integer literal / a variable that only ever received integer
// literals before the site (outside loops), else "data".
func frSizeClass(fd *ast.FuncDecl, e ast.Expr, site token.Pos, inLoop bool) string {
	switch y := e.(type) {
	case *ast.BasicLit:
		if y.Kind == token.INT {
			return "const"
		}
	case *ast.ParenExpr:
		return frSizeClass(fd, y.X, site, inLoop)
	case *ast.Ident:
		if !frLocals(fd)[y.Name] {
			return "data"
		}
		n, lit := 0, 0
		ast.Inspect(fd.Body, func(m ast.Node) bool {
			count := func(pos token.Pos, rhs ast.Expr) {
				if pos >= site && !inLoop {
					return
				}
				n++
				if b, ok := rhs.(*ast.BasicLit); ok && b.Kind == token.INT {
					lit++
				}
			}
			switch s := m.(type) {
			case *ast.AssignStmt:
				for i, l := range s.Lhs {
					if id, ok := l.(*ast.Ident); ok && id.Name == y.Name {
						if s.Tok == token.DEFINE || s.Tok == token.ASSIGN {
							if len(s.Lhs) == len(s.Rhs) {
								count(s.Pos(), s.Rhs[i])
							} else {
								count(s.Pos(), nil)
							}
						} else {
							count(s.Pos(), nil)
						}
					}
				}
			case *ast.ValueSpec:
				for i, id := range s.Names {
					if id.Name == y.Name {
						if i < len(s.Values) && len(s.Values) == len(s.Names) {
							count(s.Pos(), s.Values[i])
						} else {
							count(s.Pos(), nil)
						}
					}
				}
			case *ast.IncDecStmt:
				if id, ok := s.X.(*ast.Ident); ok && id.Name == y.Name {
					count(s.Pos(), nil)
				}
			}
			return true
		})
		if n > 0 && n == lit {
			return "const"
		}
	}
	return "data"
}

// frDominators: the statements that lexically dominate a node: for every enclosing block, the
// statements that precede the child leading to the node (closures cut the search).
func frDominators(stack []ast.Node, n ast.Node) []ast.Stmt {
	var out []ast.Stmt
	chain := append(append([]ast.Node{}, stack...), n)
	start := 0
	for i, a := range chain {
		if _, ok := a.(*ast.FuncLit); ok {
			start = i
		}
	}
	for i := start; i+1 < len(chain); i++ {
		var list []ast.Stmt
		switch b := chain[i].(type) {
		case *ast.BlockStmt:
			list = b.List
		case *ast.CaseClause:
			list = b.Body
		case *ast.CommClause:
			list = b.Body
		default:
			continue
		}
		for _, s := range list {
			if s == chain[i+1] {
				break
			}
			out = append(out, s)
		}
	}
	return out
}

// frGuard: which size check among the dominating statements covers a value with tokens `want`
// (nil = any value: used for a call site of a helper).
func frGuard(fd *ast.FuncDecl, doms []ast.Stmt, want map[string]bool) string {
	res := "none"
	for i, s := range doms {
		// SetSize with its error returned
		var call *ast.CallExpr
		switch y := s.(type) {
		case *ast.IfStmt:
			if as, ok := y.Init.(*ast.AssignStmt); ok && len(as.Rhs) == 1 {
				if c, ok := as.Rhs[0].(*ast.CallExpr); ok && cpLast(cpChain(c.Fun)) == "SetSize" {
					if frErrReturned(fd, c, []ast.Node{y, as}) {
						call = c
					}
				}
			}
			// explicit limit comparison
			if b, ok := y.Cond.(*ast.BinaryExpr); ok && y.Init == nil {
				var val, lim ast.Expr
				switch b.Op {
				case token.GTR, token.GEQ:
					val, lim = b.X, b.Y
				case token.LSS, token.LEQ:
					val, lim = b.Y, b.X
				}
				isLimit := lim != nil && cpContainsCall(lim, func(c *ast.CallExpr) bool {
					return strings.Contains(cpLast(cpChain(c.Fun)), "Limit")
				})
				if isLimit && cpReturns(y.Body.List) {
					r := y.Body.List[len(y.Body.List)-1].(*ast.ReturnStmt)
					nonNil := len(r.Results) > 0 && cpText(r.Results[len(r.Results)-1]) != "nil"
					if nonNil && (want == nil || frIntersects(frTokens(fd, val, y.Pos()), want)) {
						res = "limit-compare"
					}
				}
			}
		case *ast.AssignStmt:
			if len(y.Rhs) == 1 {
				if c, ok := y.Rhs[0].(*ast.CallExpr); ok && cpLast(cpChain(c.Fun)) == "SetSize" && i+1 < len(doms) {
					if frErrReturned(fd, c, []ast.Node{y}) {
						call = c
					}
				}
			}
		}
		if call != nil && len(call.Args) == 1 {
			got := frTokens(fd, call.Args[0], call.Pos())
			got["call:Size"] = true
			if want == nil || frIntersects(got, want) {
				res = "SetSize"
			}
		}
	}
	return res
}

func frRow(parts ...string) string { return smTuple(parts...) }

func frRows(rows []string) string {
	if len(rows) == 0 {
		return "[]"
	}
	return "[\n  " + strings.Join(rows, ",\n  ") + "]"
}

func frSet(m map[string]bool) string {
	var ks []string
	for k := range m {
		ks = append(ks, k)
	}
	sort.Strings(ks)
	return strings.Join(ks, ",")
}

// ---------------------------------------------------------------------------------------------

func genFrames(r *Repo, l *Lean) {
	var protocols []string
	var emitRows, sizeRows, allocRows, growRows []string
	for _, pr := range frProtos {
		p := r.Pkg(pr.dir)
		st := guardUnderlyingStruct(p, pr.recv)
		pack, unpack := p.Func(pr.recv, "Pack"), p.Func(pr.recv, "Unpack")
		if p.Err != nil || st == nil || pack == nil || unpack == nil || recvVarName(pack) == "" || recvVarName(unpack) == "" {
			l.Missing("frames_found_"+leanIdent(pr.key), "protocol "+pr.key+": struct "+pr.recv+" with methods Pack and Unpack not found exactly once in package dir '"+pr.dir+"'")
			continue
		}
		x := &frCtx{p: p, recv: pr.recv, conn: map[string]string{}}
		for _, f := range st.Fields.List {
			if k := frConnKind(f.Type); k != "" {
				for _, n := range f.Names {
					x.conn[n.Name] = k
				}
			}
		}
		if len(x.conn) == 0 {
			l.Missing("frames_found_"+leanIdent(pr.key), "protocol "+pr.key+": no connection field (I/O interface, ReadWriteCounter, THeaderProtocol) in struct "+pr.recv)
			continue
		}

		// ---- Pack: emits, touches, SetSize
		type ev struct{ op, kind string }
		var evs []ev
		setsize := "absent"
		setsizeAt := -1
		seen := map[*ast.FuncDecl]bool{}
		x.walk(&frFrame{fd: pack, rv: recvVarName(pack)}, 0, func(fr *frFrame, n ast.Node, stack []ast.Node) {
			if !seen[fr.fd] {
				seen[fr.fd] = true
				x.escapes(fr)
			}
		}, func(fr *frFrame, n ast.Node, stack []ast.Node) {
			c, ok := n.(*ast.CallExpr)
			if !ok {
				return
			}
			ctx := cpContext(stack, n)
			if op, kind := x.touch(fr, c); op != "" {
				if kind == "io" && frCounterOps[op] {
					return
				}
				if ctx.inLit || ctx.inGo || ctx.deferred {
					op = "closure:" + op
				}
				for _, a := range stack {
					switch a.(type) {
					case *ast.ForStmt, *ast.RangeStmt:
						op = "loop:" + op
					}
				}
				evs = append(evs, ev{op, kind})
			}
			if cpLast(cpChain(c.Fun)) == "SetSize" {
				v := "ignored"
				if frErrReturned(fr.fd, c, stack) {
					v = "returned"
				}
				if setsize != "absent" {
					v = "several"
				}
				setsize, setsizeAt = v, len(evs)
			}
		})
		isEmit := func(e ev) bool {
			if e.kind == "thrift" {
				return e.op == "Flush"
			}
			return strings.HasPrefix(e.op, "Write") || e.op == "ReadFrom" || strings.HasPrefix(e.op, "loop:Write") || strings.HasPrefix(e.op, "closure:Write")
		}
		isBuffered := func(e ev) bool {
			return e.kind == "thrift" && e.op != "Flush" && !strings.HasPrefix(e.op, "Transport()")
		}
		lastEmit := -1
		var emits []string
		for i, e := range evs {
			if isEmit(e) {
				lastEmit = i
				emits = append(emits, e.op)
			}
		}
		before, after := map[string]bool{}, map[string]bool{}
		for i, e := range evs {
			if isEmit(e) || isBuffered(e) {
				continue
			}
			if i < lastEmit {
				before[e.op] = true
			} else {
				after[e.op] = true
			}
		}
		when := "before-emit"
		if lastEmit >= 0 && setsizeAt > lastEmit {
			when = "after-emit"
		}
		if setsize == "absent" {
			when = "-"
		}

		// ---- Unpack: allocations, unbounded growth
		var allocs, grows []string
		seen = map[*ast.FuncDecl]bool{}
		sitesSeen := map[token.Pos]bool{} // a helper called from several places is read once per site
		x.walk(&frFrame{fd: unpack, rv: recvVarName(unpack)}, 0, func(fr *frFrame, n ast.Node, stack []ast.Node) {
			if !seen[fr.fd] {
				seen[fr.fd] = true
				x.escapes(fr)
			}
		}, func(fr *frFrame, n ast.Node, stack []ast.Node) {
			inLoop := false
			for _, a := range stack {
				switch a.(type) {
				case *ast.ForStmt, *ast.RangeStmt:
					inLoop = true
				}
			}
			fname := fr.fd.Name.Name
			c, ok := n.(*ast.CallExpr)
			if !ok || sitesSeen[c.Pos()] {
				return
			}
			sitesSeen[c.Pos()] = true
			ch := cpChain(c.Fun)
			var sizeArg ast.Expr
			what := ""
			switch {
			case cpLast(ch) == "ChangeLen" && len(c.Args) == 1:
				sizeArg, what = c.Args[0], "ChangeLen"
			case cpEq(ch, "make") && len(c.Args) >= 2:
				if at, ok := c.Args[0].(*ast.ArrayType); ok && at.Len == nil {
					sizeArg, what = c.Args[1], "make"
					if len(c.Args) == 3 && frSizeClass(fr.fd, c.Args[2], c.Pos(), inLoop) != "const" {
						sizeArg = c.Args[2]
					}
				}
			case cpLast(ch) == "ReadAll":
				grows = append(grows, frRow(pr.key, fname, "ReadAll"))
				return
			case inLoop && (cpLast(ch) == "Write" || cpLast(ch) == "WriteByte" || cpLast(ch) == "WriteString") && len(ch) == 2 && ch[0] != fr.rv:
				// a buffer write in a loop that is dominated by a comparison with the read limit whose
				// branch returns an error is bounded growth: the row says so
				what := "loop:" + cpLast(ch)
				if g := frGuard(fr.fd, frDominators(stack, n), nil); g != "none" {
					what += ":" + g
				}
				grows = append(grows, frRow(pr.key, fname, what))
				return
			case inLoop && cpEq(ch, "append"):
				grows = append(grows, frRow(pr.key, fname, "loop:append"))
				return
			}
			if what == "" {
				return
			}
			class := frSizeClass(fr.fd, sizeArg, c.Pos(), inLoop)
			guard := "-"
			if class == "data" {
				guard = frGuard(fr.fd, frDominators(stack, n), frTokens(fr.fd, sizeArg, c.Pos()))
				// a helper whose caller checked the size before calling it
				for f := fr; guard == "none" && f.parent != nil; f = f.parent {
					var cs []ast.Node
					var found bool
					cpWalk(f.parent.fd.Body, func(m ast.Node, st []ast.Node) bool {
						if m == ast.Node(f.call) {
							cs, found = append([]ast.Node{}, st...), true
						}
						return true
					}, nil)
					if found {
						if g := frGuard(f.parent.fd, frDominators(cs, f.call), nil); g != "none" {
							guard = g + "@caller"
						}
					}
				}
			}
			if inLoop {
				class = "loop:" + class
			}
			allocs = append(allocs, frRow(pr.key, fname, what, class, guard))
		})

		if len(x.probs) > 0 {
			sort.Strings(x.probs)
			l.Missing("frames_shape_"+leanIdent(pr.key), "protocol "+pr.key+": "+strings.Join(x.probs, "; "))
			continue
		}
		protocols = append(protocols, pr.key)
		emitRows = append(emitRows, frRow(pr.key, strings.Join(emits, ","), frSet(before), frSet(after)))
		sizeRows = append(sizeRows, frRow(pr.key, setsize, when))
		allocRows = append(allocRows, allocs...)
		for _, g := range grows { // a set: two appends in one loop are one fact
			dup := false
			for _, h := range growRows {
				dup = dup || h == g
			}
			if !dup {
				growRows = append(growRows, g)
			}
		}
	}
	l.StrList("frames_protocols", "protocols whose Pack and Unpack were found and read completely", protocols)
	l.add("frames_pack_emits", "(protocol, connection emits of Pack in order, other connection touches before the last emit, connection touches after it)",
		"List (String × String × String × String)", frRows(emitRows))
	l.add("frames_pack_setsize", "(protocol, is the error of m.SetSize in Pack returned, position relative to the emit)",
		"List (String × String × String)", frRows(sizeRows))
	l.add("frames_unpack_allocs", "(protocol, function, call, size class, dominating size check) of every ChangeLen / make([]T, n) of Unpack and its helpers, in call order",
		"List (String × String × String × String × String)", frRows(allocRows))
	l.add("frames_unbounded_growth", "(protocol, function, what) of reads that are not sized at all: ReadAll, buffer writes and append inside a loop (de-duplicated)",
		"List (String × String × String)", frRows(growRows))

	genFramesRaw(r, l)
	genFramesReadLoop(r, l)
}

// frField: the Message accessor an expression is derived from (through single-step local
// definitions), or "placeholder" for the literal 0, or "?".
var frAccessors = map[string]string{"Seq": "seq", "ServiceMethod": "method", "Status": "status", "Meta": "meta", "XferPipe": "xfer", "Size": "size", "Mtype": "mtype", "BodyCodec": "codec", "Len": ""}

func frField(fd *ast.FuncDecl, e ast.Expr, depth int) string {
	if depth > 5 || e == nil {
		return "?"
	}
	if b, ok := e.(*ast.BasicLit); ok && b.Value == "0" {
		return "placeholder"
	}
	found := map[string]bool{}
	ast.Inspect(e, func(n ast.Node) bool {
		switch y := n.(type) {
		case *ast.CallExpr:
			if se, ok := y.Fun.(*ast.SelectorExpr); ok {
				if f := frAccessors[se.Sel.Name]; f != "" {
					found[f] = true
				}
			}
		case *ast.Ident:
			if frLocals(fd)[y.Name] {
				defs := cpDefs(fd.Body, y.Name)
				if len(defs) == 1 && defs[0] != nil {
					if f := frField(fd, defs[0], depth+1); f != "?" {
						found[f] = true
					}
				} else if len(defs) > 1 {
					found["?multi"] = true
				}
			}
		}
		return true
	})
	// `bb.Len()` (the whole frame) is the size
	if len(found) == 0 {
		if c, ok := e.(*ast.CallExpr); ok && cpLast(cpChain(c.Fun)) == "Len" && len(cpChain(c.Fun)) == 2 {
			return "size"
		}
		return "?"
	}
	if len(found) > 1 {
		return "?" + frSet(found)
	}
	return frSet(found)
}

func frCastWidth(e ast.Expr) (uint64, ast.Expr) {
	c, ok := e.(*ast.CallExpr)
	if !ok || len(c.Args) != 1 {
		return 0, nil
	}
	id, ok := c.Fun.(*ast.Ident)
	if !ok {
		return 0, nil
	}
	switch id.Name {
	case "byte", "uint8", "int8":
		return 1, c.Args[0]
	case "uint16", "int16":
		return 2, c.Args[0]
	case "uint32", "int32":
		return 4, c.Args[0]
	case "uint64", "int64":
		return 8, c.Args[0]
	}
	return 0, nil
}

func genFramesRaw(r *Repo, l *Lean) {
	p := r.Pkg("socket")
	pack := p.Func("rawProto", "Pack")
	if pack == nil {
		l.Missing("frames_raw_widths", "rawProto.Pack not found")
		return
	}
	x := &frCtx{p: p, recv: "rawProto", conn: map[string]string{}}
	rows := map[string]bool{}
	var check []string
	wroteMethod := false
	x.walk(&frFrame{fd: pack, rv: recvVarName(pack)}, 0, func(fr *frFrame, n ast.Node, stack []ast.Node) {
		// the explicit length check: if <method length> > math.MaxUint8 { return <error> }
		is, ok := n.(*ast.IfStmt)
		if !ok {
			return
		}
		b, ok := is.Cond.(*ast.BinaryExpr)
		if !ok || b.Op != token.GTR {
			return
		}
		// the bound is EVALUATED (math.MaxUint8, 255, 0xff, a named constant such as `1<<8 - 1`, ...)
		if v, ok := cvNewEnv(r, "socket").eval(b.Y, 0, nil); !ok || v.isStr || v.i != 255 {
			return
		}
		f := frField(fr.fd, b.X, 0)
		v := f + ">255"
		if cpReturns(is.Body.List) {
			rs := is.Body.List[len(is.Body.List)-1].(*ast.ReturnStmt)
			if len(rs.Results) > 0 && cpText(rs.Results[len(rs.Results)-1]) != "nil" {
				v += ":return-error"
			}
		}
		if len(cpContext(stack, n).ifs) == 0 && !wroteMethod {
			v += ":before-write"
		}
		check = append(check, v)
	}, func(fr *frFrame, n ast.Node, stack []ast.Node) {
		c, ok := n.(*ast.CallExpr)
		if !ok {
			return
		}
		ch := cpChain(c.Fun)
		add := func(w uint64, val ast.Expr) {
			f := frField(fr.fd, val, 0)
			if f == "method" {
				wroteMethod = true
			}
			rows["("+leanStr(f)+", "+fmt.Sprint(w)+")"] = true
		}
		switch {
		case cpLast(ch) == "WriteByte" && len(c.Args) == 1:
			if w, v := frCastWidth(c.Args[0]); w != 0 {
				add(w, v)
			}
		case cpEq(ch, "binary", "Write") && len(c.Args) == 3:
			if w, v := frCastWidth(c.Args[2]); w != 0 {
				add(w, v)
			} else {
				rows["("+leanStr("?"+cpText(c.Args[2]))+", 0)"] = true
			}
		case cpLast(ch) == "PutUint32" && len(c.Args) == 2:
			add(4, c.Args[1])
		case cpLast(ch) == "PutUint16" && len(c.Args) == 2:
			add(2, c.Args[1])
		case cpLast(ch) == "PutUint64" && len(c.Args) == 2:
			add(8, c.Args[1])
		}
	})
	if len(x.probs) > 0 {
		l.Missing("frames_raw_widths", "rawProto.Pack: "+strings.Join(x.probs, "; "))
		return
	}
	var rs []string
	for k := range rows {
		rs = append(rs, k)
	}
	sort.Strings(rs)
	l.add("frames_raw_widths", "(length field, bytes) of every width cast that rawProto.Pack / writeHeader / writeBody write: the field is the Message accessor the value derives from; placeholder = the literal 0 written before the real size; sorted set",
		"List (String × Nat)", "["+strings.Join(rs, ", ")+"]")
	l.StrList("frames_raw_method_check", "explicit checks `<length> > math.MaxUint8` in rawProto.Pack / writeHeader", check)

	// readMessage landmarks
	rm := p.Func("rawProto", "readMessage")
	if rm == nil {
		l.Missing("frames_raw_read_landmarks", "rawProto.readMessage not found")
	} else {
		var marks []string
		cpWalk(rm.Body, nil, func(n ast.Node, stack []ast.Node) {
			c, ok := n.(*ast.CallExpr)
			if !ok {
				return
			}
			ctx := cpContext(stack, n)
			q := ""
			if ctx.cond || ctx.inLit {
				q = "?"
			}
			ch := cpChain(c.Fun)
			ret := func() string {
				if frErrReturned(rm, c, stack) {
					return ":returned"
				}
				return ":ignored"
			}
			switch {
			case cpLast(ch) == "ChangeLen" && len(c.Args) == 1:
				marks = append(marks, q+"alloc:"+frSizeClass(rm, c.Args[0], c.Pos(), false))
			case cpEq(ch, "make"):
				marks = append(marks, q+"alloc:make")
			case cpLast(ch) == "SetSize":
				marks = append(marks, q+"SetSize"+ret())
			case cpEq(ch, "minus") && len(c.Args) == 2:
				marks = append(marks, q+"minus("+frLitOrData(c.Args[1])+")"+ret())
			case cpEq(ch, "minus"):
				marks = append(marks, q+"minus(?)"+ret())
			case (cpEq(ch, "io", "ReadFull") || cpEq(ch, "io", "ReadAtLeast")) && len(c.Args) >= 2:
				marks = append(marks, q+"read:"+frReadDst(c.Args[1]))
			case cpLast(ch) == "Read" && len(c.Args) == 1:
				marks = append(marks, q+"read:"+frReadDst(c.Args[0]))
			default:
				// a helper of rawProto (or a plain function of the package) that reads from the connection
				// into a slice it was handed: the read is attributed to the call site, with the argument's
				// shape (harmless seed C05-H2 extracted `readXferPipe(bb.B[:xferLen], m)`)
				var h *ast.FuncDecl
				if len(ch) >= 1 {
					if h = p.Func("rawProto", cpLast(ch)); h == nil && len(ch) == 1 {
						h = p.Func("", cpLast(ch))
					}
				}
				if h != nil && h.Type.Params != nil {
					i := 0
					for _, fld := range h.Type.Params.List {
						for _, nm := range fld.Names {
							if i < len(c.Args) {
								reads := false
								ast.Inspect(h.Body, func(nd ast.Node) bool {
									hc, ok := nd.(*ast.CallExpr)
									if !ok {
										return true
									}
									hch := cpChain(hc.Fun)
									if (cpEq(hch, "io", "ReadFull") || cpEq(hch, "io", "ReadAtLeast")) && len(hc.Args) >= 2 && cpText(hc.Args[1]) == nm.Name {
										reads = true
									}
									return true
								})
								if reads {
									marks = append(marks, "?read:"+frReadDst(c.Args[i]))
								}
							}
							i++
						}
					}
				}
			}
		})
		l.StrList("frames_raw_read_landmarks", "rawProto.readMessage: buffer sizing calls, reads from the connection and the checks between them (`?` = conditional)", marks)
	}
	// socket.minus EXECUTED on a grid of arguments (the interpreter of the Redial group): (a, b, refused, result)
	mn := p.Func("", "minus")
	if mn == nil || mn.Type.Params == nil {
		l.Missing("frames_raw_minus_table", "func minus(a, b) not found in package socket")
		return
	}
	var pn []string
	for _, f := range mn.Type.Params.List {
		for _, n := range f.Names {
			pn = append(pn, n.Name)
		}
	}
	if len(pn) != 2 {
		l.Missing("frames_raw_minus_table", "func minus does not have two parameters")
		return
	}
	mx := flNewPkg(p)
	var mrows []string
	for _, a := range []int64{0, 1, 4, 5, 300} {
		for _, b := range []int64{-1, 0, 1, 4, 5, 6, 301} {
			in := &rinterp{x: mx, fuel: redialFuel, fields: map[string]rval{}}
			in.hook = func(in *rinterp, name string, recv *rval, args []rval) (rval, bool) {
				if name == "New" || name == "Errorf" {
					return rvE("minus-error"), true
				}
				return rval{}, false
			}
			va, vb := rvI(a), rvI(b)
			fr := &rframe{vars: map[string]*rval{pn[0]: &va, pn[1]: &vb}}
			ctl := in.execList(fr, mn.Body.List)
			if in.stopped() || ctl.k != rcReturn || len(ctl.vals) != 2 || ctl.vals[0].k != rvInt {
				l.Missing("frames_raw_minus_table", "socket.minus could not be executed: "+in.bad)
				return
			}
			refused := ctl.vals[1].k != rvNil
			mrows = append(mrows, "("+redialIntLean(a)+", "+redialIntLean(b)+", "+trBoolLean(refused)+", "+redialIntLean(ctl.vals[0].i)+")")
		}
	}
	l.add("frames_raw_minus_table", "(a, b, refused, first result) of socket.minus executed for a in {0,1,4,5,300}, b in {-1,0,1,4,5,6,301}",
		"List (Int × Int × Bool × Int)", "[\n  "+strings.Join(mrows, ",\n  ")+"]")
}

// frLitOrData: an integer literal is itself, every other expression is "data".
func frLitOrData(e ast.Expr) string {
	for {
		p, ok := e.(*ast.ParenExpr)
		if !ok {
			break
		}
		e = p.X
	}
	if b, ok := e.(*ast.BasicLit); ok && b.Kind == token.INT {
		return b.Value
	}
	return "data"
}

// frReadDst classifies the destination of a read: the whole buffer (`buf`), its first k bytes for a
// literal k (`buf[:k]`), its first n bytes for a computed n (`buf[:data]`), anything else (`other`).
func frReadDst(e ast.Expr) string {
	se, ok := e.(*ast.SliceExpr)
	if !ok {
		return "buf"
	}
	if se.Low != nil || se.Slice3 || se.High == nil {
		return "other"
	}
	return "buf[:" + frLitOrData(se.High) + "]"
}

func genFramesReadLoop(r *Repo, l *Lean) {
	p := r.Pkg("")
	fd := p.Func("session", "startReadAndHandle")
	if fd == nil {
		l.Missing("frames_readloop_landmarks", "session.startReadAndHandle not found exactly once")
		return
	}
	var marks []string
	for _, s := range fd.Body.List {
		switch y := s.(type) {
		case *ast.DeferStmt:
			lit, ok := y.Call.Fun.(*ast.FuncLit)
			if !ok {
				continue
			}
			// recover() must be called by the deferred function itself (not by a nested closure)
			direct := false
			cpWalk(lit.Body, func(n ast.Node, stack []ast.Node) bool {
				_, nested := n.(*ast.FuncLit)
				return !nested
			}, func(n ast.Node, stack []ast.Node) {
				if c, ok := n.(*ast.CallExpr); ok && cpEq(cpChain(c.Fun), "recover") {
					direct = true
				}
			})
			if direct {
				marks = append(marks, "defer:recover")
			} else {
				marks = append(marks, "defer:other")
			}
		case *ast.ForStmt, *ast.RangeStmt:
			if cpContainsCall(s, func(c *ast.CallExpr) bool { return cpLast(cpChain(c.Fun)) == "ReadMessage" }) {
				marks = append(marks, "loop:ReadMessage")
			}
		default:
			if cpContainsCall(s, func(c *ast.CallExpr) bool { return cpLast(cpChain(c.Fun)) == "ReadMessage" }) {
				marks = append(marks, "other:ReadMessage")
			}
		}
	}
	l.StrList("frames_readloop_landmarks", "top-level statements of session.startReadAndHandle: defers (with or without a direct recover()) and the loop that calls socket.ReadMessage", marks)
}
