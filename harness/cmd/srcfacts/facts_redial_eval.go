package main

// facts_redial_eval.go — a small interpreter for the handful of Go constructs that the retry code of
// dialer.go / session.go is written in (assignments, if, for, return, break, continue, goto to a
// label of an enclosing statement list, ++/--, pointers to locals, integer and boolean operators,
// calls of same-package functions). Used by the fact group Redial to EXECUTE redialCounter.Next,
// Dialer.dialWithRetry, the tail of session.write and the write-retry of AsyncCall / Push on scripted
// inputs, so that the regenerated facts are behaviour tables and do not depend on how the code is
// spelled. Anything outside the subset stops the run with `bad` set: the fact is then MISSING.

import (
	"fmt"
	"go/ast"
	"go/token"
	"strconv"
)

type rvKind int

const (
	rvNil rvKind = iota
	rvBool
	rvInt
	rvStr
	rvSym  // an opaque named value: a package-level variable or constant, an unknown field
	rvConn // a non-nil connection; i = its number
	rvErr  // a non-nil error that is none of the named ones; s = where it came from
	rvPtr
	rvFunc // the callback handed to dialWithRetry
	rvTuple
)

type rval struct {
	k rvKind
	b bool
	i int64
	s string
	p *rval
	t []rval
}

func (v rval) String() string {
	switch v.k {
	case rvNil:
		return "nil"
	case rvBool:
		return fmt.Sprint(v.b)
	case rvInt:
		return fmt.Sprint(v.i)
	case rvStr:
		return strconv.Quote(v.s)
	case rvSym:
		return v.s
	case rvConn:
		return fmt.Sprintf("conn%d", v.i)
	case rvErr:
		return "err:" + v.s
	case rvPtr:
		return "&"
	case rvFunc:
		return "func"
	}
	return "tuple"
}

func rvEqual(a, b rval) bool {
	if a.k != b.k {
		return false
	}
	switch a.k {
	case rvNil:
		return true
	case rvBool:
		return a.b == b.b
	case rvInt, rvConn:
		return a.i == b.i
	case rvStr, rvSym, rvErr:
		return a.s == b.s
	case rvPtr:
		return a.p == b.p
	}
	return false
}

var rvNilV = rval{k: rvNil}

func rvB(b bool) rval    { return rval{k: rvBool, b: b} }
func rvI(i int64) rval   { return rval{k: rvInt, i: i} }
func rvS(s string) rval  { return rval{k: rvSym, s: s} }
func rvE(s string) rval  { return rval{k: rvErr, s: s} }
func rvC(i int64) rval   { return rval{k: rvConn, i: i} }
func rvT(t ...rval) rval { return rval{k: rvTuple, t: t} }

type rctlKind int

const (
	rcNone rctlKind = iota
	rcReturn
	rcBreak
	rcContinue
	rcGoto
	rcStop // fuel exhausted (an endless loop) or an unsupported construct
)

type rctl struct {
	k     rctlKind
	label string
	vals  []rval
}

type rframe struct {
	vars   map[string]*rval
	defers []*ast.CallExpr
}

// runBody executes a function body and then its deferred calls, last first.
func (in *rinterp) runBody(fr *rframe, list []ast.Stmt) rctl {
	ctl := in.execList(fr, list)
	for i := len(fr.defers) - 1; i >= 0 && !in.stopped(); i-- {
		in.eval(fr, fr.defers[i])
	}
	fr.defers = nil
	if in.stopped() {
		return rctl{k: rcStop}
	}
	return ctl
}

// rinterp: one run.
type rinterp struct {
	x      *flPkg
	fuel   int  // loop iterations left
	hang   bool // fuel ran out
	bad    string
	depth  int
	fields map[string]rval // fields of the receiver object `$`
	log    []string
	// hook: calls with a scripted meaning. ok=false: not one of them.
	hook func(in *rinterp, name string, recv *rval, args []rval) (rval, bool)
}

func (in *rinterp) fail(format string, a ...interface{}) rctl {
	if in.bad == "" {
		in.bad = fmt.Sprintf(format, a...)
	}
	return rctl{k: rcStop}
}

func (in *rinterp) stopped() bool { return in.bad != "" || in.hang }

// calls without an effect on the modelled state: their arguments are not even evaluated.
var rvEffectless = map[string]bool{
	"Sleep": true, "Debugf": true, "Infof": true, "Warnf": true, "Errorf": true, "Noticef": true, "Tracef": true,
	"Printf": true, "Println": true, "verifGate": true,
}

var rvBasicTypes = map[string]bool{"int": true, "int32": true, "int64": true, "uint32": true, "uint64": true, "uint": true}

func (in *rinterp) isTypeName(name string) bool {
	if rvBasicTypes[name] {
		return true
	}
	for _, f := range in.x.p.Files {
		for _, d := range f.Decls {
			gd, ok := d.(*ast.GenDecl)
			if !ok || gd.Tok != token.TYPE {
				continue
			}
			for _, sp := range gd.Specs {
				if ts, ok := sp.(*ast.TypeSpec); ok && ts.Name.Name == name {
					return true
				}
			}
		}
	}
	return false
}

// ---------------------------------------------------------------------------------------------
// statements

func (in *rinterp) execList(fr *rframe, list []ast.Stmt) rctl {
	for i := 0; i < len(list); i++ {
		c := in.exec(fr, list[i])
		switch c.k {
		case rcNone:
		case rcGoto:
			at := -1
			for j, s := range list {
				if ls, ok := s.(*ast.LabeledStmt); ok && ls.Label.Name == c.label {
					at = j
				}
			}
			if at < 0 {
				return c // a label of an enclosing list
			}
			if in.fuel--; in.fuel < 0 {
				in.hang = true
				return rctl{k: rcStop}
			}
			i = at - 1
		default:
			return c
		}
		if in.stopped() {
			return rctl{k: rcStop}
		}
	}
	return rctl{}
}

func (in *rinterp) exec(fr *rframe, s ast.Stmt) rctl {
	switch v := s.(type) {
	case nil, *ast.EmptyStmt:
		return rctl{}
	case *ast.BlockStmt:
		return in.execList(fr, v.List)
	case *ast.LabeledStmt:
		return in.exec(fr, v.Stmt)
	case *ast.ExprStmt:
		in.eval(fr, v.X)
	case *ast.DeferStmt:
		// only `defer x.m()`: no arguments whose value would have to be frozen here
		if _, isLit := v.Call.Fun.(*ast.FuncLit); isLit || len(v.Call.Args) != 0 {
			return in.fail("defer of a literal or of a call with arguments")
		}
		fr.defers = append(fr.defers, v.Call)
	case *ast.AssignStmt:
		return in.assign(fr, v)
	case *ast.IncDecStmt:
		cell := in.lvalue(fr, v.X, false)
		if cell == nil || cell.k != rvInt {
			return in.fail("++/-- of something that is not an integer variable")
		}
		if v.Tok == token.INC {
			cell.i++
		} else {
			cell.i--
		}
	case *ast.DeclStmt:
		gd, ok := v.Decl.(*ast.GenDecl)
		if !ok || gd.Tok != token.VAR {
			return in.fail("declaration that is not a var")
		}
		for _, sp := range gd.Specs {
			vs := sp.(*ast.ValueSpec)
			for i, n := range vs.Names {
				val := rvNilV
				if len(vs.Values) == len(vs.Names) {
					val = in.eval(fr, vs.Values[i])
				} else if len(vs.Values) != 0 {
					return in.fail("var with a tuple initialiser")
				}
				c := val
				fr.vars[n.Name] = &c
			}
		}
	case *ast.IfStmt:
		if v.Init != nil {
			if c := in.exec(fr, v.Init); c.k != rcNone {
				return c
			}
		}
		cond := in.eval(fr, v.Cond)
		if in.stopped() {
			return rctl{k: rcStop}
		}
		if cond.k != rvBool {
			return in.fail("condition that is not a boolean: %s", cond)
		}
		if cond.b {
			return in.execList(fr, v.Body.List)
		}
		if v.Else != nil {
			return in.exec(fr, v.Else)
		}
	case *ast.SwitchStmt:
		// expression switch, tagged or tagless, without fallthrough (harmless seed C13-H2 rewrote
		// if-chains of redialCounter.Next and session.write as switches)
		if v.Init != nil {
			if c := in.exec(fr, v.Init); c.k != rcNone {
				return c
			}
		}
		var tag *rval
		if v.Tag != nil {
			t := in.eval(fr, v.Tag)
			tag = &t
		}
		if in.stopped() {
			return rctl{k: rcStop}
		}
		var chosen, def *ast.CaseClause
	clauses:
		for _, cl := range v.Body.List {
			cc, ok := cl.(*ast.CaseClause)
			if !ok {
				return in.fail("switch clause %T", cl)
			}
			if cc.List == nil {
				def = cc
				continue
			}
			for _, e := range cc.List {
				val := in.eval(fr, e)
				if in.stopped() {
					return rctl{k: rcStop}
				}
				hit := false
				if tag == nil {
					if val.k != rvBool {
						return in.fail("switch case that is not a boolean: %s", val)
					}
					hit = val.b
				} else {
					hit = rvEqual(*tag, val)
				}
				if hit {
					chosen = cc
					break clauses
				}
			}
		}
		if chosen == nil {
			chosen = def
		}
		if chosen != nil {
			for _, st := range chosen.Body {
				if br, ok := st.(*ast.BranchStmt); ok && br.Tok == token.FALLTHROUGH {
					return in.fail("fallthrough in a switch")
				}
			}
			c := in.execList(fr, chosen.Body)
			if c.k == rcBreak && c.label == "" {
				return rctl{}
			}
			if c.k != rcNone {
				return c
			}
		}
	case *ast.ForStmt:
		if v.Init != nil {
			if c := in.exec(fr, v.Init); c.k != rcNone {
				return c
			}
		}
		for {
			if in.fuel--; in.fuel < 0 {
				in.hang = true
				return rctl{k: rcStop}
			}
			if v.Cond != nil {
				cond := in.eval(fr, v.Cond)
				if in.stopped() {
					return rctl{k: rcStop}
				}
				if cond.k != rvBool {
					return in.fail("loop condition that is not a boolean: %s", cond)
				}
				if !cond.b {
					break
				}
			}
			c := in.execList(fr, v.Body.List)
			if c.k == rcBreak && c.label == "" {
				break
			}
			if c.k != rcNone && !(c.k == rcContinue && c.label == "") {
				return c
			}
			if v.Post != nil {
				if c := in.exec(fr, v.Post); c.k != rcNone {
					return c
				}
			}
		}
	case *ast.ReturnStmt:
		var vals []rval
		for _, r := range v.Results {
			val := in.eval(fr, r)
			if val.k == rvTuple {
				vals = append(vals, val.t...)
			} else {
				vals = append(vals, val)
			}
		}
		if in.stopped() {
			return rctl{k: rcStop}
		}
		return rctl{k: rcReturn, vals: vals}
	case *ast.BranchStmt:
		lab := ""
		if v.Label != nil {
			lab = v.Label.Name
		}
		switch v.Tok {
		case token.BREAK:
			return rctl{k: rcBreak, label: lab}
		case token.CONTINUE:
			return rctl{k: rcContinue, label: lab}
		case token.GOTO:
			return rctl{k: rcGoto, label: lab}
		}
		return in.fail("branch statement %s", v.Tok)
	default:
		return in.fail("statement %T", s)
	}
	if in.stopped() {
		return rctl{k: rcStop}
	}
	return rctl{}
}

// lvalue: the cell an expression designates (created when `define`).
func (in *rinterp) lvalue(fr *rframe, e ast.Expr, define bool) *rval {
	switch v := flUnparen(e).(type) {
	case *ast.Ident:
		if c, ok := fr.vars[v.Name]; ok && !define {
			return c
		}
		c := &rval{}
		fr.vars[v.Name] = c
		return c
	case *ast.StarExpr:
		p := in.eval(fr, v.X)
		if p.k == rvPtr {
			return p.p
		}
	case *ast.SelectorExpr:
		key := flRaw(v)
		if c, ok := fr.vars[key]; ok {
			return c
		}
		c := &rval{}
		fr.vars[key] = c
		return c
	}
	in.fail("assignment to %s", flRaw(e))
	return nil
}

func (in *rinterp) assign(fr *rframe, v *ast.AssignStmt) rctl {
	if v.Tok == token.ADD_ASSIGN || v.Tok == token.SUB_ASSIGN {
		if len(v.Lhs) != 1 || len(v.Rhs) != 1 {
			return in.fail("compound assignment of a tuple")
		}
		d := in.eval(fr, v.Rhs[0])
		cell := in.lvalue(fr, v.Lhs[0], false)
		if cell == nil || cell.k != rvInt || d.k != rvInt {
			return in.fail("+=/-= of something that is not an integer")
		}
		if v.Tok == token.ADD_ASSIGN {
			cell.i += d.i
		} else {
			cell.i -= d.i
		}
		return rctl{}
	}
	if v.Tok != token.ASSIGN && v.Tok != token.DEFINE {
		return in.fail("assignment operator %s", v.Tok)
	}
	var vals []rval
	if len(v.Rhs) == len(v.Lhs) {
		for _, r := range v.Rhs {
			vals = append(vals, in.eval(fr, r))
		}
	} else if len(v.Rhs) == 1 {
		t := in.eval(fr, v.Rhs[0])
		if t.k != rvTuple || len(t.t) != len(v.Lhs) {
			if in.stopped() {
				return rctl{k: rcStop}
			}
			return in.fail("tuple assignment from %s", t)
		}
		vals = t.t
	} else {
		return in.fail("unbalanced assignment")
	}
	if in.stopped() {
		return rctl{k: rcStop}
	}
	for i, l := range v.Lhs {
		if id, ok := l.(*ast.Ident); ok && id.Name == "_" {
			continue
		}
		// `:=` redeclares only names that are new in this scope; one flat scope per function is
		// enough for the code at hand (no shadowing that matters: checked by the result tables)
		cell := in.lvalue(fr, l, false)
		if cell == nil {
			return rctl{k: rcStop}
		}
		*cell = vals[i]
	}
	return rctl{}
}
