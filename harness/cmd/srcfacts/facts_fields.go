package main

// Fact group `Fields` (property C20, pool hygiene): for every pooled object the list of struct
// fields, and for every reset routine the set of fields it re-initialises on every path.
//
// A field counts as re-initialised by a routine when, in a statement that is executed
// unconditionally (a top-level statement of the body, or of a bare `{}` block in it):
//   - it is the target of an assignment           `r.f = e`, `r.f, x = e1, e2`
//   - a method named Reset is called on it        `r.f.Reset(...)`
//   - its address is passed to an atomic store    `atomic.StoreInt32(&r.f, v)` / `atomic.SwapX`
//   - a method of the same receiver type is called `r.helper(...)` and helper does one of the above
//     (one level of helper resolution only).
// Assignments under `if`/`for`/`switch`/`select`, inside closures or after a `return` are NOT
// counted. A routine that has an early `return`/`goto`/`panic(...)` is reported missing (shape not
// recognised), so the consuming theorem fails instead of trusting a partial reset.

import (
	"go/ast"
	"go/token"
	"sort"
)

func init() {
	register(Group{
		Name: "Fields",
		Doc:  "Struct field lists of the pooled objects and the set of fields (re)initialised by each reset routine; pool put/get call discipline. Consumed by Teleport.Props.C20 (C20_fields_covered, C20_pool_discipline).",
		Gen:  genFields,
	})
}

type structWatch struct{ dir, name string }
type resetWatch struct{ dir, recv, method string }
type callsWatch struct{ dir, recv, fn string }

func genFields(r *Repo, l *Lean) {
	for _, w := range []structWatch{
		{"socket", "message"}, {"", "handlerCtx"}, {"socket", "socket"}, {"utils", "Args"}, {"utils", "argsKV"},
		{"xfer", "XferPipe"}, {"", "callCmd"}, {"utils", "ByteBuffer"},
	} {
		name := w.name + "_fields"
		p := r.Pkg(w.dir)
		st := p.Struct(w.name)
		if st == nil {
			l.Missing(name, "struct "+w.name+" not found exactly once in package dir '"+w.dir+"'")
			continue
		}
		l.StrSet(name, "fields of struct `"+w.name+"` ("+dirName(w.dir)+")", StructFieldNames(st))
	}
	for _, w := range []resetWatch{
		{"socket", "message", "Reset"}, {"", "handlerCtx", "clean"}, {"", "handlerCtx", "reInit"},
		{"socket", "socket", "Reset"}, {"utils", "Args", "Reset"}, {"xfer", "XferPipe", "Reset"},
		{"utils", "ByteBuffer", "Reset"},
	} {
		name := w.recv + "_" + w.method
		p := r.Pkg(w.dir)
		fd := p.Func(w.recv, w.method)
		if fd == nil {
			l.Missing(name, "method "+w.recv+"."+w.method+" not found exactly once in package dir '"+w.dir+"'")
			continue
		}
		set, why := resetSet(p, fd, 1)
		if why != "" {
			l.Missing(name, w.recv+"."+w.method+": "+why)
			continue
		}
		l.StrSet(name, "fields (re)initialised on every path of `"+w.recv+"."+w.method+"` ("+dirName(w.dir)+")", set)
	}
	genClosePool(r, l)
	for _, w := range []callsWatch{
		{"socket", "", "PutMessage"}, {"socket", "", "GetMessage"}, {"utils", "", "ReleaseArgs"},
		{"", "peer", "getContext"}, {"", "peer", "putContext"}, {"socket", "", "GetSocket"},
	} {
		name := w.fn + "_calls"
		p := r.Pkg(w.dir)
		fd := p.Func(w.recv, w.fn)
		if fd == nil {
			l.Missing(name, "function "+w.fn+" not found exactly once in package dir '"+w.dir+"'")
			continue
		}
		l.StrList(name, "calls made by the unconditional statements of `"+w.fn+"` ("+dirName(w.dir)+"); `$` = a parameter, receiver or local variable", topCalls(fd))
	}
	genPoolSites(r, l)
}

// genPoolSites: every syntactic `<pool>.Put(...)` / `<pool>.Get()` on one of the four object pools,
// anywhere in its package (function bodies, deferred calls, closures), with the enclosing function
// declaration. The discipline theorem names the put/get functions it has looked at; this fact says
// that there is no OTHER way an object enters or leaves a pool (e.g. a deferred Put on an error path
// that skips the reset).
func genPoolSites(r *Repo, l *Lean) {
	var rows []string
	for _, w := range []struct{ dir, pool string }{{"socket", "messagePool"}, {"utils", "argsPool"}, {"", "ctxPool"}, {"socket", "socketPool"}} {
		p := r.Pkg(w.dir)
		if p.Err != nil || len(p.Files) == 0 {
			l.Missing("pool_sites", "package dir '"+w.dir+"' does not parse")
			return
		}
		found := false
		for _, f := range p.Files {
			for _, d := range f.Decls {
				fd, ok := d.(*ast.FuncDecl)
				if !ok || fd.Body == nil {
					continue
				}
				fn := fd.Name.Name
				if rt := recvTypeName(fd); rt != "" {
					fn = rt + "." + fn
				}
				ast.Inspect(fd.Body, func(n ast.Node) bool {
					c, ok := n.(*ast.CallExpr)
					if !ok {
						return true
					}
					sel, ok := c.Fun.(*ast.SelectorExpr)
					if !ok {
						return true
					}
					id, ok := sel.X.(*ast.Ident)
					if !ok || id.Name != w.pool {
						return true
					}
					found = true
					rows = append(rows, w.pool+"."+sel.Sel.Name+"@"+fn)
					return true
				})
			}
			// any other mention of the pool variable (passed around, aliased) defeats the site list
			for _, d := range f.Decls {
				fd, ok := d.(*ast.FuncDecl)
				if !ok || fd.Body == nil {
					continue
				}
				ast.Inspect(fd.Body, func(n ast.Node) bool {
					switch x := n.(type) {
					case *ast.SelectorExpr:
						if id, ok := x.X.(*ast.Ident); ok && id.Name == w.pool {
							return false // the pool as receiver of a selector: counted above
						}
					case *ast.Ident:
						if x.Name == w.pool {
							rows = append(rows, w.pool+".escapes@"+fd.Name.Name)
						}
					}
					return true
				})
			}
		}
		if !found {
			l.Missing("pool_sites", "no use of "+w.pool+" found in package dir '"+w.dir+"'")
			return
		}
	}
	sort.Strings(rows)
	l.StrList("pool_sites", "every `<pool>.Get/Put` call on messagePool, argsPool, ctxPool, socketPool with its enclosing function declaration (`pool.Method@func`; `escapes` = the pool variable is used other than as the receiver of a call); sorted", rows)
}

func dirName(d string) string {
	if d == "" {
		return "root package"
	}
	return "package " + d
}

// genClosePool: the pool branch of socket.Close — `if s.fromPool { ...; socketPool.Put(s) }`.
func genClosePool(r *Repo, l *Lean) {
	const name = "socket_Close_pool"
	p := r.Pkg("socket")
	fd := p.Func("socket", "Close")
	if fd == nil {
		l.Missing(name, "method socket.Close not found exactly once")
		return
	}
	rv := recvVarName(fd)
	var branch *ast.IfStmt
	n := 0
	for _, s := range fd.Body.List {
		if is, ok := s.(*ast.IfStmt); ok && is.Init == nil && is.Else == nil && isRecvField(is.Cond, rv) == "fromPool" {
			branch = is
			n++
		}
	}
	if n != 1 {
		l.Missing(name, "socket.Close: expected exactly one top-level `if s.fromPool { ... }` without else")
		return
	}
	if why := shapeProblem(branch.Body); why != "" {
		l.Missing(name, "socket.Close pool branch: "+why)
		return
	}
	puts := false
	for _, c := range callsOf(branch.Body.List, localsOf(fd)) {
		if c == "socketPool.Put" {
			puts = true
		}
	}
	if !puts {
		l.Missing(name, "socket.Close pool branch does not call socketPool.Put unconditionally")
		return
	}
	l.StrSet(name, "fields (re)initialised by the pool branch `if s.fromPool {...}` of `socket.Close` before `socketPool.Put(s)`",
		assignedIn(p, branch.Body.List, rv, recvTypeName(fd), 1))
}

// isRecvField returns f when e is `rv.f`, else "".
func isRecvField(e ast.Expr, rv string) string {
	if rv == "" {
		return ""
	}
	if p, ok := e.(*ast.ParenExpr); ok {
		return isRecvField(p.X, rv)
	}
	se, ok := e.(*ast.SelectorExpr)
	if !ok {
		return ""
	}
	if id, ok := se.X.(*ast.Ident); ok && id.Name == rv {
		return se.Sel.Name
	}
	return ""
}

// shapeProblem reports why the statements of a body cannot be read as "every top-level statement
// runs on every path": an early return, goto, labelled statement or a direct panic call.
func shapeProblem(body *ast.BlockStmt) string {
	why := ""
	last := len(body.List) - 1
	for i, s := range body.List {
		if _, ok := s.(*ast.ReturnStmt); ok && i == last {
			continue
		}
		ast.Inspect(s, func(n ast.Node) bool {
			switch x := n.(type) {
			case *ast.FuncLit:
				return false // a closure's return is its own
			case *ast.ReturnStmt:
				why = "early return (not every statement runs on every path)"
			case *ast.BranchStmt:
				if x.Tok == token.GOTO {
					why = "goto"
				}
			case *ast.CallExpr:
				if id, ok := x.Fun.(*ast.Ident); ok && id.Name == "panic" {
					why = "explicit panic"
				}
			}
			return true
		})
		if why != "" {
			return why
		}
	}
	return ""
}

// unconditionalPrefix returns the top-level statements of body that run on EVERY path: those before
// the first statement that can leave the function early (a return that is not the last statement, a
// goto, an explicit panic - closures excluded). That statement and everything after it is conditional
// and is not looked at. (A reset routine that starts with `if x { return }` therefore has an empty
// prefix and covers nothing; one that ends with `if n <= 0 { return }; copy(...)` keeps everything
// it assigned before - harmless seed C20-H2.)
func unconditionalPrefix(body *ast.BlockStmt) []ast.Stmt {
	last := len(body.List) - 1
	for i, s := range body.List {
		if _, ok := s.(*ast.ReturnStmt); ok && i == last {
			return body.List[:i]
		}
		leaves := false
		ast.Inspect(s, func(n ast.Node) bool {
			switch x := n.(type) {
			case *ast.FuncLit:
				return false
			case *ast.ReturnStmt:
				leaves = true
			case *ast.BranchStmt:
				if x.Tok == token.GOTO {
					leaves = true
				}
			case *ast.CallExpr:
				if id, ok := x.Fun.(*ast.Ident); ok && id.Name == "panic" {
					leaves = true
				}
			}
			return true
		})
		if leaves {
			return body.List[:i]
		}
	}
	return body.List
}

// resetSet: the fields of the receiver (re)initialised on every path of fd.
func resetSet(p *Pkg, fd *ast.FuncDecl, depth int) ([]string, string) {
	rv := recvVarName(fd)
	if rv == "" {
		return nil, "receiver is unnamed"
	}
	return assignedIn(p, unconditionalPrefix(fd.Body), rv, recvTypeName(fd), depth), ""
}

var atomicStores = map[string]bool{
	"StoreInt32": true, "StoreInt64": true, "StoreUint32": true, "StoreUint64": true, "StorePointer": true, "StoreUintptr": true,
	"SwapInt32": true, "SwapInt64": true, "SwapUint32": true, "SwapUint64": true, "SwapPointer": true, "SwapUintptr": true,
}

// assignedIn collects the receiver fields (re)initialised by the unconditional statements.
func assignedIn(p *Pkg, stmts []ast.Stmt, rv, recvType string, depth int) []string {
	set := map[string]bool{}
	var walk func(stmts []ast.Stmt)
	walk = func(stmts []ast.Stmt) {
		for _, s := range stmts {
			switch x := s.(type) {
			case *ast.BlockStmt:
				walk(x.List)
			case *ast.AssignStmt:
				if x.Tok != token.ASSIGN && x.Tok != token.DEFINE {
					continue // `+=` and friends keep part of the old value
				}
				for _, lhs := range x.Lhs {
					if f := isRecvField(lhs, rv); f != "" {
						set[f] = true
					}
				}
			case *ast.ExprStmt:
				call, ok := x.X.(*ast.CallExpr)
				if !ok {
					continue
				}
				se, ok := call.Fun.(*ast.SelectorExpr)
				if !ok {
					continue
				}
				// r.f.Reset(...)
				if f := isRecvField(se.X, rv); f != "" && se.Sel.Name == "Reset" {
					set[f] = true
					continue
				}
				// atomic.StoreX(&r.f, v)
				if id, ok := se.X.(*ast.Ident); ok && id.Name == "atomic" && atomicStores[se.Sel.Name] && len(call.Args) >= 1 {
					if u, ok := call.Args[0].(*ast.UnaryExpr); ok && u.Op == token.AND {
						if f := isRecvField(u.X, rv); f != "" {
							set[f] = true
						}
					}
					continue
				}
				// r.helper(...): one level of same-type helper methods
				if id, ok := se.X.(*ast.Ident); ok && id.Name == rv && depth > 0 {
					if h := p.Func(recvType, se.Sel.Name); h != nil && recvVarName(h) != "" {
						for _, f := range assignedIn(p, unconditionalPrefix(h.Body), recvVarName(h), recvType, depth-1) {
							set[f] = true
						}
					}
				}
			}
		}
	}
	walk(stmts)
	out := make([]string, 0, len(set))
	for f := range set {
		out = append(out, f)
	}
	sort.Strings(out)
	return out
}

// localsOf: receiver, parameters, named results and every name introduced by := / var / range.
func localsOf(fd *ast.FuncDecl) map[string]bool {
	loc := map[string]bool{}
	addList := func(fl *ast.FieldList) {
		if fl == nil {
			return
		}
		for _, f := range fl.List {
			for _, n := range f.Names {
				loc[n.Name] = true
			}
		}
	}
	addList(fd.Recv)
	addList(fd.Type.Params)
	addList(fd.Type.Results)
	ast.Inspect(fd.Body, func(n ast.Node) bool {
		switch x := n.(type) {
		case *ast.AssignStmt:
			if x.Tok == token.DEFINE {
				for _, l := range x.Lhs {
					if id, ok := l.(*ast.Ident); ok {
						loc[id.Name] = true
					}
				}
			}
		case *ast.ValueSpec:
			for _, n := range x.Names {
				loc[n.Name] = true
			}
		case *ast.RangeStmt:
			if x.Tok == token.DEFINE {
				for _, e := range []ast.Expr{x.Key, x.Value} {
					if id, ok := e.(*ast.Ident); ok {
						loc[id.Name] = true
					}
				}
			}
		}
		return true
	})
	return loc
}

// renderCallee renders `a.b.c` with a local root replaced by `$`; "" if not a selector chain / ident.
func renderCallee(e ast.Expr, locals map[string]bool) string {
	switch x := e.(type) {
	case *ast.Ident:
		if locals[x.Name] {
			return "$"
		}
		return x.Name
	case *ast.SelectorExpr:
		base := renderCallee(x.X, locals)
		if base == "" {
			return ""
		}
		return base + "." + x.Sel.Name
	case *ast.ParenExpr:
		return renderCallee(x.X, locals)
	}
	return ""
}

func unwrapCall(e ast.Expr) *ast.CallExpr {
	for {
		switch x := e.(type) {
		case *ast.ParenExpr:
			e = x.X
		case *ast.TypeAssertExpr:
			e = x.X
		case *ast.CallExpr:
			return x
		default:
			return nil
		}
	}
}

// callsOf lists, in source order, the callees of the unconditional statements (expression
// statements and the right-hand sides of assignments / returns are looked at; nothing nested).
func callsOf(stmts []ast.Stmt, locals map[string]bool) []string {
	var out []string
	add := func(e ast.Expr) {
		if c := unwrapCall(e); c != nil {
			if s := renderCallee(c.Fun, locals); s != "" {
				out = append(out, s)
			}
		}
	}
	for _, s := range stmts {
		switch x := s.(type) {
		case *ast.BlockStmt:
			out = append(out, callsOf(x.List, locals)...)
		case *ast.ExprStmt:
			add(x.X)
		case *ast.AssignStmt:
			for _, r := range x.Rhs {
				add(r)
			}
		case *ast.ReturnStmt:
			for _, r := range x.Results {
				add(r)
			}
		}
	}
	return out
}

func topCalls(fd *ast.FuncDecl) []string { return callsOf(fd.Body.List, localsOf(fd)) }
