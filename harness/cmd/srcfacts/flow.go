package main

// flow.go — the syntactic "event flow" walker shared by the fact groups Stages (facts_stages.go)
// and Transitions (facts_transitions.go).
//
// A flow is the ORDERED list of the statements of interest of one function body (or of one
// function literal inside it), in source order, each with
//
//	kind, name   what happens (see the table below, written `<kind>:<name>`; two fields in Lean)
//	x            first detail (container class, argument count, rendered operand ...)
//	y            how the result is used by the call site ("use class")
//	guards       the conditions syntactically enclosing the statement, outermost first, rendered with
//	             local names removed; `fn{`, `go{`, `defer{` mark the body of a function literal /
//	             spawned / deferred code (`fn:<callee>` = literal passed to that call, `fn=<field>` =
//	             literal stored in that field)
//
// Kinds
//
//	stage:<fn>            call of a plugin stage function (a `pre*`/`post*` method of pluginSingleContainer /
//	                      PluginContainer); x = container class: `global` (the peer's container:
//	                      `<peer>.pluginContainer`, `<...>.peer.pluginContainer`), `ctx` (the context's
//	                      current container `<handlerCtx>.pluginContainer`), `handler`, or `?<text>`
//	setcont:<class>       assignment to `<handlerCtx>.pluginContainer`; class as above
//	store:<const>         `changeStatus(const)` (blind store)
//	cas:<to><-<from,..>   `tryChangeStatus(to, from...)`; a `from` that is a local loaded by getStatus() is `status`
//	check:<c,..>          `checkStatus(c...)`
//	load:getStatus        `getStatus()`
//	cmp:<op><const>       comparison of a loaded status (or of getStatus()) with a constant
//	case:<c,..>           clause of a switch over a loaded status (`default` for the default clause)
//	rawstatus:<fn>        atomic access to `.status` that does not go through the four accessors
//	call:<name>           one of the named calls (sessHub.set, sessHub.delete, notifyClosed, socket.Close,
//	                      sess.Close, closeLocked, readDisconnected, redialForClient, writeReply, ...); x = `argc=N`
//	wg:<ctx|call>.<op>    graceCtxWaitGroup / graceCallCmdWaitGroup Add, Done, Wait
//	lock:<field>.<op>     Lock/Unlock/RLock/RUnlock of `.lock` and `.writeLock`
//	spawn:<m> / run:<m>   `AnywayGo(x.m)` / `Go(x.m)` / `go x.m()` versus a direct call `x.m()` (m = startReadAndHandle)
//	flag:set              assignment to the reply-written flag of handleCall; x = the value
//	assign:<field>        assignment of a function literal to a watched field (redialForClientLocked)
//	return                return statement of the flow's own function; x = rendered results
//	branch:<tok>          continue / break / goto
//
// Use classes (y)
//
//	ignored               expression statement
//	fail-return           result tested right away, the failing branch (`!v.OK()`, `v != nil`, `!v`) ends in return
//	fail-continue/-goto/-break/-exit/-fallthrough   likewise with another ending
//	ok-guard              result tested right away, the code that follows runs only under `v.OK()` / `v == nil` / `v`
//	assigned              stored, not tested by the next statement that mentions it
//	returned              operand of a return statement
//	loop-cond, cond, arg  used as a loop condition / inside a condition of another shape / as an argument
//
// Robustness: local names never appear (receiver `$`, a local holding a loaded status `status`, a local
// holding a new session `sess`, a local holding a stage result `<stage>()`, other locals `%`); local
// aliases of selector chains (`hub := s.peer.sessHub`) are resolved; statements that are not of interest do
// not appear, so they can be reordered freely; calls of unexported same-package helpers that are
// not themselves named events are INLINED (two levels), so extracting a helper does not change a
// flow. Anything the walker cannot place is emitted as a `?…` event, which no expected list contains.

import (
	"fmt"
	"go/ast"
	"go/token"
	"regexp"
	"sort"
	"strings"
)

type flEv struct {
	Key, X, Y string
	Guards    []string
	Node      ast.Node // the call the event stands for (nil for comparisons, switch clauses, returns ...)
}

type flPkg struct {
	p       *Pkg
	byName  map[string][]*ast.FuncDecl
	stages  map[string]bool
	visited map[*ast.CallExpr]bool // stage / status calls reached by some root walk
	// extra: additional named calls of one fact group (nil for the groups that share the standard
	// vocabulary: their output does not change). Returns true when it emitted the event.
	extra func(w *flWalker, c *ast.CallExpr, name, recvText, last, argc, use string) bool
}

var flStageName = regexp.MustCompile(`^(pre|post)[A-Z]`)

func flNewPkg(p *Pkg) *flPkg {
	x := &flPkg{p: p, byName: map[string][]*ast.FuncDecl{}, stages: map[string]bool{}, visited: map[*ast.CallExpr]bool{}}
	for _, f := range p.Files {
		for _, d := range f.Decls {
			fd, ok := d.(*ast.FuncDecl)
			if !ok || fd.Body == nil {
				continue
			}
			x.byName[fd.Name.Name] = append(x.byName[fd.Name.Name], fd)
			if rt := recvTypeName(fd); (rt == "pluginSingleContainer" || rt == "PluginContainer") && flStageName.MatchString(fd.Name.Name) {
				x.stages[fd.Name.Name] = true
			}
		}
	}
	return x
}

// named calls: never inlined, always an event. Value = event name ("" = the callee's own name).
var flNamed = map[string]string{
	"notifyClosed": "", "closeLocked": "", "readDisconnected": "", "redialForClient": "", "redialForClientLocked": "",
	"writeReply": "", "write": "", "WriteMessage": "", "ReadMessage": "", "handleFunc": "", "unknownHandleFunc": "",
	"bindCall": "", "bindPush": "", "bindReply": "", "handleCall": "", "handlePush": "", "handleReply": "", "binding": "",
	"handle": "", "newSession": "", "done": "", "cancel": "", "dialWithRetry": "", "getCallHandler": "", "getPushHandler": "",
}

// accessor functions of the status word: raw atomic access inside them is what they are for.
var flStatusAccessors = map[string]bool{"changeStatus": true, "tryChangeStatus": true, "checkStatus": true, "getStatus": true}

type flWalker struct {
	x         *flPkg
	fd        *ast.FuncDecl
	fnName    string
	recv      string
	recvType  string
	ptypes    map[string]string
	locals    map[string]bool
	alias     map[string]ast.Expr
	statusLoc map[string]bool
	sessLoc   map[string]bool
	stageLoc  map[string]string
	flagVar   string
	skipLit   map[*ast.FuncLit]bool
	guards    []string
	after     [][]ast.Stmt
	out       *[]flEv
	depth     int
	stack     []string
	inline    bool // inlined helper: its returns are not the flow's returns
	curCall   *ast.CallExpr
	noInline  bool // attribute every site to its lexical function (site tables)
}

func flBaseType(e ast.Expr) string {
	for {
		switch v := e.(type) {
		case *ast.StarExpr:
			e = v.X
		case *ast.ParenExpr:
			e = v.X
		case *ast.Ident:
			return v.Name
		case *ast.SelectorExpr:
			return v.Sel.Name
		default:
			return ""
		}
	}
}

// flRaw renders an expression with its real names (keys of the per-function tables).
func flRaw(e ast.Expr) string {
	switch v := e.(type) {
	case *ast.Ident:
		return v.Name
	case *ast.SelectorExpr:
		return flRaw(v.X) + "." + v.Sel.Name
	case *ast.ParenExpr:
		return flRaw(v.X)
	case *ast.StarExpr:
		return "*" + flRaw(v.X)
	case *ast.UnaryExpr:
		return v.Op.String() + flRaw(v.X)
	case *ast.CallExpr:
		return flRaw(v.Fun) + "()"
	}
	return fmt.Sprintf("<%T>", e)
}

func flUnparen(e ast.Expr) ast.Expr {
	for {
		p, ok := e.(*ast.ParenExpr)
		if !ok {
			return e
		}
		e = p.X
	}
}

// newWalker prepares the per-function tables for `body` (the body of fd itself or of a literal in it).
func (x *flPkg) newWalker(fd *ast.FuncDecl, name string, body *ast.BlockStmt, out *[]flEv) *flWalker {
	w := &flWalker{x: x, fd: fd, fnName: name, recv: recvVarName(fd), recvType: recvTypeName(fd), out: out,
		ptypes: map[string]string{}, locals: localsOf(fd), alias: map[string]ast.Expr{}, statusLoc: map[string]bool{},
		sessLoc: map[string]bool{}, stageLoc: map[string]string{}, skipLit: map[*ast.FuncLit]bool{}}
	if fd.Type.Params != nil {
		for _, f := range fd.Type.Params.List {
			for _, n := range f.Names {
				w.ptypes[n.Name] = flBaseType(f.Type)
			}
		}
	}
	if w.recv != "" {
		w.ptypes[w.recv] = w.recvType
	}
	// single-assignment aliases, status locals, session locals (whole declaration: literals see the outer locals)
	count := map[string]int{}
	rhsOf := map[string]ast.Expr{}
	note := func(name string, rhs ast.Expr) {
		count[name]++
		rhsOf[name] = rhs
		if rhs == nil {
			return
		}
		if c, ok := flUnparen(rhs).(*ast.CallExpr); ok {
			switch flCalleeName(c) {
			case "getStatus":
				w.statusLoc[name] = true
			case "LoadInt32":
				if len(c.Args) == 1 && strings.HasSuffix(flRaw(c.Args[0]), ".status") && !flStatusAccessors[fd.Name.Name] {
					w.statusLoc[name] = true
				}
			case "newSession":
				w.sessLoc[name] = true
			}
		}
	}
	ast.Inspect(fd.Body, func(n ast.Node) bool {
		switch s := n.(type) {
		case *ast.FuncLit:
			// parameters and named results of literals are locals too
			for _, fl := range []*ast.FieldList{s.Type.Params, s.Type.Results} {
				if fl == nil {
					continue
				}
				for _, f := range fl.List {
					for _, n := range f.Names {
						w.locals[n.Name] = true
						count[n.Name] += 2
					}
				}
			}
		case *ast.AssignStmt:
			for i, l := range s.Lhs {
				if id, ok := l.(*ast.Ident); ok {
					var r ast.Expr
					if len(s.Lhs) == len(s.Rhs) {
						r = s.Rhs[i]
					}
					note(id.Name, r)
				}
			}
		case *ast.ValueSpec:
			for i, id := range s.Names {
				var r ast.Expr
				if len(s.Values) == len(s.Names) {
					r = s.Values[i]
				}
				if r != nil || len(s.Values) > 0 {
					note(id.Name, r)
				}
			}
		case *ast.RangeStmt:
			for _, e := range []ast.Expr{s.Key, s.Value} {
				if id, ok := e.(*ast.Ident); ok {
					count[id.Name] += 2
				}
			}
		case *ast.UnaryExpr:
			if id, ok := s.X.(*ast.Ident); ok && s.Op == token.AND {
				count[id.Name] += 2 // address taken
			}
		case *ast.IncDecStmt:
			if id, ok := s.X.(*ast.Ident); ok {
				count[id.Name] += 2
			}
		}
		return true
	})
	for name, n := range count {
		if n != 1 || rhsOf[name] == nil || w.ptypes[name] != "" {
			continue
		}
		if flIsChain(rhsOf[name]) {
			w.alias[name] = rhsOf[name]
		}
	}
	w.flagVar = flFlagVar(body)
	return w
}

// flIsChain: ident or selector chain of idents.
func flIsChain(e ast.Expr) bool {
	switch v := flUnparen(e).(type) {
	case *ast.Ident:
		return v.Name != "nil" && v.Name != "true" && v.Name != "false"
	case *ast.SelectorExpr:
		return flIsChain(v.X)
	}
	return false
}

// flFlagVar: the boolean local that a deferred literal tests negated (`if !v { ... writeReply ... }`).
func flFlagVar(body *ast.BlockStmt) string {
	found := map[string]bool{}
	for _, s := range body.List {
		d, ok := s.(*ast.DeferStmt)
		if !ok {
			continue
		}
		lit, ok := d.Call.Fun.(*ast.FuncLit)
		if !ok {
			continue
		}
		ast.Inspect(lit.Body, func(n ast.Node) bool {
			is, ok := n.(*ast.IfStmt)
			if !ok {
				return true
			}
			u, ok := flUnparen(is.Cond).(*ast.UnaryExpr)
			if !ok || u.Op != token.NOT {
				return true
			}
			id, ok := flUnparen(u.X).(*ast.Ident)
			if !ok {
				return true
			}
			has := false
			ast.Inspect(is.Body, func(m ast.Node) bool {
				if c, ok := m.(*ast.CallExpr); ok && flCalleeName(c) == "writeReply" {
					has = true
				}
				return true
			})
			if has {
				found[id.Name] = true
			}
			return true
		})
	}
	if len(found) != 1 {
		return ""
	}
	for n := range found {
		return n
	}
	return ""
}

func flCalleeName(c *ast.CallExpr) string {
	switch f := flUnparen(c.Fun).(type) {
	case *ast.Ident:
		return f.Name
	case *ast.SelectorExpr:
		return f.Sel.Name
	}
	return ""
}

// resolve replaces a leading alias local by the chain it stands for.
func (w *flWalker) resolve(e ast.Expr) ast.Expr {
	for i := 0; i < 4; i++ {
		switch v := flUnparen(e).(type) {
		case *ast.Ident:
			if a, ok := w.alias[v.Name]; ok {
				e = a
				continue
			}
			return v
		case *ast.SelectorExpr:
			r := w.resolve(v.X)
			if r != v.X {
				return &ast.SelectorExpr{X: r, Sel: v.Sel}
			}
			return v
		default:
			return e
		}
	}
	return e
}

// rx renders an expression without local names.
func (w *flWalker) rx(e ast.Expr) string {
	switch v := e.(type) {
	case nil:
		return ""
	case *ast.Ident:
		if st, ok := w.stageLoc[v.Name]; ok {
			return st + "()"
		}
		switch {
		case v.Name == w.recv && w.recv != "":
			return "$"
		case w.statusLoc[v.Name]:
			return "status"
		case w.sessLoc[v.Name]:
			return "sess"
		case w.flagVar != "" && v.Name == w.flagVar:
			return "flag"
		}
		if a, ok := w.alias[v.Name]; ok {
			return w.rx(a)
		}
		if w.locals[v.Name] {
			return "%"
		}
		return v.Name
	case *ast.SelectorExpr:
		if st, ok := w.stageLoc[flRaw(v)]; ok {
			return st + "()"
		}
		return w.rx(v.X) + "." + v.Sel.Name
	case *ast.ParenExpr:
		return w.rx(v.X)
	case *ast.CallExpr:
		if w.x.stages[flCalleeName(v)] {
			return flCalleeName(v) + "()"
		}
		var as []string
		for _, a := range v.Args {
			as = append(as, w.rx(a))
		}
		return w.rx(v.Fun) + "(" + strings.Join(as, ",") + ")"
	case *ast.UnaryExpr:
		if _, ok := flUnparen(v.X).(*ast.BinaryExpr); ok {
			return v.Op.String() + "(" + w.rx(v.X) + ")"
		}
		return v.Op.String() + w.rx(v.X)
	case *ast.BinaryExpr:
		side := func(e ast.Expr) string {
			if _, ok := flUnparen(e).(*ast.BinaryExpr); ok {
				return "(" + w.rx(e) + ")"
			}
			return w.rx(e)
		}
		return side(v.X) + " " + v.Op.String() + " " + side(v.Y)
	case *ast.BasicLit:
		return v.Value
	case *ast.StarExpr:
		return "*" + w.rx(v.X)
	case *ast.TypeAssertExpr:
		return w.rx(v.X) + ".(" + flBaseType(v.Type) + ")"
	case *ast.FuncLit:
		return "func{}"
	case *ast.IndexExpr:
		return w.rx(v.X) + "[" + w.rx(v.Index) + "]"
	case *ast.CompositeLit:
		return flBaseType(v.Type) + "{}"
	case *ast.KeyValueExpr:
		return w.rx(v.Key) + ":" + w.rx(v.Value)
	}
	return fmt.Sprintf("?%T", e)
}

func (w *flWalker) emit(key, x, y string) {
	g := make([]string, len(w.guards))
	copy(g, w.guards)
	var n ast.Node
	if w.curCall != nil {
		n = w.curCall
	}
	*w.out = append(*w.out, flEv{key, x, y, g, n})
}

func (w *flWalker) push(g ...string) int {
	n := len(w.guards)
	w.guards = append(w.guards, g...)
	return n
}
func (w *flWalker) pop(n int) { w.guards = w.guards[:n] }

// ---------------------------------------------------------------------------------------------
// use classification

func flTerminates(list []ast.Stmt) string {
	if len(list) == 0 {
		return "fallthrough"
	}
	switch s := list[len(list)-1].(type) {
	case *ast.ReturnStmt:
		return "return"
	case *ast.BranchStmt:
		return strings.ToLower(s.Tok.String())
	case *ast.ExprStmt:
		if c, ok := s.X.(*ast.CallExpr); ok {
			switch flCalleeName(c) {
			case "panic", "Fatalf", "Panicf", "Exit":
				return "exit"
			}
		}
	case *ast.BlockStmt:
		return flTerminates(s.List)
	}
	return "fallthrough"
}

// polarity: how `cond` tests the subject: "fail" (true when the subject is not OK / not nil / false),
// "ok" (true when it is OK / nil / true), "" (another shape).
func flPolarity(cond ast.Expr, subj func(ast.Expr) bool) string {
	cond = flUnparen(cond)
	isOK := func(e ast.Expr) bool { // subject.OK() or the subject itself (a boolean)
		e = flUnparen(e)
		if subj(e) {
			return true
		}
		if c, ok := e.(*ast.CallExpr); ok && len(c.Args) == 0 {
			if s, ok := flUnparen(c.Fun).(*ast.SelectorExpr); ok && s.Sel.Name == "OK" && subj(flUnparen(s.X)) {
				return true
			}
		}
		return false
	}
	isNil := func(e ast.Expr) bool { id, ok := flUnparen(e).(*ast.Ident); return ok && id.Name == "nil" }
	switch v := cond.(type) {
	case *ast.UnaryExpr:
		if v.Op == token.NOT && isOK(v.X) {
			return "fail"
		}
	case *ast.BinaryExpr:
		switch v.Op {
		case token.NEQ, token.EQL:
			var other ast.Expr
			if subj(flUnparen(v.X)) {
				other = v.Y
			} else if subj(flUnparen(v.Y)) {
				other = v.X
			}
			if other != nil && isNil(other) {
				if v.Op == token.NEQ {
					return "fail"
				}
				return "ok"
			}
		case token.LAND:
			// a conjunct that requires the subject to be OK guards the body all the same
			if flPolarity(v.X, subj) == "ok" || flPolarity(v.Y, subj) == "ok" {
				return "ok"
			}
		}
	}
	if isOK(cond) {
		return "ok"
	}
	return ""
}

func flMentions(n ast.Node, raw string) bool {
	hit := false
	ast.Inspect(n, func(m ast.Node) bool {
		if e, ok := m.(ast.Expr); ok {
			switch e.(type) {
			case *ast.Ident, *ast.SelectorExpr:
				if flRaw(e) == raw {
					hit = true
				}
			}
		}
		return !hit
	})
	return hit
}

// useAfterAssign: the statement that next mentions `raw` decides.
func (w *flWalker) useAfterAssign(raw string) string {
	subj := func(e ast.Expr) bool {
		switch e.(type) {
		case *ast.Ident, *ast.SelectorExpr:
			return flRaw(e) == raw
		}
		return false
	}
	for lvl := len(w.after) - 1; lvl >= 0; lvl-- {
		if w.after[lvl] == nil {
			break // function literal boundary
		}
		for _, s := range w.after[lvl] {
			if !flMentions(s, raw) {
				continue
			}
			if is, ok := s.(*ast.IfStmt); ok && is.Init == nil {
				switch flPolarity(is.Cond, subj) {
				case "fail":
					return "fail-" + flTerminates(is.Body.List)
				case "ok":
					return "ok-guard"
				}
			}
			return "assigned"
		}
	}
	return "assigned"
}

// useInCond: the call is (part of) the condition of `is`.
func flUseInIf(is *ast.IfStmt, call *ast.CallExpr) string {
	subj := func(e ast.Expr) bool { return e == ast.Expr(call) }
	switch flPolarity(is.Cond, subj) {
	case "fail":
		return "fail-" + flTerminates(is.Body.List)
	case "ok":
		return "ok-guard"
	}
	return "cond"
}

// ---------------------------------------------------------------------------------------------
// statements

func (w *flWalker) block(list []ast.Stmt) {
	w.after = append(w.after, list)
	for i, s := range list {
		w.after[len(w.after)-1] = list[i+1:]
		if len(list[i+1:]) == 0 {
			w.after[len(w.after)-1] = []ast.Stmt{}
		}
		w.stmt(s)
	}
	w.after = w.after[:len(w.after)-1]
}

func (w *flWalker) stmt(s ast.Stmt) {
	switch v := s.(type) {
	case nil, *ast.EmptyStmt:
	case *ast.BlockStmt:
		w.block(v.List)
	case *ast.LabeledStmt:
		w.stmt(v.Stmt)
	case *ast.ExprStmt:
		w.top(v.X, "ignored")
	case *ast.SendStmt:
		w.expr(v.Chan, "arg")
		w.expr(v.Value, "arg")
	case *ast.IncDecStmt:
		w.expr(v.X, "arg")
	case *ast.AssignStmt:
		w.assign(v.Lhs, v.Rhs)
	case *ast.DeclStmt:
		if gd, ok := v.Decl.(*ast.GenDecl); ok && gd.Tok == token.VAR {
			for _, sp := range gd.Specs {
				vs := sp.(*ast.ValueSpec)
				var lhs []ast.Expr
				for _, n := range vs.Names {
					lhs = append(lhs, n)
				}
				if len(vs.Values) > 0 {
					w.assign(lhs, vs.Values)
				}
			}
		}
	case *ast.GoStmt:
		n := w.push("go{")
		w.goCall(v.Call)
		w.pop(n)
	case *ast.DeferStmt:
		n := w.push("defer{")
		if lit, ok := v.Call.Fun.(*ast.FuncLit); ok {
			w.lit(lit)
		} else {
			w.top(v.Call, "ignored")
		}
		w.pop(n)
	case *ast.ReturnStmt:
		var rs []string
		for _, r := range v.Results {
			w.top(r, "returned")
			rs = append(rs, w.short(r))
		}
		if !w.inline {
			w.emit("return", strings.Join(rs, ","), "")
		}
	case *ast.BranchStmt:
		w.emit("branch:"+strings.ToLower(v.Tok.String()), "", "")
	case *ast.IfStmt:
		w.ifStmt(v)
	case *ast.ForStmt:
		w.stmt(v.Init)
		n := w.push("for")
		if v.Cond != nil {
			w.top(v.Cond, "loop-cond")
			w.pop(n)
			n = w.push("for(" + w.rx(v.Cond) + ")")
		}
		w.block(v.Body.List)
		w.stmt(v.Post)
		w.pop(n)
	case *ast.RangeStmt:
		w.expr(v.X, "arg")
		n := w.push("range")
		w.block(v.Body.List)
		w.pop(n)
	case *ast.SwitchStmt:
		w.stmt(v.Init)
		tag := ""
		isStatus := false
		if v.Tag != nil {
			w.expr(v.Tag, "arg")
			tag = w.rx(v.Tag)
			isStatus = tag == "status" || tag == "$.getStatus()"
		}
		for _, c := range v.Body.List {
			cc := c.(*ast.CaseClause)
			var names []string
			for _, e := range cc.List {
				w.expr(e, "cond")
				names = append(names, w.rx(e))
			}
			lab := strings.Join(names, ",")
			if cc.List == nil {
				lab = "default"
			}
			if isStatus {
				w.emit("case:"+lab, "", "")
			}
			n := w.push("case(" + tag + ":" + lab + ")")
			w.block(cc.Body)
			w.pop(n)
		}
	case *ast.TypeSwitchStmt:
		w.stmt(v.Init)
		w.stmt(v.Assign)
		for _, c := range v.Body.List {
			cc := c.(*ast.CaseClause)
			n := w.push("typecase")
			w.block(cc.Body)
			w.pop(n)
		}
	case *ast.SelectStmt:
		for _, c := range v.Body.List {
			cc := c.(*ast.CommClause)
			n := w.push("select")
			w.stmt(cc.Comm)
			w.block(cc.Body)
			w.pop(n)
		}
	default:
		w.emit(fmt.Sprintf("?stmt:%T", s), "", "")
	}
}

func (w *flWalker) ifStmt(v *ast.IfStmt) {
	// `if x := call; cond`: the condition decides the use of the call
	if as, ok := v.Init.(*ast.AssignStmt); ok && len(as.Lhs) == 1 && len(as.Rhs) == 1 {
		raw := flRaw(as.Lhs[0])
		use := "assigned"
		subj := func(e ast.Expr) bool {
			switch e.(type) {
			case *ast.Ident, *ast.SelectorExpr:
				return flRaw(e) == raw
			}
			return false
		}
		switch flPolarity(v.Cond, subj) {
		case "fail":
			use = "fail-" + flTerminates(v.Body.List)
		case "ok":
			use = "ok-guard"
		}
		w.assignOne(as.Lhs[0], as.Rhs[0], use)
	} else if v.Init != nil {
		w.stmt(v.Init)
	}
	// calls inside the condition
	w.condExpr(v, v.Cond)
	cond := w.rx(v.Cond)
	neg := "!(" + cond + ")"
	// `a != b` is the negation of `a == b`: one spelling for both (an inverted test with swapped
	// branches keeps every statement under the same guard; harmless seed C13-H2)
	isNil := func(e ast.Expr) bool { id, ok := flUnparen(e).(*ast.Ident); return ok && id.Name == "nil" }
	if be, ok := flUnparen(v.Cond).(*ast.BinaryExpr); ok && be.Op == token.NEQ && !isNil(be.X) && !isNil(be.Y) {
		eq := w.rx(&ast.BinaryExpr{X: be.X, Op: token.EQL, Y: be.Y})
		cond, neg = "!("+eq+")", eq
	}
	n := w.push(cond)
	w.block(v.Body.List)
	w.pop(n)
	if v.Else != nil {
		n := w.push(neg)
		w.stmt(v.Else)
		w.pop(n)
	}
}

// condExpr walks a condition: the call that the whole condition tests gets its use from the if.
func (w *flWalker) condExpr(is *ast.IfStmt, e ast.Expr) {
	var calls []*ast.CallExpr
	ast.Inspect(e, func(n ast.Node) bool {
		if _, ok := n.(*ast.FuncLit); ok {
			return false
		}
		if c, ok := n.(*ast.CallExpr); ok {
			calls = append(calls, c)
		}
		return true
	})
	w.exprWith(e, func(c *ast.CallExpr) string {
		for _, k := range calls {
			if k == c {
				return flUseInIf(is, c)
			}
		}
		return "cond"
	})
}

func (w *flWalker) assign(lhs, rhs []ast.Expr) {
	if len(lhs) == len(rhs) {
		for i := range lhs {
			w.assignOne(lhs[i], rhs[i], "")
		}
		return
	}
	for _, r := range rhs {
		w.top(r, "assigned")
	}
	for _, l := range lhs {
		delete(w.stageLoc, flRaw(l))
	}
}

func (w *flWalker) assignOne(l, r ast.Expr, use string) {
	raw := flRaw(l)
	if use == "" {
		use = w.useAfterAssign(raw)
	}
	// function literal stored in a watched field
	if lit, ok := flUnparen(r).(*ast.FuncLit); ok {
		if sel, ok := l.(*ast.SelectorExpr); ok {
			w.emit("assign:"+sel.Sel.Name, "", "")
			if !w.skipLit[lit] {
				n := w.push("fn{", "fn="+sel.Sel.Name)
				w.lit(lit)
				w.pop(n)
			}
			return
		}
	}
	w.top(r, use)
	delete(w.stageLoc, raw)
	if c, ok := flUnparen(r).(*ast.CallExpr); ok && w.x.stages[flCalleeName(c)] {
		w.stageLoc[raw] = flCalleeName(c)
	}
	// container switch of a context
	if sel, ok := l.(*ast.SelectorExpr); ok && sel.Sel.Name == "pluginContainer" {
		if id, ok := flUnparen(sel.X).(*ast.Ident); ok && w.ptypes[id.Name] == "handlerCtx" {
			w.emit("setcont:"+w.contClass(r), "", "")
		} else {
			w.emit("?setcont:"+w.rx(l), w.contClass(r), "")
		}
	}
	if id, ok := l.(*ast.Ident); ok && w.flagVar != "" && id.Name == w.flagVar {
		w.emit("flag:set", w.rx(r), "")
	}
}

// short renders a returned value: identifiers and selector chains in full, a call by its callee.
func (w *flWalker) short(e ast.Expr) string {
	switch v := flUnparen(e).(type) {
	case *ast.Ident, *ast.SelectorExpr, *ast.BasicLit:
		return w.rx(v)
	case *ast.CallExpr:
		if w.x.stages[flCalleeName(v)] {
			return flCalleeName(v) + "()"
		}
		return w.rx(v.Fun) + "()"
	}
	return "%"
}

// contClass classifies a container expression `B.pluginContainer`.
func (w *flWalker) contClass(e ast.Expr) string {
	if id, ok := flUnparen(e).(*ast.Ident); ok && id.Name == "nil" {
		return "nil"
	}
	e = w.resolve(e)
	sel, ok := flUnparen(e).(*ast.SelectorExpr)
	if !ok || sel.Sel.Name != "pluginContainer" {
		return "?" + w.rx(e)
	}
	switch b := flUnparen(sel.X).(type) {
	case *ast.Ident:
		switch w.ptypes[b.Name] {
		case "peer":
			return "global"
		case "handlerCtx":
			return "ctx"
		}
	case *ast.SelectorExpr:
		switch b.Sel.Name {
		case "peer":
			return "global"
		case "handler":
			return "handler"
		}
	}
	return "?" + w.rx(e)
}

// ---------------------------------------------------------------------------------------------
// expressions

// top: the expression whose value the statement uses as `use`.
func (w *flWalker) top(e ast.Expr, use string) {
	t := flUnparen(e)
	w.exprWith(e, func(c *ast.CallExpr) string {
		if ast.Expr(c) == t {
			return use
		}
		return "arg"
	})
}

func (w *flWalker) expr(e ast.Expr, use string) {
	w.exprWith(e, func(*ast.CallExpr) string { return use })
}

// exprWith walks e in evaluation order (operands before the call that consumes them).
func (w *flWalker) exprWith(e ast.Expr, useOf func(*ast.CallExpr) string) {
	switch v := e.(type) {
	case nil:
	case *ast.ParenExpr:
		w.exprWith(v.X, useOf)
	case *ast.CallExpr:
		w.call(v, useOf)
	case *ast.FuncLit:
		n := w.push("fn{")
		w.lit(v)
		w.pop(n)
	case *ast.UnaryExpr:
		w.exprWith(v.X, useOf)
	case *ast.BinaryExpr:
		w.exprWith(v.X, useOf)
		w.exprWith(v.Y, useOf)
		w.cmp(v)
	case *ast.SelectorExpr:
		w.exprWith(v.X, useOf)
	case *ast.StarExpr:
		w.exprWith(v.X, useOf)
	case *ast.TypeAssertExpr:
		w.exprWith(v.X, useOf)
	case *ast.IndexExpr:
		w.exprWith(v.X, useOf)
		w.exprWith(v.Index, useOf)
	case *ast.SliceExpr:
		w.exprWith(v.X, useOf)
	case *ast.KeyValueExpr:
		w.exprWith(v.Value, useOf)
	case *ast.CompositeLit:
		for _, el := range v.Elts {
			w.exprWith(el, useOf)
		}
	}
}

var flStatusConst = regexp.MustCompile(`^status[A-Z]`)

// cmp: comparison of a loaded status with a constant.
func (w *flWalker) cmp(b *ast.BinaryExpr) {
	if (b.Op != token.EQL && b.Op != token.NEQ) || flStatusAccessors[w.fd.Name.Name] {
		return
	}
	l, r := w.rx(b.X), w.rx(b.Y)
	isLoaded := func(s string) bool { return s == "status" || strings.HasSuffix(s, ".getStatus()") }
	switch {
	case isLoaded(l) && flStatusConst.MatchString(r):
		w.emit("cmp:"+b.Op.String()+r, "", "")
	case isLoaded(r) && flStatusConst.MatchString(l):
		w.emit("cmp:"+b.Op.String()+l, "", "")
	case isLoaded(l) || isLoaded(r):
		w.emit("?cmp:"+l+b.Op.String()+r, "", "")
	}
}

func (w *flWalker) lit(lit *ast.FuncLit) {
	if w.skipLit[lit] {
		return
	}
	w.after = append(w.after, nil) // boundary for the use classification
	w.block(lit.Body.List)
	w.after = w.after[:len(w.after)-1]
}

// goCall: `go f(...)`.
func (w *flWalker) goCall(c *ast.CallExpr) {
	if lit, ok := c.Fun.(*ast.FuncLit); ok {
		w.lit(lit)
		return
	}
	if flCalleeName(c) == "startReadAndHandle" {
		w.curCall = c
		w.emit("spawn:startReadAndHandle", "", "")
		w.curCall = nil
		return
	}
	w.top(c, "ignored")
}

func (w *flWalker) argList(args []ast.Expr) string {
	var as []string
	for _, a := range args {
		s := w.rx(a)
		as = append(as, s)
	}
	return strings.Join(as, ",")
}

func (w *flWalker) call(c *ast.CallExpr, useOf func(*ast.CallExpr) string) {
	name := flCalleeName(c)
	use := useOf(c)
	// spawn helpers: Go(f) / AnywayGo(f) / TryGo(f)
	if (name == "Go" || name == "AnywayGo" || name == "TryGo") && len(c.Args) == 1 {
		if _, isSel := flUnparen(c.Fun).(*ast.Ident); isSel {
			n := w.push("go{")
			switch a := flUnparen(c.Args[0]).(type) {
			case *ast.FuncLit:
				w.lit(a)
			case *ast.SelectorExpr:
				if a.Sel.Name == "startReadAndHandle" {
					w.pop(n)
					n = len(w.guards)
					w.curCall = c
					w.emit("spawn:startReadAndHandle", "", use)
					w.curCall = nil
				} else {
					w.emit("?spawn:"+w.rx(a), "", use)
				}
			default:
				w.emit("?spawn:"+w.rx(a), "", use)
			}
			w.pop(n)
			return
		}
	}
	// operands first
	if sel, ok := flUnparen(c.Fun).(*ast.SelectorExpr); ok {
		w.exprWith(sel.X, func(*ast.CallExpr) string { return "arg" })
	} else if lit, ok := flUnparen(c.Fun).(*ast.FuncLit); ok {
		n := w.push("fn{")
		w.lit(lit)
		w.pop(n)
	}
	for _, a := range c.Args {
		if lit, ok := flUnparen(a).(*ast.FuncLit); ok {
			n := w.push("fn{", "fn:"+name)
			w.lit(lit)
			w.pop(n)
			continue
		}
		w.exprWith(a, func(*ast.CallExpr) string { return "arg" })
	}
	var recvExpr ast.Expr
	if sel, ok := flUnparen(c.Fun).(*ast.SelectorExpr); ok {
		recvExpr = w.resolve(sel.X)
	}
	recvText := ""
	if recvExpr != nil {
		recvText = w.rx(recvExpr)
	}
	last := recvText
	if i := strings.LastIndex(last, "."); i >= 0 {
		last = last[i+1:]
	}
	argc := fmt.Sprintf("argc=%d", len(c.Args))
	w.curCall = c
	defer func() { w.curCall = nil }()
	switch {
	case w.x.stages[name] && recvExpr != nil:
		w.x.visited[c] = true
		w.emit("stage:"+name, w.contClass(recvExpr), use)
	case name == "changeStatus" && len(c.Args) == 1:
		w.x.visited[c] = true
		w.emit("store:"+w.rx(c.Args[0]), "", use)
	case name == "tryChangeStatus" && len(c.Args) >= 2:
		w.x.visited[c] = true
		w.emit("cas:"+w.rx(c.Args[0])+"<-"+w.argList(c.Args[1:]), "", use)
	case name == "checkStatus":
		w.x.visited[c] = true
		w.emit("check:"+w.argList(c.Args), "", use)
	case name == "getStatus" && len(c.Args) == 0:
		w.x.visited[c] = true
		w.emit("load:getStatus", "", use)
	case (name == "StoreInt32" || name == "CompareAndSwapInt32" || name == "LoadInt32" || name == "SwapInt32" || name == "AddInt32") &&
		len(c.Args) >= 1 && strings.HasSuffix(flRaw(c.Args[0]), ".status"):
		if !flStatusAccessors[w.fd.Name.Name] {
			w.emit("rawstatus:"+name, w.argList(c.Args[1:]), use)
		}
	case last == "sessHub" && (name == "set" || name == "delete"):
		w.emit("call:sessHub."+name, argc, use)
	case last == "graceCtxWaitGroup" && (name == "Add" || name == "Done" || name == "Wait"):
		w.emit("wg:ctx."+name, "", use)
	case last == "graceCallCmdWaitGroup" && (name == "Add" || name == "Done" || name == "Wait"):
		w.emit("wg:call."+name, "", use)
	case (last == "lock" || last == "writeLock") && (name == "Lock" || name == "Unlock" || name == "RLock" || name == "RUnlock"):
		w.emit("lock:"+last+"."+name, "", use)
	case name == "Close" && last == "socket":
		w.emit("call:socket.Close", argc, use)
	case name == "Close" && recvText == "sess":
		w.emit("call:sess.Close", argc, use)
	case name == "Close" && recvExpr != nil:
		w.emit("call:%.Close", recvText, use)
	case name == "startReadAndHandle":
		w.emit("run:startReadAndHandle", "", use)
	default:
		if w.x.extra != nil && w.x.extra(w, c, name, recvText, last, argc, use) {
			return
		}
		if ev, ok := flNamed[name]; ok {
			if ev == "" {
				ev = name
			}
			w.emit("call:"+ev, argc, use)
			return
		}
		w.tryInline(c, name, recvExpr != nil)
	}
}

// tryInline: an unexported helper of the same package whose body has events is walked in place.
func (w *flWalker) tryInline(c *ast.CallExpr, name string, isMethod bool) {
	if w.noInline || name == "" || ast.IsExported(name) || w.depth >= 2 {
		return
	}
	if w.locals[name] && !isMethod {
		return // a local function value
	}
	for _, s := range w.stack {
		if s == name {
			return
		}
	}
	var cands []*ast.FuncDecl
	for _, fd := range w.x.byName[name] {
		if (fd.Recv != nil) == isMethod {
			cands = append(cands, fd)
		}
	}
	if len(cands) == 0 {
		return
	}
	type res struct{ evs []flEv }
	var with []res
	for _, fd := range cands {
		var evs []flEv
		sub := w.x.newWalker(fd, name, fd.Body, &evs)
		sub.depth = w.depth + 1
		sub.stack = append(append([]string{}, w.stack...), name)
		sub.inline = true
		sub.block(fd.Body.List)
		if len(evs) > 0 {
			with = append(with, res{evs})
		}
	}
	switch len(with) {
	case 0:
	case 1:
		for _, e := range with[0].evs {
			g := append(append([]string{}, w.guards...), e.Guards...)
			*w.out = append(*w.out, flEv{e.Key, e.X, e.Y, g, e.Node})
		}
	default:
		w.emit("?ambiguous:"+name, "", "")
	}
}

// ---------------------------------------------------------------------------------------------
// roots

type flRoot struct {
	Name string
	fd   *ast.FuncDecl
	body *ast.BlockStmt
	skip []*ast.FuncLit
	why  string // non-empty: not found
}

func (x *flPkg) methodRoot(recv, name string) flRoot {
	fd := x.p.Func(recv, name)
	r := flRoot{Name: recv + "." + name, fd: fd}
	if fd == nil {
		r.why = "function " + recv + "." + name + " not found (or declared more than once)"
		return r
	}
	r.body = fd.Body
	return r
}

// litRoot: the unique function literal of `recv.name` selected by `pick`.
func (x *flPkg) litRoot(recv, name, tag string, pick func(fd *ast.FuncDecl) []*ast.FuncLit) (flRoot, *ast.FuncLit) {
	fd := x.p.Func(recv, name)
	r := flRoot{Name: recv + "." + name + "#" + tag, fd: fd}
	if fd == nil {
		r.why = "function " + recv + "." + name + " not found (or declared more than once)"
		return r, nil
	}
	lits := pick(fd)
	if len(lits) != 1 {
		r.why = fmt.Sprintf("%s.%s: expected exactly one %s function literal, found %d", recv, name, tag, len(lits))
		return r, nil
	}
	r.body = lits[0].Body
	return r, lits[0]
}

// reachesCall: does the node call `name` directly, or through unexported same-package helpers (three levels)?
func (x *flPkg) reachesCall(n ast.Node, name string, depth int, seen map[string]bool) bool {
	hit := false
	ast.Inspect(n, func(m ast.Node) bool {
		if hit {
			return false
		}
		c, ok := m.(*ast.CallExpr)
		if !ok {
			return true
		}
		cn := flCalleeName(c)
		if cn == name {
			hit = true
			return false
		}
		if depth < 3 && cn != "" && !ast.IsExported(cn) && !seen[cn] {
			seen[cn] = true
			for _, h := range x.byName[cn] {
				if x.reachesCall(h.Body, name, depth+1, seen) {
					hit = true
				}
			}
		}
		return !hit
	})
	return hit
}

// acceptLits: innermost literals that reach a postAccept call (directly or through a helper).
func (x *flPkg) acceptLits(fd *ast.FuncDecl) []*ast.FuncLit {
	var all []*ast.FuncLit
	ast.Inspect(fd.Body, func(n ast.Node) bool {
		if l, ok := n.(*ast.FuncLit); ok {
			all = append(all, l)
		}
		return true
	})
	has := func(l *ast.FuncLit) bool { return x.reachesCall(l.Body, "postAccept", 0, map[string]bool{}) }
	var out []*ast.FuncLit
	for _, l := range all {
		if !has(l) {
			continue
		}
		inner := false
		for _, m := range all {
			if m != l && m.Pos() >= l.Pos() && m.End() <= l.End() && has(m) {
				inner = true
			}
		}
		if !inner {
			out = append(out, l)
		}
	}
	return out
}

// flAcceptLits: innermost literals that contain a postAccept call (superseded by acceptLits).
func flAcceptLits(fd *ast.FuncDecl) []*ast.FuncLit {
	var all []*ast.FuncLit
	ast.Inspect(fd.Body, func(n ast.Node) bool {
		if l, ok := n.(*ast.FuncLit); ok {
			all = append(all, l)
		}
		return true
	})
	has := func(l *ast.FuncLit) bool {
		h := false
		ast.Inspect(l.Body, func(n ast.Node) bool {
			if c, ok := n.(*ast.CallExpr); ok && flCalleeName(c) == "postAccept" {
				h = true
			}
			return true
		})
		return h
	}
	var out []*ast.FuncLit
	for _, l := range all {
		if !has(l) {
			continue
		}
		inner := false
		for _, m := range all {
			if m != l && m.Pos() >= l.Pos() && m.End() <= l.End() && has(m) {
				inner = true
			}
		}
		if !inner {
			out = append(out, l)
		}
	}
	return out
}

// flRedialLits: literals assigned to `<x>.redialForClientLocked`.
func flRedialLits(fd *ast.FuncDecl) []*ast.FuncLit {
	var out []*ast.FuncLit
	ast.Inspect(fd.Body, func(n ast.Node) bool {
		as, ok := n.(*ast.AssignStmt)
		if !ok || len(as.Lhs) != len(as.Rhs) {
			return true
		}
		for i, l := range as.Lhs {
			if sel, ok := l.(*ast.SelectorExpr); ok && sel.Sel.Name == "redialForClientLocked" {
				if lit, ok := flUnparen(as.Rhs[i]).(*ast.FuncLit); ok {
					out = append(out, lit)
				}
			}
		}
		return true
	})
	return out
}

// walkRoot returns the flow of a root.
func (x *flPkg) walkRoot(r flRoot, noInline bool) []flEv {
	var evs []flEv
	w := x.newWalker(r.fd, r.Name, r.body, &evs)
	w.noInline = noInline
	for _, l := range r.skip {
		w.skipLit[l] = true
	}
	w.block(r.body.List)
	return evs
}

// the roots both groups look at.
func (x *flPkg) standardRoots() []flRoot {
	var rs []flRoot
	for _, m := range [][2]string{
		{"session", "AsyncCall"}, {"session", "Push"}, {"session", "startReadAndHandle"},
		{"handlerCtx", "binding"}, {"handlerCtx", "bindCall"}, {"handlerCtx", "bindPush"}, {"handlerCtx", "bindReply"},
		{"handlerCtx", "handleCall"}, {"handlerCtx", "handlePush"}, {"handlerCtx", "handleReply"},
		{"peer", "ServeConn"},
	} {
		rs = append(rs, x.methodRoot(m[0], m[1]))
	}
	acc, _ := x.litRoot("peer", "serveListener", "accept", x.acceptLits)
	rs = append(rs, acc)
	red, redLit := x.litRoot("peer", "Dial", "redial", flRedialLits)
	dial := x.methodRoot("peer", "Dial")
	if redLit != nil {
		dial.skip = append(dial.skip, redLit)
	} else if dial.why == "" && red.why != "" {
		// no redial literal: Dial is still walked whole; the redial root is reported missing
	}
	rs = append(rs, dial, red)
	for _, m := range [][2]string{
		{"session", "closeLocked"}, {"session", "readDisconnected"}, {"session", "Close"}, {"session", "redialForClient"},
		{"session", "write"}, {"session", "SetID"}, {"session", "goonRead"},
	} {
		rs = append(rs, x.methodRoot(m[0], m[1]))
	}
	return rs
}

// ---------------------------------------------------------------------------------------------
// Lean rendering

func flLeanName(root string) string {
	r := strings.NewReplacer(".", "_", "#", "_")
	return r.Replace(root)
}

// flSplitKey: "kind:name" -> (kind, name); "return" -> ("return", "").
func flSplitKey(k string) (string, string) {
	if i := strings.Index(k, ":"); i >= 0 {
		return k[:i], k[i+1:]
	}
	return k, ""
}

func flEvLean(e flEv) string {
	kind, name := flSplitKey(e.Key)
	return "(" + leanStr(kind) + ", " + leanStr(name) + ", " + leanStr(e.X) + ", " + leanStr(e.Y) + ", " + strList(e.Guards) + ")"
}

const flEvType = "List (String × String × String × String × List String)"

// flUnplaced lists the `?…` events of a flow (they are recorded as missing facts of the group).
func flUnplaced(root string, evs []flEv) []string {
	var out []string
	for _, e := range evs {
		if strings.HasPrefix(e.Key, "?") {
			out = append(out, root+": unplaced "+e.Key)
		}
	}
	return out
}

func flFlowLean(evs []flEv) string {
	if len(evs) == 0 {
		return "[]"
	}
	var rows []string
	for _, e := range evs {
		rows = append(rows, flEvLean(e))
	}
	return "[\n  " + strings.Join(rows, ",\n  ") + "]"
}

func flFilter(evs []flEv, keep func(flEv) bool) []flEv {
	var out []flEv
	for _, e := range evs {
		if keep(e) || strings.HasPrefix(e.Key, "?") {
			out = append(out, e)
		}
	}
	return out
}

func flKind(e flEv) string {
	if i := strings.Index(e.Key, ":"); i >= 0 {
		return e.Key[:i]
	}
	return e.Key
}

func flSortedRows(rows [][]string) string {
	sort.Slice(rows, func(i, j int) bool { return strings.Join(rows[i], "\x00") < strings.Join(rows[j], "\x00") })
	var out []string
	prev := ""
	for _, r := range rows {
		q := make([]string, len(r))
		for i, s := range r {
			q[i] = leanStr(s)
		}
		t := "(" + strings.Join(q, ", ") + ")"
		if t != prev {
			out = append(out, t)
		}
		prev = t
	}
	if len(out) == 0 {
		return "[]"
	}
	return "[\n  " + strings.Join(out, ",\n  ") + "]"
}
