package main

// Fact group `Stages` (property C09, plugin hooks; C03 for the reply-written flag of handleCall).
//
// Emits into Gen/Stages.lean
//
//	stage_funcs            names of the stage functions of plugin.go (methods `pre*`/`post*` of
//	                       pluginSingleContainer / PluginContainer); set
//	stage_loops            for each of them the shape of its loop:
//	                       (function, asserted interface, invoked method, iteration, verdict test, stop, tail, recover)
//	                         iteration  `range $.plugins` (forward range over the receiver's list, index unused) or `?…`
//	                         test       `!v.OK()` | `v != nil` | `?…`      how the verdict of one plugin is tested
//	                         stop       `return v` | `return` | `exit` | `none` | `?…`   what a non-OK verdict does
//	                         tail       `return nil` | `end` | `?…`        how the function ends after the loop
//	                         recover    `recover` | `none`                  deferred recover() present
//	stages_<root>          the flow (see flow.go) of each watched function restricted to the kinds
//	                       stage, setcont, flag, return and the calls writeReply, write, ReadMessage, handleFunc,
//	                       unknownHandleFunc, bind*, handle*, done, sess.Close
//	stage_unwatched_sites  (function, stage) of every stage call in the root package that no watched
//	                       flow reaches (directly or through an inlined helper); set
//
// Watched roots: session.AsyncCall, Push, startReadAndHandle; handlerCtx.binding, bindCall, bindPush, bindReply,
// handleCall, handlePush, handleReply; peer.ServeConn, the accept literal of peer.serveListener, peer.Dial
// (without the redial literal), the redial literal of peer.Dial; session.closeLocked, readDisconnected.

import (
	"go/ast"
	"go/token"
	"sort"
	"strings"
)

func init() {
	register(Group{
		Name: "Stages",
		Doc:  "Ordered plugin stage calls of every function that runs message or connection hooks (container class, how the verdict is used, enclosing conditions), the loop shape of every stage function of plugin.go, and the position of handleCall's reply-written flag. Consumed by Teleport.Props.C09 (C09_callsite_order, C09_stage_loops, C09_veto_sites) and Teleport.Props.C03 (C03_writed_before_postwrite).",
		Gen:  genStages,
	})
}

var stagesRoots = map[string]bool{
	"session.AsyncCall": true, "session.Push": true, "session.startReadAndHandle": true,
	"handlerCtx.binding": true, "handlerCtx.bindCall": true, "handlerCtx.bindPush": true, "handlerCtx.bindReply": true,
	"handlerCtx.handleCall": true, "handlerCtx.handlePush": true, "handlerCtx.handleReply": true,
	"peer.ServeConn": true, "peer.serveListener#accept": true, "peer.Dial": true, "peer.Dial#redial": true,
	"session.closeLocked": true, "session.readDisconnected": true,
}

var stagesCalls = map[string]bool{
	"call:writeReply": true, "call:write": true, "call:ReadMessage": true, "call:handleFunc": true, "call:unknownHandleFunc": true,
	"call:bindCall": true, "call:bindPush": true, "call:bindReply": true, "call:handleCall": true, "call:handlePush": true,
	"call:handleReply": true, "call:done": true, "call:sess.Close": true,
}

func stagesKeep(e flEv) bool {
	switch flKind(e) {
	case "stage", "setcont", "flag", "return":
		return true
	}
	return stagesCalls[e.Key]
}

func genStages(r *Repo, l *Lean) {
	p := r.Pkg("")
	if p.Err != nil || len(p.Files) == 0 {
		l.Missing("stages_parse", "root package does not parse")
		return
	}
	x := flNewPkg(p)

	// ---- stage functions and their loops
	var fns []string
	for n := range x.stages {
		fns = append(fns, n)
	}
	sort.Strings(fns)
	if len(fns) == 0 {
		l.Missing("stage_funcs", "no pre*/post* method of pluginSingleContainer / PluginContainer found")
	} else {
		l.StrSet("stage_funcs", "names of the stage functions of plugin.go", fns)
	}
	var loops [][]string
	for _, n := range fns {
		decls := x.byName[n]
		var fd *ast.FuncDecl
		cnt := 0
		for _, d := range decls {
			if rt := recvTypeName(d); rt == "pluginSingleContainer" || rt == "PluginContainer" {
				fd = d
				cnt++
			}
		}
		if cnt != 1 {
			loops = append(loops, []string{n, "?declared " + stItoa(cnt) + " times", "", "", "", "", "", ""})
			continue
		}
		loops = append(loops, stageLoopShape(fd))
	}
	l.add("stage_loops", "(function, asserted interface, invoked method, iteration, verdict test, stop, tail, recover) of every stage function; sorted by function",
		"List (String × String × String × String × String × String × String × String)", flSortedRows(loops))

	// ---- flows
	for _, root := range x.standardRoots() {
		if !stagesRoots[root.Name] {
			continue
		}
		name := "stages_" + flLeanName(root.Name)
		if root.why != "" {
			l.Missing(name, root.why)
			continue
		}
		evs := flFilter(x.walkRoot(root, false), stagesKeep)
		l.missing = append(l.missing, flUnplaced(name, evs)...)
		l.add(name, "flow of "+root.Name+" (kind, name, detail, use class, enclosing conditions); ordered as in the source",
			flEvType, flFlowLean(evs))
	}

	// ---- stage calls that no watched flow reaches
	var unw [][]string
	for _, f := range p.Files {
		for _, d := range f.Decls {
			fd, ok := d.(*ast.FuncDecl)
			if !ok || fd.Body == nil {
				continue
			}
			ast.Inspect(fd.Body, func(n ast.Node) bool {
				c, ok := n.(*ast.CallExpr)
				if !ok {
					return true
				}
				if _, isSel := flUnparen(c.Fun).(*ast.SelectorExpr); isSel && x.stages[flCalleeName(c)] && !x.visited[c] {
					unw = append(unw, []string{smFuncName(fd), flCalleeName(c)})
				}
				return true
			})
		}
	}
	l.add("stage_unwatched_sites", "(function, stage) of every stage call of the root package outside the watched flows; sorted set",
		"List (String × String)", flSortedRows(unw))
}

func stItoa(n int) string {
	if n == 0 {
		return "0"
	}
	s := ""
	for n > 0 {
		s = string(rune('0'+n%10)) + s
		n /= 10
	}
	return s
}

// stageLoopShape recognises
//
//	[var v T] [defer func(){ if p := recover(); p != nil {...} }()]
//	for _, pl := range <recv>.plugins {
//	    if a, ok := pl.(Iface); ok {
//	        [...]
//	        if v = a.Method(args); !v.OK() | v != nil { [log]; return [v] | Fatalf }
//	    }
//	}
//	[return nil]
//
// and reports every deviation as `?…` in the field it concerns.
func stageLoopShape(fd *ast.FuncDecl) []string {
	name := fd.Name.Name
	row := []string{name, "?", "?", "?", "?", "?", "?", "none"}
	rv := recvVarName(fd)
	var loop *ast.RangeStmt
	nLoops := 0
	tail := "end"
	for i, s := range fd.Body.List {
		switch v := s.(type) {
		case *ast.DeclStmt:
		case *ast.DeferStmt:
			hasRecover := false
			ast.Inspect(v, func(n ast.Node) bool {
				if c, ok := n.(*ast.CallExpr); ok && flCalleeName(c) == "recover" {
					hasRecover = true
				}
				return true
			})
			if hasRecover {
				row[7] = "recover"
			} else {
				row[7] = "?defer without recover"
			}
		case *ast.RangeStmt:
			loop = v
			nLoops++
		case *ast.ReturnStmt:
			if i != len(fd.Body.List)-1 {
				tail = "?return before the end"
			} else if len(v.Results) == 0 {
				tail = "end"
			} else if len(v.Results) == 1 && flRaw(v.Results[0]) == "nil" {
				tail = "return nil"
			} else {
				tail = "?return " + flRaw(v.Results[0])
			}
		default:
			tail = "?statement outside the loop"
		}
	}
	row[6] = tail
	if nLoops != 1 {
		row[3] = "?" + stItoa(nLoops) + " range loops"
		return row
	}
	// iteration
	keyOK := loop.Key == nil
	if id, ok := loop.Key.(*ast.Ident); ok && id.Name == "_" {
		keyOK = true
	}
	val, _ := loop.Value.(*ast.Ident)
	if keyOK && val != nil && rv != "" && flRaw(loop.X) == rv+".plugins" {
		row[3] = "range $.plugins"
	} else {
		row[3] = "?range " + flRaw(loop.X)
		return row
	}
	// body: one type-assertion if
	if len(loop.Body.List) != 1 {
		row[1] = "?loop body has " + stItoa(len(loop.Body.List)) + " statements"
		return row
	}
	outer, ok := loop.Body.List[0].(*ast.IfStmt)
	if !ok || outer.Else != nil {
		row[1] = "?loop body is not a single if"
		return row
	}
	as, ok := outer.Init.(*ast.AssignStmt)
	if !ok || len(as.Lhs) != 2 || len(as.Rhs) != 1 {
		row[1] = "?no type assertion"
		return row
	}
	ta, ok := as.Rhs[0].(*ast.TypeAssertExpr)
	okVar, _ := as.Lhs[1].(*ast.Ident)
	asserted, _ := as.Lhs[0].(*ast.Ident)
	if !ok || okVar == nil || asserted == nil || flRaw(ta.X) != val.Name || flRaw(outer.Cond) != okVar.Name {
		row[1] = "?type assertion of another shape"
		return row
	}
	row[1] = flBaseType(ta.Type)
	// inside: exactly one verdict if; other statements must be plain assignments / calls without control flow
	var verdict *ast.IfStmt
	for _, s := range outer.Body.List {
		switch v := s.(type) {
		case *ast.IfStmt:
			if verdict != nil {
				row[2] = "?more than one if in the assertion body"
				return row
			}
			verdict = v
		case *ast.AssignStmt, *ast.ExprStmt:
		default:
			row[2] = "?control flow in the assertion body"
			return row
		}
	}
	if verdict == nil || verdict.Else != nil {
		row[2] = "?no verdict test"
		return row
	}
	vas, ok := verdict.Init.(*ast.AssignStmt)
	if !ok || len(vas.Lhs) != 1 || len(vas.Rhs) != 1 {
		row[2] = "?verdict not assigned in the if"
		return row
	}
	call, ok := vas.Rhs[0].(*ast.CallExpr)
	vname := flRaw(vas.Lhs[0])
	if !ok {
		row[2] = "?verdict is not a call"
		return row
	}
	sel, ok := call.Fun.(*ast.SelectorExpr)
	if !ok || flRaw(sel.X) != asserted.Name {
		row[2] = "?verdict call not on the asserted plugin"
		return row
	}
	row[2] = sel.Sel.Name
	subj := func(e ast.Expr) bool {
		switch e.(type) {
		case *ast.Ident, *ast.SelectorExpr:
			return flRaw(e) == vname
		}
		return false
	}
	if flPolarity(verdict.Cond, subj) != "fail" {
		row[4] = "?" + flRaw(verdict.Cond)
		return row
	}
	if _, isBin := flUnparen(verdict.Cond).(*ast.BinaryExpr); isBin {
		row[4] = "v != nil"
	} else {
		row[4] = "!v.OK()"
	}
	// stop: the failing branch must leave the function; no statement of it may be control flow other than the last
	body := verdict.Body.List
	stop := "none"
	for i, s := range body {
		switch v := s.(type) {
		case *ast.ReturnStmt:
			if i != len(body)-1 {
				stop = "?return not last"
			} else if len(v.Results) == 0 {
				if stop != "exit" {
					stop = "return"
				}
			} else if len(v.Results) == 1 && flRaw(v.Results[0]) == vname {
				stop = "return v"
			} else {
				stop = "?return " + flRaw(v.Results[0])
			}
		case *ast.ExprStmt:
			if c, ok := v.X.(*ast.CallExpr); ok && flCalleeName(c) == "Fatalf" {
				stop = "exit"
			}
		case *ast.AssignStmt:
		case *ast.BranchStmt:
			stop = "?" + strings.ToLower(v.Tok.String())
		default:
			stop = "?control flow in the failing branch"
		}
	}
	row[5] = stop
	_ = token.NoPos
	return row
}
