package main

// facts_redial_write.go — fact group Redial: the error classes of session.write and the write-retry
// of session.AsyncCall / session.Push, executed (see facts_redial.go, facts_redial_eval.go).

import (
	"fmt"
	"go/ast"
	"strings"
)

// topStmtWith: index of the unique top-level statement of `fd` that contains a call of `callee`.
func redialTopStmtWith(fd *ast.FuncDecl, callee string) (int, *ast.CallExpr, string) {
	at, n := -1, 0
	var call *ast.CallExpr
	for i, s := range fd.Body.List {
		if _, isDefer := s.(*ast.DeferStmt); isDefer {
			continue
		}
		if c := redialHasCall(s, callee); c != nil {
			at, call = i, c
			n++
		}
	}
	if n != 1 {
		return -1, nil, fmt.Sprintf("expected exactly one top-level statement that calls %s, found %d", callee, n)
	}
	return at, call, ""
}

// ---- session.write: what it returns for each class of error of the socket write
func redialWriteErrTable(x *flPkg, l *Lean) {
	const name = "redial_write_err_table"
	fd := x.p.Func("session", "write")
	if fd == nil {
		l.Missing(name, "session.write not found")
		return
	}
	at, call, why := redialTopStmtWith(fd, "WriteMessage")
	if at < 0 {
		l.Missing(name, "session.write: "+why)
		return
	}
	// the variable that receives the error of WriteMessage
	errVar := ""
	ast.Inspect(fd.Body.List[at], func(n ast.Node) bool {
		if as, ok := n.(*ast.AssignStmt); ok && len(as.Lhs) == 1 && len(as.Rhs) == 1 && flUnparen(as.Rhs[0]) == ast.Expr(call) {
			if id, ok := as.Lhs[0].(*ast.Ident); ok {
				errVar = id.Name
			}
		}
		return true
	})
	if errVar == "" {
		l.Missing(name, "session.write: the result of WriteMessage is not assigned to a variable")
		return
	}
	classes := []struct {
		name string
		v    rval
	}{{"nil", rvNilV}, {"io.EOF", rvS("io.EOF")}, {"socket.ErrProactivelyCloseSocket", rvS("socket.ErrProactivelyCloseSocket")}, {"other", rvE("other")}}
	var rows []string
	for _, c := range classes {
		in := &rinterp{x: x, fuel: redialFuel, fields: map[string]rval{}}
		fr := &rframe{vars: map[string]*rval{}}
		if n := recvVarName(fd); n != "" {
			fr.vars[n] = &rval{k: rvSym, s: "$"}
		}
		v := c.v
		fr.vars[errVar] = &v
		ctl := in.execList(fr, fd.Body.List[at+1:])
		if in.stopped() || ctl.k != rcReturn || len(ctl.vals) != 2 {
			l.Missing(name, "session.write: the statements after the socket write could not be executed: "+in.bad)
			return
		}
		rows = append(rows, "("+leanStr(c.name)+", "+leanStr(ctl.vals[1].String())+")")
	}
	l.add(name, "(class of the error of socket.WriteMessage, status returned by session.write): the statements after the socket write executed",
		"List (String × String)", "[\n  "+strings.Join(rows, ",\n  ")+"]")
}

// ---- AsyncCall / Push: the write and what follows it
type redialRetryRun struct {
	x       *flPkg
	writes  []string // "ok" | "closed" | "failed"
	redials []bool
	nwrite  int64
	short   bool
}

func (d *redialRetryRun) hook(in *rinterp, name string, recv *rval, args []rval) (rval, bool) {
	switch {
	case name == "write" && recv != nil && recv.k == rvSym && recv.s == "$":
		if len(d.writes) == 0 {
			d.short = true
			in.fail("more writes than scripted")
			return rvNilV, true
		}
		r := d.writes[0]
		d.writes = d.writes[1:]
		d.nwrite++
		in.log = append(in.log, "write")
		st := rvNilV
		switch r {
		case "closed":
			st = rvS("statConnClosed")
		case "failed":
			st = rvS("statWriteFailed.Copy()")
		}
		return rvT(rvC(d.nwrite), st), true
	case name == "redialForClient":
		if len(d.redials) == 0 || len(args) != 1 {
			d.short = true
			in.fail("more redials than scripted")
			return rvNilV, true
		}
		r := d.redials[0]
		d.redials = d.redials[1:]
		arg := "?"
		if args[0].k == rvConn {
			arg = fmt.Sprint(args[0].i)
		}
		in.log = append(in.log, "redial:"+arg)
		return rvB(r), true
	case name == "done":
		in.log = append(in.log, "done")
		return rvNilV, true
	case d.x.stages[name]:
		in.log = append(in.log, "stage:"+name)
		return rvNilV, true
	case name == "enablePrintRunLog":
		return rvB(false), true
	}
	return rvNilV, false
}

var redialRetryScenarios = []struct {
	name    string
	writes  []string
	redials []bool
}{
	{"sent", []string{"ok"}, nil},
	{"write-failed", []string{"failed"}, nil},
	{"closed-redial-refused", []string{"closed"}, []bool{false}},
	{"closed-redial-ok", []string{"closed", "ok"}, []bool{true}},
	{"closed-twice", []string{"closed", "closed", "ok"}, []bool{true, true}},
	{"closed-then-failed", []string{"closed", "failed"}, []bool{true}},
}

func redialRetryTable(x *flPkg, l *Lean) {
	const name = "redial_retry_table"
	var rows []string
	for _, fn := range []string{"AsyncCall", "Push"} {
		fd := x.p.Func("session", fn)
		if fd == nil {
			l.Missing(name, "session."+fn+" not found")
			return
		}
		at, _, why := redialTopStmtWith(fd, "write")
		if at < 0 {
			l.Missing(name, "session."+fn+": "+why)
			return
		}
		for _, sc := range redialRetryScenarios {
			run := &redialRetryRun{x: x, writes: append([]string{}, sc.writes...), redials: append([]bool{}, sc.redials...)}
			in := &rinterp{x: x, fuel: redialFuel, hook: run.hook, fields: map[string]rval{}}
			fr := &rframe{vars: map[string]*rval{}}
			if n := recvVarName(fd); n != "" {
				fr.vars[n] = &rval{k: rvSym, s: "$"}
			}
			ctl := in.execList(fr, fd.Body.List[at:])
			trace := in.log
			switch {
			case run.short:
				trace = append(trace, "more")
			case in.hang:
				trace = append(trace, "hang")
			case in.bad != "":
				l.Missing(name, "session."+fn+": the write and what follows it could not be executed: "+in.bad)
				return
			case ctl.k == rcReturn:
				trace = append(trace, "return")
			default:
				trace = append(trace, "fallthrough")
			}
			rows = append(rows, "("+leanStr(fn)+", "+leanStr(sc.name)+", "+strList(trace)+")")
		}
	}
	l.add(name, "(function, scenario, trace): session.AsyncCall / session.Push executed from the statement that calls s.write to the end, with scripted results of s.write (ok / statConnClosed / statWriteFailed) and of redialForClient; trace entries: write, redial:<number of the write whose connection is handed to redialForClient>, done, stage:<fn>, return",
		"List (String × String × List String)", "[\n  "+strings.Join(rows, ",\n  ")+"]")
}
