package main

// paths.go — PATH-SENSITIVE facts for the fact groups Stages and Transitions.
//
// For a watched root (a function body or a function literal) the engine enumerates the acyclic
// control-flow paths over the AST and records, per path, the ordered tracked events
//
//	(kind, name, detail, outcome)
//
// with the vocabulary of flow.go (stage / setcont / store / cas / check / load / cmp / case / call / wg /
// lock / spawn / run / flag / assign / return …). `outcome` is what THAT PATH decided about the event's
// result: `ok` / `fail` for a tracked result (a stage verdict, writeReply / write status, a
// compare-and-swap, checkStatus, redialForClient, an error), `true` / `false` for a comparison of a
// loaded status or a test of the reply-written flag, `` when the path never tests it.
//
// Control flow: if/else, switch (Go semantics, status switches narrow the loaded status), select,
// type switch, early return, goto / labels (a backward jump ends the path with `goto:back`), loops as
// 0-or-1 iterations (`loop:next` / `loop:break` close an iteration, `loop:back` ends a path that returns
// to the head of a condition-less loop), `defer` bodies at function exit in LIFO order (on the
// normal paths `recover()` is nil; the recover-guarded parts are enumerated separately with
// `recover()` non-nil and every local unknown), panics / Fatalf end a path with `exit`.
// Same-package unexported helpers that transitively contain a tracked event are INLINED (depth ≤ 3,
// cycle-safe) with parameter binding; their returned values flow back into the caller (a helper that
// returns the verdict, or `nil` / the new session depending on the verdict, is understood).
//
// Values are tracked just enough to label branches: nil / non-nil / boolean constants / "result of
// event #n" / "status loaded by event #n" / named constants / receiver-field chains. Conditions are
// normalised (!, &&, ||, == / != nil, .OK(), bare booleans, comparisons of a loaded status with a
// constant); a condition over untracked values forks the path without a label; a path that would
// decide one atom both ways is infeasible and is dropped. Statements without tracked events, without
// control transfer and without tracked assignments are skipped, so reordering / adding such
// statements does not change a fact. The emitted fact per root is the sorted, de-duplicated list of
// paths projected on the vocabulary of the group.

import (
	"fmt"
	"go/ast"
	"go/token"
	"sort"
	"strings"
)

// ---------------------------------------------------------------------------------------------
// values, events, state

const (
	pvUnknown = iota
	pvNil
	pvNonNil
	pvBool
	pvRes    // result of event id
	pvStatus // status loaded by event id
	pvConst  // named constant / global
	pvAtom   // untracked chain s (knowledge kept per path, no event)
)

type pVal struct {
	k  int
	b  bool
	id int
	s  string
}

type pEv struct {
	Key, Detail string
	ID          int    // > 0: the outcome is read from the path's decisions
	Out         string // fixed outcome
}

type pDefer struct {
	call *ast.CallExpr
	fr   *pFrame
}

type pState struct {
	evs     []pEv
	dec     map[int]int8 // 1 ok, 2 fail
	allowed map[int][]string
	vars    map[string]pVal
	fields  map[string]pVal
	fdec    map[string]bool
	defers  map[int][]pDefer
	ret     []pVal
	retTxt  string
	jumps   int
}

func (s *pState) clone() *pState {
	n := &pState{evs: append([]pEv(nil), s.evs...), dec: map[int]int8{}, allowed: map[int][]string{}, vars: map[string]pVal{},
		fields: map[string]pVal{}, fdec: map[string]bool{}, defers: map[int][]pDefer{}, jumps: s.jumps}
	for k, v := range s.dec {
		n.dec[k] = v
	}
	for k, v := range s.allowed {
		n.allowed[k] = v
	}
	for k, v := range s.vars {
		n.vars[k] = v
	}
	for k, v := range s.fields {
		n.fields[k] = v
	}
	for k, v := range s.fdec {
		n.fdec[k] = v
	}
	for k, v := range s.defers {
		n.defers[k] = append([]pDefer(nil), v...)
	}
	return n
}

func pvString(v pVal) string { return fmt.Sprintf("%d/%v/%d/%s", v.k, v.b, v.id, v.s) }

func (s *pState) key() string {
	var b strings.Builder
	for _, e := range s.evs {
		fmt.Fprintf(&b, "%s|%s|%d|%s;", e.Key, e.Detail, e.ID, e.Out)
	}
	sortedKV := func(m map[string]string) {
		ks := make([]string, 0, len(m))
		for k := range m {
			ks = append(ks, k)
		}
		sort.Strings(ks)
		for _, k := range ks {
			b.WriteString(k + "=" + m[k] + ",")
		}
		b.WriteString("#")
	}
	m := map[string]string{}
	for k, v := range s.dec {
		m[fmt.Sprint(k)] = fmt.Sprint(v)
	}
	sortedKV(m)
	m = map[string]string{}
	for k, v := range s.allowed {
		m[fmt.Sprint(k)] = strings.Join(v, "+")
	}
	sortedKV(m)
	m = map[string]string{}
	for k, v := range s.vars {
		m[k] = pvString(v)
	}
	sortedKV(m)
	m = map[string]string{}
	for k, v := range s.fields {
		m[k] = pvString(v)
	}
	sortedKV(m)
	m = map[string]string{}
	for k, v := range s.fdec {
		m[k] = fmt.Sprint(v)
	}
	sortedKV(m)
	for k, v := range s.defers {
		fmt.Fprintf(&b, "d%d:%d,", k, len(v))
	}
	return b.String()
}

type pFrame struct {
	id        int
	scope     int // variable scope (a closure shares its parent's)
	w         *flWalker
	fd        *ast.FuncDecl
	recvChain string
	depth     int
	stack     []string
	root      bool
	lit       bool
	results   []string // named results
	recoverV  pVal
}

const (
	cNext = iota
	cReturn
	cBreak
	cContinue
	cGoto
	cDead
)

type pCtl struct {
	kind  int
	label string
}

type pRes struct {
	st  *pState
	ctl pCtl
}

type pVS struct {
	st *pState
	v  pVal
	vs []pVal // all results of a multi-valued helper call
}

type pCS struct {
	st *pState
	t  bool
}

type pEngine struct {
	x         *flPkg
	consts    []string
	nextID    int
	nextFrame int
	missing   []string
	curSt     *pState
	flagVars  map[string]string // root flag variable -> anonymised name
	rootScope int
	skipLit   map[*ast.FuncLit]bool
	loopMode  bool // stage-function mode: assert / invoke / range events, no inlining
	rangeVal  string
	asserted  map[string]bool
	budget    int
	intMemo   map[*ast.FuncDecl]int
}

func (e *pEngine) miss(s string) {
	for _, m := range e.missing {
		if m == s {
			return
		}
	}
	e.missing = append(e.missing, s)
}

func (e *pEngine) emit(st *pState, key, detail string, tracked bool) int {
	id := 0
	if tracked {
		id = len(st.evs) + 1 // position in the path: equal prefixes give equal ids
	}
	st.evs = append(st.evs, pEv{Key: key, Detail: detail, ID: id})
	return id
}

func (e *pEngine) emitOut(st *pState, key, detail, out string) {
	st.evs = append(st.evs, pEv{Key: key, Detail: detail, Out: out})
}

func pDedupe(sts []*pState) []*pState {
	if len(sts) < 2 {
		return sts
	}
	seen := map[string]bool{}
	var out []*pState
	for _, s := range sts {
		k := s.key()
		if !seen[k] {
			seen[k] = true
			out = append(out, s)
		}
	}
	return out
}

// ---------------------------------------------------------------------------------------------
// chains and variables

func (e *pEngine) varKey(fr *pFrame, name string) string {
	return fmt.Sprintf("L%d/%s", fr.scope, name)
}

// chainOf: canonical text of an ident / selector chain, rooted at the root receiver (`$`), at a
// local (`L<scope>/<name>`) or at a global.
func (e *pEngine) chainOf(st *pState, fr *pFrame, x ast.Expr) (string, bool) {
	switch v := flUnparen(x).(type) {
	case *ast.Ident:
		if v.Name == "nil" || v.Name == "true" || v.Name == "false" || v.Name == "_" {
			return "", false
		}
		if fr.w.recv != "" && v.Name == fr.w.recv && fr.recvChain != "" {
			return fr.recvChain, true
		}
		if val, ok := st.vars[e.varKey(fr, v.Name)]; ok && val.k == pvAtom {
			return val.s, true
		}
		if a, ok := fr.w.alias[v.Name]; ok {
			if _, bound := st.vars[e.varKey(fr, v.Name)]; !bound {
				return e.chainOf(st, fr, a)
			}
		}
		if fr.w.locals[v.Name] {
			return e.varKey(fr, v.Name), true
		}
		return v.Name, true
	case *ast.SelectorExpr:
		if c, ok := e.chainOf(st, fr, v.X); ok {
			return c + "." + v.Sel.Name, true
		}
	}
	return "", false
}

func (e *pEngine) invalidate(st *pState, chain string) {
	if chain == "" {
		return
	}
	for k := range st.fields {
		if strings.HasPrefix(k, chain+".") {
			delete(st.fields, k)
		}
	}
	for k := range st.fdec {
		if strings.HasPrefix(k, chain+".") || strings.HasPrefix(k, chain+"|") {
			delete(st.fdec, k)
		}
	}
}

func (e *pEngine) bind(st *pState, fr *pFrame, lhs ast.Expr, v pVal, rhs ast.Expr) {
	switch l := flUnparen(lhs).(type) {
	case *ast.Ident:
		if l.Name == "_" {
			return
		}
		st.vars[e.varKey(fr, l.Name)] = v
		e.invalidate(st, e.varKey(fr, l.Name))
		if fr.scope == e.rootScope {
			if fn, ok := e.flagVars[l.Name]; ok {
				d := "?"
				if v.k == pvBool {
					d = fmt.Sprint(v.b)
				}
				e.emitOut(st, "flag:set", d, "")
				_ = fn
			}
		}
	case *ast.SelectorExpr:
		ch, ok := e.chainOf(st, fr, l)
		if ok {
			e.invalidate(st, ch)
			delete(st.fdec, ch+"|ok")
			delete(st.fdec, ch+"|nil")
			delete(st.fdec, ch+"|bool")
			if v.k == pvUnknown {
				delete(st.fields, ch)
			} else {
				st.fields[ch] = v
			}
		}
		if l.Sel.Name == "pluginContainer" && rhs != nil {
			if id, ok := flUnparen(l.X).(*ast.Ident); ok && fr.w.ptypes[id.Name] == "handlerCtx" {
				e.emitOut(st, "setcont:"+fr.w.contClass(rhs), "", "")
			} else {
				e.emitOut(st, "?setcont:"+fr.w.rx(l), "", "")
				e.miss("unplaced setcont " + fr.w.rx(l))
			}
		}
	default:
		// index / star expressions: nothing tracked
	}
}

// ---------------------------------------------------------------------------------------------
// classification of calls (the vocabulary of flow.go)

var pQuiet = map[string]bool{"Errorf": true, "Warnf": true, "Infof": true, "Debugf": true, "Tracef": true, "Printf": true,
	"verifGate": true, "verifEvent": true, "verifEnter": true, "verifLeave": true, "Sprintf": true}

func (e *pEngine) classify(st *pState, fr *pFrame, c *ast.CallExpr) (key, detail string, ok bool) {
	w := fr.w
	name := flCalleeName(c)
	var recvExpr ast.Expr
	if sel, isSel := flUnparen(c.Fun).(*ast.SelectorExpr); isSel {
		recvExpr = w.resolve(sel.X)
	}
	recvText := ""
	if recvExpr != nil {
		recvText = w.rx(recvExpr)
		if id, isID := flUnparen(recvExpr).(*ast.Ident); isID {
			if v, has := st.vars[e.varKey(fr, id.Name)]; has && v.k == pvNonNil && v.s == "sess" {
				recvText = "sess"
			}
		}
		// a chain that resolves (through parameter binding) to another root term
		if ch, has := e.chainOf(st, fr, recvExpr); has && strings.HasPrefix(ch, "$") && !strings.HasPrefix(recvText, "$") && recvText != "sess" {
			recvText = ch
		}
	}
	last := recvText
	if i := strings.LastIndex(last, "."); i >= 0 {
		last = last[i+1:]
	}
	argc := fmt.Sprintf("argc=%d", len(c.Args))
	switch {
	case w.x.stages[name] && recvExpr != nil:
		w.x.visited[c] = true
		return "stage:" + name, w.contClass(recvExpr), true
	case name == "changeStatus" && len(c.Args) == 1:
		return "store:" + w.rx(c.Args[0]), "", true
	case name == "tryChangeStatus" && len(c.Args) >= 2:
		return "cas:" + w.rx(c.Args[0]) + "<-" + e.argList(st, fr, c.Args[1:]), "", true
	case name == "checkStatus":
		return "check:" + e.argList(st, fr, c.Args), "", true
	case name == "getStatus" && len(c.Args) == 0:
		return "load:getStatus", "", true
	case (name == "StoreInt32" || name == "CompareAndSwapInt32" || name == "LoadInt32" || name == "SwapInt32" || name == "AddInt32") &&
		len(c.Args) >= 1 && strings.HasSuffix(flRaw(c.Args[0]), ".status"):
		if !flStatusAccessors[fr.fd.Name.Name] {
			return "rawstatus:" + name, "", true
		}
		return "", "", false
	case last == "sessHub" && (name == "set" || name == "delete"):
		return "call:sessHub." + name, argc, true
	case last == "graceCtxWaitGroup" && (name == "Add" || name == "Done" || name == "Wait"):
		return "wg:ctx." + name, "", true
	case last == "graceCallCmdWaitGroup" && (name == "Add" || name == "Done" || name == "Wait"):
		return "wg:call." + name, "", true
	case (last == "lock" || last == "writeLock") && (name == "Lock" || name == "Unlock" || name == "RLock" || name == "RUnlock"):
		return "lock:" + last + "." + name, "", true
	case name == "Close" && last == "socket":
		return "call:socket.Close", argc, true
	case name == "Close" && recvText == "sess":
		return "call:sess.Close", argc, true
	case name == "Close" && recvExpr != nil:
		return "call:%.Close", "", true
	case name == "startReadAndHandle":
		return "run:startReadAndHandle", "", true
	}
	if ev, named := flNamed[name]; named {
		if ev == "" {
			ev = name
		}
		return "call:" + ev, argc, true
	}
	return "", "", false
}

func (e *pEngine) argList(st *pState, fr *pFrame, args []ast.Expr) string {
	var as []string
	for _, a := range args {
		s := fr.w.rx(a)
		if id, ok := flUnparen(a).(*ast.Ident); ok {
			if v, has := st.vars[e.varKey(fr, id.Name)]; has && v.k == pvStatus {
				s = "status"
			}
		}
		as = append(as, s)
	}
	return strings.Join(as, ",")
}

// ---------------------------------------------------------------------------------------------
// "interesting" code: contains a tracked event (transitively through inlinable helpers)

func (e *pEngine) helperOf(fr *pFrame, c *ast.CallExpr) *ast.FuncDecl {
	name := flCalleeName(c)
	if e.loopMode || name == "" || ast.IsExported(name) || fr.depth >= 3 {
		return nil
	}
	if _, named := flNamed[name]; named || e.x.stages[name] || flStatusAccessors[name] {
		return nil
	}
	sel, isMethod := flUnparen(c.Fun).(*ast.SelectorExpr)
	if !isMethod && fr.w.locals[name] {
		return nil
	}
	for _, s := range fr.stack {
		if s == name {
			return nil
		}
	}
	var cands []*ast.FuncDecl
	for _, fd := range e.x.byName[name] {
		if (fd.Recv != nil) == isMethod {
			cands = append(cands, fd)
		}
	}
	if isMethod && len(cands) > 1 {
		// narrow by the receiver's type when it is known
		if id, ok := flUnparen(fr.w.resolve(sel.X)).(*ast.Ident); ok && fr.w.ptypes[id.Name] != "" {
			var n []*ast.FuncDecl
			for _, fd := range cands {
				if recvTypeName(fd) == fr.w.ptypes[id.Name] {
					n = append(n, fd)
				}
			}
			if len(n) > 0 {
				cands = n
			}
		}
	}
	var with []*ast.FuncDecl
	for _, fd := range cands {
		if e.interestingFn(fd, 0) {
			with = append(with, fd)
		}
	}
	switch len(with) {
	case 0:
		return nil
	case 1:
		return with[0]
	}
	e.miss("ambiguous helper " + name)
	return nil
}

func (e *pEngine) interestingFn(fd *ast.FuncDecl, depth int) bool {
	if v, ok := e.intMemo[fd]; ok {
		return v == 1
	}
	e.intMemo[fd] = 0
	r := false
	ast.Inspect(fd.Body, func(n ast.Node) bool {
		if r {
			return false
		}
		c, ok := n.(*ast.CallExpr)
		if !ok {
			return true
		}
		name := flCalleeName(c)
		if _, named := flNamed[name]; named || e.x.stages[name] || flStatusAccessors[name] {
			r = true
			return false
		}
		switch name {
		case "Lock", "Unlock", "RLock", "RUnlock":
			if s, ok := flUnparen(c.Fun).(*ast.SelectorExpr); ok {
				t := flRaw(s.X)
				if strings.HasSuffix(t, ".lock") || strings.HasSuffix(t, ".writeLock") {
					r = true
				}
			}
		case "set", "delete":
			if s, ok := flUnparen(c.Fun).(*ast.SelectorExpr); ok && (strings.HasSuffix(flRaw(s.X), "sessHub") || flRaw(s.X) == "hub") {
				r = true
			}
		case "Add", "Done", "Wait":
			if s, ok := flUnparen(c.Fun).(*ast.SelectorExpr); ok && strings.Contains(flRaw(s.X), "WaitGroup") {
				r = true
			}
		case "Close":
			r = true
		case "Go", "AnywayGo", "TryGo":
			r = true
		default:
			if depth < 3 && name != "" && !ast.IsExported(name) {
				for _, h := range e.x.byName[name] {
					if h != fd && e.interestingFn(h, depth+1) {
						r = true
					}
				}
			}
		}
		return !r
	})
	if r {
		e.intMemo[fd] = 1
	}
	return r
}

// interesting: must the node be executed (rather than skipped)?
func (e *pEngine) interesting(fr *pFrame, n ast.Node) bool {
	if n == nil {
		return false
	}
	r := false
	ast.Inspect(n, func(m ast.Node) bool {
		if r {
			return false
		}
		switch v := m.(type) {
		case *ast.ReturnStmt, *ast.BranchStmt, *ast.DeferStmt, *ast.GoStmt, *ast.LabeledStmt:
			r = true
		case *ast.FuncLit:
			// a literal's own returns do not leave the statement; its calls are looked at below
			ast.Inspect(v.Body, func(k ast.Node) bool {
				if c, ok := k.(*ast.CallExpr); ok && e.callInteresting(fr, c) {
					r = true
				}
				return !r
			})
			return false
		case *ast.CallExpr:
			if e.callInteresting(fr, v) {
				r = true
			}
		case *ast.AssignStmt:
			for _, l := range v.Lhs {
				switch t := flUnparen(l).(type) {
				case *ast.Ident:
					if _, ok := e.flagVars[t.Name]; ok {
						r = true
					}
				case *ast.SelectorExpr:
					if t.Sel.Name == "pluginContainer" || t.Sel.Name == "redialForClientLocked" {
						r = true
					}
				}
			}
		case *ast.TypeAssertExpr:
			if e.loopMode {
				r = true
			}
		case *ast.ValueSpec:
			for _, n := range v.Names {
				if _, ok := e.flagVars[n.Name]; ok {
					r = true
				}
			}
		case *ast.IfStmt:
			// a condition over a tracked result decides that result: never skipped
			if e.curSt != nil && e.mentionsTracked(e.curSt, fr, v.Cond) {
				r = true
			}
		case *ast.BinaryExpr:
			if v.Op == token.EQL || v.Op == token.NEQ {
				for _, s := range []ast.Expr{v.X, v.Y} {
					if id, ok := flUnparen(s).(*ast.Ident); ok && (fr.w.statusLoc[id.Name] || flStatusConst.MatchString(id.Name)) {
						r = true
					}
				}
			}
		}
		return !r
	})
	return r
}

func (e *pEngine) mentionsTracked(st *pState, fr *pFrame, x ast.Expr) bool {
	hit := false
	ast.Inspect(x, func(n ast.Node) bool {
		switch v := n.(type) {
		case *ast.Ident:
			if val, ok := st.vars[e.varKey(fr, v.Name)]; ok && (val.k == pvRes || val.k == pvStatus) {
				hit = true
			}
		case *ast.SelectorExpr:
			if ch, ok := e.chainOf(st, fr, v); ok {
				if val, ok := st.fields[ch]; ok && (val.k == pvRes || val.k == pvStatus) {
					hit = true
				}
			}
		}
		return !hit
	})
	return hit
}

func (e *pEngine) callInteresting(fr *pFrame, c *ast.CallExpr) bool {
	name := flCalleeName(c)
	switch name {
	case "panic", "Panicf", "Fatalf", "Exit", "recover", "Go", "AnywayGo", "TryGo":
		return true
	}
	if e.loopMode {
		if s, ok := flUnparen(c.Fun).(*ast.SelectorExpr); ok {
			if id, ok := flUnparen(s.X).(*ast.Ident); ok && e.asserted[id.Name] {
				return true
			}
		}
		return false
	}
	if _, named := flNamed[name]; named || e.x.stages[name] || flStatusAccessors[name] {
		return true
	}
	st := &pState{vars: map[string]pVal{}}
	if _, _, ok := e.classify(st, fr, c); ok {
		return true
	}
	if name != "" && !ast.IsExported(name) {
		for _, h := range e.x.byName[name] {
			if e.interestingFn(h, 0) {
				return true
			}
		}
	}
	return false
}

// skipEffects: a skipped statement may still assign; forget what it assigns.
func (e *pEngine) skipEffects(st *pState, fr *pFrame, n ast.Node) {
	ast.Inspect(n, func(m ast.Node) bool {
		switch v := m.(type) {
		case *ast.AssignStmt:
			for _, l := range v.Lhs {
				switch t := flUnparen(l).(type) {
				case *ast.Ident:
					if v.Tok != token.DEFINE {
						if _, ok := st.vars[e.varKey(fr, t.Name)]; ok {
							st.vars[e.varKey(fr, t.Name)] = pVal{}
						}
					} else {
						delete(st.vars, e.varKey(fr, t.Name))
					}
				case *ast.SelectorExpr:
					if ch, ok := e.chainOf(st, fr, t); ok {
						delete(st.fields, ch)
						e.invalidate(st, ch)
						delete(st.fdec, ch+"|ok")
						delete(st.fdec, ch+"|nil")
						delete(st.fdec, ch+"|bool")
					}
				}
			}
		case *ast.CallExpr:
			e.invalidateCall(st, fr, v)
		}
		return true
	})
}

func (e *pEngine) invalidateCall(st *pState, fr *pFrame, c *ast.CallExpr) {
	if pQuiet[flCalleeName(c)] {
		return
	}
	if sel, ok := flUnparen(c.Fun).(*ast.SelectorExpr); ok {
		if ch, ok := e.chainOf(st, fr, sel.X); ok {
			e.invalidate(st, ch)
		}
	}
	for _, a := range c.Args {
		x := flUnparen(a)
		if u, ok := x.(*ast.UnaryExpr); ok && u.Op == token.AND {
			x = u.X
		}
		if ch, ok := e.chainOf(st, fr, x); ok {
			e.invalidate(st, ch)
		}
	}
}

// ---------------------------------------------------------------------------------------------
// expressions

func (e *pEngine) over(sts []*pState) bool {
	e.budget -= len(sts)
	if e.budget < 0 {
		e.miss("path explosion")
		return true
	}
	return false
}

func (e *pEngine) evalExpr(st *pState, fr *pFrame, x ast.Expr) []pVS {
	switch v := x.(type) {
	case nil:
		return []pVS{{st: st}}
	case *ast.ParenExpr:
		return e.evalExpr(st, fr, v.X)
	case *ast.Ident:
		switch v.Name {
		case "nil":
			return []pVS{{st: st, v: pVal{k: pvNil}}}
		case "true", "false":
			return []pVS{{st: st, v: pVal{k: pvBool, b: v.Name == "true"}}}
		}
		if val, ok := st.vars[e.varKey(fr, v.Name)]; ok {
			return []pVS{{st: st, v: val}}
		}
		if fr.w.recv != "" && v.Name == fr.w.recv && fr.recvChain != "" {
			return []pVS{{st: st, v: pVal{k: pvAtom, s: fr.recvChain}}}
		}
		if fr.w.locals[v.Name] {
			if ch, ok := e.chainOf(st, fr, v); ok && ch != e.varKey(fr, v.Name) {
				if fv, ok := st.fields[ch]; ok {
					return []pVS{{st: st, v: fv}}
				}
				return []pVS{{st: st, v: pVal{k: pvAtom, s: ch}}}
			}
			if fr.scope == e.rootScope {
				if _, ok := e.flagVars[v.Name]; ok {
					return []pVS{{st: st, v: pVal{k: pvAtom, s: "flag!" + v.Name}}}
				}
			}
			return []pVS{{st: st, v: pVal{k: pvAtom, s: e.varKey(fr, v.Name)}}}
		}
		return []pVS{{st: st, v: pVal{k: pvConst, s: v.Name}}}
	case *ast.SelectorExpr:
		if ch, ok := e.chainOf(st, fr, v); ok {
			if fv, ok := st.fields[ch]; ok {
				return []pVS{{st: st, v: fv}}
			}
			if !strings.Contains(ch, "/") && !strings.HasPrefix(ch, "$") {
				return []pVS{{st: st, v: pVal{k: pvConst, s: ch}}}
			}
			return []pVS{{st: st, v: pVal{k: pvAtom, s: ch}}}
		}
		var out []pVS
		for _, r := range e.evalExpr(st, fr, v.X) {
			out = append(out, pVS{st: r.st})
		}
		return out
	case *ast.CallExpr:
		if sel, ok := flUnparen(v.Fun).(*ast.SelectorExpr); ok && sel.Sel.Name == "OK" && len(v.Args) == 0 {
			return e.condAsValue(st, fr, v) // `return verdict.OK()`: the helper decides the verdict
		}
		return e.evalCall(st, fr, v)
	case *ast.UnaryExpr:
		if v.Op == token.NOT {
			return e.condAsValue(st, fr, v)
		}
		var out []pVS
		for _, r := range e.evalExpr(st, fr, v.X) {
			val := pVal{}
			if v.Op == token.AND {
				val = pVal{k: pvNonNil}
			}
			out = append(out, pVS{st: r.st, v: val})
		}
		return out
	case *ast.BinaryExpr:
		switch v.Op {
		case token.LAND, token.LOR, token.EQL, token.NEQ:
			return e.condAsValue(st, fr, v)
		}
		var out []pVS
		for _, a := range e.evalExpr(st, fr, v.X) {
			for _, b := range e.evalExpr(a.st, fr, v.Y) {
				out = append(out, pVS{st: b.st})
			}
		}
		return out
	case *ast.FuncLit:
		return []pVS{{st: st, v: pVal{k: pvNonNil}}}
	case *ast.CompositeLit:
		cur := []*pState{st}
		for _, el := range v.Elts {
			if kv, ok := el.(*ast.KeyValueExpr); ok {
				el = kv.Value
			}
			if !e.interesting(fr, el) {
				continue
			}
			var nx []*pState
			for _, s := range cur {
				for _, r := range e.evalExpr(s, fr, el) {
					nx = append(nx, r.st)
				}
			}
			cur = nx
		}
		var out []pVS
		for _, s := range cur {
			out = append(out, pVS{st: s, v: pVal{k: pvNonNil}})
		}
		return out
	case *ast.TypeAssertExpr:
		var out []pVS
		for _, r := range e.evalExpr(st, fr, v.X) {
			out = append(out, pVS{st: r.st})
		}
		return out
	case *ast.StarExpr:
		return e.dropVal(e.evalExpr(st, fr, v.X))
	case *ast.IndexExpr:
		var out []pVS
		for _, a := range e.evalExpr(st, fr, v.X) {
			for _, b := range e.evalExpr(a.st, fr, v.Index) {
				out = append(out, pVS{st: b.st})
			}
		}
		return out
	case *ast.SliceExpr:
		return e.dropVal(e.evalExpr(st, fr, v.X))
	case *ast.KeyValueExpr:
		return e.dropVal(e.evalExpr(st, fr, v.Value))
	}
	return []pVS{{st: st}}
}

func (e *pEngine) dropVal(in []pVS) []pVS {
	for i := range in {
		in[i].v = pVal{}
		in[i].vs = nil
	}
	return in
}

func (e *pEngine) condAsValue(st *pState, fr *pFrame, x ast.Expr) []pVS {
	var out []pVS
	for _, c := range e.evalCond(st, fr, x) {
		out = append(out, pVS{st: c.st, v: pVal{k: pvBool, b: c.t}})
	}
	return out
}

func pIsNil(x ast.Expr) bool { id, ok := flUnparen(x).(*ast.Ident); return ok && id.Name == "nil" }

func (e *pEngine) evalCond(st *pState, fr *pFrame, x ast.Expr) []pCS {
	switch v := flUnparen(x).(type) {
	case *ast.UnaryExpr:
		if v.Op == token.NOT {
			out := e.evalCond(st, fr, v.X)
			for i := range out {
				out[i].t = !out[i].t
			}
			return out
		}
	case *ast.BinaryExpr:
		switch v.Op {
		case token.LAND, token.LOR:
			var out []pCS
			for _, a := range e.evalCond(st, fr, v.X) {
				if a.t == (v.Op == token.LOR) {
					out = append(out, a)
					continue
				}
				out = append(out, e.evalCond(a.st, fr, v.Y)...)
			}
			return out
		case token.EQL, token.NEQ:
			flip := v.Op == token.NEQ
			var out []pCS
			if pIsNil(v.Y) || pIsNil(v.X) {
				sub := v.X
				if pIsNil(v.X) {
					sub = v.Y
				}
				for _, r := range e.evalExpr(st, fr, sub) {
					for _, c := range e.truth(r.st, r.v, "nil") {
						out = append(out, pCS{c.st, c.t != flip})
					}
				}
				return out
			}
			for _, a := range e.evalExpr(st, fr, v.X) {
				for _, b := range e.evalExpr(a.st, fr, v.Y) {
					for _, c := range e.compare(b.st, a.v, b.v) {
						out = append(out, pCS{c.st, c.t != flip})
					}
				}
			}
			return out
		}
	case *ast.CallExpr:
		if sel, ok := flUnparen(v.Fun).(*ast.SelectorExpr); ok && sel.Sel.Name == "OK" && len(v.Args) == 0 {
			var out []pCS
			for _, r := range e.evalExpr(st, fr, sel.X) {
				out = append(out, e.truth(r.st, r.v, "ok")...)
			}
			return out
		}
	}
	var out []pCS
	for _, r := range e.evalExpr(st, fr, x) {
		out = append(out, e.truth(r.st, r.v, "bool")...)
	}
	return out
}

func (e *pEngine) fork(st *pState) []pCS { return []pCS{{st.clone(), true}, {st.clone(), false}} }

func (e *pEngine) truth(st *pState, v pVal, mode string) []pCS {
	switch v.k {
	case pvNil:
		if mode == "nil" || mode == "ok" {
			return []pCS{{st, true}}
		}
	case pvNonNil:
		if mode == "nil" {
			return []pCS{{st, false}}
		}
	case pvBool:
		if mode == "bool" {
			return []pCS{{st, v.b}}
		}
	case pvRes:
		if d, ok := st.dec[v.id]; ok {
			return []pCS{{st, d == 1}}
		}
		a, b := st.clone(), st.clone()
		a.dec[v.id] = 1
		b.dec[v.id] = 2
		return []pCS{{a, true}, {b, false}}
	case pvAtom:
		if strings.HasPrefix(v.s, "flag!") && mode == "bool" {
			name := strings.TrimPrefix(v.s, "flag!")
			a, b := st.clone(), st.clone()
			e.emitOut(a, "flag:is", "", "true")
			e.emitOut(b, "flag:is", "", "false")
			a.vars[fmt.Sprintf("L%d/%s", e.rootScope, name)] = pVal{k: pvBool, b: true}
			b.vars[fmt.Sprintf("L%d/%s", e.rootScope, name)] = pVal{k: pvBool, b: false}
			return []pCS{{a, true}, {b, false}}
		}
		k := v.s + "|" + mode
		if t, ok := st.fdec[k]; ok {
			return []pCS{{st, t}}
		}
		// a nil value is OK
		if mode == "ok" {
			if t, ok := st.fdec[v.s+"|nil"]; ok && t {
				return []pCS{{st, true}}
			}
		}
		a, b := st.clone(), st.clone()
		a.fdec[k] = true
		b.fdec[k] = false
		return []pCS{{a, true}, {b, false}}
	}
	return e.fork(st)
}

// compare: `a == b`.
func (e *pEngine) compare(st *pState, a, b pVal) []pCS {
	if a.k == pvConst && b.k == pvStatus {
		a, b = b, a
	}
	switch {
	case a.k == pvStatus && b.k == pvConst && flStatusConst.MatchString(b.s):
		al := st.allowed[a.id]
		if al == nil {
			al = e.consts
		}
		in := false
		for _, c := range al {
			if c == b.s {
				in = true
			}
		}
		if !in {
			e.emitOut(st, "cmp:=="+b.s, "", "false")
			return []pCS{{st, false}}
		}
		if len(al) == 1 {
			e.emitOut(st, "cmp:=="+b.s, "", "true")
			return []pCS{{st, true}}
		}
		t, f := st.clone(), st.clone()
		t.allowed[a.id] = []string{b.s}
		var rest []string
		for _, c := range al {
			if c != b.s {
				rest = append(rest, c)
			}
		}
		f.allowed[a.id] = rest
		e.emitOut(t, "cmp:=="+b.s, "", "true")
		e.emitOut(f, "cmp:=="+b.s, "", "false")
		return []pCS{{t, true}, {f, false}}
	case a.k == pvStatus || b.k == pvStatus:
		e.miss("comparison of a loaded status with something else than a status constant")
	case a.k == pvConst && b.k == pvConst:
		if a.s == b.s {
			return []pCS{{st, true}}
		}
		if flStatusConst.MatchString(a.s) && flStatusConst.MatchString(b.s) {
			return []pCS{{st, false}}
		}
	case a.k == pvBool && b.k == pvBool:
		return []pCS{{st, a.b == b.b}}
	case a.k == pvNil && b.k == pvNil:
		return []pCS{{st, true}}
	case (a.k == pvNil && b.k == pvNonNil) || (a.k == pvNonNil && b.k == pvNil):
		return []pCS{{st, false}}
	case a.k == pvRes && b.k == pvRes && a.id == b.id:
		return []pCS{{st, true}}
	}
	return e.fork(st)
}

var pExits = map[string]bool{"panic": true, "Panicf": true, "Fatalf": true, "Exit": true}

func (e *pEngine) evalArgs(st *pState, fr *pFrame, c *ast.CallExpr, name string) ([]*pState, map[*pState][]pVal) {
	cur := []*pState{st}
	vals := map[*pState][]pVal{st: nil}
	if sel, ok := flUnparen(c.Fun).(*ast.SelectorExpr); ok && e.interesting(fr, sel.X) {
		var nx []*pState
		nv := map[*pState][]pVal{}
		for _, s := range cur {
			for _, r := range e.evalExpr(s, fr, sel.X) {
				nx = append(nx, r.st)
				nv[r.st] = vals[s]
			}
		}
		cur, vals = nx, nv
	}
	for _, a := range c.Args {
		var nx []*pState
		nv := map[*pState][]pVal{}
		if lit, ok := flUnparen(a).(*ast.FuncLit); ok {
			for _, s := range cur {
				if e.skipLit[lit] || !e.interesting(fr, lit.Body) {
					nx = append(nx, s)
					nv[s] = append(append([]pVal(nil), vals[s]...), pVal{k: pvNonNil})
					continue
				}
				// a callback: not run, or run once before the call returns
				skip := s.clone()
				nx = append(nx, skip)
				nv[skip] = append(append([]pVal(nil), vals[s]...), pVal{k: pvNonNil})
				run := s.clone()
				e.emitOut(run, "cb:"+name, "begin", "")
				for _, r := range e.runLit(run, fr, lit, pVal{k: pvNil}) {
					if r.jumps >= 0 {
						e.emitOut(r, "cb:"+name, "end", "")
					}
					nx = append(nx, r)
					nv[r] = append(append([]pVal(nil), vals[s]...), pVal{k: pvNonNil})
				}
			}
			cur, vals = nx, nv
			continue
		}
		for _, s := range cur {
			for _, r := range e.evalExpr(s, fr, a) {
				nx = append(nx, r.st)
				nv[r.st] = append(append([]pVal(nil), vals[s]...), r.v)
			}
		}
		cur, vals = nx, nv
	}
	return cur, vals
}

// runLit runs the body of a function literal as a closure of fr; the literal's returns end the literal.
func (e *pEngine) runLit(st *pState, fr *pFrame, lit *ast.FuncLit, rec pVal) []*pState {
	e.nextFrame++
	lf := &pFrame{id: e.nextFrame, scope: fr.scope, w: fr.w, fd: fr.fd, recvChain: fr.recvChain, depth: fr.depth, stack: fr.stack, lit: true, recoverV: rec}
	var out []*pState
	for _, r := range e.execList(st, lf, lit.Body.List, 0) {
		switch r.ctl.kind {
		case cDead:
			out = append(out, r.st) // already terminated: keep as is
			r.st.jumps = -1
		default:
			out = append(out, e.runDefers(r.st, lf)...)
		}
	}
	return out
}

func (e *pEngine) runDefers(st *pState, fr *pFrame) []*pState {
	cur := []*pState{st}
	for {
		var nx []*pState
		progressed := false
		for _, s := range cur {
			ds := s.defers[fr.id]
			if len(ds) == 0 {
				nx = append(nx, s)
				continue
			}
			progressed = true
			d := ds[len(ds)-1]
			s.defers[fr.id] = ds[:len(ds)-1]
			if lit, ok := d.call.Fun.(*ast.FuncLit); ok {
				nx = append(nx, e.runLit(s, d.fr, lit, pVal{k: pvNil})...)
			} else {
				for _, r := range e.evalCall(s, d.fr, d.call) {
					nx = append(nx, r.st)
				}
			}
		}
		cur = pDedupe(nx)
		if !progressed || e.over(cur) {
			return cur
		}
	}
}

func (e *pEngine) evalCall(st *pState, fr *pFrame, c *ast.CallExpr) []pVS {
	name := flCalleeName(c)
	if name == "recover" && len(c.Args) == 0 {
		return []pVS{{st: st, v: fr.recoverV}}
	}
	if name == "new" || name == "make" {
		return []pVS{{st: st, v: pVal{k: pvNonNil}}}
	}
	// spawn helpers
	if _, isIdent := flUnparen(c.Fun).(*ast.Ident); isIdent && (name == "Go" || name == "AnywayGo" || name == "TryGo") && len(c.Args) == 1 {
		switch a := flUnparen(c.Args[0]).(type) {
		case *ast.FuncLit:
			e.emitOut(st, "spawn:begin", "", "")
			var out []pVS
			for _, r := range e.runLit(st, fr, a, pVal{k: pvNil}) {
				if r.jumps >= 0 {
					e.emitOut(r, "spawn:end", "", "")
				}
				out = append(out, pVS{st: r})
			}
			return out
		case *ast.SelectorExpr:
			if a.Sel.Name == "startReadAndHandle" {
				e.emitOut(st, "spawn:startReadAndHandle", "", "")
				return []pVS{{st: st}}
			}
		}
		e.emitOut(st, "?spawn:"+fr.w.rx(c.Args[0]), "", "")
		e.miss("unplaced spawn " + fr.w.rx(c.Args[0]))
		return []pVS{{st: st}}
	}
	if lit, ok := flUnparen(c.Fun).(*ast.FuncLit); ok {
		// immediately invoked literal
		var out []pVS
		for _, r := range e.runLit(st, fr, lit, pVal{k: pvNil}) {
			out = append(out, pVS{st: r})
		}
		return out
	}
	sts, argv := e.evalArgs(st, fr, c, name)
	if e.over(sts) {
		return nil
	}
	var out []pVS
	for _, s := range sts {
		if s.jumps < 0 {
			out = append(out, pVS{st: s})
			continue
		}
		if pExits[name] {
			e.emitOut(s, "exit", "", "")
			s.jumps = -1
			out = append(out, pVS{st: s})
			continue
		}
		if e.loopMode {
			if sel, ok := flUnparen(c.Fun).(*ast.SelectorExpr); ok {
				if id, ok := flUnparen(sel.X).(*ast.Ident); ok && e.asserted[id.Name] {
					id := e.emit(s, "invoke:"+sel.Sel.Name, "", true)
					out = append(out, pVS{st: s, v: pVal{k: pvRes, id: id, s: sel.Sel.Name}})
					continue
				}
			}
			out = append(out, pVS{st: s})
			continue
		}
		if key, detail, ok := e.classify(s, fr, c); ok {
			e.invalidateCall(s, fr, c)
			id := e.emit(s, key, detail, true)
			_, nm := flSplitKey(key)
			v := pVal{k: pvRes, id: id, s: nm}
			switch {
			case key == "load:getStatus":
				v = pVal{k: pvStatus, id: id}
			case key == "call:newSession":
				v = pVal{k: pvNonNil, s: "sess"}
			}
			out = append(out, pVS{st: s, v: v})
			continue
		}
		if h := e.helperOf(fr, c); h != nil {
			out = append(out, e.inline(s, fr, c, h, argv[s])...)
			continue
		}
		e.invalidateCall(s, fr, c)
		out = append(out, pVS{st: s})
	}
	return out
}

func (e *pEngine) inline(st *pState, fr *pFrame, c *ast.CallExpr, h *ast.FuncDecl, args []pVal) []pVS {
	var evs []flEv
	w := e.x.newWalker(h, h.Name.Name, h.Body, &evs)
	e.nextFrame++
	nf := &pFrame{id: e.nextFrame, scope: e.nextFrame, w: w, fd: h, depth: fr.depth + 1,
		stack: append(append([]string{}, fr.stack...), h.Name.Name), recoverV: pVal{k: pvNil}}
	if sel, ok := flUnparen(c.Fun).(*ast.SelectorExpr); ok && h.Recv != nil {
		if ch, ok := e.chainOf(st, fr, sel.X); ok {
			nf.recvChain = ch
		}
		if id, ok := flUnparen(sel.X).(*ast.Ident); ok {
			if v, has := st.vars[e.varKey(fr, id.Name)]; has && w.recv != "" && v.k != pvAtom {
				st.vars[e.varKey(nf, w.recv)] = v
			}
		}
	}
	// parameters
	i := 0
	if h.Type.Params != nil {
		for _, f := range h.Type.Params.List {
			for _, n := range f.Names {
				if i < len(args) && i < len(c.Args) {
					v := args[i]
					if ch, ok := e.chainOf(st, fr, c.Args[i]); ok && (v.k == pvUnknown || v.k == pvAtom) {
						v = pVal{k: pvAtom, s: ch}
					}
					if _, isEllipsis := f.Type.(*ast.Ellipsis); !isEllipsis && v.k != pvUnknown {
						st.vars[e.varKey(nf, n.Name)] = v
					}
				}
				i++
			}
		}
	}
	if h.Type.Results != nil {
		for _, f := range h.Type.Results.List {
			for _, n := range f.Names {
				nf.results = append(nf.results, n.Name)
			}
		}
	}
	var out []pVS
	for _, r := range e.execList(st, nf, h.Body.List, 0) {
		switch r.ctl.kind {
		case cDead:
			out = append(out, pVS{st: r.st})
			continue
		case cNext:
			r.st.ret = nil
		case cReturn:
		default:
			e.miss("control transfer out of helper " + h.Name.Name)
		}
		ret := r.st.ret
		if r.ctl.kind == cReturn && ret == nil && len(nf.results) > 0 {
			for _, n := range nf.results {
				ret = append(ret, r.st.vars[e.varKey(nf, n)])
			}
		}
		for _, s := range e.runDefers(r.st, nf) {
			vs := pVS{st: s, vs: ret}
			if len(ret) > 0 {
				vs.v = ret[0]
			}
			s.ret = nil
			out = append(out, vs)
		}
	}
	return out
}

// ---------------------------------------------------------------------------------------------
// statements

func pLabelIndex(list []ast.Stmt, label string) int {
	for i, s := range list {
		if l, ok := s.(*ast.LabeledStmt); ok && l.Label.Name == label {
			return i
		}
	}
	return -1
}

func (e *pEngine) execList(st *pState, fr *pFrame, list []ast.Stmt, from int) []pRes {
	cur := []*pState{st}
	var out []pRes
	for i := from; i < len(list) && len(cur) > 0; i++ {
		var next []*pState
		for _, s := range cur {
			if s.jumps < 0 {
				out = append(out, pRes{s, pCtl{kind: cDead}})
				continue
			}
			for _, r := range e.execStmt(s, fr, list[i], "") {
				if r.st.jumps < 0 && r.ctl.kind != cDead {
					r.ctl = pCtl{kind: cDead}
				}
				switch r.ctl.kind {
				case cNext:
					next = append(next, r.st)
				case cGoto:
					j := pLabelIndex(list, r.ctl.label)
					switch {
					case j < 0:
						out = append(out, r)
					case j <= i || r.st.jumps > 6:
						e.emitOut(r.st, "loop:back", "", "")
						r.st.jumps = -1
						out = append(out, pRes{r.st, pCtl{kind: cDead}})
					default:
						r.st.jumps++
						out = append(out, e.execList(r.st, fr, list, j)...)
					}
				default:
					out = append(out, r)
				}
			}
		}
		cur = pDedupe(next)
		if e.over(cur) {
			return out
		}
	}
	for _, s := range cur {
		k := cNext
		if s.jumps < 0 {
			k = cDead
		}
		out = append(out, pRes{s, pCtl{kind: k}})
	}
	return out
}

func pNext(sts []*pState) []pRes {
	var out []pRes
	for _, s := range sts {
		out = append(out, pRes{s, pCtl{kind: cNext}})
	}
	return out
}

func pStates(vs []pVS) []*pState {
	var out []*pState
	for _, v := range vs {
		out = append(out, v.st)
	}
	return out
}

func (e *pEngine) execStmt(st *pState, fr *pFrame, s ast.Stmt, label string) []pRes {
	switch v := s.(type) {
	case nil, *ast.EmptyStmt:
		return pNext([]*pState{st})
	case *ast.LabeledStmt:
		return e.execStmt(st, fr, v.Stmt, v.Label.Name)
	case *ast.DeferStmt:
		st.defers[fr.id] = append(st.defers[fr.id], pDefer{v.Call, fr})
		return pNext([]*pState{st})
	case *ast.ReturnStmt:
		return e.execReturn(st, fr, v)
	case *ast.BranchStmt:
		l := ""
		if v.Label != nil {
			l = v.Label.Name
		}
		switch v.Tok {
		case token.BREAK:
			return []pRes{{st, pCtl{cBreak, l}}}
		case token.CONTINUE:
			return []pRes{{st, pCtl{cContinue, l}}}
		case token.GOTO:
			return []pRes{{st, pCtl{cGoto, l}}}
		}
		e.miss("fallthrough statement")
		return pNext([]*pState{st})
	}
	e.curSt = st
	skip := !e.interesting(fr, s)
	e.curSt = nil
	if skip {
		e.skipEffects(st, fr, s)
		return pNext([]*pState{st})
	}
	switch v := s.(type) {
	case *ast.BlockStmt:
		return e.execList(st, fr, v.List, 0)
	case *ast.ExprStmt:
		return pNext(pStates(e.evalExpr(st, fr, v.X)))
	case *ast.SendStmt:
		return pNext(pStates(e.evalExpr(st, fr, v.Value)))
	case *ast.IncDecStmt:
		return pNext([]*pState{st})
	case *ast.AssignStmt:
		return pNext(e.execAssign(st, fr, v.Lhs, v.Rhs, v.Tok))
	case *ast.DeclStmt:
		cur := []*pState{st}
		if gd, ok := v.Decl.(*ast.GenDecl); ok && gd.Tok == token.VAR {
			for _, sp := range gd.Specs {
				vs := sp.(*ast.ValueSpec)
				var lhs []ast.Expr
				for _, n := range vs.Names {
					lhs = append(lhs, n)
				}
				var nx []*pState
				for _, c := range cur {
					if len(vs.Values) > 0 {
						nx = append(nx, e.execAssign(c, fr, lhs, vs.Values, token.DEFINE)...)
					} else {
						for _, n := range vs.Names {
							c.vars[e.varKey(fr, n.Name)] = pZero(vs.Type)
						}
						nx = append(nx, c)
					}
				}
				cur = nx
			}
		}
		return pNext(cur)
	case *ast.GoStmt:
		if lit, ok := v.Call.Fun.(*ast.FuncLit); ok {
			e.emitOut(st, "spawn:begin", "", "")
			var out []*pState
			for _, r := range e.runLit(st, fr, lit, pVal{k: pvNil}) {
				e.emitOut(r, "spawn:end", "", "")
				out = append(out, r)
			}
			return pNext(out)
		}
		if flCalleeName(v.Call) == "startReadAndHandle" {
			e.emitOut(st, "spawn:startReadAndHandle", "", "")
			return pNext([]*pState{st})
		}
		e.emitOut(st, "spawn:begin", "", "")
		var out []*pState
		for _, r := range e.evalCall(st, fr, v.Call) {
			e.emitOut(r.st, "spawn:end", "", "")
			out = append(out, r.st)
		}
		return pNext(out)
	case *ast.IfStmt:
		var out []pRes
		inits := []pRes{{st, pCtl{}}}
		if v.Init != nil {
			inits = e.execStmt(st, fr, v.Init, "")
		}
		for _, in := range inits {
			if in.ctl.kind != cNext {
				out = append(out, in)
				continue
			}
			for _, c := range e.evalCond(in.st, fr, v.Cond) {
				if c.st.jumps < 0 {
					out = append(out, pRes{c.st, pCtl{kind: cDead}})
					continue
				}
				if c.t {
					out = append(out, e.execList(c.st, fr, v.Body.List, 0)...)
				} else if v.Else != nil {
					out = append(out, e.execStmt(c.st, fr, v.Else, "")...)
				} else {
					out = append(out, pRes{c.st, pCtl{}})
				}
			}
		}
		return out
	case *ast.ForStmt:
		return e.execFor(st, fr, v, label)
	case *ast.RangeStmt:
		return e.execRange(st, fr, v, label)
	case *ast.SwitchStmt:
		return e.execSwitch(st, fr, v, label)
	case *ast.TypeSwitchStmt:
		var out []pRes
		hasDefault := false
		for _, c := range v.Body.List {
			cc := c.(*ast.CaseClause)
			if cc.List == nil {
				hasDefault = true
			}
			out = append(out, e.loopExit(e.execList(st.clone(), fr, cc.Body, 0), label, false)...)
		}
		if !hasDefault {
			out = append(out, pRes{st.clone(), pCtl{}})
		}
		return out
	case *ast.SelectStmt:
		var out []pRes
		for _, c := range v.Body.List {
			cc := c.(*ast.CommClause)
			s0 := st.clone()
			rs := []pRes{{s0, pCtl{}}}
			if cc.Comm != nil {
				rs = e.execStmt(s0, fr, cc.Comm, "")
			}
			for _, r := range rs {
				if r.ctl.kind != cNext {
					out = append(out, r)
					continue
				}
				out = append(out, e.loopExit(e.execList(r.st, fr, cc.Body, 0), label, false)...)
			}
		}
		return out
	}
	e.miss(fmt.Sprintf("unplaced statement %T", s))
	return pNext([]*pState{st})
}

func pZero(t ast.Expr) pVal {
	switch v := t.(type) {
	case *ast.Ident:
		if v.Name == "bool" {
			return pVal{k: pvBool, b: false}
		}
		if v.Name == "error" {
			return pVal{k: pvNil}
		}
	case *ast.StarExpr:
		return pVal{k: pvNil}
	}
	return pVal{}
}

// loopExit: `break` (unlabelled or with the statement's label) leaves a switch / select.
func (e *pEngine) loopExit(rs []pRes, label string, _ bool) []pRes {
	for i, r := range rs {
		if r.ctl.kind == cBreak && (r.ctl.label == "" || r.ctl.label == label) {
			rs[i].ctl = pCtl{}
		}
	}
	return rs
}

func (e *pEngine) execReturn(st *pState, fr *pFrame, v *ast.ReturnStmt) []pRes {
	cur := []*pState{st}
	vals := map[*pState][]pVal{st: nil}
	multi := false
	for _, r := range v.Results {
		var nx []*pState
		nv := map[*pState][]pVal{}
		for _, s := range cur {
			for _, x := range e.evalExpr(s, fr, r) {
				nx = append(nx, x.st)
				if len(v.Results) == 1 && len(x.vs) > 1 {
					nv[x.st] = x.vs
					multi = true
				} else {
					nv[x.st] = append(append([]pVal(nil), vals[s]...), x.v)
				}
			}
		}
		cur, vals = nx, nv
	}
	_ = multi
	var out []pRes
	for _, s := range cur {
		if s.jumps < 0 {
			out = append(out, pRes{s, pCtl{kind: cDead}})
			continue
		}
		s.ret = vals[s]
		if fr.root {
			var txt []string
			for i, r := range v.Results {
				var val pVal
				if i < len(s.ret) {
					val = s.ret[i]
				}
				txt = append(txt, e.retText(fr, r, val))
			}
			e.emitOut(s, "return", strings.Join(txt, ","), "")
		}
		out = append(out, pRes{s, pCtl{kind: cReturn}})
	}
	return out
}

func (e *pEngine) retText(fr *pFrame, x ast.Expr, v pVal) string {
	switch v.k {
	case pvNil:
		return "nil"
	case pvBool:
		return fmt.Sprint(v.b)
	case pvRes:
		return v.s + "()"
	case pvConst:
		return v.s
	case pvNonNil:
		if v.s != "" {
			return v.s
		}
	}
	switch t := flUnparen(x).(type) {
	case *ast.Ident:
		if !fr.w.locals[t.Name] {
			return t.Name
		}
	case *ast.CallExpr:
		return fr.w.rx(t.Fun) + "()"
	case *ast.SelectorExpr:
		return fr.w.rx(t)
	}
	return "%"
}

func (e *pEngine) execAssign(st *pState, fr *pFrame, lhs, rhs []ast.Expr, tok token.Token) []*pState {
	if len(lhs) == len(rhs) {
		cur := []*pState{st}
		for i := range lhs {
			var nx []*pState
			for _, s := range cur {
				// a function literal stored in a watched field
				if lit, ok := flUnparen(rhs[i]).(*ast.FuncLit); ok {
					if sel, ok := lhs[i].(*ast.SelectorExpr); ok {
						e.emitOut(s, "assign:"+sel.Sel.Name, "", "")
						_ = lit
						nx = append(nx, s)
						continue
					}
				}
				// type assertion in stage-function mode: `a := x.(T)` without ok panics; not tracked
				for _, r := range e.evalExpr(s, fr, rhs[i]) {
					if r.st.jumps >= 0 {
						v := r.v
						if tok != token.ASSIGN && tok != token.DEFINE {
							v = pVal{}
						}
						e.bind(r.st, fr, lhs[i], v, rhs[i])
					}
					nx = append(nx, r.st)
				}
			}
			cur = nx
		}
		return cur
	}
	if len(rhs) != 1 {
		return []*pState{st}
	}
	if ta, ok := flUnparen(rhs[0]).(*ast.TypeAssertExpr); ok && e.loopMode && len(lhs) == 2 {
		d := "?"
		if id, ok := flUnparen(ta.X).(*ast.Ident); ok && id.Name == e.rangeVal {
			d = "rangeval"
		}
		id := e.emit(st, "assert:"+flBaseType(ta.Type), d, true)
		if a, ok := lhs[0].(*ast.Ident); ok {
			e.asserted[a.Name] = true
		}
		e.bind(st, fr, lhs[1], pVal{k: pvRes, id: id, s: "assert"}, nil)
		return []*pState{st}
	}
	var out []*pState
	for _, r := range e.evalExpr(st, fr, rhs[0]) {
		if r.st.jumps < 0 {
			out = append(out, r.st)
			continue
		}
		for i, l := range lhs {
			var v pVal
			switch {
			case len(r.vs) == len(lhs):
				v = r.vs[i]
			case len(r.vs) == 0 && i == len(lhs)-1 && (r.v.k == pvRes):
				v = r.v // the status / error / bool is the last result of a tracked call
			}
			e.bind(r.st, fr, l, v, nil)
		}
		out = append(out, r.st)
	}
	return out
}

func (e *pEngine) iterEnd(rs []pRes, label string, hasExit bool, after func(*pState) []pRes) []pRes {
	var out []pRes
	for _, r := range rs {
		mine := r.ctl.label == "" || r.ctl.label == label
		switch {
		case r.ctl.kind == cNext || (r.ctl.kind == cContinue && mine):
			if !hasExit {
				e.emitOut(r.st, "loop:back", "", "")
				r.st.jumps = -1
				out = append(out, pRes{r.st, pCtl{kind: cDead}})
			} else {
				e.emitOut(r.st, "loop:next", "", "")
				out = append(out, after(r.st)...)
			}
		case r.ctl.kind == cBreak && mine:
			e.emitOut(r.st, "loop:break", "", "")
			out = append(out, pRes{r.st, pCtl{}})
		default:
			out = append(out, r)
		}
	}
	return out
}

func (e *pEngine) execFor(st *pState, fr *pFrame, v *ast.ForStmt, label string) []pRes {
	var out []pRes
	inits := []pRes{{st, pCtl{}}}
	if v.Init != nil {
		inits = e.execStmt(st, fr, v.Init, "")
	}
	for _, in := range inits {
		if in.ctl.kind != cNext {
			out = append(out, in)
			continue
		}
		if v.Cond == nil {
			out = append(out, e.iterEnd(e.execList(in.st, fr, v.Body.List, 0), label, false, nil)...)
			continue
		}
		for _, c := range e.evalCond(in.st, fr, v.Cond) {
			if !c.t {
				out = append(out, pRes{c.st, pCtl{}})
				continue
			}
			out = append(out, e.iterEnd(e.execList(c.st, fr, v.Body.List, 0), label, true, func(s *pState) []pRes {
				if v.Post != nil {
					return e.execStmt(s, fr, v.Post, "")
				}
				return []pRes{{s, pCtl{}}}
			})...)
		}
	}
	return out
}

func (e *pEngine) execRange(st *pState, fr *pFrame, v *ast.RangeStmt, label string) []pRes {
	var out []pRes
	for _, r := range e.evalExpr(st, fr, v.X) {
		zero := r.st.clone()
		out = append(out, pRes{zero, pCtl{}})
		one := r.st
		for _, kv := range []ast.Expr{v.Key, v.Value} {
			if id, ok := kv.(*ast.Ident); ok && id.Name != "_" {
				delete(one.vars, e.varKey(fr, id.Name))
			}
		}
		if e.loopMode {
			k := "range:" + fr.w.rx(v.X)
			if id, ok := v.Key.(*ast.Ident); ok && id.Name != "_" {
				k += "[key]"
			}
			e.emitOut(one, k, "", "")
			if id, ok := v.Value.(*ast.Ident); ok {
				e.rangeVal = id.Name
			}
		}
		out = append(out, e.iterEnd(e.execList(one, fr, v.Body.List, 0), label, true, func(s *pState) []pRes { return []pRes{{s, pCtl{}}} })...)
	}
	return out
}

func (e *pEngine) execSwitch(st *pState, fr *pFrame, v *ast.SwitchStmt, label string) []pRes {
	var out []pRes
	inits := []pRes{{st, pCtl{}}}
	if v.Init != nil {
		inits = e.execStmt(st, fr, v.Init, "")
	}
	for _, in := range inits {
		if in.ctl.kind != cNext {
			out = append(out, in)
			continue
		}
		if v.Tag == nil {
			out = append(out, e.loopExit(e.switchChain(in.st, fr, v.Body.List, 0), label, false)...)
			continue
		}
		for _, t := range e.evalExpr(in.st, fr, v.Tag) {
			if t.v.k == pvStatus {
				out = append(out, e.loopExit(e.statusSwitch(t.st, fr, v, t.v.id), label, false)...)
				continue
			}
			hasDefault := false
			for _, c := range v.Body.List {
				cc := c.(*ast.CaseClause)
				if cc.List == nil {
					hasDefault = true
				}
				out = append(out, e.loopExit(e.execList(t.st.clone(), fr, cc.Body, 0), label, false)...)
			}
			if !hasDefault {
				out = append(out, pRes{t.st.clone(), pCtl{}})
			}
		}
	}
	return out
}

// switchChain: `switch { case c1: … case c2: … default: … }` as an if / else-if chain.
func (e *pEngine) switchChain(st *pState, fr *pFrame, clauses []ast.Stmt, i int) []pRes {
	var def *ast.CaseClause
	for j := i; j < len(clauses); j++ {
		cc := clauses[j].(*ast.CaseClause)
		if cc.List == nil {
			def = cc
			continue
		}
		var cond ast.Expr = cc.List[0]
		for _, x := range cc.List[1:] {
			cond = &ast.BinaryExpr{X: cond, Op: token.LOR, Y: x}
		}
		var out []pRes
		for _, c := range e.evalCond(st, fr, cond) {
			if c.t {
				out = append(out, e.execList(c.st, fr, cc.Body, 0)...)
			} else {
				out = append(out, e.switchChain(c.st, fr, clauses, j+1)...)
			}
		}
		_ = def
		return out
	}
	// no further conditional clause: the default clause (searched over the whole switch) or nothing
	for _, c := range clauses {
		if cc := c.(*ast.CaseClause); cc.List == nil {
			return e.execList(st, fr, cc.Body, 0)
		}
	}
	return []pRes{{st, pCtl{}}}
}

func (e *pEngine) statusSwitch(st *pState, fr *pFrame, v *ast.SwitchStmt, id int) []pRes {
	al := st.allowed[id]
	if al == nil {
		al = e.consts
	}
	rest := append([]string(nil), al...)
	var out []pRes
	var def *ast.CaseClause
	for _, c := range v.Body.List {
		cc := c.(*ast.CaseClause)
		if cc.List == nil {
			def = cc
			continue
		}
		var names, hit []string
		for _, x := range cc.List {
			n := fr.w.rx(x)
			names = append(names, n)
			if !flStatusConst.MatchString(n) {
				e.miss("status switch with a case that is not a status constant")
			}
			for _, a := range rest {
				if a == n {
					hit = append(hit, n)
				}
			}
		}
		var nr []string
		for _, a := range rest {
			in := false
			for _, h := range hit {
				if h == a {
					in = true
				}
			}
			if !in {
				nr = append(nr, a)
			}
		}
		rest = nr
		if len(hit) == 0 {
			continue
		}
		s := st.clone()
		s.allowed[id] = hit
		e.emitOut(s, "case:"+strings.Join(names, ","), "", "")
		out = append(out, e.execList(s, fr, cc.Body, 0)...)
	}
	if len(rest) > 0 {
		s := st.clone()
		s.allowed[id] = rest
		if def != nil {
			e.emitOut(s, "case:default", "", "")
			out = append(out, e.execList(s, fr, def.Body, 0)...)
		} else {
			out = append(out, pRes{s, pCtl{}})
		}
	}
	return out
}

// ---------------------------------------------------------------------------------------------
// roots

type pPath [][4]string

// pFlagVars: locals of the root that a deferred literal tests as a bare (possibly negated) condition.
func pFlagVars(fd *ast.FuncDecl, body *ast.BlockStmt) map[string]string {
	out := map[string]string{}
	locals := localsOf(fd)
	for _, s := range body.List {
		d, ok := s.(*ast.DeferStmt)
		if !ok {
			continue
		}
		lit, ok := d.Call.Fun.(*ast.FuncLit)
		if !ok {
			continue
		}
		inner := map[string]bool{}
		ast.Inspect(lit.Body, func(n ast.Node) bool {
			if as, ok := n.(*ast.AssignStmt); ok && as.Tok == token.DEFINE {
				for _, l := range as.Lhs {
					if id, ok := l.(*ast.Ident); ok {
						inner[id.Name] = true
					}
				}
			}
			return true
		})
		ast.Inspect(lit.Body, func(n ast.Node) bool {
			is, ok := n.(*ast.IfStmt)
			if !ok {
				return true
			}
			var visit func(x ast.Expr)
			visit = func(x ast.Expr) {
				switch v := flUnparen(x).(type) {
				case *ast.UnaryExpr:
					if v.Op == token.NOT {
						visit(v.X)
					}
				case *ast.BinaryExpr:
					if v.Op == token.LAND || v.Op == token.LOR {
						visit(v.X)
						visit(v.Y)
					}
				case *ast.Ident:
					if locals[v.Name] && !inner[v.Name] && v.Name != "true" && v.Name != "false" {
						if _, ok := out[v.Name]; !ok {
							out[v.Name] = "flag"
						}
					}
				}
			}
			visit(is.Cond)
			return true
		})
	}
	return out
}

func (e *pEngine) render(st *pState) pPath {
	var p pPath
	for _, ev := range st.evs {
		kind, name := flSplitKey(ev.Key)
		out := ev.Out
		if ev.ID > 0 {
			switch st.dec[ev.ID] {
			case 1:
				out = "ok"
			case 2:
				out = "fail"
			}
		}
		p = append(p, [4]string{kind, name, ev.Detail, out})
	}
	return p
}

func (x *flPkg) newEngine(consts []string) *pEngine {
	return &pEngine{x: x, consts: consts, flagVars: map[string]string{}, skipLit: map[*ast.FuncLit]bool{}, asserted: map[string]bool{},
		budget: 400000, intMemo: map[*ast.FuncDecl]int{}}
}

func newPState() *pState {
	return &pState{dec: map[int]int8{}, allowed: map[int][]string{}, vars: map[string]pVal{}, fields: map[string]pVal{}, fdec: map[string]bool{}, defers: map[int][]pDefer{}}
}

// pathsOfRoot: all paths of the root (full vocabulary) and what could not be placed.
func (x *flPkg) pathsOfRoot(r flRoot, consts []string, loopMode bool) ([]pPath, []string) {
	e := x.newEngine(consts)
	e.loopMode = loopMode
	for _, l := range r.skip {
		e.skipLit[l] = true
	}
	var evs []flEv
	w := x.newWalker(r.fd, r.Name, r.body, &evs)
	e.nextFrame++
	fr := &pFrame{id: e.nextFrame, scope: e.nextFrame, w: w, fd: r.fd, recvChain: "$", root: true, recoverV: pVal{k: pvNil}}
	if w.recv == "" {
		fr.recvChain = ""
	}
	e.rootScope = fr.scope
	if !loopMode {
		e.flagVars = pFlagVars(r.fd, r.body)
	}
	if r.fd.Type.Results != nil && r.body == r.fd.Body {
		for _, f := range r.fd.Type.Results.List {
			for _, n := range f.Names {
				fr.results = append(fr.results, n.Name)
			}
		}
	}
	var out []pPath
	for _, res := range e.execList(newPState(), fr, r.body.List, 0) {
		switch res.ctl.kind {
		case cDead:
			out = append(out, e.render(res.st))
			continue
		case cNext:
			e.emitOut(res.st, "return", "", "")
		case cReturn:
		default:
			e.miss("control transfer out of the root")
		}
		for _, s := range e.runDefers(res.st, fr) {
			out = append(out, e.render(s))
		}
	}
	return out, e.missing
}

// recoverPathsOfRoot: the deferred literals of the root that call recover(), run with recover() != nil
// and nothing known about the locals (a panic can come from anywhere in the body).
func (x *flPkg) recoverPathsOfRoot(r flRoot, consts []string) ([]pPath, []string) {
	e := x.newEngine(consts)
	var evs []flEv
	w := x.newWalker(r.fd, r.Name, r.body, &evs)
	e.nextFrame++
	fr := &pFrame{id: e.nextFrame, scope: e.nextFrame, w: w, fd: r.fd, recvChain: "$", root: false, recoverV: pVal{k: pvNonNil}}
	e.rootScope = fr.scope
	e.flagVars = pFlagVars(r.fd, r.body)
	var out []pPath
	for _, s := range r.body.List {
		d, ok := s.(*ast.DeferStmt)
		if !ok {
			continue
		}
		lit, ok := d.Call.Fun.(*ast.FuncLit)
		if !ok {
			continue
		}
		has := false
		ast.Inspect(lit.Body, func(n ast.Node) bool {
			if c, ok := n.(*ast.CallExpr); ok && flCalleeName(c) == "recover" {
				has = true
			}
			return true
		})
		if !has {
			continue
		}
		for _, st := range e.runLit(newPState(), fr, lit, pVal{k: pvNonNil}) {
			out = append(out, e.render(st))
		}
	}
	return out, e.missing
}

// ---------------------------------------------------------------------------------------------
// projection and Lean rendering

const pPathsType = "List (List (String × String × String × String))"

func pProject(paths []pPath, keep func(kind, name string) bool) []pPath {
	seen := map[string]bool{}
	var out []pPath
	for _, p := range paths {
		var q pPath
		for _, ev := range p {
			if keep(ev[0], ev[1]) || strings.HasPrefix(ev[0], "?") {
				q = append(q, ev)
			}
		}
		k := pPathKey(q)
		if !seen[k] {
			seen[k] = true
			out = append(out, q)
		}
	}
	sort.Slice(out, func(i, j int) bool { return pPathKey(out[i]) < pPathKey(out[j]) })
	return out
}

func pPathKey(p pPath) string {
	var b strings.Builder
	for _, ev := range p {
		b.WriteString(strings.Join(ev[:], "\x01"))
		b.WriteString("\x02")
	}
	return b.String()
}

func pPathsLean(paths []pPath) string {
	if len(paths) == 0 {
		return "[]"
	}
	var rows []string
	for _, p := range paths {
		var evs []string
		for _, ev := range p {
			evs = append(evs, "("+leanStr(ev[0])+", "+leanStr(ev[1])+", "+leanStr(ev[2])+", "+leanStr(ev[3])+")")
		}
		rows = append(rows, "["+strings.Join(evs, ", ")+"]")
	}
	return "[\n  " + strings.Join(rows, ",\n  ") + "]"
}

// addPaths emits `<name>` and `<name>_missing`.
func (l *Lean) addPaths(name, doc string, paths []pPath, missing []string) {
	for _, p := range paths {
		for _, ev := range p {
			if strings.HasPrefix(ev[0], "?") {
				missing = append(missing, "unplaced "+ev[0]+":"+ev[1])
			}
		}
	}
	sort.Strings(missing)
	l.add(name, doc+" — every acyclic path, each the ordered events (kind, name, detail, outcome decided on that path); sorted set of paths",
		pPathsType, pPathsLean(paths))
	l.add(name+"_missing", "what the path extractor could not place in "+name+" (must be empty for the theorems that read it)", "List String", strList(missing))
	for _, m := range missing {
		fmt.Printf("srcfacts: %s: %s: MISSING %s\n", l.group, name, m)
	}
}

func (l *Lean) missingPaths(name, why string) {
	l.add(name, "FACT MISSING: "+why, pPathsType, "[]")
	l.add(name+"_missing", "what the path extractor could not place in "+name, "List String", strList([]string{why}))
	fmt.Printf("srcfacts: %s: %s: MISSING %s\n", l.group, name, why)
}
