package main

// Fact group `Guards` (property C14, data-race freedom — PARTIAL claim): for every watched shared
// field, every syntactic access site `x.f` in the field's own package, with
//   - kind  "R" / "W"  (assignment target, `x.f op= e`, `x.f++`, `x.f[k] = v`, `delete(x.f, k)`,
//                        a key of a composite literal of the struct, `&x.f` passed to a non-Load
//                        sync/atomic function or escaping otherwise = W; everything else = R),
//   - atomic            (the site is `&x.f` as an argument of a `sync/atomic` function),
//   - the locks syntactically held at that point: a structured walk of the enclosing function body
//     in source order, `m.Lock()` / `m.RLock()` add, `m.Unlock()` / `m.RUnlock()` remove,
//     `defer m.Unlock()` keeps the lock to the end of the function; a nested block that does not end
//     in return/goto/break/continue/panic hands back the intersection with the outer set;
//     a function literal starts with the EMPTY set (it may run later or in another goroutine) and
//     is named `<outer>$defer`, `<outer>$go`, `<outer>$<assigned name>` or `<outer>$lit`,
//   - the enclosing function (`Type.method` / `func`) and file;
//   - a publication marker `callCmd.@done` (mode "P") is carried like a lock after a statement
//     `x.done()` / `x.cancel()` on a callCmd: accesses after it in the same function come after
//     close(doneChan).
// Watch list: for the structs marked `all` EVERY field except the synchronisation objects themselves is
// watched (the list is read from the struct declaration on every run, so a field added later is in the
// table at once and needs a declared discipline); package-level `var X = func...` literals are walked too.
// No callee inlining: a function that is only called with a lock held is named as such by the
// declared guard map in Lean (lean/Teleport/Props/C14.lean), not here.
//
// Pseudo fields: method calls on unsynchronised helper objects that act as an access of shared
// state are watched through call patterns (`t.rwCounter.WriteCounter.Zero()` = W of
// `tBinaryProto.writeCount`). Promoted methods of an
// embedded field (`s.RemoteAddr()` on `socket`, which embeds net.Conn) are implicit reads of it.
//
// Wait groups: the session's grace counters are of the package's own type `graceWaitGroup`
// (mutex + counter + channel; Add concurrent with Wait is well defined). Its fields are watched like
// every other struct (`graceWaitGroup.n`, `graceWaitGroup.zero`, lock `graceWaitGroup.mu`), and the
// session fields holding such a value are ordinary watched fields (`s.graceCtxWaitGroup.Add(1)` is
// a read of the field: the method works on the value in place). A field of type sync.WaitGroup in
// a struct watched with `all` is NOT skipped: every `x.f.Add(..)` / `x.f.Wait()` on it is a W site
// of `T.f` (sync.WaitGroup requires Add-from-zero and Wait to be ordered, so the two must be
// mutually excluded like writes) — the patterns are derived from the struct declaration on every
// run (`guardWaitGroupPatterns`), so such a field needs a declared discipline at once.
//
// Types are inferred syntactically (receivers, parameters, `:=` from constructors / composite
// literals / type assertions / fields of known structs). A selector whose base type cannot be
// inferred and whose field name is a watched name of that package is listed in `guardUnresolved`
// (the consuming theorem pins that list), a watched struct/field that is not found or has no site
// is listed in `guards_missing`: both fail closed.
//
// Limits (say so in every claim): lock identity is by (owner type, field name), not by instance;
// no aliasing, no reflection, no unsafe; the walk is syntactic.

import (
	"fmt"
	"go/ast"
	"go/token"
	"path/filepath"
	"sort"
	"strings"
)

func init() {
	register(Group{
		Name: "Guards",
		Doc:  "Access sites of the watched shared fields with the locks syntactically held (kind R/W, atomic?, locks, enclosing function, file). Consumed by Teleport.Props.C14 (C14_discipline, C14_known_racy_sites_violate, C14_extraction_complete). PARTIAL: syntactic lock regions, no callee inlining.",
		Gen: func(r *Repo, l *Lean) {
			sites, unresolved, missing := genGuards(r)
			for _, m := range missing {
				l.Missing("guards_missing_"+leanIdent(m), m)
			}
			l.add("guards", "(field, kind R/W, atomic, locks held as (lock, mode R/W), enclosing function, file); sorted set",
				"List (String × String × Bool × List (String × String) × String × String)", renderGuardSites(sites))
			l.add("guardUnresolved", "selectors with a watched field name whose base type could not be inferred: (field name, enclosing function, file)",
				"List (String × String × String)", renderUnresolved(unresolved))
		},
	})
}

// ---------------------------------------------------------------------------------------------
// watch lists

type guardWatch struct {
	dir, typ string
	fields   []string
	// all: watch EVERY field of the struct (the declared list `fields` is then only a presence
	// requirement) except the synchronisation objects themselves (sync.Mutex / sync.RWMutex fields are
	// the locks; sync.WaitGroup fields are watched through derived Add/Wait call patterns). A field added
	// to the struct later is watched automatically and must be given a discipline in Conc.guardOf (fails closed).
	all bool
	// embedded field name -> promoted method names (a call x.M() with M not declared on typ in
	// the package is an implicit read of the embedded field)
	promoted map[string][]string
}

var netConnMethods = []string{"Read", "Write", "Close", "LocalAddr", "RemoteAddr", "SetDeadline", "SetReadDeadline", "SetWriteDeadline"}

var guardWatches = []guardWatch{
	{dir: "", typ: "session", all: true, fields: []string{"status", "seq", "didCloseNotify", "sessionAge", "contextAge", "socket",
		"protoFuncs", "redialForClientLocked", "callCmdMap", "closeNotifyCh"}},
	// the session's grace counters (Add / Done / Wait from reader, handlers, callers and the closer)
	{dir: "", typ: "graceWaitGroup", all: true, fields: []string{"n", "zero"}},
	{dir: "", typ: "callCmd", all: true, fields: []string{"stat", "inputMeta", "result", "inputBodyCodec", "cost"}},
	{dir: "socket", typ: "socket", all: true, fields: []string{"Conn", "readerWithBuffer", "protocol", "id", "swap", "curState", "fromPool"},
		promoted: map[string][]string{"Conn": netConnMethods}},
	{dir: "", typ: "SessionHub", all: true, fields: []string{"sessions"}},
	{dir: "", typ: "peer", all: true, fields: []string{"listeners", "closeCh", "tlsConfig"}},
	{dir: "", typ: "pluginSingleContainer", fields: []string{"plugins"}},
	{dir: "", typ: "PluginContainer", fields: []string{"left", "middle", "right", "refreshTree"}},
	// the thrift protocol object shared by Pack and Unpack (every mention is a use of the object)
	{dir: "proto/thriftproto", typ: "tBinaryProto", all: true, fields: []string{"tProtocol"}},
	{dir: "proto/thriftproto", typ: "tStructProto", all: true, fields: []string{"tProtocol"}},
	// the other protocol objects (one per socket, shared by its reader and all writers): every field
	{dir: "socket", typ: "rawProto", all: true, fields: []string{"r", "w"}},
	{dir: "proto/jsonproto", typ: "jsonproto", all: true, fields: []string{"rw"}},
	{dir: "proto/pbproto", typ: "pbproto", all: true, fields: []string{"rw"}},
	{dir: "proto/httproto", typ: "httproto", all: true, fields: []string{"rw"}},
	{dir: "utils", typ: "ReadCounter", fields: []string{"count"}},
	{dir: "utils", typ: "WriteCounter", fields: []string{"count"}},
}

// guardCallPattern: a call `<base>.<chain>(...)` with base of type typ is an access of a pseudo field.
type guardCallPattern struct {
	dir, typ, chain, field, kind string
}

var guardCallPatterns = []guardCallPattern{
	{"proto/thriftproto", "tBinaryProto", "rwCounter.WriteCounter.Zero", "writeCount", "W"},
	{"proto/thriftproto", "tBinaryProto", "rwCounter.ReadCounter.Zero", "readCount", "W"},
	{"proto/thriftproto", "tBinaryProto", "rwCounter.Writed", "writeCount", "R"},
	{"proto/thriftproto", "tBinaryProto", "rwCounter.Readed", "readCount", "R"},
	{"proto/thriftproto", "tStructProto", "rwCounter.WriteCounter.Zero", "writeCount", "W"},
	{"proto/thriftproto", "tStructProto", "rwCounter.ReadCounter.Zero", "readCount", "W"},
	{"proto/thriftproto", "tStructProto", "rwCounter.Writed", "writeCount", "R"},
	{"proto/thriftproto", "tStructProto", "rwCounter.Readed", "readCount", "R"},
	// promoted net.Conn methods of the embedded socket.Conn reached through the Socket interface
	// (socket declares Read and Close itself): implicit reads of socket.Conn made in the root package.
	{"", "session", "socket.LocalAddr", "socket.Conn", "R"},
	{"", "session", "socket.RemoteAddr", "socket.Conn", "R"},
	{"", "session", "socket.SetDeadline", "socket.Conn", "R"},
	{"", "session", "socket.SetReadDeadline", "socket.Conn", "R"},
	{"", "session", "socket.SetWriteDeadline", "socket.Conn", "R"},
	{"", "session", "socket.Write", "socket.Conn", "R"},
}

// guardWaitGroupPatterns: for a field `f sync.WaitGroup` of watched struct typ, `x.f.Add(..)` and
// `x.f.Wait()` are W sites of `typ.f` (they must be mutually excluded; `Done` may run concurrently
// with both and is not a site).
func guardWaitGroupPatterns(dir, typ, field string) []guardCallPattern {
	return []guardCallPattern{
		{dir, typ, field + ".Add", field, "W"},
		{dir, typ, field + ".Wait", field, "W"},
	}
}

// guardPublishMarker: after the statement `x.<method>()` (x of type typ) the rest of the function
// carries the pseudo lock `<typ>.@<marker>` with mode "P": the object has been handed to its
// waiters (callCmd.done / callCmd.cancel close doneChan), later writes are no longer ordered
// before the waiters' reads.
type guardPublishMarker struct{ dir, typ, method, marker string }

var guardPublishMarkers = []guardPublishMarker{
	{"", "callCmd", "done", "done"},
	{"", "callCmd", "cancel", "done"},
}

// pseudo fields that must have at least one site (fail closed when the call shape disappears)
var guardPseudoRequired = []string{
	"tBinaryProto.writeCount", "tBinaryProto.readCount", "tStructProto.writeCount", "tStructProto.readCount",
}

// ---------------------------------------------------------------------------------------------
// result types

type gLock struct{ Name, Mode string }

type gSite struct {
	Field, Kind string
	Atomic      bool
	Locks       []gLock
	Func, File  string
}

type gUnres struct{ Field, Func, File string }

func (s gSite) key() string {
	ls := make([]string, len(s.Locks))
	for i, l := range s.Locks {
		ls[i] = l.Name + ":" + l.Mode
	}
	return fmt.Sprintf("%s|%s|%v|%s|%s|%s", s.Field, s.Kind, s.Atomic, strings.Join(ls, ","), s.Func, s.File)
}

func renderGuardSites(sites []gSite) string {
	if len(sites) == 0 {
		return "[]"
	}
	var b strings.Builder
	b.WriteString("[\n")
	for i, s := range sites {
		ls := make([]string, len(s.Locks))
		for j, l := range s.Locks {
			ls[j] = "(" + leanStr(l.Name) + ", " + leanStr(l.Mode) + ")"
		}
		at := "false"
		if s.Atomic {
			at = "true"
		}
		fmt.Fprintf(&b, "  (%s, %s, %s, [%s], %s, %s)", leanStr(s.Field), leanStr(s.Kind), at, strings.Join(ls, ", "), leanStr(s.Func), leanStr(s.File))
		if i+1 < len(sites) {
			b.WriteString(",")
		}
		b.WriteString("\n")
	}
	b.WriteString("]")
	return b.String()
}

func renderUnresolved(us []gUnres) string {
	parts := make([]string, len(us))
	for i, u := range us {
		parts[i] = "(" + leanStr(u.Field) + ", " + leanStr(u.Func) + ", " + leanStr(u.File) + ")"
	}
	return "[" + strings.Join(parts, ", ") + "]"
}

func leanIdent(s string) string {
	var b strings.Builder
	for _, c := range s {
		if c >= 'a' && c <= 'z' || c >= 'A' && c <= 'Z' || c >= '0' && c <= '9' {
			b.WriteRune(c)
		} else {
			b.WriteByte('_')
		}
	}
	out := b.String()
	if len(out) > 60 {
		out = out[:60]
	}
	return out
}

// ---------------------------------------------------------------------------------------------
// extraction

// genGuards extracts all sites from the repo. It never panics on purpose; the registry wrapper
// converts a panic into a missing marker anyway.
func genGuards(r *Repo) (sites []gSite, unresolved []gUnres, missing []string) {
	dirs := map[string]bool{}
	for _, w := range guardWatches {
		dirs[w.dir] = true
	}
	for _, c := range guardCallPatterns {
		dirs[c.dir] = true
	}
	var dirList []string
	for d := range dirs {
		dirList = append(dirList, d)
	}
	sort.Strings(dirList)

	seen := map[string]bool{}
	seenU := map[string]bool{}
	fieldHasSite := map[string]bool{}
	// expand `all` watches to the struct's current field list (minus its synchronisation objects)
	watches := make([]guardWatch, len(guardWatches))
	copy(watches, guardWatches)
	patterns := append([]guardCallPattern{}, guardCallPatterns...)
	for i, w := range watches {
		if !w.all {
			continue
		}
		p := r.Pkg(w.dir)
		if p.Err != nil {
			continue
		}
		st := guardUnderlyingStruct(p, w.typ)
		if st == nil {
			continue // reported below
		}
		fs := append([]string{}, w.fields...)
		have := map[string]bool{}
		for _, f := range fs {
			have[f] = true
		}
		for _, fl := range st.Fields.List {
			if isSyncObjectType(fl.Type) {
				if baseTypeName(fl.Type) == "sync.WaitGroup" {
					for _, n := range fl.Names {
						patterns = append(patterns, guardWaitGroupPatterns(w.dir, w.typ, n.Name)...)
					}
				}
				continue
			}
			for _, n := range StructFieldNames(&ast.StructType{Fields: &ast.FieldList{List: []*ast.Field{fl}}}) {
				if !have[n] {
					have[n] = true
					fs = append(fs, n)
				}
			}
		}
		watches[i].fields = fs
	}
	for _, dir := range dirList {
		p := r.Pkg(dir)
		if p.Err != nil || len(p.Files) == 0 {
			missing = append(missing, fmt.Sprintf("package dir '%s' unreadable or empty: %v", dir, p.Err))
			continue
		}
		px := newGuardPkg(p, dir, watches, patterns)
		for _, w := range watches {
			if w.dir != dir {
				continue
			}
			st := p.Struct(w.typ)
			if st == nil {
				if under := px.defined[w.typ]; under != "" { // `type T U` with U a struct of the package
					st = p.Struct(under)
				}
			}
			if st == nil {
				missing = append(missing, "struct "+w.typ+" not found exactly once in '"+dir+"'")
				continue
			}
			have := map[string]bool{}
			for _, n := range StructFieldNames(st) {
				have[n] = true
			}
			for _, f := range w.fields {
				if !have[f] {
					missing = append(missing, "field "+w.typ+"."+f+" not found")
				}
			}
		}
		for _, f := range p.Files {
			file := filepath.Join(dir, filepath.Base(p.Fset.Position(f.Pos()).Filename))
			for _, d := range f.Decls {
				fw := &guardFuncWalk{px: px, file: file}
				switch fd := d.(type) {
				case *ast.FuncDecl:
					if fd.Body == nil {
						continue
					}
					name := fd.Name.Name
					if rt := recvTypeName(fd); rt != "" {
						name = rt + "." + name
					}
					fw.walkFunc(name, fd.Recv, fd.Type, fd.Body, nil)
				case *ast.GenDecl:
					// package-level `var X = func(...) {...}` (e.g. socket.RawProtoFunc): the literal is a
					// function of its own, named `X$lit`
					if fd.Tok != token.VAR {
						continue
					}
					for _, sp := range fd.Specs {
						vs, ok := sp.(*ast.ValueSpec)
						if !ok {
							continue
						}
						for i, v := range vs.Values {
							vname := "_"
							if i < len(vs.Names) {
								vname = vs.Names[i].Name
							}
							c := &guardCtx{fw: fw, name: vname, env: guardEnv{}, nlits: map[string]int{}}
							c.expr(lockSet{}, v)
						}
					}
				default:
					continue
				}
				for _, s := range fw.sites {
					fieldHasSite[s.Field] = true
					if k := s.key(); !seen[k] {
						seen[k] = true
						sites = append(sites, s)
					}
				}
				for _, u := range fw.unres {
					k := u.Field + "|" + u.Func + "|" + u.File
					if !seenU[k] {
						seenU[k] = true
						unresolved = append(unresolved, u)
					}
				}
			}
		}
	}
	for _, w := range watches {
		for _, f := range w.fields {
			if !fieldHasSite[w.typ+"."+f] {
				missing = append(missing, "no access site found for "+w.typ+"."+f)
			}
		}
	}
	for _, pf := range guardPseudoRequired {
		if !fieldHasSite[pf] {
			missing = append(missing, "no call site found for pseudo field "+pf)
		}
	}
	sort.Slice(sites, func(i, j int) bool { return sites[i].key() < sites[j].key() })
	sort.Slice(unresolved, func(i, j int) bool {
		a, b := unresolved[i], unresolved[j]
		return a.Field+"|"+a.Func+"|"+a.File < b.Field+"|"+b.Func+"|"+b.File
	})
	sort.Strings(missing)
	return
}

// guardPkg: syntactic type tables of one package directory.
type guardPkg struct {
	p          *Pkg
	dir        string
	fieldType  map[string]map[string]string // struct -> field -> base type name
	structs    map[string]bool
	funcRes    map[string][]string // "f" or "T.m" -> result base type names
	methods    map[string]map[string]bool
	watched    map[string]map[string]bool   // type -> watched field set
	watchedAny map[string]bool              // watched field names of this package
	promoted   map[string]map[string]string // type -> method -> embedded field
	patterns   []guardCallPattern
	defined    map[string]string // `type T U` (U an identifier): T -> U
}

func baseTypeName(e ast.Expr) string {
	switch x := e.(type) {
	case *ast.StarExpr:
		return baseTypeName(x.X)
	case *ast.ParenExpr:
		return baseTypeName(x.X)
	case *ast.Ident:
		return x.Name
	case *ast.SelectorExpr: // pkg.Type: other package, qualified so that it never equals a local type
		if id, ok := x.X.(*ast.Ident); ok {
			return id.Name + "." + x.Sel.Name
		}
	}
	return ""
}

// guardUnderlyingStruct: the struct type of `name`, following one `type T U` step inside the package.
func guardUnderlyingStruct(p *Pkg, name string) *ast.StructType {
	if st := p.Struct(name); st != nil {
		return st
	}
	for _, f := range p.Files {
		for _, d := range f.Decls {
			gd, ok := d.(*ast.GenDecl)
			if !ok || gd.Tok != token.TYPE {
				continue
			}
			for _, sp := range gd.Specs {
				ts := sp.(*ast.TypeSpec)
				if id, ok := ts.Type.(*ast.Ident); ok && ts.Name.Name == name {
					return p.Struct(id.Name)
				}
			}
		}
	}
	return nil
}

// isSyncObjectType: sync.Mutex / sync.RWMutex (the locks themselves) and sync.WaitGroup (watched through
// the derived Add/Wait call patterns of guardWaitGroupPatterns, its own methods synchronise internally).
func isSyncObjectType(e ast.Expr) bool {
	switch baseTypeName(e) {
	case "sync.Mutex", "sync.RWMutex", "sync.WaitGroup":
		_, ptr := e.(*ast.StarExpr)
		return !ptr
	}
	return false
}

func newGuardPkg(p *Pkg, dir string, watches []guardWatch, patterns []guardCallPattern) *guardPkg {
	g := &guardPkg{p: p, dir: dir, fieldType: map[string]map[string]string{}, structs: map[string]bool{},
		funcRes: map[string][]string{}, methods: map[string]map[string]bool{}, watched: map[string]map[string]bool{},
		watchedAny: map[string]bool{}, promoted: map[string]map[string]string{}, defined: map[string]string{}}
	for _, f := range p.Files {
		for _, d := range f.Decls {
			switch x := d.(type) {
			case *ast.GenDecl:
				if x.Tok != token.TYPE {
					continue
				}
				for _, s := range x.Specs {
					ts := s.(*ast.TypeSpec)
					st, ok := ts.Type.(*ast.StructType)
					if !ok {
						if id, isID := ts.Type.(*ast.Ident); isID {
							g.defined[ts.Name.Name] = id.Name
						}
						continue
					}
					g.structs[ts.Name.Name] = true
					m := map[string]string{}
					for _, fl := range st.Fields.List {
						bt := baseTypeName(fl.Type)
						if len(fl.Names) == 0 {
							n := bt
							if i := strings.LastIndexByte(n, '.'); i >= 0 {
								n = n[i+1:]
							}
							m[n] = bt
						}
						for _, n := range fl.Names {
							m[n.Name] = bt
						}
					}
					g.fieldType[ts.Name.Name] = m
				}
			case *ast.FuncDecl:
				var res []string
				if x.Type.Results != nil {
					for _, r := range x.Type.Results.List {
						n := len(r.Names)
						if n == 0 {
							n = 1
						}
						for i := 0; i < n; i++ {
							res = append(res, baseTypeName(r.Type))
						}
					}
				}
				if rt := recvTypeName(x); rt != "" {
					g.funcRes[rt+"."+x.Name.Name] = res
					if g.methods[rt] == nil {
						g.methods[rt] = map[string]bool{}
					}
					g.methods[rt][x.Name.Name] = true
				} else {
					g.funcRes[x.Name.Name] = res
				}
			}
		}
	}
	for t, u := range g.defined { // a defined type shares the field list of its underlying struct
		if m, ok := g.fieldType[u]; ok && g.fieldType[t] == nil {
			g.fieldType[t] = m
		}
	}
	for _, w := range watches {
		if w.dir != dir {
			continue
		}
		g.watched[w.typ] = map[string]bool{}
		for _, f := range w.fields {
			g.watched[w.typ][f] = true
			g.watchedAny[f] = true
		}
		for emb, ms := range w.promoted {
			if g.promoted[w.typ] == nil {
				g.promoted[w.typ] = map[string]string{}
			}
			for _, m := range ms {
				g.promoted[w.typ][m] = emb
			}
		}
	}
	for _, c := range patterns {
		if c.dir == dir {
			g.patterns = append(g.patterns, c)
		}
	}
	return g
}

// guardFuncWalk walks one top-level function and its literals.
type guardFuncWalk struct {
	px    *guardPkg
	file  string
	sites []gSite
	unres []gUnres
	hook  guardHook // optional observer (facts_callers.go); nil for the Guards group itself
}

// guardHook lets another fact group observe the same walk (same function names, same lock sets).
type guardHook interface {
	onExpr(c *guardCtx, held lockSet, e ast.Expr)                         // every expression visited by expr
	onStmtCall(c *guardCtx, held lockSet, call *ast.CallExpr, tag string) // the call of a `go` / `defer` statement
	onLit(c *guardCtx, name, tag string, fl *ast.FuncLit)                 // a function literal, with the name it is walked under
}

type guardEnv map[string]string // identifier -> base type name

func (e guardEnv) clone() guardEnv {
	c := guardEnv{}
	for k, v := range e {
		c[k] = v
	}
	return c
}

type lockSet map[string]string // lock name -> mode

func (l lockSet) clone() lockSet {
	c := lockSet{}
	for k, v := range l {
		c[k] = v
	}
	return c
}

func (l lockSet) list() []gLock {
	var out []gLock
	for k, v := range l {
		out = append(out, gLock{k, v})
	}
	sort.Slice(out, func(i, j int) bool { return out[i].Name < out[j].Name })
	return out
}

func intersect(a, b lockSet) lockSet {
	c := lockSet{}
	for k, v := range a {
		if w, ok := b[k]; ok {
			if v == "R" || w == "R" {
				c[k] = "R"
			} else {
				c[k] = "W"
			}
		}
	}
	return c
}

type guardCtx struct {
	fw    *guardFuncWalk
	name  string
	env   guardEnv
	nlits map[string]int
}

func (fw *guardFuncWalk) walkFunc(name string, recv *ast.FieldList, typ *ast.FuncType, body *ast.BlockStmt, outer guardEnv) {
	env := guardEnv{}
	if outer != nil {
		env = outer.clone()
	}
	addFields := func(fl *ast.FieldList) {
		if fl == nil {
			return
		}
		for _, f := range fl.List {
			bt := baseTypeName(f.Type)
			for _, n := range f.Names {
				env[n.Name] = bt
			}
		}
	}
	addFields(recv)
	addFields(typ.Params)
	addFields(typ.Results)
	c := &guardCtx{fw: fw, name: name, env: env, nlits: map[string]int{}}
	c.collectLocals(body)
	c.block(body.List, lockSet{})
}

// collectLocals: flow-insensitive local type inference (source order), not descending into literals.
func (c *guardCtx) collectLocals(body *ast.BlockStmt) {
	ast.Inspect(body, func(n ast.Node) bool {
		switch x := n.(type) {
		case *ast.FuncLit:
			return false
		case *ast.AssignStmt:
			if len(x.Rhs) == 1 && len(x.Lhs) > 1 {
				ts := c.exprTypes(x.Rhs[0])
				for i, l := range x.Lhs {
					if id, ok := l.(*ast.Ident); ok && i < len(ts) && ts[i] != "" && id.Name != "_" {
						if x.Tok == token.DEFINE || c.env[id.Name] == "" {
							c.env[id.Name] = ts[i]
						}
					}
				}
			} else if len(x.Rhs) == len(x.Lhs) {
				for i, l := range x.Lhs {
					if id, ok := l.(*ast.Ident); ok && id.Name != "_" {
						if t := c.exprType(x.Rhs[i]); t != "" && (x.Tok == token.DEFINE || c.env[id.Name] == "") {
							c.env[id.Name] = t
						}
					}
				}
			}
		case *ast.DeclStmt:
			if gd, ok := x.Decl.(*ast.GenDecl); ok && gd.Tok == token.VAR {
				for _, s := range gd.Specs {
					vs := s.(*ast.ValueSpec)
					for i, n := range vs.Names {
						t := ""
						if vs.Type != nil {
							t = baseTypeName(vs.Type)
						} else if i < len(vs.Values) {
							t = c.exprType(vs.Values[i])
						}
						if t != "" {
							c.env[n.Name] = t
						}
					}
				}
			}
		}
		return true
	})
}

func (c *guardCtx) exprTypes(e ast.Expr) []string {
	switch x := e.(type) {
	case *ast.CallExpr:
		switch f := x.Fun.(type) {
		case *ast.Ident:
			if r, ok := c.fw.px.funcRes[f.Name]; ok {
				return r
			}
		case *ast.SelectorExpr:
			if t := c.exprType(f.X); t != "" {
				if r, ok := c.fw.px.funcRes[t+"."+f.Sel.Name]; ok {
					return r
				}
			}
		}
		if id, ok := x.Fun.(*ast.Ident); ok && id.Name == "new" && len(x.Args) == 1 {
			return []string{baseTypeName(x.Args[0])}
		}
		return nil
	case *ast.TypeAssertExpr:
		if x.Type != nil {
			return []string{baseTypeName(x.Type), "bool"}
		}
	}
	return []string{c.exprType(e)}
}

func (c *guardCtx) exprType(e ast.Expr) string {
	switch x := e.(type) {
	case *ast.Ident:
		return c.env[x.Name]
	case *ast.ParenExpr:
		return c.exprType(x.X)
	case *ast.StarExpr:
		return c.exprType(x.X)
	case *ast.UnaryExpr:
		if x.Op == token.AND {
			return c.exprType(x.X)
		}
	case *ast.CompositeLit:
		if x.Type != nil {
			return baseTypeName(x.Type)
		}
	case *ast.TypeAssertExpr:
		if x.Type != nil {
			return baseTypeName(x.Type)
		}
	case *ast.SelectorExpr:
		if t := c.exprType(x.X); t != "" {
			if m, ok := c.fw.px.fieldType[t]; ok {
				return m[x.Sel.Name]
			}
		}
	case *ast.CallExpr:
		if id, ok := x.Fun.(*ast.Ident); ok && id.Name == "new" && len(x.Args) == 1 {
			return baseTypeName(x.Args[0])
		}
		if ts := c.exprTypes(x); len(ts) > 0 {
			return ts[0]
		}
	}
	return ""
}

// lockCall recognises `<expr>.Lock()` etc. and returns the lock's name and the operation.
func (c *guardCtx) lockCall(e ast.Expr) (name, op string, ok bool) {
	call, isCall := e.(*ast.CallExpr)
	if !isCall || len(call.Args) != 0 {
		return
	}
	sel, isSel := call.Fun.(*ast.SelectorExpr)
	if !isSel {
		return
	}
	switch sel.Sel.Name {
	case "Lock", "Unlock", "RLock", "RUnlock":
	default:
		return
	}
	switch x := sel.X.(type) {
	case *ast.SelectorExpr:
		owner := c.exprType(x.X)
		if owner == "" {
			owner = "?" + exprText(x.X)
		}
		return owner + "." + x.Sel.Name, sel.Sel.Name, true
	case *ast.Ident:
		return "$" + x.Name, sel.Sel.Name, true
	}
	return
}

func exprText(e ast.Expr) string {
	switch x := e.(type) {
	case *ast.Ident:
		return x.Name
	case *ast.SelectorExpr:
		return exprText(x.X) + "." + x.Sel.Name
	case *ast.StarExpr:
		return exprText(x.X)
	case *ast.ParenExpr:
		return exprText(x.X)
	case *ast.CallExpr:
		return exprText(x.Fun) + "()"
	}
	return "_"
}

func terminates(list []ast.Stmt) bool {
	if len(list) == 0 {
		return false
	}
	switch x := list[len(list)-1].(type) {
	case *ast.ReturnStmt:
		return true
	case *ast.BranchStmt:
		return x.Tok == token.GOTO || x.Tok == token.BREAK || x.Tok == token.CONTINUE
	case *ast.ExprStmt:
		if call, ok := x.X.(*ast.CallExpr); ok {
			if id, ok := call.Fun.(*ast.Ident); ok && id.Name == "panic" {
				return true
			}
		}
	case *ast.BlockStmt:
		return terminates(x.List)
	}
	return false
}

// block walks statements in order, threading the lock set; returns the set at the end.
func (c *guardCtx) block(list []ast.Stmt, held lockSet) lockSet {
	for _, s := range list {
		held = c.stmt(s, held)
	}
	return held
}

func (c *guardCtx) sub(list []ast.Stmt, held lockSet) lockSet {
	out := c.block(list, held.clone())
	if terminates(list) {
		return held
	}
	return intersect(held, out)
}

func (c *guardCtx) stmt(s ast.Stmt, held lockSet) lockSet {
	switch x := s.(type) {
	case nil:
		return held
	case *ast.ExprStmt:
		if name, op, ok := c.lockCall(x.X); ok {
			c.exprs(held, "R", x.X.(*ast.CallExpr).Fun.(*ast.SelectorExpr).X)
			held = held.clone()
			switch op {
			case "Lock":
				held[name] = "W"
			case "RLock":
				if held[name] != "W" {
					held[name] = "R"
				}
			default:
				delete(held, name)
			}
			return held
		}
		c.exprs(held, "R", x.X)
		if call, ok := x.X.(*ast.CallExpr); ok {
			if sel, ok := call.Fun.(*ast.SelectorExpr); ok {
				for _, pm := range guardPublishMarkers {
					if pm.dir == c.fw.px.dir && sel.Sel.Name == pm.method && c.exprType(sel.X) == pm.typ {
						held = held.clone()
						held[pm.typ+".@"+pm.marker] = "P"
					}
				}
			}
		}
	case *ast.DeferStmt:
		if _, _, ok := c.lockCall(x.Call); ok {
			return held // deferred unlock: the lock stays held to the end of the function
		}
		c.call(held, x.Call, "defer")
	case *ast.GoStmt:
		c.call(held, x.Call, "go")
	case *ast.AssignStmt:
		for i, l := range x.Lhs {
			litName := ""
			switch t := l.(type) {
			case *ast.SelectorExpr:
				litName = t.Sel.Name
			case *ast.Ident:
				litName = t.Name
			}
			c.lhs(held, l)
			if len(x.Rhs) == len(x.Lhs) {
				if fl, ok := x.Rhs[i].(*ast.FuncLit); ok {
					c.funcLit(fl, litName)
					continue
				}
				c.exprs(held, "R", x.Rhs[i])
			}
		}
		if len(x.Rhs) != len(x.Lhs) {
			for _, r := range x.Rhs {
				c.exprs(held, "R", r)
			}
		}
	case *ast.IncDecStmt:
		c.lhs(held, x.X)
	case *ast.SendStmt:
		c.exprs(held, "R", x.Chan, x.Value)
	case *ast.ReturnStmt:
		c.exprs(held, "R", x.Results...)
	case *ast.DeclStmt:
		if gd, ok := x.Decl.(*ast.GenDecl); ok {
			for _, sp := range gd.Specs {
				if vs, ok := sp.(*ast.ValueSpec); ok {
					c.exprs(held, "R", vs.Values...)
				}
			}
		}
	case *ast.BlockStmt:
		return c.block(x.List, held)
	case *ast.LabeledStmt:
		return c.stmt(x.Stmt, held)
	case *ast.IfStmt:
		held = c.stmt(x.Init, held)
		c.exprs(held, "R", x.Cond)
		a := c.sub(x.Body.List, held)
		b := held
		if x.Else != nil {
			switch e := x.Else.(type) {
			case *ast.BlockStmt:
				b = c.sub(e.List, held)
			default:
				b = c.sub([]ast.Stmt{e}, held)
			}
		}
		return intersect(a, b)
	case *ast.ForStmt:
		held = c.stmt(x.Init, held)
		if x.Cond != nil {
			c.exprs(held, "R", x.Cond)
		}
		c.stmt(x.Post, held.clone())
		return c.sub(x.Body.List, held)
	case *ast.RangeStmt:
		c.exprs(held, "R", x.X)
		return c.sub(x.Body.List, held)
	case *ast.SwitchStmt:
		held = c.stmt(x.Init, held)
		if x.Tag != nil {
			c.exprs(held, "R", x.Tag)
		}
		return c.clauses(x.Body, held)
	case *ast.TypeSwitchStmt:
		held = c.stmt(x.Init, held)
		c.stmt(x.Assign, held.clone())
		return c.clauses(x.Body, held)
	case *ast.SelectStmt:
		return c.clauses(x.Body, held)
	}
	return held
}

func (c *guardCtx) clauses(body *ast.BlockStmt, held lockSet) lockSet {
	out := held
	for _, cl := range body.List {
		switch x := cl.(type) {
		case *ast.CaseClause:
			c.exprs(held, "R", x.List...)
			out = intersect(out, c.sub(x.Body, held))
		case *ast.CommClause:
			h := held
			if x.Comm != nil {
				h = c.stmt(x.Comm, held.clone())
			}
			out = intersect(out, c.sub(x.Body, h))
		}
	}
	return out
}

func (c *guardCtx) funcLit(fl *ast.FuncLit, tag string) {
	if tag == "" {
		tag = "lit"
	}
	c.nlits[tag]++
	name := c.name + "$" + tag
	if n := c.nlits[tag]; n > 1 {
		name = fmt.Sprintf("%s%d", name, n)
	}
	if h := c.fw.hook; h != nil {
		h.onLit(c, name, tag, fl)
	}
	c.fw.walkFunc(name, nil, fl.Type, fl.Body, c.env)
}

// call handles a deferred / go call: a literal callee is a function of its own.
func (c *guardCtx) call(held lockSet, call *ast.CallExpr, tag string) {
	if h := c.fw.hook; h != nil {
		h.onStmtCall(c, held, call, tag)
	}
	if fl, ok := call.Fun.(*ast.FuncLit); ok {
		c.funcLit(fl, tag)
		c.exprs(held, "R", call.Args...)
		return
	}
	c.exprs(held, "R", call)
}

// lhs records an assignment target.
func (c *guardCtx) lhs(held lockSet, e ast.Expr) {
	switch x := e.(type) {
	case *ast.SelectorExpr:
		c.selector(held, x, "W", false)
		c.exprs(held, "R", x.X)
	case *ast.IndexExpr:
		if sel, ok := x.X.(*ast.SelectorExpr); ok {
			c.selector(held, sel, "W", false)
			c.exprs(held, "R", sel.X, x.Index)
			return
		}
		c.exprs(held, "R", x.X, x.Index)
	case *ast.StarExpr:
		c.exprs(held, "R", x.X)
	case *ast.ParenExpr:
		c.lhs(held, x.X)
	}
}

func isAtomicFun(e ast.Expr) (string, bool) {
	if sel, ok := e.(*ast.SelectorExpr); ok {
		if id, ok := sel.X.(*ast.Ident); ok && id.Name == "atomic" {
			return sel.Sel.Name, true
		}
	}
	return "", false
}

// exprs records every access inside the given expressions (default kind R).
func (c *guardCtx) exprs(held lockSet, kind string, es ...ast.Expr) {
	for _, e := range es {
		c.expr(held, e)
	}
}

func (c *guardCtx) expr(held lockSet, e ast.Expr) {
	if h := c.fw.hook; h != nil && e != nil {
		h.onExpr(c, held, e)
	}
	switch x := e.(type) {
	case nil:
	case *ast.SelectorExpr:
		c.selector(held, x, "R", false)
		c.expr(held, x.X)
	case *ast.FuncLit:
		c.funcLit(x, "")
	case *ast.CallExpr:
		if fn, ok := isAtomicFun(x.Fun); ok {
			for i, a := range x.Args {
				if u, ok := a.(*ast.UnaryExpr); ok && i == 0 && u.Op == token.AND {
					if sel, ok := u.X.(*ast.SelectorExpr); ok {
						k := "W"
						if strings.HasPrefix(fn, "Load") {
							k = "R"
						}
						c.selector(held, sel, k, true)
						c.expr(held, sel.X)
						continue
					}
				}
				c.expr(held, a)
			}
			return
		}
		if id, ok := x.Fun.(*ast.Ident); ok && id.Name == "delete" && len(x.Args) == 2 {
			if sel, ok := x.Args[0].(*ast.SelectorExpr); ok {
				c.selector(held, sel, "W", false)
				c.expr(held, sel.X)
				c.expr(held, x.Args[1])
				return
			}
		}
		if sel, ok := x.Fun.(*ast.SelectorExpr); ok {
			c.methodCall(held, sel)
		}
		c.expr(held, x.Fun)
		for _, a := range x.Args {
			c.expr(held, a)
		}
	case *ast.UnaryExpr:
		if x.Op == token.AND {
			if sel, ok := x.X.(*ast.SelectorExpr); ok { // address escapes: conservatively a write
				c.selector(held, sel, "W", false)
				c.expr(held, sel.X)
				return
			}
		}
		c.expr(held, x.X)
	case *ast.BinaryExpr:
		c.expr(held, x.X)
		c.expr(held, x.Y)
	case *ast.ParenExpr:
		c.expr(held, x.X)
	case *ast.StarExpr:
		c.expr(held, x.X)
	case *ast.IndexExpr:
		c.expr(held, x.X)
		c.expr(held, x.Index)
	case *ast.SliceExpr:
		c.expr(held, x.X)
		c.expr(held, x.Low)
		c.expr(held, x.High)
		c.expr(held, x.Max)
	case *ast.TypeAssertExpr:
		c.expr(held, x.X)
	case *ast.KeyValueExpr:
		c.expr(held, x.Key)
		c.expr(held, x.Value)
	case *ast.CompositeLit:
		t := ""
		if x.Type != nil {
			t = baseTypeName(x.Type)
		}
		w := c.fw.px.watched[t]
		for _, el := range x.Elts {
			if kv, ok := el.(*ast.KeyValueExpr); ok {
				if id, ok := kv.Key.(*ast.Ident); ok && w != nil {
					if w[id.Name] {
						c.add(t+"."+id.Name, "W", false, held)
					}
					c.expr(held, kv.Value)
					continue
				}
				c.expr(held, kv.Key)
				c.expr(held, kv.Value)
				continue
			}
			c.expr(held, el)
		}
	}
}

// methodCall: call patterns (pseudo fields) and promoted methods of embedded fields.
func (c *guardCtx) methodCall(held lockSet, sel *ast.SelectorExpr) {
	// chain = names from the base expression to the method
	var chain []string
	var base ast.Expr = sel
	for {
		s, ok := base.(*ast.SelectorExpr)
		if !ok {
			break
		}
		chain = append([]string{s.Sel.Name}, chain...)
		base = s.X
		if t := c.exprType(base); t != "" {
			joined := strings.Join(chain, ".")
			for _, p := range c.fw.px.patterns {
				if p.typ == t && p.chain == joined {
					f := p.typ + "." + p.field
					if strings.Contains(p.field, ".") { // absolute pseudo field
						f = p.field
					}
					c.add(f, p.kind, false, held)
				}
			}
		}
	}
	if t := c.exprType(sel.X); t != "" {
		if emb, ok := c.fw.px.promoted[t][sel.Sel.Name]; ok && !c.fw.px.methods[t][sel.Sel.Name] {
			c.add(t+"."+emb, "R", false, held)
		}
	}
}

func (c *guardCtx) selector(held lockSet, sel *ast.SelectorExpr, kind string, atomic bool) {
	f := sel.Sel.Name
	if !c.fw.px.watchedAny[f] {
		return
	}
	t := c.exprType(sel.X)
	if t == "" {
		// a package-qualified identifier (pkg.Name) is not a field access
		if id, ok := sel.X.(*ast.Ident); ok && c.env[id.Name] == "" && isPkgLike(id.Name, c.fw.px) {
			return
		}
		c.fw.unres = append(c.fw.unres, gUnres{f, c.name, c.fw.file})
		return
	}
	if w := c.fw.px.watched[t]; w != nil && w[f] {
		c.add(t+"."+f, kind, atomic, held)
	}
}

// isPkgLike: an identifier that is neither a local nor a struct of the package and is used as the
// base of a selector is an imported package name when some file imports a package with that name.
func isPkgLike(name string, px *guardPkg) bool {
	for _, f := range px.p.Files {
		for _, im := range f.Imports {
			path := strings.Trim(im.Path.Value, `"`)
			n := path[strings.LastIndexByte(path, '/')+1:]
			if im.Name != nil {
				n = im.Name.Name
			}
			if n == name {
				return true
			}
		}
	}
	return false
}

func (c *guardCtx) add(field, kind string, atomic bool, held lockSet) {
	c.fw.sites = append(c.fw.sites, gSite{Field: field, Kind: kind, Atomic: atomic, Locks: held.list(), Func: c.name, File: c.fw.file})
}
