package main

// facts_redial_expr.go — expressions and calls of the interpreter of facts_redial_eval.go.

import (
	"go/ast"
	"go/token"
	"strconv"
)

func (in *rinterp) eval(fr *rframe, e ast.Expr) rval {
	if in.stopped() {
		return rvNilV
	}
	switch v := e.(type) {
	case *ast.ParenExpr:
		return in.eval(fr, v.X)
	case *ast.Ident:
		switch v.Name {
		case "nil":
			return rvNilV
		case "true":
			return rvB(true)
		case "false":
			return rvB(false)
		}
		if c, ok := fr.vars[v.Name]; ok {
			return *c
		}
		return rvS(v.Name)
	case *ast.BasicLit:
		switch v.Kind {
		case token.INT:
			n, err := strconv.ParseInt(v.Value, 0, 64)
			if err == nil {
				return rvI(n)
			}
		case token.STRING:
			s, err := strconv.Unquote(v.Value)
			if err == nil {
				return rval{k: rvStr, s: s}
			}
		}
		in.fail("literal %s", v.Value)
	case *ast.UnaryExpr:
		switch v.Op {
		case token.NOT:
			x := in.eval(fr, v.X)
			if x.k == rvBool {
				return rvB(!x.b)
			}
		case token.SUB:
			x := in.eval(fr, v.X)
			if x.k == rvInt {
				return rvI(-x.i)
			}
		case token.AND:
			if id, ok := flUnparen(v.X).(*ast.Ident); ok {
				if c, ok := fr.vars[id.Name]; ok {
					return rval{k: rvPtr, p: c}
				}
			}
		}
		if !in.stopped() {
			in.fail("unary %s", v.Op)
		}
	case *ast.StarExpr:
		p := in.eval(fr, v.X)
		if p.k == rvPtr {
			return *p.p
		}
		if !in.stopped() {
			in.fail("dereference of %s", p)
		}
	case *ast.BinaryExpr:
		return in.binary(fr, v)
	case *ast.SelectorExpr:
		if c, ok := fr.vars[flRaw(v)]; ok {
			return *c
		}
		x := in.eval(fr, v.X)
		if x.k == rvSym && x.s == "$" {
			if f, ok := in.fields[v.Sel.Name]; ok {
				return f
			}
			return rvS("$." + v.Sel.Name)
		}
		if x.k == rvSym {
			return rvS(x.s + "." + v.Sel.Name)
		}
		if !in.stopped() {
			in.fail("field %s of %s", v.Sel.Name, x)
		}
	case *ast.CallExpr:
		return in.call(fr, v)
	default:
		in.fail("expression %T", e)
	}
	return rvNilV
}

func (in *rinterp) binary(fr *rframe, v *ast.BinaryExpr) rval {
	if v.Op == token.LAND || v.Op == token.LOR {
		x := in.eval(fr, v.X)
		if in.stopped() {
			return rvNilV
		}
		if x.k != rvBool {
			in.fail("operand of %s that is not a boolean: %s", v.Op, x)
			return rvNilV
		}
		if x.b == (v.Op == token.LOR) {
			return x // short circuit
		}
		y := in.eval(fr, v.Y)
		if y.k != rvBool && !in.stopped() {
			in.fail("operand of %s that is not a boolean: %s", v.Op, y)
		}
		return y
	}
	x, y := in.eval(fr, v.X), in.eval(fr, v.Y)
	if in.stopped() {
		return rvNilV
	}
	switch v.Op {
	case token.EQL:
		return rvB(rvEqual(x, y))
	case token.NEQ:
		return rvB(!rvEqual(x, y))
	}
	if x.k == rvInt && y.k == rvInt {
		switch v.Op {
		case token.LSS:
			return rvB(x.i < y.i)
		case token.GTR:
			return rvB(x.i > y.i)
		case token.LEQ:
			return rvB(x.i <= y.i)
		case token.GEQ:
			return rvB(x.i >= y.i)
		case token.ADD:
			return rvI(x.i + y.i)
		case token.SUB:
			return rvI(x.i - y.i)
		}
	}
	in.fail("binary %s of %s and %s", v.Op, x, y)
	return rvNilV
}

func (in *rinterp) call(fr *rframe, c *ast.CallExpr) rval {
	name := flCalleeName(c)
	if rvEffectless[name] {
		return rvNilV
	}
	var recv *rval
	var recvCell *rval // the variable itself, when the receiver is a plain local
	sel, isSel := flUnparen(c.Fun).(*ast.SelectorExpr)
	if isSel {
		r := in.eval(fr, sel.X)
		recv = &r
		if id, ok := flUnparen(sel.X).(*ast.Ident); ok {
			recvCell = fr.vars[id.Name]
		}
	}
	var args []rval
	for _, a := range c.Args {
		if _, ok := flUnparen(a).(*ast.FuncLit); ok {
			in.fail("function literal as an argument of %s", name)
			return rvNilV
		}
		args = append(args, in.eval(fr, a))
	}
	if in.stopped() {
		return rvNilV
	}
	// a call of a function-valued local (the callback)
	if id, ok := flUnparen(c.Fun).(*ast.Ident); ok {
		if cell, ok := fr.vars[id.Name]; ok {
			if cell.k != rvFunc {
				in.fail("call of %s, which holds %s", id.Name, *cell)
				return rvNilV
			}
			if r, ok := in.hook(in, "<callback>", nil, args); ok {
				return r
			}
			in.fail("callback called outside a dial scenario")
			return rvNilV
		}
	}
	if in.hook != nil {
		if r, ok := in.hook(in, name, recv, args); ok {
			return r
		}
	}
	// conversion T(x)
	if id, ok := flUnparen(c.Fun).(*ast.Ident); ok && len(args) == 1 && in.isTypeName(id.Name) {
		return args[0]
	}
	// `.OK()` of a *Status: nil is OK, a named status is not
	if name == "OK" && recv != nil && len(args) == 0 && (recv.k == rvNil || recv.k == rvSym || recv.k == rvErr) {
		return rvB(recv.k == rvNil)
	}
	// a method of a named value (`statWriteFailed.Copy(err)`, `err.Error()`): an opaque value
	if recv != nil && (recv.k == rvSym || recv.k == rvErr) && recv.s != "$" {
		return rvS(recv.s + "." + name + "()")
	}
	// a function or method of the package
	var cands []*ast.FuncDecl
	for _, fd := range in.x.byName[name] {
		if (fd.Recv != nil) == isSel {
			cands = append(cands, fd)
		}
	}
	if len(cands) == 1 {
		fd := cands[0]
		if in.depth >= 4 {
			in.fail("call depth at %s", name)
			return rvNilV
		}
		sub := &rframe{vars: map[string]*rval{}}
		if fd.Recv != nil {
			rv := *recv
			if _, ptrRecv := fd.Recv.List[0].Type.(*ast.StarExpr); ptrRecv && rv.k != rvPtr && rv.k != rvSym && recvCell != nil {
				rv = rval{k: rvPtr, p: recvCell} // x.M() with a pointer receiver takes &x
			}
			if n := recvVarName(fd); n != "" {
				sub.vars[n] = &rv
			}
		}
		i := 0
		if fd.Type.Params != nil {
			for _, f := range fd.Type.Params.List {
				for _, n := range f.Names {
					if i >= len(args) {
						in.fail("too few arguments for %s", name)
						return rvNilV
					}
					a := args[i]
					sub.vars[n.Name] = &a
					i++
				}
			}
		}
		if i != len(args) {
			in.fail("argument count of %s", name)
			return rvNilV
		}
		in.depth++
		ctl := in.runBody(sub, fd.Body.List)
		in.depth--
		if in.stopped() {
			return rvNilV
		}
		switch {
		case ctl.k == rcReturn && len(ctl.vals) == 1:
			return ctl.vals[0]
		case ctl.k == rcReturn && len(ctl.vals) > 1:
			return rvT(ctl.vals...)
		case ctl.k == rcReturn || ctl.k == rcNone:
			return rvNilV
		}
		in.fail("%s ended with a stray branch", name)
		return rvNilV
	}
	in.fail("call of %s", flRaw(c.Fun))
	return rvNilV
}
