package main

// Fact group `StatusMut` (property C15, framework statuses are immutable).
//
// Emits into Gen/StatusMut.lean
//
//	statusSentinels   the package-level status values of the ROOT package (the "predefined statuses"):
//	                  (name, constructor, code constant, msg spec, cause literal). constructor is
//	                  `NewStatus` or `Copy:<base sentinel>`; msg spec is `CodeText` when the message
//	                  argument is `CodeText(<the same code constant>)`, else the string literal or `?`.
//	statusCodes       (constant name, value) of the `Code*` constants of status.go
//	statusCodeText    (constant name, text) arms of `CodeText`, plus ("default", text)
//	statusAccessor    (key, identifier) pairs of the map literal returned by `VerifSentinels`
//	statusShared      (package dir, name) of package-level status values in ALL packages (root, plugins,
//	                  mixer ...): what is shared by pointer between calls
//	statusMutSites    every call, in the non-test non-example Go files of the repository, of a method
//	                  that mutates its `*Status` receiver in place (SetCode, SetMsg, SetCause, Clear,
//	                  DecodeQuery, UnmarshalJSON), every `*x = ...` through a status pointer and every
//	                  assignment TO a package-level status variable:
//	                  (file, enclosing function, method, receiver class, via)
//	statusEscapes     every use of a package-level status identifier that lets the shared pointer
//	                  escape (`return statX`, `c.stat = statX`, `m.SetStatus(statX)`, map value ...):
//	                  (file, enclosing function, identifier, kind). Uses through `.Copy(...)`,
//	                  read-only methods and `==`/`!=` comparisons do not escape and are not listed.
//
// Receiver class (syntactic provenance of the receiver expression, worst case over all assignments
// to a local variable in the enclosing top-level function):
//
//	fresh           NewStatus(...)/NewStatusWithStack/NewStatusByCodeText/NewStatusFromQuery,
//	                status.New..., new(Status), &Status{...}
//	copy            result of `.Copy(...)`
//	messageOwned    `x.Status(true)`: the message's own status slot (allocated on demand)
//	callback        result of calling a function-typed STRUCT FIELD of the same package (a factory the
//	                user configured, e.g. binder's ErrorFunc) all of whose in-package function-literal
//	                defaults return fresh/copy statuses: owned by whoever supplied the factory
//	returnedByCall  result of any other call (`.Status()`, `Push(...)`, `Call(...).Status()`, a
//	                function result): may alias a shared sentinel
//	sentinel        a package-level status identifier itself
//	unknown         anything else (struct field, exported-function parameter, range variable ...):
//	                fails closed
//
// A receiver that is a parameter of an UNEXPORTED function or method is resolved through the call
// sites of that function in the same package (two levels at most); the class is the worst class of
// the argument expressions (`param<-...` in `via`). A parameter of an exported function is `unknown`.
// Chained mutators (`x.SetCode(c).SetMsg(m)`) classify like `x`.
//
// A call `x.SetCode(...)` etc. is skipped only if `x` is a parameter/receiver/`var` whose DECLARED type
// is visibly not a status pointer. Everything the extractor cannot place is listed, never dropped.

import (
	"fmt"
	"go/ast"
	"go/token"
	"io/fs"
	"path/filepath"
	"sort"
	"strconv"
	"strings"
)

func init() {
	register(Group{
		Name: "StatusMut",
		Doc:  "Package-level status sentinels (with code constants and CodeText arms), every in-place mutation of a *Status with the syntactic provenance class of its receiver, and every place a sentinel pointer escapes uncopied. Consumed by Teleport.Props.C15 (C15_no_mutation_of_shared, C15_known_mutators_are_sites, C15_sentinel_table, C15_escapes_recognised).",
		Gen:  genStatusMut,
	})
}

var smMutators = map[string]bool{"SetCode": true, "SetMsg": true, "SetCause": true, "Clear": true, "DecodeQuery": true, "UnmarshalJSON": true}

// methods of *Status that return their receiver: a chain classifies like its base.
var smChain = map[string]bool{"SetCode": true, "SetMsg": true, "SetCause": true, "TagStack": true}

var smReadOnly = map[string]bool{"Code": true, "Msg": true, "Cause": true, "OK": true, "String": true, "EncodeQuery": true,
	"QueryString": true, "JSONString": true, "MarshalJSON": true, "StackTrace": true, "UnknownError": true, "Format": true,
	"NewCheck": true, "NewThrow": true}

var smCtors = map[string]bool{"NewStatus": true, "NewStatusWithStack": true, "NewStatusByCodeText": true, "NewStatusFromQuery": true}
var smStatusPkgCtors = map[string]bool{"New": true, "NewWithStack": true, "FromQuery": true}

var smRank = map[string]int{"fresh": 0, "copy": 1, "messageOwned": 2, "callback": 3, "returnedByCall": 4, "unknown": 5, "sentinel": 6}

type smClass struct{ class, via string }

func smJoin(a, b smClass) smClass {
	if a.class == "" {
		return b
	}
	if b.class == "" {
		return a
	}
	if smRank[b.class] > smRank[a.class] {
		return b
	}
	return a
}

type smPkg struct {
	p        *Pkg
	dir      string
	shared   map[string]bool // package-level status variables
	funcType map[string]bool // named func types declared here
	cbField  map[string]bool // struct fields of function type
	declared map[string]bool // declared function / method names
}

func smText(e ast.Expr) string {
	switch x := e.(type) {
	case *ast.Ident:
		return x.Name
	case *ast.SelectorExpr:
		return smText(x.X) + "." + x.Sel.Name
	case *ast.StarExpr:
		return "*" + smText(x.X)
	case *ast.ParenExpr:
		return smText(x.X)
	case *ast.CallExpr:
		return smText(x.Fun) + "()"
	case *ast.IndexExpr:
		return smText(x.X) + "[]"
	case *ast.UnaryExpr:
		return x.Op.String() + smText(x.X)
	case *ast.BasicLit:
		return x.Value
	}
	return fmt.Sprintf("<%T>", e)
}

func smIsStatusType(e ast.Expr) bool {
	if s, ok := e.(*ast.StarExpr); ok {
		e = s.X
	}
	switch x := e.(type) {
	case *ast.Ident:
		return x.Name == "Status"
	case *ast.SelectorExpr:
		return x.Sel.Name == "Status"
	}
	return false
}

func smFuncName(fd *ast.FuncDecl) string {
	if t := recvTypeName(fd); t != "" {
		return t + "." + fd.Name.Name
	}
	return fd.Name.Name
}

// smCtorCall: is `c` a call that allocates a new status?
func smCtorCall(c *ast.CallExpr) (string, bool) {
	switch f := c.Fun.(type) {
	case *ast.Ident:
		if smCtors[f.Name] {
			return f.Name + "()", true
		}
		if f.Name == "new" && len(c.Args) == 1 && smIsStatusType(c.Args[0]) {
			return "new(Status)", true
		}
	case *ast.SelectorExpr:
		if id, ok := f.X.(*ast.Ident); ok {
			if smCtors[f.Sel.Name] && (id.Name == "erpc" || id.Name == "tp" || id.Name == "socket") {
				return f.Sel.Name + "()", true
			}
			if id.Name == "status" && smStatusPkgCtors[f.Sel.Name] {
				return "status." + f.Sel.Name + "()", true
			}
		}
	}
	return "", false
}

func smNewPkg(p *Pkg, dir string) *smPkg {
	x := &smPkg{p: p, dir: dir, shared: map[string]bool{}, funcType: map[string]bool{}, cbField: map[string]bool{}, declared: map[string]bool{}}
	for _, f := range p.Files {
		for _, d := range f.Decls {
			switch d := d.(type) {
			case *ast.FuncDecl:
				x.declared[d.Name.Name] = true
			case *ast.GenDecl:
				if d.Tok == token.TYPE {
					for _, s := range d.Specs {
						ts := s.(*ast.TypeSpec)
						if _, ok := ts.Type.(*ast.FuncType); ok {
							x.funcType[ts.Name.Name] = true
						}
					}
				}
			}
		}
	}
	for _, f := range p.Files {
		ast.Inspect(f, func(n ast.Node) bool {
			st, ok := n.(*ast.StructType)
			if !ok {
				return true
			}
			for _, fl := range st.Fields.List {
				isFn := false
				switch t := fl.Type.(type) {
				case *ast.FuncType:
					isFn = true
				case *ast.Ident:
					isFn = x.funcType[t.Name]
				}
				if isFn {
					for _, n := range fl.Names {
						x.cbField[n.Name] = true
					}
				}
			}
			return true
		})
	}
	// package-level status variables, to a fixed point (X.Copy(...) of a known one is one too)
	for changed := true; changed; {
		changed = false
		for _, f := range p.Files {
			for _, d := range f.Decls {
				gd, ok := d.(*ast.GenDecl)
				if !ok || gd.Tok != token.VAR {
					continue
				}
				for _, s := range gd.Specs {
					vs := s.(*ast.ValueSpec)
					for i, n := range vs.Names {
						if x.shared[n.Name] || n.Name == "_" {
							continue
						}
						if vs.Type != nil && len(vs.Values) == 0 {
							continue
						}
						if i >= len(vs.Values) {
							continue
						}
						if x.isSharedInit(vs.Values[i]) {
							x.shared[n.Name] = true
							changed = true
						}
					}
				}
			}
		}
	}
	return x
}

func (x *smPkg) isSharedInit(e ast.Expr) bool {
	switch v := e.(type) {
	case *ast.ParenExpr:
		return x.isSharedInit(v.X)
	case *ast.UnaryExpr:
		if cl, ok := v.X.(*ast.CompositeLit); ok && v.Op == token.AND {
			return cl.Type != nil && smIsStatusType(cl.Type)
		}
	case *ast.CallExpr:
		if _, ok := smCtorCall(v); ok {
			return true
		}
		if sel, ok := v.Fun.(*ast.SelectorExpr); ok {
			if sel.Sel.Name == "Copy" || smChain[sel.Sel.Name] {
				if id, ok := sel.X.(*ast.Ident); ok && x.shared[id.Name] {
					return true
				}
				if c, ok := sel.X.(*ast.CallExpr); ok {
					return x.isSharedInit(c)
				}
			}
		}
	}
	return false
}

// ---------------------------------------------------------------------------------------------
// classification

type smFn struct {
	x    *smPkg
	fd   *ast.FuncDecl // nil for package-level initialisers
	lits []*ast.FuncLit
	at   token.Pos // position of the expression being classified (0 = flow-insensitive)
}

// smScope describes where a position sits in the enclosing function: the chain of blocks around it,
// the function literals around it and the outermost loop around it.
type smScope struct {
	blocks map[ast.Node]bool
	lits   map[ast.Node]bool
	loop   ast.Node
}

func smScopeOf(body *ast.BlockStmt, pos token.Pos) smScope {
	sc := smScope{blocks: map[ast.Node]bool{}, lits: map[ast.Node]bool{}}
	ast.Inspect(body, func(n ast.Node) bool {
		if n == nil || pos < n.Pos() || pos >= n.End() {
			return n != nil && false
		}
		switch n.(type) {
		case *ast.BlockStmt, *ast.CaseClause, *ast.CommClause:
			sc.blocks[n] = true
		case *ast.FuncLit:
			sc.lits[n] = true
		case *ast.ForStmt, *ast.RangeStmt:
			if sc.loop == nil {
				sc.loop = n
			}
		}
		return true
	})
	return sc
}

// smDef is one assignment to a local variable.
type smDef struct {
	pos, end token.Pos
	cl       smClass
}

// smReaching joins the definitions that can reach `at`, by a textual approximation of dominance:
// the latest definition that ends before `at` and sits in a block enclosing `at` kills everything
// before it; definitions after it (in nested blocks) are joined; inside a loop every definition in
// the loop is joined too; if function literals are involved on either side the join is over all.
func (c *smFn) smReaching(defs []smDef) smClass {
	var acc smClass
	all := func() smClass {
		for _, d := range defs {
			acc = smJoin(acc, d.cl)
		}
		return acc
	}
	if c.at == 0 || c.fd == nil || c.fd.Body == nil {
		return all()
	}
	site := smScopeOf(c.fd.Body, c.at)
	for _, d := range defs {
		ds := smScopeOf(c.fd.Body, d.pos)
		for l := range ds.lits {
			if !site.lits[l] {
				return all()
			}
		}
		if len(site.lits) != len(ds.lits) {
			return all()
		}
	}
	dom := -1
	for i, d := range defs {
		if d.end > c.at {
			continue
		}
		// innermost block of the definition must enclose the site
		ds := smScopeOf(c.fd.Body, d.pos)
		inner := true
		for b := range ds.blocks {
			if !site.blocks[b] {
				inner = false
			}
		}
		if inner && (dom < 0 || defs[dom].pos < d.pos) {
			dom = i
		}
	}
	for i, d := range defs {
		switch {
		case i == dom:
			acc = smJoin(acc, d.cl)
		case d.end <= c.at && (dom < 0 || d.pos > defs[dom].pos):
			acc = smJoin(acc, d.cl)
		case site.loop != nil && d.pos >= site.loop.Pos() && d.end <= site.loop.End():
			acc = smJoin(acc, d.cl)
		}
	}
	if dom < 0 && acc.class == "" {
		return all()
	}
	return acc
}

func (c *smFn) paramIndex(name string) (int, bool) {
	if c.fd == nil || c.fd.Type.Params == nil {
		return 0, false
	}
	i := 0
	for _, f := range c.fd.Type.Params.List {
		if len(f.Names) == 0 {
			i++
			continue
		}
		for _, n := range f.Names {
			if n.Name == name {
				return i, true
			}
			i++
		}
	}
	return 0, false
}

// declaredType returns the declared type of a parameter / receiver / named result / `var x T` local.
func (c *smFn) declaredType(name string) ast.Expr {
	if c.fd == nil {
		return nil
	}
	lists := []*ast.FieldList{c.fd.Recv, c.fd.Type.Params, c.fd.Type.Results}
	for _, l := range c.lits {
		lists = append(lists, l.Type.Params, l.Type.Results)
	}
	for _, fl := range lists {
		if fl == nil {
			continue
		}
		for _, f := range fl.List {
			for _, n := range f.Names {
				if n.Name == name {
					return f.Type
				}
			}
		}
	}
	var t ast.Expr
	ast.Inspect(c.fd.Body, func(n ast.Node) bool {
		if vs, ok := n.(*ast.ValueSpec); ok && vs.Type != nil {
			for _, id := range vs.Names {
				if id.Name == name {
					t = vs.Type
				}
			}
		}
		return true
	})
	return t
}

func (c *smFn) classify(e ast.Expr, depth int, seen map[string]bool) smClass {
	switch v := e.(type) {
	case *ast.ParenExpr:
		return c.classify(v.X, depth, seen)
	case *ast.UnaryExpr:
		if cl, ok := v.X.(*ast.CompositeLit); ok && v.Op == token.AND && cl.Type != nil && smIsStatusType(cl.Type) {
			return smClass{"fresh", "&Status{}"}
		}
		return smClass{"unknown", smText(e)}
	case *ast.CallExpr:
		if via, ok := smCtorCall(v); ok {
			return smClass{"fresh", via}
		}
		sel, ok := v.Fun.(*ast.SelectorExpr)
		if !ok {
			if id, ok := v.Fun.(*ast.Ident); ok {
				return smClass{"returnedByCall", id.Name + "()"}
			}
			return smClass{"returnedByCall", "call()"}
		}
		name := sel.Sel.Name
		switch {
		case name == "Copy":
			return smClass{"copy", "Copy()"}
		case name == "Status" && len(v.Args) == 1 && smText(v.Args[0]) == "true":
			return smClass{"messageOwned", "Status(true)"}
		case smChain[name]:
			return c.classify(sel.X, depth, seen)
		case c.x.cbField[name] && !c.x.declared[name]:
			if why := c.x.callbackDefaultsFresh(name); why != "" {
				return smClass{"returnedByCall", "callback:" + name + "():" + why}
			}
			return smClass{"callback", "callback:" + name + "()"}
		}
		return smClass{"returnedByCall", name + "()"}
	case *ast.Ident:
		if v.Name == "nil" {
			return smClass{"fresh", "nil"}
		}
		return c.classifyIdent(v.Name, depth, seen)
	case *ast.SelectorExpr:
		// pkg.SharedVar of another package (exported package-level status)
		if id, ok := v.X.(*ast.Ident); ok && smExported[id.Name+"."+v.Sel.Name] {
			return smClass{"sentinel", smText(v)}
		}
		return smClass{"unknown", "field:." + v.Sel.Name}
	}
	return smClass{"unknown", smText(e)}
}

// smExported: "<pkg name>.<Var>" of exported package-level status values of all packages.
var smExported = map[string]bool{}

func (c *smFn) classifyIdent(name string, depth int, seen map[string]bool) smClass {
	if seen[name] {
		return smClass{}
	}
	seen[name] = true
	defer delete(seen, name)
	var acc smClass
	var defs []smDef
	local := false
	isParam := false
	if _, ok := c.paramIndex(name); ok {
		isParam = true
	}
	def := func(n ast.Node, cl smClass) { defs = append(defs, smDef{n.Pos(), n.End(), cl}) }
	if c.fd != nil && c.fd.Body != nil {
		ast.Inspect(c.fd.Body, func(n ast.Node) bool {
			switch s := n.(type) {
			case *ast.AssignStmt:
				for i, l := range s.Lhs {
					id, ok := l.(*ast.Ident)
					if !ok || id.Name != name {
						continue
					}
					local = true
					sub := *c
					sub.at = s.Pos()
					if len(s.Lhs) == len(s.Rhs) {
						def(s, sub.classify(s.Rhs[i], depth, seen))
					} else if len(s.Rhs) == 1 {
						if call, ok := s.Rhs[0].(*ast.CallExpr); ok {
							def(s, smClass{"returnedByCall", smCallee(call) + "()"})
						} else {
							def(s, smClass{"unknown", "multi-assign"})
						}
					}
				}
			case *ast.ValueSpec:
				for i, id := range s.Names {
					if id.Name != name {
						continue
					}
					local = true
					sub := *c
					sub.at = s.Pos()
					if i < len(s.Values) && len(s.Values) == len(s.Names) {
						def(s, sub.classify(s.Values[i], depth, seen))
					} else if len(s.Values) == 1 {
						def(s, smClass{"returnedByCall", "multi-value"})
					} else {
						def(s, smClass{"fresh", "nil"}) // `var x *Status`: nil until assigned
					}
				}
			case *ast.RangeStmt:
				for _, kv := range []ast.Expr{s.Key, s.Value} {
					if id, ok := kv.(*ast.Ident); ok && id.Name == name {
						local = true
						def(s, smClass{"unknown", "range"})
					}
				}
			}
			return true
		})
	}
	if isParam {
		// the parameter's incoming value is a definition at the function's start
		idx, _ := c.paramIndex(name)
		defs = append(defs, smDef{c.fd.Body.Pos(), c.fd.Body.Pos(), c.resolveParam(idx, depth)})
		return c.smReaching(defs)
	}
	if len(defs) > 0 {
		acc = c.smReaching(defs)
	}
	for _, l := range c.lits {
		if l.Type.Params != nil {
			for _, f := range l.Type.Params.List {
				for _, n := range f.Names {
					if n.Name == name {
						return smJoin(acc, smClass{"unknown", "param-of-func-literal"})
					}
				}
			}
		}
	}
	if !local && c.x.shared[name] {
		return smClass{"sentinel", name}
	}
	if c.x.shared[name] {
		// shadowing cannot be told apart syntactically: worst case
		return smClass{"sentinel", name}
	}
	if acc.class == "" {
		if local {
			// declared, never assigned a value: nil pointer (mutators are no-ops on nil)
			return smClass{"fresh", "nil"}
		}
		return smClass{"unknown", "ident:" + name}
	}
	return acc
}

func smCallee(call *ast.CallExpr) string {
	switch f := call.Fun.(type) {
	case *ast.Ident:
		return f.Name
	case *ast.SelectorExpr:
		return f.Sel.Name
	}
	return "call"
}

// resolveParam: worst class of the idx-th argument over the in-package call sites of c.fd.
func (c *smFn) resolveParam(idx, depth int) smClass {
	fd := c.fd
	if ast.IsExported(fd.Name.Name) {
		return smClass{"unknown", "param-of-exported:" + smFuncName(fd)}
	}
	if depth >= 2 {
		return smClass{"unknown", "param-depth"}
	}
	isMethod := fd.Recv != nil
	var acc smClass
	found, escaped := false, false
	for _, f := range c.x.p.Files {
		for _, d := range f.Decls {
			caller, ok := d.(*ast.FuncDecl)
			if !ok || caller.Body == nil {
				continue
			}
			cc := &smFn{x: c.x, fd: caller}
			inCallPos := map[ast.Node]bool{}
			ast.Inspect(caller.Body, func(n ast.Node) bool {
				call, ok := n.(*ast.CallExpr)
				if !ok {
					return true
				}
				match := false
				switch fn := call.Fun.(type) {
				case *ast.Ident:
					match = !isMethod && fn.Name == fd.Name.Name
					inCallPos[fn] = true
				case *ast.SelectorExpr:
					match = isMethod && fn.Sel.Name == fd.Name.Name
					inCallPos[fn.Sel] = true
				}
				if match {
					found = true
					if idx < len(call.Args) && call.Ellipsis == token.NoPos {
						cc.at = call.Pos()
						acc = smJoin(acc, cc.classify(call.Args[idx], depth+1, map[string]bool{}))
					} else {
						acc = smJoin(acc, smClass{"unknown", "variadic-call"})
					}
				}
				return true
			})
			// the function used as a value (stored, passed on): callers are not visible
			ast.Inspect(caller.Body, func(n ast.Node) bool {
				if id, ok := n.(*ast.Ident); ok && id.Name == fd.Name.Name && !inCallPos[id] {
					if !isMethod {
						escaped = true
					}
				}
				if sel, ok := n.(*ast.SelectorExpr); ok && isMethod && sel.Sel.Name == fd.Name.Name && !inCallPos[sel.Sel] {
					escaped = true
				}
				return true
			})
		}
	}
	if escaped {
		return smClass{"unknown", "param:" + smFuncName(fd) + "-used-as-value"}
	}
	if !found {
		return smClass{"unknown", "param:" + smFuncName(fd) + "-no-call-site"}
	}
	acc.via = "param<-" + acc.via
	return acc
}

// callbackDefaultsFresh: every function literal the package itself assigns to the callback field
// must return fresh/copy statuses; "" = yes, otherwise the reason.
func (x *smPkg) callbackDefaultsFresh(field string) string {
	why := ""
	for _, f := range x.p.Files {
		for _, d := range f.Decls {
			fd, ok := d.(*ast.FuncDecl)
			if !ok || fd.Body == nil {
				continue
			}
			ast.Inspect(fd.Body, func(n ast.Node) bool {
				as, ok := n.(*ast.AssignStmt)
				if !ok || len(as.Lhs) != len(as.Rhs) {
					return true
				}
				for i, l := range as.Lhs {
					sel, ok := l.(*ast.SelectorExpr)
					if !ok || sel.Sel.Name != field {
						continue
					}
					lit, ok := as.Rhs[i].(*ast.FuncLit)
					if !ok {
						continue // a value supplied from outside: the user's factory
					}
					lc := &smFn{x: x, fd: &ast.FuncDecl{Name: ast.NewIdent("Lit"), Type: lit.Type, Body: lit.Body}}
					ast.Inspect(lit.Body, func(m ast.Node) bool {
						if _, nested := m.(*ast.FuncLit); nested {
							return false
						}
						if r, ok := m.(*ast.ReturnStmt); ok {
							if len(r.Results) != 1 {
								why = "default-returns-" + strconv.Itoa(len(r.Results)) + "-values"
								return true
							}
							cl := lc.classify(r.Results[0], 2, map[string]bool{})
							if cl.class != "fresh" && cl.class != "copy" {
								why = "default-returns-" + cl.class
							}
						}
						return true
					})
				}
				return true
			})
		}
	}
	return why
}

// ---------------------------------------------------------------------------------------------
// walking

type smSite struct{ file, fn, method, class, via string }
type smEsc struct{ file, fn, ident, kind string }

type smWalker struct {
	x     *smPkg
	file  string
	sites *[]smSite
	escs  *[]smEsc
}

func (w *smWalker) walk(fd *ast.FuncDecl, fname string, root ast.Node) {
	var stack []ast.Node
	var lits []*ast.FuncLit
	ast.Inspect(root, func(n ast.Node) bool {
		if n == nil {
			top := stack[len(stack)-1]
			stack = stack[:len(stack)-1]
			if _, ok := top.(*ast.FuncLit); ok {
				lits = lits[:len(lits)-1]
			}
			return true
		}
		ctx := &smFn{x: w.x, fd: fd, lits: lits, at: n.Pos()}
		switch v := n.(type) {
		case *ast.CallExpr:
			if sel, ok := v.Fun.(*ast.SelectorExpr); ok && smMutators[sel.Sel.Name] {
				w.mutCall(ctx, fname, sel)
			}
		case *ast.AssignStmt:
			for _, l := range v.Lhs {
				switch t := l.(type) {
				case *ast.StarExpr:
					cl := ctx.classify(t.X, 0, map[string]bool{})
					isStatus := cl.class != "unknown"
					if id, ok := t.X.(*ast.Ident); ok {
						if dt := ctx.declaredType(id.Name); dt != nil {
							isStatus = smIsStatusType(dt)
						}
					}
					if isStatus {
						*w.sites = append(*w.sites, smSite{w.file, fname, "*=", cl.class, cl.via})
					}
				case *ast.Ident:
					if w.x.shared[t.Name] && v.Tok == token.ASSIGN && ctx.declaredType(t.Name) == nil {
						*w.sites = append(*w.sites, smSite{w.file, fname, "=", "sentinel", t.Name})
					}
				}
			}
		case *ast.Ident:
			if w.x.shared[v.Name] {
				w.sentinelUse(ctx, fname, v, stack)
			}
		}
		stack = append(stack, n)
		if l, ok := n.(*ast.FuncLit); ok {
			lits = append(lits, l)
		}
		return true
	})
}

func (w *smWalker) mutCall(ctx *smFn, fname string, sel *ast.SelectorExpr) {
	if id, ok := sel.X.(*ast.Ident); ok && !w.x.shared[id.Name] {
		if dt := ctx.declaredType(id.Name); dt != nil && !smIsStatusType(dt) {
			return // visibly another type with a method of the same name
		}
	}
	cl := ctx.classify(sel.X, 0, map[string]bool{})
	*w.sites = append(*w.sites, smSite{w.file, fname, sel.Sel.Name, cl.class, cl.via})
}

func (w *smWalker) sentinelUse(ctx *smFn, fname string, id *ast.Ident, stack []ast.Node) {
	if len(stack) == 0 {
		return
	}
	if ctx.declaredType(id.Name) != nil {
		return // a parameter / local of the same name
	}
	parent := stack[len(stack)-1]
	var grand ast.Node
	if len(stack) > 1 {
		grand = stack[len(stack)-2]
	}
	kind := ""
	switch p := parent.(type) {
	case *ast.SelectorExpr:
		if p.Sel == id {
			return // x.statFoo: a field or another package's name
		}
		call, isCall := grand.(*ast.CallExpr)
		if isCall && call.Fun == p {
			m := p.Sel.Name
			if m == "Copy" || smReadOnly[m] || smMutators[m] {
				return // Copy / read-only: no escape; mutators are listed as sites
			}
			kind = "method:" + m
		} else {
			kind = "selector:" + p.Sel.Name
		}
	case *ast.BinaryExpr:
		if p.Op == token.EQL || p.Op == token.NEQ {
			return
		}
		kind = "other:binary"
	case *ast.ReturnStmt:
		kind = "return"
	case *ast.AssignStmt:
		for _, l := range p.Lhs {
			if l == ast.Expr(id) {
				return // listed as a site (method "=")
			}
		}
		kind = "assign:?"
		for i, r := range p.Rhs {
			if r == ast.Expr(id) && len(p.Lhs) == len(p.Rhs) {
				switch l := p.Lhs[i].(type) {
				case *ast.SelectorExpr:
					kind = "assign:." + l.Sel.Name
				case *ast.Ident:
					kind = "assign:var"
				default:
					kind = "assign:" + smText(l)
				}
			}
		}
	case *ast.ValueSpec:
		kind = "assign:var"
	case *ast.CallExpr:
		kind = "arg:" + smCallee(p)
	case *ast.KeyValueExpr:
		if p.Value == ast.Expr(id) {
			kind = "mapvalue"
		} else {
			kind = "other:key"
		}
	case *ast.UnaryExpr:
		kind = "other:unary" + p.Op.String()
	default:
		kind = fmt.Sprintf("other:%T", parent)
	}
	*w.escs = append(*w.escs, smEsc{w.file, fname, id.Name, kind})
}

// ---------------------------------------------------------------------------------------------

func smDirs(root string) ([]string, error) {
	var dirs []string
	err := filepath.WalkDir(root, func(path string, d fs.DirEntry, err error) error {
		if err != nil {
			return err
		}
		if !d.IsDir() {
			return nil
		}
		n := d.Name()
		if path != root && (strings.HasPrefix(n, ".") || n == "examples" || n == "example" || n == "doc" || n == "vendor" || n == "testdata") {
			return filepath.SkipDir
		}
		ents, _ := filepath.Glob(filepath.Join(path, "*.go"))
		if len(ents) > 0 {
			rel, _ := filepath.Rel(root, path)
			if rel == "." {
				rel = ""
			}
			dirs = append(dirs, filepath.ToSlash(rel))
		}
		return nil
	})
	sort.Strings(dirs)
	return dirs, err
}

func smTuple(parts ...string) string {
	q := make([]string, len(parts))
	for i, p := range parts {
		q[i] = leanStr(p)
	}
	return "(" + strings.Join(q, ", ") + ")"
}

func smTupleList(rows [][]string) string {
	sort.Slice(rows, func(i, j int) bool { return strings.Join(rows[i], "\x00") < strings.Join(rows[j], "\x00") })
	var out []string
	prev := ""
	for _, r := range rows {
		t := smTuple(r...)
		if t != prev {
			out = append(out, t)
		}
		prev = t
	}
	if len(out) == 0 {
		return "[]"
	}
	return "[\n  " + strings.Join(out, ",\n  ") + "]"
}

func genStatusMut(r *Repo, l *Lean) {
	dirs, err := smDirs(r.Root)
	if err != nil || len(dirs) == 0 {
		l.Missing("statusmut_walk", fmt.Sprintf("cannot list the package directories: %v", err))
		return
	}
	var pkgs []*smPkg
	for _, d := range dirs {
		p := r.Pkg(d)
		if p.Err != nil {
			l.Missing("statusmut_parse_"+leanIdent(d), "package dir '"+d+"': "+p.Err.Error())
			continue
		}
		if len(p.Files) == 0 {
			continue
		}
		pkgs = append(pkgs, smNewPkg(p, d))
	}
	// exported shared statuses are visible from other packages as <pkgname>.<Var>
	for _, x := range pkgs {
		for n := range x.shared {
			if ast.IsExported(n) && len(x.p.Files) > 0 {
				smExported[x.p.Files[0].Name.Name+"."+n] = true
			}
		}
	}
	var sites []smSite
	var escs []smEsc
	var shared [][]string
	for _, x := range pkgs {
		for n := range x.shared {
			shared = append(shared, []string{dirName(x.dir), n})
		}
		for _, f := range x.p.Files {
			file := filepath.ToSlash(filepath.Join(x.dir, filepath.Base(x.p.Fset.Position(f.Pos()).Filename)))
			w := &smWalker{x: x, file: file, sites: &sites, escs: &escs}
			for _, d := range f.Decls {
				switch d := d.(type) {
				case *ast.FuncDecl:
					if d.Body != nil {
						w.walk(d, smFuncName(d), d.Body)
					}
				case *ast.GenDecl:
					if d.Tok != token.VAR {
						continue
					}
					for _, s := range d.Specs {
						for _, v := range s.(*ast.ValueSpec).Values {
							// initialisers: `var a = statX` shares the pointer; mutator chains in an initialiser
							if id, ok := v.(*ast.Ident); ok && x.shared[id.Name] {
								escs = append(escs, smEsc{file, "<package var>", id.Name, "assign:var"})
								continue
							}
							w.walk(nil, "<package var>", v)
						}
					}
				}
			}
		}
	}
	genStatusSentinels(r, l)

	l.add("statusShared", "(package dir, name) of every package-level status value in the repository (shared by pointer between calls); sorted set",
		"List (String × String)", smTupleList(shared))
	var srows [][]string
	for _, s := range sites {
		srows = append(srows, []string{s.file, s.fn, s.method, s.class, s.via})
	}
	l.add("statusMutSites", "(file, enclosing function, mutating method, receiver class, via) of every in-place mutation of a *Status; sorted set",
		"List (String × String × String × String × String)", smTupleList(srows))
	var erows [][]string
	for _, e := range escs {
		erows = append(erows, []string{e.file, e.fn, e.ident, e.kind})
	}
	l.add("statusEscapes", "(file, enclosing function, identifier, kind) of every use of a package-level status that lets the shared pointer escape uncopied; sorted set",
		"List (String × String × String × String)", smTupleList(erows))
}

// genStatusSentinels: the root package's sentinels with their constructor arguments, the Code*
// constants, the CodeText arms and the verif accessor.
func genStatusSentinels(r *Repo, l *Lean) {
	p := r.Pkg("")
	if p.Err != nil || len(p.Files) == 0 {
		l.Missing("statusSentinels", "root package does not parse")
		return
	}
	x := smNewPkg(p, "")
	type sent struct{ name, ctor, code, msg, cause string }
	byName := map[string]*sent{}
	lit := func(e ast.Expr) string {
		if b, ok := e.(*ast.BasicLit); ok && b.Kind == token.STRING {
			if s, err := strconv.Unquote(b.Value); err == nil {
				return "lit:" + s
			}
		}
		if id, ok := e.(*ast.Ident); ok && id.Name == "nil" {
			return "nil"
		}
		return "?"
	}
	var order []string
	for pass := 0; pass < 3; pass++ {
		for _, f := range p.Files {
			for _, d := range f.Decls {
				gd, ok := d.(*ast.GenDecl)
				if !ok || gd.Tok != token.VAR {
					continue
				}
				for _, s := range gd.Specs {
					vs := s.(*ast.ValueSpec)
					for i, n := range vs.Names {
						if !x.shared[n.Name] || byName[n.Name] != nil || i >= len(vs.Values) {
							continue
						}
						call, ok := vs.Values[i].(*ast.CallExpr)
						if !ok {
							continue
						}
						st := &sent{name: n.Name, ctor: "?", code: "?", msg: "?", cause: "?"}
						if id, ok := call.Fun.(*ast.Ident); ok && id.Name == "NewStatus" && len(call.Args) >= 2 {
							st.ctor = "NewStatus"
							st.code = smText(call.Args[0])
							if c, ok := call.Args[1].(*ast.CallExpr); ok && smText(c.Fun) == "CodeText" && len(c.Args) == 1 && smText(c.Args[0]) == st.code {
								st.msg = "CodeText"
							} else {
								st.msg = lit(call.Args[1])
							}
							st.cause = "nil"
							if len(call.Args) >= 3 {
								st.cause = lit(call.Args[2])
							}
						} else if sel, ok := call.Fun.(*ast.SelectorExpr); ok && sel.Sel.Name == "Copy" && len(call.Args) >= 1 {
							base, ok := sel.X.(*ast.Ident)
							if !ok || byName[base.Name] == nil {
								if pass < 2 {
									continue // base not seen yet
								}
							} else {
								b := byName[base.Name]
								st.ctor, st.code, st.msg = "Copy:"+base.Name, b.code, b.msg
								st.cause = lit(call.Args[0])
								if st.cause == "nil" {
									st.cause = b.cause
								}
							}
						}
						byName[n.Name] = st
						order = append(order, n.Name)
					}
				}
			}
		}
	}
	if len(order) == 0 {
		l.Missing("statusSentinels", "no package-level status variable found in the root package")
	} else {
		var rows [][]string
		for _, n := range order {
			s := byName[n]
			rows = append(rows, []string{s.name, s.ctor, s.code, s.msg, s.cause})
		}
		l.add("statusSentinels", "(name, constructor, code constant, msg spec, cause) of the root package's package-level statuses; `CodeText` = CodeText(<that constant>); `lit:<s>` = string literal; sorted set",
			"List (String × String × String × String × String)", smTupleList(rows))
	}

	// Code* constants
	vals := map[string]string{}
	var names []string
	for _, f := range p.Files {
		for _, d := range f.Decls {
			gd, ok := d.(*ast.GenDecl)
			if !ok || gd.Tok != token.CONST {
				continue
			}
			for _, s := range gd.Specs {
				vs := s.(*ast.ValueSpec)
				for i, n := range vs.Names {
					if !strings.HasPrefix(n.Name, "Code") || i >= len(vs.Values) || !smIsInt32(vs.Type) {
						continue
					}
					switch v := vs.Values[i].(type) {
					case *ast.BasicLit:
						if v.Kind == token.INT {
							vals[n.Name] = v.Value
						}
					case *ast.UnaryExpr:
						if b, ok := v.X.(*ast.BasicLit); ok && v.Op == token.SUB && b.Kind == token.INT {
							vals[n.Name] = "-" + b.Value
						}
					case *ast.Ident:
						if x, ok := vals[v.Name]; ok {
							vals[n.Name] = x
						}
					}
					if _, ok := vals[n.Name]; ok {
						names = append(names, n.Name)
					}
				}
			}
		}
	}
	if len(names) == 0 {
		l.Missing("statusCodes", "no `Code* int32 = <literal>` constant found in the root package")
	} else {
		sort.Strings(names)
		var parts []string
		for _, n := range names {
			v := vals[n]
			if strings.HasPrefix(v, "-") {
				v = "(" + v + ")"
			}
			parts = append(parts, "("+leanStr(n)+", "+v+")")
		}
		l.add("statusCodes", "(constant, value) of the Code* constants of the root package; sorted by name",
			"List (String × Int)", "[\n  "+strings.Join(parts, ",\n  ")+"]")
	}

	// CodeText arms
	fd := p.Func("", "CodeText")
	var arms [][]string
	okShape := fd != nil && len(fd.Body.List) == 1
	if okShape {
		sw, ok := fd.Body.List[0].(*ast.SwitchStmt)
		okShape = ok
		if ok {
			clauses := sw.Body.List
			text := make([]string, len(clauses))
			for i := len(clauses) - 1; i >= 0; i-- {
				cc := clauses[i].(*ast.CaseClause)
				text[i] = "?"
				if len(cc.Body) == 1 {
					if rs, ok := cc.Body[0].(*ast.ReturnStmt); ok && len(rs.Results) == 1 {
						if t := lit(rs.Results[0]); strings.HasPrefix(t, "lit:") {
							text[i] = t[4:]
						}
					} else if br, ok := cc.Body[0].(*ast.BranchStmt); ok && br.Tok == token.FALLTHROUGH && i+1 < len(clauses) {
						text[i] = text[i+1]
					}
				}
				if text[i] == "?" {
					okShape = false
				}
				if cc.List == nil {
					arms = append(arms, []string{"default", text[i]})
				}
				for _, e := range cc.List {
					arms = append(arms, []string{smText(e), text[i]})
				}
			}
		}
	}
	// the table is the GRAPH of CodeText over the declared constants: a constant without an arm of its
	// own gets the default's text (harmless seed C15-H2 dropped the `case CodeUnknownError: fallthrough`
	// in front of `default`)
	if okShape {
		def, have := "", map[string]bool{}
		for _, a := range arms {
			have[a[0]] = true
			if a[0] == "default" {
				def = a[1]
			}
		}
		if have["default"] {
			for _, n := range names {
				if !have[n] {
					arms = append(arms, []string{n, def})
				}
			}
		}
	}
	if !okShape || len(arms) == 0 {
		l.Missing("statusCodeText", "CodeText is not a single switch whose arms return string literals")
	} else {
		l.add("statusCodeText", "(constant or `default`, text) arms of CodeText; sorted set",
			"List (String × String)", smTupleList(arms))
	}

	// verif accessor
	acc := p.Func("", "VerifSentinels")
	var pairs [][]string
	if acc != nil {
		ast.Inspect(acc.Body, func(n ast.Node) bool {
			if kv, ok := n.(*ast.KeyValueExpr); ok {
				k := lit(kv.Key)
				if id, ok := kv.Value.(*ast.Ident); ok && strings.HasPrefix(k, "lit:") {
					pairs = append(pairs, []string{k[4:], id.Name})
				}
			}
			return true
		})
	}
	if len(pairs) == 0 {
		l.Missing("statusAccessor", "VerifSentinels with a map literal of identifiers not found (build tag verif)")
	} else {
		l.add("statusAccessor", "(key, identifier) pairs of the map returned by VerifSentinels; sorted set",
			"List (String × String)", smTupleList(pairs))
	}
}

func smIsInt32(t ast.Expr) bool {
	id, ok := t.(*ast.Ident)
	return ok && id.Name == "int32"
}
