package main

// facts_redial.go — fact group Redial (tie A for C13, Teleport.Model.Redial).
//
//	redial_flow_closure    the ordered flow of the function literal that peer.Dial stores in
//	                       redialForClientLocked, walked by flow.go with four more named calls
//	                       (socket.Reset, socket.SetID, getConn, dialOne); a local that captures a
//	                       getter chain before the dial (`oldID := sess.ID()`) is rendered `was(<chain>)`
//	redial_next_table      redialCounter.Next EXECUTED (by the small interpreter of facts_redial_eval.go)
//	                       for the counters -2..3: (counter, result, counter afterwards)
//	redial_round_table     Dialer.dialWithRetry EXECUTED for every budget in {0,1,2,-1}, every scripted
//	                       availability queue of length <= 2 over {up, down, hookFail} and every sticky
//	                       availability: (budget, queue, sticky, attempts made, ending, queue left)
//	redial_write_err_table the statements of session.write after the socket write EXECUTED for each class
//	                       of write error: (error class, status returned)
//	redial_retry_table     the part of session.AsyncCall / session.Push from the statement that calls
//	                       s.write to the end EXECUTED for scripted write / redialForClient results:
//	                       (function, scenario, trace)
//
//	redial_entry_table     session.redialForClient EXECUTED for every status, with and without redial function,
//	                       with the caller's connection still current or already replaced
//	                       (facts_redial_entry.go): (status, flags, trace, result)
//
// Everything fails closed: a construct the interpreter does not know, a function that is not found
// or an unplaced flow event is recorded in `redial_missing`, which every consuming theorem
// (Teleport.Props.C13: C13_redial_entry_tie, C13_redial_effect_order, C13_retry_budget_tie,
// C13_write_retry_tie) requires to be empty.

import (
	"go/ast"
	"go/token"
)

func init() {
	register(Group{
		Name: "Redial",
		Doc:  "The redial closure of peer.Dial as an ordered flow (with socket.Reset / socket.SetID / getConn), and redialCounter.Next, Dialer.dialWithRetry, the error classification of session.write and the write-retry of session.AsyncCall / session.Push executed by a small interpreter on scripted inputs. Consumed by Teleport.Props.C13 (C13_redial_entry_tie, C13_redial_effect_order, C13_retry_budget_tie, C13_write_retry_tie).",
		Gen:  genRedial,
	})
}

// redialExtra: the named calls this group adds to the vocabulary of flow.go.
func redialExtra(w *flWalker, c *ast.CallExpr, name, recvText, last, argc, use string) bool {
	switch {
	case last == "socket" && name == "Reset":
		w.emit("call:socket.Reset", argc, use)
	case last == "socket" && name == "SetID" && len(c.Args) == 1:
		w.emit("call:socket.SetID", w.rx(c.Args[0]), use)
	case name == "getConn" && len(c.Args) == 0:
		w.emit("load:getConn", "", use)
	case name == "dialOne":
		w.emit("call:dialOne", argc, use)
	default:
		return false
	}
	return true
}

// redialIsGetterChain: x, x.f, x.f().g() ... with no arguments anywhere.
func redialIsGetterChain(e ast.Expr) bool {
	switch v := flUnparen(e).(type) {
	case *ast.Ident:
		return v.Name != "nil" && v.Name != "true" && v.Name != "false"
	case *ast.SelectorExpr:
		return redialIsGetterChain(v.X)
	case *ast.CallExpr:
		return len(v.Args) == 0 && redialIsGetterChain(v.Fun)
	}
	return false
}

// redialCaptures: locals of the literal assigned exactly once, at its top level, from a getter
// chain that contains a call: they hold the value the chain had BEFORE the dial. They are rendered
// `was(<chain>)`, so that `SetID(oldIP)` and `SetID(sess.LocalAddr().String())` differ.
func redialCaptures(w *flWalker, fd *ast.FuncDecl, lit *ast.FuncLit) {
	count := map[string]int{}
	ast.Inspect(fd.Body, func(n ast.Node) bool {
		switch s := n.(type) {
		case *ast.AssignStmt:
			for _, l := range s.Lhs {
				if id, ok := l.(*ast.Ident); ok {
					count[id.Name]++
				}
			}
		case *ast.UnaryExpr:
			if id, ok := s.X.(*ast.Ident); ok && s.Op == token.AND {
				count[id.Name] += 2
			}
		case *ast.IncDecStmt:
			if id, ok := s.X.(*ast.Ident); ok {
				count[id.Name] += 2
			}
		}
		return true
	})
	for _, s := range lit.Body.List {
		as, ok := s.(*ast.AssignStmt)
		if !ok || as.Tok != token.DEFINE || len(as.Lhs) != len(as.Rhs) {
			continue
		}
		for i, l := range as.Lhs {
			id, ok := l.(*ast.Ident)
			if !ok || count[id.Name] != 1 || !redialIsGetterChain(as.Rhs[i]) {
				continue
			}
			if _, isCall := flUnparen(as.Rhs[i]).(*ast.CallExpr); !isCall {
				continue
			}
			w.alias[id.Name] = &ast.Ident{Name: "was(" + w.rx(as.Rhs[i]) + ")"}
		}
	}
}

func genRedial(r *Repo, l *Lean) {
	p := r.Pkg("")
	if p.Err != nil || len(p.Files) == 0 {
		l.Missing("redial_parse", "root package does not parse")
		return
	}
	x := flNewPkg(p)
	x.extra = redialExtra

	// ---- the redial closure, with the extended vocabulary
	root, lit := x.litRoot("peer", "Dial", "redial", flRedialLits)
	if lit == nil {
		l.Missing("redial_flow_closure", root.why)
	} else {
		var evs []flEv
		w := x.newWalker(root.fd, root.Name, root.body, &evs)
		redialCaptures(w, root.fd, lit)
		w.block(root.body.List)
		l.missing = append(l.missing, flUnplaced("redial_flow_closure", evs)...)
		l.add("redial_flow_closure", "complete flow of the literal stored in redialForClientLocked by peer.Dial (kind, name, detail, use class, enclosing conditions); ordered as in the source; `was(e)` = a local that captured `e` before the dial",
			flEvType, flFlowLean(evs))
	}

	redialTables(x, l)
}
