package main

// Fact group `Transitions` (properties C07, C08, C16: the session lifecycle machine as coded).
//
// Emits into Gen/Transitions.lean
//
//	status_consts      the constants of the `statusPreparing int32 = iota` block of session.go, in order
//	status_sites       (function, kind, name, use) of EVERY status operation of the root package, attributed to the
//	                   watched functions (the roots of flow.go) whose flows reach it — directly or through an inlined
//	                   helper — and otherwise to the function that lexically contains it (the accept literal of
//	                   serveListener and the redial literal of Dial are functions of their own:
//	                   `peer.serveListener#accept`, `peer.Dial#redial`):
//	                   store:<c> (changeStatus), cas:<to><-<from..> (tryChangeStatus), check:<c..> (checkStatus),
//	                   load:getStatus, cmp:<op><c>, case:<c..>, rawstatus:<fn> (atomic access to `.status`
//	                   outside changeStatus / tryChangeStatus / checkStatus / getStatus); set
//	lifecycle_sites    (function, kind, name, detail) of every call of sessHub.set / sessHub.delete (detail argc=N),
//	                   notifyClosed, socket.Close, sess.Close, closeLocked, readDisconnected, redialForClientLocked,
//	                   graceCtxWaitGroup / graceCallCmdWaitGroup Add/Done/Wait, spawn / run of startReadAndHandle and
//	                   of the connection-level stages postAccept / postDial / postDisconnect; set
//	tpaths_<root>      the control-flow PATHS (see paths.go; helpers such as graceCtxWait inlined, conditions normalised,
//	                   every event with the outcome that path decided) of session.closeLocked, readDisconnected, Close,
//	                   redialForClient, write, SetID, peer.ServeConn, the accept literal of peer.serveListener, peer.Dial
//	                   (without the redial literal) and the redial literal; with `tpaths_<root>_missing` per root
//	lock_held_calls    (callee, calling function, `lock-held` | `no-lock`) for closeLocked and redialForClientLocked:
//	                   is the call preceded, in the same function, by `<x>.lock.Lock()` that is only released by defer
//	write_tokens       the condition under which session.write refuses (returns statConnClosed), as tokens
//	write_table        (status constant, message type constant, refused) : that condition evaluated for every pair
//	goonRead_table     (status constant, result) : the result expression of goonRead evaluated for every status

import (
	"go/ast"
	"go/token"
	"regexp"
	"strings"
)

func init() {
	register(Group{
		Name: "Transitions",
		Doc:  "The session status constants in iota order, every status store / compare-and-swap / check with its enclosing function, the callers of the hub, notify, wait-group, socket-close, reader-spawn and connection-hook operations, the control-flow paths (path-sensitive, per-root `_missing`) of the close, disconnect, accept, dial and redial functions, and the truth tables of write's refusal condition and of goonRead. Consumed by Teleport.Props.C07 (C07_status_order, C07_no_blind_store_outside_lock, C07_close_path_order, C07_fail_fast_condition), Teleport.Props.C08 (C08_close_waits_sites) and Teleport.Props.C16 (C16_accept_order).",
		Gen:  genTransitions,
	})
}

var transRoots = map[string]bool{
	"session.closeLocked": true, "session.readDisconnected": true, "session.Close": true, "session.redialForClient": true,
	"session.write": true, "session.SetID": true,
	"peer.ServeConn": true, "peer.serveListener#accept": true, "peer.Dial": true, "peer.Dial#redial": true,
}

var transStatusKinds = map[string]bool{"store": true, "cas": true, "check": true, "load": true, "cmp": true, "case": true, "rawstatus": true}

var transLifeKeys = map[string]bool{
	"call:sessHub.set": true, "call:sessHub.delete": true, "call:notifyClosed": true, "call:socket.Close": true, "call:sess.Close": true,
	"call:closeLocked": true, "call:readDisconnected": true, "call:redialForClientLocked": true,
	"spawn:startReadAndHandle": true, "run:startReadAndHandle": true,
	"stage:postAccept": true, "stage:postDial": true, "stage:postDisconnect": true,
}

// transKeepPath: everything tracked except the reply-written flag and the markers of callbacks / spawned literals.
func transKeepPath(kind, name string) bool {
	switch kind {
	case "flag", "cb":
		return false
	case "spawn":
		return name == "startReadAndHandle"
	case "loop":
		return name == "back"
	}
	return true
}

// transStatusConstsQuiet: the status constants without emitting anything (for the path engine of other groups).
func transStatusConstsQuiet(p *Pkg) []string {
	return transStatusConsts(p, &Lean{group: "scratch"})
}

func transIsLife(e flEv) bool { return transLifeKeys[e.Key] || flKind(e) == "wg" }

func genTransitions(r *Repo, l *Lean) {
	p := r.Pkg("")
	if p.Err != nil || len(p.Files) == 0 {
		l.Missing("transitions_parse", "root package does not parse")
		return
	}
	x := flNewPkg(p)

	consts := transStatusConsts(p, l)

	// ---- site tables: every function of the package, lexical attribution
	var roots []flRoot
	accRoot, accLit := x.litRoot("peer", "serveListener", "accept", x.acceptLits)
	redRoot, redLit := x.litRoot("peer", "Dial", "redial", flRedialLits)
	for _, f := range p.Files {
		for _, d := range f.Decls {
			fd, ok := d.(*ast.FuncDecl)
			if !ok || fd.Body == nil {
				continue
			}
			rt := flRoot{Name: smFuncName(fd), fd: fd, body: fd.Body}
			if accLit != nil && fd == accRoot.fd {
				rt.skip = append(rt.skip, accLit)
			}
			if redLit != nil && fd == redRoot.fd {
				rt.skip = append(rt.skip, redLit)
			}
			roots = append(roots, rt)
		}
	}
	if accLit != nil {
		roots = append(roots, accRoot)
	}
	if redLit != nil {
		roots = append(roots, redRoot)
	}
	// a site inside an unexported helper belongs to the watched functions whose flows reach it
	reached := map[ast.Node][]string{}
	for _, root := range x.standardRoots() {
		if root.why != "" {
			continue
		}
		for _, e := range x.walkRoot(root, false) {
			if e.Node == nil {
				continue
			}
			dup := false
			for _, r := range reached[e.Node] {
				if r == root.Name {
					dup = true
				}
			}
			if !dup {
				reached[e.Node] = append(reached[e.Node], root.Name)
			}
		}
	}
	owners := func(lexical string, e flEv) []string {
		if e.Node != nil && len(reached[e.Node]) > 0 {
			return reached[e.Node]
		}
		return []string{lexical}
	}
	var statusRows, lifeRows, lockRows [][]string
	for _, rt := range roots {
		evs := x.walkRoot(rt, true)
		held := false
		for _, e := range evs {
			deferred := false
			for _, g := range e.Guards {
				if g == "defer{" {
					deferred = true
				}
			}
			switch {
			case strings.HasPrefix(e.Key, "?"):
				// unplaced statements of functions that have nothing to do with the lifecycle are not facts
				if strings.HasPrefix(e.Key, "?cmp") || strings.HasPrefix(e.Key, "?spawn") {
					statusRows = append(statusRows, []string{rt.Name, "?", e.Key, e.Y})
					l.missing = append(l.missing, "status_sites: "+rt.Name+": unplaced "+e.Key)
				}
			case transStatusKinds[flKind(e)]:
				k, n := flSplitKey(e.Key)
				if k == "cmp" && strings.HasPrefix(n, "!=") {
					// the site table says WHICH constant the status is compared with; the polarity of the
					// test is in the path facts (harmless seed C15-H2 De-Morganed write's refusal test)
					n = "==" + n[2:]
				}
				for _, o := range owners(rt.Name, e) {
					statusRows = append(statusRows, []string{o, k, n, e.Y})
				}
			case transIsLife(e):
				k, n := flSplitKey(e.Key)
				for _, o := range owners(rt.Name, e) {
					lifeRows = append(lifeRows, []string{o, k, n, e.X})
				}
			}
			switch e.Key {
			case "lock:lock.Lock":
				if !deferred {
					held = true
				}
			case "lock:lock.Unlock":
				if !deferred {
					held = false
				}
			case "call:closeLocked", "call:redialForClientLocked":
				h := "no-lock"
				if held {
					h = "lock-held"
				}
				lockRows = append(lockRows, []string{strings.TrimPrefix(e.Key, "call:"), rt.Name, h})
			}
		}
	}
	l.add("status_sites", "(function, kind, name, use) of every status operation of the root package; sorted set",
		"List (String × String × String × String)", flSortedRows(statusRows))
	l.add("lifecycle_sites", "(function, kind, name, detail) of every hub / notify / wait-group / socket-close / reader-start / connection-hook call of the root package; sorted set",
		"List (String × String × String × String)", flSortedRows(lifeRows))
	l.add("lock_held_calls", "(callee, calling function, lock-held | no-lock) for closeLocked and redialForClientLocked; sorted set",
		"List (String × String × String)", flSortedRows(lockRows))

	// ---- paths (see paths.go; helpers such as graceCtxWait inlined), full vocabulary
	for _, root := range x.standardRoots() {
		if !transRoots[root.Name] {
			continue
		}
		name := "tpaths_" + flLeanName(root.Name)
		if root.why != "" {
			l.missingPaths(name, root.why)
			continue
		}
		paths, missing := x.pathsOfRoot(root, consts, false)
		l.addPaths(name, "paths of "+root.Name, pProject(paths, transKeepPath), missing)
	}

	// ---- write's refusal condition and goonRead
	transWriteFacts(x, l, consts)
	transGoonRead(x, l, consts)
}

var transConstName = regexp.MustCompile(`^status[A-Z]\w*$`)

// transStatusConsts: the unique const block whose first spec is `statusXxx int32 = iota` and whose
// other specs are bare names.
func transStatusConsts(p *Pkg, l *Lean) []string {
	var blocks [][]string
	why := "no `const ( statusX int32 = iota; ... )` block found"
	for _, f := range p.Files {
		for _, d := range f.Decls {
			gd, ok := d.(*ast.GenDecl)
			if !ok || gd.Tok != token.CONST || len(gd.Specs) == 0 {
				continue
			}
			first := gd.Specs[0].(*ast.ValueSpec)
			if len(first.Names) != 1 || !transConstName.MatchString(first.Names[0].Name) {
				continue
			}
			okShape := len(first.Values) == 1 && flRaw(first.Values[0]) == "iota" && flBaseType(first.Type) == "int32"
			names := []string{first.Names[0].Name}
			for _, s := range gd.Specs[1:] {
				vs := s.(*ast.ValueSpec)
				if len(vs.Names) != 1 || len(vs.Values) != 0 || vs.Type != nil || !transConstName.MatchString(vs.Names[0].Name) {
					okShape = false
				}
				for _, n := range vs.Names {
					names = append(names, n.Name)
				}
			}
			if !okShape {
				why = "the status constant block is not `first int32 = iota` followed by bare names"
				blocks = append(blocks, nil)
				continue
			}
			blocks = append(blocks, names)
		}
	}
	if len(blocks) != 1 || blocks[0] == nil {
		if len(blocks) > 1 {
			why = "more than one status constant block"
		}
		l.Missing("status_consts", why)
		return nil
	}
	l.StrList("status_consts", "the session status constants, value = position (iota block of session.go)", blocks[0])
	return blocks[0]
}

type transEnv struct {
	w             *flWalker
	status, mtype string
}

func (v transEnv) atom(e ast.Expr) (string, bool) {
	e = flUnparen(e)
	if c, ok := e.(*ast.CallExpr); ok && len(c.Args) == 0 {
		switch flCalleeName(c) {
		case "Mtype":
			return v.mtype, v.mtype != ""
		case "getStatus":
			return v.status, true
		}
		return "", false
	}
	if id, ok := e.(*ast.Ident); ok {
		if v.w.statusLoc[id.Name] {
			return v.status, true
		}
		if transConstName.MatchString(id.Name) || strings.HasPrefix(id.Name, "Type") {
			return id.Name, true
		}
	}
	return "", false
}

func (v transEnv) eval(e ast.Expr) (bool, bool) {
	switch b := flUnparen(e).(type) {
	case *ast.UnaryExpr:
		if b.Op == token.NOT {
			r, ok := v.eval(b.X)
			return !r, ok
		}
	case *ast.BinaryExpr:
		switch b.Op {
		case token.LAND, token.LOR:
			x, ok1 := v.eval(b.X)
			y, ok2 := v.eval(b.Y)
			if b.Op == token.LAND {
				return x && y, ok1 && ok2
			}
			return x || y, ok1 && ok2
		case token.EQL, token.NEQ:
			x, ok1 := v.atom(b.X)
			y, ok2 := v.atom(b.Y)
			return (x == y) == (b.Op == token.EQL), ok1 && ok2
		}
	case *ast.CallExpr:
		if flCalleeName(b) == "checkStatus" {
			hit := false
			for _, a := range b.Args {
				s, ok := v.atom(a)
				if !ok {
					return false, false
				}
				if s == v.status {
					hit = true
				}
			}
			return hit, true
		}
	}
	return false, false
}

func transTokens(w *flWalker, e ast.Expr) []string {
	switch b := flUnparen(e).(type) {
	case *ast.UnaryExpr:
		return append([]string{b.Op.String()}, transTokens(w, b.X)...)
	case *ast.BinaryExpr:
		out := []string{"("}
		out = append(out, transTokens(w, b.X)...)
		out = append(out, b.Op.String())
		out = append(out, transTokens(w, b.Y)...)
		return append(out, ")")
	case *ast.CallExpr:
		if flCalleeName(b) == "Mtype" && len(b.Args) == 0 {
			return []string{"msg.Mtype()"}
		}
	}
	return []string{w.rx(e)}
}

var transMtypes = []string{"TypeCall", "TypeReply", "TypePush", "TypeAuthCall", "TypeAuthReply"}

// transWriteFacts: the first top-level `if` of session.write whose body ends in `return ..., statConnClosed`
// and that comes before the write lock and the socket write.
func transWriteFacts(x *flPkg, l *Lean, consts []string) {
	fd := x.p.Func("session", "write")
	if fd == nil {
		l.Missing("write_table", "session.write not found")
		return
	}
	var evs []flEv
	w := x.newWalker(fd, "session.write", fd.Body, &evs)
	var refuse *ast.IfStmt
	for _, s := range fd.Body.List {
		is, ok := s.(*ast.IfStmt)
		if ok && is.Init == nil && is.Else == nil && len(is.Body.List) > 0 {
			if rs, ok := is.Body.List[len(is.Body.List)-1].(*ast.ReturnStmt); ok && len(rs.Results) > 0 &&
				flRaw(rs.Results[len(rs.Results)-1]) == "statConnClosed" {
				refuse = is
				break
			}
		}
		// anything that locks or writes before the refusal: the refusal is not first
		touched := false
		ast.Inspect(s, func(n ast.Node) bool {
			if c, ok := n.(*ast.CallExpr); ok {
				switch flCalleeName(c) {
				case "Lock", "WriteMessage", "SetWriteDeadline":
					touched = true
				}
			}
			return true
		})
		if touched {
			break
		}
	}
	if refuse == nil || len(consts) == 0 {
		l.Missing("write_table", "session.write: no leading `if cond { return ..., statConnClosed }` before the lock and the socket write (or no status constants)")
		return
	}
	l.StrList("write_tokens", "the refusal condition of session.write as tokens (loaded status = `status`, the message's type = `msg.Mtype()`)", transTokens(w, refuse.Cond))
	var rows []string
	for _, st := range consts {
		for _, mt := range transMtypes {
			b, ok := transEnv{w, st, mt}.eval(refuse.Cond)
			if !ok {
				l.Missing("write_table", "session.write: the refusal condition uses something else than the loaded status, status constants, the message type and Type* constants")
				return
			}
			rows = append(rows, "("+leanStr(st)+", "+leanStr(mt)+", "+trBoolLean(b)+")")
		}
	}
	l.add("write_table", "(status constant, message type, refused) : the refusal condition of session.write evaluated for every pair; ordered by status, then type",
		"List (String × String × Bool)", "[\n  "+strings.Join(rows, ",\n  ")+"]")
}

func trBoolLean(b bool) string {
	if b {
		return "true"
	}
	return "false"
}

func transGoonRead(x *flPkg, l *Lean, consts []string) {
	fd := x.p.Func("session", "goonRead")
	if fd == nil || len(fd.Body.List) != 1 || len(consts) == 0 {
		l.Missing("goonRead_table", "session.goonRead is not a single return statement (or no status constants)")
		return
	}
	rs, ok := fd.Body.List[0].(*ast.ReturnStmt)
	if !ok || len(rs.Results) != 1 {
		l.Missing("goonRead_table", "session.goonRead is not a single return statement")
		return
	}
	var evs []flEv
	w := x.newWalker(fd, "session.goonRead", fd.Body, &evs)
	var rows []string
	for _, st := range consts {
		b, ok := transEnv{w, st, ""}.eval(rs.Results[0])
		if !ok {
			l.Missing("goonRead_table", "session.goonRead: the result uses something else than checkStatus / the loaded status and status constants")
			return
		}
		rows = append(rows, "("+leanStr(st)+", "+trBoolLean(b)+")")
	}
	l.add("goonRead_table", "(status constant, goonRead's result)", "List (String × Bool)", "[\n  "+strings.Join(rows, ",\n  ")+"]")
}
