package main

// facts_peerclose.go — fact group PeerClose: the shape of peer.Close (peer.go) that Model/PeerClose
// assumes, re-read from the source on every run.
//
//	peerclose_order      statement groups of peer.Close's own body in source order:
//	                     close:closeCh | snapshot:listeners | closeall:listeners | closeall:quic-listeners |
//	                     call:<fn> | range:sessHub | recvloop | close:<chan class> | return | lock | unlock | other:<kind>
//	peerclose_callback   what the function literal handed to sessHub.rangeCallback does, in order:
//	                     inc:counter | spawn:<MustGo|AnywayGo|Go|TryGo|go> | send:chan<-param.Close |
//	                     return:<expr> | other:<kind>
//	peerclose_recvloop   the receive loop: bound=<callback-counter|expr> chan=<callback-chan|expr>,
//	                     and every statement that can leave it early (exit:break, exit:return, exit:goto …)
//	peerclose_closech    (function, use) of every mention of the field closeCh in the root package
//	                     (use: close | recv | make | copy | other)
//
// Local names do not matter: the counter and the channel are identified by role (the identifier the
// callback increments / sends on), listeners by the field they are copied from.

import (
	"go/ast"
	"go/token"
	"sort"
	"strconv"
	"strings"
)

func init() {
	register(Group{Name: "PeerClose", Doc: "peer.Close: statement order, the hub range callback, the receive loop, and who reads closeCh.", Gen: genPeerClose})
}

type pcScan struct {
	recv     string            // receiver variable of Close
	lisVars  map[string]bool   // locals holding a copy of <recv>.listeners
	counter  string            // identifier incremented in the callback
	sendChan string            // channel the spawned goroutine sends on
	order    []string
	callback []string
	recvloop []string
	bad      []string
}

func pcIsField(e ast.Expr, recv, field string) bool {
	s, ok := e.(*ast.SelectorExpr)
	if !ok || s.Sel.Name != field {
		return false
	}
	id, ok := s.X.(*ast.Ident)
	return ok && id.Name == recv
}

func pcCallName(c *ast.CallExpr) string {
	switch f := c.Fun.(type) {
	case *ast.Ident:
		return f.Name
	case *ast.SelectorExpr:
		return f.Sel.Name
	}
	return ""
}

// pcMentions reports whether the node mentions identifier name.
func pcMentions(n ast.Node, name string) bool {
	found := false
	ast.Inspect(n, func(x ast.Node) bool {
		if id, ok := x.(*ast.Ident); ok && id.Name == name {
			found = true
		}
		return !found
	})
	return found
}

func pcExprStr(e ast.Expr) string {
	switch x := e.(type) {
	case nil:
		return ""
	case *ast.Ident:
		return x.Name
	case *ast.BasicLit:
		return x.Value
	case *ast.SelectorExpr:
		return pcExprStr(x.X) + "." + x.Sel.Name
	case *ast.CallExpr:
		return pcExprStr(x.Fun) + "()"
	case *ast.UnaryExpr:
		return x.Op.String() + pcExprStr(x.X)
	case *ast.BinaryExpr:
		return pcExprStr(x.X) + x.Op.String() + pcExprStr(x.Y)
	case *ast.ParenExpr:
		return "(" + pcExprStr(x.X) + ")"
	}
	return "?"
}

// listenerLoop classifies `for _, v := range <lisVar> { ... v.Close() ... }`.
func (sc *pcScan) listenerLoop(rs *ast.RangeStmt) (string, bool) {
	src, ok := rs.X.(*ast.Ident)
	if !ok || !sc.lisVars[src.Name] {
		return "", false
	}
	v, _ := rs.Value.(*ast.Ident)
	if v == nil {
		return "", false
	}
	kind := ""
	ast.Inspect(rs.Body, func(n ast.Node) bool {
		ifs, ok := n.(*ast.IfStmt)
		if ok && ifs.Init != nil && pcMentions(ifs.Init, "quic") {
			// if x, ok := v.(*quic.Listener); ok / !ok { ... Close() ... }
			closes := false
			ast.Inspect(ifs.Body, func(m ast.Node) bool {
				if c, ok := m.(*ast.CallExpr); ok && pcCallName(c) == "Close" {
					closes = true
				}
				return true
			})
			if closes {
				if u, ok := ifs.Cond.(*ast.UnaryExpr); ok && u.Op == token.NOT {
					kind = "closeall:listeners"
				} else {
					kind = "closeall:quic-listeners"
				}
			}
			return false
		}
		if c, ok := n.(*ast.CallExpr); ok && pcCallName(c) == "Close" && kind == "" {
			if s, ok := c.Fun.(*ast.SelectorExpr); ok {
				if id, ok := s.X.(*ast.Ident); ok && id.Name == v.Name {
					kind = "closeall:listeners"
				}
			}
		}
		return true
	})
	return kind, kind != ""
}

func (sc *pcScan) scanCallback(fl *ast.FuncLit) {
	param := ""
	if fl.Type.Params != nil && len(fl.Type.Params.List) == 1 && len(fl.Type.Params.List[0].Names) == 1 {
		param = fl.Type.Params.List[0].Names[0].Name
	}
	var walk func(list []ast.Stmt, nested bool)
	walk = func(list []ast.Stmt, nested bool) {
		for _, st := range list {
			switch s := st.(type) {
			case *ast.IncDecStmt:
				if id, ok := s.X.(*ast.Ident); ok && s.Tok == token.INC {
					sc.counter = id.Name
					sc.callback = append(sc.callback, "inc:counter")
				} else {
					sc.callback = append(sc.callback, "other:incdec")
				}
			case *ast.AssignStmt:
				// count += 1 / count = count + 1
				if len(s.Lhs) == 1 {
					if id, ok := s.Lhs[0].(*ast.Ident); ok && (s.Tok == token.ADD_ASSIGN || (s.Tok == token.ASSIGN && pcMentions(s.Rhs[0], id.Name))) {
						sc.counter = id.Name
						sc.callback = append(sc.callback, "inc:counter")
						continue
					}
				}
				sc.callback = append(sc.callback, "other:assign")
			case *ast.GoStmt:
				sc.callback = append(sc.callback, "spawn:go")
				if fl2, ok := s.Call.Fun.(*ast.FuncLit); ok {
					sc.scanSpawned(fl2, param)
				} else {
					sc.callback = append(sc.callback, "other:go-target")
				}
			case *ast.ExprStmt:
				c, ok := s.X.(*ast.CallExpr)
				if !ok {
					sc.callback = append(sc.callback, "other:expr")
					continue
				}
				name := pcCallName(c)
				if (name == "MustGo" || name == "AnywayGo" || name == "Go" || name == "TryGo") && len(c.Args) >= 1 {
					sc.callback = append(sc.callback, "spawn:"+name)
					if fl2, ok := c.Args[0].(*ast.FuncLit); ok {
						sc.scanSpawned(fl2, param)
					} else {
						sc.callback = append(sc.callback, "other:spawn-target")
					}
					continue
				}
				sc.callback = append(sc.callback, "call:"+name)
			case *ast.ReturnStmt:
				r := ""
				if len(s.Results) == 1 {
					r = pcExprStr(s.Results[0])
				}
				sc.callback = append(sc.callback, "return:"+r)
			case *ast.IfStmt:
				sc.callback = append(sc.callback, "if:"+pcExprStr(s.Cond))
				walk(s.Body.List, true)
				if s.Else != nil {
					if b, ok := s.Else.(*ast.BlockStmt); ok {
						sc.callback = append(sc.callback, "else")
						walk(b.List, true)
					} else {
						sc.callback = append(sc.callback, "other:else-if")
					}
				}
			case *ast.DeclStmt, *ast.EmptyStmt:
			default:
				sc.callback = append(sc.callback, "other:stmt")
			}
		}
	}
	walk(fl.Body.List, false)
}

func (sc *pcScan) scanSpawned(fl *ast.FuncLit, param string) {
	if len(fl.Body.List) != 1 {
		sc.callback = append(sc.callback, "other:spawned-body")
		return
	}
	snd, ok := fl.Body.List[0].(*ast.SendStmt)
	if !ok {
		sc.callback = append(sc.callback, "other:spawned-stmt")
		return
	}
	ch, _ := snd.Chan.(*ast.Ident)
	c, _ := snd.Value.(*ast.CallExpr)
	if ch == nil || c == nil || pcCallName(c) != "Close" {
		sc.callback = append(sc.callback, "other:send")
		return
	}
	sel, _ := c.Fun.(*ast.SelectorExpr)
	id, _ := sel.X.(*ast.Ident)
	if id == nil || id.Name != param || param == "" {
		sc.callback = append(sc.callback, "other:send-target")
		return
	}
	sc.sendChan = ch.Name
	sc.callback = append(sc.callback, "send:chan<-param.Close")
}

func (sc *pcScan) scanRecvLoop(fs *ast.ForStmt) bool {
	// for i := 0; i < BOUND; i++ { ... <-CH ... }
	recvFrom := ""
	ast.Inspect(fs.Body, func(n ast.Node) bool {
		if u, ok := n.(*ast.UnaryExpr); ok && u.Op == token.ARROW {
			recvFrom = pcExprStr(u.X)
		}
		return true
	})
	if recvFrom == "" {
		return false
	}
	bound := "?"
	if be, ok := fs.Cond.(*ast.BinaryExpr); ok && be.Op == token.LSS {
		bound = pcExprStr(be.Y)
		if post, ok := fs.Post.(*ast.IncDecStmt); !ok || post.Tok != token.INC || pcExprStr(post.X) != pcExprStr(be.X) {
			bound = "?post"
		}
		if init, ok := fs.Init.(*ast.AssignStmt); !ok || len(init.Rhs) != 1 || pcExprStr(init.Rhs[0]) != "0" {
			bound = "?init"
		}
	} else if fs.Cond != nil {
		bound = "?cond:" + pcExprStr(fs.Cond)
	}
	if bound == sc.counter && sc.counter != "" {
		bound = "callback-counter"
	}
	if recvFrom == sc.sendChan && sc.sendChan != "" {
		recvFrom = "callback-chan"
	}
	sc.recvloop = append(sc.recvloop, "bound="+bound, "chan="+recvFrom)
	nrecv := 0
	ast.Inspect(fs.Body, func(n ast.Node) bool {
		switch x := n.(type) {
		case *ast.FuncLit:
			return false
		case *ast.UnaryExpr:
			if x.Op == token.ARROW {
				nrecv++
			}
		case *ast.BranchStmt:
			sc.recvloop = append(sc.recvloop, "exit:"+x.Tok.String())
		case *ast.ReturnStmt:
			sc.recvloop = append(sc.recvloop, "exit:return")
		case *ast.CallExpr:
			if pcCallName(x) == "panic" {
				sc.recvloop = append(sc.recvloop, "exit:panic")
			}
		case *ast.SelectStmt:
			sc.recvloop = append(sc.recvloop, "exit:select")
		}
		return true
	})
	if nrecv != 1 {
		sc.recvloop = append(sc.recvloop, "recvs="+strconv.Itoa(nrecv))
	}
	return true
}

func (sc *pcScan) scanBody(list []ast.Stmt) {
	for _, st := range list {
		switch s := st.(type) {
		case *ast.DeferStmt, *ast.DeclStmt, *ast.EmptyStmt:
			// the recover wrapper and declarations carry no order
		case *ast.ExprStmt:
			c, ok := s.X.(*ast.CallExpr)
			if !ok {
				sc.order = append(sc.order, "other:expr")
				continue
			}
			name := pcCallName(c)
			switch {
			case name == "close" && len(c.Args) == 1 && pcIsField(c.Args[0], sc.recv, "closeCh"):
				sc.order = append(sc.order, "close:closeCh")
			case name == "close" && len(c.Args) == 1:
				cls := pcExprStr(c.Args[0])
				if cls == sc.sendChan && cls != "" {
					cls = "callback-chan"
				}
				sc.order = append(sc.order, "close:"+cls)
			case name == "Lock" || name == "RLock":
				sc.order = append(sc.order, "lock")
			case name == "Unlock" || name == "RUnlock":
				sc.order = append(sc.order, "unlock")
			case name == "rangeCallback" || name == "Range" || name == "RangeSession":
				if pcMentions(c.Fun, "sessHub") || name == "RangeSession" {
					sc.order = append(sc.order, "range:sessHub")
					if len(c.Args) == 1 {
						if fl, ok := c.Args[0].(*ast.FuncLit); ok {
							sc.scanCallback(fl)
							continue
						}
					}
					sc.bad = append(sc.bad, "the argument of the hub range is not a function literal")
				} else {
					sc.order = append(sc.order, "call:"+name)
				}
			default:
				sc.order = append(sc.order, "call:"+name)
			}
		case *ast.AssignStmt:
			// listeners := make([]net.Listener, 0, len(p.listeners))
			isSnap := false
			for _, r := range s.Rhs {
				found := false
				ast.Inspect(r, func(n ast.Node) bool {
					if e, ok := n.(ast.Expr); ok && pcIsField(e, sc.recv, "listeners") {
						found = true
					}
					// a helper of the receiver that hands out the listeners (p.snapshotListeners())
					if c, ok := n.(*ast.CallExpr); ok && strings.Contains(strings.ToLower(pcCallName(c)), "listener") {
						if sel, ok := c.Fun.(*ast.SelectorExpr); ok {
							if id, ok := sel.X.(*ast.Ident); ok && id.Name == sc.recv {
								found = true
							}
						}
					}
					return !found
				})
				if found {
					isSnap = true
				}
			}
			if isSnap {
				for _, l := range s.Lhs {
					if id, ok := l.(*ast.Ident); ok {
						sc.lisVars[id.Name] = true
					}
				}
				continue
			}
			if pcMentions(s, "sessHub") {
				sc.order = append(sc.order, "other:assign-sessHub")
			}
		case *ast.RangeStmt:
			if pcIsField(s.X, sc.recv, "listeners") {
				// for lis := range p.listeners { listeners = append(listeners, lis) }
				ast.Inspect(s.Body, func(n ast.Node) bool {
					if as, ok := n.(*ast.AssignStmt); ok {
						for _, l := range as.Lhs {
							if id, ok := l.(*ast.Ident); ok {
								sc.lisVars[id.Name] = true
							}
						}
					}
					return true
				})
				closes := false
				ast.Inspect(s.Body, func(n ast.Node) bool {
					if c, ok := n.(*ast.CallExpr); ok && pcCallName(c) == "Close" {
						closes = true
					}
					return true
				})
				if closes {
					sc.order = append(sc.order, "closeall:listeners")
				} else {
					sc.order = append(sc.order, "snapshot:listeners")
				}
				continue
			}
			if k, ok := sc.listenerLoop(s); ok {
				sc.order = append(sc.order, k)
				continue
			}
			sc.order = append(sc.order, "other:range")
		case *ast.ForStmt:
			if sc.scanRecvLoop(s) {
				sc.order = append(sc.order, "recvloop")
				continue
			}
			sc.order = append(sc.order, "other:for")
		case *ast.ReturnStmt:
			sc.order = append(sc.order, "return")
		case *ast.IfStmt:
			sc.order = append(sc.order, "if:"+pcExprStr(s.Cond))
			sc.scanBody(s.Body.List)
			if s.Else != nil {
				sc.order = append(sc.order, "other:else")
			}
			sc.order = append(sc.order, "endif")
		case *ast.BlockStmt:
			sc.scanBody(s.List)
		case *ast.GoStmt:
			sc.order = append(sc.order, "other:go")
		default:
			sc.order = append(sc.order, "other:stmt")
		}
	}
}

func genPeerClose(r *Repo, l *Lean) {
	p := r.Pkg("")
	fd := p.Func("peer", "Close")
	if fd == nil {
		l.Missing("peerclose_order", "method peer.Close not found (or declared twice)")
		l.Missing("peerclose_callback", "method peer.Close not found")
		l.Missing("peerclose_recvloop", "method peer.Close not found")
	} else {
		sc := &pcScan{recv: recvVarName(fd), lisVars: map[string]bool{}}
		// two passes: the callback fixes the role names (counter, channel) the later statements are
		// classified by
		sc.scanBody(fd.Body.List)
		counter, ch := sc.counter, sc.sendChan
		sc = &pcScan{recv: recvVarName(fd), lisVars: map[string]bool{}, counter: counter, sendChan: ch}
		sc.scanBody(fd.Body.List)
		if len(sc.bad) > 0 {
			l.Missing("peerclose_order", strings.Join(sc.bad, "; "))
		} else {
			l.StrList("peerclose_order", "statement groups of peer.Close's own body", sc.order)
		}
		l.StrList("peerclose_callback", "what the hub range callback of peer.Close does", sc.callback)
		l.StrList("peerclose_recvloop", "the receive loop of peer.Close: bound, channel, early exits", sc.recvloop)
	}
	// every mention of the field closeCh
	var uses []string
	for _, f := range p.Files {
		for _, d := range f.Decls {
			fn, ok := d.(*ast.FuncDecl)
			if !ok || fn.Body == nil {
				continue
			}
			name := fn.Name.Name
			if rt := recvTypeName(fn); rt != "" {
				name = rt + "." + name
			}
			var stack []ast.Node
			ast.Inspect(fn.Body, func(n ast.Node) bool {
				if n == nil {
					stack = stack[:len(stack)-1]
					return true
				}
				stack = append(stack, n)
				use := ""
				switch x := n.(type) {
				case *ast.SelectorExpr:
					if x.Sel.Name == "closeCh" {
						use = "other"
						if len(stack) >= 2 {
							switch par := stack[len(stack)-2].(type) {
							case *ast.CallExpr:
								if pcCallName(par) == "close" {
									use = "close"
								}
							case *ast.UnaryExpr:
								if par.Op == token.ARROW {
									use = "recv"
								}
							case *ast.ValueSpec, *ast.AssignStmt:
								use = "copy"
							}
						}
					}
				case *ast.KeyValueExpr:
					if id, ok := x.Key.(*ast.Ident); ok && id.Name == "closeCh" {
						use = "make"
					}
				}
				if use != "" {
					uses = append(uses, name+":"+use)
				}
				return true
			})
		}
	}
	sort.Strings(uses)
	l.StrSet("peerclose_closech", "(function:use) of every mention of the peer field closeCh in the root package", uses)
}
