package main

// facts_readloop.go — fact group ReadLoop: where session.startReadAndHandle tests the session status
// relative to the blocking socket.ReadMessage and to the handler dispatch.
//
//	readloop_landmarks  ordered landmarks of the read loop: "for" (the loop statement), "pre-exit" (an
//	                    `if` before the read whose branch leaves the loop), "call:ReadMessage",
//	                    "post-exit" (an `if` between the read and the dispatch whose branch leaves the
//	                    loop), "wg:ctx.Add" (graceCtxWaitGroup.Add), "spawn:handle" (the statement that
//	                    runs ctx.handle())
//	readloop_table      (status constant, [the loop reaches ReadMessage in this status, a frame that
//	                    ReadMessage returned without error is dispatched in this status, a frame with a
//	                    decode error but a body codec is dispatched in this status]) — the loop body
//	                    EXECUTED symbolically for every status constant: goonRead is evaluated from its
//	                    own source (checkStatus / getStatus comparisons), `err` is the result of
//	                    ReadMessage, plugin hooks before the read pass
//	readloop_readerr    (status constant, dispatched) for a read error without body codec (the socket was
//	                    closed / the peer is gone): must be false everywhere
//
// The extractor is self-contained (go/ast only); it shares no code with flow.go.

import (
	"bytes"
	"go/ast"
	"go/printer"
	"go/token"
	"strings"
)

func init() {
	register(Group{
		Name: "ReadLoop",
		Doc:  "Where session.startReadAndHandle tests the session status: the landmarks of the read loop in source order and, by symbolic execution of the loop body for every status constant, whether the loop enters ReadMessage and whether a frame that ReadMessage returned is dispatched to a handler. Consumed by Teleport.Props.C07 (C07_read_loop_rechecks_status).",
		Gen:  genReadLoop,
	})
}

type rlTri int

const (
	rlUnknown rlTri = iota
	rlFalse
	rlTrue
)

func rlOf(b bool) rlTri {
	if b {
		return rlTrue
	}
	return rlFalse
}

func rlNot(t rlTri) rlTri {
	switch t {
	case rlTrue:
		return rlFalse
	case rlFalse:
		return rlTrue
	}
	return rlUnknown
}

func rlRaw(fset *token.FileSet, n ast.Node) string {
	var b bytes.Buffer
	printer.Fprint(&b, fset, n)
	return strings.Join(strings.Fields(b.String()), " ")
}

func rlUnparen(e ast.Expr) ast.Expr {
	for {
		p, ok := e.(*ast.ParenExpr)
		if !ok {
			return e
		}
		e = p.X
	}
}

// rlCallee: the called method / function name and its receiver expression (nil for a plain call).
func rlCallee(c *ast.CallExpr) (string, ast.Expr) {
	switch f := c.Fun.(type) {
	case *ast.Ident:
		return f.Name, nil
	case *ast.SelectorExpr:
		return f.Sel.Name, f.X
	}
	return "", nil
}

func rlIsIdent(e ast.Expr, name string) bool {
	id, ok := rlUnparen(e).(*ast.Ident)
	return ok && name != "" && id.Name == name
}

// rlContainsCall: does the node contain a call of a method/function with this name (optionally with a
// receiver whose last selector is recvSel).
func rlContainsCall(n ast.Node, name, recvSel string) bool {
	found := false
	ast.Inspect(n, func(x ast.Node) bool {
		if c, ok := x.(*ast.CallExpr); ok {
			nm, rc := rlCallee(c)
			if nm == name {
				if recvSel == "" {
					found = true
				} else if rc != nil {
					switch r := rlUnparen(rc).(type) {
					case *ast.SelectorExpr:
						if r.Sel.Name == recvSel {
							found = true
						}
					case *ast.Ident:
						if r.Name == recvSel {
							found = true
						}
					}
				}
			}
		}
		return !found
	})
	return found
}

type rlEnv struct {
	recv     string              // receiver variable of startReadAndHandle
	status   string              // the current status of this run (pre until ReadMessage returns, then post)
	post     string              // the status when ReadMessage returns
	consts   map[string]bool     // the status constants
	goon     ast.Expr            // result expression of goonRead
	goonRecv string              // receiver variable of goonRead
	errVar   string              // variable that holds ReadMessage's result
	readErr  bool                // ReadMessage returned an error
	nilCodec bool                // ... and the message has no body codec
	locals   map[string]ast.Expr // boolean locals of the loop body (single definition)
	depth    int
}

// status-valued expression: a status constant, or `<recv>.getStatus()` = the current status.
func (v *rlEnv) statusOf(e ast.Expr, recv string) (string, bool) {
	switch x := rlUnparen(e).(type) {
	case *ast.Ident:
		if v.consts[x.Name] {
			return x.Name, true
		}
	case *ast.CallExpr:
		nm, rc := rlCallee(x)
		if nm == "getStatus" && len(x.Args) == 0 && rc != nil && rlIsIdent(rc, recv) {
			return v.status, true
		}
	}
	return "", false
}

// eval evaluates a boolean expression written in terms of receiver variable recv.
func (v *rlEnv) eval(e ast.Expr, recv string) rlTri {
	v.depth++
	defer func() { v.depth-- }()
	if v.depth > 40 {
		return rlUnknown
	}
	switch x := rlUnparen(e).(type) {
	case *ast.Ident:
		switch x.Name {
		case "true":
			return rlTrue
		case "false":
			return rlFalse
		}
		if recv == v.recv {
			if d, ok := v.locals[x.Name]; ok {
				return v.eval(d, recv)
			}
		}
	case *ast.UnaryExpr:
		if x.Op == token.NOT {
			return rlNot(v.eval(x.X, recv))
		}
	case *ast.BinaryExpr:
		switch x.Op {
		case token.LOR:
			a, b := v.eval(x.X, recv), v.eval(x.Y, recv)
			if a == rlTrue || b == rlTrue {
				return rlTrue
			}
			if a == rlFalse && b == rlFalse {
				return rlFalse
			}
			return rlUnknown
		case token.LAND:
			a, b := v.eval(x.X, recv), v.eval(x.Y, recv)
			if a == rlFalse || b == rlFalse {
				return rlFalse
			}
			if a == rlTrue && b == rlTrue {
				return rlTrue
			}
			return rlUnknown
		case token.EQL, token.NEQ:
			flip := func(t rlTri) rlTri {
				if x.Op == token.NEQ {
					return rlNot(t)
				}
				return t
			}
			// err ==/!= nil
			if recv == v.recv && v.errVar != "" {
				if rlIsIdent(x.X, v.errVar) && rlIsIdent(x.Y, "nil") || rlIsIdent(x.Y, v.errVar) && rlIsIdent(x.X, "nil") {
					return flip(rlOf(!v.readErr))
				}
			}
			// <something>.GetBodyCodec() ==/!= codec.NilCodecID
			isCodec := func(a ast.Expr) bool {
				c, ok := rlUnparen(a).(*ast.CallExpr)
				if !ok {
					return false
				}
				nm, _ := rlCallee(c)
				return nm == "GetBodyCodec" && len(c.Args) == 0
			}
			isNilID := func(a ast.Expr) bool {
				switch s := rlUnparen(a).(type) {
				case *ast.SelectorExpr:
					return s.Sel.Name == "NilCodecID"
				case *ast.Ident:
					return s.Name == "NilCodecID"
				}
				return false
			}
			if recv == v.recv && (isCodec(x.X) && isNilID(x.Y) || isCodec(x.Y) && isNilID(x.X)) {
				return flip(rlOf(v.nilCodec))
			}
			// status comparisons
			a, okA := v.statusOf(x.X, recv)
			b, okB := v.statusOf(x.Y, recv)
			if okA && okB {
				return flip(rlOf(a == b))
			}
		}
	case *ast.CallExpr:
		nm, rc := rlCallee(x)
		if rc != nil && rlIsIdent(rc, recv) {
			switch nm {
			case "goonRead":
				if len(x.Args) == 0 && v.goon != nil {
					return v.eval(v.goon, v.goonRecv)
				}
			case "checkStatus":
				hit := false
				for _, a := range x.Args {
					s, ok := v.statusOf(a, recv)
					if !ok {
						return rlUnknown
					}
					if s == v.status {
						hit = true
					}
				}
				return rlOf(hit)
			}
		}
	}
	return rlUnknown
}

// what a statement (or a whole nested block) does that matters here
func rlHasRead(n ast.Node) bool { return rlContainsCall(n, "ReadMessage", "") }
func rlHasAdd(n ast.Node) bool  { return rlContainsCall(n, "Add", "graceCtxWaitGroup") }
func rlHasHandle(n ast.Node) bool {
	return rlContainsCall(n, "handle", "")
}

// rlLeaves: does the block (not looking into function literals or nested loops) contain a return, or a
// break / goto that leaves the read loop.
func rlLeaves(n ast.Node) bool {
	found := false
	var walk func(n ast.Node, inner bool)
	walk = func(n ast.Node, inner bool) {
		ast.Inspect(n, func(x ast.Node) bool {
			if found {
				return false
			}
			switch s := x.(type) {
			case *ast.FuncLit:
				return false
			case *ast.ReturnStmt:
				found = true
			case *ast.BranchStmt:
				if s.Tok == token.GOTO || (s.Tok == token.BREAK && (!inner || s.Label != nil)) {
					found = true
				}
			case *ast.ForStmt:
				if x != n {
					walk(s.Body, true)
					return false
				}
			case *ast.RangeStmt:
				if x != n {
					walk(s.Body, true)
					return false
				}
			case *ast.SwitchStmt, *ast.TypeSwitchStmt, *ast.SelectStmt:
				if x != n {
					walk(x, true)
					return false
				}
			}
			return true
		})
	}
	walk(n, false)
	return found
}

type rlRun struct {
	v       *rlEnv
	read    bool   // ReadMessage has been called
	outcome string // "", "exit", "dispatch", "bad:<why>"
	fset    *token.FileSet
}

func (r *rlRun) block(list []ast.Stmt) {
	for _, s := range list {
		if r.outcome != "" {
			return
		}
		r.stmt(s)
	}
}

func (r *rlRun) stmt(s ast.Stmt) {
	switch x := s.(type) {
	case *ast.BlockStmt:
		r.block(x.List)
		return
	case *ast.ReturnStmt:
		r.outcome = "exit"
		return
	case *ast.BranchStmt:
		if x.Tok == token.BREAK || x.Tok == token.GOTO {
			r.outcome = "exit"
		} else if x.Tok == token.CONTINUE {
			r.outcome = "continue"
		}
		return
	case *ast.IfStmt:
		if x.Init != nil {
			r.stmt(x.Init)
			if r.outcome != "" {
				return
			}
		}
		// a condition that itself dispatches (`if !Go(func(){ ctx.handle() }) {...}`)
		if rlHasAdd(x.Cond) || rlHasHandle(x.Cond) {
			r.outcome = "dispatch"
			return
		}
		if rlHasRead(x.Cond) {
			r.outcome = "bad:ReadMessage inside a condition"
			return
		}
		switch r.v.eval(x.Cond, r.v.recv) {
		case rlTrue:
			r.block(x.Body.List)
		case rlFalse:
			if x.Else != nil {
				r.stmt(x.Else)
			}
		default:
			relevant := rlLeaves(x.Body) || rlHasAdd(x.Body) || rlHasHandle(x.Body) || rlHasRead(x.Body)
			if x.Else != nil {
				relevant = relevant || rlLeaves(x.Else) || rlHasAdd(x.Else) || rlHasHandle(x.Else) || rlHasRead(x.Else)
			}
			if !relevant {
				return
			}
			if !r.read && x.Else == nil && !rlHasRead(x.Body) && !rlHasAdd(x.Body) && !rlHasHandle(x.Body) {
				// before the read: a plugin hook / setup check that leaves the loop; the table is
				// for the run in which these pass
				return
			}
			r.outcome = "bad:condition that cannot be evaluated: " + rlRaw(r.fset, x.Cond)
		}
		return
	case *ast.ForStmt, *ast.RangeStmt, *ast.SwitchStmt, *ast.TypeSwitchStmt, *ast.SelectStmt:
		if rlHasRead(s) || rlHasAdd(s) || rlHasHandle(s) || rlLeaves(s) {
			r.outcome = "bad:nested control statement on the read / dispatch path"
		}
		return
	case *ast.AssignStmt:
		if rlHasRead(x) {
			r.read = true
			r.v.status = r.v.post
			if len(x.Lhs) == 1 {
				if id, ok := x.Lhs[0].(*ast.Ident); ok {
					r.v.errVar = id.Name
				}
			}
			return
		}
		// boolean locals: `ok := s.goonRead()`
		if len(x.Lhs) == 1 && len(x.Rhs) == 1 {
			if id, ok := x.Lhs[0].(*ast.Ident); ok && id.Name != "_" && id.Name != r.v.errVar {
				if r.v.eval(x.Rhs[0], r.v.recv) != rlUnknown {
					// freeze the value now (the status is constant during one symbolic run)
					if r.v.eval(x.Rhs[0], r.v.recv) == rlTrue {
						r.v.locals[id.Name] = ast.NewIdent("true")
					} else {
						r.v.locals[id.Name] = ast.NewIdent("false")
					}
				} else {
					delete(r.v.locals, id.Name)
				}
			}
		}
	case *ast.DeclStmt:
		if rlHasRead(x) {
			r.outcome = "bad:ReadMessage inside a declaration"
			return
		}
	case *ast.ExprStmt:
		if rlHasRead(x) {
			r.read = true // result dropped: no error variable
			r.v.status = r.v.post
			return
		}
	}
	if rlHasAdd(s) || rlHasHandle(s) {
		r.outcome = "dispatch"
	}
}

// rlLandmarks: the static order of the landmarks.
func rlLandmarks(body []ast.Stmt) []string {
	out := []string{"for"}
	read, add := false, false
	var walk func(list []ast.Stmt)
	walk = func(list []ast.Stmt) {
		for _, s := range list {
			if is, ok := s.(*ast.IfStmt); ok && !rlHasRead(is) && !rlHasAdd(is) && !rlHasHandle(is) {
				leaves := rlLeaves(is.Body) || (is.Else != nil && rlLeaves(is.Else))
				if leaves {
					switch {
					case !read:
						out = append(out, "pre-exit")
					case !add:
						out = append(out, "post-exit")
					}
				}
				continue
			}
			if is, ok := s.(*ast.IfStmt); ok && !rlHasAdd(is.Cond) && !rlHasHandle(is.Cond) && !rlHasRead(is.Cond) {
				// an `if` that contains the read / the dispatch in a branch: look inside, in order
				if rlLeaves(is) && (rlHasRead(is) || rlHasAdd(is) || rlHasHandle(is)) {
					if !read {
						out = append(out, "pre-exit")
					} else if !add {
						out = append(out, "post-exit")
					}
				}
				walk(is.Body.List)
				if is.Else != nil {
					if b, ok := is.Else.(*ast.BlockStmt); ok {
						walk(b.List)
					} else {
						walk([]ast.Stmt{is.Else})
					}
				}
				continue
			}
			if rlHasRead(s) {
				out = append(out, "call:ReadMessage")
				read = true
			}
			if rlHasAdd(s) {
				out = append(out, "wg:ctx.Add")
				add = true
			}
			if rlHasHandle(s) {
				out = append(out, "spawn:handle")
			}
		}
	}
	walk(body)
	// consecutive exits count once (splitting or merging `if`s is not a change of the loop)
	var ded []string
	for _, k := range out {
		if len(ded) > 0 && ded[len(ded)-1] == k && (k == "pre-exit" || k == "post-exit") {
			continue
		}
		ded = append(ded, k)
	}
	return ded
}

func genReadLoop(r *Repo, l *Lean) {
	p := r.Pkg("")
	missAll := func(why string) {
		l.Missing("readloop_landmarks", why)
		l.Missing("readloop_table", why)
		l.Missing("readloop_readerr", why)
	}
	if p.Err != nil && len(p.Files) == 0 {
		missAll("root package: " + p.Err.Error())
		return
	}
	// status constants: the const block that declares statusOk
	var consts []string
	for _, f := range p.Files {
		for _, d := range f.Decls {
			gd, ok := d.(*ast.GenDecl)
			if !ok || gd.Tok != token.CONST {
				continue
			}
			var names []string
			has := false
			for _, sp := range gd.Specs {
				for _, n := range sp.(*ast.ValueSpec).Names {
					names = append(names, n.Name)
					if n.Name == "statusOk" {
						has = true
					}
				}
			}
			if has {
				consts = names
			}
		}
	}
	fd := p.Func("session", "startReadAndHandle")
	gf := p.Func("session", "goonRead")
	if fd == nil || gf == nil || len(consts) == 0 {
		missAll("session.startReadAndHandle / session.goonRead / the status constants not found")
		return
	}
	if len(gf.Body.List) != 1 {
		missAll("session.goonRead is not a single return statement")
		return
	}
	grs, ok := gf.Body.List[0].(*ast.ReturnStmt)
	if !ok || len(grs.Results) != 1 {
		missAll("session.goonRead is not a single return statement")
		return
	}
	// the read loop: the one top-level `for` that contains the ReadMessage call
	var loop *ast.ForStmt
	n := 0
	for _, s := range fd.Body.List {
		if fs, ok := s.(*ast.ForStmt); ok && rlHasRead(fs) {
			loop = fs
			n++
		} else if rlHasRead(s) {
			n += 2
		}
	}
	if n != 1 || loop.Init != nil || loop.Post != nil {
		missAll("session.startReadAndHandle: not exactly one top-level `for [cond] { … ReadMessage … }`")
		return
	}
	l.StrList("readloop_landmarks", "landmarks of the read loop of session.startReadAndHandle in source order: for, pre-exit, call:ReadMessage, post-exit, wg:ctx.Add, spawn:handle", rlLandmarks(loop.Body.List))

	cset := map[string]bool{}
	for _, c := range consts {
		cset[c] = true
	}
	run := func(pre, post string, readErr, nilCodec bool) (reaches bool, outcome string) {
		v := &rlEnv{recv: recvVarName(fd), status: pre, post: post, consts: cset, goon: grs.Results[0], goonRecv: recvVarName(gf),
			readErr: readErr, nilCodec: nilCodec, locals: map[string]ast.Expr{}}
		rr := &rlRun{v: v, fset: p.Fset}
		if loop.Cond != nil {
			switch v.eval(loop.Cond, v.recv) {
			case rlFalse:
				return false, "exit"
			case rlUnknown:
				return false, "bad:loop condition that cannot be evaluated: " + rlRaw(p.Fset, loop.Cond)
			}
		}
		rr.block(loop.Body.List)
		if rr.outcome == "" || rr.outcome == "continue" {
			if rr.read {
				return true, "bad:the loop body ends after the read without dispatching or leaving"
			}
			return false, "bad:the loop body never calls ReadMessage on this path"
		}
		return rr.read, rr.outcome
	}
	// the statuses in which the loop enters ReadMessage (status unchanged during the iteration)
	var pres []string
	reach := map[string]bool{}
	for _, st := range consts {
		rd, out := run(st, st, false, false)
		if strings.HasPrefix(out, "bad:") {
			l.Missing("readloop_table", "session.startReadAndHandle ("+st+"): "+strings.TrimPrefix(out, "bad:"))
			l.Missing("readloop_readerr", "see readloop_table")
			return
		}
		reach[st] = rd
		if rd {
			pres = append(pres, st)
		}
	}
	if len(pres) == 0 {
		l.Missing("readloop_table", "session.startReadAndHandle: the loop enters ReadMessage in no status")
		l.Missing("readloop_readerr", "see readloop_table")
		return
	}
	// dispatch(post): the status is `pre` (any status that enters the read) until ReadMessage returns and
	// `post` from then on; the answer must not depend on `pre`
	dispatched := func(post string, readErr, nilCodec bool) (bool, string) {
		var res []bool
		for _, pre := range pres {
			rd, out := run(pre, post, readErr, nilCodec)
			if strings.HasPrefix(out, "bad:") {
				return false, strings.TrimPrefix(out, "bad:")
			}
			res = append(res, rd && out == "dispatch")
		}
		for _, b := range res[1:] {
			if b != res[0] {
				return false, "whether a frame is dispatched depends on the status BEFORE the read (post-read status " + post + ")"
			}
		}
		return res[0], ""
	}
	var rows, erows []string
	for _, st := range consts {
		cols := []string{trBoolLean(reach[st])}
		for _, sc := range [][2]bool{{false, false}, {true, false}} {
			b, bad := dispatched(st, sc[0], sc[1])
			if bad != "" {
				l.Missing("readloop_table", "session.startReadAndHandle ("+st+"): "+bad)
				l.Missing("readloop_readerr", "see readloop_table")
				return
			}
			cols = append(cols, trBoolLean(b))
		}
		rows = append(rows, "("+leanStr(st)+", ["+strings.Join(cols, ", ")+"])")
		b, bad := dispatched(st, true, true)
		if bad != "" {
			l.Missing("readloop_readerr", "session.startReadAndHandle ("+st+"): "+bad)
			return
		}
		erows = append(erows, "("+leanStr(st)+", "+trBoolLean(b)+")")
	}
	l.add("readloop_table", "(status constant, [the read loop enters ReadMessage in this status; a frame that ReadMessage returned without error is dispatched (graceCtxWaitGroup.Add / ctx.handle) when the status is this one AFTER the read; the same for a frame with a decode error but a body codec]): the loop body executed symbolically, goonRead evaluated from its source",
		"List (String × List Bool)", "[\n  "+strings.Join(rows, ",\n  ")+"]")
	l.add("readloop_readerr", "(status constant, dispatched) when ReadMessage fails and the message has no body codec (connection closed / lost)",
		"List (String × Bool)", "[\n  "+strings.Join(erows, ",\n  ")+"]")
}
