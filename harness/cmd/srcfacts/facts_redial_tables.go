package main

// facts_redial_tables.go — the behaviour tables of the fact group Redial (see facts_redial.go).

import (
	"fmt"
	"go/ast"
	"strings"
)

const redialFuel = 64

func redialTables(x *flPkg, l *Lean) {
	redialNextTable(x, l)
	redialRoundTable(x, l)
	redialWriteErrTable(x, l)
	redialRetryTable(x, l)
	redialEntryTable(x, l, transStatusConsts(x.p, &Lean{}))
}

func redialIntLean(i int64) string {
	if i < 0 {
		return fmt.Sprintf("(%d)", i)
	}
	return fmt.Sprint(i)
}

func redialNatList(xs []int) string {
	q := make([]string, len(xs))
	for i, v := range xs {
		q[i] = fmt.Sprint(v)
	}
	return "[" + strings.Join(q, ", ") + "]"
}

// ---- redialCounter.Next
func redialNextTable(x *flPkg, l *Lean) {
	const name = "redial_next_table"
	fd := x.p.Func("redialCounter", "Next")
	if fd == nil {
		l.Missing(name, "redialCounter.Next not found")
		return
	}
	var rows []string
	for t := int64(-2); t <= 3; t++ {
		in := &rinterp{x: x, fuel: redialFuel, fields: map[string]rval{}}
		cell := rvI(t)
		fr := &rframe{vars: map[string]*rval{}}
		if n := recvVarName(fd); n != "" {
			fr.vars[n] = &rval{k: rvPtr, p: &cell}
		}
		ctl := in.execList(fr, fd.Body.List)
		if in.stopped() || ctl.k != rcReturn || len(ctl.vals) != 1 || ctl.vals[0].k != rvBool || cell.k != rvInt {
			l.Missing(name, "redialCounter.Next could not be executed: "+in.bad)
			return
		}
		rows = append(rows, "("+redialIntLean(t)+", "+trBoolLean(ctl.vals[0].b)+", "+redialIntLean(cell.i)+")")
	}
	l.add(name, "(counter, result of Next, counter afterwards) for the counters -2..3: redialCounter.Next executed",
		"List (Int × Bool × Int)", "[\n  "+strings.Join(rows, ",\n  ")+"]")
}

// ---- Dialer.dialWithRetry
// availability codes: 0 = up, 1 = down (dialOne fails), 2 = hookFail (dialOne succeeds, the callback fails)
type redialDialRun struct {
	queue    []int
	sticky   int
	tried    []int
	conns    int64
	pending  bool // the last dialOne succeeded and its callback has not run yet
	fromQ    int  // attempts served from the queue
	misorder bool
}

func (d *redialDialRun) settle() {
	if d.pending {
		d.tried[len(d.tried)-1] += 10 // a connection whose callback never ran
		d.pending = false
	}
}

func (d *redialDialRun) hook(in *rinterp, name string, recv *rval, args []rval) (rval, bool) {
	switch name {
	case "dialOne":
		d.settle()
		a := d.sticky
		if len(d.queue) > 0 {
			a, d.queue = d.queue[0], d.queue[1:]
			d.fromQ++
		}
		d.tried = append(d.tried, a)
		if a == 1 {
			return rvT(rvNilV, rvE("dial")), true
		}
		d.conns++
		d.pending = true
		return rvT(rvC(d.conns), rvNilV), true
	case "<callback>":
		if !d.pending || len(args) != 1 || args[0].k != rvConn || args[0].i != d.conns {
			d.misorder = true
			return rvE("misplaced"), true
		}
		d.pending = false
		if d.tried[len(d.tried)-1] == 2 {
			return rvE("hook"), true
		}
		return rvNilV, true
	}
	return rvNilV, false
}

func redialRoundTable(x *flPkg, l *Lean) {
	const name = "redial_round_table"
	fd := x.p.Func("Dialer", "dialWithRetry")
	if fd == nil {
		l.Missing(name, "Dialer.dialWithRetry not found")
		return
	}
	var pnames []string
	if fd.Type.Params != nil {
		for _, f := range fd.Type.Params.List {
			for _, n := range f.Names {
				pnames = append(pnames, n.Name)
			}
		}
	}
	if len(pnames) != 3 {
		l.Missing(name, "Dialer.dialWithRetry does not have the three parameters (addr, sessID, fn)")
		return
	}
	queues := [][]int{{}}
	for _, a := range []int{0, 1, 2} {
		queues = append(queues, []int{a})
	}
	for _, a := range []int{0, 1, 2} {
		for _, b := range []int{0, 1, 2} {
			queues = append(queues, []int{a, b})
		}
	}
	var rows []string
	for _, budget := range []int64{0, 1, 2, -1} {
		for _, q := range queues {
			for _, sticky := range []int{0, 1, 2} {
				run := &redialDialRun{queue: append([]int{}, q...), sticky: sticky}
				in := &rinterp{x: x, fuel: redialFuel, hook: run.hook,
					fields: map[string]rval{"redialTimes": rvI(budget), "redialInterval": rvI(0)}}
				fr := &rframe{vars: map[string]*rval{}}
				if n := recvVarName(fd); n != "" {
					fr.vars[n] = &rval{k: rvSym, s: "$"}
				}
				fr.vars[pnames[0]] = &rval{k: rvStr, s: "addr"}
				fr.vars[pnames[1]] = &rval{k: rvStr, s: "id"}
				fr.vars[pnames[2]] = &rval{k: rvFunc}
				ctl := in.execList(fr, fd.Body.List)
				run.settle()
				end := 9
				tried := run.tried
				switch {
				case in.bad != "" || run.misorder:
					why := in.bad
					if why == "" {
						why = "the callback was called without a fresh connection"
					}
					l.Missing(name, "Dialer.dialWithRetry could not be executed: "+why)
					return
				case in.hang:
					end = 2
					// an endless run: what it tried after the first attempt and the queue is the sticky
					// availability over and over
					keep := len(q)
					if keep < 1 {
						keep = 1
					}
					if len(tried) > keep {
						tried = tried[:keep]
					}
				case ctl.k == rcReturn && len(ctl.vals) == 2 && ctl.vals[0].k == rvConn && ctl.vals[0].i == run.conns && ctl.vals[1].k == rvNil:
					end = 0
				case ctl.k == rcReturn && len(ctl.vals) == 2 && ctl.vals[0].k == rvNil && ctl.vals[1].k == rvErr:
					end = 1
				}
				rows = append(rows, fmt.Sprintf("(%s, %s, %d, %s, %d, %d)", redialIntLean(budget), redialNatList(q), sticky,
					redialNatList(tried), end, len(run.queue)))
			}
		}
	}
	l.add(name, "(budget = Dialer.redialTimes, availability queue, sticky availability, attempts made, ending, queue left): Dialer.dialWithRetry executed with a non-nil callback. Availability 0 = up, 1 = dialOne fails, 2 = dialOne succeeds and the callback fails; +10 = a connection whose callback was not called. Ending 0 = returns the newest connection and a nil error, 1 = returns a nil connection and an error, 2 = never returns (cut after "+fmt.Sprint(redialFuel)+" iterations; attempts cut to the first one and the queue), 9 = anything else",
		"List (Int × List Nat × Nat × List Nat × Nat × Nat)", "[\n  "+strings.Join(rows, ",\n  ")+"]")
}

func redialHasCall(n ast.Node, name string) *ast.CallExpr {
	var hit *ast.CallExpr
	ast.Inspect(n, func(m ast.Node) bool {
		if c, ok := m.(*ast.CallExpr); ok && flCalleeName(c) == name && hit == nil {
			hit = c
		}
		return true
	})
	return hit
}
