package main

// facts_redial_entry.go — fact group Redial: session.redialForClient executed (see facts_redial.go).
//
//	redial_entry_table   (status, [redial function present, caller's connection still current,
//	                     verdict of the closure], trace, result). Trace entries: lock, unlock,
//	                     getConn, cas:<to><-<from sorted by name>:<won|lost>, closure@<status at the call>

import (
	"sort"
	"strings"
)

type redialEntryRun struct {
	status  string
	same    bool
	verdict bool
}

func (d *redialEntryRun) hook(in *rinterp, name string, recv *rval, args []rval) (rval, bool) {
	self := recv != nil && recv.k == rvSym && recv.s == "$"
	switch {
	case (name == "Lock" || name == "Unlock") && recv != nil && recv.k == rvSym && recv.s == "$.lock" && len(args) == 0:
		in.log = append(in.log, strings.ToLower(name))
		return rvNilV, true
	case name == "getConn" && self && len(args) == 0:
		in.log = append(in.log, "getConn")
		if d.same {
			return rvC(1), true
		}
		return rvC(2), true
	case name == "getStatus" && self && len(args) == 0:
		return rvS(d.status), true
	case name == "tryChangeStatus" && self && len(args) >= 2:
		var from []string
		won := false
		for _, a := range args {
			if a.k != rvSym {
				in.fail("tryChangeStatus with an argument that is not a status constant")
				return rvNilV, true
			}
		}
		for _, a := range args[1:] {
			from = append(from, a.s)
			if a.s == d.status {
				won = true
			}
		}
		sort.Strings(from)
		res := "lost"
		if won {
			res = "won"
			d.status = args[0].s
		}
		in.log = append(in.log, "cas:"+args[0].s+"<-"+strings.Join(from, ",")+":"+res)
		return rvB(won), true
	case name == "redialForClientLocked" && self && len(args) == 0:
		in.log = append(in.log, "closure@"+d.status)
		return rvB(d.verdict), true
	}
	return rvNilV, false
}

func redialEntryTable(x *flPkg, l *Lean, consts []string) {
	const name = "redial_entry_table"
	fd := x.p.Func("session", "redialForClient")
	if fd == nil {
		l.Missing(name, "session.redialForClient not found")
		return
	}
	var pnames []string
	if fd.Type.Params != nil {
		for _, f := range fd.Type.Params.List {
			for _, n := range f.Names {
				pnames = append(pnames, n.Name)
			}
		}
	}
	if len(pnames) != 1 || len(consts) == 0 {
		l.Missing(name, "session.redialForClient does not have the one parameter (oldConn), or no status constants")
		return
	}
	type scen struct {
		enabled       bool
		status        string
		same, verdict bool
	}
	scens := []scen{{false, "statusOk", true, true}}
	for _, st := range consts {
		for _, same := range []bool{true, false} {
			scens = append(scens, scen{true, st, same, true})
		}
	}
	scens = append(scens, scen{true, "statusOk", true, false})
	var rows []string
	for _, sc := range scens {
		run := &redialEntryRun{status: sc.status, same: sc.same, verdict: sc.verdict}
		fn := rvNilV
		if sc.enabled {
			fn = rval{k: rvFunc}
		}
		in := &rinterp{x: x, fuel: redialFuel, hook: run.hook, fields: map[string]rval{"redialForClientLocked": fn}}
		fr := &rframe{vars: map[string]*rval{}}
		if n := recvVarName(fd); n != "" {
			fr.vars[n] = &rval{k: rvSym, s: "$"}
		}
		fr.vars[pnames[0]] = &rval{k: rvConn, i: 1}
		ctl := in.runBody(fr, fd.Body.List)
		if in.stopped() || ctl.k != rcReturn || len(ctl.vals) != 1 || ctl.vals[0].k != rvBool {
			l.Missing(name, "session.redialForClient could not be executed: "+in.bad)
			return
		}
		rows = append(rows, "("+leanStr(sc.status)+", ["+trBoolLean(sc.enabled)+", "+trBoolLean(sc.same)+", "+trBoolLean(sc.verdict)+"], "+
			strList(in.log)+", "+trBoolLean(ctl.vals[0].b)+")")
	}
	l.add(name, "(status, [redial function present, the caller's connection is still the session's, verdict of the closure], trace, result): session.redialForClient executed. Trace entries: lock, unlock, getConn, cas:<to><-<from, sorted by name>:<won|lost>, closure@<status when the closure is called>",
		"List (String × List Bool × List String × Bool)", "[\n  "+strings.Join(rows, ",\n  ")+"]")
}
