package main

// Fact group `CodecArms` (property C11): what every arm of the codecs' type switches / kind switches does.
//
// Each fact is a set of (pattern, class) rows. `pattern` is one type of a type-switch case (`nil`,
// `*[]byte`, `url.Values`, …; a case with several types gives one row per type), one `reflect.Kind` of a
// kind switch (`Int8`, `Slice`, …) or `default` (the default clause, or — when the switch has none — the
// statements that follow the switch). `class` is the set of FEATURES of the arm's statements joined by
// `+` in sorted order:
//
//	alias        the result / the destination is made to refer to the INPUT's backing array
//	             (Marshal: `b = vv`, `return *body, nil`; Unmarshal: `*s = data`, `v.SetBytes(data)`)
//	copy         `copy(dst, src)`            make     `make(...)` / `reflect.MakeSlice`
//	convert      `string(x)`, `[]byte(x)`, goutil.StringToBytes / BytesToString
//	store:<x>    assignment through the destination pointer of something that is not the input
//	set:<M>      reflect setter `v.SetInt(..)`, `v.SetString(..)`, …
//	error        constructs an error (fmt.Errorf / errors.New)
//	lit:"…"      a string literal assigned to a local (the default of an empty form value)
//	nil-check    compares the switch variable with nil
//	ret:<e>      `return` of a constant result (`ret:nil`, `ret:"",false`, `ret:"",true`)
//	call:<f>(k)  any other call, with its integer-literal arguments (`call:strconv.FormatInt(10)`,
//	             `call:setIntField(8)`, `call:proto.Marshal`, `call:codec.Get`, `call:.Encode`)
//
// Calls of unexported same-package helpers that are not themselves watched are INLINED (two levels), local
// names never appear, statement order inside an arm does not matter, an if/else chain over `x.Kind() == K`
// is read like a switch — so extracting a helper, renaming, re-ordering independent statements or
// inverting a capacity test does not change the text; adding, removing or changing what an arm does does.
// Switches whose arms cannot overlap (concrete types, kinds) are emitted as sorted sets; switches with an
// interface arm (proto.Message, thrift.TStruct) keep the source order.

import (
	"fmt"
	"go/ast"
	"go/token"
	"sort"
	"strings"
)

func init() {
	register(Group{
		Name: "CodecArms",
		Doc:  "(pattern, class of action) of every arm of the type switches and reflect.Kind switches of codec/plain_codec.go, codec/form_codec.go, the protobuf/thrift wrappers, the json/xml pass-through and socket/message.go MarshalBody/UnmarshalBody. Consumed by C11_arms_plain, C11_arms_plain_kinds, C11_arms_form, C11_arms_form_kinds, C11_arms_wrappers, C11_arms_body.",
		Gen:  genCodecArms,
	})
}

type caCtx struct {
	p       *Pkg
	imps    map[string]bool // import names of the file set
	keep    map[string]bool // same-package functions reported as calls (not inlined)
	src     map[string]bool // raw expressions that denote the input
	bound   string          // the type-switch variable ("" if none)
	globals map[string]bool // package-level variables
}

func caGlobals(p *Pkg) map[string]bool {
	m := map[string]bool{}
	for _, f := range p.Files {
		for _, d := range f.Decls {
			if gd, ok := d.(*ast.GenDecl); ok && gd.Tok == token.VAR {
				for _, s := range gd.Specs {
					for _, n := range s.(*ast.ValueSpec).Names {
						m[n.Name] = true
					}
				}
			}
		}
	}
	return m
}

var caIgnoreMethods = map[string]bool{
	"Kind": true, "Elem": true, "Type": true, "Len": true, "Index": true, "Field": true, "Interface": true,
	"Error": true, "String": true, "Bool": true, "Int": true, "Uint": true, "Float": true, "Bytes": true,
	"CanSet": true, "NumField": true, "Get": true, "IsNil": true,
}

func caIntArgs(c *ast.CallExpr) string {
	var ks []string
	for _, a := range c.Args {
		if bl, ok := flUnparen(a).(*ast.BasicLit); ok && (bl.Kind == token.INT || bl.Kind == token.CHAR) {
			ks = append(ks, bl.Value)
		}
	}
	if len(ks) == 0 {
		return ""
	}
	return "(" + strings.Join(ks, ",") + ")"
}

func (c *caCtx) isSrc(e ast.Expr) bool {
	e = flUnparen(e)
	if s, ok := e.(*ast.SliceExpr); ok {
		return c.isSrc(s.X)
	}
	return c.src[flRaw(e)]
}

func caRetConst(e ast.Expr) (string, bool) {
	switch v := flUnparen(e).(type) {
	case *ast.Ident:
		if v.Name == "nil" || v.Name == "true" || v.Name == "false" {
			return v.Name, true
		}
	case *ast.BasicLit:
		return v.Value, true
	case *ast.CompositeLit:
		if len(v.Elts) == 0 {
			if at, ok := v.Type.(*ast.ArrayType); ok && at.Len == nil && flRaw(at.Elt) == "byte" {
				return "[]byte{}", true
			}
		}
	}
	return "", false
}

// features collects the feature set of a statement list.
func (c *caCtx) features(list []ast.Stmt, depth int, out map[string]bool) {
	for _, s := range list {
		ast.Inspect(s, func(n ast.Node) bool {
			switch v := n.(type) {
			case *ast.FuncLit:
				return false
			case *ast.ReturnStmt:
				var ks []string
				allConst := len(v.Results) > 0
				for _, r := range v.Results {
					if c.isSrc(r) {
						out["alias"] = true
					}
					k, ok := caRetConst(r)
					if !ok {
						allConst = false
					}
					ks = append(ks, k)
				}
				if allConst {
					out["ret:"+strings.Join(ks, ",")] = true
				}
			case *ast.AssignStmt:
				for i, l := range v.Lhs {
					if i >= len(v.Rhs) {
						break
					}
					r := v.Rhs[i]
					if id, ok := l.(*ast.Ident); ok && id.Name == "_" {
						continue
					}
					if c.isSrc(r) {
						out["alias"] = true
						continue
					}
					if bl, ok := flUnparen(r).(*ast.BasicLit); ok && bl.Kind == token.STRING {
						if _, isId := l.(*ast.Ident); isId {
							out["lit:"+bl.Value] = true
						}
					}
					if st, ok := l.(*ast.StarExpr); ok && c.bound != "" && flRaw(st.X) == c.bound {
						rr := flUnparen(r)
						switch x := rr.(type) {
						case *ast.CallExpr, *ast.SliceExpr:
							// classified by the call / a re-slice of the destination itself
							_ = x
						default:
							out["store:"+caOpaque(rr)] = true
						}
					}
				}
			case *ast.BinaryExpr:
				if c.bound != "" && (v.Op == token.EQL || v.Op == token.NEQ) {
					a, b := flRaw(v.X), flRaw(v.Y)
					if (a == c.bound && b == "nil") || (b == c.bound && a == "nil") {
						out["nil-check"] = true
					}
				}
			case *ast.CallExpr:
				c.call(v, depth, out)
			}
			return true
		})
	}
}

// argClass marks calls whose argument is the switch variable (`$`) or a package-level variable (its name).
func (c *caCtx) argClass(v *ast.CallExpr) string {
	var ks []string
	for _, a := range v.Args {
		if id, ok := flUnparen(a).(*ast.Ident); ok {
			if c.bound != "" && id.Name == c.bound {
				ks = append(ks, "$")
			} else if c.globals[id.Name] {
				ks = append(ks, id.Name)
			}
		}
	}
	if len(ks) == 0 {
		return ""
	}
	return "<" + strings.Join(ks, ",") + ">"
}

func caOpaque(e ast.Expr) string {
	switch e.(type) {
	case *ast.Ident:
		return "var"
	case *ast.BasicLit:
		return "lit"
	}
	return "expr"
}

func (c *caCtx) call(v *ast.CallExpr, depth int, out map[string]bool) {
	switch f := flUnparen(v.Fun).(type) {
	case *ast.ArrayType:
		out["convert"] = true
		return
	case *ast.Ident:
		switch f.Name {
		case "copy":
			out["copy"] = true
			return
		case "make":
			out["make"] = true
			return
		case "string":
			out["convert"] = true
			return
		case "len", "cap", "new", "append", "panic", "recover":
			if f.Name == "append" || f.Name == "panic" {
				out[f.Name] = true
			}
			return
		}
		if fd := c.p.Func("", f.Name); fd != nil && !c.keep[f.Name] && depth < 2 {
			// inside the helper "the input" is whichever of ITS parameters received the input, not a
			// local that happens to have the caller's parameter name (harmless seed C11-H2: an extracted
			// indirectAll(v reflect.Value) returning its own v looked like an aliasing arm)
			saved := c.src
			inner := map[string]bool{}
			if fd.Type.Params != nil {
				i := 0
				for _, fld := range fd.Type.Params.List {
					for _, nm := range fld.Names {
						if i < len(v.Args) && c.isSrc(v.Args[i]) {
							inner[nm.Name] = true
						}
						i++
					}
				}
			}
			c.src = inner
			c.features(fd.Body.List, depth+1, out)
			c.src = saved
			return
		}
		out["call:"+f.Name+caIntArgs(v)] = true
		return
	case *ast.SelectorExpr:
		if id, ok := f.X.(*ast.Ident); ok && c.imps[id.Name] {
			name := id.Name + "." + f.Sel.Name
			switch name {
			case "goutil.StringToBytes", "goutil.BytesToString":
				out["convert"] = true
			case "fmt.Errorf", "errors.New":
				out["error"] = true
			case "reflect.ValueOf", "reflect.TypeOf", "reflect.Zero":
			case "reflect.MakeSlice":
				out["make"] = true
			default:
				// a conversion to a named type of another package, e.g. (url.Values)(vv)
				if len(v.Args) == 1 && f.Sel.Name == "Values" {
					return
				}
				out["call:"+name+caIntArgs(v)+c.argClass(v)] = true
			}
			return
		}
		m := f.Sel.Name
		if strings.HasPrefix(m, "Set") && len(m) > 3 {
			if m == "SetBytes" && len(v.Args) == 1 && c.isSrc(v.Args[0]) {
				out["alias"] = true
			}
			out["set:"+m] = true
			return
		}
		if caIgnoreMethods[m] {
			return
		}
		recv := "."
		if c.bound != "" && flRaw(f.X) == c.bound {
			recv = "$."
		} else if id, ok := f.X.(*ast.Ident); ok && c.globals[id.Name] {
			recv = id.Name + "."
		}
		out["call:"+recv+m+caIntArgs(v)] = true
		return
	case *ast.ParenExpr:
		return
	}
	out["call:?"] = true
}

func caClass(fs map[string]bool) string {
	var ks []string
	for k := range fs {
		ks = append(ks, k)
	}
	sort.Strings(ks)
	return strings.Join(ks, "+")
}

func caTypeString(e ast.Expr) string {
	switch v := e.(type) {
	case *ast.Ident:
		return v.Name
	case *ast.StarExpr:
		return "*" + caTypeString(v.X)
	case *ast.SelectorExpr:
		return flRaw(v.X) + "." + v.Sel.Name
	case *ast.ArrayType:
		if v.Len == nil {
			return "[]" + caTypeString(v.Elt)
		}
		return "[" + flRaw(v.Len) + "]" + caTypeString(v.Elt)
	case *ast.MapType:
		return "map[" + caTypeString(v.Key) + "]" + caTypeString(v.Value)
	case *ast.InterfaceType:
		if v.Methods == nil || len(v.Methods.List) == 0 {
			return "interface{}"
		}
	case *ast.StructType:
		if v.Fields == nil || len(v.Fields.List) == 0 {
			return "struct{}"
		}
	}
	return fmt.Sprintf("?%T", e)
}

func caImports(p *Pkg) map[string]bool {
	m := map[string]bool{}
	for _, f := range p.Files {
		for _, im := range f.Imports {
			path := strings.Trim(im.Path.Value, "\"")
			name := path[strings.LastIndex(path, "/")+1:]
			if im.Name != nil {
				name = im.Name.Name
			}
			m[name] = true
		}
	}
	return m
}

// caSwitch extracts the arms of the FIRST type switch (typeSw) or switch over `<x>.Kind()` / a parameter of
// type reflect.Kind (kind switch) found at the top level of fd's body (also inside a top-level `default`
// arm when inner is set). Returns rows and "" or a reason.
type caArm struct{ pat, class string }

func caFindSwitch(list []ast.Stmt, typeSw bool) (ast.Stmt, []ast.Stmt) {
	for i, s := range list {
		switch v := s.(type) {
		case *ast.TypeSwitchStmt:
			if typeSw {
				return v, list[i+1:]
			}
		case *ast.SwitchStmt:
			if !typeSw && v.Tag != nil {
				return v, list[i+1:]
			}
		}
	}
	return nil, nil
}

func (c *caCtx) typeSwitchArms(sw *ast.TypeSwitchStmt, after []ast.Stmt, srcIsBound bool, extraSrc ...string) ([]caArm, bool, string) {
	c.bound = ""
	switch a := sw.Assign.(type) {
	case *ast.AssignStmt:
		if len(a.Lhs) == 1 {
			c.bound = flRaw(a.Lhs[0])
		}
	}
	c.src = map[string]bool{}
	for _, s := range extraSrc {
		c.src[s] = true
	}
	if srcIsBound && c.bound != "" {
		c.src[c.bound] = true
		c.src["*"+c.bound] = true
	}
	var arms []caArm
	hasDefault, hasIface := false, false
	for _, cl := range sw.Body.List {
		cc := cl.(*ast.CaseClause)
		fs := map[string]bool{}
		c.features(cc.Body, 0, fs)
		class := caClass(fs)
		if cc.List == nil {
			hasDefault = true
			arms = append(arms, caArm{"default", class})
			continue
		}
		for _, t := range cc.List {
			pat := caTypeString(t)
			if strings.HasPrefix(pat, "?") {
				return nil, false, "case type of unrecognised shape"
			}
			if sel, ok := t.(*ast.SelectorExpr); ok && (sel.Sel.Name == "Message" || sel.Sel.Name == "TStruct") {
				hasIface = true
			}
			arms = append(arms, caArm{pat, class})
		}
	}
	if !hasDefault {
		fs := map[string]bool{}
		c.features(after, 0, fs)
		arms = append(arms, caArm{"default", caClass(fs)})
	}
	return arms, hasIface, ""
}

func caKindName(e ast.Expr) (string, bool) {
	sel, ok := flUnparen(e).(*ast.SelectorExpr)
	if !ok || flRaw(sel.X) != "reflect" {
		return "", false
	}
	return sel.Sel.Name, true
}

func (c *caCtx) kindSwitchArms(sw *ast.SwitchStmt, after []ast.Stmt, src ...string) ([]caArm, string) {
	c.bound = ""
	c.src = map[string]bool{}
	for _, s := range src {
		c.src[s] = true
	}
	var arms []caArm
	hasDefault := false
	for _, cl := range sw.Body.List {
		cc := cl.(*ast.CaseClause)
		fs := map[string]bool{}
		c.features(cc.Body, 0, fs)
		class := caClass(fs)
		if cc.List == nil {
			hasDefault = true
			arms = append(arms, caArm{"default", class})
			continue
		}
		for _, k := range cc.List {
			name, ok := caKindName(k)
			if !ok {
				return nil, "case expression is not a reflect.Kind constant"
			}
			arms = append(arms, caArm{name, class})
		}
	}
	if !hasDefault {
		fs := map[string]bool{}
		c.features(after, 0, fs)
		arms = append(arms, caArm{"default", caClass(fs)})
	}
	return arms, ""
}

func caEmit(l *Lean, name, doc string, arms []caArm, ordered bool) {
	rows := make([][]string, len(arms))
	for i, a := range arms {
		rows[i] = []string{a.pat, a.class}
	}
	if ordered {
		var out []string
		for _, r := range rows {
			out = append(out, "("+leanStr(r[0])+", "+leanStr(r[1])+")")
		}
		l.add(name, doc+" (pattern, class); an interface arm is present: ordered as in the source", "List (String × String)", ccRows(out))
		return
	}
	l.add(name, doc+" (pattern, class); arms cannot overlap: sorted set", "List (String × String)", flSortedRows(rows))
}

func genCodecArms(r *Repo, l *Lean) {
	p := r.Pkg("codec")
	if p.Err != nil || len(p.Files) == 0 {
		l.Missing("arms_parse", "package codec does not parse")
		return
	}
	imps := caImports(p)
	watched := map[string]bool{
		"formatProperType": true, "parseProperType": true, "setStructToForm": true, "mapFormToStruct": true,
		"setWithProperType": true, "setIntField": true, "setUintField": true, "setBoolField": true,
		"setFloatField": true, "setTimeField": true, "ProtoMarshal": true, "ProtoUnmarshal": true,
		"ThriftMarshal": true, "ThriftUnmarshal": true,
	}
	globals := caGlobals(p)
	ctx := func() *caCtx { return &caCtx{p: p, imps: imps, keep: watched, globals: globals} }
	param := func(fd *ast.FuncDecl, i int) string {
		k := 0
		for _, f := range fd.Type.Params.List {
			for _, n := range f.Names {
				if k == i {
					return n.Name
				}
				k++
			}
		}
		return ""
	}

	// ---- type switches of the codecs
	type tsw struct {
		fact, recv, fn string
		marshal        bool
	}
	for _, t := range []tsw{
		{"arms_plain_marshal", "PlainCodec", "Marshal", true},
		{"arms_plain_unmarshal", "PlainCodec", "Unmarshal", false},
		{"arms_form_marshal", "FormCodec", "Marshal", true},
		{"arms_form_unmarshal", "FormCodec", "Unmarshal", false},
		{"arms_pb_marshal", "", "ProtoMarshal", true},
		{"arms_pb_unmarshal", "", "ProtoUnmarshal", false},
		{"arms_thrift_marshal", "", "ThriftMarshal", true},
		{"arms_thrift_unmarshal", "", "ThriftUnmarshal", false},
	} {
		fd := p.Func(t.recv, t.fn)
		if fd == nil {
			l.Missing(t.fact, t.recv+"."+t.fn+" not found")
			continue
		}
		sw, after := caFindSwitch(fd.Body.List, true)
		if sw == nil {
			l.Missing(t.fact, t.recv+"."+t.fn+": no type switch at the top level of the body")
			continue
		}
		c := ctx()
		var arms []caArm
		var iface bool
		var why string
		if t.marshal {
			arms, iface, why = c.typeSwitchArms(sw.(*ast.TypeSwitchStmt), after, true, param(fd, 0))
		} else {
			arms, iface, why = c.typeSwitchArms(sw.(*ast.TypeSwitchStmt), after, false, param(fd, 0))
		}
		if why != "" {
			l.Missing(t.fact, t.recv+"."+t.fn+": "+why)
			continue
		}
		caEmit(l, t.fact, "arms of the type switch of "+strings.TrimPrefix(t.recv+"."+t.fn, "."), arms, iface)
	}

	// ---- kind switches
	type ksw struct {
		fact, fn string
		srcParam int // index of the input parameter (-1: none)
	}
	for _, k := range []ksw{
		{"arms_plain_format", "formatProperType", -1},
		{"arms_plain_parse", "parseProperType", 0},
		{"arms_form_set", "setWithProperType", -1},
	} {
		fd := p.Func("", k.fn)
		if fd == nil {
			l.Missing(k.fact, k.fn+" not found")
			continue
		}
		sw, after := caFindSwitch(fd.Body.List, false)
		if sw == nil {
			l.Missing(k.fact, k.fn+": no switch at the top level of the body")
			continue
		}
		c := ctx()
		var src []string
		if k.srcParam >= 0 {
			src = append(src, param(fd, k.srcParam))
		}
		arms, why := c.kindSwitchArms(sw.(*ast.SwitchStmt), after, src...)
		if why != "" {
			l.Missing(k.fact, k.fn+": "+why)
			continue
		}
		caEmit(l, k.fact, "arms of the reflect.Kind switch of "+k.fn, arms, false)
	}
	// the kind switch inside the default arm of FormCodec.Unmarshal
	if fd := p.Func("FormCodec", "Unmarshal"); fd != nil {
		var inner *ast.SwitchStmt
		var after []ast.Stmt
		if sw, _ := caFindSwitch(fd.Body.List, true); sw != nil {
			for _, cl := range sw.(*ast.TypeSwitchStmt).Body.List {
				if cc := cl.(*ast.CaseClause); cc.List == nil {
					if s, a := caFindSwitch(cc.Body, false); s != nil {
						inner, after = s.(*ast.SwitchStmt), a
					}
				}
			}
		}
		if inner == nil {
			l.Missing("arms_form_unmarshal_kinds", "FormCodec.Unmarshal: no kind switch in the default arm")
		} else {
			arms, why := ctx().kindSwitchArms(inner, after)
			if why != "" {
				l.Missing("arms_form_unmarshal_kinds", "FormCodec.Unmarshal: "+why)
			} else {
				caEmit(l, "arms_form_unmarshal_kinds", "arms of the reflect.Kind switch in the default arm of FormCodec.Unmarshal", arms, false)
			}
		}
	} else {
		l.Missing("arms_form_unmarshal_kinds", "FormCodec.Unmarshal not found")
	}
	// the field setters of the form codec: (function, class)
	{
		var arms []caArm
		ok := true
		for _, fn := range []string{"setBoolField", "setFloatField", "setIntField", "setUintField"} {
			fd := p.Func("", fn)
			if fd == nil {
				l.Missing("arms_form_setters", fn+" not found")
				ok = false
				break
			}
			c := ctx()
			c.src = map[string]bool{}
			fs := map[string]bool{}
			c.features(fd.Body.List, 0, fs)
			// what the function returns at its end: the parse error or a constant
			if n := len(fd.Body.List); n > 0 {
				if rs, isRet := fd.Body.List[n-1].(*ast.ReturnStmt); isRet && len(rs.Results) == 1 {
					if _, isConst := caRetConst(rs.Results[0]); !isConst {
						fs["ret:err"] = true
					}
				}
			}
			arms = append(arms, caArm{fn, caClass(fs)})
		}
		if ok {
			caEmit(l, "arms_form_setters", "the scalar setters of the form codec: default for an empty value (store:lit), parser with base and whether its error is returned (ret:err) or swallowed (ret:nil);", arms, false)
		}
	}
	// json / xml: no switch at all
	{
		var arms []caArm
		ok := true
		for _, t := range []string{"JSONCodec", "XMLCodec"} {
			for _, fn := range []string{"Marshal", "Unmarshal"} {
				fd := p.Func(t, fn)
				if fd == nil {
					l.Missing("arms_direct", t+"."+fn+" not found")
					ok = false
					continue
				}
				c := ctx()
				c.src = map[string]bool{}
				fs := map[string]bool{}
				c.features(fd.Body.List, 0, fs)
				if len(fd.Body.List) != 1 {
					fs["stmts"] = true
				}
				arms = append(arms, caArm{t + "." + fn, caClass(fs)})
			}
		}
		if ok {
			caEmit(l, "arms_direct", "JSONCodec / XMLCodec: the whole body of Marshal and Unmarshal (one library call, no switch);", arms, false)
		}
	}

	// ---- socket/message.go
	sp := r.Pkg("socket")
	if sp.Err != nil || len(sp.Files) == 0 {
		l.Missing("arms_body_marshal", "package socket does not parse")
		return
	}
	simps := caImports(sp)
	for _, t := range []struct {
		fact, fn string
		marshal  bool
	}{{"arms_body_marshal", "MarshalBody", true}, {"arms_body_unmarshal", "UnmarshalBody", false}} {
		fd := sp.Func("message", t.fn)
		if fd == nil {
			l.Missing(t.fact, "message."+t.fn+" not found")
			continue
		}
		sw, after := caFindSwitch(fd.Body.List, true)
		if sw == nil {
			l.Missing(t.fact, "message."+t.fn+": no type switch at the top level of the body")
			continue
		}
		c := &caCtx{p: sp, imps: simps, keep: map[string]bool{}, globals: caGlobals(sp)}
		var arms []caArm
		var why string
		if t.marshal {
			arms, _, why = c.typeSwitchArms(sw.(*ast.TypeSwitchStmt), after, true)
		} else {
			arms, _, why = c.typeSwitchArms(sw.(*ast.TypeSwitchStmt), after, false, param(fd, 0))
		}
		if why != "" {
			l.Missing(t.fact, "message."+t.fn+": "+why)
			continue
		}
		caEmit(l, t.fact, "arms of the type switch of message."+t.fn, arms, false)
		if !t.marshal {
			// what precedes the switch: the newBodyFunc call and the early return for an empty input
			var pre []string
			for _, s := range fd.Body.List {
				if s == sw {
					break
				}
				is, ok := s.(*ast.IfStmt)
				if !ok {
					continue
				}
				fs := map[string]bool{}
				c.bound = ""
				c.src = map[string]bool{}
				c.features(is.Body.List, 0, fs)
				cond := "other"
				if caMentionsLenZero(is.Cond, fd, param(fd, 0)) {
					cond = "empty-input"
				} else if strings.Contains(caClass(fs), "call:.newBodyFunc") {
					cond = "body-nil"
				}
				pre = append(pre, cond+":"+caClass(fs))
			}
			l.StrList("arms_body_unmarshal_pre", "message.UnmarshalBody: the conditional statements before the type switch as condition:class", pre)
		}
	}
}

// caMentionsLenZero: the condition is `len(<param>) == 0` or `<v> == 0` where v := len(<param>).
func caMentionsLenZero(cond ast.Expr, fd *ast.FuncDecl, param string) bool {
	b, ok := flUnparen(cond).(*ast.BinaryExpr)
	if !ok || b.Op != token.EQL {
		return false
	}
	isLen := func(e ast.Expr) bool {
		if c, ok := flUnparen(e).(*ast.CallExpr); ok && flCalleeName(c) == "len" && len(c.Args) == 1 && flRaw(c.Args[0]) == param {
			return true
		}
		if id, ok := flUnparen(e).(*ast.Ident); ok {
			found := false
			ast.Inspect(fd.Body, func(n ast.Node) bool {
				if a, ok := n.(*ast.AssignStmt); ok && len(a.Lhs) == 1 && len(a.Rhs) == 1 && flRaw(a.Lhs[0]) == id.Name {
					if c, ok := a.Rhs[0].(*ast.CallExpr); ok && flCalleeName(c) == "len" && len(c.Args) == 1 && flRaw(c.Args[0]) == param {
						found = true
					}
				}
				return true
			})
			return found
		}
		return false
	}
	isZero := func(e ast.Expr) bool {
		bl, ok := flUnparen(e).(*ast.BasicLit)
		return ok && bl.Value == "0"
	}
	return (isLen(b.X) && isZero(b.Y)) || (isLen(b.Y) && isZero(b.X))
}
