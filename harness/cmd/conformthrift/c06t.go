package main

import (
	"bytes"
	"encoding/binary"
	"fmt"
	"runtime"
	"strconv"

	"github.com/henrylee2cn/erpc/v6/socket"

	"verif/harness/internal/hx"
)

// C06 for proto/thriftproto (kind `xc06thrift`, the property's own oracle, no model): a received
// frame must not make the receiver buffer more than the configured per-message read limit.
//
//	xc06thrift limit=<read limit> announce=<bytes announced for the binary body field> proto=b
//
// A well-formed frame is produced by the real Pack (body "hello"); the i32 length of its last field
// (the body written by WriteBinary) is overwritten with `announce`; the frame is handed to the real
// Unpack under the read limit. Observed: the bytes allocated by that one Unpack (runtime.MemStats
// TotalAlloc delta, minimum of three repetitions - a per-message allocation repeats, noise does not).
func c06tRun(line string, out *sinkT) (obs string, nt bool) {
	defer func() {
		if x := recover(); x != nil {
			obs, nt = fmt.Sprintf("harness-panic:%v", x), false
		}
	}()
	_, f := hx.Fields(line)
	limit, _ := strconv.Atoi(f["limit"])
	announce, _ := strconv.Atoi(f["announce"])
	proto := f["proto"]
	if limit <= 0 || announce <= 0 || announce > 1<<28 || proto != "b" {
		return "bad-case", false
	}
	// 1. a genuine frame
	c := &conn{}
	var perr error
	withLimit(1<<30, func() {
		m := socket.NewMessage(socket.WithServiceMethod("/a/b"), socket.WithBody([]byte("hello")))
		m.SetMtype(1)
		m.SetSeq(7)
		perr = safePack(protoFunc(proto)(c), m)
	})
	if perr != nil {
		return "pack-failed", false
	}
	frame := append([]byte(nil), c.w.Bytes()...)
	tail := append([]byte{0, 0, 0, 5}, "hello"...)
	if !bytes.HasSuffix(frame, tail) {
		out.Count("xc06thrift:frame-shape-changed")
		return "oracle-only", false
	}
	binary.BigEndian.PutUint32(frame[len(frame)-9:], uint32(announce))
	// 2. hand it to Unpack under the limit; measure
	best := uint64(1 << 62)
	var uerr error
	for rep := 0; rep < 3; rep++ {
		rc := &conn{r: bytes.NewReader(frame)}
		p := protoFunc(proto)(rc)
		withLimit(limit, func() {
			m := socket.NewMessage(socket.WithNewBody(func(socket.Header) interface{} { return new([]byte) }))
			var a, b runtime.MemStats
			runtime.GC()
			runtime.ReadMemStats(&a)
			uerr = safeUnpack(p, m)
			runtime.ReadMemStats(&b)
			if d := b.TotalAlloc - a.TotalAlloc; d < best {
				best = d
			}
		})
	}
	out.Count("xc06thrift")
	budget := uint64(limit) + 1<<20
	if best > budget {
		out.Violate("no-over-allocation",
			fmt.Sprintf("thriftproto (binary) Unpack of a %d-byte frame whose body field announces %d bytes allocated %d bytes under a read limit of %d (budget: limit + 1 MiB); Unpack returned: %v",
				len(frame), announce, best, limit, uerr),
			"c06:thrift:overalloc")
	}
	if uerr == nil {
		out.Violate("garbage-is-refused", "Unpack accepted a frame whose body field announces more bytes than the frame holds", "c06:thrift:accepted-truncated-body")
	}
	return "oracle-only", true
}
