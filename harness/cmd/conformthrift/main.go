// Command conformthrift is the correspondence harness (tie B) for proto/thriftproto (property C05,
// case kinds thriftpack / thriftunpack / thriftstream). It is a program of its own because importing
// proto/thriftproto switches the process-wide service-method mapper and default body codec in its
// init (DESIGN 12.7), which must not happen inside `conform`.
//
// Stand-alone, with the flags of cmd/conform:
//
//	conformthrift c05t -seed N -tier quick|thorough -cases f -obs f -stats f [-replay casefile]
//
// As the child of `conform c05` (harness/cmd/conform/c05t.go builds and starts it):
//
//	conformthrift -serve        line protocol on stdin/stdout:
//	    GEN <seed> <tier>   ->  one case line per line, then "."
//	    RUN <case line>     ->  "#C <key>" (histogram count) and "#V <oracle>\t<sig>\t<detail>" lines,
//	                            then "=<0|1>\t<observation>"
package main

import (
	"bufio"
	"flag"
	"fmt"
	"os"
	"strconv"
	"strings"

	"verif/harness/internal/hx"
)

// sinkT collects what one Run reports (counts, oracle failures) so that both modes can forward it.
type sinkT struct {
	counts []string
	viols  [][3]string // oracle, sig, detail
}

func (s *sinkT) Count(k string)                      { s.counts = append(s.counts, k) }
func (s *sinkT) Violate(oracle, detail, sig string) { s.viols = append(s.viols, [3]string{oracle, sig, detail}) }

func main() {
	if len(os.Args) >= 2 && os.Args[1] == "-serve" {
		serve()
		return
	}
	if len(os.Args) < 2 || os.Args[1] != "c05t" {
		fmt.Fprintln(os.Stderr, "usage: conformthrift c05t [flags] | conformthrift -serve")
		os.Exit(2)
	}
	fs := flag.NewFlagSet("c05t", flag.ExitOnError)
	seed := fs.Int64("seed", 1, "PRNG seed")
	tier := fs.String("tier", "quick", "quick|thorough")
	cases := fs.String("cases", "cases.txt", "case file (written)")
	obs := fs.String("obs", "obs.txt", "implementation observations (written)")
	stats := fs.String("stats", "stats.json", "statistics (written)")
	replay := fs.String("replay", "", "run the cases of this file instead of generating")
	fs.Parse(os.Args[2:])
	c05tSetup()
	var lines []string
	if *replay != "" {
		b, err := os.ReadFile(*replay)
		if err != nil {
			panic(err)
		}
		for _, l := range strings.Split(string(b), "\n") {
			if strings.TrimSpace(l) != "" {
				lines = append(lines, l)
			}
		}
	} else {
		lines = c05tGen(hx.NewR(*seed), *tier)
	}
	out := hx.NewOut(*cases, *obs)
	for _, l := range lines {
		s := &sinkT{}
		o, nt := c05tRun(l, s)
		for _, k := range s.counts {
			out.Count(k)
		}
		for _, v := range s.viols {
			out.Violate(l, v[0], v[2], v[1])
		}
		out.Emit(l, o, nt)
	}
	out.Close(*stats)
}

func serve() {
	c05tSetup()
	in := bufio.NewReaderSize(os.Stdin, 1<<20)
	w := bufio.NewWriterSize(os.Stdout, 1<<20)
	for {
		line, err := in.ReadString('\n')
		if line == "" && err != nil {
			return
		}
		line = strings.TrimRight(line, "\n")
		switch {
		case strings.HasPrefix(line, "GEN "):
			t := strings.Fields(line)
			seed, _ := strconv.ParseInt(t[1], 10, 64)
			for _, l := range c05tGen(hx.NewR(seed), t[2]) {
				fmt.Fprintln(w, l)
			}
			fmt.Fprintln(w, ".")
		case strings.HasPrefix(line, "RUN "):
			s := &sinkT{}
			var o string
			var nt bool
			if strings.HasPrefix(line[4:], "xc06thrift ") {
				o, nt = c06tRun(line[4:], s)
			} else {
				o, nt = c05tRun(line[4:], s)
			}
			for _, k := range s.counts {
				fmt.Fprintln(w, "#C "+k)
			}
			for _, v := range s.viols {
				fmt.Fprintln(w, "#V "+v[0]+"\t"+v[1]+"\t"+strings.ReplaceAll(strings.ReplaceAll(v[2], "\n", " "), "\t", " "))
			}
			b := "0"
			if nt {
				b = "1"
			}
			fmt.Fprintln(w, "="+b+"\t"+o)
		default:
			fmt.Fprintln(w, "?")
		}
		w.Flush()
		if err != nil {
			return
		}
	}
}
